#!/bin/sh
# Build, offline and from files on disk only, the Lean modules and model drivers of every
# property claimed in MANIFEST.json.  One lake invocation per property so that a module that
# fails to build is reported by that property's own check instead of stopping the others.
cd "$(dirname "$0")"
/venv/bin/python -m vlib.extract_all
props=$(/venv/bin/python -c "import json; print(' '.join(c['property_id'] for c in json.load(open('MANIFEST.json'))['checks']))")
cd lean
rc=0
for p in $props; do
  n=$(echo "$p" | tr 'A-Z' 'a-z')
  echo "== building $p"
  lake build "SqlObjVerif.Props.$p" "drv_$n" || { echo "build of $p failed (its check will report it)"; }
done
exit 0
