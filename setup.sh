#!/bin/sh
# Build the whole Lean library and every model driver, offline, from files on disk.
set -e
cd "$(dirname "$0")"
/venv/bin/python -m vlib.extract_all
cd lean
drivers=""
for f in Drv/C*.lean; do
  [ -f "$f" ] || continue
  n=$(basename "$f" .lean | tr 'A-Z' 'a-z')
  drivers="$drivers drv_$n"
done
lake build SqlObjVerif $drivers
