#!/bin/bash
# run every claimed check on /repo (clean tree) with the given seed/tier; prints one line per check
cd "$(dirname "$0")/.."
seed=${1:-0}; tier=${2:-quick}
for p in $(/venv/bin/python -c "import json; print(' '.join(c['property_id'] for c in json.load(open('MANIFEST.json'))['checks']))"); do
  out=$(VERIF_SEED=$seed ./check $p --tier $tier 2>&1); rc=$?
  echo "$p rc=$rc $(echo "$out" | grep -c '^KNOWN-FINDING') known | $(echo "$out" | grep -v '^KNOWN-FINDING' | tail -1)"
done
