#!/venv/bin/python
"""Confirm a seeded breaking change and run the property's check against it.

usage: tools/try_seed.py PROP NAME PATCH DEMO [NOTE] [--tier quick]
 1. in a scratch worktree of /repo (outside /repo and /verif): demo passes without the patch; with the
    patch the library's test suite still passes and the demo fails;
 2. stores seeded/NAME/{patch.diff,demo.py,meta.json};
 3. applies the patch to /repo, runs ./check PROP, undoes it (git checkout -- .), records whether the
    check reported a VIOLATION, and re-runs nothing else.
"""
import json
import os
import shutil
import subprocess
import sys
import tempfile
import time

VERIF = os.path.dirname(os.path.dirname(os.path.abspath(__file__)))
REPO = '/repo'


def sh(cmd, cwd=None, env=None, timeout=3600):
    p = subprocess.run(cmd, shell=True, cwd=cwd, env=env, stdout=subprocess.PIPE, stderr=subprocess.STDOUT,
                       text=True, timeout=timeout)
    return p.returncode, p.stdout


def main():
    args = [a for a in sys.argv[1:] if not a.startswith('--')]
    prop, name, patch, demo = args[:4]
    orig_demo = demo
    note = args[4] if len(args) > 4 else None
    tier = 'quick'
    if '--thorough' in sys.argv:
        tier = 'thorough'
    skip_confirm = '--skip-confirm' in sys.argv
    meta = {'property': prop, 'name': name, 'confirmed_at': time.strftime('%Y-%m-%dT%H:%M:%S')}
    outdir = os.path.join(VERIF, 'seeded', name)
    os.makedirs(outdir, exist_ok=True)
    if not skip_confirm:
        wt = tempfile.mkdtemp(prefix='seedwt_')
        os.rmdir(wt)
        rc, out = sh('git -C %s worktree add -q %s HEAD' % (REPO, wt))
        assert rc == 0, out
        try:
            env = dict(os.environ, PYTHONPATH=wt)
            env.pop('SQLOBJECT_VERIF', None)
            demo_src = open(demo).read()
            # a demo may name (assert on) its author's worktree: run a copy that names this one
            orig_wt = os.path.dirname(os.path.dirname(os.path.abspath(patch)))
            demo_run = os.path.join(wt, '_seeddemo_run.py')
            open(demo_run, 'w').write(demo_src.replace(orig_wt, wt))
            demo = demo_run
            rc0, out0 = sh('/venv/bin/python %s' % os.path.abspath(demo), cwd=wt, env=env)
            rca, outa = sh('git apply %s' % os.path.abspath(patch), cwd=wt)
            assert rca == 0, 'patch does not apply: ' + outa
            rct, outt = sh('/venv/bin/python -m pytest -q -p no:cacheprovider -x 2>&1 | tail -3', cwd=wt, env=env)
            rc1, out1 = sh('/venv/bin/python %s' % os.path.abspath(demo), cwd=wt, env=env)
            meta['confirm'] = {
                'demo_without_patch_rc': rc0, 'demo_with_patch_rc': rc1,
                'demo_with_patch_output': out1[-600:],
                'suite_with_patch': outt.strip().split('\n')[-1],
                'ran': ['demo.py on HEAD worktree', 'git apply patch.diff', 'pytest -q -x (full suite)', 'demo.py with patch'],
            }
            ok = (rc0 == 0 and rc1 != 0 and ' passed' in outt and 'failed' not in outt.split('\n')[-2:][0])
            meta['confirmed'] = bool(ok)
            print('confirm: demo HEAD rc=%d, demo patched rc=%d, suite: %s -> %s'
                  % (rc0, rc1, meta['confirm']['suite_with_patch'], 'CONFIRMED' if ok else 'NOT CONFIRMED'))
            if wt in demo_src:
                print('warning: demo mentions the agent worktree path')
        finally:
            sh('git -C %s worktree remove --force %s' % (REPO, wt))
            shutil.rmtree(wt, ignore_errors=True)
        if not meta['confirmed']:
            shutil.rmtree(outdir, ignore_errors=True)
            print('not kept')
            return 1
    shutil.copy(patch, os.path.join(outdir, 'patch.diff'))
    shutil.copy(orig_demo, os.path.join(outdir, 'demo.py'))
    if note and os.path.exists(note):
        meta['needs_to_manifest'] = open(note).read()
    # run the check against the patched tree: /repo itself (--inplace: git apply, check, git checkout -- .)
    # or, while other work is using /repo, a scratch worktree passed through VERIF_REPO
    if '--inplace' in sys.argv:
        rc, out = sh('git -C %s status --porcelain' % REPO)
        assert out.strip() == '', '/repo is not clean: ' + out
        rca, outa = sh('git -C %s apply %s' % (REPO, os.path.join(outdir, 'patch.diff')))
        assert rca == 0, outa
        try:
            t0 = time.time()
            rcc, outc = sh('./check %s --tier %s' % (prop, tier), cwd=VERIF)
            wall = time.time() - t0
        finally:
            sh('git -C %s checkout -- .' % REPO)
        meta['ran_on'] = '/repo (git apply; ./check; git checkout -- .)'
    else:
        wt = tempfile.mkdtemp(prefix='seedwt_')
        os.rmdir(wt)
        rc, out = sh('git -C %s worktree add -q %s HEAD' % (REPO, wt))
        assert rc == 0, out
        try:
            rca, outa = sh('git apply %s' % os.path.join(outdir, 'patch.diff'), cwd=wt)
            assert rca == 0, outa
            t0 = time.time()
            rcc, outc = sh('./check %s --tier %s' % (prop, tier), cwd=VERIF, env=dict(os.environ, VERIF_REPO=wt))
            wall = time.time() - t0
        finally:
            sh('git -C %s worktree remove --force %s' % (REPO, wt))
            shutil.rmtree(wt, ignore_errors=True)
        meta['ran_on'] = 'scratch worktree of /repo HEAD with the patch applied, passed to ./check through VERIF_REPO'
    vio = [l for l in outc.split('\n') if l.startswith('VIOLATION')]
    meta['check'] = {'cmd': './check %s --tier %s' % (prop, tier), 'rc': rcc, 'violation_lines': vio,
                     'wall_s': round(wall, 1), 'output_tail': outc[-800:]}
    meta['detected'] = (rcc == 1 and bool(vio))
    if vio:
        rp = vio[0].split('replay=')[1].split()[0]
        try:
            r = json.load(open(os.path.join(VERIF, rp)))
            meta['check']['replay_what'] = r.get('what')
            meta['check']['replay_kind'] = r.get('kind')
        except Exception:
            pass
    mp = os.path.join(outdir, 'meta.json')
    if os.path.exists(mp):
        try:
            old = json.load(open(mp))
            hist = old.get('earlier_runs', [])
            if 'check' in old:
                hist.append({'at': old.get('checked_at', old.get('confirmed_at')), 'detected': old.get('detected'),
                             'violation_lines': old['check'].get('violation_lines'),
                             'replay_what': old['check'].get('replay_what')})
            meta['earlier_runs'] = hist
            for k in ('confirm', 'confirmed', 'needs_to_manifest', 'confirmed_at', 'note'):
                if k in old and k not in meta:
                    meta[k] = old[k]
        except Exception:
            pass
    meta['checked_at'] = time.strftime('%Y-%m-%dT%H:%M:%S')
    json.dump(meta, open(mp, 'w'), indent=1)
    print('check rc=%d %s (%.0fs) -> %s' % (rcc, vio[:1], wall, 'DETECTED' if meta['detected'] else 'MISSED'))
    # make sure the clean tree is green again (also restores Extracted files)
    rcc2, outc2 = sh('./check %s --tier quick' % prop, cwd=VERIF)
    print('clean re-run rc=%d' % rcc2)
    return 0


if __name__ == '__main__':
    sys.exit(main())
