#!/bin/bash
# usage: tools/seed_round.sh <dirprefix> <tag> C02 c02 [C17 c17 ...]  -> /tmp/<dirprefix>_<lc>/_out/patch{1,2,3}; names Cnn-<tag>i
cd "$(dirname "$0")/.."
pre=$1; tag=$2; shift 2
while [ $# -gt 0 ]; do
  P=$1; lc=$2; shift 2
  for i in 1 2 3; do
    d=/tmp/${pre}_$lc/_out
    [ -f $d/patch$i.diff ] || continue
    echo "=== $P-$tag$i"
    tools/try_seed.py $P $P-$tag$i $d/patch$i.diff $d/demo$i.py $d/note$i.txt 2>&1 | tail -3
  done
done
