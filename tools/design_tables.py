#!/usr/bin/env python3
"""Regenerate the generated blocks of DESIGN.md (between <!-- GEN:name --> and <!-- /GEN:name -->):
fixes = the `fix:` commits of /repo with the properties whose known-findings entries they closed,
open  = the open entries of known_findings.json,
seeds = statistics of seeded/*/meta.json per round."""
import json, os, re, subprocess, glob, collections
HERE = os.path.dirname(os.path.dirname(os.path.abspath(__file__)))
kf = json.load(open(os.path.join(HERE, 'known_findings.json')))['findings']
MANUAL = {'6e5c96c': 'C19', '1f0ada0': 'C04', '02a4e51': 'C09', 'acab345': 'C18', '7e1c6b2': 'C01/C03'}


def fixes():
    log = subprocess.run(['git', '-C', os.environ.get('VERIF_REPO', '/repo'), 'log', '--format=%h %s'],
                         capture_output=True, text=True).stdout.splitlines()
    byc = collections.defaultdict(set)
    for e in kf:
        if e['status'].startswith('fixed'):
            byc[e['status'].split()[1].rstrip(',')[:7]].add(e['property'])
    rows = ['| commit | property | repaired behaviour (the failing input is a `fixed:` entry of `known_findings.json` and part of the harness corpus) |',
            '|--------|----------|-----------|']
    for l in reversed(log):
        h, s = l.split(' ', 1)
        if s.startswith('fix:'):
            p = MANUAL.get(h[:7]) or '/'.join(sorted(byc.get(h[:7], []))) or '-'
            rows.append('| %s | %s | %s |' % (h, p, s[5:]))
    return '\n'.join(rows)


def opens():
    out = []
    for e in kf:
        if not e['status'].startswith('fixed'):
            out.append('* `%s` — %s' % (e['key'], e['what']))
    return '\n'.join(out)


def seeds():
    rounds = collections.OrderedDict([('1', 'r1'), ('b', 'r2'), ('c', 'r3'), ('d', 'r4'), ('e', 'r5'), ('f', 'r6')])
    st = {r: dict(n=0, first=0, now=0, replay=0, nfi=0) for r in rounds.values()}
    for d in sorted(glob.glob(os.path.join(HERE, 'seeded', 'C*'))):
        name = os.path.basename(d)
        m = re.match(r'C\d\d-([bcdef]?)(\d)$', name)
        if not m or not os.path.exists(d + '/meta.json'):
            continue
        r = rounds[m.group(1) or '1']
        meta = json.load(open(d + '/meta.json'))
        runs = meta.get('earlier_runs', [])
        first = (runs[0] if runs else meta.get('check', {}))
        firstdet = bool(first.get('rc') == 1) if 'rc' in first else bool(first.get('detected'))
        st[r]['n'] += 1
        st[r]['first'] += 1 if firstdet else 0
        if meta.get('detected'):
            st[r]['now'] += 1
            if meta.get('check', {}).get('replay_kind') == 'unproved':
                st[r]['nfi'] += 1
            else:
                st[r]['replay'] += 1
    rows = ['| round | changes | caught by the check as it was when first tried | caught now | … with a concrete failing input | … as no-failing-input-found |',
            '|---|---|---|---|---|---|']
    for r, s in st.items():
        rows.append('| %s | %d | %d | %d | %d | %d |' % (r, s['n'], s['first'], s['now'], s['replay'], s['nfi']))
    return '\n'.join(rows)


GEN = {'fixes': fixes, 'open': opens, 'seeds': seeds}
p = os.path.join(HERE, 'DESIGN.md')
s = open(p).read()
for k, f in GEN.items():
    s, n = re.subn(r'(<!-- GEN:%s -->\n).*?(<!-- /GEN:%s -->)' % (k, k), lambda m: m.group(1) + f() + '\n' + m.group(2), s, flags=re.S)
    if not n:
        print('marker GEN:%s not found' % k)
open(p, 'w').write(s)
