#!/bin/bash
# re-confirm every stored seeded change on /repo HEAD: demo passes without the patch, fails with it
# usage: tools/confirm_sweep.sh [names...]   (default: all) ; prints one line per seed
cd "$(dirname "$0")/.."
V=$(pwd)
wt=$(mktemp -d /tmp/confwt_XXXXXX); rmdir $wt
git -C /repo worktree add -q --detach $wt HEAD || exit 2
names="$@"; [ -z "$names" ] && names=$(ls seeded | grep -E '^C[0-9]+-')
for n in $names; do
  d=$V/seeded/$n; [ -f $d/patch.diff ] || continue
  cd $wt; git checkout -q -- . ; git clean -fdq
  sed "s#/tmp/w[0-9a-z]*_c[0-9]*#$wt#g; s#/tmp/seedwt_[a-z0-9_]*#$wt#g" $d/demo.py > $wt/_seeddemo_run.py
  PYTHONPATH=$wt timeout 300 /venv/bin/python $wt/_seeddemo_run.py >/dev/null 2>&1; a=$?
  if git apply $d/patch.diff 2>/dev/null; then
    PYTHONPATH=$wt timeout 300 /venv/bin/python $wt/_seeddemo_run.py >/dev/null 2>&1; b=$?
  else b=noapply; fi
  echo "$n head=$a patched=$b"
done
cd $V; git -C /repo worktree remove --force $wt; git -C /repo worktree prune
