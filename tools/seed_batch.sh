#!/bin/bash
# usage: tools/seed_batch.sh C02 c02 [C17 c17 ...]   -> runs try_seed for patch1..3 of /tmp/wt_<lc>/_out
cd "$(dirname "$0")/.."
while [ $# -gt 0 ]; do
  P=$1; lc=$2; shift 2
  for i in 1 2 3; do
    d=/tmp/wt_$lc/_out
    [ -f $d/patch$i.diff ] || continue
    echo "=== $P seed $i"
    tools/try_seed.py $P $P-$i $d/patch$i.diff $d/demo$i.py $d/note$i.txt 2>&1 | tail -3
  done
done
