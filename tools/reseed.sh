#!/bin/bash
# re-run stored seeded changes against the current checks:  tools/reseed.sh C02-1 C02-2 ...
cd "$(dirname "$0")/.."
for name in "$@"; do
  P=${name%%-*}
  t=$(mktemp -d /tmp/reseed_XXXXXX)
  cp seeded/$name/patch.diff $t/patch.diff; cp seeded/$name/demo.py $t/demo.py
  echo "=== $name"
  tools/try_seed.py $P $name $t/patch.diff $t/demo.py --skip-confirm 2>&1 | tail -2
  rm -rf $t
done
