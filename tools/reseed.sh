#!/bin/bash
# re-run stored seeded changes against the current checks:  tools/reseed.sh C02-1 C02-2 ...
cd "$(dirname "$0")/.."
for name in "$@"; do
  P=${name%%-*}
  cp seeded/$name/patch.diff /tmp/_rs_patch.diff; cp seeded/$name/demo.py /tmp/_rs_demo.py
  echo "=== $name"
  tools/try_seed.py $P $name /tmp/_rs_patch.diff /tmp/_rs_demo.py --skip-confirm 2>&1 | tail -2
done
