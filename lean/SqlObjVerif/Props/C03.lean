import SqlObjVerif.Lemmas.Expr
/-!
# C03 — query expressions mean what was built (property theorems only)

`e : BoolE` / `e : NumE` range over ALL well-typed source trees (any depth, operator-built and
function-built nodes, constants on either side, negative constants, empty and NULL-containing IN
lists, and boolean subexpressions used as operands of comparisons / arithmetic — `E.b2i`, read by
SQL as 1 / 0 / NULL); `d : String` over all dialect names; `P : Prec` over ALL assignments of binding powers to
the binary operators (left and right), the prefix operators and `IN`; `D : Dom` over ALL number
domains (values with an embedding of the integers, a value per float literal, negation, partial
arithmetic, comparisons and a truth test obeying `cmp o.flip y x = cmp o x y`, `-(↑n) = ↑(-n)`,
`1` true, `0` false — SQLite's INTEGER/REAL values with IEEE arithmetic and real-vs-integer division
are one such domain, `intDom` is the all-integer one); `r : Row D` over all rows (columns hold
`Option D.V`).  Float constants are `E.fconst` (sign, literal number): what double the literal's text
denotes is checked on the real code by the harness, not modelled.  `buildB` / `buildN` use the operator tables of `Extracted/Expr.lean`,
so the statements are about what the current source emits.
-/
namespace SqlObjVerif.Expr

/-! ## no precedence capture -/

/-- The reference parser recovers exactly the tree the constructors built from the rendered tokens,
    for every dialect and under EVERY precedence / associativity table. -/
theorem C03_parse_render (P : Prec) (d : String) (e : BoolE) :
    parse P (render d false (buildB e)) = some (toT d (buildB e)) := by
  rw [render_eq]; exact parse_rend_top P _ (wf_buildB d e)

/-- the same for numeric expressions (arithmetic, unary minus / plus, negative constants) -/
theorem C03_parse_render_num (P : Prec) (d : String) (e : NumE) :
    parse P (render d false (buildN e)) = some (toT d (buildN e)) := by
  rw [render_eq]; exact parse_rend_top P _ (wf_buildN d e)

/-- and for ANY object graph of SQLOp / SQLModulo / SQLPrefix / Field / int / None nodes whose
    lists occur only as the right operand of `IN` (not only those the typed constructors build) -/
theorem C03_parse_render_nodes (P : Prec) (d : String) (n : Node) (h : wf false (toT d n) = true) :
    parse P (render d false n) = some (toT d n) := by
  rw [render_eq]; exact parse_rend_top P _ h

example : parse ⟨fun _ => 1, fun _ => 1, fun _ => 0, 1⟩
    (render "sqlite" false (buildB (.andOp (.notFn (.isin (.neg (.col 0)) (items [none, some (.const (-1))])))
      (.cmp .lt (.const 2) (.ar .mod (.col 1) (.const 2)))))) =
    some (.bin .and (.un .not (.isin (.un .neg (.col 0)) (.cons .null (.cons (.un .neg (.num 1)) .nil))))
      (.bin .gt (.bin .mod (.col 1) (.num 2)) (.num 2))) := by decide

/-- why `C03_parse_render_nodes` needs its shape hypothesis (the typed constructors never build this):
    `SQLOp.__sqlrepr__` leaves an operand alone when its text merely STARTS with `(`, so a one-item
    list used as an arithmetic operand is read back as a parenthesised expression.  The same rule is
    why `INSubquery` / `LIKE` nodes (outside the fragment) are not protected when their left operand's
    text starts with `(`. -/
example : parse ⟨fun _ => 1, fun _ => 1, fun _ => 0, 1⟩
      (render "sqlite" false (.sqlop .add (.lcons (.int 1) .lnil) (.int 2))) = some (.bin .add (.num 1) (.num 2))
    ∧ toT "sqlite" (.sqlop .add (.lcons (.int 1) .lnil) (.int 2)) = .bin .add (.cons (.num 1) .nil) (.num 2) := by
  decide

/-- why the parentheses matter (non-vacuity of "every table"): the same tokens WITHOUT them are read
    differently by two tables -/
example : parse ⟨fun _ => 4, fun _ => 5, fun _ => 3, 4⟩ [.pre .not, .col 0, .op .eq, .num 1]
      = some (.un .not (.bin .eq (.col 0) (.num 1)))
    ∧ parse ⟨fun _ => 4, fun _ => 5, fun _ => 9, 4⟩ [.pre .not, .col 0, .op .eq, .num 1]
      = some (.bin .eq (.un .not (.col 0)) (.num 1)) := by decide

/-- The typed token stream is determined by the bare lexical stream (operators and keywords as
    spelled words): classifying a word as binary operator iff it follows a complete operand gives the
    rendering back — so `-` / `+` as binary vs. unary, and `NOT`, are never ambiguous in a rendering … -/
theorem C03_tokens_determined_by_text (d : String) (e : BoolE) :
    retag false ((render d false (buildB e)).map Tok.erase) = some (render d false (buildB e)) := by
  rw [render_eq]; exact retag_rend _ (wf_buildB d e)

/-- … and the whole pipeline text → tokens → tree recovers the built tree under every table. -/
theorem C03_parse_render_text (P : Prec) (d : String) (e : BoolE) :
    parseText P ((render d false (buildB e)).map Tok.erase) = some (toT d (buildB e)) := by
  simp only [parseText, C03_tokens_determined_by_text, C03_parse_render]

example : retag false [.lp, .lp, .word "-", .col 0, .rp, .word "-", .lp, .word "-", .num 1, .rp, .rp] =
    some [.lp, .lp, .pre .neg, .col 0, .rp, .op .sub, .lp, .pre .neg, .num 1, .rp, .rp] := by decide

/-! ## the generated SQL denotes the source tree (three-valued logic kept) -/

/-- SQLite-style value of the built syntax tree = three-valued value of the source tree -/
theorem C03_tree_denotes (D : Dom) (d : String) (e : BoolE) (r : Row D) :
    ev D r (toT d (buildB e)) = .v ((evalB D r e).map (b2i D)) :=
  ev_buildB D r d e

theorem C03_tree_denotes_num (D : Dom) (d : String) (e : NumE) (r : Row D) :
    ev D r (toT d (buildN e)) = .v (evalN D r e) :=
  ev_buildN D r d e

/-- denotation of parse(render(build e)) = denotation of e, for every table, dialect, tree and row -/
theorem C03_denotation_preserved (D : Dom) (P : Prec) (d : String) (e : BoolE) (r : Row D) :
    ∃ t, parse P (render d false (buildB e)) = some t ∧ ev D r t = .v ((evalB D r e).map (b2i D)) :=
  ⟨_, C03_parse_render P d e, ev_buildB D r d e⟩

/-- Used as a filter, the rendered expression (as read back by the parser) selects exactly the rows
    on which the source tree is TRUE under three-valued logic (not false, not unknown). -/
theorem C03_filter_sound (D : Dom) (P : Prec) (d : String) (e : BoolE) (r : Row D) :
    selected D P d e r = true ↔ evalB D r e = some true := by
  simp only [selected, C03_parse_render, selects, ev_buildB, truth_b2i]
  simp

example : evalB intDom (fun c => if c = 0 then none else some (2 : Int))
    (.notin (.col 1) (items [some (.const 1), none])) = none := by decide
example : selected intDom ⟨fun _ => 1, fun _ => 1, fun _ => 0, 1⟩ "mysql"
    (.orOp (.eqNone (.col 0)) (.cmp .lt (.col 0) (.const 0))) (fun c => if c = 0 then none else some (2 : Int)) = true := by
  decide

/-- a boolean subexpression used as a number (`(a == None) == (b == None)`,
    `(a == None) + (b == None) >= 1`) is the SAME object; its value is 1 / 0 / NULL.  Together with
    `C03_parse_render` / `C03_filter_sound` (which quantify over trees containing `b2i`) this says a
    NULL test or comparison nested under `= < + - *` is neither captured nor re-valued. -/
theorem C03_bool_as_number (D : Dom) (d : String) (b : BoolE) (r : Row D) :
    buildN (.b2i b) = buildB b ∧ evalN D r (.b2i b) = (evalB D r b).map (b2i D) ∧
    ev D r (toT d (buildN (.b2i b))) = .v ((evalB D r b).map (b2i D)) :=
  ⟨rfl, rfl, ev_buildB D r d b⟩

example : selected intDom ⟨fun _ => 1, fun _ => 1, fun _ => 0, 1⟩ "sqlite"
    (.cmp .eq (.b2i (.eqNone (.col 0))) (.b2i (.eqNone (.col 1)))) (fun c => if c = 0 then none else some (2 : Int)) = false
  ∧ render "sqlite" false (buildB (.cmp .eq (.b2i (.eqNone (.col 0))) (.b2i (.eqNone (.col 1))))) =
    [.lp, .lp, .lp, .col 0, .rp, .op .is, .null, .rp, .op .eq, .lp, .lp, .col 1, .rp, .op .is, .null, .rp, .rp] := by
  decide

/-- `AND(e, e₁, …, eₙ)` (in whichever fold direction the source has) is the n-ary conjunction:
    false if some argument is false, else unknown if some is unknown, else true; `OR` dually -/
theorem C03_andN_sem (D : Dom) (r : Row D) (e : BoolE) (es : List BoolE) :
    evalB D r (andN e es) = all3 ((e :: es).map (evalB D r)) :=
  evalB_foldFn_and D _ r e es

theorem C03_orN_sem (D : Dom) (r : Row D) (e : BoolE) (es : List BoolE) :
    evalB D r (orN e es) = any3 ((e :: es).map (evalB D r)) :=
  evalB_foldFn_or D _ r e es

/-- the disjunction-of-equalities reading of `x IN (…)` used for the parsed text is the textbook
    one used for source trees (empty list: false; NULL item: unknown unless matched) -/
theorem C03_in_sem (D : Dom) (x : Option D.V) (ys : List (Option D.V)) : in3 D x ys = inSpec D x ys :=
  in3_eq_inSpec D x ys

/-! ## `== None` is IS NULL, never `= NULL` -/

/-- `x == None` / `x != None` build exactly what `ISNULL(x)` / `ISNOTNULL(x)` build … -/
theorem C03_eq_none_is_null (x : NumE) :
    buildB (.eqNone x) = buildB (.isnull x) ∧ buildB (.neNone x) = buildB (.isnotnull x) := by
  constructor <;> simp only [buildB, build] <;> split <;> rfl

/-- … which renders `(<x>) IS NULL` / `(<x>) IS NOT NULL` in every dialect -/
theorem C03_eq_none_renders_is_null (d : String) (x : NumE) :
    render d false (buildB (.eqNone x)) =
      Tok.lp :: (wrapS (render d false (buildN x)) ++ [Tok.op .is, Tok.null, Tok.rp]) ∧
    render d false (buildB (.neNone x)) =
      Tok.lp :: (wrapS (render d false (buildN x)) ++ [Tok.op .isNot, Tok.null, Tok.rp]) := by
  rw [(C03_eq_none_is_null x).1, (C03_eq_none_is_null x).2]
  simp [buildB, build, render, renderOp, wrapS, Extracted.isnullOp, Extracted.isnotnullOp]

/-- In no rendering of any tree, in any dialect, is an (in)equality operator (`=`, `<>`, `!=`, `==`)
    immediately followed by `NULL`. -/
theorem C03_no_eq_null (d : String) (e : BoolE) : hasEqNull (render d false (buildB e)) = false := by
  have h := hasEqNull_rend (toT d (buildB e)) false []
  rw [List.append_nil] at h
  rw [render_eq, h, eqNullT_buildB]; rfl

example : hasEqNull [Tok.lp, Tok.col 0, Tok.op .eq, Tok.null, Tok.rp] = true := by decide

/-! ## negative constants and unary minus do not capture -/

/-- a negative constant is `-` followed by its magnitude, and as an operand of any operator it is
    wrapped in its own parentheses -/
theorem C03_negative_constant_wrapped (d : String) (n : Nat) :
    wrapS (render d false (buildN (.const (-(n + 1 : Nat))))) =
      [Tok.lp, Tok.pre .neg, Tok.num (.int (n + 1)), Tok.rp] := by
  have h : (-((n + 1 : Nat) : Int)) < 0 := by omega
  have h2 : (-((n + 1 : Nat) : Int)).natAbs = n + 1 := by omega
  simp only [buildN, build, render, h, if_true, h2, wrapS]
  rfl

/-- whatever the binding power of unary minus, what is read back under a unary minus / plus is
    exactly its operand, and the value is the negated value -/
theorem C03_unary_minus_no_capture (D : Dom) (P : Prec) (d : String) (x : NumE) (r : Row D) :
    parse P (render d false (buildN (.neg x))) = some (.un .neg (toT d (buildN x))) ∧
    ev D r (.un .neg (toT d (buildN x))) = .v ((evalN D r x).map D.neg) := by
  constructor
  · rw [C03_parse_render_num]; rfl
  · have := ev_buildN D r d (.neg x)
    simpa [buildN, build, toT, Extracted.negOp, evalN, eval] using this

/-- a float constant — positive or negative, wherever it stands — is its literal (under a unary
    minus when negative), wrapped in its own parentheses as an operand, recovered by the parser under
    every table, and valued as the constant in every number domain -/
theorem C03_float_constant (D : Dom) (P : Prec) (d : String) (neg : Bool) (i : Nat) (r : Row D) :
    wrapS (render d false (buildN (.fconst neg i))) =
      (if neg then [Tok.lp, Tok.pre .neg, Tok.num (.flt i), Tok.rp] else [Tok.lp, Tok.num (.flt i), Tok.rp]) ∧
    parse P (render d false (buildN (.fconst neg i))) = some (toT d (buildN (.fconst neg i))) ∧
    ev D r (toT d (buildN (.fconst neg i))) = .v (some (if neg then D.neg (D.flt i) else D.flt i)) := by
  refine ⟨?_, C03_parse_render_num P d _, ev_buildN D r d _⟩
  cases neg <;> simp [buildN, build, render, wrapS]

/-! ## `IntCol == <float constant>`: normalised or refused, never re-valued -/

/-- `Cls.q.<IntCol> == x` / `!=` (either way round) with a float `x`: a whole-number float is replaced by
    that int, a float with a fractional part makes the constructor raise `Invalid` (`coerce = none`:
    no SQL is produced); every other tree is left as it is. -/
theorem C03_intcol_eq_float (c : Nat) (neg : Bool) (i n : Nat) :
    coerce (E.cmp .eq (.col c) (.wconst neg i n)) = some (E.cmp .eq (.col c) (.const (wholeVal neg n))) ∧
    coerce (E.cmp .ne (.wconst neg i n) (.col c)) = some (E.cmp .ne (.const (wholeVal neg n)) (.col c)) ∧
    coerce (E.cmp .eq (.col c) (.fconst neg i)) = none ∧
    coerce (E.cmp .ne (.fconst neg i) (.col c)) = none ∧
    coerce (E.cmp .lt (.col c) (.fconst neg i)) = some (E.cmp .lt (.col c) (.fconst neg i)) ∧
    coerce (E.cmp .eq (.rcol c) (.fconst neg i)) = some (E.cmp .eq (.rcol c) (.fconst neg i)) := by
  simp [coerce, coerceCmp]

/-- Whenever construction succeeds, the tree that is built (`coerce e = some e'`, then `build e'`,
    to which every theorem above applies) has the meaning of the tree that was written — in every
    number domain in which the whole-number float literals of the tree compare like their integers. -/
theorem C03_coerce_keeps_meaning (D : Dom) (r : Row D) {s : Srt} (e e' : E s)
    (hw : WholeOk D e) (hc : coerce e = some e') : eval D r e' = eval D r e :=
  (eval_coerce D r e e' hw hc).1

/-- … so the filter that is sent selects exactly the rows on which the written tree is true -/
theorem C03_filter_sound_coerced (D : Dom) (P : Prec) (d : String) (e e' : BoolE) (r : Row D)
    (hw : WholeOk D e) (hc : coerce e = some e') :
    selected D P d e' r = true ↔ evalB D r e = some true := by
  rw [C03_filter_sound]
  have := C03_coerce_keeps_meaning D r e e' hw hc
  simp only [evalB, this]

example : coerce (E.andOp (.cmp .eq (.col 0) (.fconst false 3)) (.cmp .lt (.col 1) (.const 2))) = none := by
  simp [coerce, coerceCmp]

end SqlObjVerif.Expr
