import SqlObjVerif.Lemmas.Expr
import SqlObjVerif.Lemmas.ExprXTop
import SqlObjVerif.Lemmas.SelXNodes
/-!
# C03 — query expressions mean what was built (property theorems only)

`e : BoolE` / `e : NumE` range over ALL well-typed source trees (any depth, operator-built and
function-built nodes, constants on either side, negative constants, empty and NULL-containing IN
lists, and boolean subexpressions used as operands of comparisons / arithmetic — `E.b2i`, read by
SQL as 1 / 0 / NULL); `d : String` over all dialect names; `P : Prec` over ALL assignments of binding powers to
the binary operators (left and right), the prefix operators and `IN`; `D : Dom` over ALL number
domains (values with an embedding of the integers, a value per float literal, negation, partial
arithmetic, comparisons and a truth test obeying `cmp o.flip y x = cmp o x y`, `-(↑n) = ↑(-n)`,
`1` true, `0` false — SQLite's INTEGER/REAL values with IEEE arithmetic and real-vs-integer division
are one such domain, `intDom` is the all-integer one); `r : Row D` over all rows (columns hold
`Option D.V`).  Float constants are `E.fconst` (sign, literal number): what double the literal's text
denotes is checked on the real code by the harness, not modelled.  `buildB` / `buildN` use the operator tables of `Extracted/Expr.lean`,
so the statements are about what the current source emits.
-/
namespace SqlObjVerif.Expr

/-! ## no precedence capture -/

/-- The reference parser recovers exactly the tree the constructors built from the rendered tokens,
    for every dialect and under EVERY precedence / associativity table. -/
theorem C03_parse_render (P : Prec) (d : String) (e : BoolE) :
    parse P (render d false (buildB e)) = some (toT d (buildB e)) := by
  rw [render_eq]; exact parse_rend_top P _ (wf_buildB d e)

/-- the same for numeric expressions (arithmetic, unary minus / plus, negative constants) -/
theorem C03_parse_render_num (P : Prec) (d : String) (e : NumE) :
    parse P (render d false (buildN e)) = some (toT d (buildN e)) := by
  rw [render_eq]; exact parse_rend_top P _ (wf_buildN d e)

/-- and for ANY object graph of SQLOp / SQLModulo / SQLPrefix / Field / int / None nodes whose
    lists occur only as the right operand of `IN` (not only those the typed constructors build) -/
theorem C03_parse_render_nodes (P : Prec) (d : String) (n : Node) (h : wf false (toT d n) = true) :
    parse P (render d false n) = some (toT d n) := by
  rw [render_eq]; exact parse_rend_top P _ h

example : parse ⟨fun _ => 1, fun _ => 1, fun _ => 0, 1⟩
    (render "sqlite" false (buildB (.andOp (.notFn (.isin (.neg (.col 0)) (items [none, some (.const (-1))])))
      (.cmp .lt (.const 2) (.ar .mod (.col 1) (.const 2)))))) =
    some (.bin .and (.un .not (.isin (.un .neg (.col 0)) (.cons .null (.cons (.un .neg (.num 1)) .nil))))
      (.bin .gt (.bin .mod (.col 1) (.num 2)) (.num 2))) := by decide

/-- why `C03_parse_render_nodes` needs its shape hypothesis (the typed constructors never build this):
    `SQLOp.__sqlrepr__` leaves an operand alone when its text merely STARTS with `(`, so a one-item
    list used as an arithmetic operand is read back as a parenthesised expression.  The same rule is
    why `INSubquery` / `LIKE` nodes (outside the fragment) are not protected when their left operand's
    text starts with `(`. -/
example : parse ⟨fun _ => 1, fun _ => 1, fun _ => 0, 1⟩
      (render "sqlite" false (.sqlop .add (.lcons (.int 1) .lnil) (.int 2))) = some (.bin .add (.num 1) (.num 2))
    ∧ toT "sqlite" (.sqlop .add (.lcons (.int 1) .lnil) (.int 2)) = .bin .add (.cons (.num 1) .nil) (.num 2) := by
  decide

/-- why the parentheses matter (non-vacuity of "every table"): the same tokens WITHOUT them are read
    differently by two tables -/
example : parse ⟨fun _ => 4, fun _ => 5, fun _ => 3, 4⟩ [.pre .not, .col 0, .op .eq, .num 1]
      = some (.un .not (.bin .eq (.col 0) (.num 1)))
    ∧ parse ⟨fun _ => 4, fun _ => 5, fun _ => 9, 4⟩ [.pre .not, .col 0, .op .eq, .num 1]
      = some (.bin .eq (.un .not (.col 0)) (.num 1)) := by decide

/-- The typed token stream is determined by the bare lexical stream (operators and keywords as
    spelled words): classifying a word as binary operator iff it follows a complete operand gives the
    rendering back — so `-` / `+` as binary vs. unary, and `NOT`, are never ambiguous in a rendering … -/
theorem C03_tokens_determined_by_text (d : String) (e : BoolE) :
    retag false ((render d false (buildB e)).map Tok.erase) = some (render d false (buildB e)) := by
  rw [render_eq]; exact retag_rend _ (wf_buildB d e)

/-- … and the whole pipeline text → tokens → tree recovers the built tree under every table. -/
theorem C03_parse_render_text (P : Prec) (d : String) (e : BoolE) :
    parseText P ((render d false (buildB e)).map Tok.erase) = some (toT d (buildB e)) := by
  simp only [parseText, C03_tokens_determined_by_text, C03_parse_render]

example : retag false [.lp, .lp, .word "-", .col 0, .rp, .word "-", .lp, .word "-", .num 1, .rp, .rp] =
    some [.lp, .lp, .pre .neg, .col 0, .rp, .op .sub, .lp, .pre .neg, .num 1, .rp, .rp] := by decide

/-! ## the generated SQL denotes the source tree (three-valued logic kept) -/

/-- SQLite-style value of the built syntax tree = three-valued value of the source tree -/
theorem C03_tree_denotes (D : Dom) (d : String) (e : BoolE) (r : Row D) :
    ev D r (toT d (buildB e)) = .v ((evalB D r e).map (b2i D)) :=
  ev_buildB D r d e

theorem C03_tree_denotes_num (D : Dom) (d : String) (e : NumE) (r : Row D) :
    ev D r (toT d (buildN e)) = .v (evalN D r e) :=
  ev_buildN D r d e

/-- denotation of parse(render(build e)) = denotation of e, for every table, dialect, tree and row -/
theorem C03_denotation_preserved (D : Dom) (P : Prec) (d : String) (e : BoolE) (r : Row D) :
    ∃ t, parse P (render d false (buildB e)) = some t ∧ ev D r t = .v ((evalB D r e).map (b2i D)) :=
  ⟨_, C03_parse_render P d e, ev_buildB D r d e⟩

/-- Used as a filter, the rendered expression (as read back by the parser) selects exactly the rows
    on which the source tree is TRUE under three-valued logic (not false, not unknown). -/
theorem C03_filter_sound (D : Dom) (P : Prec) (d : String) (e : BoolE) (r : Row D) :
    selected D P d e r = true ↔ evalB D r e = some true := by
  simp only [selected, C03_parse_render, selects, ev_buildB, truth_b2i]
  simp

example : evalB intDom (fun c => if c = 0 then none else some (2 : Int))
    (.notin (.col 1) (items [some (.const 1), none])) = none := by decide
example : selected intDom ⟨fun _ => 1, fun _ => 1, fun _ => 0, 1⟩ "mysql"
    (.orOp (.eqNone (.col 0)) (.cmp .lt (.col 0) (.const 0))) (fun c => if c = 0 then none else some (2 : Int)) = true := by
  decide

/-- a boolean subexpression used as a number (`(a == None) == (b == None)`,
    `(a == None) + (b == None) >= 1`) is the SAME object; its value is 1 / 0 / NULL.  Together with
    `C03_parse_render` / `C03_filter_sound` (which quantify over trees containing `b2i`) this says a
    NULL test or comparison nested under `= < + - *` is neither captured nor re-valued. -/
theorem C03_bool_as_number (D : Dom) (d : String) (b : BoolE) (r : Row D) :
    buildN (.b2i b) = buildB b ∧ evalN D r (.b2i b) = (evalB D r b).map (b2i D) ∧
    ev D r (toT d (buildN (.b2i b))) = .v ((evalB D r b).map (b2i D)) :=
  ⟨rfl, rfl, ev_buildB D r d b⟩

example : selected intDom ⟨fun _ => 1, fun _ => 1, fun _ => 0, 1⟩ "sqlite"
    (.cmp .eq (.b2i (.eqNone (.col 0))) (.b2i (.eqNone (.col 1)))) (fun c => if c = 0 then none else some (2 : Int)) = false
  ∧ render "sqlite" false (buildB (.cmp .eq (.b2i (.eqNone (.col 0))) (.b2i (.eqNone (.col 1))))) =
    [.lp, .lp, .lp, .col 0, .rp, .op .is, .null, .rp, .op .eq, .lp, .lp, .col 1, .rp, .op .is, .null, .rp, .rp] := by
  decide

/-- `AND(e, e₁, …, eₙ)` (in whichever fold direction the source has) is the n-ary conjunction:
    false if some argument is false, else unknown if some is unknown, else true; `OR` dually -/
theorem C03_andN_sem (D : Dom) (r : Row D) (e : BoolE) (es : List BoolE) :
    evalB D r (andN e es) = all3 ((e :: es).map (evalB D r)) :=
  evalB_foldFn_and D _ r e es

theorem C03_orN_sem (D : Dom) (r : Row D) (e : BoolE) (es : List BoolE) :
    evalB D r (orN e es) = any3 ((e :: es).map (evalB D r)) :=
  evalB_foldFn_or D _ r e es

/-- the disjunction-of-equalities reading of `x IN (…)` used for the parsed text is the textbook
    one used for source trees (empty list: false; NULL item: unknown unless matched) -/
theorem C03_in_sem (D : Dom) (x : Option D.V) (ys : List (Option D.V)) : in3 D x ys = inSpec D x ys :=
  in3_eq_inSpec D x ys

/-! ## `== None` is IS NULL, never `= NULL` -/

/-- `x == None` / `x != None` build exactly what `ISNULL(x)` / `ISNOTNULL(x)` build … -/
theorem C03_eq_none_is_null (x : NumE) :
    buildB (.eqNone x) = buildB (.isnull x) ∧ buildB (.neNone x) = buildB (.isnotnull x) := by
  constructor <;> simp only [buildB, build] <;> split <;> rfl

/-- … which renders `(<x>) IS NULL` / `(<x>) IS NOT NULL` in every dialect -/
theorem C03_eq_none_renders_is_null (d : String) (x : NumE) :
    render d false (buildB (.eqNone x)) =
      Tok.lp :: (wrapS (render d false (buildN x)) ++ [Tok.op .is, Tok.null, Tok.rp]) ∧
    render d false (buildB (.neNone x)) =
      Tok.lp :: (wrapS (render d false (buildN x)) ++ [Tok.op .isNot, Tok.null, Tok.rp]) := by
  rw [(C03_eq_none_is_null x).1, (C03_eq_none_is_null x).2]
  simp [buildB, build, render, renderOp, wrapS, Extracted.isnullOp, Extracted.isnotnullOp]

/-- In no rendering of any tree, in any dialect, is an (in)equality operator (`=`, `<>`, `!=`, `==`)
    immediately followed by `NULL`. -/
theorem C03_no_eq_null (d : String) (e : BoolE) : hasEqNull (render d false (buildB e)) = false := by
  have h := hasEqNull_rend (toT d (buildB e)) false []
  rw [List.append_nil] at h
  rw [render_eq, h, eqNullT_buildB]; rfl

example : hasEqNull [Tok.lp, Tok.col 0, Tok.op .eq, Tok.null, Tok.rp] = true := by decide

/-! ## negative constants and unary minus do not capture -/

/-- a negative constant is `-` followed by its magnitude, and as an operand of any operator it is
    wrapped in its own parentheses -/
theorem C03_negative_constant_wrapped (d : String) (n : Nat) :
    wrapS (render d false (buildN (.const (-(n + 1 : Nat))))) =
      [Tok.lp, Tok.pre .neg, Tok.num (.int (n + 1)), Tok.rp] := by
  have h : (-((n + 1 : Nat) : Int)) < 0 := by omega
  have h2 : (-((n + 1 : Nat) : Int)).natAbs = n + 1 := by omega
  simp only [buildN, build, render, h, if_true, h2, wrapS]
  rfl

/-- whatever the binding power of unary minus, what is read back under a unary minus / plus is
    exactly its operand, and the value is the negated value -/
theorem C03_unary_minus_no_capture (D : Dom) (P : Prec) (d : String) (x : NumE) (r : Row D) :
    parse P (render d false (buildN (.neg x))) = some (.un .neg (toT d (buildN x))) ∧
    ev D r (.un .neg (toT d (buildN x))) = .v ((evalN D r x).map D.neg) := by
  constructor
  · rw [C03_parse_render_num]; rfl
  · have := ev_buildN D r d (.neg x)
    simpa [buildN, build, toT, Extracted.negOp, evalN, eval] using this

/-- a float constant — positive or negative, wherever it stands — is its literal (under a unary
    minus when negative), wrapped in its own parentheses as an operand, recovered by the parser under
    every table, and valued as the constant in every number domain -/
theorem C03_float_constant (D : Dom) (P : Prec) (d : String) (neg : Bool) (i : Nat) (r : Row D) :
    wrapS (render d false (buildN (.fconst neg i))) =
      (if neg then [Tok.lp, Tok.pre .neg, Tok.num (.flt i), Tok.rp] else [Tok.lp, Tok.num (.flt i), Tok.rp]) ∧
    parse P (render d false (buildN (.fconst neg i))) = some (toT d (buildN (.fconst neg i))) ∧
    ev D r (toT d (buildN (.fconst neg i))) = .v (some (if neg then D.neg (D.flt i) else D.flt i)) := by
  refine ⟨?_, C03_parse_render_num P d _, ev_buildN D r d _⟩
  cases neg <;> simp [buildN, build, render, wrapS]

/-! ## `IntCol == <float constant>`: normalised or refused, never re-valued -/

/-- `Cls.q.<IntCol> == x` / `!=` (either way round) with a float `x`: a whole-number float is replaced by
    that int, a float with a fractional part makes the constructor raise `Invalid` (`coerce = none`:
    no SQL is produced); every other tree is left as it is. -/
theorem C03_intcol_eq_float (c : Nat) (neg : Bool) (i n : Nat) :
    coerce (E.cmp .eq (.col c) (.wconst neg i n)) = some (E.cmp .eq (.col c) (.const (wholeVal neg n))) ∧
    coerce (E.cmp .ne (.wconst neg i n) (.col c)) = some (E.cmp .ne (.const (wholeVal neg n)) (.col c)) ∧
    coerce (E.cmp .eq (.col c) (.fconst neg i)) = none ∧
    coerce (E.cmp .ne (.fconst neg i) (.col c)) = none ∧
    coerce (E.cmp .lt (.col c) (.fconst neg i)) = some (E.cmp .lt (.col c) (.fconst neg i)) ∧
    coerce (E.cmp .eq (.rcol c) (.fconst neg i)) = some (E.cmp .eq (.rcol c) (.fconst neg i)) := by
  simp [coerce, coerceCmp]

/-- Whenever construction succeeds, the tree that is built (`coerce e = some e'`, then `build e'`,
    to which every theorem above applies) has the meaning of the tree that was written — in every
    number domain in which the whole-number float literals of the tree compare like their integers. -/
theorem C03_coerce_keeps_meaning (D : Dom) (r : Row D) {s : Srt} (e e' : E s)
    (hw : WholeOk D e) (hc : coerce e = some e') : eval D r e' = eval D r e :=
  (eval_coerce D r e e' hw hc).1

/-- … so the filter that is sent selects exactly the rows on which the written tree is true -/
theorem C03_filter_sound_coerced (D : Dom) (P : Prec) (d : String) (e e' : BoolE) (r : Row D)
    (hw : WholeOk D e) (hc : coerce e = some e') :
    selected D P d e' r = true ↔ evalB D r e = some true := by
  rw [C03_filter_sound]
  have := C03_coerce_keeps_meaning D r e e' hw hc
  simp only [evalB, this]

example : coerce (E.andOp (.cmp .eq (.col 0) (.fconst false 3)) (.cmp .lt (.col 1) (.const 2))) = none := by
  simp [coerce, coerceCmp]

end SqlObjVerif.Expr

namespace SqlObjVerif.ExprX
open SqlObjVerif.PyExpr SqlObjVerif.PyExpr.Extracted

/-! ## C03 about the TRANSLATED source (`Extracted/PyExpr.lean`, regenerated from sqlbuilder.py / converters.py) -/

/-- `SQLOp.__sqlrepr__` as translated: for EVERY interface, receiver class, dialect value and operand renderings
    `s1`, `s2` it returns `opStr` (the paren rule on text) … -/
theorem C03_translated_SQLOp_sqlrepr_text (I : Iface) (cls : String) (fs : List (String × Val)) (db : Val)
    (op s1 s2 : Str) (e1 e2 : Val) (hop : aget "op" fs = some (.str op)) (h1 : aget "expr1" fs = some e1)
    (h2 : aget "expr2" fs = some e2) (hs1 : I.call "sqlrepr" [e1, db] = .ok (.str s1))
    (hs2 : I.call "sqlrepr" [e2, db] = .ok (.str s2)) (hn1 : s1 ≠ []) (hn2 : s2 ≠ []) :
    run I SQLOp_sqlrepr [.obj cls fs, db] = .ret (.str (opStr op s1 s2 (I.isSub (typeName e2) "Subquery"))) :=
  SQLOp_sqlrepr_spec I cls fs db op s1 s2 e1 e2 hop h1 h2 hs1 hs2 hn1 hn2

/-- … which is the model's `renderOp` on op nodes: whenever the operand texts spell token lists `t1`, `t2` (and the
    two tests of the paren rule agree on them, `Rep`), the returned text spells `renderOp (op o) t1 t2` -/
theorem C03_translated_SQLOp_sqlrepr_eq_model (P : Params) (I : Iface) (cls : String) (fs : List (String × Val))
    (db : Val) (o : BinOp) (s1 s2 : Str) (e1 e2 : Val) (t1 t2 : List Tok)
    (hop : aget "op" fs = some (.str (binText o))) (h1 : aget "expr1" fs = some e1) (h2 : aget "expr2" fs = some e2)
    (hs1 : I.call "sqlrepr" [e1, db] = .ok (.str s1)) (hs2 : I.call "sqlrepr" [e2, db] = .ok (.str s2))
    (hn1 : s1 ≠ []) (hn2 : s2 ≠ []) (hsub : I.isSub (typeName e2) "Subquery" = false)
    (r1 : Rep P t1 s1) (r2 : Rep P t2 s2) :
    ∃ s, run I SQLOp_sqlrepr [.obj cls fs, db] = .ret (.str s) ∧ Rep P (Expr.renderOp (Expr.Tok.op o) t1 t2) s := by
  refine ⟨_, SQLOp_sqlrepr_spec I cls fs db _ s1 s2 e1 e2 hop h1 h2 hs1 hs2 hn1 hn2, ?_⟩
  rw [hsub]
  exact rep_op P (.op o) _ rfl r1 (wrap_rep r2)

theorem C03_translated_SQLPrefix_sqlrepr_eq_model (P : Params) (I : Iface) (cls : String) (fs : List (String × Val))
    (db : Val) (p : PreOp) (s : Str) (e : Val) (t : List Tok) (hp : aget "prefix" fs = some (.str (preText p)))
    (he : aget "expr" fs = some e) (hs : I.call "sqlrepr" [e, db] = .ok (.str s)) (r : Spells P t s) :
    run I SQLPrefix_sqlrepr [.obj cls fs, db] = .ret (.str (prefixStr (preText p) s)) ∧
    Spells P (Expr.Tok.pre p :: t) (prefixStr (preText p) s) :=
  ⟨SQLPrefix_sqlrepr_spec I cls fs db _ s e hp he hs, Spells.tok (.pre p) (Spells.blank r)⟩

/-- `SQLModulo.__sqlrepr__`: the infix form exactly for the dialects of `Extracted.moduloInfixDialects`, `MOD(a, b)`
    for every other dialect string -/
theorem C03_translated_SQLModulo_sqlrepr_eq_model (I : Iface) (cls : String) (fs : List (String × Val)) (d : String)
    (s1 s2 : Str) (e1 e2 : Val) (h1 : aget "expr1" fs = some e1) (h2 : aget "expr2" fs = some e2)
    (hs1 : I.call "sqlrepr" [e1, .str (strOf d)] = .ok (.str s1))
    (hs2 : I.call "sqlrepr" [e2, .str (strOf d)] = .ok (.str s2)) :
    run I SQLModulo_sqlrepr [.obj cls fs, .str (strOf d)] =
      if Expr.moduloInfix d = true then (I.clsCall "SQLOp" "__sqlrepr__" [.obj cls fs, .str (strOf d)]).toOut
      else .ret (.str (modStr s1 s2)) := by
  rw [SQLModulo_sqlrepr_spec I cls fs _ s1 s2 e1 e2 h1 h2 hs1 hs2]
  by_cases hd : Expr.moduloInfix d = true
  · rw [if_pos ((strOf_sqlite d).mpr hd), if_pos hd]
  · rw [if_neg (fun h => hd ((strOf_sqlite d).mp h)), if_neg hd]

/-- lists / tuples: `SequenceConverter` gives `(` items joined by `, ` `)` -/
theorem C03_translated_sequence_eq_model (I : Iface) (db : Val) (vs : List Val) (ss : List Str)
    (h : AllR (fun v s => I.call "sqlrepr" [v, db] = .ok (.str s)) vs ss) :
    run I f_SequenceConverter [.list vs, db] = .ret (.str (seqStr ss)) :=
  SequenceConverter_list I db vs ss h

/-- the leaf converters: `None` is `NULL`, an int / float is its `repr` -/
theorem C03_translated_leaf_converters (I : Iface) (db v : Val) (i : Int) (b : Bool) (n : Nat) :
    run I f_NoneConverter [v, db] = .ret (.str nullText) ∧
    run I f_IntConverter [.int i, db] = .ret (.str (I.reprInt i)) ∧
    run I f_FloatConverter [.flt b n, db] = .ret (.str (I.reprFlt b n)) :=
  ⟨NoneConverter_spec I v db, IntConverter_spec I i db, FloatConverter_spec I b n db⟩

/-- WHOLE GRAPHS: `sqlrepr(node, d)` run by the translated `__sqlrepr__` methods and converters (dispatch = the
    interpreter's recursion on the graph) is the text-level hand model, for every node graph and every dialect string;
    for expression-shaped graphs that text spells the token rendering of the hand model -/
theorem C03_translated_sqlrepr_eq_model (P : Params) (hT : TextOk P) (d : String) (n : Node) (k : Nat)
    (hk : depth n ≤ k) :
    sqlreprX P k (toVal P n) (strOf d) = .ok (.str (renderS P d n)) ∧
    (Expr.wf false (Expr.toT d n) = true → Spells P (Expr.render d false n) (renderS P d n)) :=
  ⟨sqlrepr_toVal P d hT.leafOk n k hk, spells_render P hT d n⟩

/-! ### constructors -/

theorem C03_translated_add_eq_model (P : Params) (k : Nat) (a b : Node) (ha : isObjNode a = true) :
    callM (ifaceF P (k + 1)) (toVal P a) "__add__" [toVal P b] = .ok (toVal P (Expr.applyOv Expr.Extracted.add a b)) :=
  callM_ov P k a b ha _ _ _ rs_add add_spec
theorem C03_translated_radd_eq_model (P : Params) (k : Nat) (a b : Node) (ha : isObjNode a = true) :
    callM (ifaceF P (k + 1)) (toVal P a) "__radd__" [toVal P b] = .ok (toVal P (Expr.applyOv Expr.Extracted.radd a b)) :=
  callM_ov P k a b ha _ _ _ rs_radd radd_spec
theorem C03_translated_sub_eq_model (P : Params) (k : Nat) (a b : Node) (ha : isObjNode a = true) :
    callM (ifaceF P (k + 1)) (toVal P a) "__sub__" [toVal P b] = .ok (toVal P (Expr.applyOv Expr.Extracted.sub a b)) :=
  callM_ov P k a b ha _ _ _ rs_sub sub_spec
theorem C03_translated_rsub_eq_model (P : Params) (k : Nat) (a b : Node) (ha : isObjNode a = true) :
    callM (ifaceF P (k + 1)) (toVal P a) "__rsub__" [toVal P b] = .ok (toVal P (Expr.applyOv Expr.Extracted.rsub a b)) :=
  callM_ov P k a b ha _ _ _ rs_rsub rsub_spec
theorem C03_translated_mul_eq_model (P : Params) (k : Nat) (a b : Node) (ha : isObjNode a = true) :
    callM (ifaceF P (k + 1)) (toVal P a) "__mul__" [toVal P b] = .ok (toVal P (Expr.applyOv Expr.Extracted.mul a b)) :=
  callM_ov P k a b ha _ _ _ rs_mul mul_spec
theorem C03_translated_rmul_eq_model (P : Params) (k : Nat) (a b : Node) (ha : isObjNode a = true) :
    callM (ifaceF P (k + 1)) (toVal P a) "__rmul__" [toVal P b] = .ok (toVal P (Expr.applyOv Expr.Extracted.rmul a b)) :=
  callM_ov P k a b ha _ _ _ rs_rmul rmul_spec
theorem C03_translated_truediv_eq_model (P : Params) (k : Nat) (a b : Node) (ha : isObjNode a = true) :
    callM (ifaceF P (k + 1)) (toVal P a) "__truediv__" [toVal P b] = .ok (toVal P (Expr.applyOv Expr.Extracted.div a b)) :=
  callM_ov P k a b ha _ _ _ rs_truediv truediv_spec
theorem C03_translated_rtruediv_eq_model (P : Params) (k : Nat) (a b : Node) (ha : isObjNode a = true) :
    callM (ifaceF P (k + 1)) (toVal P a) "__rtruediv__" [toVal P b] =
      .ok (toVal P (Expr.applyOv Expr.Extracted.rdiv a b)) :=
  callM_ov P k a b ha _ _ _ rs_rtruediv rtruediv_spec
theorem C03_translated_lt_eq_model (P : Params) (k : Nat) (a b : Node) (ha : isObjNode a = true) :
    callM (ifaceF P (k + 1)) (toVal P a) "__lt__" [toVal P b] = .ok (toVal P (Expr.applyOv Expr.Extracted.lt a b)) :=
  callM_ov P k a b ha _ _ _ rs_lt lt_spec
theorem C03_translated_le_eq_model (P : Params) (k : Nat) (a b : Node) (ha : isObjNode a = true) :
    callM (ifaceF P (k + 1)) (toVal P a) "__le__" [toVal P b] = .ok (toVal P (Expr.applyOv Expr.Extracted.le a b)) :=
  callM_ov P k a b ha _ _ _ rs_le le_spec
theorem C03_translated_gt_eq_model (P : Params) (k : Nat) (a b : Node) (ha : isObjNode a = true) :
    callM (ifaceF P (k + 1)) (toVal P a) "__gt__" [toVal P b] = .ok (toVal P (Expr.applyOv Expr.Extracted.gt a b)) :=
  callM_ov P k a b ha _ _ _ rs_gt gt_spec
theorem C03_translated_ge_eq_model (P : Params) (k : Nat) (a b : Node) (ha : isObjNode a = true) :
    callM (ifaceF P (k + 1)) (toVal P a) "__ge__" [toVal P b] = .ok (toVal P (Expr.applyOv Expr.Extracted.ge a b)) :=
  callM_ov P k a b ha _ _ _ rs_ge ge_spec
theorem C03_translated_and_eq_model (P : Params) (k : Nat) (a b : Node) (ha : isObjNode a = true) :
    callM (ifaceF P (k + 1)) (toVal P a) "__and__" [toVal P b] = .ok (toVal P (Expr.applyOv Expr.Extracted.andOp a b)) :=
  callM_ov P k a b ha _ _ _ rs_and and_spec
theorem C03_translated_or_eq_model (P : Params) (k : Nat) (a b : Node) (ha : isObjNode a = true) :
    callM (ifaceF P (k + 1)) (toVal P a) "__or__" [toVal P b] = .ok (toVal P (Expr.applyOv Expr.Extracted.orOp a b)) :=
  callM_ov P k a b ha _ _ _ rs_or or_spec
theorem C03_translated_neg_eq_model (P : Params) (k : Nat) (a : Node) (ha : isObjNode a = true) :
    callM (ifaceF P (k + 1)) (toVal P a) "__neg__" [] = .ok (toVal P (.prefix Expr.Extracted.negOp a)) :=
  callM_pre P k a ha _ _ _ rs_neg neg_spec
theorem C03_translated_pos_eq_model (P : Params) (k : Nat) (a : Node) (ha : isObjNode a = true) :
    callM (ifaceF P (k + 1)) (toVal P a) "__pos__" [] = .ok (toVal P (.prefix Expr.Extracted.posOp a)) :=
  callM_pre P k a ha _ _ _ rs_pos pos_spec
theorem C03_translated_invert_eq_model (P : Params) (k : Nat) (a : Node) (ha : isObjNode a = true) :
    callM (ifaceF P (k + 1)) (toVal P a) "__invert__" [] = .ok (toVal P (.prefix Expr.Extracted.invertOp a)) :=
  callM_pre P k a ha _ _ _ rs_invert invert_spec
theorem C03_translated_mod_eq_model (P : Params) (k : Nat) (a b : Node) (ha : isObjNode a = true) :
    callM (ifaceF P (k + 2)) (toVal P a) "__mod__" [toVal P b] = .ok (toVal P (.modulo a b)) :=
  callM_mod P k a b ha

/-- `__eq__` / `__ne__` of `SQLExpression` and of `SQLObjectField` (the column's `from_python` conversion is the
    parameter `P.fromPython`, here the identity on the compared constant), against a value and against `None` -/
theorem C03_translated_eq_ne_eq_model (P : Params) (hfp : ∀ c v, P.fromPython c v = .ok v) (k : Nat) (a b : Node)
    (ha : isObjNode a = true) (hb : (nodeCls b == "NoneType") = false) :
    callM (ifaceF P (k + 2)) (toVal P a) "__eq__" [toVal P b] =
      .ok (toVal P (Expr.applyOv (Expr.cmpOv (nodeCls a == "SQLObjectField") .eq) a b)) ∧
    callM (ifaceF P (k + 2)) (toVal P a) "__ne__" [toVal P b] =
      .ok (toVal P (Expr.applyOv (Expr.cmpOv (nodeCls a == "SQLObjectField") .ne) a b)) ∧
    callM (ifaceF P (k + 2)) (toVal P a) "__eq__" [.none] =
      .ok (toVal P (if nodeCls a == "SQLObjectField"
        then Expr.noneRule Expr.Extracted.fieldEqNone Expr.Extracted.fieldEq a
        else Expr.noneRule Expr.Extracted.exprEqNone Expr.Extracted.exprEq a)) ∧
    callM (ifaceF P (k + 2)) (toVal P a) "__ne__" [.none] =
      .ok (toVal P (if nodeCls a == "SQLObjectField"
        then Expr.noneRule Expr.Extracted.fieldNeNone Expr.Extracted.fieldNe a
        else Expr.noneRule Expr.Extracted.exprNeNone Expr.Extracted.exprNe a)) :=
  ⟨(eq_direct P hfp (k + 1) a b ha hb).1, (eq_direct P hfp (k + 1) a b ha hb).2, (eq_none P k a ha).1, (eq_none P k a ha).2⟩

/-- when the conversion refuses the constant, `IntCol == x` raises what `from_python` raises and builds nothing -/
theorem C03_translated_field_eq_refused (I : Iface) (c : String) (fs : List (String × Val)) (b : Val) (e : Exc)
    (hb : isNoneV b = false) (h : I.method (.obj c fs) "_from_python" [b] = .exc e) :
    run I SQLObjectField_eq [.obj c fs, b] = .exc e ∧ run I SQLObjectField_ne [.obj c fs, b] = .exc e := by
  rw [field_eq_spec, field_ne_spec, hb, h]; exact ⟨rfl, rfl⟩

/-- `l <arith> r` with Python's dispatch (direct, reflected when `l` is a plain number, node constructor when both
    are) = `build` -/
theorem C03_translated_arith_eq_model (P : Params) (k : Nat) (o : Expr.ArOp) (ho : o ≠ .mod) (l r : Expr.NumE) :
    binopX (ifaceF P (k + 3)) (arNames o).1 (arNames o).2.1 (arNames o).2.2
      (toVal P (Expr.buildN l)) (toVal P (Expr.buildN r)) = .ok (toVal P (Expr.buildN (.ar o l r))) :=
  binopX_build P k o ho l r

/-- `l <cmp> r` with Python's dispatch (reflected method of `r` when `l` is a plain number, and FIRST when `type(r)` is
    a proper subclass of `type(l)`: `SQLOp` vs `SQLModulo`) = `build` -/
theorem C03_translated_cmp_eq_model (P : Params) (hfp : ∀ c v, P.fromPython c v = .ok v) (k : Nat) (o : Expr.CmpOp)
    (l r : Expr.NumE) :
    cmpX (ifaceF P (k + 3)) (cmpNames o).1 (cmpNames o).2.1 (cmpNames o).2.2
      (toVal P (Expr.buildN l)) (toVal P (Expr.buildN r)) = .ok (toVal P (Expr.buildB (.cmp o l r))) :=
  cmpX_build P hfp k o l r

/-- `AND(e, e₁, …, eₙ)` through the translated recursion = `build (andN e es)`, any number of arguments -/
theorem C03_translated_AND_eq_model (P : Params) (e : Expr.BoolE) (es : List Expr.BoolE) (k : Nat) :
    callD (ifaceF P (k + es.length + 1)) "AND" ((e :: es).map fun x => toVal P (Expr.buildB x)) =
      .ok (toVal P (Expr.buildB (Expr.andN e es))) := by
  have := call_AND P (es.map fun x => Expr.build x) (Expr.build e) k
  simp only [List.length_map, List.map_cons, List.map_map] at this
  simp only [Expr.buildB, Expr.andN, Expr.foldFn, Expr.Extracted.andFold,
    build_foldR .andFn Expr.Extracted.andFn (fun a b => rfl), List.map_cons]
  exact this

theorem C03_translated_OR_eq_model (P : Params) (e : Expr.BoolE) (es : List Expr.BoolE) (k : Nat) :
    callD (ifaceF P (k + es.length + 1)) "OR" ((e :: es).map fun x => toVal P (Expr.buildB x)) =
      .ok (toVal P (Expr.buildB (Expr.orN e es))) := by
  have := call_OR P (es.map fun x => Expr.build x) (Expr.build e) k
  simp only [List.length_map, List.map_cons, List.map_map] at this
  simp only [Expr.buildB, Expr.orN, Expr.foldFn, Expr.Extracted.orFold,
    build_foldR .orFn Expr.Extracted.orFn (fun a b => rfl), List.map_cons]
  exact this

theorem C03_translated_NOT_eq_model (P : Params) (k : Nat) (x : Expr.BoolE) :
    callD (ifaceF P (k + 1)) "NOT" [toVal P (Expr.buildB x)] = .ok (toVal P (Expr.buildB (.notFn x))) :=
  call_NOT P k _

theorem C03_translated_IN_eq_model (P : Params) (k : Nat) (x : Expr.NumE) (l : Expr.Items) :
    callD (ifaceF P (k + 2)) "IN" [toVal P (Expr.buildN x), toVal P (Expr.build l)] =
      .ok (toVal P (Expr.buildB (.isin x l))) :=
  call_IN P k _ _ (by rw [nodeCls_build, clsE_items])

theorem C03_translated_NOTIN_eq_model (P : Params) (k : Nat) (x : Expr.NumE) (l : Expr.Items) :
    callD (ifaceF P (k + 2)) "NOTIN" [toVal P (Expr.buildN x), toVal P (Expr.build l)] =
      .ok (toVal P (Expr.buildB (.notin x l))) := by
  rw [call_NOTIN P k _ _ (by rw [nodeCls_build, clsE_items])]
  simp only [Expr.buildB, Expr.build, Expr.Extracted.notinNegates, if_true]

theorem C03_translated_ISNULL_eq_model (P : Params) (k : Nat) (x : Expr.NumE) :
    callD (ifaceF P (k + 1)) "ISNULL" [toVal P (Expr.buildN x)] = .ok (toVal P (Expr.buildB (.isnull x))) ∧
    callD (ifaceF P (k + 1)) "ISNOTNULL" [toVal P (Expr.buildN x)] = .ok (toVal P (Expr.buildB (.isnotnull x))) :=
  ⟨call_ISNULL P k _, call_ISNOTNULL P k _⟩

/-- WHOLE TREES: evaluating the Python expression of a source tree with the translated overloads / builder
    functions (Python's operator dispatch) builds the hand model's object graph -/
theorem C03_translated_build_eq_model (P : Params) (hfp : ∀ c v, P.fromPython c v = .ok v) (k : Nat)
    {s : Expr.Srt} (e : Expr.E s) : buildX P (ifaceF P (k + 3)) e = .ok (toVal P (Expr.build e)) :=
  buildX_eq P hfp k e

/-! ### the C03 statements about the translated source -/

/-- no precedence capture, about the translated source: the text `sqlrepr(<tree built by the translated overloads>, d)`
    computed by the translated renderers spells a token list that the reference parser reads back, under EVERY
    precedence table, as exactly the tree that was built -/
theorem C03_parse_render_translated (P : Params) (hT : TextOk P) (hfp : ∀ c v, P.fromPython c v = .ok v)
    (Pr : Expr.Prec) (d : String) (e : Expr.BoolE) :
    ∃ toks, Emits P d e toks ∧ Expr.parse Pr toks = some (Expr.toT d (Expr.buildB e)) :=
  ⟨_, emits_render P hT hfp d e, SqlObjVerif.Expr.C03_parse_render Pr d e⟩

/-- … and, used as a filter, selects exactly the rows on which the source tree is TRUE (three-valued logic) -/
theorem C03_filter_sound_translated (P : Params) (hT : TextOk P) (hfp : ∀ c v, P.fromPython c v = .ok v)
    (D : Expr.Dom) (Pr : Expr.Prec) (d : String) (e : Expr.BoolE) (r : Expr.Row D) :
    ∃ toks t, Emits P d e toks ∧ Expr.parse Pr toks = some t ∧
      (Expr.selects D t r = true ↔ Expr.evalB D r e = some true) := by
  refine ⟨_, _, emits_render P hT hfp d e, SqlObjVerif.Expr.C03_parse_render Pr d e, ?_⟩
  have := SqlObjVerif.Expr.C03_filter_sound D Pr d e r
  simpa only [Expr.selected, SqlObjVerif.Expr.C03_parse_render] using this

/-- … and never has an (in)equality operator followed by `NULL` -/
theorem C03_no_eq_null_translated (P : Params) (hT : TextOk P) (hfp : ∀ c v, P.fromPython c v = .ok v)
    (d : String) (e : Expr.BoolE) : ∃ toks, Emits P d e toks ∧ Expr.hasEqNull toks = false :=
  ⟨_, emits_render P hT hfp d e, SqlObjVerif.Expr.C03_no_eq_null d e⟩


/-! ### non-vacuity: a concrete naming / `repr` satisfying the leaf assumptions, and a run of the translated source -/

example : TextOk P0 ∧ (∀ c v, P0.fromPython c v = .ok v) := by
  refine ⟨⟨fun _ => ⟨116, [], rfl, by decide⟩, fun n => ⟨49, [], ?_, by decide, by decide⟩, fun i hi => ?_,
    fun _ => ⟨48, [46, 53], rfl, by decide, by decide⟩, fun _ => rfl⟩, fun _ _ => rfl⟩
  · have : ¬ ((n : Int) < 0) := by omega
    simp [P0, this]
  · have : ¬ ((i.natAbs : Int) < 0) := by omega
    simp [P0, hi, this]

/-- `(a == None) | (1 < -b % a)` built by the translated overloads and rendered by the translated renderers, for
    SQLite and for MySQL -/
example :
    (buildX P0 (ifaceF P0 3) (.orOp (.eqNone (.col 0)) (.cmp .lt (.const 1) (.ar .mod (.neg (.col 1)) (.col 0))))).bind
      (fun v => sqlreprX P0 6 v (strOf "sqlite")) =
      .ok (.str (strOf "(((t.a) IS NULL) OR (((- t.b) % (t.a)) > (1)))")) ∧
    (buildX P0 (ifaceF P0 3) (.cmp .lt (.const 1) (.ar .mod (.neg (.col 1)) (.col 0)))).bind
      (fun v => sqlreprX P0 4 v (strOf "mysql")) = .ok (.str (strOf "((MOD(- t.b, t.a)) > (1))")) := by
  constructor <;> rfl
end SqlObjVerif.ExprX

namespace SqlObjVerif.SelX
open SqlObjVerif.PyExpr hiding Expr Exprs Stmt Block Res
open SqlObjVerif.PySel SqlObjVerif.PySel.Extracted
open SqlObjVerif.ExprX (Node toVal)

/-! ## C03 about the TRANSLATED `sqlbuilder.Select` class (`Extracted/PySel.lean`; dicts live in a heap) -/

/-- `Select.__init__` as translated: ONE fresh dict, the 15 entries of `initOps` (a non-sequence `items` wrapped in a
    list, `where` used when no `clause` is given, `staticTables` defaulting to `[]`), nothing else written -/
theorem C03_translated_Select_init_eq_model (I : SIface) (hsub : ∀ h, (I.E h).isSub = ExprX.isSub) (h : Heap)
    (items where_ groupBy having orderBy limit join lazy distinct start end_ reversed forUpdate clause static
      distinctOn : Val) :
    runInitH I Select_init [.obj "Select" [], items, where_, groupBy, having, orderBy, limit, join, lazy, distinct, start,
      end_, reversed, forUpdate, clause, static, distinctOn] h =
    .ok (selObj h.next, (h.alloc (opsDict (initOps items where_ groupBy having orderBy limit join lazy distinct start end_
      reversed forUpdate clause static distinctOn))).1) :=
  Select_init_spec I hsub h _ _ _ _ _ _ _ _ _ _ _ _ _ _ _ _

/-- `Select.clone(**newOps)` as translated, for every interface: `self.ops` (address `p`) is only READ — the copy at
    the allocation pointer is updated and handed (copied again, as `**` does) to `self.__class__` -/
theorem C03_translated_Select_clone_eq_model (I : SIface) (h : Heap) (p q : Nat) (d kw : Dict)
    (hp : h.cells p = some d) (hq : h.cells q = some kw) (hq' : q ≠ h.next) :
    runH I Select_clone [selObj p, refV q] h =
      I.callH (selObj p) "__class__" [] (h.next + 1) ((h.alloc (dupdate d kw)).1.alloc (dupdate d kw)).1 :=
  Select_clone_spec I h p q d kw hp hq hq'

/-- **deriving never writes the base Select's ops**: through the tied interface (clone → `__class__` → the translated
    `__init__`), for ANY ops dict and ANY keywords, a returning `clone` yields a Select whose ops dict is at a NEW address
    and leaves every cell that existed before — the base's `ops` included — exactly as it was -/
theorem C03_translated_Select_clone_fresh (P : ExprX.Params) (Q : ParamsQ) (k : Nat) (h : Heap) (p q : Nat)
    (d kw : Dict) (hp : h.cells p = some d) (hq : h.cells q = some kw) (hq' : q < h.next) (v : Val) (h' : Heap)
    (hr : runH (sIfaceF P Q (k + 2)) Select_clone [selObj p, refV q] h = .ok (v, h')) :
    v = selObj (h.next + 2) ∧ (∀ a, a < h.next → h'.cells a = h.cells a) ∧
      ∃ o, h'.cells (h.next + 2) = some (opsDict o) :=
  clone_fresh P Q k h p q d kw hp hq hq' v h' hr

/-- the derivers are `clone(<key>=<value>)` (`limit` derives a Select, drops it and returns `None`: what the code does) -/
theorem C03_translated_Select_derivers_eq_model (I : SIface) (h : Heap) (self x : Val) :
    runH I Select_newItems [self, x] h = I.callH self "clone" [] h.next (h.alloc [(k_items, x)]).1 ∧
    runH I Select_newClause [self, x] h = I.callH self "clone" [] h.next (h.alloc [(k_clause, x)]).1 ∧
    runH I Select_orderBy [self, x] h = I.callH self "clone" [] h.next (h.alloc [(k_orderBy, x)]).1 ∧
    runH I Select_lazyColumns [self, x] h = I.callH self "clone" [] h.next (h.alloc [(k_lazyColumns, x)]).1 ∧
    runH I Select_distinct [self] h = I.callH self "clone" [] h.next (h.alloc [(k_distinct, .bool true)]).1 ∧
    runH I Select_unlimited [self] h = I.callH self "clone" [] h.next
      (h.alloc [(k_limit, noDefault), (k_start, .int 0), (k_end, .none)]).1 ∧
    (∀ v h', I.callH self "clone" [] h.next (h.alloc [(k_limit, x)]).1 = .ok (v, h') →
      runH I Select_limit [self, x] h = .ok (.none, h')) :=
  ⟨Select_newItems_spec I h self x, Select_newClause_spec I h self x, Select_orderBy_spec I h self x,
    Select_lazyColumns_spec I h self x, Select_distinct_spec I h self, Select_unlimited_spec I h self,
    fun v h' hc => Select_limit_spec I h self x v h' hc⟩

theorem C03_translated_Select_reversed_eq_model (I : SIface) (h : Heap) (p : Nat) (d : Dict)
    (hp : h.cells p = some d) :
    runH I Select_reversed [selObj p] h = I.callH (selObj p) "clone" [] h.next
      (h.alloc [(k_reversed, .bool (!truthyS ((aget k_reversed d).getD (.bool false))))]).1 :=
  Select_reversed_spec I h p d hp

/-- `base.newClause(x)` through clone and `__init__`: the base's ops with `clause := x`, at a fresh address -/
theorem C03_translated_Select_newClause_eq_model (P : ExprX.Params) (Q : ParamsQ) (k : Nat) (h : Heap) (p : Nat)
    (o : OpsM) (hc : Canon o) (hp : h.cells p = some (opsDict o)) (hpn : p < h.next) (x : Val) :
    ∃ h', runH (sIfaceF P Q (k + 3)) Select_newClause [selObj p, x] h = .ok (selObj (h.next + 3), h') ∧
      h'.cells (h.next + 3) = some (opsDict { o with clause := x }) ∧ ∀ a, a < h.next → h'.cells a = h.cells a :=
  newClause_run P Q k h p o hc hp hpn x

/-- **`filter` = AND of the clauses in the model**: for a base Select whose clause is the object of the source tree `A`,
    `base.filter(<object of C>)` on the translated source (`AND` → `newClause` → `clone` → `__init__`) is a NEW Select
    whose clause is the object of `AND(A, C)` (`build (.andFn A C)`), every other option equal, the base untouched;
    `base.filter(None)` is `base` and changes nothing -/
theorem C03_translated_Select_filter_eq_model (P : ExprX.Params) (Q : ParamsQ) (k : Nat) (h : Heap) (p : Nat)
    (o : OpsM) (hc : Canon o) (A C : Expr.BoolE) (hA : o.clause = toVal P (Expr.buildB A))
    (hp : h.cells p = some (opsDict o)) (hpn : p < h.next) :
    (∃ h', runH (sIfaceF P Q (k + 4)) Select_filter [selObj p, toVal P (Expr.buildB C)] h =
        .ok (selObj (h.next + 4), h') ∧
      h'.cells (h.next + 4) = some (opsDict { o with clause := toVal P (Expr.buildB (.andFn A C)) }) ∧
      ∀ a, a < h.next → h'.cells a = h.cells a) ∧
    runH (sIfaceF P Q k) Select_filter [selObj p, .none] h = .ok (selObj p, h) := by
  refine ⟨?_, filter_none_run P Q k h _⟩
  have hobjA := ExprX.isObj_build_bool A
  have hobjC := ExprX.isObj_build_bool C
  have hstr : ExprX.isSub (typeName o.clause) "str" = false := by
    rw [hA, ExprX.typeName_toVal, ExprX.nodeCls_build]
    rcases (ExprX.clsE_bool A).1 with e | e <;> rw [e] <;> decide
  have hfc : isNoneV (toVal P (Expr.buildB C)) = false := by
    rw [ExprX.isNoneV_toVal, ExprX.nodeCls_build]
    rcases (ExprX.clsE_bool C).1 with e | e <;> rw [e] <;> decide
  obtain ⟨h', h1, h2, h3⟩ := filter_run P Q k h p o hc hp hpn (toVal P (Expr.buildB C)) hfc hstr
    (by rw [hA]; exact ExprX.notSub_toVal P _)
  refine ⟨h', h1, ?_, h3⟩
  rw [h2, hA]; rfl

/-- `filter_sound` for Select objects: the clause the derived Select carries (`AND(A, C)`) renders, by the translated
    renderers, to a text whose tokens the reference parser reads — under every precedence table — as a filter selecting
    exactly the rows on which BOTH trees are TRUE (three-valued logic) -/
theorem C03_translated_Select_filter_sound (P : ExprX.Params) (hT : ExprX.TextOk P)
    (hfp : ∀ c v, P.fromPython c v = .ok v) (D : Expr.Dom) (Pr : Expr.Prec) (d : String) (A C : Expr.BoolE)
    (r : Expr.Row D) :
    ∃ toks t, ExprX.Emits P d (.andFn A C) toks ∧ Expr.parse Pr toks = some t ∧
      (Expr.selects D t r = true ↔ Expr.evalB D r A = some true ∧ Expr.evalB D r C = some true) := by
  obtain ⟨toks, t, he, hp, hs⟩ := ExprX.C03_filter_sound_translated P hT hfp D Pr d (.andFn A C) r
  refine ⟨toks, t, he, hp, ?_⟩
  rw [hs]
  simp only [Expr.evalB, Expr.eval]
  generalize (Expr.eval D r A : Option Bool) = a
  generalize (Expr.eval D r C : Option Bool) = c
  rcases a with _ | _ | _ <;> rcases c with _ | _ | _ <;> simp [Expr.and3]

/-- **tables used**: `tablesUsedSet(node, db)` run through the translated `SQLExpression.tablesUsedSet /
    tablesUsedImmediate / components` (each resolved along the class chain: `Field`, `SQLOp`, `SQLPrefix` override) is
    the hand model: the set of table names of the fields below the node — NOT descending into list operands -/
theorem C03_translated_tablesUsed_eq_model (P : ExprX.Params) (Q : ParamsQ) (h : Heap) (db : Val) (n : Node)
    (k : Nat) (hk : 2 * depthT n + 3 ≤ k) :
    ((sIfaceF P Q k).E h).call "tablesUsedSet" [toVal P n, db] = .ok (tuV P n) :=
  tablesUsed_toVal P Q h db n k hk

/-- why b-c03's note holds: the column of an `IN`-list item is not among the tables of the expression -/
example (P : ExprX.Params) :
    tuV P (.sqlin (.field 0) (.lcons (.field 1) .lnil)) = setV [.str (P.table 0)] := by
  simp [tuV, ExprX.isObjNode, tablesL, setUnion, setAdd]


/-! ### `Select.__sqlrepr__` (translated in full; proved statement by statement — PARTIAL: the loops that collect the
table set from `staticTables` / the items / the joins, GROUP BY, HAVING, ORDER BY and the LIMIT hand-off are translated
but their composition is not proved) -/

/-- `_str_or_sqlrepr(expr, db)`: a `str` is passed through, anything else is `sqlrepr(expr, db)` -/
theorem C03_translated_str_or_sqlrepr_eq_model (I : SIface) (h : Heap) (v db : Val) :
    runP I f_str_or_sqlrepr [v, db] h =
      if (I.E h).isSub (typeName v) "str" then .ok v else (I.E h).call "sqlrepr" [v, db] :=
  str_or_sqlrepr_spec I h v db

/-- the WHERE statement: ` WHERE <rendering of the clause>` is appended to the text so far (nothing for `NoDefault`) —
    with `C03_translated_sqlrepr_eq_model` the rendering of a clause node is the hand model's text -/
theorem C03_translated_Select_sqlrepr_where (I : SIface) (s : St) (p : Nat) (d : Dict) (c db : Val) (sel t : Str)
    (h0 : s.env 0 = some (selObj p)) (h1 : s.env 1 = some db) (h2 : s.env 2 = some (.str sel))
    (hp : s.heap.cells p = some d) (hc : aget k_clause d = some c)
    (ht : (I.E s.heap).call "_str_or_sqlrepr" [c, db] = .ok (.str t)) :
    PySel.Stmt.exec I s Select_sqlrepr_s16 =
      .norm (if typeName c == "@NoDefault" then s else s.put 2 (.str (sel ++ ([32, 87, 72, 69, 82, 69, 32] ++ t)))) :=
  sqlrepr_where I s p d c db sel t h0 h1 h2 hp hc ht

/-- the item list: ` ` + the items' renderings joined by `, ` -/
theorem C03_translated_Select_sqlrepr_items (I : SIface) (s : St) (p : Nat) (d : Dict) (db : Val) (vs : List Val)
    (ts : List Str) (sel : Str) (h0 : s.env 0 = some (selObj p)) (h1 : s.env 1 = some db)
    (h2 : s.env 2 = some (.str sel)) (hp : s.heap.cells p = some d) (hl : aget k_lazyColumns d = some (.bool false))
    (hi : aget k_items d = some (.list vs))
    (ht : ExprX.AllR (fun v t => (I.E s.heap).call "_str_or_sqlrepr" [v, db] = .ok (.str t)) vs ts) :
    PySel.Stmt.exec I s Select_sqlrepr_s2 = .norm (s.put 2 (.str (sel ++ (32 :: joinStr [44, 32] ts)))) :=
  sqlrepr_items I s p d db vs ts sel h0 h1 h2 hp hl hi ht

/-- FROM without joins: the collected table set, sorted, joined by `, ` (no FROM for an empty set); DISTINCT; FOR UPDATE -/
theorem C03_translated_Select_sqlrepr_from (I : SIface) (s : St) (ts : List Str) (sel : Str)
    (h2 : s.env 2 = some (.str sel)) (h7 : s.env 7 = some (setV (ts.map .str))) (h4 : s.env 4 = some (.list [])) :
    PySel.Stmt.exec I s Select_sqlrepr_s12 =
      .norm (if ts.isEmpty then s else
        s.put 2 (.str (sel ++ ([32, 70, 82, 79, 77, 32] ++ joinStr [44, 32] (sortS I.strLe ts))))) :=
  sqlrepr_from I s ts sel h2 h7 h4

theorem C03_translated_Select_sqlrepr_distinct_forUpdate (I : SIface) (s : St) (p : Nat) (d : Dict) (b : Bool)
    (sel : Str) (h0 : s.env 0 = some (selObj p)) (h2 : s.env 2 = some (.str sel)) (hp : s.heap.cells p = some d) :
    (aget k_distinct d = some (.bool b) → aget k_distinctOn d = some noDefault →
      PySel.Stmt.exec I s Select_sqlrepr_s1 =
        .norm (if b then s.put 2 (.str (sel ++ [32, 68, 73, 83, 84, 73, 78, 67, 84])) else s)) ∧
    (aget k_forUpdate d = some (.bool b) →
      PySel.Stmt.exec I s Select_sqlrepr_s23 =
        .norm (if b then s.put 2 (.str (sel ++ [32, 70, 79, 82, 32, 85, 80, 68, 65, 84, 69])) else s)) :=
  ⟨fun hc hon => sqlrepr_distinct I s p d b sel h0 h2 hp hc hon, fun hc => sqlrepr_forUpdate I s p d b sel h0 h2 hp hc⟩


/-! ### the whole `Select.__sqlrepr__`, and `IN (subselect)` -/

/-- **`Select.__sqlrepr__` as translated, composed** (25 statements, 4 loops), for EVERY interface: on a Select without
    joins, GROUP BY, HAVING, ORDER BY, DISTINCT ON, all columns, the text is
    `SELECT [DISTINCT] <items joined by ", "> [FROM <collected tables, sorted>] [WHERE <clause>]`, handed to
    `dbConnectionForScheme(db)._queryAddLimitOffset` when `start` is non-zero or `end` / `limit` is set, then
    ` FOR UPDATE`.  The tables are the static ones plus what `tablesUsedSet` returns for every item and the clause that is
    an `SQLExpression` (`Contributes`). -/
theorem C03_translated_Select_sqlrepr_eq_model (I : SIface) (hsub : ∀ h, (I.E h).isSub = ExprX.isSub) (h : Heap) (p : Nat)
    (db : Val) (o : OpsM) (hp : h.cells p = some (opsDict o)) (bd bf : Bool) (vs : List Val) (its sts : List Str)
    (yss : List (List Str)) (ct : Option Str) (st : Int) (sel2 : Str)
    (hd : o.distinct = .bool bd) (hdo : o.distinctOn = noDefault) (hlz : o.lazyColumns = .bool false)
    (hit : o.items = .list vs) (hj : o.join = noDefault) (hst : o.staticTables = .list (sts.map .str))
    (hg : o.groupBy = noDefault) (hhv : o.having = noDefault) (hob : o.orderBy = noDefault ∨ o.orderBy = .none)
    (hfu : o.forUpdate = .bool bf) (hstart : o.start = .int st)
    (hlim : o.limit = noDefault ∨ ∃ l, o.limit = .int l) (hen : o.end_ = .none ∨ ∃ e, o.end_ = .int e)
    (hits : ExprX.AllR (fun v t => (I.E h).call "_str_or_sqlrepr" [v, db] = .ok (.str t)) vs its)
    (hcn : ct = Option.none → (typeName o.clause == "@NoDefault") = true)
    (hcs : ∀ t, ct = some t → (typeName o.clause == "@NoDefault") = false ∧
      (I.E h).call "_str_or_sqlrepr" [o.clause, db] = .ok (.str t))
    (hall : ExprX.AllR (Contributes I h db) (thingsOf vs o.clause) yss)
    (hcall : (st != 0 || !isNoneV (endOf o.limit st o.end_)) = true →
      limitCall I h db (selectText I.strLe bd its (yss.foldl unionStr (sts.foldl addStr [])) ct) st
        (endOf o.limit st o.end_) = .ok (.str sel2)) :
    runP I Select_sqlrepr [selObj p, db] h =
      .ok (.str ((if (st != 0 || !isNoneV (endOf o.limit st o.end_)) then sel2
          else selectText I.strLe bd its (yss.foldl unionStr (sts.foldl addStr [])) ct) ++
        (if bf then [32, 70, 79, 82, 32, 85, 80, 68, 65, 84, 69] else []))) :=
  Select_sqlrepr_spec I hsub h p db o hp bd bf vs its sts yss ct st sel2 hd hdo hlz hit hj hst hg hhv hob hfu hstart hlim hen
    hits hcn hcs hall hcall

/-- … on the MODEL of a Select, every call resolved to a translated program: items and clause are expression nodes,
    their texts are the hand model's `renderS`, their tables the hand model's `tablesS` (`contribS`) -/
theorem C03_translated_Select_sqlrepr_nodes (P : ExprX.Params) (Q : ParamsQ) (hT : ExprX.TextOk P) (d : String)
    (h : Heap) (p : Nat) (o : OpsM) (hp : h.cells p = some (opsDict o)) (bd bf : Bool) (ns : List Node)
    (cn : Option Node) (sts : List Str) (st : Int) (sel2 : Str) (k : Nat)
    (hd : o.distinct = .bool bd) (hdo : o.distinctOn = noDefault) (hlz : o.lazyColumns = .bool false)
    (hit : o.items = .list (ns.map (toVal P))) (hcl : o.clause = clauseV P cn) (hj : o.join = noDefault)
    (hst : o.staticTables = .list (sts.map .str)) (hg : o.groupBy = noDefault) (hhv : o.having = noDefault)
    (hob : o.orderBy = noDefault ∨ o.orderBy = .none) (hfu : o.forUpdate = .bool bf) (hstart : o.start = .int st)
    (hlim : o.limit = noDefault ∨ ∃ l, o.limit = .int l) (hen : o.end_ = .none ∨ ∃ e, o.end_ = .int e)
    (hk : ∀ n ∈ ns ++ cn.toList, ExprX.depth n ≤ k ∧ 2 * depthT n + 1 ≤ k)
    (hcall : (st != 0 || !isNoneV (endOf o.limit st o.end_)) = true →
      Q.limitOffset (.str (ExprX.strOf d)) (.str (selectText Q.strLe bd (ns.map (ExprX.renderS P d))
        (((ns ++ cn.toList).map (contribS P)).foldl unionStr (sts.foldl addStr [])) (cn.map (ExprX.renderS P d))))
        (.int st) (endOf o.limit st o.end_) = .ok (.str sel2)) :
    runP (sIfaceF P Q (k + 2)) Select_sqlrepr [selObj p, .str (ExprX.strOf d)] h =
      .ok (.str ((if (st != 0 || !isNoneV (endOf o.limit st o.end_)) then sel2
          else selectText Q.strLe bd (ns.map (ExprX.renderS P d))
            (((ns ++ cn.toList).map (contribS P)).foldl unionStr (sts.foldl addStr [])) (cn.map (ExprX.renderS P d))) ++
        (if bf then [32, 70, 79, 82, 32, 85, 80, 68, 65, 84, 69] else []))) :=
  select_sqlrepr_nodes P Q hT d h p o hp bd bf ns cn sts st sel2 k hd hdo hlz hit hcl hj hst hg hhv hob hfu hstart hlim hen
    hk hcall

/-- the WHERE part of a (sub)select is the expression theorem again: with the clause the object of a source tree `e`,
    the text is `<SELECT … FROM …> WHERE <s>` where `s` spells the token rendering of `build e`, which the reference
    parser reads back, under every precedence table, as the tree that was built -/
theorem C03_parse_render_translated_where (P : ExprX.Params) (hT : ExprX.TextOk P) (Pr : Expr.Prec) (d : String)
    (le : Str → Str → Bool) (bd : Bool) (its T : List Str) (e : Expr.BoolE) :
    selectText le bd its T (some (ExprX.renderS P d (Expr.buildB e))) =
      selectText le bd its T Option.none ++ ([32, 87, 72, 69, 82, 69, 32] ++ ExprX.renderS P d (Expr.buildB e)) ∧
    ExprX.Spells P (Expr.render d false (Expr.buildB e)) (ExprX.renderS P d (Expr.buildB e)) ∧
    Expr.parse Pr (Expr.render d false (Expr.buildB e)) = some (Expr.toT d (Expr.buildB e)) :=
  ⟨rfl, ExprX.spells_render P hT d _ (Expr.wf_buildB d e), Expr.C03_parse_render Pr d e⟩

/-- **`IN (subselect)`**: `sqlrepr(INSubquery(item, <Select>), db)` through the tied interface is
    `<item> IN (<text of the Select>)` — the item NOT parenthesised (what the code does), the Select rendered by the
    translated `Select.__sqlrepr__` from its ops dict in the heap -/
theorem C03_translated_INSubquery_sqlrepr_eq_model (P : ExprX.Params) (Q : ParamsQ) (k : Nat) (h : Heap) (item db : Val)
    (p : Nat) (s1 t : Str) (h1 : ((sIfaceF P Q (k + 1)).E h).call "sqlrepr" [item, db] = .ok (.str s1))
    (ht : runP (sIfaceF P Q k) Select_sqlrepr [selObj p, db] h = .ok (.str t)) :
    ((sIfaceF P Q (k + 2)).E h).call "sqlrepr" [.obj "INSubquery" [("item", item), ("subquery", selObj p)], db] =
      .ok (.str (s1 ++ 32 :: ([73, 78] ++ 32 :: 40 :: (t ++ [41])))) :=
  insubquery_sqlrepr P Q k h item db p s1 t h1 ht

end SqlObjVerif.SelX
