import SqlObjVerif.Lemmas.Expr
/-! # C03 — query expressions mean what was built (property theorems only) -/
namespace SqlObjVerif.Expr

/-- Every well-shaped piece of SQL expression syntax is recovered from its text by the reference
    parser, whatever binding powers the dialect gives its operators. -/
theorem C03_parse_rend (P : Prec) (t : T) (h : wf false t = true) (fuel : Nat) (hf : 6 * t.size ≤ fuel) :
    parseExpr P fuel 0 (rend false t) = some (t, []) :=
  parse_rend P t h fuel hf

end SqlObjVerif.Expr
