import SqlObjVerif.Lemmas.Cache
import SqlObjVerif.Lemmas.CacheXCull
import SqlObjVerif.Lemmas.CacheXRep
import SqlObjVerif.Lemmas.CacheXList
/-!
# C04 — identity map: one live instance per row per connection on every access path

Property theorems only.  `State`, `step`, `run` : `Model/Cache.lean` (cache.py + the SQLObject life cycle);
`guard` / `Safe` (Lemmas/Cache.lean) name the three excluded op classes of the `_partial` theorems:
(E1) `obj.expire()` / `connection.expireAll()` on an instance the application still holds,
(E2) unpickling a row that was deleted,
(E4) `destroySelf()` on an already destroyed instance.  Every theorem holds for every configuration
(`doCache`, `cullFrequency`, `cullFraction`, refcounting or deferred collection) and every history.
-/
namespace SqlObjVerif.Cache

/-- `h` can still be reached: it is alive and the application or some cache map refers to it -/
def Reach (s : State) (h : Handle) : Prop :=
  h < s.n ∧ (s.obj h).dead = false ∧ ((s.obj h).held = true ∨ ∃ c k, Ent s c (k, h))

/-- at most one live, not destroyed instance per (class, id) -/
def Identity (s : State) : Prop :=
  ∀ h1 h2, Reach s h1 → Reach s h2 → (s.obj h1).obsolete = false → (s.obj h2).obsolete = false →
    (s.obj h1).cls = (s.obj h2).cls → (s.obj h1).id = (s.obj h2).id → h1 = h2

/-- the invariant implies identity -/
theorem C04_identity_of_inv (s : State) (hi : CInv s) : Identity s := by
  intro h1 h2 r1 r2 o1 o2 hc hk
  have own : ∀ h, Reach s h → (s.obj h).obsolete = false → Ent s (s.obj h).cls ((s.obj h).id, h) := by
    intro h r o
    rcases r.2.2 with x | ⟨c, k, x⟩
    · exact hi.hcached h r.1 (by simp) x o
    · obtain ⟨_, b2, b3, _⟩ := hi.ent c (k, h) x
      simp only at b2 b3
      rw [b2, b3]; exact x
  have e1 := own h1 r1 o1
  have e2 := own h2 r2 o2
  rw [hc, hk] at e1
  rcases e1 with a | a <;> rcases e2 with b | b
  · exact hi.funS _ _ _ _ a b
  · have := hi.disj _ _ _ _ a b; rw [r2.2.1] at this; cases this
  · have := hi.disj _ _ _ _ b a; rw [r1.2.1] at this; cases this
  · exact hi.funW _ _ _ _ a b

/-- the invariant holds initially and is preserved by EVERY step that is not one of the excluded ops -/
theorem C04_identity_inv (s : State) (op : Op) (hi : CInv s) (hg : guard s op = true) :
    CInv (step s op).1 := (step_spec s op hi hg).1

theorem C04_inv_init (cfg : Cfg) : CInv (init cfg) := inv_init cfg

/-- lifted to every reachable state by induction over the op list -/
theorem C04_inv_reachable (s : State) (ops : List Op) (hi : CInv s) (hs : Safe s ops = true) :
    CInv (run s ops) := by
  induction ops generalizing s with
  | nil => exact hi
  | cons op ops ih =>
    simp only [Safe, Bool.and_eq_true] at hs
    exact ih _ (C04_identity_inv s op hi hs.1) hs.2

/-- identity for every configuration and every history without the excluded ops -/
theorem C04_identity_partial (cfg : Cfg) (ops : List Op) (hs : Safe (init cfg) ops = true) :
    Identity (run (init cfg) ops) :=
  C04_identity_of_inv _ (C04_inv_reachable _ ops (inv_init cfg) hs)

def witnessExpire : List Op := [.create 0 none, .expire 0, .get 0 1]

/-- KNOWN FINDING "C04:expire-then-get": the full statement is false of the code —
    `a = T(...); a.expire(); T.get(a.id) is not a` -/
theorem C04_identity_full_FALSE : ¬ ∀ (cfg : Cfg) (ops : List Op), Identity (run (init cfg) ops) := by
  intro H
  have := H (Cfg.default true) witnessExpire 0 1
    ⟨by decide, by decide, Or.inl (by decide)⟩ ⟨by decide, by decide, Or.inl (by decide)⟩
    (by decide) (by decide) (by decide) (by decide)
  exact absurd this (by decide)

def witnessExpireAll : List Op := [.create 0 none, .expireAll, .get 0 1]

/-- the same through `connection.expireAll()`, with strong caching off as well -/
theorem C04_identity_expireAll_FALSE : ¬ ∀ (cfg : Cfg) (ops : List Op), Identity (run (init cfg) ops) := by
  intro H
  have := H (Cfg.default false) witnessExpireAll 0 1
    ⟨by decide, by decide, Or.inl (by decide)⟩ ⟨by decide, by decide, Or.inl (by decide)⟩
    (by decide) (by decide) (by decide) (by decide)
  exact absurd this (by decide)

example : Safe (init (Cfg.default true)) [.create 0 none, .get 0 1, .drop 0, .get 0 1] = true := by decide
example : Safe (init (Cfg.default true)) witnessExpire = false := by decide

/-- every access path (get, select row, alternate id / unique index, FK attribute, join accessor) returns
    the instance the application holds: any returned handle for that row IS that instance -/
theorem C04_get_returns_live (s : State) (op : Op) (hi : CInv s) (hop : op.isAccess = true)
    (h0 : Handle) (hn : h0 < s.n) (hh : (s.obj h0).held = true) (ho : (s.obj h0).obsolete = false) :
    ∀ r ∈ (step s op).2.handles, ((step s op).1.obj r).cls = (s.obj h0).cls →
      ((step s op).1.obj r).id = (s.obj h0).id → r = h0 := by
  have hg : guard s op = true := by cases op <;> simp_all [guard, Op.isAccess]
  obtain ⟨i1, i2, i3⟩ := step_spec s op hi hg
  have fr := i3 hop
  intro r hr hc hk
  obtain ⟨c, k, g1, g2, g3, g4, g5, g6⟩ := i2 r hr
  obtain ⟨f1, f2, f3, f4⟩ := fr.obj h0 hn
  apply C04_identity_of_inv _ i1 r h0
  · exact ⟨g1, i1.hlive r g1 g4, Or.inl g4⟩
  · have hn' := Nat.lt_of_lt_of_le hn fr.n
    exact ⟨hn', i1.hlive h0 hn' (f4 hh), Or.inl (f4 hh)⟩
  · exact g5
  · rw [f3]; exact ho
  · rw [hc, f1]
  · rw [hk, f2]

/-- … and `get` does hit: it returns that instance, not SQLObjectNotFound, not a new one -/
theorem C04_get_hits (s : State) (hi : CInv s) (h0 : Handle) (hn : h0 < s.n)
    (hh : (s.obj h0).held = true) (ho : (s.obj h0).obsolete = false) :
    (step s (.get (s.obj h0).cls (s.obj h0).id)).2 = .obj h0 := by
  have key := C04_get_returns_live s (.get (s.obj h0).cls (s.obj h0).id) hi rfl h0 hn hh ho
  have hrow := (hi.ent _ _ (hi.hcached h0 hn (by simp) hh ho)).2.2.2.1
  obtain ⟨g1, g2, g3, g4, g5⟩ := getObj_spec s (s.obj h0).cls (s.obj h0).id false hi
  simp only [step] at key ⊢
  generalize getObj s (s.obj h0).cls (s.obj h0).id false = r at g1 g2 g3 g4 g5 key
  obtain ⟨s1, res⟩ := r
  cases res with
  | none => exact absurd hrow (g5 rfl)
  | some h =>
    simp only at key ⊢
    obtain ⟨_, b2, b3, _⟩ := g4 h rfl
    rw [key h (by simp [Out.handles]) b2 b3]

/-- whatever an op hands out belongs to a row that exists and was not destroyed -/
theorem C04_deleted_never_returned_partial (cfg : Cfg) (ops : List Op) (op : Op)
    (hs : Safe (init cfg) (ops ++ [op]) = true) :
    ∀ r ∈ (step (run (init cfg) ops) op).2.handles,
      let s' := (step (run (init cfg) ops) op).1
      (s'.obj r).id ∈ s'.rows (s'.obj r).cls ∧ (s'.obj r).obsolete = false := by
  have split : ∀ (s : State) (l : List Op), Safe s (l ++ [op]) = true →
      Safe s l = true ∧ guard (run s l) op = true := by
    intro s l
    induction l generalizing s with
    | nil => intro h; simpa [Safe, run] using h
    | cons x xs ih =>
      intro h
      simp only [List.cons_append, Safe, Bool.and_eq_true] at h
      have := ih _ h.2
      simp only [Safe, Bool.and_eq_true, run]
      exact ⟨⟨h.1, this.1⟩, this.2⟩
  obtain ⟨s1, s2⟩ := split _ ops hs
  have hi := C04_inv_reachable _ ops (inv_init cfg) s1
  intro r hr
  obtain ⟨c, k, g1, g2, g3, g4, g5, g6⟩ := (step_spec _ op hi s2).2.1 r hr
  simp only
  rw [g2, g3]; exact ⟨g6, g5⟩

def witnessGhost : List Op := [.create 0 none, .pickle 0, .destroy 0, .unpickle 0]

/-- finding "C04:pickle-then-destroy-then-unpickle": unpickling a snapshot of a destroyed row registers
    a live instance of a row that does not exist, and `get` then returns it -/
theorem C04_deleted_never_returned_full_FALSE :
    ¬ ∀ (cfg : Cfg) (ops : List Op) (op : Op), ∀ r ∈ (step (run (init cfg) ops) op).2.handles,
      ((step (run (init cfg) ops) op).1.obj r).id ∈
        (step (run (init cfg) ops) op).1.rows ((step (run (init cfg) ops) op).1.obj r).cls := by
  intro H
  exact absurd (H (Cfg.default true) witnessGhost (.get 0 1) 1 (by decide)) (by decide)

/-- a successful unpickle never creates a second live instance of the row -/
theorem C04_unpickle_no_dup (s : State) (p : Nat) (r : Handle) (hi : CInv s)
    (hg : guard s (.unpickle p) = true) (hr : (step s (.unpickle p)).2 = .obj r) :
    ∀ h, Reach (step s (.unpickle p)).1 h → ((step s (.unpickle p)).1.obj h).obsolete = false →
      ((step s (.unpickle p)).1.obj h).cls = ((step s (.unpickle p)).1.obj r).cls →
      ((step s (.unpickle p)).1.obj h).id = ((step s (.unpickle p)).1.obj r).id → h = r := by
  obtain ⟨i1, i2, _⟩ := step_spec s (.unpickle p) hi hg
  obtain ⟨c, k, g1, g2, g3, g4, g5, g6⟩ := i2 r (by rw [hr]; simp [Out.handles])
  intro h rh oh hc hk
  exact C04_identity_of_inv _ i1 h r rh ⟨g1, i1.hlive r g1 g4, Or.inl g4⟩ oh g5 hc hk

/-- … and it refuses (ValueError, nothing changes) while the application holds an instance of the row -/
theorem C04_unpickle_refused_when_held (s : State) (p : Nat) (c : Cls) (k : Id) (e : Bool) (hi : CInv s)
    (hp : s.pickles[p]? = some (c, k, e)) (h0 : Handle) (hn : h0 < s.n) (hh : (s.obj h0).held = true)
    (ho : (s.obj h0).obsolete = false) (hc : (s.obj h0).cls = c) (hk : (s.obj h0).id = k) :
    (step s (.unpickle p)).2 = .valueError := by
  have e0 := hi.hcached h0 hn (by simp) hh ho
  rw [hc, hk] at e0
  have hd := hi.hlive h0 hn hh
  simp only [step, hp]
  have : tryGet s c k = some h0 := by
    unfold tryGet
    rcases e0 with a | a
    · have hdc : s.cfg.doCache = true := by
        cases h' : s.cfg.doCache with
        | true => rfl
        | false => rw [hi.nocache h' c] at a; cases a
      have hsg := aget_eq_some_of_fun (hi.funS c) a
      have hft : Extracted.Cache.tryGetFallsThrough = true := rfl
      cases hg' : aget k (s.fac c).weak with
      | none => simp [hdc, hsg, hg']
      | some w =>
        have := hi.disj c k h0 w a (aget_some_mem hg')
        simp [this, hft, hdc, hsg, hg']
    · simp only [aget_eq_some_of_fun (hi.funW c) a, hd, Bool.false_eq_true, if_false]
  rw [this]

def witnessTwice : List Op :=
  [.create 0 none, .pickle 0, .get 0 9, .drop 0, .gc [0], .unpickle 0, .unpickle 0]

def cfgCull : Cfg := { doCache := true, cullFrequency := 0, cullFraction := 1, refcount := true }

/-- former finding "C04:pickle-then-get-then-drop-then-unpickle-then-unpickle@cull" (fixed in 4b0786d:
    `tryGet` falls through to the strong map when the weak reference it finds is dead; the fall-through is
    an extracted constant, so undoing the fix breaks `step_spec`): the history is now covered by the
    theorems above, and its second unpickle is refused -/
example : Safe (init cfgCull) witnessTwice = true := by decide

theorem C04_unpickle_twice_refused :
    (step (run (init cfgCull) (witnessTwice.take 6)) (.unpickle 0)).2 = .valueError := by decide

def witnessExpireUnpickle : List Op := [.create 0 none, .pickle 0, .expire 0, .unpickle 0]

/-- what still fails for unpickling at full strength is the open finding "C04:expire-then-get" again:
    after `a.expire()` the cache has forgotten `a`, so `__setstate__`'s guard sees nothing -/
theorem C04_unpickle_no_dup_full_FALSE : ¬ ∀ (cfg : Cfg) (ops : List Op), Identity (run (init cfg) ops) := by
  intro H
  have := H (Cfg.default true) witnessExpireUnpickle 0 1
    ⟨by decide, by decide, Or.inl (by decide)⟩ ⟨by decide, by decide, Or.inl (by decide)⟩
    (by decide) (by decide) (by decide) (by decide)
  exact absurd this (by decide)

/-! ## The hand model of `CacheFactory` IS the translated source

`vlib/extractors/pycache.py` translates every method of `cache.py:CacheFactory` into a PyCache
program on every run (`Extracted/PyCache.lean`); `tryGetX`, `getX`, … (`Model/CacheX.lean`) RUN
those programs from `absW s c rel falsy lock`, the image of class `c`'s factory in model state `s`
(`rel`: which objects die the moment the strong cache drops them, `falsy`: which objects are falsy —
both arbitrary unless stated).  Each theorem: the translated method ends in the image of the state
the hand model's function yields, returning what it returns — for ALL states, under the stated
hypotheses only:
* `Rep s c` (representation invariant, needed where the method iterates a dict): both association
  lists have pairwise distinct keys, and what the strong map refers to is alive;
* `cullFraction ≠ 0` (Python's `range()` raises ValueError for a zero step);
* `relOf s` where the hand model itself decides who dies (`cull`): reference counting on and not held;
* "the dropped object does not die on the spot" where the hand model defers collection to its `gc` op
  (`expire`, `expireAll`, an overwriting `put`/`created`).
A semantic edit of cache.py changes the translated programs and breaks these proofs. -/

open SqlObjVerif.PyCache in
/-- `CacheFactory.tryGet(id)` = `tryGet` (any state, any lock state; nothing changes) -/
theorem C04_translated_tryGet_eq_model (s : State) (c : Cls) (k : Id) (rel falsy : Handle → Bool) (lock : Bool) :
    tryGetX (absW s c rel falsy lock) k = .ret (absW s c rel falsy lock) (optObj (tryGet s c k)) :=
  tryGetX_eq s c k rel falsy lock

open SqlObjVerif.PyCache in
/-- `CacheFactory.get(id)` = `lookupCache ∘ tick`; the lock stays held exactly when it returns None -/
theorem C04_translated_get_eq_model (s : State) (c : Cls) (k : Id) (falsy : Handle → Bool)
    (hfr : s.cfg.cullFraction ≠ 0) (hrep : Rep s c) :
    getX (absW s c (relOf s) falsy false) k =
      .ret (absW (lookupCache (tick s c) c k).1 c (relOf s) falsy (lookupCache (tick s c) c k).2.isNone)
        (optObj (lookupCache (tick s c) c k).2) :=
  getX_eq s c k falsy hfr hrep

open SqlObjVerif.PyCache in
/-- `CacheFactory.put(id, obj)` = `insertEntry` -/
theorem C04_translated_put_eq_model (s : State) (c : Cls) (k : Id) (h : Handle) (rel falsy : Handle → Bool)
    (lock : Bool) (hrel : ∀ e ∈ (s.fac c).strong, e.1 = k → e.2 ≠ h → rel e.2 = false) :
    putX (absW s c rel falsy lock) k h = .ret (absW (insertEntry s c k h) c rel falsy lock) .none :=
  putX_eq s c k h rel falsy lock hrel

open SqlObjVerif.PyCache in
/-- `CacheFactory.finishPut()` releases the lock `get` left held -/
theorem C04_translated_finishPut_eq_model (s : State) (c : Cls) (rel falsy : Handle → Bool) :
    finishPutX (absW s c rel falsy true) = .ret (absW s c rel falsy false) .none :=
  finishPutX_eq s c rel falsy

open SqlObjVerif.PyCache in
/-- `CacheFactory.created(id, obj)` = `insertEntry ∘ tick` -/
theorem C04_translated_created_eq_model (s : State) (c : Cls) (k : Id) (h : Handle) (falsy : Handle → Bool)
    (hfr : s.cfg.cullFraction ≠ 0) (hrep : Rep s c)
    (hrel : ∀ e ∈ (s.fac c).strong, e.1 = k → e.2 ≠ h → relOf s e.2 = false) :
    createdX (absW s c (relOf s) falsy false) k h =
      .ret (absW (insertEntry (tick s c) c k h) c (relOf s) falsy false) .none :=
  createdX_eq s c k h falsy hfr hrep hrel

open SqlObjVerif.PyCache in
/-- `CacheFactory.cull()` = `cull`: the dead-weakref purge, the stride loop over `range(cullOffset, len(keys),
    cullFraction)`, the death of unreferenced objects and the new `cullOffset` -/
theorem C04_translated_cull_eq_model (s : State) (c : Cls) (falsy : Handle → Bool)
    (hdc : s.cfg.doCache = true) (hfr : s.cfg.cullFraction ≠ 0) (hrep : Rep s c) :
    cullX (absW s c (relOf s) falsy false) = .ret (absW (cull s c) c (relOf s) falsy false) .none :=
  cullX_eq s c falsy hdc hfr hrep

open SqlObjVerif.PyCache in
/-- `CacheFactory.expire(id)` = `purge` -/
theorem C04_translated_expire_eq_model (s : State) (c : Cls) (k : Id) (rel falsy : Handle → Bool)
    (hnc : s.cfg.doCache = false → (s.fac c).strong = [])
    (hrel : ∀ e ∈ (s.fac c).strong, e.1 = k → rel e.2 = false) :
    expireX (absW s c rel falsy false) k = .ret (absW (purge s c k) c rel falsy false) .none :=
  expireX_eq s c k rel falsy hnc hrel

open SqlObjVerif.PyCache in
/-- `CacheFactory.expireAll()` = `weakrefAll` (per class) -/
theorem C04_translated_expireAll_eq_model (s : State) (c : Cls) (rel falsy : Handle → Bool)
    (hrel : ∀ e ∈ (s.fac c).strong, rel e.2 = false) :
    expireAllX (absW s c rel falsy false) = .ret (absW (weakrefAll s) c rel falsy false) .none :=
  expireAllX_eq s c rel falsy hrel


open SqlObjVerif.PyCache in
/-- `CacheFactory.clear()`: both dicts empty, the strong references dropped (no model function: stated directly) -/
theorem C04_translated_clear_spec (s : State) (c : Cls) (rel falsy : Handle → Bool) (lock : Bool) :
    clearX (absW s c rel falsy lock) =
      .ret ((absD s c rel falsy lock (if s.cfg.doCache then [] else (s.fac c).strong) []).release
              (if s.cfg.doCache then (s.fac c).strong.map (·.2) else [])) .none :=
  clearX_eq s c rel falsy lock

open SqlObjVerif.PyCache in
/-- `CacheFactory.allIDs()`: the strong keys, then the weak keys whose referent is alive and truthy; no state change -/
theorem C04_translated_allIDs_spec (s : State) (c : Cls) (rel falsy : Handle → Bool) (lock : Bool) :
    allIDsX (absW s c rel falsy lock) =
      .retList (absW s c rel falsy lock)
        ((if s.cfg.doCache then (s.fac c).strong.map (fun e => Val.key e.1) else []) ++
         ((s.fac c).weak.filter (listed s falsy)).map (fun e => Val.key e.1)) :=
  allIDsX_eq s c rel falsy lock

open SqlObjVerif.PyCache in
/-- `CacheFactory.getAll()`: the strongly cached objects, then the weakly cached ones that are alive and truthy -/
theorem C04_translated_getAll_spec (s : State) (c : Cls) (rel falsy : Handle → Bool) (lock : Bool) :
    getAllX (absW s c rel falsy lock) =
      .retList (absW s c rel falsy lock)
        ((if s.cfg.doCache then (s.fac c).strong.map (fun e => Val.obj e.2) else []) ++
         ((s.fac c).weak.filter (listed s falsy)).map (fun e => Val.obj e.2)) :=
  getAllX_eq s c rel falsy lock

/-- the representation invariant is an invariant of the hand model: `DictInv` (distinct keys) is preserved by
    EVERY step, and with `CInv` it gives `Rep` for every class in every state a guarded history reaches -/
theorem C04_translated_rep_reachable (cfg : Cfg) (ops : List Op) (hs : Safe (init cfg) ops = true) (c : Cls) :
    Rep (run (init cfg) ops) c :=
  rep_of_inv (C04_inv_reachable _ ops (inv_init cfg) hs) (dictInv_run (dictInv_init cfg) ops) c

theorem C04_translated_dictrep_step (s : State) (op : Op) (h : DictInv s) : DictInv (step s op).1 :=
  dictInv_step h op

/-- non-vacuity: the representation invariant holds initially -/
example (cfg : Cfg) (c : Cls) : Rep (init cfg) c := by
  constructor <;> simp [init, emptyFactory, DictRep]

end SqlObjVerif.Cache
