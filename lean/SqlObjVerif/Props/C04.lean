import SqlObjVerif.Lemmas.Cache
import SqlObjVerif.Lemmas.CacheXCull
import SqlObjVerif.Lemmas.CacheXRep
import SqlObjVerif.Lemmas.CacheXList
import SqlObjVerif.Lemmas.GetXInv
import SqlObjVerif.Lemmas.GetXTx
import SqlObjVerif.Lemmas.GetXExpireAll
import SqlObjVerif.Lemmas.GetXOrder
import SqlObjVerif.Lemmas.GetXMeta
/-!
# C04 — identity map: one live instance per row per connection on every access path

Property theorems only.  `State`, `step`, `run` : `Model/Cache.lean` (cache.py + the SQLObject life cycle);
`guard` / `Safe` (Lemmas/Cache.lean) name the three excluded op classes of the `_partial` theorems:
(E1) `obj.expire()` / `connection.expireAll()` on an instance the application still holds,
(E2) unpickling a row that was deleted,
(E4) `destroySelf()` on an already destroyed instance.  Every theorem holds for every configuration
(`doCache`, `cullFrequency`, `cullFraction`, refcounting or deferred collection) and every history.
-/
namespace SqlObjVerif.Cache

/-- `h` can still be reached: it is alive and the application or some cache map refers to it -/
def Reach (s : State) (h : Handle) : Prop :=
  h < s.n ∧ (s.obj h).dead = false ∧ ((s.obj h).held = true ∨ ∃ c k, Ent s c (k, h))

/-- at most one live, not destroyed instance per (class, id) -/
def Identity (s : State) : Prop :=
  ∀ h1 h2, Reach s h1 → Reach s h2 → (s.obj h1).obsolete = false → (s.obj h2).obsolete = false →
    (s.obj h1).cls = (s.obj h2).cls → (s.obj h1).id = (s.obj h2).id → h1 = h2

/-- the invariant implies identity -/
theorem C04_identity_of_inv (s : State) (hi : CInv s) : Identity s := by
  intro h1 h2 r1 r2 o1 o2 hc hk
  have own : ∀ h, Reach s h → (s.obj h).obsolete = false → Ent s (s.obj h).cls ((s.obj h).id, h) := by
    intro h r o
    rcases r.2.2 with x | ⟨c, k, x⟩
    · exact hi.hcached h r.1 (by simp) x o
    · obtain ⟨_, b2, b3, _⟩ := hi.ent c (k, h) x
      simp only at b2 b3
      rw [b2, b3]; exact x
  have e1 := own h1 r1 o1
  have e2 := own h2 r2 o2
  rw [hc, hk] at e1
  rcases e1 with a | a <;> rcases e2 with b | b
  · exact hi.funS _ _ _ _ a b
  · have := hi.disj _ _ _ _ a b; rw [r2.2.1] at this; cases this
  · have := hi.disj _ _ _ _ b a; rw [r1.2.1] at this; cases this
  · exact hi.funW _ _ _ _ a b

/-- the invariant holds initially and is preserved by EVERY step that is not one of the excluded ops -/
theorem C04_identity_inv (s : State) (op : Op) (hi : CInv s) (hg : guard s op = true) :
    CInv (step s op).1 := (step_spec s op hi hg).1

theorem C04_inv_init (cfg : Cfg) : CInv (init cfg) := inv_init cfg

/-- lifted to every reachable state by induction over the op list -/
theorem C04_inv_reachable (s : State) (ops : List Op) (hi : CInv s) (hs : Safe s ops = true) :
    CInv (run s ops) := by
  induction ops generalizing s with
  | nil => exact hi
  | cons op ops ih =>
    simp only [Safe, Bool.and_eq_true] at hs
    exact ih _ (C04_identity_inv s op hi hs.1) hs.2

/-- identity for every configuration and every history without the excluded ops -/
theorem C04_identity_partial (cfg : Cfg) (ops : List Op) (hs : Safe (init cfg) ops = true) :
    Identity (run (init cfg) ops) :=
  C04_identity_of_inv _ (C04_inv_reachable _ ops (inv_init cfg) hs)

def witnessExpire : List Op := [.create 0 none, .expire 0, .get 0 1]

/-- KNOWN FINDING "C04:expire-then-get": the full statement is false of the code —
    `a = T(...); a.expire(); T.get(a.id) is not a` -/
theorem C04_identity_full_FALSE : ¬ ∀ (cfg : Cfg) (ops : List Op), Identity (run (init cfg) ops) := by
  intro H
  have := H (Cfg.default true) witnessExpire 0 1
    ⟨by decide, by decide, Or.inl (by decide)⟩ ⟨by decide, by decide, Or.inl (by decide)⟩
    (by decide) (by decide) (by decide) (by decide)
  exact absurd this (by decide)

def witnessExpireAll : List Op := [.create 0 none, .expireAll, .get 0 1]

/-- the same through `connection.expireAll()`, with strong caching off as well -/
theorem C04_identity_expireAll_FALSE : ¬ ∀ (cfg : Cfg) (ops : List Op), Identity (run (init cfg) ops) := by
  intro H
  have := H (Cfg.default false) witnessExpireAll 0 1
    ⟨by decide, by decide, Or.inl (by decide)⟩ ⟨by decide, by decide, Or.inl (by decide)⟩
    (by decide) (by decide) (by decide) (by decide)
  exact absurd this (by decide)

example : Safe (init (Cfg.default true)) [.create 0 none, .get 0 1, .drop 0, .get 0 1] = true := by decide
example : Safe (init (Cfg.default true)) witnessExpire = false := by decide

/-- every access path (get, select row, alternate id / unique index, FK attribute, join accessor) returns
    the instance the application holds: any returned handle for that row IS that instance -/
theorem C04_get_returns_live (s : State) (op : Op) (hi : CInv s) (hop : op.isAccess = true)
    (h0 : Handle) (hn : h0 < s.n) (hh : (s.obj h0).held = true) (ho : (s.obj h0).obsolete = false) :
    ∀ r ∈ (step s op).2.handles, ((step s op).1.obj r).cls = (s.obj h0).cls →
      ((step s op).1.obj r).id = (s.obj h0).id → r = h0 := by
  have hg : guard s op = true := by cases op <;> simp_all [guard, Op.isAccess]
  obtain ⟨i1, i2, i3⟩ := step_spec s op hi hg
  have fr := i3 hop
  intro r hr hc hk
  obtain ⟨c, k, g1, g2, g3, g4, g5, g6⟩ := i2 r hr
  obtain ⟨f1, f2, f3, f4⟩ := fr.obj h0 hn
  apply C04_identity_of_inv _ i1 r h0
  · exact ⟨g1, i1.hlive r g1 g4, Or.inl g4⟩
  · have hn' := Nat.lt_of_lt_of_le hn fr.n
    exact ⟨hn', i1.hlive h0 hn' (f4 hh), Or.inl (f4 hh)⟩
  · exact g5
  · rw [f3]; exact ho
  · rw [hc, f1]
  · rw [hk, f2]

/-- … and `get` does hit: it returns that instance, not SQLObjectNotFound, not a new one -/
theorem C04_get_hits (s : State) (hi : CInv s) (h0 : Handle) (hn : h0 < s.n)
    (hh : (s.obj h0).held = true) (ho : (s.obj h0).obsolete = false) :
    (step s (.get (s.obj h0).cls (s.obj h0).id)).2 = .obj h0 := by
  have key := C04_get_returns_live s (.get (s.obj h0).cls (s.obj h0).id) hi rfl h0 hn hh ho
  have hrow := (hi.ent _ _ (hi.hcached h0 hn (by simp) hh ho)).2.2.2.1
  obtain ⟨g1, g2, g3, g4, g5⟩ := getObj_spec s (s.obj h0).cls (s.obj h0).id false hi
  simp only [step] at key ⊢
  generalize getObj s (s.obj h0).cls (s.obj h0).id false = r at g1 g2 g3 g4 g5 key
  obtain ⟨s1, res⟩ := r
  cases res with
  | none => exact absurd hrow (g5 rfl)
  | some h =>
    simp only at key ⊢
    obtain ⟨_, b2, b3, _⟩ := g4 h rfl
    rw [key h (by simp [Out.handles]) b2 b3]

/-- whatever an op hands out belongs to a row that exists and was not destroyed -/
theorem C04_deleted_never_returned_partial (cfg : Cfg) (ops : List Op) (op : Op)
    (hs : Safe (init cfg) (ops ++ [op]) = true) :
    ∀ r ∈ (step (run (init cfg) ops) op).2.handles,
      let s' := (step (run (init cfg) ops) op).1
      (s'.obj r).id ∈ s'.rows (s'.obj r).cls ∧ (s'.obj r).obsolete = false := by
  have split : ∀ (s : State) (l : List Op), Safe s (l ++ [op]) = true →
      Safe s l = true ∧ guard (run s l) op = true := by
    intro s l
    induction l generalizing s with
    | nil => intro h; simpa [Safe, run] using h
    | cons x xs ih =>
      intro h
      simp only [List.cons_append, Safe, Bool.and_eq_true] at h
      have := ih _ h.2
      simp only [Safe, Bool.and_eq_true, run]
      exact ⟨⟨h.1, this.1⟩, this.2⟩
  obtain ⟨s1, s2⟩ := split _ ops hs
  have hi := C04_inv_reachable _ ops (inv_init cfg) s1
  intro r hr
  obtain ⟨c, k, g1, g2, g3, g4, g5, g6⟩ := (step_spec _ op hi s2).2.1 r hr
  simp only
  rw [g2, g3]; exact ⟨g6, g5⟩

def witnessGhost : List Op := [.create 0 none, .pickle 0, .destroy 0, .unpickle 0]

/-- finding "C04:pickle-then-destroy-then-unpickle": unpickling a snapshot of a destroyed row registers
    a live instance of a row that does not exist, and `get` then returns it -/
theorem C04_deleted_never_returned_full_FALSE :
    ¬ ∀ (cfg : Cfg) (ops : List Op) (op : Op), ∀ r ∈ (step (run (init cfg) ops) op).2.handles,
      ((step (run (init cfg) ops) op).1.obj r).id ∈
        (step (run (init cfg) ops) op).1.rows ((step (run (init cfg) ops) op).1.obj r).cls := by
  intro H
  exact absurd (H (Cfg.default true) witnessGhost (.get 0 1) 1 (by decide)) (by decide)

/-- a successful unpickle never creates a second live instance of the row -/
theorem C04_unpickle_no_dup (s : State) (p : Nat) (r : Handle) (hi : CInv s)
    (hg : guard s (.unpickle p) = true) (hr : (step s (.unpickle p)).2 = .obj r) :
    ∀ h, Reach (step s (.unpickle p)).1 h → ((step s (.unpickle p)).1.obj h).obsolete = false →
      ((step s (.unpickle p)).1.obj h).cls = ((step s (.unpickle p)).1.obj r).cls →
      ((step s (.unpickle p)).1.obj h).id = ((step s (.unpickle p)).1.obj r).id → h = r := by
  obtain ⟨i1, i2, _⟩ := step_spec s (.unpickle p) hi hg
  obtain ⟨c, k, g1, g2, g3, g4, g5, g6⟩ := i2 r (by rw [hr]; simp [Out.handles])
  intro h rh oh hc hk
  exact C04_identity_of_inv _ i1 h r rh ⟨g1, i1.hlive r g1 g4, Or.inl g4⟩ oh g5 hc hk

/-- … and it refuses (ValueError, nothing changes) while the application holds an instance of the row -/
theorem C04_unpickle_refused_when_held (s : State) (p : Nat) (c : Cls) (k : Id) (e : Bool) (hi : CInv s)
    (hp : s.pickles[p]? = some (c, k, e)) (h0 : Handle) (hn : h0 < s.n) (hh : (s.obj h0).held = true)
    (ho : (s.obj h0).obsolete = false) (hc : (s.obj h0).cls = c) (hk : (s.obj h0).id = k) :
    (step s (.unpickle p)).2 = .valueError := by
  have e0 := hi.hcached h0 hn (by simp) hh ho
  rw [hc, hk] at e0
  have hd := hi.hlive h0 hn hh
  simp only [step, hp]
  have : tryGet s c k = some h0 := by
    unfold tryGet
    rcases e0 with a | a
    · have hdc : s.cfg.doCache = true := by
        cases h' : s.cfg.doCache with
        | true => rfl
        | false => rw [hi.nocache h' c] at a; cases a
      have hsg := aget_eq_some_of_fun (hi.funS c) a
      have hft : Extracted.Cache.tryGetFallsThrough = true := rfl
      cases hg' : aget k (s.fac c).weak with
      | none => simp [hdc, hsg, hg']
      | some w =>
        have := hi.disj c k h0 w a (aget_some_mem hg')
        simp [this, hft, hdc, hsg, hg']
    · simp only [aget_eq_some_of_fun (hi.funW c) a, hd, Bool.false_eq_true, if_false]
  rw [this]

def witnessTwice : List Op :=
  [.create 0 none, .pickle 0, .get 0 9, .drop 0, .gc [0], .unpickle 0, .unpickle 0]

def cfgCull : Cfg := { doCache := true, cullFrequency := 0, cullFraction := 1, refcount := true }

/-- former finding "C04:pickle-then-get-then-drop-then-unpickle-then-unpickle@cull" (fixed in 4b0786d:
    `tryGet` falls through to the strong map when the weak reference it finds is dead; the fall-through is
    an extracted constant, so undoing the fix breaks `step_spec`): the history is now covered by the
    theorems above, and its second unpickle is refused -/
example : Safe (init cfgCull) witnessTwice = true := by decide

theorem C04_unpickle_twice_refused :
    (step (run (init cfgCull) (witnessTwice.take 6)) (.unpickle 0)).2 = .valueError := by decide

def witnessExpireUnpickle : List Op := [.create 0 none, .pickle 0, .expire 0, .unpickle 0]

/-- what still fails for unpickling at full strength is the open finding "C04:expire-then-get" again:
    after `a.expire()` the cache has forgotten `a`, so `__setstate__`'s guard sees nothing -/
theorem C04_unpickle_no_dup_full_FALSE : ¬ ∀ (cfg : Cfg) (ops : List Op), Identity (run (init cfg) ops) := by
  intro H
  have := H (Cfg.default true) witnessExpireUnpickle 0 1
    ⟨by decide, by decide, Or.inl (by decide)⟩ ⟨by decide, by decide, Or.inl (by decide)⟩
    (by decide) (by decide) (by decide) (by decide)
  exact absurd this (by decide)

/-! ## The hand model of `CacheFactory` IS the translated source

`vlib/extractors/pycache.py` translates every method of `cache.py:CacheFactory` into a PyCache
program on every run (`Extracted/PyCache.lean`); `tryGetX`, `getX`, … (`Model/CacheX.lean`) RUN
those programs from `absW s c rel falsy lock`, the image of class `c`'s factory in model state `s`
(`rel`: which objects die the moment the strong cache drops them, `falsy`: which objects are falsy —
both arbitrary unless stated).  Each theorem: the translated method ends in the image of the state
the hand model's function yields, returning what it returns — for ALL states, under the stated
hypotheses only:
* `Rep s c` (representation invariant, needed where the method iterates a dict): both association
  lists have pairwise distinct keys, and what the strong map refers to is alive;
* `cullFraction ≠ 0` (Python's `range()` raises ValueError for a zero step);
* `relOf s` where the hand model itself decides who dies (`cull`): reference counting on and not held;
* "the dropped object does not die on the spot" where the hand model defers collection to its `gc` op
  (`expire`, `expireAll`, an overwriting `put`/`created`).
A semantic edit of cache.py changes the translated programs and breaks these proofs. -/

open SqlObjVerif.PyCache in
/-- `CacheFactory.tryGet(id)` = `tryGet` (any state, any lock state; nothing changes) -/
theorem C04_translated_tryGet_eq_model (s : State) (c : Cls) (k : Id) (rel falsy : Handle → Bool) (lock : Bool) :
    tryGetX (absW s c rel falsy lock) k = .ret (absW s c rel falsy lock) (optObj (tryGet s c k)) :=
  tryGetX_eq s c k rel falsy lock

open SqlObjVerif.PyCache in
/-- `CacheFactory.get(id)` = `lookupCache ∘ tick`; the lock stays held exactly when it returns None -/
theorem C04_translated_get_eq_model (s : State) (c : Cls) (k : Id) (falsy : Handle → Bool)
    (hfr : s.cfg.cullFraction ≠ 0) (hrep : Rep s c) :
    getX (absW s c (relOf s) falsy false) k =
      .ret (absW (lookupCache (tick s c) c k).1 c (relOf s) falsy (lookupCache (tick s c) c k).2.isNone)
        (optObj (lookupCache (tick s c) c k).2) :=
  getX_eq s c k falsy hfr hrep

open SqlObjVerif.PyCache in
/-- `CacheFactory.put(id, obj)` = `insertEntry` -/
theorem C04_translated_put_eq_model (s : State) (c : Cls) (k : Id) (h : Handle) (rel falsy : Handle → Bool)
    (lock : Bool) (hrel : ∀ e ∈ (s.fac c).strong, e.1 = k → e.2 ≠ h → rel e.2 = false) :
    putX (absW s c rel falsy lock) k h = .ret (absW (insertEntry s c k h) c rel falsy lock) .none :=
  putX_eq s c k h rel falsy lock hrel

open SqlObjVerif.PyCache in
/-- `CacheFactory.finishPut()` releases the lock `get` left held -/
theorem C04_translated_finishPut_eq_model (s : State) (c : Cls) (rel falsy : Handle → Bool) :
    finishPutX (absW s c rel falsy true) = .ret (absW s c rel falsy false) .none :=
  finishPutX_eq s c rel falsy

open SqlObjVerif.PyCache in
/-- `CacheFactory.created(id, obj)` = `insertEntry ∘ tick` -/
theorem C04_translated_created_eq_model (s : State) (c : Cls) (k : Id) (h : Handle) (falsy : Handle → Bool)
    (hfr : s.cfg.cullFraction ≠ 0) (hrep : Rep s c)
    (hrel : ∀ e ∈ (s.fac c).strong, e.1 = k → e.2 ≠ h → relOf s e.2 = false) :
    createdX (absW s c (relOf s) falsy false) k h =
      .ret (absW (insertEntry (tick s c) c k h) c (relOf s) falsy false) .none :=
  createdX_eq s c k h falsy hfr hrep hrel

open SqlObjVerif.PyCache in
/-- `CacheFactory.cull()` = `cull`: the dead-weakref purge, the stride loop over `range(cullOffset, len(keys),
    cullFraction)`, the death of unreferenced objects and the new `cullOffset` -/
theorem C04_translated_cull_eq_model (s : State) (c : Cls) (falsy : Handle → Bool)
    (hdc : s.cfg.doCache = true) (hfr : s.cfg.cullFraction ≠ 0) (hrep : Rep s c) :
    cullX (absW s c (relOf s) falsy false) = .ret (absW (cull s c) c (relOf s) falsy false) .none :=
  cullX_eq s c falsy hdc hfr hrep

open SqlObjVerif.PyCache in
/-- `CacheFactory.expire(id)` = `purge` -/
theorem C04_translated_expire_eq_model (s : State) (c : Cls) (k : Id) (rel falsy : Handle → Bool)
    (hnc : s.cfg.doCache = false → (s.fac c).strong = [])
    (hrel : ∀ e ∈ (s.fac c).strong, e.1 = k → rel e.2 = false) :
    expireX (absW s c rel falsy false) k = .ret (absW (purge s c k) c rel falsy false) .none :=
  expireX_eq s c k rel falsy hnc hrel

open SqlObjVerif.PyCache in
/-- `CacheFactory.expireAll()` = `weakrefAll` (per class) -/
theorem C04_translated_expireAll_eq_model (s : State) (c : Cls) (rel falsy : Handle → Bool)
    (hrel : ∀ e ∈ (s.fac c).strong, rel e.2 = false) :
    expireAllX (absW s c rel falsy false) = .ret (absW (weakrefAll s) c rel falsy false) .none :=
  expireAllX_eq s c rel falsy hrel


open SqlObjVerif.PyCache in
/-- `CacheFactory.clear()`: both dicts empty, the strong references dropped (no model function: stated directly) -/
theorem C04_translated_clear_spec (s : State) (c : Cls) (rel falsy : Handle → Bool) (lock : Bool) :
    clearX (absW s c rel falsy lock) =
      .ret ((absD s c rel falsy lock (if s.cfg.doCache then [] else (s.fac c).strong) []).release
              (if s.cfg.doCache then (s.fac c).strong.map (·.2) else [])) .none :=
  clearX_eq s c rel falsy lock

open SqlObjVerif.PyCache in
/-- `CacheFactory.allIDs()`: the strong keys, then the weak keys whose referent is alive and truthy; no state change -/
theorem C04_translated_allIDs_spec (s : State) (c : Cls) (rel falsy : Handle → Bool) (lock : Bool) :
    allIDsX (absW s c rel falsy lock) =
      .retList (absW s c rel falsy lock)
        ((if s.cfg.doCache then (s.fac c).strong.map (fun e => Val.key e.1) else []) ++
         ((s.fac c).weak.filter (listed s falsy)).map (fun e => Val.key e.1)) :=
  allIDsX_eq s c rel falsy lock

open SqlObjVerif.PyCache in
/-- `CacheFactory.getAll()`: the strongly cached objects, then the weakly cached ones that are alive and truthy -/
theorem C04_translated_getAll_spec (s : State) (c : Cls) (rel falsy : Handle → Bool) (lock : Bool) :
    getAllX (absW s c rel falsy lock) =
      .retList (absW s c rel falsy lock)
        ((if s.cfg.doCache then (s.fac c).strong.map (fun e => Val.obj e.2) else []) ++
         ((s.fac c).weak.filter (listed s falsy)).map (fun e => Val.obj e.2)) :=
  getAllX_eq s c rel falsy lock

/-- the representation invariant is an invariant of the hand model: `DictInv` (distinct keys) is preserved by
    EVERY step, and with `CInv` it gives `Rep` for every class in every state a guarded history reaches -/
theorem C04_translated_rep_reachable (cfg : Cfg) (ops : List Op) (hs : Safe (init cfg) ops = true) (c : Cls) :
    Rep (run (init cfg) ops) c :=
  rep_of_inv (C04_inv_reachable _ ops (inv_init cfg) hs) (dictInv_run (dictInv_init cfg) ops) c

theorem C04_translated_dictrep_step (s : State) (op : Op) (h : DictInv s) : DictInv (step s op).1 :=
  dictInv_step h op

/-- non-vacuity: the representation invariant holds initially -/
example (cfg : Cfg) (c : Cls) : Rep (init cfg) c := by
  constructor <;> simp [init, emptyFactory, DictRep]

/-! ## The CALLER layer IS the translated source too

`vlib/extractors/pyget.py` translates, on every run, `SQLObject.get / _init / _SO_finishCreate / expire /
__getstate__ / __setstate__ / _SO_fetchAlternateID / _SO_foreignKey`, the tail of `destroySelf`,
`Iteration.next` and the methods of `CacheSet` into PyGet programs (`Extracted/PyGet.lean`); `Model/GetX.lean` RUNS
them on a world `GW` around the hand model's state (`s`), with the keys of `CacheSet.caches` (`made`), the factory
locks, the instance write locks, `sqlmeta.dirty`, and the select an `Iteration` runs.  A call of a `CacheFactory`
method RUNS the PyCache program translated from cache.py (so these theorems compose with `C04_translated_*` above);
the database is the model's table.  Interface assumptions: the header of `Model/GetX.lean`.
`conn` is `None` or the (one) connection; `Vsr b` is a `selectResults` argument (`b`: a fetched row's columns,
else `None`); `addMade made c` = `made` with class `c`'s factory created on first use. -/

open SqlObjVerif.PyGet in
/-- `SQLObject._init(id, connection, selectResults)`: sets `self.id` and a fresh write lock; without
    `selectResults` it SELECTs the row and raises SQLObjectNotFound when it is not there -/
theorem C04_translated_init_eq_model (w : GW) (h : Handle) (k : Id) (conn : Val) (hconn : conn = .none ∨ conn = Vconn)
    (srb : Bool) :
    initRowG w h (.key k) conn (Vsr srb) =
      if srb || (w.s.rows (w.s.obj h).cls).contains k then
        .ret { w with s := setObj w.s h { w.s.obj h with id := k }, wlock := upd w.wlock h false,
                      dirty := upd w.dirty h false } .none
      else .exc { w with s := setObj w.s h { w.s.obj h with id := k }, wlock := upd w.wlock h false } .notFound :=
  initRowG_eq w h k conn hconn srb

open SqlObjVerif.PyGet in
/-- `SQLObject.get(id, connection, selectResults)`, exact outcome for ALL worlds (no invariant needed beyond the
    hypotheses of the translated `CacheFactory.get`): a HIT returns the cached object, sends nothing, leaves every
    lock free and (`selectResults` given, instance not dirty) clears `expired`; a MISS on an existing row builds
    exactly one instance (`alloc`), registers it (`cache.put` = `insertEntry`) and releases the factory lock
    (`finishPut`); a MISS on a missing row raises SQLObjectNotFound with the factory lock released again (the
    `finally`), the caches as the lookup left them, and one unregistered instance -/
theorem C04_translated_sqlobject_get_exact (w : GW) (c : Cls) (k : Id) (conn : Val)
    (hconn : conn = .none ∨ conn = Vconn) (srb : Bool)
    (hwf : w.WF) (hl : w.lock c = false) (hwl : ∀ h, w.wlock h = false)
    (hfr : w.s.cfg.cullFraction ≠ 0) (hrep : Rep w.s c)
    (hnc : w.s.cfg.doCache = false → (w.s.fac c).strong = [])
    (hrow : srb = true → k ∈ w.s.rows c) :
    getG w c k conn (Vsr srb) =
      match lookupCache (tick w.s c) c k with
      | (s1, some h) =>
        .ret { w with s := if srb && !w.dirty h then setObj s1 h { s1.obj h with expired := false } else s1,
                      made := addMade w.made c } (.obj h)
      | (s1, none) =>
        if k ∈ s1.rows c then
          .ret { w with s := insertEntry (alloc s1 c k false) c k s1.n, made := addMade w.made c,
                        wlock := upd w.wlock s1.n false, dirty := upd w.dirty s1.n false } (.obj s1.n)
        else
          .exc { w with s := alloc s1 c k false, made := addMade w.made c,
                        wlock := upd w.wlock s1.n false, dirty := upd w.dirty s1.n false } .notFound :=
  getG_eq w c k conn hconn srb hwf hl hwl hfr hrep hnc hrow

open SqlObjVerif.PyGet in
/-- `SQLObject.get` = the hand model's `getObj` (clean instances): same handle, and — once the caller holds what it
    was handed — the same state; on a missing row SQLObjectNotFound with every factory, every lock and the table as in
    the model's state (the one instance built on the way is garbage: no cache entry, no reference) -/
theorem C04_translated_sqlobject_get_eq_model (w : GW) (c : Cls) (k : Id) (conn : Val)
    (hconn : conn = .none ∨ conn = Vconn) (srb : Bool)
    (hwf : w.WF) (hl : w.lock c = false) (hwl : ∀ h, w.wlock h = false) (hd : ∀ h, w.dirty h = false)
    (hfr : w.s.cfg.cullFraction ≠ 0) (hrep : Rep w.s c)
    (hnc : w.s.cfg.doCache = false → (w.s.fac c).strong = [])
    (hrow : srb = true → k ∈ w.s.rows c) :
    match getObj w.s c k srb with
    | (s', some h) => ∃ W, getG w c k conn (Vsr srb) = .ret W (.obj h) ∧ holdS W.s h = s' ∧ W.lock = w.lock ∧
        W.made = addMade w.made c ∧ (∀ x, W.wlock x = false) ∧ (∀ x, W.dirty x = false)
    | (s', none) => ∃ W, getG w c k conn (Vsr srb) = .exc W .notFound ∧ W.lock = w.lock ∧
        W.made = addMade w.made c ∧ W.s.fac = s'.fac ∧ W.s.rows = s'.rows ∧ W.s.cfg = s'.cfg ∧
        W.s.n = s'.n + 1 ∧ ∀ x, x ≠ s'.n → W.s.obj x = s'.obj x :=
  getG_model w c k conn hconn srb hwf hl hwl hd hfr hrep hnc hrow

open SqlObjVerif.PyGet in
/-- `_SO_finishCreate(id)` on the instance `cls(…)` just allocated = the model's `create` step (INSERT,
    `cache.created(id, cls, self)`, `_init(id)`); a duplicate id raises and registers nothing -/
theorem C04_translated_finishCreate_eq_model (w : GW) (c : Cls) (ko : Option Id) (hwf : w.WF) (hl : w.lock c = false)
    (hfr : w.s.cfg.cullFraction ≠ 0) (hrep : Rep w.s c)
    (hk : ahasKey (ko.getD (w.s.maxId c + 1)) (w.s.fac c).strong = false) :
    finishCreateG (w.construct c) w.s.n (idArg ko) =
      match step w.s (.create c ko) with
      | (s', .obj _) => .ret { w.construct c with s := s', made := addMade w.made c } .none
      | (_, _) => .exc (w.construct c) .duplicate :=
  finishCreateG_model w c ko hwf hl hfr hrep hk

open SqlObjVerif.PyGet in
/-- the tail of `destroySelf()` (`_SO_delete`, `_obsolete = True`, `cache.expire(id, cls)`) = the model's `destroy` -/
theorem C04_translated_destroy_tail_eq_model (w : GW) (h : Handle) (hu : usable w.s h = true) (hwf : w.WF)
    (hl : w.lock (w.s.obj h).cls = false)
    (hnc : w.s.cfg.doCache = false → (w.s.fac (w.s.obj h).cls).strong = [])
    (hrel : ∀ e ∈ (w.s.fac (w.s.obj h).cls).strong, e.1 = (w.s.obj h).id → relOf w.s e.2 = false) :
    destroyTailG w h = .ret { w with s := (step w.s (.destroy h)).1 } .none :=
  destroyTailG_model w h hu hwf hl hnc hrel

open SqlObjVerif.PyGet in
/-- `inst.expire()` = the model's `expire` step; the write lock is free again afterwards -/
theorem C04_translated_instance_expire_eq_model (w : GW) (h : Handle) (hu : usable w.s h = true) (hwf : w.WF)
    (hl : w.lock (w.s.obj h).cls = false) (hwl : w.wlock h = false)
    (hnc : w.s.cfg.doCache = false → (w.s.fac (w.s.obj h).cls).strong = [])
    (hrel : ∀ e ∈ (w.s.fac (w.s.obj h).cls).strong, e.1 = (w.s.obj h).id → relOf w.s e.2 = false) :
    expireG w h = .ret { w with s := (step w.s (.expire h)).1, dirty := upd w.dirty h false } .none :=
  expireG_model w h hu hwf hl hwl hnc hrel

open SqlObjVerif.PyGet in
/-- `__getstate__()` returns the pickled state the model's `pickle` records, and changes nothing -/
theorem C04_translated_getstate_eq_model (w : GW) (h : Handle) :
    getstateG w h = .ret w (Vpickle (w.s.obj h).id (w.s.obj h).expired) :=
  getstateG_eq w h

open SqlObjVerif.PyGet in
/-- `__setstate__(d)` on the instance `pickle` made = the model's `unpickle`: ValueError — nothing registered, no
    factory or lock touched — when `cache.tryGet` finds an instance of the row, else `cache.created` -/
theorem C04_translated_setstate_eq_model (w : GW) (c : Cls) (k : Id) (e : Bool) (hwf : w.WF) (hl : w.lock c = false)
    (hfr : w.s.cfg.cullFraction ≠ 0) (hrep : Rep w.s c)
    (hnc : w.s.cfg.doCache = false → (w.s.fac c).strong = [])
    (hlt : ∀ x, Ent w.s c x → x.2 < w.s.n) :
    setstateG (w.construct c) w.s.n (Vpickle k e) =
      match tryGet w.s c k with
      | some _ => .exc { w.construct c with s := alloc w.s c k e } .valueError
      | none => .ret { w.construct c with s := insertEntry (tick (alloc w.s c k e) c) c k w.s.n,
                                          made := addMade w.made c } .none :=
  setstateG_model w c k e hwf hl hfr hrep hnc hlt

open SqlObjVerif.PyGet in
/-- `_SO_fetchAlternateID` (byAlternateID / unique index): NotFound when the query finds nothing, else
    `cls.get(<id>, connection, selectResults=<the row>)` — the model's `look` -/
theorem C04_translated_alternate_eq_model (w : GW) (c : Cls) (k : Id) (conn : Val) (idx : Option String)
    (hconn : conn = .none ∨ conn = Vconn) :
    fetchAlternateIDG w c k conn (strArg idx) =
      if k ∈ w.s.rows c then getG w c k conn Vcols else .exc w .notFound :=
  fetchAlternateIDG_eq w c k conn idx hconn

open SqlObjVerif.PyGet in
/-- `Iteration.next()`: StopIteration at the end of the cursor, else `sourceClass.get(id, selectResults=<columns>,
    connection=dbconn)` for the next existing row (`get(id, connection=dbconn)` for a lazyColumns select) — one turn of
    the model's `selectLoop` -/
theorem C04_translated_iteration_eq_model (w : GW) (c : Cls) :
    iterNextG w c =
      match fetch (w.s.rows c) w.cursor with
      | (none, rest) => .exc { w with cursor := rest } .stopIteration
      | (some k, rest) => getG { w with cursor := rest } c k Vconn (Vsr (!w.lazyCols)) :=
  iterNextG_eq w c

open SqlObjVerif.PyGet in
/-- the foreign-key getter `_SO_foreignKey(value, joinClass, None)`: `None` for NULL, else `joinClass.get(value)` —
    the model's `fk` -/
theorem C04_translated_foreignKey_eq_model (w : GW) (h : Handle) (tc : Cls) (t : Option Id) :
    foreignKeyG w h (idArg t) tc .none =
      match t with
      | none => .ret w .none
      | some k => getG w tc k .none .none :=
  foreignKeyG_eq w h tc t

open SqlObjVerif.PyGet in
/-- `CacheSet.get(id, cls)`: the class's factory (created by the atomic `setdefault` on first use) runs the translated
    `CacheFactory.get` -/
theorem C04_translated_cacheSet_get_eq_model (w : GW) (c : Cls) (k : Id) (hwf : w.WF) (hl : w.lock c = false)
    (hfr : w.s.cfg.cullFraction ≠ 0) (hrep : Rep w.s c) :
    csCall w "get" [.key k, .cls c] =
      .ret { w with s := (lookupCache (tick w.s c) c k).1, made := addMade w.made c,
                    lock := upd w.lock c (lookupCache (tick w.s c) c k).2.isNone }
        (optV (lookupCache (tick w.s c) c k).2) :=
  csGet_eq w c k hwf hl hfr hrep

open SqlObjVerif.PyGet in
/-- `CacheSet.put / finishPut / created / expire / tryGet`: class-name keyed dispatch to the translated
    `CacheFactory` method (`expire` / `tryGet` of a class without a factory: nothing / `None`) -/
theorem C04_translated_cacheSet_methods_eq_model (w : GW) (c : Cls) (k : Id) (h : Handle) (hwf : w.WF) :
    (c ∈ w.made → (∀ e ∈ (w.s.fac c).strong, e.1 = k → e.2 ≠ h → relOf w.s e.2 = false) →
      csCall w "put" [.key k, .cls c, .obj h] = .ret { w with s := insertEntry w.s c k h } .none) ∧
    (c ∈ w.made → w.lock c = true →
      csCall w "finishPut" [.cls c] = .ret { w with lock := upd w.lock c false } .none) ∧
    (w.lock c = false → w.s.cfg.cullFraction ≠ 0 → Rep w.s c →
      (∀ e ∈ (w.s.fac c).strong, e.1 = k → e.2 ≠ h → relOf w.s e.2 = false) →
      csCall w "created" [.key k, .cls c, .obj h] =
        .ret { w with s := insertEntry (tick w.s c) c k h, made := addMade w.made c } .none) ∧
    (w.lock c = false → (w.s.cfg.doCache = false → (w.s.fac c).strong = []) →
      (∀ e ∈ (w.s.fac c).strong, e.1 = k → relOf w.s e.2 = false) →
      csCall w "expire" [.key k, .cls c] = .ret { w with s := purge w.s c k } .none) ∧
    csCall w "tryGet" [.key k, .cls c] = .ret w (optV (tryGet w.s c k)) :=
  ⟨fun hc hrel => csPut_eq w c k h hc hrel, fun hc hl => csFinishPut_eq w c hc hl,
   fun hl hfr hrep hrel => csCreated_eq w c k h hwf hl hfr hrep hrel,
   fun hl hnc hrel => csExpire_eq w c k hwf hl hnc hrel, csTryGet_eq w c k hwf⟩

open SqlObjVerif.PyGet in
/-- per-class factories: whatever `get` / `created` / `put` / `expire` do for class `c`, the factory and the lock of
    every other class `c'` — in particular an entry filed under the SAME id — stay as they are -/
theorem C04_translated_cacheSet_dispatch (w : GW) (c c' : Cls) (k : Id) (h : Handle) (hne : c' ≠ c) (hwf : w.WF)
    (hl : w.lock c = false) (hfr : w.s.cfg.cullFraction ≠ 0) (hrep : Rep w.s c)
    (hnc : w.s.cfg.doCache = false → (w.s.fac c).strong = [])
    (hk : ahasKey k (w.s.fac c).strong = false) :
    (∃ W v, csCall w "get" [.key k, .cls c] = .ret W v ∧ W.s.fac c' = w.s.fac c' ∧ W.lock c' = w.lock c') ∧
    (∃ W v, csCall w "created" [.key k, .cls c, .obj h] = .ret W v ∧ W.s.fac c' = w.s.fac c' ∧ W.lock c' = w.lock c') ∧
    (c ∈ w.made → ∃ W v, csCall w "put" [.key k, .cls c, .obj h] = .ret W v ∧ W.s.fac c' = w.s.fac c' ∧ W.lock c' = w.lock c') ∧
    (∃ W v, csCall w "expire" [.key k, .cls c] = .ret W v ∧ W.s.fac c' = w.s.fac c' ∧ W.lock c' = w.lock c') ∧
    (csCall w "tryGet" [.key k, .cls c'] = .ret w (optV (tryGet w.s c' k))) :=
  cacheSet_dispatch w c c' k h hne hwf hl hfr hrep hnc hk

/-! ### `CacheSet` methods that loop over all factories; C07's interface; `delete`; `connection.expireAll()` -/

open SqlObjVerif.PyGet in
/-- the `CacheSet` methods that loop over every factory (`self.caches.values()`, dict order), as translated:
    * `weakrefAll()` = the model's `weakrefAll` (no lock held; `NoRel`: what the strong cache lets go of does not die on
      the spot); `weakrefAll(cls)` = that class's `CacheFactory.expireAll()` (`weakrefOne`), nothing without a factory;
    * `clear()` = `CacheFactory.clear()` of every factory in turn (`facFold`; each one: `C04_translated_clear_spec`),
      `clear(cls)` = that factory's;
    * `allSubCaches()` = the factories; `allSubCachesByClassNames()` = the `caches` dict itself;
    * `getAll()` = the instances every factory lists, concatenated, nothing changes; `getAll(cls)` = that factory's list;
    * `allIDs(cls)` AS WRITTEN drops the factory's answer (no `return`): `None` with a factory, `[]` without -/
theorem C04_translated_cacheSet_loops_eq_model (w : GW) (c : Cls) :
    (w.WF → (∀ c, w.lock c = false) → NoRel w.s →
      csCall w "weakrefAll" [] = .ret { w with s := weakrefAll w.s } .none) ∧
    (w.lock c = false → (∀ e ∈ (w.s.fac c).strong, relOf w.s e.2 = false) →
      csCall w "weakrefAll" [.cls c] = .ret (if c ∈ w.made then { w with s := weakrefOne w.s c } else w) .none) ∧
    csCall w "clear" [] = CallRes.unit (facFold "clear" w.made w) ∧
    csCall w "clear" [.cls c] = (if c ∈ w.made then CallRes.unit (facCall w c "clear" []) else .ret w .none) ∧
    csCall w "allSubCaches" [] = .ret w (Val.ofList (w.made.map fun c => Val.ref "factory" c)) ∧
    csCall w "allSubCachesByClassNames" [] = .ret w Vcaches ∧
    csCall w "getAll" [] = .ret w (Val.ofList ((w.made.flatMap (facObjs w)).map Val.obj)) ∧
    csCall w "getAll" [.cls c] = .ret w (if c ∈ w.made then Val.ofList ((facObjs w c).map Val.obj) else .nil) ∧
    csCall w "allIDs" [.cls c] = .ret w (if c ∈ w.made then .none else .nil) :=
  ⟨fun hwf hl hr => csWeakrefAll_all w hwf hl hr, fun hl hrel => csWeakrefAll_cls w c hl hrel, csClear_all w,
   csClear_cls w c, csAllSubCaches_eq w, csAllSubCachesByClassNames_eq w, csGetAll_all w, csGetAll_cls w c,
   csAllIDs_eq w c⟩

open SqlObjVerif.PyGet SqlObjVerif.Tx in
/-- C07's interface assumption about `allSubCaches()` / `allSubCachesByClassNames()` / `sub.allIDs()` (header of
    `Model/TxX.lean`), PROVED of the translated methods for every world `w` representing C07's connection `t`
    (`ConnRel`: key = class * 1000 + id, `strong` / `weak` = the factory's two dicts, `alive` = not dead): they list the
    classes `A.classes t` and the ids `A.ids dc t c`, change nothing, and `AllIDsSpec A dc t` holds (`A = allIDsOf w`) -/
theorem C04_translated_cacheSet_allIDs_is_inAllIDs {dc : Bool} {t : Conn} {w : GW} (h : ConnRel dc t w) (hwf : w.WF)
    (hd : DictInv w.s) :
    csCall w "allSubCaches" [] = .ret w (Val.ofList (((allIDsOf w).classes t).map fun c => Val.ref "factory" c)) ∧
    (csCall w "allSubCachesByClassNames" [] = .ret w Vcaches ∧
      csIface.values w Vcaches = some (((allIDsOf w).classes t).map fun c => Val.ref "factory" c)) ∧
    (∀ c, facCall w c "allIDs" [] = .ret w (Val.ofList (((allIDsOf w).ids dc t c).map Val.key))) ∧
    AllIDsSpec (allIDsOf w) dc t :=
  cacheSet_allIDs_is_inAllIDs h hwf hd

open SqlObjVerif.PyGet SqlObjVerif.Tx in
/-- C07's interface assumption about `sub.tryGet(id)` / `cache.tryGetByName(id, cls)`: as translated they are
    `Conn.tryGet` of the represented connection, and change nothing -/
theorem C04_translated_cacheSet_tryGetByName_is_connTryGet {dc : Bool} {t : Conn} {w : GW} (h : ConnRel dc t w)
    (hwf : w.WF) (c : Cls) (i : Id) (hi : i < 1000) :
    facCall w c "tryGet" [.key i] = .ret w (optV (t.tryGet dc (mkKey c i))) ∧
    csCall w "tryGetByName" [.key i, .name c] = .ret w (optV (t.tryGet dc (mkKey c i))) ∧
    csCall w "tryGet" [.key i, .cls c] = .ret w (optV (t.tryGet dc (mkKey c i))) :=
  cacheSet_tryGet_is_connTryGet h hwf c i hi

open SqlObjVerif.PyGet in
/-- `cls.delete(id, connection)` = `cls.get(id, connection=connection)` then `destroySelf()` of what it returned
    (`destroy`: the cascade is C12's; its cache-facing tail is `C04_translated_destroy_tail_eq_model`) -/
theorem C04_translated_delete_eq_model (destroy : GW → Handle → CallRes GW) (w : GW) (c : Cls) (k : Id) (conn : Val) :
    (∀ W h, getG w c k conn .none = .ret W (.obj h) → deleteG destroy w c k conn = CallRes.unit (destroy W h)) ∧
    (∀ W e, getG w c k conn .none = .exc W e → deleteG destroy w c k conn = .exc W e) :=
  deleteG_eq destroy w c k conn

open SqlObjVerif.PyGet in
/-- `connection.expireAll()`: `cache.weakrefAll()` = the model's `weakrefAll`, then `item.expire()` = the model's
    `expireOne` for every instance `cache.getAll()` lists (the model's `expireAll` step folds `expireOne` over the same
    set of instances in handle order) -/
theorem C04_translated_connection_expireAll_eq_model (w : GW) (hwf : w.WF) (hl : ∀ c, w.lock c = false)
    (hwl : ∀ h, w.wlock h = false) (hr : NoRel w.s)
    (hnc : w.s.cfg.doCache = false → ∀ c, (w.s.fac c).strong = []) :
    connExpireAllG w =
      let W1 : GW := { w with s := weakrefAll w.s }
      let items := W1.made.flatMap (facObjs W1)
      .ret { W1 with s := items.foldl expireOne W1.s, dirty := items.foldl (fun d h => upd d h false) w.dirty } .none :=
  connExpireAllG_eq w hwf hl hwl hr hnc

open SqlObjVerif.PyGet in
/-- `connection.expireAll()` = the hand model's `expireAll` STEP ITSELF: the translated code expires the instances
    `cache.getAll()` lists in dict order, the model in handle order; `expire()` of a set of instances does not depend on
    the order (`foldl_expireOne_eq`: both folds are `expSet`), and the two lists have the same members (`getAll_mem_iff`) -/
theorem C04_translated_connection_expireAll_eq_model_step (w : GW) (hg : GInv w) (hr : NoRel w.s)
    (hf : ∀ h, w.falsy h = false) :
    connExpireAllG w = .ret { w with s := (step w.s .expireAll).1 } .none :=
  connExpireAllG_model w hg hr hf

/-- `expire()` of the same instances in any order, any number of times, ends in the same state -/
theorem C04_expire_order_irrelevant (s : State) (l1 l2 : List Handle) (h : ∀ x, x ∈ l1 ↔ x ∈ l2) :
    l1.foldl expireOne s = l2.foldl expireOne s := by
  rw [foldl_expireOne_eq, foldl_expireOne_eq, expSet_congr s l1 l2 h]

open SqlObjVerif.PyGet in
/-- `cls.sqlmeta.expireAll(connection)`: `cache.weakrefAll(cls)` = that class's `CacheFactory.expireAll()` (`weakrefOne`;
    nothing for a class without a factory), then `item.expire()` = the model's `expireOne` for every instance
    `cache.getAll(cls)` lists.  `hcls` is the "class of a cached object" hypothesis, stated explicitly: what class `c`'s
    factory refers to is an instance of class `c` (a clause of the invariant `CInv`) -/
theorem C04_translated_meta_expireAll_eq_model (w : GW) (c : Cls) (conn : Val) (hconn : conn = .none ∨ conn = Vconn)
    (hwf : w.WF) (hl : w.lock c = false) (hwl : ∀ h, w.wlock h = false)
    (hrel : ∀ e ∈ (w.s.fac c).strong, relOf w.s e.2 = false)
    (hnc : w.s.cfg.doCache = false → (w.s.fac c).strong = [])
    (hcls : ∀ e, Ent w.s c e → (w.s.obj e.2).cls = c) :
    metaExpireAllG w c conn =
      let W1 : GW := if c ∈ w.made then { w with s := weakrefOne w.s c } else w
      let items := if c ∈ w.made then facObjs W1 c else []
      .ret { W1 with s := items.foldl expireOne W1.s, dirty := items.foldl (fun d h => upd d h false) w.dirty } .none :=
  metaExpireAllG_eq w c conn hconn hwf hl hwl hrel hnc hcls

/-! ### the headline theorems, about the translated source

`GInv w`: the model state inside world `w` satisfies the identity invariant `CInv` and `DictInv`, `CacheSet.caches`
is consistent with it, no lock is held (one thread, between calls), instances are clean, `cullFraction ≠ 0`. -/

open SqlObjVerif.PyGet in
/-- `C04_identity` for the translated `get`: from any such world the translated code follows the model's `getObj`,
    and — once the caller holds the result — the world satisfies `GInv` (hence `Identity`) again -/
theorem C04_translated_identity (w : GW) (hg : GInv w) (c : Cls) (k : Id) (conn : Val)
    (hconn : conn = .none ∨ conn = Vconn) (srb : Bool) (hrow : srb = true → k ∈ w.s.rows c) :
    match getObj w.s c k srb with
    | (s', some h) => ∃ W, getG w c k conn (Vsr srb) = .ret W (.obj h) ∧ holdS W.s h = s' ∧
        GInv { W with s := s' } ∧ Identity s' ∧ Good s' c k h
    | (s', none) => ∃ W, getG w c k conn (Vsr srb) = .exc W .notFound ∧ W.lock = w.lock ∧ W.s.fac = s'.fac ∧
        W.s.rows = s'.rows ∧ k ∉ w.s.rows c := by
  have := ginv_get w hg c k conn hconn srb hrow
  generalize getObj w.s c k srb = r at this
  obtain ⟨s', res⟩ := r
  cases res with
  | some h =>
    obtain ⟨W, a, b, d, e⟩ := this
    exact ⟨W, a, b, d, C04_identity_of_inv _ d.inv, e⟩
  | none => exact this

/-- the model's `getObj` finds the instance the application holds, with or without `selectResults` -/
theorem C04_getObj_finds_held (s : State) (hi : CInv s) (h0 : Handle) (hn : h0 < s.n)
    (hh : (s.obj h0).held = true) (ho : (s.obj h0).obsolete = false) (srb : Bool) :
    (getObj s (s.obj h0).cls (s.obj h0).id srb).2 = some h0 := by
  have hrow := (hi.ent _ _ (hi.hcached h0 hn (by simp) hh ho)).2.2.2.1
  obtain ⟨g1, g2, g3, g4, g5⟩ := getObj_spec s (s.obj h0).cls (s.obj h0).id srb hi
  have key : ∀ r, (getObj s (s.obj h0).cls (s.obj h0).id srb).2 = some r → r = h0 := by
    intro r hr
    obtain ⟨b1, b2, b3, b4, b5, b6⟩ := g4 r hr
    obtain ⟨f1, f2, f3, f4⟩ := g2.obj h0 hn
    have hn' := Nat.lt_of_lt_of_le hn g2.n
    apply C04_identity_of_inv _ g1 r h0 ⟨b1, g1.hlive r b1 b4, Or.inl b4⟩
      ⟨hn', g1.hlive h0 hn' (f4 hh), Or.inl (f4 hh)⟩ b5 (by rw [f3]; exact ho)
    · rw [b2, f1]
    · rw [b3, f2]
  cases hr : (getObj s (s.obj h0).cls (s.obj h0).id srb).2 with
  | none => exact absurd hrow (g5 hr)
  | some r => rw [key r hr]

open SqlObjVerif.PyGet in
/-- `C04_get_returns_live` for the translated source, every access path: while the application holds a live,
    not destroyed instance `h0` of row (c, k), the translated `get` (with or without `selectResults`, default or
    explicit connection), `_SO_fetchAlternateID`, `Iteration.next` (next cursor row = k) and the foreign-key getter
    all return THAT instance -/
theorem C04_translated_get_returns_live (w : GW) (hg : GInv w) (h0 : Handle) (hn : h0 < w.s.n)
    (hh : (w.s.obj h0).held = true) (ho : (w.s.obj h0).obsolete = false) (conn : Val)
    (hconn : conn = .none ∨ conn = Vconn) :
    (∀ srb, ∃ W, getG w (w.s.obj h0).cls (w.s.obj h0).id conn (Vsr srb) = .ret W (.obj h0)) ∧
    (∀ idx : Option String, ∃ W, fetchAlternateIDG w (w.s.obj h0).cls (w.s.obj h0).id conn
        (strArg idx) = .ret W (.obj h0)) ∧
    (∀ rest, w.cursor = (w.s.obj h0).id :: rest → ∃ W, iterNextG w (w.s.obj h0).cls = .ret W (.obj h0)) ∧
    (∀ h, ∃ W, foreignKeyG w h (idArg (some (w.s.obj h0).id)) (w.s.obj h0).cls .none = .ret W (.obj h0)) := by
  have hrow : (w.s.obj h0).id ∈ w.s.rows (w.s.obj h0).cls :=
    (hg.inv.ent _ _ (hg.inv.hcached h0 hn (by simp) hh ho)).2.2.2.1
  have main : ∀ (w' : GW), w'.s = w.s → GInv w' → ∀ conn', (conn' = .none ∨ conn' = Vconn) → ∀ srb,
      ∃ W, getG w' (w.s.obj h0).cls (w.s.obj h0).id conn' (Vsr srb) = .ret W (.obj h0) := by
    intro w' hs hg' conn' hconn' srb
    have := ginv_get w' hg' (w.s.obj h0).cls (w.s.obj h0).id conn' hconn' srb (fun _ => hs ▸ hrow)
    have hf := C04_getObj_finds_held w.s hg.inv h0 hn hh ho srb
    rw [hs] at this
    generalize getObj w.s (w.s.obj h0).cls (w.s.obj h0).id srb = r at this hf
    obtain ⟨s', res⟩ := r
    simp only at hf
    subst hf
    obtain ⟨W, a, _⟩ := this
    exact ⟨W, a⟩
  refine ⟨main w rfl hg conn hconn, ?_, ?_, ?_⟩
  · intro idx
    rw [fetchAlternateIDG_eq w _ _ conn idx hconn, if_pos hrow]
    exact main w rfl hg conn hconn true
  · intro rest hc
    rw [iterNextG_eq, hc]
    have : (w.s.rows (w.s.obj h0).cls).contains (w.s.obj h0).id = true := by simpa using hrow
    simp only [fetch, this, if_true]
    exact main { w with cursor := rest } rfl ⟨hg.inv, hg.dict, hg.wf, hg.lock, hg.wlock, hg.clean, hg.frac⟩
      Vconn (Or.inr rfl) _
  · intro h
    rw [foreignKeyG_eq]
    exact main w rfl hg .none (Or.inl rfl) false

open SqlObjVerif.PyGet in
/-- `C04_deleted_never_returned` for the translated source: whatever the translated `get` hands out belongs to a row
    that exists and was not destroyed; and after the translated tail of `destroySelf` on a held instance, the
    translated `get` of that row raises SQLObjectNotFound -/
theorem C04_translated_deleted_never_returned_partial (w : GW) (hg : GInv w) :
    (∀ c k conn srb, (conn = Val.none ∨ conn = Vconn) → (srb = true → k ∈ w.s.rows c) →
      ∀ W h, getG w c k conn (Vsr srb) = .ret W (.obj h) →
        k ∈ (holdS W.s h).rows c ∧ ((holdS W.s h).obj h).obsolete = false ∧ ((holdS W.s h).obj h).id = k) ∧
    (∀ h0, usable w.s h0 = true → (w.s.obj h0).obsolete = false → ∀ conn, (conn = Val.none ∨ conn = Vconn) →
      ∃ W1, destroyTailG w h0 = .ret W1 .none ∧
        ∃ W2, getG W1 (w.s.obj h0).cls (w.s.obj h0).id conn (Vsr false) = .exc W2 .notFound) := by
  constructor
  · intro c k conn srb hconn hrow W h hW
    have := ginv_get w hg c k conn hconn srb hrow
    generalize getObj w.s c k srb = r at this
    obtain ⟨s', res⟩ := r
    cases res with
    | some h' =>
      obtain ⟨W', a, b, _, g⟩ := this
      rw [a] at hW
      simp only [CallRes.ret.injEq, Val.obj.injEq] at hW
      obtain ⟨rfl, rfl⟩ := hW
      rw [b]
      exact ⟨g.2.2.2.2.2, g.2.2.2.2.1, g.2.2.1⟩
    | none =>
      obtain ⟨W', a, _⟩ := this
      rw [a] at hW; cases hW
  · intro h0 hu ho conn hconn
    have hu' := hu
    simp only [usable, Bool.and_eq_true, decide_eq_true_eq] at hu'
    have hrel := hrel_of_inv hg.inv hu'.1 hu'.2 ho
    have e1 := destroyTailG_model w h0 hu hg.wf (hg.lock _) (fun hd => hg.inv.nocache hd _) hrel
    refine ⟨_, e1, ?_⟩
    obtain ⟨i1, _, _⟩ := step_spec w.s (.destroy h0) hg.inv (by simp [guard, ho])
    have hd := dictInv_step hg.dict (.destroy h0)
    have hfac : ∀ c', c' ∉ w.made → (step w.s (.destroy h0)).1.fac c' = emptyFactory := by
      intro c' hc'
      simp only [step, hu, if_true]
      by_cases hcc : c' = (w.s.obj h0).cls
      · subst hcc
        rw [purge_eq]
        simp [setFac, upd, (hg.wf _ hc').1, emptyFactory, aerase]
      · rw [(local_purge _ (w.s.obj h0).cls (w.s.obj h0).id).fac c' hcc]
        exact (hg.wf c' hc').1
    have hcfg : (step w.s (.destroy h0)).1.cfg = w.s.cfg := by
      simp only [step, hu, if_true]; exact (local_purge _ _ _).cfg
    have hg1 : GInv { w with s := (step w.s (.destroy h0)).1 } :=
      ⟨i1, hd, fun c' hc' => ⟨hfac c' hc', (hg.wf c' hc').2⟩, hg.lock, hg.wlock, hg.clean, by rw [hcfg]; exact hg.frac⟩
    have := ginv_get _ hg1 (w.s.obj h0).cls (w.s.obj h0).id conn hconn false (by simp)
    obtain ⟨g1, g2, g3, g4, g5⟩ := getObj_spec (step w.s (.destroy h0)).1 (w.s.obj h0).cls (w.s.obj h0).id false i1
    have hgone : (w.s.obj h0).id ∉ (step w.s (.destroy h0)).1.rows (w.s.obj h0).cls := by
      simp only [step, hu, if_true]
      rw [(local_purge _ _ _).rows]
      simp [upd]
    generalize getObj (step w.s (.destroy h0)).1 (w.s.obj h0).cls (w.s.obj h0).id false = r at this g2 g4
    obtain ⟨s', res⟩ := r
    cases res with
    | some h' =>
      have := (g4 h' rfl).2.2.2.2.2
      rw [g2.rows] at this
      exact absurd this hgone
    | none =>
      obtain ⟨W2, a, _⟩ := this
      exact ⟨W2, a⟩

open SqlObjVerif.PyGet in
/-- `C04_unpickle_no_dup` for the translated source: the translated `__setstate__` refuses (ValueError, nothing
    registered) while the application holds a live instance of the row; when it succeeds for an existing row, the
    world satisfies the invariant — hence `Identity`: no second live instance — again -/
theorem C04_translated_unpickle_no_dup (w : GW) (hg : GInv w) (c : Cls) (k : Id) (e : Bool) :
    (∀ h0, h0 < w.s.n → (w.s.obj h0).held = true → (w.s.obj h0).obsolete = false → (w.s.obj h0).cls = c →
      (w.s.obj h0).id = k → ∃ W, setstateG (w.construct c) w.s.n (Vpickle k e) = .exc W .valueError ∧
        W.s.fac = w.s.fac ∧ W.lock = w.lock ∧ W.made = w.made) ∧
    (k ∈ w.s.rows c → ∀ W, setstateG (w.construct c) w.s.n (Vpickle k e) = .ret W .none →
      CInv W.s ∧ Identity W.s ∧ Good W.s c k w.s.n) := by
  have hrep := rep_of_inv hg.inv hg.dict c
  have hm := setstateG_model w c k e hg.wf (hg.lock c) hg.frac hrep (fun hd => hg.inv.nocache hd c)
    (fun x hx => (hg.inv.ent c x hx).1)
  constructor
  · intro h0 hn hh ho hc hk
    have e0 := hg.inv.hcached h0 hn (by simp) hh ho
    rw [hc, hk] at e0
    have hdead := hg.inv.hlive h0 hn hh
    have ht : tryGet w.s c k = some h0 := by
      unfold tryGet
      rcases e0 with a | a
      · have hdc : w.s.cfg.doCache = true := by
          cases h' : w.s.cfg.doCache with
          | true => rfl
          | false => rw [hg.inv.nocache h' c] at a; cases a
        have hsg := aget_eq_some_of_fun (hg.inv.funS c) a
        have hft : Extracted.Cache.tryGetFallsThrough = true := rfl
        cases hg' : aget k (w.s.fac c).weak with
        | none => simp [hdc, hsg, hg']
        | some x =>
          have := hg.inv.disj c k h0 x a (aget_some_mem hg')
          simp [this, hft, hdc, hsg, hg']
      · simp only [aget_eq_some_of_fun (hg.inv.funW c) a, hdead, Bool.false_eq_true, if_false]
    rw [ht] at hm
    exact ⟨_, hm, rfl, rfl, rfl⟩
  · intro hrow W hW
    cases ht : tryGet w.s c k with
    | some x => rw [ht] at hm; rw [hm] at hW; cases hW
    | none =>
      rw [ht] at hm
      rw [hm] at hW
      simp only [CallRes.ret.injEq, and_true] at hW
      subst hW
      simp only
      have hs : ∀ v, (k, v) ∉ (w.s.fac c).strong := by
        intro v hv
        have hk := tryGet_none_nokey w.s c k (fun hd => hg.inv.nocache hd c) ht
        have : ahasKey k (w.s.fac c).strong = true := (ahasKey_iff k _).2 ⟨v, hv⟩
        rw [hk] at this; cases this
      have hw : ∀ v, (k, v) ∈ (w.s.fac c).weak → (w.s.obj v).dead = true := by
        intro v hv
        have hgv := aget_eq_some_of_fun (hg.inv.funW c) hv
        unfold tryGet at ht
        simp only [hgv] at ht
        cases hd : (w.s.obj v).dead with
        | true => rfl
        | false => simp [hd] at ht
      have := inv_register w.s c k e hg.inv hrow hs hw
      exact ⟨this.1, C04_identity_of_inv _ this.1, this.2⟩

open SqlObjVerif.PyGet in
/-- the open finding "C04:pickle-then-destroy-then-unpickle" on the translated source: the full statement
    "a successful `__setstate__` registers an instance of a row that exists" is FALSE — `__setstate__` never looks at
    the database; witness: the empty world, pickled state (class 0, id 1) -/
theorem C04_translated_setstate_deleted_row_full_FALSE :
    ¬ ∀ (w : GW) (c : Cls) (k : Id) (e : Bool), GInv w →
      ∀ W, setstateG (w.construct c) w.s.n (Vpickle k e) = .ret W .none → k ∈ W.s.rows c := by
  intro H
  let w0 : GW := { s := init (Cfg.default true), made := [], lock := fun _ => false, wlock := fun _ => false,
                   dirty := fun _ => false, falsy := fun _ => false, lazyCols := false, cursor := [] }
  have hg : GInv w0 := ⟨inv_init _, dictInv_init _, fun _ _ => ⟨rfl, rfl⟩, fun _ => rfl, fun _ => rfl, fun _ => rfl,
    by decide⟩
  have hrep := rep_of_inv hg.inv hg.dict 0
  have hm := setstateG_model w0 0 1 false hg.wf rfl hg.frac hrep (fun hd => hg.inv.nocache hd 0)
    (fun x hx => (hg.inv.ent 0 x hx).1)
  have ht : tryGet w0.s 0 1 = none := by decide
  rw [ht] at hm
  have := H w0 0 1 false hg _ hm
  simp [w0, init, alloc, insertEntry_rows, tick_rows] at this


/-- the world after `create` of one row of class 0: its instance (handle 0) held and cached -/
def wExp : GW := { s := run (init (Cfg.default true)) [.create 0 none], made := [0], lock := fun _ => false,
                   wlock := fun _ => false, dirty := fun _ => false, falsy := fun _ => false, lazyCols := false, cursor := [] }

theorem C04_translated_witness_world_inv : GInv wExp := by
  have hs : Safe (init (Cfg.default true)) [.create 0 none] = true := by decide
  refine ⟨C04_inv_reachable _ _ (inv_init _) hs, dictInv_run (dictInv_init _) _, ?_, fun _ => rfl, fun _ => rfl,
    fun _ => rfl, by decide⟩
  intro c hc
  have hc' : c ≠ 0 := by simpa [wExp] using hc
  refine ⟨?_, rfl⟩
  have e : wExp.s = insertEntry (tick (alloc { init (Cfg.default true) with rows := upd (fun _ => []) 0 [1], maxId := upd (fun _ => 0) 0 1 } 0 1 false) 0) 0 1 0 := rfl
  rw [e, ((local_tick _ 0).trans (local_insert _ 0 1 0)).fac c hc']
  rfl

open SqlObjVerif.PyGet in
/-- the open finding "C04:expire-then-get" on the translated source: after the translated `inst.expire()` on a held,
    live instance the translated `get` of its row builds a SECOND instance (witness: create, expire, get) -/
theorem C04_translated_expire_then_get_full_FALSE :
    ¬ ∀ (w : GW) (h0 : Handle), GInv w → usable w.s h0 = true → (w.s.obj h0).obsolete = false →
      ∀ W1, expireG w h0 = .ret W1 .none →
        ∀ W2 r, getG W1 (w.s.obj h0).cls (w.s.obj h0).id .none (Vsr false) = .ret W2 (.obj r) → r = h0 := by
  intro H
  have hg := C04_translated_witness_world_inv
  have hu : usable wExp.s 0 = true := by decide
  have ho : (wExp.s.obj 0).obsolete = false := by decide
  have hn : (0 : Nat) < wExp.s.n := by decide
  have hh : (wExp.s.obj 0).held = true := by decide
  have e1 := expireG_model wExp 0 hu hg.wf (hg.lock _) (hg.wlock 0) (fun hd => hg.inv.nocache hd _)
    (hrel_of_inv hg.inv hn hh ho)
  have hc : (wExp.s.obj 0).cls = 0 := by decide
  have hk : (wExp.s.obj 0).id = 1 := by decide
  -- the world after the translated expire(): the invariant no longer holds, but `get`'s own hypotheses do
  let W1 : GW := { wExp with s := (step wExp.s (.expire 0)).1, dirty := upd wExp.dirty 0 false }
  have hd1 : DictInv W1.s := dictInv_step hg.dict (.expire 0)
  have hfac : ∀ c, (W1.s.fac c).strong = [] ∧ (W1.s.fac c).weak = [] := by
    intro c
    show ((expireOne wExp.s 0).fac c).strong = [] ∧ ((expireOne wExp.s 0).fac c).weak = []
    rw [expireOne_fac, hc, hk]
    by_cases h0 : c = 0
    · subst h0; simp only [if_true]; decide
    · simp only [h0, if_false]; rw [(hg.wf c (by simpa [wExp] using h0)).1]; simp [emptyFactory]
  have hrep : Rep W1.s 0 := ⟨(hd1 0).1, (hd1 0).2, by intro e he; rw [(hfac 0).1] at he; cases he⟩
  have hwf1 : W1.WF := by
    intro c hc'
    have h0 : c ≠ 0 := by simpa [W1, wExp] using hc'
    refine ⟨?_, rfl⟩
    show (expireOne wExp.s 0).fac c = emptyFactory
    rw [expireOne_fac, hc]; simp only [h0, if_false]
    exact (hg.wf c (by simpa [wExp] using h0)).1
  have hm := getG_model W1 0 1 .none (Or.inl rfl) false hwf1 rfl (fun _ => rfl)
    (by intro h; show upd wExp.dirty 0 false h = false; simp [upd, wExp])
    (by decide) hrep (fun _ => (hfac 0).1) (by simp)
  have hres : (getObj W1.s 0 1 false).2 = some 1 := by decide
  generalize hr : getObj W1.s 0 1 false = r at hm hres
  obtain ⟨s', res⟩ := r
  simp only at hres
  subst hres
  obtain ⟨W2, e2, _⟩ := hm
  have := H wExp 0 hg hu ho W1 e1 W2 1 (by rw [hc, hk]; exact e2)
  exact absurd this (by decide)

end SqlObjVerif.Cache
