import SqlObjVerif.Lemmas.Like
import SqlObjVerif.Lemmas.LexXLike
import SqlObjVerif.Lemmas.LexXMore
/-!
# C17 — startswith / endswith / contains match their argument literally

Property theorems only.  `likePattern d op a` is the model of the pattern literal the code renders
(`_LikeQuoted` + the extracted `_quote_like_special` chain + `quote_str`), `startswithOp` … are the
extracted wrappers; `lexString` (reference lexer) decodes what the server receives, `likeMatch` is the
reference LIKE matcher, parametric in the engine's character equivalence `eqv` (SQLite: `eqvAscii`).
`likeAdm d a`: no NUL in `a` (refused, see C02), and for mysql / postgres none of BS LF CR TAB either.
-/
namespace SqlObjVerif.Like
open Lex Lex.Extracted

/-- the ESCAPE literal decodes to the single character `\` on every dialect -/
theorem C17_escape_char (d : Dialect) (op : LikeOp) (h : op.esc = [92]) : decodedEscape d op = some [92] := by
  have := lex_render_string d [92] [] (by cases d <;> simp [admissible]) (by simp)
  simp only [List.append_nil] at this
  simp [decodedEscape, h, this]

/-- the pattern the server sees is `pre ++ (argument with \ % _ escaped by \) ++ post` -/
theorem C17_decoded_pattern (d : Dialect) (op : LikeOp) (a : Str) (ha : likeAdm d a = true)
    (hpre : ∀ c ∈ op.pre, safeChar c = true) (hpost : ∀ c ∈ op.post, safeChar c = true) :
    decodedPattern d op a = some (op.pre ++ likeQ a ++ op.post) := by
  have := decoded_pattern d op a [] ha hpre hpost (by simp)
  simp only [List.append_nil] at this
  simp [decodedPattern, this]

/-- startswith: the rows matched are exactly those that start with the argument, taken literally -/
theorem C17_startswith_literal_partial (d : Dialect) (eqv : Nat → Nat → Bool) (a s : Str)
    (ha : likeAdm d a = true) :
    ∃ p, decodedPattern d startswithOp a = some p ∧ decodedEscape d startswithOp = some [92] ∧
      likeMatch eqv 92 p s = prefixMod eqv a s :=
  ⟨_, C17_decoded_pattern d startswithOp a ha (by decide) (by decide), C17_escape_char d _ rfl,
    match_startswith eqv a s⟩

/-- endswith -/
theorem C17_endswith_literal_partial (d : Dialect) (eqv : Nat → Nat → Bool) (a s : Str)
    (ha : likeAdm d a = true) :
    ∃ p, decodedPattern d endswithOp a = some p ∧ decodedEscape d endswithOp = some [92] ∧
      likeMatch eqv 92 p s = suffixMod eqv a s :=
  ⟨_, C17_decoded_pattern d endswithOp a ha (by decide) (by decide), C17_escape_char d _ rfl,
    match_endswith eqv a s⟩

/-- contains -/
theorem C17_contains_literal_partial (d : Dialect) (eqv : Nat → Nat → Bool) (a s : Str)
    (ha : likeAdm d a = true) :
    ∃ p, decodedPattern d containsOp a = some p ∧ decodedEscape d containsOp = some [92] ∧
      likeMatch eqv 92 p s = containsMod eqv a s :=
  ⟨_, C17_decoded_pattern d containsOp a ha (by decide) (by decide), C17_escape_char d _ rfl,
    match_contains eqv a s⟩

/-- on the five dialects with quote-only escaping the only excluded arguments are those with NUL -/
theorem C17_ansi_dialects_all_arguments (d : Dialect) (hd : d ≠ .mysql ∧ d ≠ .postgres) (a : Str) (h0 : 0 ∉ a) :
    likeAdm d a = true := by
  have hf : fullEsc d = false := by cases d <;> simp [fullEsc] at hd ⊢
  simp only [likeAdm, List.all_eq_true, likeOkChar, hf]
  intro c hc
  have : c ≠ 0 := by rintro rfl; exact h0 hc
  simp [this]

example : ∃ p, decodedPattern .sqlite containsOp [37, 92, 39] = some p ∧
    likeMatch eqvAscii 92 p [65, 37, 92, 39, 66] = true := by
  obtain ⟨p, h1, _, h3⟩ := C17_contains_literal_partial .sqlite eqvAscii [37, 92, 39] [65, 37, 92, 39, 66] (by decide)
  exact ⟨p, h1, by rw [h3]; decide⟩

/-- full-strength statement (every argument, every dialect).  FALSE of the code: on mysql the argument
    LF is rendered `'\\n%'`, which the server decodes to `\n%` = "literal n, then anything". -/
theorem C17_startswith_literal_full_FALSE :
    ¬ (∀ (d : Dialect) (a s p : Str), decodedPattern d startswithOp a = some p →
        likeMatch eqvExact 92 p s = prefixMod eqvExact a s) := by
  intro h
  have := h .mysql [10] [110] [92, 110, 37] (by decide)
  revert this
  decide

/-- the same on postgres, and for endswith / contains -/
theorem C17_like_literal_postgres_full_FALSE :
    ¬ (∀ (a s p : Str), decodedPattern .postgres containsOp a = some p →
        likeMatch eqvExact 92 p s = containsMod eqvExact a s) := by
  intro h
  have := h [9] [116] [37, 92, 116, 37] (by decide)
  revert this
  decide

end SqlObjVerif.Like

/-! ## The TRANSLATED source (`vlib/extractors/pylex.py` → `Extracted/PyLex.lean`, semantics `Model/PyLex.lean`)

RUNNING the translated `_quote_like_special`, `_LikeQuoted.__init__ / __add__ / __radd__ / __sqlrepr__`,
`LIKE.__init__ / __sqlrepr__`, `STARTSWITH / ENDSWITH / CONTAINSSTRING` and `sqlrepr` (calling each other through
`world P n`, see `Model/LexX.lean` for the assumed interface) gives exactly the hand model (`likeSpecial`, `likePattern`,
`likeClause`) for every argument and all 7 dialects; the headline theorems restated about the translated source. -/
namespace SqlObjVerif.LexX
open SqlObjVerif.PyLex

/-- `sqlbuilder._quote_like_special(s, db)` as translated = `likeSpecial` (the escape choice and the replace chain) -/
theorem C17_translated_quote_like_special_eq_model (P : Ext) (n : Nat) (d : Lex.Dialect) (s : Lex.Str) :
    quoteLikeSpecialX (world P n) s (.str (dbName d)) = .ret (.str (Like.likeSpecial d s)) := qls P n d s

/-- `_LikeQuoted(a).__sqlrepr__(db)` (string branch) as translated, with the prefix / postfix the wrapper added:
    `sqlrepr` → `unquote_str` → `_quote_like_special` → `"%s%s%s"` → `quote_str`, = the model's pattern assembly -/
theorem C17_translated_LikeQuoted_eq_model (P : Ext) (n : Nat) (hup : UpperOK P.upper) (d : Lex.Dialect)
    (op : Lex.LikeOp) (a : Lex.Str) :
    likeQuotedReprX (world P (n + 3)) (likeQuotedObj (.str a) op.pre op.post) (.str (dbName d)) =
      .ret (.str (Like.likePattern d op a)) := likeQuoted_str P n hup d a op.pre op.post

/-- … the `SQLExpression` branch: quoted prefix / postfix around the escaped rendering of the expression, joined by the
    dialect's concatenation (`CONCAT(…)`, ` + `, ` || `) -/
theorem C17_translated_LikeQuoted_expr_eq_model (P : Ext) (n : Nat) (d : Lex.Dialect) (c : String)
    (fs : List (String × Val)) (pre post r : Lex.Str) (hx : xIsSub P c "SQLExpression" = true)
    (he : run (world P (n + 1)) Extracted.sqlrepr [.obj c fs, .str (dbName d)] = .ret (.str r)) :
    likeQuotedReprX (world P (n + 2)) (likeQuotedObj (.obj c fs) pre post) (.str (dbName d)) =
      .ret (.str (likeConcat d pre post r)) := likeQuoted_expr P n d c fs pre post r hx he

/-- … anything else: TypeError -/
theorem C17_translated_LikeQuoted_other_TypeError (P : Ext) (n : Nat) (i : Int) (pre post : Lex.Str) (db : Val) :
    likeQuotedReprX (world P n) (likeQuotedObj (.int i) pre post) db = .exc .typeError := by
  unfold likeQuotedReprX run Extracted.LikeQuoted_sqlrepr Extracted.LikeQuoted_sqlrepr_s0
    Extracted.LikeQuoted_sqlrepr_s1 likeQuotedObj
  pylw [xIsSub, resolve, Extracted.aliases, Extracted.bases, builtinTypes]

/-- `_LikeQuoted.__add__` / `__radd__` as translated extend the postfix / prefix and return the object -/
theorem C17_translated_LikeQuoted_add (I : Iface) (e : Val) (pre post s : Lex.Str) :
    run I Extracted.LikeQuoted_add [likeQuotedObj e pre post, .str s] = .ret (likeQuotedObj e pre (post ++ s)) :=
  lq_add I e pre post s

theorem C17_translated_LikeQuoted_radd (I : Iface) (e : Val) (pre post s : Lex.Str) :
    run I Extracted.LikeQuoted_radd [likeQuotedObj e pre post, .str s] = .ret (likeQuotedObj e (s ++ pre) post) :=
  lq_radd I e pre post s

/-- `LIKE(e, pre + _LikeQuoted(a) + post, escape=esc).__sqlrepr__(db)` as translated = `likeClause`, where `x` is
    what the translated `sqlrepr` renders the left operand `e` to -/
theorem C17_translated_LIKE_eq_model (P : Ext) (n : Nat) (hup : UpperOK P.upper) (d : Lex.Dialect) (e : Val)
    (x a : Lex.Str) (op : Lex.LikeOp)
    (he : run (world P (n + 4)) Extracted.sqlrepr [e, .str (dbName d)] = .ret (.str x)) :
    likeReprX (world P (n + 5)) (likeObj e (likeQuotedObj (.str a) op.pre op.post) (.str op.esc)) (.str (dbName d)) =
      .ret (.str (Like.likeClause d op x a)) := like_sqlrepr P n hup d e x a op.pre op.post op.esc he

/-- `STARTSWITH` / `ENDSWITH` / `CONTAINSSTRING` as translated (the constructor calls run the translated `__init__`s,
    `+` runs the translated `__add__` / `__radd__`) build exactly the object of the extracted wrapper constants -/
theorem C17_translated_STARTSWITH_eq_model (P : Ext) (n : Nat) (e : Val) (a : Lex.Str) :
    run (world P (n + 2)) Extracted.STARTSWITH [e, .str a] = .ret (wrapperObj Lex.Extracted.startswithOp e a) :=
  startswith_run P n e a

theorem C17_translated_ENDSWITH_eq_model (P : Ext) (n : Nat) (e : Val) (a : Lex.Str) :
    run (world P (n + 2)) Extracted.ENDSWITH [e, .str a] = .ret (wrapperObj Lex.Extracted.endswithOp e a) :=
  endswith_run P n e a

theorem C17_translated_CONTAINSSTRING_eq_model (P : Ext) (n : Nat) (e : Val) (a : Lex.Str) :
    run (world P (n + 2)) Extracted.CONTAINSSTRING [e, .str a] = .ret (wrapperObj Lex.Extracted.containsOp e a) :=
  contains_run P n e a

/-- end to end: wrapper call, then `sqlrepr` of the result = the model's clause -/
theorem C17_translated_wrapper_clause_eq_model (P : Ext) (n : Nat) (hup : UpperOK P.upper) (d : Lex.Dialect)
    (op : Lex.LikeOp) (prog : Block) (hw : wrapperOf op = some prog) (e : Val) (x a : Lex.Str)
    (he : run (world P (n + 4)) Extracted.sqlrepr [e, .str (dbName d)] = .ret (.str x)) :
    ∃ v, run (world P (n + 2)) prog [e, .str a] = .ret v ∧
      sqlreprX (world P (n + 6)) v (.str (dbName d)) = .ret (.str (Like.likeClause d op x a)) :=
  wrapper_sqlrepr P n hup d op prog hw e x a he

/-- the helper methods by the hand model's `LikeOp`: the generic `SQLExpression.startswith / endswith / contains` … -/
def genericHelperOf (op : Lex.LikeOp) : Option Block :=
  if op = Lex.Extracted.startswithOp then some Extracted.Expr_startswith
  else if op = Lex.Extracted.endswithOp then some Extracted.Expr_endswith
  else if op = Lex.Extracted.containsOp then some Extracted.Expr_contains
  else Option.none

/-- … and the column helpers `SQLObjectField.startswith / endswith / contains` -/
def fieldHelperOf (op : Lex.LikeOp) : Option Block :=
  if op = Lex.Extracted.startswithOp then some Extracted.Field_startswith
  else if op = Lex.Extracted.endswithOp then some Extracted.Field_endswith
  else if op = Lex.Extracted.containsOp then some Extracted.Field_contains
  else Option.none

/-- the generic helpers `SQLExpression.startswith / endswith / contains(self, a)` as translated build, for ANY
    receiver, exactly the object of the extracted wrapper constants — escape character included — i.e. the same
    object as `STARTSWITH / ENDSWITH / CONTAINSSTRING(self, a)` -/
theorem C17_translated_generic_helpers_eq_model (P : Ext) (n : Nat) (op : Lex.LikeOp) (prog : Block)
    (hg : genericHelperOf op = some prog) (self : Val) (a : Lex.Str) :
    run (world P (n + 3)) prog [self, .str a] = .ret (wrapperObj op self a) := by
  unfold genericHelperOf at hg
  split at hg
  · cases hg; rename_i h; subst h; exact expr_startswith_run P n self a
  · split at hg
    · cases hg; rename_i h; subst h; exact expr_endswith_run P n self a
    · split at hg
      · cases hg; rename_i h; subst h; exact expr_contains_run P n self a
      · cases hg

/-- the column helpers as translated: `s = self._from_python(s)` (an interface call returning the string `a'`), then
    the SAME object as the generic helper builds for `a'` -/
theorem C17_translated_field_helpers_eq_generic (P : Ext) (n : Nat) (op : Lex.LikeOp) (fprog gprog : Block)
    (hf : fieldHelperOf op = some fprog) (hg : genericHelperOf op = some gprog) (c : String)
    (fs : List (String × Val)) (a a' : Lex.Str)
    (hfp : xCm P (world P (n + 2)) (.obj c fs) "_from_python" [.str a] = .ok (.str a')) :
    run (world P (n + 3)) fprog [.obj c fs, .str a] = run (world P (n + 3)) gprog [.obj c fs, .str a'] := by
  rw [C17_translated_generic_helpers_eq_model P n op gprog hg]
  unfold fieldHelperOf at hf
  split at hf
  · cases hf; rename_i h; subst h; exact field_startswith_run P n c fs a a' hfp
  · split at hf
    · cases hf; rename_i h; subst h; exact field_endswith_run P n c fs a a' hfp
    · split at hf
      · cases hf; rename_i h; subst h; exact field_contains_run P n c fs a a' hfp
      · cases hf

/-- end to end for the generic helpers: helper call, then the translated `sqlrepr` = the model's clause -/
theorem C17_translated_generic_helper_clause_eq_model (P : Ext) (n : Nat) (hup : UpperOK P.upper) (d : Lex.Dialect)
    (op : Lex.LikeOp) (prog : Block) (hg : genericHelperOf op = some prog) (self : Val) (x a : Lex.Str)
    (he : run (world P (n + 4)) Extracted.sqlrepr [self, .str (dbName d)] = .ret (.str x)) :
    ∃ v, run (world P (n + 3)) prog [self, .str a] = .ret v ∧
      sqlreprX (world P (n + 6)) v (.str (dbName d)) = .ret (.str (Like.likeClause d op x a)) :=
  ⟨_, C17_translated_generic_helpers_eq_model P n op prog hg self a,
    sqlrepr_like P n hup d self x a op.pre op.post op.esc he⟩

/-- decode one literal with the reference lexer (nothing may follow) -/
def decodeLit (d : Lex.Dialect) (t : Lex.Str) : Option Lex.Str :=
  match Lex.lexString d t with
  | some (p, []) => some p
  | _ => none

/-- what the server sees of `op(e, a)` as built and rendered by the TRANSLATED code: the pattern operand and the
    escape operand of the LIKE object, each rendered by the translated `sqlrepr` and decoded by the reference lexer -/
def TranslatedSees (P : Ext) (n : Nat) (d : Lex.Dialect) (prog : Block) (e : Val) (a p esc : Lex.Str) : Prop :=
  ∃ pat escv pt et, run (world P (n + 2)) prog [e, .str a] = .ret (likeObj e pat escv) ∧
    sqlreprX (world P (n + 4)) pat (.str (dbName d)) = .ret (.str pt) ∧
    sqlreprX (world P (n + 4)) escv (.str (dbName d)) = .ret (.str et) ∧
    decodeLit d pt = some p ∧ decodeLit d et = some esc

theorem translated_sees (P : Ext) (n : Nat) (hup : UpperOK P.upper) (d : Lex.Dialect) (op : Lex.LikeOp) (prog : Block)
    (hw : wrapperOf op = some prog) (e : Val) (a p : Lex.Str)
    (hp : Like.decodedPattern d op a = some p) (hesc : Like.decodedEscape d op = some [92]) :
    TranslatedSees P n d prog e a p [92] := by
  refine ⟨likeQuotedObj (.str a) op.pre op.post, .str op.esc, _, _, ?_, sqlrepr_likeQuoted P n hup d a op.pre op.post,
    sqlrepr_str P (n + 2) d op.esc, hp, hesc⟩
  unfold wrapperOf at hw
  split at hw
  · cases hw; rename_i h; subst h; exact startswith_run P n e a
  · split at hw
    · cases hw; rename_i h; subst h; exact endswith_run P n e a
    · split at hw
      · cases hw; rename_i h; subst h; exact contains_run P n e a
      · cases hw

/-- startswith, about the translated source: the LIKE object the translated `STARTSWITH(e, a)` builds, rendered by the
    translated `sqlrepr` and decoded by the reference lexer, matches exactly the rows that start with `a` -/
theorem C17_translated_startswith_literal_partial (P : Ext) (n : Nat) (hup : UpperOK P.upper) (d : Lex.Dialect)
    (eqv : Nat → Nat → Bool) (e : Val) (a s : Lex.Str) (ha : Like.likeAdm d a = true) :
    ∃ p, TranslatedSees P n d Extracted.STARTSWITH e a p [92] ∧ Like.likeMatch eqv 92 p s = Like.prefixMod eqv a s := by
  obtain ⟨p, hp, hesc, hm⟩ := Like.C17_startswith_literal_partial d eqv a s ha
  exact ⟨p, translated_sees P n hup d _ _ rfl e a p hp hesc, hm⟩

theorem C17_translated_endswith_literal_partial (P : Ext) (n : Nat) (hup : UpperOK P.upper) (d : Lex.Dialect)
    (eqv : Nat → Nat → Bool) (e : Val) (a s : Lex.Str) (ha : Like.likeAdm d a = true) :
    ∃ p, TranslatedSees P n d Extracted.ENDSWITH e a p [92] ∧ Like.likeMatch eqv 92 p s = Like.suffixMod eqv a s := by
  obtain ⟨p, hp, hesc, hm⟩ := Like.C17_endswith_literal_partial d eqv a s ha
  exact ⟨p, translated_sees P n hup d _ _ rfl e a p hp hesc, hm⟩

theorem C17_translated_contains_literal_partial (P : Ext) (n : Nat) (hup : UpperOK P.upper) (d : Lex.Dialect)
    (eqv : Nat → Nat → Bool) (e : Val) (a s : Lex.Str) (ha : Like.likeAdm d a = true) :
    ∃ p, TranslatedSees P n d Extracted.CONTAINSSTRING e a p [92] ∧
      Like.likeMatch eqv 92 p s = Like.containsMod eqv a s := by
  obtain ⟨p, hp, hesc, hm⟩ := Like.C17_contains_literal_partial d eqv a s ha
  exact ⟨p, translated_sees P n hup d _ _ rfl e a p hp hesc, hm⟩

/-- the full-strength statement is FALSE of the translated source too (mysql, argument LF) -/
theorem C17_translated_startswith_literal_full_FALSE :
    ¬ (∀ (P : Ext) (n : Nat) (d : Lex.Dialect) (e : Val) (a s p : Lex.Str), UpperOK P.upper →
        TranslatedSees P n d Extracted.STARTSWITH e a p [92] →
        Like.likeMatch Like.eqvExact 92 p s = Like.prefixMod Like.eqvExact a s) := by
  intro h
  have := h ⟨asciiUpper, fun _ => false, fun _ _ _ => .stuck, fun _ => .stuck, fun _ => .stuck⟩ 0 .mysql .none
    [10] [110] [92, 110, 37] asciiUpper_ok
    (translated_sees _ 0 asciiUpper_ok .mysql Lex.Extracted.startswithOp _ rfl .none [10] _ (by decide) (by decide))
  revert this
  decide

-- non-vacuity: the translated wrapper + `sqlrepr` RUN (kernel evaluation): ('a' LIKE (E'\\%''%') ESCAPE E'\\')
example : sqlreprX (world ⟨asciiUpper, fun _ => false, fun _ _ _ => .stuck, fun _ => .stuck, fun _ => .stuck⟩ 6)
    (wrapperObj Lex.Extracted.startswithOp (.str [97]) [37, 39]) (.str (dbName .postgres)) =
    .ret (.str [40, 39, 97, 39, 32, 76, 73, 75, 69, 32, 40, 69, 39, 92, 92, 37, 39, 39, 37, 39, 41, 32, 69, 83, 67, 65,
      80, 69, 32, 69, 39, 92, 92, 39, 41]) := by rfl
example : run (world ⟨asciiUpper, fun _ => false, fun _ _ _ => .stuck, fun _ => .stuck, fun _ => .stuck⟩ 2)
    Extracted.CONTAINSSTRING [.str [97], .str [37]] = .ret (wrapperObj Lex.Extracted.containsOp (.str [97]) [37]) := by rfl

end SqlObjVerif.LexX
