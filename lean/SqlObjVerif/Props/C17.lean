import SqlObjVerif.Lemmas.Like
/-!
# C17 — startswith / endswith / contains match their argument literally

Property theorems only.  `likePattern d op a` is the model of the pattern literal the code renders
(`_LikeQuoted` + the extracted `_quote_like_special` chain + `quote_str`), `startswithOp` … are the
extracted wrappers; `lexString` (reference lexer) decodes what the server receives, `likeMatch` is the
reference LIKE matcher, parametric in the engine's character equivalence `eqv` (SQLite: `eqvAscii`).
`likeAdm d a`: no NUL in `a` (refused, see C02), and for mysql / postgres none of BS LF CR TAB either.
-/
namespace SqlObjVerif.Like
open Lex Lex.Extracted

/-- the ESCAPE literal decodes to the single character `\` on every dialect -/
theorem C17_escape_char (d : Dialect) (op : LikeOp) (h : op.esc = [92]) : decodedEscape d op = some [92] := by
  have := lex_render_string d [92] [] (by cases d <;> simp [admissible]) (by simp)
  simp only [List.append_nil] at this
  simp [decodedEscape, h, this]

/-- the pattern the server sees is `pre ++ (argument with \ % _ escaped by \) ++ post` -/
theorem C17_decoded_pattern (d : Dialect) (op : LikeOp) (a : Str) (ha : likeAdm d a = true)
    (hpre : ∀ c ∈ op.pre, safeChar c = true) (hpost : ∀ c ∈ op.post, safeChar c = true) :
    decodedPattern d op a = some (op.pre ++ likeQ a ++ op.post) := by
  have := decoded_pattern d op a [] ha hpre hpost (by simp)
  simp only [List.append_nil] at this
  simp [decodedPattern, this]

/-- startswith: the rows matched are exactly those that start with the argument, taken literally -/
theorem C17_startswith_literal_partial (d : Dialect) (eqv : Nat → Nat → Bool) (a s : Str)
    (ha : likeAdm d a = true) :
    ∃ p, decodedPattern d startswithOp a = some p ∧ decodedEscape d startswithOp = some [92] ∧
      likeMatch eqv 92 p s = prefixMod eqv a s :=
  ⟨_, C17_decoded_pattern d startswithOp a ha (by decide) (by decide), C17_escape_char d _ rfl,
    match_startswith eqv a s⟩

/-- endswith -/
theorem C17_endswith_literal_partial (d : Dialect) (eqv : Nat → Nat → Bool) (a s : Str)
    (ha : likeAdm d a = true) :
    ∃ p, decodedPattern d endswithOp a = some p ∧ decodedEscape d endswithOp = some [92] ∧
      likeMatch eqv 92 p s = suffixMod eqv a s :=
  ⟨_, C17_decoded_pattern d endswithOp a ha (by decide) (by decide), C17_escape_char d _ rfl,
    match_endswith eqv a s⟩

/-- contains -/
theorem C17_contains_literal_partial (d : Dialect) (eqv : Nat → Nat → Bool) (a s : Str)
    (ha : likeAdm d a = true) :
    ∃ p, decodedPattern d containsOp a = some p ∧ decodedEscape d containsOp = some [92] ∧
      likeMatch eqv 92 p s = containsMod eqv a s :=
  ⟨_, C17_decoded_pattern d containsOp a ha (by decide) (by decide), C17_escape_char d _ rfl,
    match_contains eqv a s⟩

/-- on the five dialects with quote-only escaping the only excluded arguments are those with NUL -/
theorem C17_ansi_dialects_all_arguments (d : Dialect) (hd : d ≠ .mysql ∧ d ≠ .postgres) (a : Str) (h0 : 0 ∉ a) :
    likeAdm d a = true := by
  have hf : fullEsc d = false := by cases d <;> simp [fullEsc] at hd ⊢
  simp only [likeAdm, List.all_eq_true, likeOkChar, hf]
  intro c hc
  have : c ≠ 0 := by rintro rfl; exact h0 hc
  simp [this]

example : ∃ p, decodedPattern .sqlite containsOp [37, 92, 39] = some p ∧
    likeMatch eqvAscii 92 p [65, 37, 92, 39, 66] = true := by
  obtain ⟨p, h1, _, h3⟩ := C17_contains_literal_partial .sqlite eqvAscii [37, 92, 39] [65, 37, 92, 39, 66] (by decide)
  exact ⟨p, h1, by rw [h3]; decide⟩

/-- full-strength statement (every argument, every dialect).  FALSE of the code: on mysql the argument
    LF is rendered `'\\n%'`, which the server decodes to `\n%` = "literal n, then anything". -/
theorem C17_startswith_literal_full_FALSE :
    ¬ (∀ (d : Dialect) (a s p : Str), decodedPattern d startswithOp a = some p →
        likeMatch eqvExact 92 p s = prefixMod eqvExact a s) := by
  intro h
  have := h .mysql [10] [110] [92, 110, 37] (by decide)
  revert this
  decide

/-- the same on postgres, and for endswith / contains -/
theorem C17_like_literal_postgres_full_FALSE :
    ¬ (∀ (a s p : Str), decodedPattern .postgres containsOp a = some p →
        likeMatch eqvExact 92 p s = containsMod eqvExact a s) := by
  intro h
  have := h [9] [116] [37, 92, 116, 37] (by decide)
  revert this
  decide

end SqlObjVerif.Like
