import SqlObjVerif.Lemmas.Inherit
import SqlObjVerif.Lemmas.InheritXCreateChain
import SqlObjVerif.Lemmas.InheritXGetChain
import SqlObjVerif.Lemmas.InhSelXSelect
import SqlObjVerif.Lemmas.InhSelXBy
import SqlObjVerif.Lemmas.InhSelXAll
import SqlObjVerif.Lemmas.InhSelXSelBy
import SqlObjVerif.Lemmas.InhSelXAlt
import SqlObjVerif.Lemmas.InhSelXPatch
import SqlObjVerif.Lemmas.InhSelXSelectChain
import SqlObjVerif.Lemmas.InhIterX
import SqlObjVerif.Lemmas.InhIterXFetch
import SqlObjVerif.Lemmas.InhIterXNext
import SqlObjVerif.Lemmas.InhIterXDrain
/-!
# C15 — inheritance hierarchies stay consistent across their tables

Property theorems only.  `T` is an arbitrary well-formed class tree (any depth, any branching,
several roots allowed), `db` the tables of all classes, histories are arbitrary lists of
create / attribute write / `set` / destroy operations entered through any class, plus the
class-level `deleteMany` / `deleteBy`.
`NoOrphan`, `LeafRow` are defined in `Lemmas/Inherit.lean`; the operations in `Model/Inherit.lean`
(`Extracted/Inherit.lean` supplies the control-flow facts read from the source).
-/
namespace SqlObjVerif.Inherit

/-! ### no sequence of operations leaves a row at one level without its counterparts -/

/-- every operation, entered through any level, keeps the no-orphan invariant -/
theorem C15_step_preserves_no_orphan (T : Tree) (h : T.WF) (db : DB) (inv : NoOrphan T db) (op : Op) :
    NoOrphan T (step T db op).1 :=
  step_preserves h inv op

/-- **C15 invariant**: in every state reachable from the empty database by any history over any
    class tree the tables satisfy the no-orphan invariant. -/
theorem C15_no_orphan_inv (T : Tree) (h : T.WF) (ops : List Op) :
    NoOrphan T (run T ops DB.empty) :=
  run_preserves h ops _ (noOrphan_empty T)

/-- the invariant in the words of the property: ids nest along the hierarchy and every ancestor row
    carries the tag that leads towards the subclass row -/
theorem C15_ids_nest (T : Tree) (h : T.WF) (db : DB) (inv : NoOrphan T db) (c i : Nat)
    (hrow : db.has c i = true) :
    (∀ a, a ∈ T.anc c → db.has a i = true) ∧
    (∀ a s, a ∈ T.anc c → s ∈ T.anc c → T.parent s = some a →
        ∃ r, db a i = some r ∧ r.child = some s) := by
  refine ⟨rows_up h inv i c hrow, ?_⟩
  intro a s _ hs hps
  exact inv.up s a i hps (rows_up h inv i c hrow s hs)

/-- a row exists in `c`'s table exactly when `c` lies on the chain of the id's most-derived class,
    i.e. exactly when the `childName` chain from the root leads through `c` -/
theorem C15_row_iff_on_chain (T : Tree) (h : T.WF) (db : DB) (inv : NoOrphan T db) (m i : Nat)
    (hm : LeafRow db m i) (c : Nat) (hroot : T.root c = T.root m) :
    db.has c i = true ↔ c ∈ T.anc m := by
  constructor
  · intro hrow
    exact on_leaf_chain h inv hm c hrow ⟨T.root c, root_mem_anc h c, hroot ▸ root_mem_anc h m⟩
  · intro hc
    obtain ⟨r, hr, _⟩ := hm
    exact rows_up h inv i m (has_iff.mpr ⟨r, hr⟩) c hc

/-- each id has exactly one most-derived class in a hierarchy -/
theorem C15_unique_most_derived (T : Tree) (h : T.WF) (db : DB) (inv : NoOrphan T db) (m m' i : Nat)
    (hm : LeafRow db m i) (hm' : LeafRow db m' i) (hroot : T.root m = T.root m') : m = m' :=
  leaf_unique h inv hm hm' hroot

/-! ### creating a subclass instance creates one row per level sharing one id -/

theorem C15_create_one_row_per_level (T : Tree) (h : T.WF) (db : DB) (inv : NoOrphan T db)
    (c id : Nat) (vals : Nat → Nat → Val) (hfresh : db (T.root c) id = none) :
    ∃ db', create T db c id vals = (db', .ok) ∧
      (∀ a, a ∈ T.anc c → ∃ r, db' a id = some r ∧ r.vals = vals a) ∧
      (∀ a, T.root a = T.root c → a ∉ T.anc c → db' a id = none) ∧
      (∀ a j, (a ∉ T.anc c ∨ j ≠ id) → db' a j = db a j) ∧
      LeafRow db' c id ∧
      (∀ e, e ∈ T.anc c → get T db' e id = .ok c) := by
  refine ⟨_, create_fresh h inv hfresh vals, ?_, ?_, ?_, ?_, ?_⟩
  · intro a ha
    exact insertUp_mem true id vals (T.anc c) none db a ha
  · intro a hra hna
    rw [insertUp_other true id vals _ _ _ a id (Or.inl hna)]
    exact fresh_tree h inv hfresh a hra
  · intro a j hne
    exact insertUp_other true id vals _ _ _ a j hne
  · obtain ⟨r, hr, hcase⟩ := insertUp_child h id vals db c none c (self_mem_anc h c)
    rcases hcase with ⟨_, hnone⟩ | ⟨hne, _⟩
    · exact ⟨r, hr, hnone⟩
    · exact absurd rfl hne
  · intro e he
    have inv' : NoOrphan T (insertUp true id vals (T.anc c) none db) :=
      insert_preserves h inv c id vals
        (fun a ha => fresh_tree h inv hfresh a (root_of_mem h c a ha))
    have hleaf : LeafRow (insertUp true id vals (T.anc c) none db) c id := by
      obtain ⟨r, hr, hcase⟩ := insertUp_child h id vals db c none c (self_mem_anc h c)
      rcases hcase with ⟨_, hnone⟩ | ⟨hne, _⟩
      · exact ⟨r, hr, hnone⟩
      · exact absurd rfl hne
    exact get_of_leaf h inv' hleaf he

/-! ### fetching through any ancestor class returns the most-derived instance -/

theorem C15_fetch_most_derived (T : Tree) (h : T.WF) (db : DB) (inv : NoOrphan T db) (e i : Nat) :
    (db.has e i = false → get T db e i = .notFound) ∧
    (db.has e i = true → ∃ m, get T db e i = .ok m ∧ LeafRow db m i ∧ e ∈ T.anc m ∧
        ∀ e', T.root e' = T.root e → db.has e' i = true → get T db e' i = .ok m) := by
  constructor
  · intro hno
    apply get_notFound
    cases hr : db e i with
    | none => rfl
    | some r => simp [DB.has, hr] at hno
  · intro hrow
    obtain ⟨m, hget, hleaf, hem⟩ := get_ok h inv hrow
    refine ⟨m, hget, hleaf, hem, ?_⟩
    intro e' hroot hrow'
    obtain ⟨m', hget', hleaf', hem'⟩ := get_ok h inv hrow'
    have : m' = m := leaf_unique h inv hleaf' hleaf
      ((root_of_mem h m' e' hem').symm.trans (hroot.trans (root_of_mem h m e hem)))
    rw [hget', this]

/-! ### inherited attributes read and write the ancestor's row, identically through every level -/

theorem C15_inherited_attr_single_store (T : Tree) (h : T.WF) (db : DB) (inv : NoOrphan T db)
    (e i m a k : Nat) (v : Val) (hget : get T db e i = .ok m) (hattr : attrOK T m a k = true) :
    ∃ db', writeVia T db e i a k v = (db', .ok) ∧
      (∀ c j, (c ≠ a ∨ j ≠ i) → db' c j = db c j) ∧
      (∃ r r', db a i = some r ∧ db' a i = some r' ∧ r'.child = r.child ∧
          ∀ k', r'.vals k' = if k' = k then v else r.vals k') ∧
      (∀ e', e' ∈ T.anc m → readVia T db' e' i a k = .val v) := by
  obtain ⟨hleaf, hem, _⟩ := get_ok_inv h inv hget
  have ham : a ∈ T.anc m := by
    simp only [attrOK, Bool.and_eq_true, List.contains_iff_mem] at hattr
    exact hattr.1
  have hmrow : db.has m i = true := by obtain ⟨r, hr, _⟩ := hleaf; exact has_iff.mpr ⟨r, hr⟩
  obtain ⟨r, hr⟩ := has_iff.mp (rows_up h inv i m hmrow a ham)
  refine ⟨updateRow db a i k v, by simp [writeVia, hget, writeInst, hattr], ?_, ?_, ?_⟩
  · intro c j hne
    rw [updateRow_spec]
    have : ¬ (c = a ∧ j = i) := by
      rintro ⟨rfl, rfl⟩
      rcases hne with hne | hne <;> exact hne rfl
    rw [if_neg this]
  · refine ⟨r, { r with vals := fun k' => if k' = k then v else r.vals k' }, hr, ?_, rfl, fun _ => rfl⟩
    rw [updateRow_spec]; simp [hr]
  · intro e' he'
    have hs := updateRow_shape db a i k v
    have inv' := hs.noOrphan inv
    have hget' := get_of_leaf h inv' (leafRow_shape hs hleaf) he'
    simp only [readVia, hget', readInst, hattr, if_true]
    rw [updateRow_spec]; simp [hr]

/-- `obj.set(**kw)` mixing own and inherited attributes (distinct names): every named attribute is
    stored in its declaring ancestor's row and reads back through every level; nothing else changes;
    no row appears, disappears or changes its tag. -/
theorem C15_set_single_store (T : Tree) (h : T.WF) (db : DB) (inv : NoOrphan T db)
    (e i m : Nat) (kvs : List (Nat × Nat × Val)) (hget : get T db e i = .ok m)
    (hattr : ∀ x, x ∈ kvs → attrOK T m x.1 x.2.1 = true)
    (hdist : kvs.Pairwise (fun x y => ¬ (x.1 = y.1 ∧ x.2.1 = y.2.1))) :
    ∃ db', setVia T db e i kvs = (db', .ok) ∧
      (∀ a j k, (j ≠ i ∨ ∀ x, x ∈ kvs → ¬ (x.1 = a ∧ x.2.1 = k)) → cell db' a j k = cell db a j k) ∧
      SameShape db db' ∧
      (∀ x, x ∈ kvs → ∀ e', e' ∈ T.anc m → readVia T db' e' i x.1 x.2.1 = .val x.2.2) := by
  obtain ⟨hleaf, _, _⟩ := get_ok_inv h inv hget
  have hmrow : db.has m i = true := by obtain ⟨r, hr, _⟩ := hleaf; exact has_iff.mpr ⟨r, hr⟩
  have hrows : ∀ x, x ∈ kvs → db.has x.1 i = true := by
    intro x hx
    have := hattr x hx
    simp only [attrOK, Bool.and_eq_true, List.contains_iff_mem] at this
    exact rows_up h inv i m hmrow x.1 this.1
  obtain ⟨h1, h2⟩ := foldl_update_cells i kvs db hdist hrows
  have hall : kvs.all (fun x => attrOK T m x.1 x.2.1) = true := by
    rw [List.all_eq_true]; exact hattr
  have hs := foldl_update_shape i kvs db
  refine ⟨_, by simp [setVia, hget, setInst, hall], h2, hs, ?_⟩
  intro x hx e' he'
  have hget' := get_of_leaf h (hs.noOrphan inv) (leafRow_shape hs hleaf) he'
  have hc := h1 x hx
  simp only [readVia, hget', readInst, hattr x hx, if_true]
  unfold cell at hc
  rw [hc]

/-- reads through every level of the chain agree and return the declaring ancestor's row -/
theorem C15_reads_agree_across_levels (T : Tree) (h : T.WF) (db : DB) (inv : NoOrphan T db)
    (e i m a k : Nat) (hget : get T db e i = .ok m) (hattr : attrOK T m a k = true) :
    ∃ r, db a i = some r ∧ ∀ e', e' ∈ T.anc m → readVia T db e' i a k = .val (r.vals k) := by
  obtain ⟨hleaf, _, _⟩ := get_ok_inv h inv hget
  have ham : a ∈ T.anc m := by
    simp only [attrOK, Bool.and_eq_true, List.contains_iff_mem] at hattr
    exact hattr.1
  have hmrow : db.has m i = true := by obtain ⟨r, hr, _⟩ := hleaf; exact has_iff.mpr ⟨r, hr⟩
  obtain ⟨r, hr⟩ := has_iff.mp (rows_up h inv i m hmrow a ham)
  refine ⟨r, hr, ?_⟩
  intro e' he'
  simp [readVia, get_of_leaf h inv hleaf he', readInst, hattr, hr]

/-! ### selecting on a subclass returns only its own kind, also when filtering on inherited columns -/

theorem C15_child_select_only_own_kind (T : Tree) (h : T.WF) (db : DB) (inv : NoOrphan T db)
    (c : Nat) (f : Filter) (i : Nat) :
    (selectRow T db c f i = none ↔ ¬ (db.has c i = true ∧ f.eval db i = true)) ∧
    (∀ res, selectRow T db c f i = some res →
        ∃ m, res = .ok m ∧ LeafRow db m i ∧ c ∈ T.anc m) := by
  have hsel := selectRow_eq h inv c f i
  constructor
  · rw [hsel]
    by_cases hc : (db.has c i && f.eval db i) = true
    · simp only [hc, if_true]
      simp only [Bool.and_eq_true] at hc
      simp [hc]
    · simp only [hc]
      simp only [Bool.and_eq_true] at hc
      simp [hc]
  · intro res hres
    rw [hsel] at hres
    by_cases hc : (db.has c i && f.eval db i) = true
    · simp only [hc, if_true, Option.some.injEq] at hres
      simp only [Bool.and_eq_true] at hc
      have hroot := rows_up h inv i c hc.1 (T.root c) (root_mem_anc h c)
      obtain ⟨m, hget, hleaf, hrm⟩ := get_ok h inv hroot
      refine ⟨m, by rw [← hres, hget], hleaf, ?_⟩
      exact on_leaf_chain h inv hleaf c hc.1 ⟨T.root c, root_mem_anc h c, hrm⟩
    · simp [hc] at hres

/-- the same for `selectBy(**kw)` with own and inherited column names -/
theorem C15_child_selectBy_only_own_kind (T : Tree) (h : T.WF) (db : DB) (inv : NoOrphan T db)
    (c : Nat) (kvs : List (Nat × Nat × Val)) (i : Nat) :
    (selectByRow T db c kvs i = none ↔
        ¬ (db.has c i = true ∧ kvsHold db i kvs = true)) ∧
    (∀ res, selectByRow T db c kvs i = some res →
        ∃ m, res = .ok m ∧ LeafRow db m i ∧ c ∈ T.anc m) := by
  have hsel := selectByRow_eq h inv c kvs i
  constructor
  · rw [hsel]
    by_cases hc : (db.has c i && kvsHold db i kvs) = true
    · simp only [hc, if_true]
      simp only [Bool.and_eq_true] at hc
      simp [hc]
    · simp only [hc]
      simp only [Bool.and_eq_true] at hc
      simp [hc]
  · intro res hres
    rw [hsel] at hres
    by_cases hc : (db.has c i && kvsHold db i kvs) = true
    · simp only [hc, if_true, Option.some.injEq] at hres
      simp only [Bool.and_eq_true] at hc
      obtain ⟨m, hget, hleaf, hcm⟩ := get_ok h inv hc.1
      exact ⟨m, by rw [← hres, hget], hleaf, hcm⟩
    · simp [hc] at hres

/-- `Sub.by<Col>(v)` on an alternate-id column declared by an ancestor finds an object only if it
    has a row in `Sub`'s own table (a value owned by a sibling kind or a bare ancestor instance is
    NotFound), and returns it as an instance of `Sub` or a subclass -/
theorem C15_by_alternate_id_only_own_kind (T : Tree) (h : T.WF) (db : DB) (inv : NoOrphan T db)
    (e a k : Nat) (v : Val) (i : Nat) :
    (byAltRow T db e a k v i = none ↔ ¬ (db.has e i = true ∧ look db i a k = v)) ∧
    (∀ res, byAltRow T db e a k v i = some res →
        ∃ m, res = .ok m ∧ LeafRow db m i ∧ e ∈ T.anc m) := by
  have := C15_child_selectBy_only_own_kind T h db inv e [(a, k, v)] i
  refine ⟨?_, this.2⟩
  rw [byAltRow, this.1]
  simp [kvsHold]

/-! ### destroying an instance removes its rows at every level -/

theorem C15_destroy_removes_all_levels (T : Tree) (h : T.WF) (db : DB) (inv : NoOrphan T db)
    (e i m : Nat) (hget : get T db e i = .ok m) :
    ∃ db', destroyVia T db e i = (db', .ok) ∧
      (∀ c, T.root c = T.root e → db' c i = none) ∧
      (∀ c j, (j ≠ i ∨ T.root c ≠ T.root e) → db' c j = db c j) ∧
      NoOrphan T db' := by
  obtain ⟨hleaf, hem, _⟩ := get_ok_inv h inv hget
  have hw : Extracted.destroyWalksParents = true := rfl
  have hroot : T.root e = T.root m := root_of_mem h m e hem
  refine ⟨destroyG true Extracted.destroyParentFirst T db m i, ?_, ?_, ?_, ?_⟩
  · simp [destroyVia, hget, destroyInst, hw]
  · intro c hc
    rw [destroyG_spec]
    by_cases hcm : c ∈ T.anc m
    · simp [hcm]
    · simp only [hcm, and_false, if_false]
      cases hr : db c i with
      | none => rfl
      | some r =>
        exfalso
        exact hcm ((C15_row_iff_on_chain T h db inv m i hleaf c (hc.trans hroot)).mp
          (has_iff.mpr ⟨r, hr⟩))
  · intro c j hne
    rw [destroyG_spec]
    have : ¬ (j = i ∧ c ∈ T.anc m) := by
      rintro ⟨rfl, hcm⟩
      rcases hne with hne | hne
      · exact hne rfl
      · exact hne ((root_of_mem h m c hcm).trans hroot.symm)
    rw [if_neg this]
  · exact destroy_preserves h inv _ hleaf

/-! ### class-level bulk deletes (`deleteMany`, `deleteBy`)

`SQLObject.deleteMany` / `deleteBy` send one raw DELETE on the table of the class they are called
on; inherited unchanged they left the rows of the other levels behind (witnesses kept in
`corpus/C15`).  `InheritableSQLObject` now overrides both to `destroySelf()` every selected object
(`Extracted.bulkDeleteDestroys`), and the statement holds in full. -/

/-- `cls.deleteMany(where)` over own and inherited columns: every row of `cls`'s table that
    satisfies the clause disappears at every level of its hierarchy, nothing else changes, and the
    invariant is kept -/
theorem C15_deleteMany_removes_all_levels (T : Tree) (h : T.WF) (db : DB) (inv : NoOrphan T db)
    (c : Nat) (f : Filter) :
    NoOrphan T (deleteMany T db c f) ∧
    (∀ j, db.has c j = true → f.eval db j = true →
        ∀ c', T.root c' = T.root c → deleteMany T db c f c' j = none) ∧
    (∀ c' j, ¬ (db.has c j = true ∧ f.eval db j = true) → deleteMany T db c f c' j = db c' j) ∧
    (∀ c' j, T.root c' ≠ T.root c → deleteMany T db c f c' j = db c' j) := by
  refine ⟨deleteMany_preserves h inv c f, ?_, ?_, ?_⟩
  · intro j hrow hf c' hroot
    have hs : selectRow T db c f j = some (get T db (T.root c) j) := by
      rw [selectRow_eq h inv]; simp [hrow, hf]
    obtain ⟨_, _, m, hm, hleaf, hcm⟩ := selectRow_ok h inv hs
    unfold deleteMany
    rw [deleteSel_spec, hs, hm]
    by_cases hc' : c' ∈ T.anc m
    · simp [hc']
    · simp only [hc', if_false]
      cases hr : db c' j with
      | none => rfl
      | some r =>
        exfalso
        exact hc' ((C15_row_iff_on_chain T h db inv m j hleaf c'
          (hroot.trans (root_of_mem h m c hcm))).mp (has_iff.mpr ⟨r, hr⟩))
  · intro c' j hno
    have hs : selectRow T db c f j = none := by
      rw [selectRow_eq h inv]
      have : ¬ ((db.has c j && f.eval db j) = true) := by simpa using hno
      simp [this]
    unfold deleteMany
    rw [deleteSel_spec, hs]
  · intro c' j hroot
    unfold deleteMany
    rw [deleteSel_spec]
    cases hs : selectRow T db c f j with
    | none => rfl
    | some res =>
      obtain ⟨_, _, m, hm, _, hcm⟩ := selectRow_ok h inv hs
      subst hm
      have : c' ∉ T.anc m := by
        intro hc'
        exact hroot ((root_of_mem h m c' hc').trans (root_of_mem h m c hcm).symm)
      simp [this]

/-- the same for `cls.deleteBy(**kw)` -/
theorem C15_deleteBy_removes_all_levels (T : Tree) (h : T.WF) (db : DB) (inv : NoOrphan T db)
    (c : Nat) (kvs : List (Nat × Nat × Val)) :
    NoOrphan T (deleteBy T db c kvs) ∧
    (∀ j, db.has c j = true → kvsHold db j kvs = true →
        ∀ c', T.root c' = T.root c → deleteBy T db c kvs c' j = none) ∧
    (∀ c' j, ¬ (db.has c j = true ∧ kvsHold db j kvs = true) → deleteBy T db c kvs c' j = db c' j) := by
  refine ⟨deleteBy_preserves h inv c kvs, ?_, ?_⟩
  · intro j hrow hf c' hroot
    have hs : selectByRow T db c kvs j = some (get T db c j) := by
      rw [selectByRow_eq h inv]; simp [hrow, hf]
    obtain ⟨_, _, m, hm, hleaf, hcm⟩ := selectByRow_ok h inv hs
    unfold deleteBy
    rw [deleteSel_spec, hs, hm]
    by_cases hc' : c' ∈ T.anc m
    · simp [hc']
    · simp only [hc', if_false]
      cases hr : db c' j with
      | none => rfl
      | some r =>
        exfalso
        exact hc' ((C15_row_iff_on_chain T h db inv m j hleaf c'
          (hroot.trans (root_of_mem h m c hcm))).mp (has_iff.mpr ⟨r, hr⟩))
  · intro c' j hno
    have hs : selectByRow T db c kvs j = none := by
      rw [selectByRow_eq h inv]
      have : ¬ ((db.has c j && kvsHold db j kvs) = true) := by simpa using hno
      simp [this]
    unfold deleteBy
    rw [deleteSel_spec, hs]

/-! ### a destroy refused by a `cascade=False` reference leaves every level in place

The parent level is destroyed first (`Extracted.destroyParentFirst`), so a reference that restricts
the ROOT-level row refuses the whole destroy before any DELETE.  A restriction on a lower level
refuses after the levels above it are gone: that is the open finding of property C06
(`C06:inheritable-destroySelf-fails-after-parent-row-deleted`), kept visible here as the
counter-theorem; the harness replays its witness as a note, not as a C15 alarm. -/

/-- full statement, false of the code: `K1`'s row 1 is restricted; `K0`'s row is deleted, then `K1`
    refuses: rows 1 of `K1` and `K3` are left without their root row -/
theorem C15_refused_destroy_keeps_no_orphan_full_FALSE :
    ¬ (∀ (T : Tree), T.WF → ∀ (db : DB), NoOrphan T db → ∀ (e i : Nat) (blocked : Nat → Bool),
        NoOrphan T (destroyGuardedVia T db e i blocked).1) := by
  intro hall
  have inv := hall T0 T0_wf db0 (C15_no_orphan_inv T0 T0_wf _) 0 1 (fun a => a == 1)
  have := inv.up 1 0 1 (by decide) (by decide)
  obtain ⟨r, hr, _⟩ := this
  have hn : ((destroyGuardedVia T0 db0 0 1 (fun a => a == 1)).1 0 1).isSome = false := by decide
  rw [hr] at hn; cases hn

/-- what holds: when the root-level row is the restricted one, through whichever level the
    instance was fetched, the refused destroy changes nothing at any level -/
theorem C15_refused_destroy_keeps_no_orphan_partial (T : Tree) (h : T.WF) (db : DB) (inv : NoOrphan T db)
    (e i m : Nat) (blocked : Nat → Bool) (hget : get T db e i = .ok m)
    (hroot : blocked (T.root e) = true) :
    destroyGuardedVia T db e i blocked = (db, .integrity) := by
  have hr : T.root e = T.root m := root_of_mem h m e (get_ok_inv h inv hget).2.1
  simp only [destroyGuardedVia, hget]
  exact destroyGuarded_root_blocked h db m i blocked (hr ▸ hroot)

/-- and without a restriction on the chain the guarded destroy is the plain one -/
theorem C15_unrestricted_destroy_is_plain (T : Tree) (db : DB) (e i m : Nat) (blocked : Nat → Bool)
    (hget : get T db e i = .ok m) (hfree : ∀ a, a ∈ T.anc m → blocked a = false) :
    (destroyGuardedVia T db e i blocked).2 = .ok ∧
    ∀ c j, (destroyGuardedVia T db e i blocked).1 c j = (destroyVia T db e i).1 c j := by
  simp only [destroyGuardedVia, destroyVia, hget]
  exact destroyGuarded_unblocked T db m i blocked hfree

/-! ### the same classes on several databases and inside transactions -/

/-- operations sent through explicit connections (a second database, a transaction that is rolled
    back or committed): the tables reached through every connection satisfy the invariant -/
theorem C15_no_orphan_per_connection (T : Tree) (h : T.WF) (ops : List MOp) (k : Nat) :
    NoOrphan T ((mrun T ops MState.init).cur k) :=
  (mrun_preserves h ops MState.init (fun _ => ⟨noOrphan_empty T, noOrphan_empty T⟩) k).1

/-! ### a committed transaction is seen through instances the main connection had already loaded

The main connection's instances cache their level's column values; `Transaction.commit` expires
the main-side instance of every (class, id) in the transaction's cache and deleted log.  A fetch
inside the transaction registers the instance AND its whole `_parent` chain (`txLevels`), so every
level an inherited attribute can be stored at is expired, and every level reads the row again. -/

/-- with coherent level caches an attribute read through an instance is the declaring row's value -/
theorem C15_cached_read_is_row (T : Tree) (db : DB) (vc : VCache) (hc : Coherent db vc) (m i a k : Nat) :
    readCached T db vc m i a k = readInst T db m i a k :=
  readCached_coherent hc m i a k

/-- one transaction writes an (own or inherited) attribute of one object and destroys another
    object; the commit expires at least every level of both chains: afterwards the main
    connection's caches agree with the rows at every level, and the written attribute reads the
    new value through the already-loaded instance, whichever level it is fetched through -/
theorem C15_commit_after_write_and_destroy_coherent (T : Tree) (h : T.WF) (db : DB) (inv : NoOrphan T db)
    (vc : VCache) (hc : Coherent db vc)
    (e i m a k : Nat) (v : Val) (hget : get T db e i = .ok m) (hattr : attrOK T m a k = true)
    (e2 i2 m2 : Nat) (hget2 : get T (writeVia T db e i a k v).1 e2 i2 = .ok m2) (hne : i2 ≠ i ∨ T.root e2 ≠ T.root e)
    (S : Nat → Nat → Bool)
    (hS : ∀ x j, (txLevels T m i x j || txLevels T m2 i2 x j) = true → S x j = true) :
    let db2 := (destroyVia T (writeVia T db e i a k v).1 e2 i2).1
    Coherent db2 (commitExpire vc S) ∧
    (∀ e', e' ∈ T.anc m → get T db2 e' i = .ok m) ∧
    readCached T db2 (commitExpire vc S) m i a k = some v := by
  intro db2
  obtain ⟨db1, hw, hother, ⟨r, r', hr, hr', _, hvals⟩, _⟩ :=
    C15_inherited_attr_single_store T h db inv e i m a k v hget hattr
  have hdb1 : (writeVia T db e i a k v).1 = db1 := by rw [hw]
  have inv1 : NoOrphan T db1 := by
    have := C15_step_preserves_no_orphan T h db inv (.write e i a k v)
    simpa [step, hw] using this
  rw [hdb1] at hget2
  obtain ⟨db2', hd, hgone, hkeep, inv2⟩ := C15_destroy_removes_all_levels T h db1 inv1 e2 i2 m2 hget2
  have hdb2 : db2 = db2' := by show (destroyVia T (writeVia T db e i a k v).1 e2 i2).1 = db2'; rw [hdb1, hd]
  have ham : a ∈ T.anc m := by
    simp only [attrOK, Bool.and_eq_true, List.contains_iff_mem] at hattr; exact hattr.1
  obtain ⟨hleaf, hem, _⟩ := get_ok_inv h inv hget
  obtain ⟨_, hem2, _⟩ := get_ok_inv h inv1 hget2
  -- rows outside S are untouched by the whole transaction
  have hsame : ∀ x j, S x j = false → db2 x j = db x j := by
    intro x j hs
    have h1 : ¬ (j = i ∧ x ∈ T.anc m) := by
      rintro ⟨rfl, hx⟩
      have := hS x j (by simp [txLevels, hx])
      rw [hs] at this; cases this
    have h2 : ¬ (j = i2 ∧ x ∈ T.anc m2) := by
      rintro ⟨rfl, hx⟩
      have := hS x j (by simp [txLevels, hx])
      rw [hs] at this; cases this
    have e1 : db1 x j = db x j := hother x j (by
      by_cases hx : x = a
      · subst hx; right; intro hj; exact h1 ⟨hj, ham⟩
      · left; exact hx)
    have hw' : Extracted.destroyWalksParents = true := rfl
    have e2' : db2 x j = db1 x j := by
      rw [hdb2]
      have : db2' = destroyInst T db1 m2 i2 := by
        have := hd; simp only [destroyVia, hget2] at this; exact (Prod.mk.inj this).1.symm
      rw [this]
      simp only [destroyInst, hw', destroyG_spec, if_neg h2]
    rw [e2', e1]
  refine ⟨commitExpire_coherent hc S hsame, ?_, ?_⟩
  · intro e' he'
    -- the written object is not the destroyed one: its rows survive, with the same tags
    have hkeep' : ∀ c, c ∈ T.anc m → db2 c i = db1 c i := by
      intro c hc'
      rw [hdb2]
      apply hkeep
      rcases hne with hne | hne
      · left; exact fun hh => hne hh.symm
      · right; intro hh
        exact hne (hh.symm.trans ((root_of_mem h m c hc').trans (root_of_mem h m e hem).symm))
    have hleaf1 : LeafRow db1 m i := by
      obtain ⟨rm, hrm, hcm⟩ := hleaf
      by_cases hma : m = a
      · subst hma; rw [hr] at hrm; cases hrm
        exact ⟨r', hr', by rw [‹r'.child = r.child›, hcm]⟩
      · exact ⟨rm, by rw [hother m i (Or.inl hma)]; exact hrm, hcm⟩
    have hleaf2 : LeafRow db2 m i := by
      obtain ⟨rm, hrm, hcm⟩ := hleaf1
      exact ⟨rm, by rw [hkeep' m (self_mem_anc h m)]; exact hrm, hcm⟩
    exact get_of_leaf h (hdb2 ▸ inv2) hleaf2 he'
  · rw [readCached_coherent (commitExpire_coherent hc S hsame)]
    have : db2 a i = db1 a i := by
      rw [hdb2]; apply hkeep
      rcases hne with hne | hne
      · left; exact fun hh => hne hh.symm
      · right; intro hh
        exact hne (hh.symm.trans ((root_of_mem h m a ham).trans (root_of_mem h m e hem).symm))
    simp [readInst, hattr, this, hr', hvals]

/-! ### the statements above in every reachable state -/

/-- **C15 over histories**: after any history over any class tree, through every entry level:
    NotFound exactly when that level has no row, otherwise the unique most-derived instance; and a
    select on any class yields exactly the rows of its own table that satisfy the filter, as
    instances of that class or a subclass. -/
theorem C15_history_consistent (T : Tree) (h : T.WF) (ops : List Op) :
    let db := run T ops DB.empty
    NoOrphan T db ∧
    (∀ e i, (db.has e i = false → get T db e i = .notFound) ∧
      (db.has e i = true → ∃ m, get T db e i = .ok m ∧ LeafRow db m i ∧ e ∈ T.anc m)) ∧
    (∀ c f i, (selectRow T db c f i = none ↔ ¬ (db.has c i = true ∧ f.eval db i = true)) ∧
      (∀ res, selectRow T db c f i = some res → ∃ m, res = .ok m ∧ LeafRow db m i ∧ c ∈ T.anc m)) := by
  intro db
  have inv : NoOrphan T db := C15_no_orphan_inv T h ops
  refine ⟨inv, ?_, ?_⟩
  · intro e i
    have := C15_fetch_most_derived T h db inv e i
    refine ⟨this.1, ?_⟩
    intro hrow
    obtain ⟨m, h1, h2, h3, _⟩ := this.2 hrow
    exact ⟨m, h1, h2, h3⟩
  · intro c f i
    exact C15_child_select_only_own_kind T h db inv c f i

/-! ### Non-vacuity: the three-level hierarchy with sibling subclasses of the property statement

`K0(2 cols) ← K1(1) ← {K3(1), K4(0 cols), K5(0 cols, not inheritable)}`, `K0 ← K2(1)`. -/

example : NoOrphan T0 db0 := C15_no_orphan_inv T0 T0_wf _
example : (db0.has 0 1, db0.has 1 1, db0.has 3 1, db0.has 2 1, db0.has 4 1) = (true, true, true, false, false) := by
  decide
example : [0, 1, 3].map (fun e => get T0 db0 e 1) = [.ok 3, .ok 3, .ok 3] := by decide
example : (get T0 db0 2 1, get T0 db0 4 1, get T0 db0 0 2, get T0 db0 5 2, get T0 db0 0 9)
    = (.notFound, .notFound, .ok 5, .ok 5, .notFound) := by decide
example : readVia T0 db0 0 1 1 0 = .val 10 ∧ readVia T0 db0 3 1 0 1 = .val 1 ∧ readVia T0 db0 0 1 2 0 = .noAttr := by
  decide
example : readVia T0 (writeVia T0 db0 1 1 0 1 99).1 3 1 0 1 = .val 99 := by decide
/-- `K1.select(K0.col0 >= 0)`: the K3 and the K5, not the K2 (a sibling) -/
example : [1, 2, 3].map (selectRow T0 db0 1 (.attr 0 0 .ge 0)) = [some (.ok 3), some (.ok 5), none] := by decide
example : [1, 2, 3].map (selectByRow T0 db0 3 [(0, 1, 1)]) = [some (.ok 3), none, none] := by decide
example : [0, 1, 3].map (fun c => (destroyVia T0 db0 0 1).1.has c 1) = [false, false, false] := by decide
/-- the invariant is not trivially true: a child row without its parent row violates it … -/
example : ¬ NoOrphan T0 (DB.empty.set 3 1 ⟨none, fun _ => 0⟩) := by
  intro inv
  obtain ⟨r, hr, _⟩ := inv.up 3 1 1 (by decide) (by decide)
  revert hr; simp [DB.set, DB.empty]
example : [0, 1, 3].map (fun c => (deleteBy T0 db0 3 [(3, 0, 30)]).has c 1) = [false, false, false] := by decide
example : [0, 1, 5].map (fun c => (deleteMany T0 db0 0 (.attr 0 0 .eq 7)).has c 2) = [false, false, false] := by
  decide
example : (deleteMany T0 db0 0 (.attr 0 0 .eq 7)).has 0 1 = true := by decide
/-- the chain matters: the main connection has loaded the `K3` of id 1 (root-level values cached); a
    transaction writes its inherited `K0` column 0; a commit that expires only the `K1` and `K3`
    levels (the root-level ids lost) leaves the root-level cache disagreeing with the row -/
example : ¬ Coherent (writeVia T0 db0 3 1 0 0 99).1
    (commitExpire (fun a i => if a = 0 ∧ i = 1 then some (fun k => (k : Int)) else none) (fun a _ => a != 0)) := by
  intro hc
  obtain ⟨r, hr, hk⟩ := hc 0 1 (fun k => (k : Int)) (by simp [commitExpire])
  have h0 := hk 0
  have : ((writeVia T0 db0 3 1 0 0 99).1 0 1).map (fun r => r.vals 0) = some 99 := by decide
  rw [hr] at this
  simp at this
  rw [this] at h0
  exact absurd h0 (by decide)

/-- … and so does a `destroySelf` that does not walk up to the parents -/
example : ¬ NoOrphan T0 (destroyG false true T0 db0 3 1) := by
  intro inv
  have hc : ((destroyG false true T0 db0 3 1) 1 1).map (·.child) = some (some 3) := by decide
  cases hr : (destroyG false true T0 db0 3 1) 1 1 with
  | none => rw [hr] at hc; cases hc
  | some r =>
    rw [hr] at hc
    have hrc : r.child = some 3 := by simpa using hc
    have := (inv.down 1 1 r 3 hr hrc).2
    revert this; decide

end SqlObjVerif.Inherit

namespace SqlObjVerif.Inherit
open SqlObjVerif.PyInh

/-! ## The hand model of the `InheritableSQLObject` methods IS the translated source

`destroySelfX`, `deleteManyX`, `deleteByX`, `createX` (`Model/InheritX.lean`) RUN the PyInherit programs
`vlib/extractors/pyinherit.py` translated from `sqlobject/inheritance/__init__.py` on this run, against the interface
stated in the header of `Model/InheritX.lean` (what `SQLObject.destroySelf / _create`, the parent class's
constructor, `select` / `selectBy` do).  Each `…_level` theorem: one level of the class tree, the call to the
neighbouring level being the hand model's function there; each `…_eq_model` theorem: the translated method calling
ITSELF along the class chain (any depth) is the hand model's function.  A semantic edit of these methods changes the
translated programs and breaks these proofs. -/

/-- `destroySelf`, one level: parent level first (the hand model's guarded destroy there), then the own row -/
theorem C15_translated_destroySelf_level (X : Ctx) (h : X.T.WF) (w : XW) (k c i : Nat)
    (hpar : w.par k c i = parVal X.T k c i) :
    destroySelfX X { noCalls with destroy := destroyModel X } w k c i = destroyModel X w k c i :=
  destroySelfX_level_model h w k c i hpar

/-- `destroySelf` along the whole `_parent` chain = the hand model's `destroyGuarded` (DELETEs root first, a
    `cascade=False` restriction of a level refuses there, what was deleted before stays deleted), on the instance's
    own connection -/
theorem C15_translated_destroySelf_eq_model (X : Ctx) (h : X.T.WF) (w : XW) (k c i : Nat)
    (hpar : ∀ a, a ∈ X.T.anc c → w.par k a i = parVal X.T k a i) :
    destroySelfC X w k c i =
      if (destroyGuarded X.T (w.cur k) c i X.blocked).2 = .ok
      then .ret (w.setCur k (destroyGuarded X.T (w.cur k) c i X.blocked).1) .none
      else .exc (w.setCur k (destroyGuarded X.T (w.cur k) c i X.blocked).1) ⟨.integrity, 0⟩ :=
  destroySelfC_eq h w k c i hpar

/-- … and without a restriction on the chain it is `destroyInst` -/
theorem C15_translated_destroySelf_eq_destroyInst (X : Ctx) (h : X.T.WF) (w : XW) (k c i : Nat)
    (hpar : ∀ a, a ∈ X.T.anc c → w.par k a i = parVal X.T k a i) (hb : ∀ a, a ∈ X.T.anc c → X.blocked a = false) :
    destroySelfC X w k c i = .ret (w.setCur k (destroyInst X.T (w.cur k) c i)) .none := by
  rw [destroySelfC_eq h w k c i hpar]
  exact destroyModel_unblocked X w k c i hb

/-- `cls.deleteMany(where, connection=k)` with the translated `destroySelf` for every selected object = the hand model's
    `deleteMany` on the tables of connection `k`; `X.ids` is what `select` returned (any order) -/
theorem C15_translated_deleteMany_eq_model (X : Ctx) (h : X.T.WF) (hb : ∀ a, X.blocked a = false) (w : XW) (k c : Nat)
    (wh : PVal) (hwh : wh = noDefault ∨ wh = .none ∨ wh = .ref 5 0)
    (hids : ∀ j, j ∈ X.ids ↔ ∃ m, selectRow X.T (w.cur k) c (filterOf X wh) j = some (.ok m))
    (hpar : ∀ j m, selectRow X.T (w.cur k) c (filterOf X wh) j = some (.ok m) →
      ∀ a, a ∈ X.T.anc m → w.par k a j = parVal X.T k a j) :
    deleteManyX X { noCalls with destroy := destroySelfC X } w c wh (.conn k) =
      .ret (w.setCur k (deleteMany X.T (w.cur k) c (filterOf X wh))) .none :=
  deleteManyX_eq X _ w k c wh hwh hids (fun w' j m hw hm => bulk_hC_chain h hb k w w' j m hw (hpar j m hm))

theorem C15_translated_deleteMany_level (X : Ctx) (hb : ∀ a, X.blocked a = false) (w : XW) (k c : Nat)
    (wh : PVal) (hwh : wh = noDefault ∨ wh = .none ∨ wh = .ref 5 0)
    (hids : ∀ j, j ∈ X.ids ↔ ∃ m, selectRow X.T (w.cur k) c (filterOf X wh) j = some (.ok m)) :
    deleteManyX X { noCalls with destroy := destroyModel X } w c wh (.conn k) =
      .ret (w.setCur k (deleteMany X.T (w.cur k) c (filterOf X wh))) .none :=
  deleteManyX_eq X _ w k c wh hwh hids (fun w' j m _ _ => bulk_hC_model X hb k w' j m)

/-- the same for `cls.deleteBy(connection=k, **kw)` -/
theorem C15_translated_deleteBy_eq_model (X : Ctx) (h : X.T.WF) (hb : ∀ a, X.blocked a = false) (w : XW) (k c : Nat)
    (hids : ∀ j, j ∈ X.ids ↔ ∃ m, selectByRow X.T (w.cur k) c X.kvs j = some (.ok m))
    (hpar : ∀ j m, selectByRow X.T (w.cur k) c X.kvs j = some (.ok m) →
      ∀ a, a ∈ X.T.anc m → w.par k a j = parVal X.T k a j) :
    deleteByX X { noCalls with destroy := destroySelfC X } w c (.conn k) =
      .ret (w.setCur k (deleteBy X.T (w.cur k) c X.kvs)) .none :=
  deleteByX_eq X _ w k c hids (fun w' j m hw hm => bulk_hC_chain h hb k w w' j m hw (hpar j m hm))

theorem C15_translated_deleteBy_level (X : Ctx) (hb : ∀ a, X.blocked a = false) (w : XW) (k c : Nat)
    (hids : ∀ j, j ∈ X.ids ↔ ∃ m, selectByRow X.T (w.cur k) c X.kvs j = some (.ok m)) :
    deleteByX X { noCalls with destroy := destroyModel X } w c (.conn k) =
      .ret (w.setCur k (deleteBy X.T (w.cur k) c X.kvs)) .none :=
  deleteByX_eq X _ w k c hids (fun w' j m _ _ => bulk_hC_model X hb k w' j m)

/-- `_create`, one level below a parent class `p`: the constructor of `p` is the hand model's `createSpec` of the
    parent chain, the clean-up's `destroySelf` the hand model's `destroyInst` -/
theorem C15_translated_create_level (X : Ctx) (h : X.T.WF) (hvals : ∀ a j, X.T.ncols a ≤ j → X.vals a j = 0)
    (w : XW) (k a p : Nat) (tag : Option Nat) (hp : X.T.parent a = some p) :
    createX X { noCalls with
        construct := fun w k p d => constructRes X k p (createSpec X k (X.T.anc p) (tagOf d) w),
        destroy := fun w k p i => .ret (w.setCur k (destroyInst X.T (w.cur k) p i)) .none }
      w k a .none (kwOf X (X.T.anc a) tag) = createCall (createSpec X k (X.T.anc a) tag w) := by
  apply createX_child h _ w k a p tag hp hvals _ (Or.inl rfl)
  · have : tagOf (kwOf X (X.T.anc p) (some a)) = some a := by
      simp only [kwOf, tagOf, vdGet_pairsOf, List.find?_append]
      have h0 : ((X.T.anc p).flatMap (ownKw X)).find? (fun e => e.1 == PyInh.Val.str "childName") = none := by
        rw [List.find?_eq_none]
        intro e he
        simp only [List.mem_flatMap] at he
        obtain ⟨a', _, he⟩ := he
        obtain ⟨j, _, rfl⟩ := (mem_ownKw X a' e).1 he
        simp
      simp [h0, tagEntry, cname]
    simp only [this]
  · intro _ w1 _; rfl

/-- `_create` along the whole class chain (the translated method calling itself through the parent class's
    constructor), no INSERT failing: on the instance's connection `k` the tables are the hand model's `create`
    (`insertUp`: parent chain first, each level tagged with the subclass), every other connection is untouched -/
theorem C15_translated_create_eq_model (X : Ctx) (h : X.T.WF) (hb : ∀ a, X.blocked a = false)
    (hvals : ∀ a j, X.T.ncols a ≤ j → X.vals a j = 0) (w : XW) (k c : Nat)
    (hfresh : ∀ a, a ∈ X.T.anc c → w.par k a X.nid = .none) (hok : ∀ a, a ∈ X.T.anc c → X.failAt a = none) :
    ∃ w', createC X w k c .none (kwOf X (X.T.anc c) none) = .ret w' .none ∧
      w'.cur k = insertUp Extracted.createTagsParent X.nid X.vals (X.T.anc c) none (w.cur k) ∧
      (∀ k', k' ≠ k → w'.cur k' = w.cur k') ∧
      (¬ (X.T.anc c).any (fun a => (w.cur k).has a X.nid) → (w'.cur k, Out.ok) = create X.T (w.cur k) c X.nid X.vals) := by
  obtain ⟨h1, h2, h3⟩ := createSpec_success X k (X.T.anc c) none w hok
  refine ⟨(createSpec X k (X.T.anc c) none w).1, ?_, h2, h3, ?_⟩
  · unfold createC
    rw [createN_eq h hb hvals k w (c + 1) c (by omega) none _ (Or.inl rfl) hfresh]
    simp [createCall, h1]
  · intro hno
    simp only [create, hno, h2]
    simp

/-- the own INSERT of the created class raises `e` — ANY exception, `KeyboardInterrupt` included — outside a
    transaction with autocommit: the parent chain the constructor had inserted is destroyed again, `e` is re-raised -/
theorem C15_translated_create_cleanup_eq_model (X : Ctx) (h : X.T.WF) (hb : ∀ a, X.blocked a = false)
    (hvals : ∀ a j, X.T.ncols a ≤ j → X.vals a j = 0) (w : XW) (k c p : Nat) (e : Exc)
    (hp : X.T.parent c = some p)
    (hfresh : ∀ a, a ∈ X.T.anc c → w.par k a X.nid = .none)
    (hfc : X.failAt c = some e) (hok : ∀ a, a ∈ X.T.anc p → X.failAt a = none)
    (hclean : (!X.isTx k && X.autoCommit k) = true) :
    ∃ w', createC X w k c .none (kwOf X (X.T.anc c) none) = .exc w' e ∧
      w'.cur k = destroyInst X.T (insertUp Extracted.createTagsParent X.nid X.vals (X.T.anc p) (some c) (w.cur k)) p X.nid := by
  obtain ⟨h1, h2⟩ := createSpec_leaf_fails h k c p none w e hp hfc hok hclean
  refine ⟨(createSpec X k (X.T.anc c) none w).1, ?_, h2⟩
  unfold createC
  rw [createN_eq h hb hvals k w (c + 1) c (by omega) none _ (Or.inl rfl) hfresh]
  simp [createCall, h1]


/-- `get`, one level: `SQLObject.get` (NotFound without a row), then the `childName` dispatch to the class registered
    under that name in `childClasses` — fetched on the SAME connection, without a SELECT (`selectResults=(None,)`) exactly
    when it has no column at all — or KeyError; without a tag the `_parent` chain is fetched on that connection -/
theorem C15_translated_get_level (X : Ctx) (h : X.T.WF) (C : Calls) (w : XW) (k e i : Nat)
    (hcold : ∀ a, a ∈ X.T.anc e → w.par k a i = .none)
    (hgp : ∀ w' p, C.getParent w' k p i = getParentX X w' k p i)
    (htag : ∀ r, w.cur k e i = some r → X.T.inh e = false → r.child = none) :
    getX X C w e i (.conn k) .none .none (.bool false) =
      match w.cur k e i with
      | none => .exc w ⟨.notFound, 0⟩
      | some r =>
        match r.child with
        | none => parentsFetch X w k e i
        | some d =>
          if X.T.parent d = some e then C.getChild w k d i (shuntArg (Extracted.shuntColless && X.T.colless d))
          else .exc w ⟨.keyError, 0⟩ :=
  getX_level h C w k e i (.conn k) rfl hcold (fun w' p => by rw [hgp, getParentX_eq]) htag

/-- `get` entered through ANY class `e`, the translated method calling itself down the `childName` chain and the
    translated `get(childUpdate=True)` up the `_parent` chain, on connection `k`: the hand model's `get` on that
    connection's tables (most-derived class, NotFound, KeyError); no table changes.  `hcold`: the instances are built
    by `_init` (instance cache cold); `htag`: a table without `childName` column holds no tag. -/
theorem C15_translated_get_eq_model (X : Ctx) (h : X.T.WF) (w : XW) (k e i : Nat)
    (hcold : ∀ a, w.par k a i = .none)
    (htag : ∀ c r, w.cur k c i = some r → X.T.inh c = false → r.child = none) :
    ∃ w', w'.cur = w.cur ∧ getC X w e i (.conn k) =
      match get X.T (w.cur k) e i with
      | .ok m => .ret w' (.inst k m i)
      | .notFound => .exc w' ⟨.notFound, 0⟩
      | .keyError => .exc w' ⟨.keyError, 0⟩ :=
  getC_eq h w k e i hcold htag

/-! ### Non-vacuity: the translated programs run (no `stuck`) on the three-level hierarchy `T0`, connection 1
holding `db0`, connection 0 empty -/

example : (match destroySelfC X0 w0 1 3 1 with
    | .ret w _ => [0, 1, 3].map (fun c => ((w.cur 1).has c 1, (w.cur 1).has c 2))
    | _ => []) = [(false, true), (false, true), (false, false)] := by decide
/-- `K1.deleteMany(K0.col0 >= 0, connection=1)`: the K3 and the K5 at every level, not the K2 -/
example : (match deleteManyX X0 { noCalls with destroy := destroySelfC X0 } w0 1 (.ref 5 0) (.conn 1) with
    | .ret w _ => [0, 1, 2, 3, 5].map (fun c => ((w.cur 1).has c 1, (w.cur 1).has c 2, (w.cur 1).has c 3))
    | _ => []) = [(false, false, true), (false, false, false), (false, false, true), (false, false, false),
                  (false, false, false)] := by decide
/-- a K3 created on connection 1: rows 9 at the three levels there, tagged towards K3; nothing on connection 0 -/
example : (match createC X0 w1 1 3 .none (kwOf X0 (T0.anc 3) none) with
    | .ret w _ => [0, 1, 3].map (fun c => (((w.cur 1 c 9).map (·.child)), (w.cur 0).has c 9))
    | _ => []) = [(some (some 1), false), (some (some 3), false), (some none, false)] := by decide +kernel
/-- a K4 whose own INSERT is interrupted (`KeyboardInterrupt`): the K0 / K1 rows are removed again -/
example : (match createC X0 w1 1 4 .none (kwOf X0 (T0.anc 4) none) with
    | .exc w e => (e.cls, [0, 1, 4].map (fun c => (w.cur 1).has c 9))
    | _ => (.exception, [])) = (.baseOnly, [false, false, false]) := by decide +kernel
/-- `K0.get(1, connection=1)` is the K3, `K0.get(2, connection=1)` the column-less K5 (no SELECT on its table),
    `K0.get(1)` on the (empty) default connection NotFound -/
example : (match getC X0 w1 0 1 (.conn 1), getC X0 w1 0 2 (.conn 1), getC X0 w1 0 1 .none with
    | .ret wa a, .ret _ b, .exc _ e => (a, b, e.cls, wa.par 1 3 1, wa.par 1 1 1, wa.par 1 0 1)
    | _, _, _ => (.none, .none, .exception, .none, .none, .none)) =
    (.inst 1 3 1, .inst 1 5 2, .notFound, .inst 1 1 1, .inst 1 0 1, .none) := by decide +kernel
end SqlObjVerif.Inherit

namespace SqlObjVerif.Inherit
open SqlObjVerif.InhSel
open SqlObjVerif.PyIS (Sql)

/-! ## The SELECT side: `InheritableSelectResults.__init__` IS the translated source

`selInitX` (`Model/InhSelX.lean`) RUNS the PyInhSel program `vlib/extractors/pyinhsel.py` translated from
`InheritableSelectResults.__init__` on this run (deep embedding `Model/PyInhSel.lean`), against the interface stated in the
header of `Model/InhSelX.lean`.  The database is the hand model's per-level tables; `Sat db s e σ` says `σ` (table ↦ row
id) is a row of `SELECT … FROM <tables of e>, <table of s> WHERE e`. -/

/-- ANY class forest, ANY clause, ANY order of `allClasses()`: the translated constructor hands `SelectResults.__init__`
    the caller's clause AND-ed with the joins computed by the pure functions `regStep` (which classes' tables are used),
    `step2` / `step3` (deepest used classes ↦ topmost used ancestor) and `joinsOf` (`child.id = parent.id` up the chain) -/
theorem C15_translated_selectInit_eq_algo (X : SCtx) (h : X.T.WF) (w : SW) (s : Nat) (g : Sql) (oc : Option Nat) :
    ∃ tabs : List Nat, (∀ b, b ∈ tabs ↔ (b ∈ sqlTables g ∨ b = s)) ∧
    selInitX X w s (.sql g) (opsOf oc) =
      .ret { w with made := some ⟨s,
        (joinsOf X.T (((X.reg.foldl (regStep tabs) []).map (·.1)).foldl
            (step2 X.T (X.reg.foldl (regStep tabs) [])) (X.reg.foldl (regStep tabs) []))).foldl Sql.and g,
        oc.getD X.dflt⟩ } .none :=
  selInitX_run X h w s g oc

/-- every table the query uses lies on the class chain of the deepest used class `d` (own and inherited columns of one
    class): whatever the registry order, the clause is the caller's AND `child.id = parent.id` from `d` up to the topmost
    used class `t`; its rows: the joined ids with a row at every level of that segment that satisfy the caller's clause -/
theorem C15_translated_selectInit_chain (X : SCtx) (h : X.T.WF) (hreg : X.reg.Nodup) (w : SW) (s : Nat) (g : Sql)
    (oc : Option Nat) (d : Nat) (hdu : d ∈ sqlTables g ++ [s])
    (hall : ∀ a, a ∈ sqlTables g ++ [s] → a ∈ X.reg ∧ a ∈ X.T.anc d) :
    ∃ t pre post, X.T.anc d = pre ++ t :: post ∧ t ∈ sqlTables g ++ [s] ∧ (∀ z, z ∈ post → z ∉ sqlTables g ++ [s]) ∧
      selInitX X w s (.sql g) (opsOf oc) =
        .ret { w with made := some ⟨s, (linksTo t (X.T.anc d)).foldl Sql.and g, oc.getD X.dflt⟩ } .none ∧
      (∀ a, a ∈ sqlTables ((linksTo t (X.T.anc d)).foldl Sql.and g) ++ [s] → a ∈ pre ++ [t]) ∧
      ∀ (db : DB) (σ : Nat → Nat), Sat db s ((linksTo t (X.T.anc d)).foldl Sql.and g) σ ↔
        ((∀ a, a ∈ pre ++ [t] → σ a = σ d ∧ db.has a (σ d) = true) ∧ sqlEval db σ g = true) :=
  selInit_chain X h hreg w s g oc d hdu hall

/-- **the query `cls.select(f)` runs** (source class: the root; clause: `f` over own and inherited columns AND
    `parent.childName == cls`): for every class forest, registry order and database, the rows of the query the translated
    constructor builds are exactly the ids the hand model's `selectRow` selects, and each id is delivered by ONE row -/
theorem C15_translated_selectInit_eq_model (X : SCtx) (h : X.T.WF) (hreg : X.reg.Nodup) (w : SW) (c : Nat) (f : Filter)
    (oc : Option Nat) (hregAll : ∀ a, a ∈ X.T.anc c → a ∈ X.reg) (hf : ∀ a, a ∈ f.classes → a ∈ X.T.anc c) :
    ∃ e, selInitX X w (X.T.root c) (.sql (selClause X.T c f)) (opsOf oc) =
        .ret { w with made := some ⟨X.T.root c, e, oc.getD X.dflt⟩ } .none ∧
      ∀ db : DB,
        (∀ i, (∃ σ, Sat db (X.T.root c) e σ ∧ σ (X.T.root c) = i) ↔ (selectRow X.T db c f i).isSome = true) ∧
        (∀ σ σ', Sat db (X.T.root c) e σ → Sat db (X.T.root c) e σ' → σ (X.T.root c) = σ' (X.T.root c) →
          ∀ a, a ∈ sqlTables e ++ [X.T.root c] → σ a = σ' a) :=
  selInit_select X h hreg w c f oc hregAll hf

/-- `C15_child_select_only_own_kind` about the translated source: with no orphans, the query built for `cls.select(f)`
    returns exactly the ids with a row in `cls`'s OWN table (the class or a subclass: own kind and descendants only)
    that satisfy the filter — also for inherited columns in the filter -/
theorem C15_translated_child_select_own_kind (X : SCtx) (h : X.T.WF) (hreg : X.reg.Nodup) (w : SW) (c : Nat) (f : Filter)
    (oc : Option Nat) (hregAll : ∀ a, a ∈ X.T.anc c → a ∈ X.reg) (hf : ∀ a, a ∈ f.classes → a ∈ X.T.anc c) :
    ∃ e, selInitX X w (X.T.root c) (.sql (selClause X.T c f)) (opsOf oc) =
        .ret { w with made := some ⟨X.T.root c, e, oc.getD X.dflt⟩ } .none ∧
      ∀ db : DB, NoOrphan X.T db → ∀ i,
        ((∃ σ, Sat db (X.T.root c) e σ ∧ σ (X.T.root c) = i) ↔ (db.has c i = true ∧ f.eval db i = true)) ∧
        ((∃ σ, Sat db (X.T.root c) e σ ∧ σ (X.T.root c) = i) →
          ∃ m, get X.T db (X.T.root c) i = .ok m ∧ LeafRow db m i ∧ c ∈ X.T.anc m) := by
  obtain ⟨e, hrun, hsem⟩ := selInit_select X h hreg w c f oc hregAll hf
  refine ⟨e, hrun, ?_⟩
  intro db inv i
  have hA := (hsem db).1 i
  have hown := C15_child_select_only_own_kind X.T h db inv c f i
  have hnone : (selectRow X.T db c f i).isSome = true ↔ (db.has c i = true ∧ f.eval db i = true) := by
    have := hown.1
    cases hs : selectRow X.T db c f i with
    | none => rw [hs] at this; simpa using this.1 rfl
    | some r =>
      rw [hs] at this
      simp only [Option.isSome_some, true_iff]
      apply Classical.byContradiction
      intro hn
      have := this.2 hn
      cases this
  refine ⟨hA.trans hnone, ?_⟩
  intro hex
  have hsome := hA.1 hex
  cases hs : selectRow X.T db c f i with
  | none => rw [hs] at hsome; cases hsome
  | some r =>
    obtain ⟨m, hr, hleaf, hcm⟩ := hown.2 r hs
    refine ⟨m, ?_, hleaf, hcm⟩
    have hsel := selectRow_eq h inv c f i
    rw [hs] at hsel
    by_cases hc : (db.has c i && f.eval db i) = true
    · simp only [hc, if_true, Option.some.injEq] at hsel
      rw [← hsel, hr]
    · simp [hc] at hsel

/-- **the query `cls.selectBy(**kw)` runs** (source class: `cls` itself; clause: the conjunction of `column == value`
    over own and inherited columns): the rows of the query the translated constructor builds are exactly the ids the hand
    model's `selectByRow` selects (join from `cls` up to the topmost class mentioned), each id delivered by ONE row -/
theorem C15_translated_selectInit_selectBy_eq_model (X : SCtx) (h : X.T.WF) (hreg : X.reg.Nodup) (w : SW) (c : Nat)
    (kvs : List (Nat × Nat × Val)) (oc : Option Nat)
    (hregAll : ∀ a, a ∈ X.T.anc c → a ∈ X.reg) (hk : ∀ y, y ∈ kvs → y.1 ∈ X.T.anc c) :
    ∃ e, selInitX X w c (.sql (byClause kvs)) (opsOf oc) = .ret { w with made := some ⟨c, e, oc.getD X.dflt⟩ } .none ∧
      ∀ db : DB,
        (∀ i, (∃ σ, Sat db c e σ ∧ σ c = i) ↔ (selectByRow X.T db c kvs i).isSome = true) ∧
        (∀ σ σ', Sat db c e σ → Sat db c e σ' → σ c = σ' c → ∀ a, a ∈ sqlTables e ++ [c] → σ a = σ' a) :=
  selInit_selectBy X h hreg w c kvs oc hregAll hk

/-- `C15_child_selectBy_only_own_kind` about the translated source: with no orphans the query built for
    `cls.selectBy(**kw)` returns exactly the ids with a row in `cls`'s own table whose (own and inherited) columns hold
    the given values -/
theorem C15_translated_child_selectBy_own_kind (X : SCtx) (h : X.T.WF) (hreg : X.reg.Nodup) (w : SW) (c : Nat)
    (kvs : List (Nat × Nat × Val)) (oc : Option Nat)
    (hregAll : ∀ a, a ∈ X.T.anc c → a ∈ X.reg) (hk : ∀ y, y ∈ kvs → y.1 ∈ X.T.anc c) :
    ∃ e, selInitX X w c (.sql (byClause kvs)) (opsOf oc) = .ret { w with made := some ⟨c, e, oc.getD X.dflt⟩ } .none ∧
      ∀ db : DB, NoOrphan X.T db → ∀ i,
        ((∃ σ, Sat db c e σ ∧ σ c = i) ↔ (db.has c i = true ∧ kvsHold db i kvs = true)) := by
  obtain ⟨e, hrun, hsem⟩ := selInit_selectBy X h hreg w c kvs oc hregAll hk
  refine ⟨e, hrun, ?_⟩
  intro db inv i
  refine ((hsem db).1 i).trans ?_
  rw [selectByRow_eq h inv c kvs i]
  by_cases hc : (db.has c i && kvsHold db i kvs) = true
  · simp only [hc, if_true, Option.isSome_some, true_iff]
    simpa using hc
  · simp only [hc]
    simp only [Bool.and_eq_true] at hc
    simp [hc]

/-- `C15_fetch_most_derived` about the translated source: with no orphans (and the tag column only where the class has
    one), the translated `get` entered through ANY class `e` of the hierarchy — calling itself down the `childName` chain
    and up the `_parent` chain — raises `SQLObjectNotFound` exactly when `e`'s table has no row `i`, and otherwise returns
    the instance of the unique most-derived class `m` (a leaf row, `e` on its chain), the same through every level -/
theorem C15_translated_fetch_most_derived (X : Ctx) (h : X.T.WF) (w : XW) (k e i : Nat)
    (inv : NoOrphan X.T (w.cur k)) (hcold : ∀ a, w.par k a i = .none)
    (htag : ∀ c r, w.cur k c i = some r → X.T.inh c = false → r.child = none) :
    ((w.cur k).has e i = false → ∃ w', w'.cur = w.cur ∧ getC X w e i (.conn k) = .exc w' ⟨.notFound, 0⟩) ∧
    ((w.cur k).has e i = true → ∃ w' m, w'.cur = w.cur ∧ getC X w e i (.conn k) = .ret w' (.inst k m i) ∧
        LeafRow (w.cur k) m i ∧ e ∈ X.T.anc m ∧
        ∀ e', X.T.root e' = X.T.root e → (w.cur k).has e' i = true →
          ∃ w'', getC X w e' i (.conn k) = .ret w'' (.inst k m i)) := by
  obtain ⟨w', hw', hget⟩ := C15_translated_get_eq_model X h w k e i hcold htag
  have hmd := C15_fetch_most_derived X.T h (w.cur k) inv e i
  constructor
  · intro hno
    rw [hmd.1 hno] at hget
    exact ⟨w', hw', hget⟩
  · intro hrow
    obtain ⟨m, hm, hleaf, hem, hall⟩ := hmd.2 hrow
    rw [hm] at hget
    refine ⟨w', m, hw', hget, hleaf, hem, ?_⟩
    intro e' hroot hrow'
    obtain ⟨w'', _, hget'⟩ := C15_translated_get_eq_model X h w k e' i hcold htag
    rw [hall e' hroot hrow'] at hget'
    exact ⟨w'', hget'⟩

/-- `clause=None` (what `selectBy()` without keywords and `select()` pass) and `clause='all'`: the translated constructor
    runs as for `SQLTrueClause` — so `C15_translated_selectInit_selectBy_eq_model` with `kvs = []` covers `cls.selectBy()` -/
theorem C15_translated_selectInit_all (X : SCtx) (w : SW) (s : Nat) (ops cl : SVal) (hcl : cl = .none ∨ cl = .str "all") :
    selInitX X w s cl ops = selInitX X w s (.sql .tt) ops :=
  selInitX_all X w s ops cl hcl

/-- **`cls.selectBy(connection, **kw)`, translated, for all inputs**: the three loops of the translated `selectBy`
    (foreign-key name table over the class chain, one `getattr(cls.q, name) == value` per keyword, `reduce(AND, …)`)
    reduce to one call of the translated `InheritableSelectResults.__init__` — source class `cls`, clause `byClause kvs`
    (None without keywords), the connection given (else the class's) -/
theorem C15_translated_selectBy_reduces (X : SCtx) (h : X.T.WF) (w : SW) (c : Nat) (oc : Option Nat)
    (kvs : List (Nat × Nat × Val)) (hk : ∀ y, y ∈ kvs → attrOK X.T c y.1 y.2.1 = true) :
    selectByX X w c (connValOf oc) kvs =
      match selInitX X w c (byClauseVal kvs) (opsOf (some (oc.getD X.dflt))) with
      | .ret w' _ => .ret w' (.ref 10 0)
      | r => r :=
  selectByX_eq X h w c oc kvs hk

/-- … and against the hand model: the select object `selectBy` returns runs a query whose rows are exactly the ids
    `selectByRow` selects (own kind and descendants, own and inherited columns), one row per id -/
theorem C15_translated_selectBy_eq_model (X : SCtx) (h : X.T.WF) (hreg : X.reg.Nodup) (w : SW) (c : Nat) (oc : Option Nat)
    (kvs : List (Nat × Nat × Val)) (hregAll : ∀ a, a ∈ X.T.anc c → a ∈ X.reg)
    (hk : ∀ y, y ∈ kvs → attrOK X.T c y.1 y.2.1 = true) :
    ∃ e, selectByX X w c (connValOf oc) kvs = .ret { w with made := some ⟨c, e, oc.getD X.dflt⟩ } (.ref 10 0) ∧
      ∀ db : DB,
        (∀ i, (∃ σ, Sat db c e σ ∧ σ c = i) ↔ (selectByRow X.T db c kvs i).isSome = true) ∧
        (∀ σ σ', Sat db c e σ → Sat db c e σ' → σ c = σ' c → ∀ a, a ∈ sqlTables e ++ [c] → σ a = σ' a) :=
  selectByX_model X h hreg w c oc kvs hregAll hk

/-- **`cls.by<Column>(value)` through any class of the hierarchy** (`SQLObject._SO_fetchAlternateID` calls
    `cls._findAlternateID(name, dbName, value, connection)` with `cls` the class the method is CALLED through, not the
    declaring one; that part of `main.py` is the interface: empty result → `SQLObjectNotFound`, else the object): the
    translated `InheritableSQLObject._findAlternateID` runs ONE translated `selectBy` on `cls` itself — the query's rows
    are exactly the hand model's `byAltRow` ids — and returns the first instance delivered with its id, or the empty
    result.  `ids`: the ids of the rows in the order the database returns them (interface) -/
theorem C15_translated_byAlternate_eq_model (X : SCtx) (h : X.T.WF) (hreg : X.reg.Nodup) (ids : List Nat) (w : SW)
    (c a k : Nat) (v : Val) (oc : Option Nat) (hregAll : ∀ x, x ∈ X.T.anc c → x ∈ X.reg)
    (hattr : attrOK X.T c a k = true)
    (hfirst : ∀ j, ids.head? = some j → ∃ m, get X.T (w.cur (oc.getD X.dflt)) c j = .ok m) :
    ∃ e, findAltX X ids w c a k v (connValOf oc) =
        .ret { w with made := some ⟨c, e, oc.getD X.dflt⟩ }
          (findAltRes X.T (w.cur (oc.getD X.dflt)) (oc.getD X.dflt) c ids) ∧
      ∀ db : DB,
        (∀ i, (∃ σ, Sat db c e σ ∧ σ c = i) ↔ (byAltRow X.T db c a k v i).isSome = true) ∧
        (∀ σ σ', Sat db c e σ → Sat db c e σ' → σ c = σ' c → ∀ x, x ∈ sqlTables e ++ [c] → σ x = σ' x) :=
  findAltX_eq X h hreg ids w c a k v oc hregAll hattr hfirst

/-- `C15_by_alternate_id_only_own_kind` about the translated source: with no orphans the query `cls.by<Column>(v)` runs
    has a row for id `i` exactly when `cls`'s OWN table has a row `i` whose (own or inherited) column holds `v` — a value
    that belongs to an object of a sibling kind or of a proper ancestor kind only is NOT found through `cls` -/
theorem C15_translated_byAlternate_own_kind (X : SCtx) (h : X.T.WF) (hreg : X.reg.Nodup) (ids : List Nat) (w : SW)
    (c a k : Nat) (v : Val) (oc : Option Nat) (hregAll : ∀ x, x ∈ X.T.anc c → x ∈ X.reg)
    (hattr : attrOK X.T c a k = true)
    (hfirst : ∀ j, ids.head? = some j → ∃ m, get X.T (w.cur (oc.getD X.dflt)) c j = .ok m) :
    ∃ e r, findAltX X ids w c a k v (connValOf oc) = .ret { w with made := some ⟨c, e, oc.getD X.dflt⟩ } r ∧
      ∀ db : DB, NoOrphan X.T db → ∀ i,
        ((∃ σ, Sat db c e σ ∧ σ c = i) ↔ (db.has c i = true ∧ look db i a k = v)) := by
  obtain ⟨e, hrun, hsem⟩ := findAltX_eq X h hreg ids w c a k v oc hregAll hattr hfirst
  refine ⟨e, _, hrun, ?_⟩
  intro db inv i
  refine ((hsem db).1 i).trans ?_
  have hown := (C15_by_alternate_id_only_own_kind X.T h db inv c a k v i).1
  cases hb : byAltRow X.T db c a k v i with
  | none =>
    rw [hb] at hown
    simp only [Option.isSome_none, Bool.false_eq_true, false_iff]
    exact hown.1 rfl
  | some r =>
    rw [hb] at hown
    simp only [Option.isSome_some, true_iff]
    apply Classical.byContradiction
    intro hn
    have := hown.2 hn
    cases this

/-- the translated nested functions `_get_patched` / `_patch_id_clause` of `select` (mutual recursion, the clause changed
    in place = written back to the caller, sound when the clause object is not shared) compute `patchSql` — the id column
    of `cls` becomes the parent's in every `SQLOp` reachable through `SQLOp`s, not below a `NOT` — for EVERY clause,
    given enough levels of recursion -/
theorem C15_translated_select_patch_eq (c p : Nat) (e : Sql) : ∃ N, ∀ L, N ≤ L →
    cProc L "_patch_id_clause" [.sql e, .fldId c, .fldId p] = .ok (.sql (patchSql c p e), .none) :=
  patch_eq c p e

/-- **`cls.select(e, connection=…)`, translated, for every clause and every class forest**: the clause is patched,
    `AND parent.childName == cls` is added (the test alone for the TRUE clause), the call is delegated up the class chain
    with `childUpdate=False` and ends in ONE call of the translated `InheritableSelectResults.__init__` on the root class -/
theorem C15_translated_select_reduces (X : SCtx) (h : X.T.WF) (w : SW) (c : Nat) (e : Sql) (oc : Option Nat) :
    ∃ N, ∀ n, N ≤ n →
      selectN X n (c + 1) w c (.sql e) (opsOf oc) = selFin X w (X.T.root c) (.sql (selClauseR X.T c e)) oc :=
  selectN_eq X h w c e oc

/-- **against the hand model, for ARBITRARY clauses under tables / meaning hypotheses**: whenever the clause finally
    handed on (`selClauseR`) uses exactly the tables `selNeeded` of a filter `f` and means `kindOk ∧ f` on a joined row,
    the select object returned runs a query whose rows are exactly the ids `selectRow` selects, one row per id -/
theorem C15_translated_select_eq_model (X : SCtx) (h : X.T.WF) (hreg : X.reg.Nodup) (w : SW) (c : Nat) (f : Filter)
    (e : Sql) (oc : Option Nat) (hregAll : ∀ a, a ∈ X.T.anc c → a ∈ X.reg) (hf : ∀ a, a ∈ f.classes → a ∈ X.T.anc c)
    (hu : ∀ x, x ∈ sqlTables (selClauseR X.T c e) ++ [X.T.root c] ↔ selNeeded X.T c f x = true)
    (hev : ∀ (db : DB) (i : Nat), sqlEval db (fun _ => i) (selClauseR X.T c e) = (kindOk X.T db c i && f.eval db i)) :
    ∃ g N, (∀ n, N ≤ n → selectN X n (c + 1) w c (.sql e) (opsOf oc) =
        .ret { w with made := some ⟨X.T.root c, g, oc.getD X.dflt⟩ } (.ref 10 0)) ∧
      ∀ db : DB,
        (∀ i, (∃ σ, Sat db (X.T.root c) g σ ∧ σ (X.T.root c) = i) ↔ (selectRow X.T db c f i).isSome = true) ∧
        (∀ σ σ', Sat db (X.T.root c) g σ → Sat db (X.T.root c) g σ' → σ (X.T.root c) = σ' (X.T.root c) →
          ∀ a, a ∈ sqlTables g ++ [X.T.root c] → σ a = σ' a) :=
  select_model X h hreg w c f e oc hregAll hf hu hev

/-- … instantiated: the clause of a filter over own and inherited columns and the class's id (`sqlOf c f`), no id
    comparison below a NOT (there `_patch_id_clause` leaves the subclass's id column in place: same rows without orphans,
    but a different join) — the hypotheses above hold, for the TRUE clause too -/
theorem C15_translated_select_filter_eq_model (X : SCtx) (h : X.T.WF) (hreg : X.reg.Nodup) (w : SW) (c : Nat) (f : Filter)
    (oc : Option Nat) (hregAll : ∀ a, a ∈ X.T.anc c → a ∈ X.reg) (hf : ∀ a, a ∈ f.classes → a ∈ X.T.anc c)
    (hid : idOutsideNot f = true) :
    ∃ g N, (∀ n, N ≤ n → selectN X n (c + 1) w c (.sql (sqlOf c f)) (opsOf oc) =
        .ret { w with made := some ⟨X.T.root c, g, oc.getD X.dflt⟩ } (.ref 10 0)) ∧
      ∀ db : DB,
        (∀ i, (∃ σ, Sat db (X.T.root c) g σ ∧ σ (X.T.root c) = i) ↔ (selectRow X.T db c f i).isSome = true) ∧
        (∀ σ σ', Sat db (X.T.root c) g σ → Sat db (X.T.root c) g σ' → σ (X.T.root c) = σ' (X.T.root c) →
          ∀ a, a ∈ sqlTables g ++ [X.T.root c] → σ a = σ' a) :=
  select_filter_model X h hreg w c f oc hregAll hf hid

/-! ### Non-vacuity: the translated constructor runs (no `stuck`) on the three-level hierarchy `T0` -/

/-- `K3.select(K0.col0 >= 0, connection=1)` → source `K0`, clause `K0.col0 >= 0 AND K1.childName = 'K3'`: one join
    `K1.id = K0.id` is added (the registry yields the classes in the order 3, 0, 5, 1, 2, 4) -/
example : (match selInitX ⟨T0, 0, [3, 0, 5, 1, 2, 4]⟩ ⟨fun _ => db0, none⟩ 0
      (.sql (selClause T0 3 (.attr 0 0 .ge 0))) (opsOf (some 1)) with
    | .ret w _ => w.made
    | _ => none) = some ⟨0, .and (.and (.col 0 0 .ge 0) (.kind 1 3)) (.idEq 1 0), 1⟩ := by decide +kernel
/-- `K3.selectBy(<column 1 of K0> = 1)` → source `K3`: joins `K3.id = K1.id AND K1.id = K0.id` -/
example : (match selInitX ⟨T0, 0, [0, 1, 2, 3, 4, 5]⟩ ⟨fun _ => db0, none⟩ 3 (.sql (.col 0 1 .eq 1)) (opsOf none) with
    | .ret w _ => w.made
    | _ => none) = some ⟨3, .and (.and (.col 0 1 .eq 1) (.idEq 3 1)) (.idEq 1 0), 0⟩ := by decide +kernel
/-- the hypotheses of `C15_translated_selectInit_eq_model` are satisfiable and its conclusion is not vacuous:
    `K1.select(K0.col0 >= 0)` on `db0` — the query the translated constructor builds has a row for id 1 (a `K3`) and for
    id 2 (a `K5`), none for id 3 (a `K2`, a sibling kind) -/
example : ∃ e, selInitX ⟨T0, 0, [3, 0, 5, 1, 2, 4]⟩ ⟨fun _ => db0, none⟩ 0 (.sql (selClause T0 1 (.attr 0 0 .ge 0)))
      (opsOf none) = .ret ⟨fun _ => db0, some ⟨0, e, 0⟩⟩ .none ∧
    (∃ σ, Sat db0 0 e σ ∧ σ 0 = 1) ∧ (∃ σ, Sat db0 0 e σ ∧ σ 0 = 2) ∧ ¬ (∃ σ, Sat db0 0 e σ ∧ σ 0 = 3) := by
  obtain ⟨e, hrun, hsem⟩ := C15_translated_selectInit_eq_model ⟨T0, 0, [3, 0, 5, 1, 2, 4]⟩ T0_wf (by decide)
    ⟨fun _ => db0, none⟩ 1 (.attr 0 0 .ge 0) none (by decide) (by decide)
  refine ⟨e, hrun, ?_, ?_, ?_⟩
  · exact ((hsem db0).1 1).2 (by decide)
  · exact ((hsem db0).1 2).2 (by decide)
  · intro hex
    have := ((hsem db0).1 3).1 hex
    revert this; decide
/-! ### `InheritableSQLObject.selectBy`, translated: concrete runs (through the translated constructor)

`selectByX` RUNS the translated `selectBy` (foreign-key name table, keyword loop with the `getattr` walk up the parents,
`reduce(AND, …)`, `cls.SelectResultsClass(cls, clause, connection=conn)` = the translated `__init__`).  It is proved equal to the
hand model for all inputs above (`C15_translated_selectBy_eq_model`); these closed runs show the hypotheses are satisfiable
and that a keyword outside the class chain raises AttributeError. -/

/-- `K3.selectBy(<column 1 of K0> = 1, <column 0 of K3> = 30)`: source `K3`, both comparisons, joined up to `K0` -/
example : (match selectByX ⟨T0, 0, [0, 1, 2, 3, 4, 5]⟩ ⟨fun _ => db0, none⟩ 3 .none [(0, 1, 1), (3, 0, 30)] with
    | .ret w v => (w.made, v)
    | _ => (none, .none)) =
    (some ⟨3, .and (.and (.and (.col 0 1 .eq 1) (.col 3 0 .eq 30)) (.idEq 3 1)) (.idEq 1 0), 0⟩, .ref 10 0) := by
  decide +kernel
example : (match selectByX ⟨T0, 0, [5, 4, 3, 2, 1, 0]⟩ ⟨fun _ => db0, none⟩ 5 (.conn 2) [] with
    | .ret w v => (w.made, v)
    | _ => (none, .none)) = (some ⟨5, .tt, 2⟩, .ref 10 0) := by decide +kernel
/-- a keyword that is no attribute of the class or an ancestor: AttributeError, no query -/
example : (match selectByX ⟨T0, 0, [5, 4, 3, 2, 1, 0]⟩ ⟨fun _ => db0, none⟩ 1 .none [(3, 0, 1)] with
    | .exc w e => (w.made, some e.cls)
    | _ => (none, none)) = (none, some .attributeError) := by decide +kernel
/-- `K3.by<column 1 of K0>(1)` on `db0` with the matching row id 1 delivered: `([1], <the K3 of id 1>)`; through the
    sibling `K2` the same value would be searched in `K2`'s own join -/
example : (match findAltX ⟨T0, 0, [0, 1, 2, 3, 4, 5]⟩ [1] ⟨fun _ => db0, none⟩ 3 0 1 1 .none with
    | .ret w v => (w.made.map (·.src), v)
    | _ => (none, .none)) = (some 3, .pair (.cons (.nat 1) .nil) (.inst 0 3 1)) := by decide +kernel
/-! ### `InheritableSQLObject.select`, translated (with `_get_patched` / `_patch_id_clause`): concrete runs

`selectN` RUNS the translated `select` calling itself up the class chain (`childUpdate=False`) and, at the root, the
translated constructor; the nested functions are translated as blocks of their own (`select_get_patched`,
`select_patch_id_clause`, in-out parameter, `Lemmas/InhSelXPatch*.lean`).  The all-inputs theorems are above (`C15_translated_select_*`); these closed runs show the
hypotheses are satisfiable and pin the behaviour below a NOT and at a root class. -/

/-- `K3.select(AND(K3.q.id >= 2, K0.q.<col 0> >= 0), connection=1)`: the id comparison is patched onto `K1`'s id column
    (in place, below the AND), `K1.childName == 'K3'` is added, the query is delegated `K3 → K1 → K0` and built by the
    translated constructor on the root with the join `K1.id = K0.id` -/
example : (match selectN ⟨T0, 0, [3, 0, 5, 1, 2, 4]⟩ 8 4 ⟨fun _ => db0, none⟩ 3
      (.sql (.and (.idc 3 .ge 2) (.col 0 0 .ge 0))) (.cons (.pair (.str "connection") (.conn 1)) .nil) with
    | .ret w v => (w.made, v)
    | _ => (none, .none)) =
    (some ⟨0, .and (.and (.and (.idc 1 .ge 2) (.col 0 0 .ge 0)) (.kind 1 3)) (.idEq 1 0), 1⟩, .ref 10 0) := by
  decide +kernel
/-- `K3.select()`: the clause becomes the `childName` test alone -/
example : (match selectN ⟨T0, 0, [3, 0, 5, 1, 2, 4]⟩ 8 4 ⟨fun _ => db0, none⟩ 3 .none .nil with
    | .ret w v => (w.made, v)
    | _ => (none, .none)) = (some ⟨0, .and (.kind 1 3) (.idEq 1 0), 0⟩, .ref 10 0) := by decide +kernel
/-- below a `NOT` (an `SQLPrefix`, no `SQLOp`) the id column is NOT patched; the root class selects directly -/
example : (match selectN ⟨T0, 0, [3, 0, 5, 1, 2, 4]⟩ 8 4 ⟨fun _ => db0, none⟩ 1
      (.sql (.not (.idc 1 .eq 2))) .nil, selectN ⟨T0, 0, [3, 0, 5, 1, 2, 4]⟩ 8 4 ⟨fun _ => db0, none⟩ 0
      (.sql (.idc 0 .eq 2)) .nil with
    | .ret w _, .ret w' _ => (w.made, w'.made)
    | _, _ => (none, none)) =
    (some ⟨0, .and (.and (.not (.idc 1 .eq 2)) (.kind 0 1)) (.idEq 1 0), 0⟩, some ⟨0, .idc 0 .eq 2, 0⟩) := by decide +kernel
/-- the class's id column as the RIGHT operand (`K0.q.id == K3.q.id`) is patched as well -/
example : (match selectN ⟨T0, 0, [3, 0, 5, 1, 2, 4]⟩ 8 4 ⟨fun _ => db0, none⟩ 3 (.sql (.idEq 0 3)) .nil with
    | .ret w _ => w.made
    | _ => none) = some ⟨0, .and (.and (.idEq 0 1) (.kind 1 3)) (.idEq 1 0), 0⟩ := by decide +kernel
end SqlObjVerif.Inherit

namespace SqlObjVerif.InhIter
open SqlObjVerif.PyIS

/-! ## `InheritableIteration.fetchChildren`, translated, with the two cursors explicit: concrete runs

`fetchChildrenX` (`Model/InhIterX.lean`) RUNS the translated `fetchChildren`; `IW.c1` are the rows still pending on the
iteration's OWN cursor (the batches to come), `IW.c2` those on the cursor `rawconn.cursor()` opens for the prefetch;
`_executeRetry(rawconn, cursor, query)` replaces what is pending on THAT cursor.  `fetchChildren` is proved for every batch below. -/

/-- **`InheritableIteration.fetchChildren`, translated, for every batch** (any rows, any number of kinds, any answers of
    the database): the ids of the batch are grouped by `childName` in order of first appearance (`groupL`), each group is
    fetched with ONE query (`id = i` for one id, `IN` otherwise) executed on the SECOND cursor and its rows are stored by
    id (an empty row as `(None,)`): `childrenOf`.  The rows still pending on the iteration's OWN cursor (`c1`) and the batch
    (`results`) are exactly what they were — re-using `self.cursor` for the prefetch (seeded changes C10-f1 / C11-f1 /
    C15-e3 / C15-f2) makes this false: `_executeRetry` replaces what is pending on the cursor it is given -/
theorem C15_translated_fetchChildren_eq_model (X : ICtx) (crows : Nat → Sql → List (Nat × Val))
    (hrf : ∀ d e, X.rowsFor d e = (crows d e).map crowV) (hgood : ∀ d e r, r ∈ crows d e → isListVal r.2 = true)
    (n : Nat) (hcni : X.cni = some n) (w : IW) (rs : List (Nat × List Val × Option Nat))
    (hres : w.results = Val.ofList (rs.map rowOf)) (hlen : ∀ r, r ∈ rs → r.2.1.length = n) :
    fetchChildrenX X w =
      .ret { w with c2 := [], children := childrenOf crows (rs.foldl groupL []) .nil } .none :=
  fetchChildrenX_eq X crows hrf hgood n hcni w rs hres hlen

/-- **`InheritableIteration.next`, translated, one step inside a batch**: with a row left in `self._results` that row —
    and no other — is delivered: `sourceClass.get` is handed its id, the rest of the row as `selectResults` and the child row
    prefetched for that id (which leaves `_childrenResults`; None when there is none); the batch shrinks by that row; neither
    cursor is touched, so the rows pending beyond the batch stay pending.  (The other steps and the drain theorem: below.) -/
theorem C15_translated_next_batch_step (X : NCtx) (w : IW) (r : Nat × List Val × Option Nat) (rest : List Val)
    (hres : w.results = .cons (rowOf r) (Val.ofList rest)) (hch : isListVal w.children = true) :
    nextX X w = .ret { w with results := Val.ofList rest, children := chAfter w.children r.1 }
      (X.getRes r.1 (Val.ofList (r.2.1 ++ [tagV r.2.2])) (crOf w.children r.1)) :=
  nextX_batch X w r rest hres hch

/-- the database of the witness: class 3 has rows 1 (one column) and 2 (no column value), class 2 has row 4 -/
def X1 : ICtx :=
  { cni := some 1, k := 0,
    rowsFor := fun d e =>
      if d = 3 ∧ e = .idIn 3 [1, 2] then [crowV (1, .cons (.int 30) .nil), crowV (2, .nil)]
      else if d = 2 ∧ e = .idc 2 .eq 4 then [crowV (4, .cons (.int 9) .nil)]
      else [] }

/-- a batch of four root rows (two `K3`, one `K2`, one plain) with ONE MORE ROW still pending on the iteration's own
    cursor: the prefetch runs one `IN` query and one `=` query on the SECOND cursor, stores the child rows by id (an
    empty row as `(None,)`), and leaves the pending row where it is — the next `fetchmany()` will deliver it -/
example : (match fetchChildrenX X1
      { c1 := [rowV 7 [.int 0] none], c2 := [], children := .nil,
        results := Val.ofList [rowV 1 [.int 5] (some 3), rowV 2 [.int 6] (some 3), rowV 4 [.int 1] (some 2),
                               rowV 5 [.int 0] none] } with
    | .ret w _ => (w.c1, w.c2, w.children)
    | _ => ([], [], .none)) =
    ([rowV 7 [.int 0] none], [],
     Val.ofList [.pair (.nat 1) (.cons (.int 30) .nil), .pair (.nat 2) (.cons .none .nil),
                 .pair (.nat 4) (.cons (.int 9) .nil)]) := by decide +kernel
/-- a source class without `childName` column: nothing is prefetched, no cursor is opened -/
example : (match fetchChildrenX { X1 with cni := none }
      { c1 := [rowV 7 [] none], c2 := [], children := .cons (.pair (.nat 1) .nil) .nil, results := .nil } with
    | .ret w _ => (w.c1, w.children)
    | _ => ([], .none)) = ([rowV 7 [] none], .nil) := by decide +kernel
/-- **`InheritableIteration`, translated, drained: for EVERY batch size ≥ 1** (`X.batch`), any selected root rows `rows`
    pending on the iteration's own cursor, any answers of the database to the prefetch queries: calling the translated
    `next()` until it raises delivers exactly ONE `sourceClass.get(id, selectResults=<rest of the row>, childResults=cr,
    connection=dbconn)` per selected root row, in the order of the rows, each once — also for the rows beyond the first
    batch (`fetchmany()` takes them from the own cursor batch by batch; the translated `fetchChildren` runs on the SECOND
    cursor and leaves them pending) — and ends with `StopIteration`.  `crs`: the child rows handed to `get` (what the
    prefetch of the row's batch stored for its id, None when nothing; `C15_translated_fetchChildren_eq_model` says what
    that is).  With the prefetch executed on the iteration's own cursor (seeded changes C10-f1 / C11-f1 / C15-e3 /
    C15-f2) the rows pending beyond the current batch are lost and this theorem fails (`next_refill` no longer holds) -/
theorem C15_translated_iteration_eq_model (X : NCtx) (hB : 1 ≤ X.batch) (crows : Nat → Sql → List (Nat × Val))
    (hrf : ∀ d e, X.I.rowsFor d e = (crows d e).map crowV) (hgood : ∀ d e r, r ∈ crows d e → isListVal r.2 = true)
    (rows : List (Nat × List Val × Option Nat)) (hok : RowsOK X.I rows) (w : IW)
    (hres : w.results = .nil) (hc1 : w.c1 = rows.map rowOf) (hch : isListVal w.children = true)
    (fuel : Nat) (hf : rows.length + 1 ≤ fuel) :
    ∃ crs : List Val, crs.length = rows.length ∧ drain X fuel w = (List.zipWith (deliver X) rows crs, true) := by
  have := drain_all X hB crows hrf hgood rows.length rows (Nat.le_refl _) hok [] w ⟨hres, hc1, hch⟩ fuel
    (by simpa using hf)
  simpa using this

/-- the same from the middle of an iteration: `batch` the rows left in the current batch, `pend` those still pending -/
theorem C15_translated_iteration_resumes (X : NCtx) (hB : 1 ≤ X.batch) (crows : Nat → Sql → List (Nat × Val))
    (hrf : ∀ d e, X.I.rowsFor d e = (crows d e).map crowV) (hgood : ∀ d e r, r ∈ crows d e → isListVal r.2 = true)
    (batch pend : List (Nat × List Val × Option Nat)) (hok : RowsOK X.I pend) (w : IW) (hs : Stands w batch pend)
    (fuel : Nat) (hf : batch.length + pend.length + 1 ≤ fuel) :
    ∃ crs : List Val, crs.length = (batch ++ pend).length ∧
      drain X fuel w = (List.zipWith (deliver X) (batch ++ pend) crs, true) :=
  drain_all X hB crows hrf hgood pend.length pend (Nat.le_refl _) hok batch w hs fuel hf

/-- five selected root rows, batch size 2: three batches, the prefetched child rows arrive with their ids -/
example : drain
    { I := { cni := some 1, k := 0, rowsFor := fun d e => if d = 3 ∧ e = .idIn 3 [1, 2] then [crowV (1, .cons (.int 30) .nil), crowV (2, .nil)]
                                         else if d = 3 ∧ e = .idc 3 .eq 7 then [crowV (7, .cons (.int 31) .nil)] else [] },
      batch := 2, src := 0, getRes := fun j _ cr => .pair (.nat j) cr } 9
    { c1 := [rowV 1 [.int 5] (some 3), rowV 2 [.int 6] (some 3), rowV 4 [.int 1] none, rowV 7 [.int 2] (some 3),
             rowV 9 [.int 0] none],
      c2 := [], results := .nil, children := .nil } =
    ([.pair (.nat 1) (.cons (.int 30) .nil), .pair (.nat 2) (.cons .none .nil), .pair (.nat 4) .none,
      .pair (.nat 7) (.cons (.int 31) .nil), .pair (.nat 9) .none], true) := by decide +kernel
end SqlObjVerif.InhIter
