import SqlObjVerif.Lemmas.Hub
import SqlObjVerif.Lemmas.HubX
import SqlObjVerif.Lemmas.TxXCommit
/-!
# C08 — `doInTransaction` is all-or-nothing, re-raises the same exception, always restores the hub

Property theorems only, about `Model/Hub.lean`.  Quantified over every world (any rows, any bindings of any
number of threads, any pool counts), every calling thread, every body (any number of create / update / delete
steps, an exception of either kind raised after any prefix, or by the library in the middle of the body).
-/
namespace SqlObjVerif.Hub

/-- **C08.**  If the calling thread's binding (thread-level, else process-level) is a database connection:
    * the body's effect is all or nothing and the answer is the body's: `specRun` (the body alone on the
      database) succeeds ⇒ its result is the committed state and the body's value is returned; it raises `e` ⇒
      the committed state is unchanged and *the same* exception `e` (kind and identity) is raised;
    * afterwards the hub is exactly what it was: the caller resolves to the same connection at the same level,
      and no other thread's binding changed;
    * the transaction's low-level connection is back in the pool — at once for a return or an `Exception`;
      for a `BaseException` that is not an `Exception`, as soon as the traceback's reference to the
      transaction dies (`collect`; `Transaction.__del__`), and nothing was committed meanwhile. -/
theorem C08_doInTransaction_atomic_restores (w : World) (tid : Nat) (b : Body) (lvl : Level) (c : Nat)
    (hres : w.hub.resolve tid = some (lvl, .base c)) :
    (match specRun w.db b with
     | .ok v' => (doInTx w tid b).2 = .returned b.ret ∧ (doInTx w tid b).1.db = v'
     | .error e => (doInTx w tid b).2 = .raised e ∧ (doInTx w tid b).1.db = w.db)
    ∧ (doInTx w tid b).1.hub = w.hub
    ∧ ((∀ e, (doInTx w tid b).2 = .raised e → e.kind = .exc) →
        (doInTx w tid b).1.inUse = w.inUse ∧ (doInTx w tid b).1.zombies = w.zombies)
    ∧ (w.zombies = [] →
        (collect (doInTx w tid b).1).inUse = w.inUse ∧ (collect (doInTx w tid b).1).zombies = []
        ∧ (collect (doInTx w tid b).1).db = (doInTx w tid b).1.db
        ∧ (collect (doInTx w tid b).1).hub = w.hub) := by
  have hb := resolve_bind w.hub tid lvl (.base c) (.tx c) hres
  have hrest := bind_bind_restore w.hub tid lvl (.base c) (.tx c) hres
  have key : ∀ steps : List Step,
      (runSteps (w.hub.bind lvl tid (.tx c)) tid ⟨w.db, w.db⟩ steps).1.db = w.db ∧
      (match applySteps w.db steps with
       | .ok v => runSteps (w.hub.bind lvl tid (.tx c)) tid ⟨w.db, w.db⟩ steps = (⟨w.db, v⟩, none)
       | .error e => (runSteps (w.hub.bind lvl tid (.tx c)) tid ⟨w.db, w.db⟩ steps).2 = some e) :=
    fun steps => runSteps_tx _ tid lvl c hb ⟨w.db, w.db⟩ steps
  -- the body's run under the transaction binding, in terms of the specification
  have hrun : (runBody (w.hub.bind lvl tid (.tx c)) tid ⟨w.db, w.db⟩ b).1.db = w.db ∧
      (match specRun w.db b with
       | .ok v => runBody (w.hub.bind lvl tid (.tx c)) tid ⟨w.db, w.db⟩ b = (⟨w.db, v⟩, none)
       | .error e => (runBody (w.hub.bind lvl tid (.tx c)) tid ⟨w.db, w.db⟩ b).2 = some e) := by
    unfold runBody specRun
    cases hra : b.raiseAt with
    | none => exact key b.steps
    | some ne =>
      obtain ⟨n, e⟩ := ne
      simp only
      by_cases hn : n ≤ b.steps.length
      · simp only [hn, if_true]
        have k := key (b.steps.take n)
        cases ha : applySteps w.db (b.steps.take n) with
        | ok v => rw [ha] at k; simp only at k; rw [k.2]; exact ⟨rfl, rfl⟩
        | error e' =>
          rw [ha] at k; simp only at k
          cases hrs : runSteps (w.hub.bind lvl tid (.tx c)) tid ⟨w.db, w.db⟩ (b.steps.take n) with
          | mk r' oe =>
            rw [hrs] at k
            simp only at k
            cases oe with
            | none => simp at k
            | some e'' => simp only; exact ⟨k.1, k.2⟩
      · simp only [hn, if_false]
        exact key b.steps
  unfold doInTx
  simp only [hres, hrest]
  cases hs : specRun w.db b with
  | ok v =>
    rw [hs] at hrun
    simp only at hrun
    simp only [hrun.2]
    refine ⟨by simp, by simp, fun _ => by simp, ?_⟩
    intro hz
    simp [collect, hz]
  | error e =>
    rw [hs] at hrun
    simp only at hrun
    simp only [hrun.2]
    cases hk : e.kind with
    | exc =>
      simp only
      refine ⟨by simp [hrun.1], by simp, fun _ => by simp, ?_⟩
      intro hz
      simp [collect, hz]
    | baseOnly =>
      simp only
      refine ⟨by simp [hrun.1], by simp, ?_, ?_⟩
      · intro h
        have := h e (by simp)
        rw [hk] at this
        cases this
      · intro hz
        simp only [collect, hz, List.foldl_cons, List.foldl_nil]
        exact ⟨upd_upd_restore w.inUse c, by simp, by simp, by simp⟩

/-- corollary in the words of the property: other threads' bindings are untouched and every thread resolves as
    before -/
theorem C08_other_threads_untouched (w : World) (tid : Nat) (b : Body) (lvl : Level) (c : Nat)
    (hres : w.hub.resolve tid = some (lvl, .base c)) (t : Nat) :
    (doInTx w tid b).1.hub.thread t = w.hub.thread t ∧ (doInTx w tid b).1.hub.proc = w.hub.proc
    ∧ (doInTx w tid b).1.hub.resolve t = w.hub.resolve t := by
  have := (C08_doInTransaction_atomic_restores w tid b lvl c hres).2.1
  rw [this]
  exact ⟨rfl, rfl, rfl⟩

/-- the same exception: whatever is raised out of `doInTransaction` is, identity included, what the body raised -/
theorem C08_same_exception (w : World) (tid : Nat) (b : Body) (lvl : Level) (c : Nat)
    (hres : w.hub.resolve tid = some (lvl, .base c)) (e : Exc) :
    (doInTx w tid b).2 = .raised e ↔ specRun w.db b = .error e := by
  have h := (C08_doInTransaction_atomic_restores w tid b lvl c hres).1
  cases hs : specRun w.db b with
  | ok v => rw [hs] at h; simp only at h; rw [h.1]; simp
  | error e' =>
    rw [hs] at h; simp only at h; rw [h.1]
    constructor
    · intro h'; cases h'; rfl
    · intro h'; cases h'; rfl

/-- the pooled low-level connection is left in the mode the connection's `autoCommit` asks for (for every value of
    `autoCommit`; after `collect` in the BaseException-only case) -/
theorem C08_pool_mode_restored (w : World) (tid : Nat) (b : Body) (lvl : Level) (c : Nat)
    (hres : w.hub.resolve tid = some (lvl, .base c)) (hz : w.zombies = []) :
    (collect (doInTx w tid b).1).poolAuto c = w.ac c
    ∧ ∀ c', c' ≠ c → (collect (doInTx w tid b).1).poolAuto c' = w.poolAuto c' := by
  unfold doInTx
  simp only [hres]
  split
  · simp [collect, hz]
    intro c' h1 h2; exact absurd h2 h1
  · rename_i e he
    cases hk : e.kind
    · simp [collect, hz]
      intro c' h1 h2; exact absurd h2 h1
    · simp [collect, hz]
      intro c' h1; simp [h1]

/-- **the body runs inside the transaction**: while the body runs, the calling thread resolves — at the level its
    binding was read from — to the transaction, also when the thread-level and the process-level binding are the
    same connection object; nothing the body does reaches the committed rows before `doInTransaction` commits. -/
theorem C08_body_inside_transaction (w : World) (tid : Nat) (b : Body) (lvl : Level) (c : Nat)
    (hres : w.hub.resolve tid = some (lvl, .base c)) :
    (w.hub.bind lvl tid (.tx c)).resolve tid = some (lvl, .tx c)
    ∧ (runBody (w.hub.bind lvl tid (.tx c)) tid ⟨w.db, w.db⟩ b).1.db = w.db := by
  have hb := resolve_bind w.hub tid lvl (.base c) (.tx c) hres
  refine ⟨hb, ?_⟩
  have key := fun steps => (runSteps_tx _ tid lvl c hb ⟨w.db, w.db⟩ steps).1
  unfold runBody
  cases b.raiseAt with
  | none => exact key _
  | some ne =>
    obtain ⟨n, e⟩ := ne
    simp only
    split
    · have k := key (b.steps.take n)
      cases hrs : runSteps (w.hub.bind lvl tid (.tx c)) tid ⟨w.db, w.db⟩ (b.steps.take n) with
      | mk r' oe => rw [hrs] at k; cases oe <;> exact k
    · exact key _

/-- thread-level and process-level binding set to the SAME connection: the thread level wins on the way in and on
    the way out, and both attributes are afterwards what they were -/
theorem C08_same_connection_both_levels (w : World) (tid : Nat) (b : Body) (c : Nat)
    (ht : w.hub.thread tid = some (.base c)) (hp : w.hub.proc = some (.base c)) :
    w.hub.resolve tid = some (.thread, .base c)
    ∧ (w.hub.bind .thread tid (.tx c)).resolve tid = some (.thread, .tx c)
    ∧ (doInTx w tid b).1.hub.thread tid = some (.base c) ∧ (doInTx w tid b).1.hub.proc = some (.base c) := by
  have hres : w.hub.resolve tid = some (.thread, .base c) := by simp [Hub.resolve, ht]
  have h := (C08_doInTransaction_atomic_restores w tid b .thread c hres).2.1
  exact ⟨hres, resolve_bind w.hub tid .thread (.base c) (.tx c) hres, by rw [h]; exact ht, by rw [h]; exact hp⟩

/-- **several threads, each with its own thread connection, inside `doInTransaction` at the same time.**  For every
    interleaving of the calls' enter and leave moments (any number of threads, any number of calls, any nesting order:
    A-in B-in A-out B-out as well as A-in B-in B-out A-out): a thread inside a call resolves to its own transaction, a
    thread outside a call has exactly its original binding and resolves as before, the process binding is never
    touched, and once every call has left the hub is exactly what it was. -/
theorem C08_overlapping_calls_restore (h0 : Hub) (evs : List Ev)
    (hown : ∀ ev ∈ evs, ∃ c, h0.thread ev.tid = some (.base c)) :
    (∀ t, (HS.run ⟨h0, fun _ => none⟩ evs).frames t = none →
        (HS.run ⟨h0, fun _ => none⟩ evs).hub.thread t = h0.thread t
        ∧ (HS.run ⟨h0, fun _ => none⟩ evs).hub.resolve t = h0.resolve t)
    ∧ (∀ t f, (HS.run ⟨h0, fun _ => none⟩ evs).frames t = some f →
        (HS.run ⟨h0, fun _ => none⟩ evs).hub.resolve t = some (.thread, .tx f.c) ∧ h0.thread t = some (.base f.c))
    ∧ (HS.run ⟨h0, fun _ => none⟩ evs).hub.proc = h0.proc
    ∧ ((∀ t, (HS.run ⟨h0, fun _ => none⟩ evs).frames t = none) → (HS.run ⟨h0, fun _ => none⟩ evs).hub = h0) := by
  have h0i : OvInv h0 ⟨h0, fun _ => none⟩ := ⟨fun _ _ => rfl, fun _ _ h => by simp at h, rfl⟩
  have hi := h0i.run evs hown
  generalize HS.run ⟨h0, fun _ => none⟩ evs = s at hi
  refine ⟨?_, ?_, hi.proc, ?_⟩
  · intro t ht
    have := hi.idle t ht
    exact ⟨this, by simp [Hub.resolve, this, hi.proc]⟩
  · intro t f ht
    obtain ⟨_, hth, _, h0t⟩ := hi.busy t f ht
    exact ⟨by simp [Hub.resolve, hth], h0t⟩
  · intro hall
    apply Hub.ext'
    · funext t; exact hi.idle t (hall t)
    · exact hi.proc

/-! ### Non-vacuity -/
def w0 : World :=
  ⟨fun k => if k = 1 then some 10 else if k = 2 then some 20 else none,
   ⟨fun t => if t = 1 then some (.base 1) else if t = 3 then some (.base 0) else none, some (.base 0)⟩,
   fun _ => 0, [], fun c => c != 1, fun _ => true⟩

-- thread 1 (thread-level binding): body commits
example : (doInTx w0 1 ⟨[.create 3 30, .update 1 11, .delete 2], none, 7⟩).2 = .returned 7 := by decide
example : ((doInTx w0 1 ⟨[.create 3 30, .update 1 11, .delete 2], none, 7⟩).1.db 3,
           (doInTx w0 1 ⟨[.create 3 30, .update 1 11, .delete 2], none, 7⟩).1.db 2) = (some 30, none) := by decide
-- thread 0 (process-level binding): KeyboardInterrupt after two steps: nothing committed, connection released on collect
example : (doInTx w0 0 ⟨[.create 3 30, .update 1 11, .delete 2], some (2, ⟨.baseOnly, 5⟩), 7⟩).2 = .raised ⟨.baseOnly, 5⟩ := by
  decide
example : ((doInTx w0 0 ⟨[.create 3 30, .update 1 11], some (2, ⟨.baseOnly, 5⟩), 7⟩).1.db 3,
           (doInTx w0 0 ⟨[.create 3 30, .update 1 11], some (2, ⟨.baseOnly, 5⟩), 7⟩).1.inUse 0,
           (collect (doInTx w0 0 ⟨[.create 3 30, .update 1 11], some (2, ⟨.baseOnly, 5⟩), 7⟩).1).inUse 0)
          = (none, 1, 0) := by decide
-- the library's own exception from the middle of the body
example : (doInTx w0 1 ⟨[.update 1 11, .create 2 5, .delete 1], none, 7⟩).2 = .raised dupExc := by decide

-- thread 3: thread-level and process-level binding are the same connection 0 (autoCommit on): rollback on Exception
example : (doInTx w0 3 ⟨[.create 3 30, .delete 1], some (2, ⟨.exc, 9⟩), 7⟩).2 = .raised ⟨.exc, 9⟩
    ∧ (doInTx w0 3 ⟨[.create 3 30, .delete 1], some (2, ⟨.exc, 9⟩), 7⟩).1.db 1 = some 10 := by decide
-- connection 1 has autoCommit off: its pooled low-level connection stays in manual-commit mode, and is released
example : ((doInTx w0 1 ⟨[.update 1 11], none, 7⟩).1.poolAuto 1, (doInTx w0 1 ⟨[.update 1 11], none, 7⟩).1.inUse 1)
    = (false, 0) := by decide

-- two threads overlapping, both leave orders: the hub ends as it began, and in between each resolves to its own transaction
example : ((HS.run ⟨w0.hub, fun _ => none⟩ [.enter 1, .enter 3, .leave 1]).hub.resolve 1,
           (HS.run ⟨w0.hub, fun _ => none⟩ [.enter 1, .enter 3, .leave 1]).hub.resolve 3)
    = (some (.thread, .base 1), some (.thread, .tx 0)) := by decide
example : (HS.run ⟨w0.hub, fun _ => none⟩ [.enter 1, .enter 3, .leave 3, .leave 1]).hub.resolve 1 = some (.thread, .base 1)
    ∧ (HS.run ⟨w0.hub, fun _ => none⟩ [.enter 1, .enter 3, .leave 3, .leave 1]).hub.resolve 3 = some (.thread, .base 0) := by
  decide
-- steps through instances obtained before the call: rolled back with everything else on an exception
example : (doInTx w0 1 ⟨[.updateInst 1 200, .deleteInst 2, .create 3 30], some (3, ⟨.exc, 4⟩), 7⟩).2 = .raised ⟨.exc, 4⟩
    ∧ ((doInTx w0 1 ⟨[.updateInst 1 200, .deleteInst 2, .create 3 30], some (3, ⟨.exc, 4⟩), 7⟩).1.db 1,
       (doInTx w0 1 ⟨[.updateInst 1 200, .deleteInst 2, .create 3 30], some (3, ⟨.exc, 4⟩), 7⟩).1.db 2) = (some 10, some 20) := by
  decide
example : ((doInTx w0 1 ⟨[.updateInst 1 200, .deleteInst 2], none, 7⟩).1.db 1,
           (doInTx w0 1 ⟨[.updateInst 1 200, .deleteInst 2], none, 7⟩).1.db 2) = (some 200, none) := by decide

/-! ## The hand model of `doInTransaction` IS the translated source

`vlib/extractors/pytx.py` translates `ConnectionHub.doInTransaction` from /repo's dbconnection.py into a PyTx
program on every run (`Extracted/PyTx.lean`); `doInTransactionX tid b` (`Model/HubX.lean`) RUNS that program from
thread `tid` with body `b`.  `rep w` is the image of a hand-model world (the view of the transaction the call opens
is added), `abs` forgets that view again, `absRes` reads the way the call ended (value / exception, an
AttributeError being the model's "no connection").  The calls into other objects are parameters of the
interpreter, fixed in `Model/HubX.lean` (header: thread-local / process attribute, `transaction()`,
`func(*args, **kw)` = `runBody` through the hub as it is at that moment, `commit(close=True)`, `rollback()`).
A semantic edit of `doInTransaction` (restore only on success, commit in the `except` branch, another rule for the
level, a lost `close=True`, …) changes the translated program and breaks this proof; renaming a local does not. -/

/-- `ConnectionHub.doInTransaction` = `doInTx`: from the image of EVERY world, for every calling thread and every body
    — no binding (AttributeError), thread-level or process-level binding; body returns, raises an `Exception`
    subclass (rolled back, re-raised), raises a BaseException-only exception (not caught, hub restored, the
    transaction left open) — provided the binding is not already a transaction (outside the hand model) -/
theorem C08_translated_doInTransaction_eq_model (w : World) (tid : Nat) (b : Body)
    (hn : ∀ lvl c, w.hub.resolve tid ≠ some (lvl, .tx c)) :
    absRes (doInTransactionX tid b (rep w)) = some (doInTx w tid b) :=
  doInTransactionX_eq w tid b hn

/-- C08 stated about the TRANSLATED program: all-or-nothing, the same exception, the hub exactly as before -/
theorem C08_translated_doInTransaction_atomic_restores (w : World) (tid : Nat) (b : Body) (lvl : Level) (c : Nat)
    (hres : w.hub.resolve tid = some (lvl, .base c)) :
    ∃ w' out, absRes (doInTransactionX tid b (rep w)) = some (w', out) ∧ w'.hub = w.hub ∧
      (match specRun w.db b with
       | .ok v' => out = .returned b.ret ∧ w'.db = v'
       | .error e => out = .raised e ∧ w'.db = w.db) := by
  refine ⟨(doInTx w tid b).1, (doInTx w tid b).2, ?_, ?_, ?_⟩
  · exact doInTransactionX_eq w tid b (fun l c' h => by rw [hres] at h; cases h)
  · exact (C08_doInTransaction_atomic_restores w tid b lvl c hres).2.1
  · exact (C08_doInTransaction_atomic_restores w tid b lvl c hres).1

/-! The interface `t.commit(close=True)` / `t.rollback()` assumed above is, on the side of the low-level connection,
what the TRANSLATED `Transaction.commit` / `rollback` / `_makeObsolete` do (`Model/TxX.lean`, proofs in
`Lemmas/TxX*.lean`, stated against `Model/Tx.lean` in `Props/C07.lean`): the transaction becomes obsolete and its
low-level connection goes back to the pool (`Low.release`: autocommit on again iff the connection's `autoCommit` is
truthy, one connection fewer checked out) — in BOTH cases of `autoCommit`. -/

open SqlObjVerif.PyTx in
theorem C08_translated_commit_close_releases (A : Tx.AllIDs) (s : Tx.St) (hA : Tx.AllIDsSpec A s.dc s.t) (lo : Tx.Low)
    (wf : Tx.ConnWF s.p) (h : s.obsolete = false) :
    Tx.commitX A (Tx.img s lo) true = .ret (Tx.img (Tx.opCommit s true).1 lo.release) .none
    ∧ (Tx.opCommit s true).1.obsolete = true ∧ (Tx.opCommit s true).1.db = s.view .T
    ∧ lo.release.inUse = lo.inUse - 1 ∧ lo.release.lowAuto = (if lo.ac then true else lo.lowAuto) := by
  refine ⟨?_, by simp [Tx.opCommit, h], by simp [Tx.opCommit, h], rfl, rfl⟩
  have := Tx.commitX_eq A s hA lo true wf
  simpa [h] using this

open SqlObjVerif.PyTx in
theorem C08_translated_rollback_releases (A : Tx.AllIDs) (s : Tx.St) (hA : Tx.AllIDsSpec A s.dc s.t) (lo : Tx.Low)
    (wf : Tx.ConnWF s.t) (h : s.obsolete = false) :
    Tx.rollbackX A (Tx.img s lo) = .ret (Tx.img (Tx.opRollback s).1 lo.release) .none
    ∧ (Tx.opRollback s).1.obsolete = true ∧ (Tx.opRollback s).1.db = s.db := by
  refine ⟨?_, by simp [Tx.opRollback, h], by simp [Tx.opRollback, h]⟩
  have := Tx.rollbackX_eq A s hA lo wf
  simpa [h] using this

/-- non-vacuity: the hypothesis holds for the threads of `w0` -/
example : ∀ lvl c, w0.hub.resolve 1 ≠ some (lvl, .tx c) := by
  intro lvl c h; simp [w0, Hub.resolve] at h
example : ∀ lvl c, w0.hub.resolve 0 ≠ some (lvl, .tx c) := by
  intro lvl c h; simp [w0, Hub.resolve] at h

end SqlObjVerif.Hub
