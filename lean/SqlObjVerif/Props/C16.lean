import SqlObjVerif.Lemmas.OrmVal
import SqlObjVerif.Lemmas.OrmValXSync
import SqlObjVerif.Lemmas.OrmValXSet
import SqlObjVerif.Lemmas.OrmValXSetAll
import SqlObjVerif.Lemmas.OrmValCols
/-!
# C16 — lazy updates: nothing written before sync, exactly the pending values after

Model: `Model/OrmVal.lean`; `updates` is the ghost counter of UPDATE statements sent, `log` the list of
all statements sent.  `FlagOK`, `AnyReach`, `latest`, `PSorted` are in `Lemmas/OrmVal.lean`.
-/
namespace SqlObjVerif.OrmVal

/-- an assignment or a multi-column `set` on a lazy object (any values, valid or not) -/
def AssignOnLazy (cfg : Cfg) (s : State) : Op → Prop
  | .setattr h _ _ _ => ∀ o, s.objs h = some o → cfg.lazyUpdate o.cls = true
  | .set h _ _ => ∀ o, s.objs h = some o → cfg.lazyUpdate o.cls = true
  | _ => False

/-- **No UPDATE before sync.**  An assignment / `set()` on a lazy object sends no statement at all and
    leaves every table unchanged — whatever the state, the values, the columns. -/
theorem C16_no_update_before_sync (cfg : Cfg) (s : State) (op : Op) (h : AssignOnLazy cfg s op) :
    (step cfg s op).1.updates = s.updates ∧ (step cfg s op).1.log = s.log ∧ (step cfg s op).1.db = s.db := by
  cases op with
  | setattr hd c inp fail =>
    simp only [step, opSetattr]
    cases ho : s.objs hd with
    | none => simp
    | some o =>
      have hl := h o ho
      simp only [hl, if_true]
      split
      · simp
      · cases inp <;> simp [setObj]
  | set hd kvs fail =>
    simp only [step, opSet]
    cases ho : s.objs hd with
    | none => simp
    | some o =>
      have hl := h o ho
      simp only [hl, if_true]
      split
      · simp
      · cases validate (cfg.enc o.cls) kvs <;> simp [setObj]
  | _ => exact absurd h (by simp [AssignOnLazy])

/-- … hence after ANY number of assignments on lazy objects (interleaved over any handles) the ghost
    counter, the statement log and the tables are what they were. -/
theorem C16_no_update_before_sync_history (cfg : Cfg) (s : State) (ops : List Op)
    (h : Hist (AssignOnLazy cfg) cfg s ops) :
    (run cfg s ops).updates = s.updates ∧ (run cfg s ops).log = s.log ∧ (run cfg s ops).db = s.db := by
  induction ops generalizing s with
  | nil => exact ⟨rfl, rfl, rfl⟩
  | cons op r ih =>
    obtain ⟨h1, h2, h3⟩ := C16_no_update_before_sync cfg s op h.1
    obtain ⟨i1, i2, i3⟩ := ih _ h.2
    exact ⟨by rw [run, i1, h1], by rw [run, i2, h2], by rw [run, i3, h3]⟩

/-- **`syncUpdate()` writes exactly the pending values.**  Nothing pending: nothing happens at all.
    Otherwise exactly one statement is sent, it is an UPDATE of this row whose assignment list is the
    pending list (one entry per assigned column, see `C16_pending_latest` / `C16_dirty_iff_pending` for
    "latest" and "each column once"); the row becomes the old row overridden by the pending values,
    every other row of every table is untouched, and afterwards nothing is pending and the flag is clear. -/
theorem C16_sync_writes_pending (s : State) (h : Hnd) (o : Inst) (ho : s.objs h = some o) :
    (o.pending = [] → opSyncUpdate s h false = (s, .ok)) ∧
    (o.pending ≠ [] →
      (opSyncUpdate s h false).2 = .ok ∧
      (opSyncUpdate s h false).1.updates = s.updates + 1 ∧
      (opSyncUpdate s h false).1.log = s.log ++ [.update o.cls o.id o.pending] ∧
      (∀ row, s.db o.cls o.id = some row →
        (opSyncUpdate s h false).1.db o.cls o.id = some (applyUpd row o.pending)) ∧
      (∀ c i, ¬ (c = o.cls ∧ i = o.id) → (opSyncUpdate s h false).1.db c i = s.db c i) ∧
      (opSyncUpdate s h false).1.objs h = some { o with dirty := false, pending := [] }) := by
  constructor
  · intro hp; simp [opSyncUpdate, ho, hp]
  · intro hp
    have he : o.pending.isEmpty = false := by cases hh : o.pending <;> simp [hh] at hp ⊢
    have hsu : opSyncUpdate s h false =
        (setObj (sendUpdate s o o.pending false) h { o with dirty := false, pending := [] }, .ok) := by
      simp [opSyncUpdate, ho, he]
    rw [hsu]
    refine ⟨rfl, rfl, rfl, ?_, ?_, by simp [setObj]⟩
    · intro row hr; simp [setObj, sendUpdate, updRow_same, hr]
    · intro c i hne; simp [setObj, sendUpdate, updRow_other _ _ _ _ _ _ hne]

/-- **`sync()` on a lazy object**: the same single UPDATE (none if nothing is pending), followed by one
    SELECT of the row; no other statement. -/
theorem C16_sync_flushes_then_reloads (cfg : Cfg) (s : State) (h : Hnd) (o : Inst) (ho : s.objs h = some o)
    (hl : cfg.lazyUpdate o.cls = true) :
    (o.pending = [] →
      (opSync cfg s h false).1.updates = s.updates ∧
      (opSync cfg s h false).1.log = s.log ++ [.selectRow o.cls o.id] ∧
      (opSync cfg s h false).1.db = s.db) ∧
    (o.pending ≠ [] →
      (opSync cfg s h false).1.updates = s.updates + 1 ∧
      (opSync cfg s h false).1.log = s.log ++ [.update o.cls o.id o.pending, .selectRow o.cls o.id] ∧
      (∀ row, s.db o.cls o.id = some row →
        (opSync cfg s h false).1.db o.cls o.id = some (applyUpd row o.pending)) ∧
      (∀ c i, ¬ (c = o.cls ∧ i = o.id) → (opSync cfg s h false).1.db c i = s.db c i) ∧
      (∀ o', (opSync cfg s h false).1.objs h = some o' → o'.pending = [] ∧ o'.dirty = false)) := by
  constructor
  · intro hp
    simp only [opSync, ho, hl, hp, List.isEmpty_nil, Bool.not_true, Bool.and_false, Bool.false_eq_true, if_false,
      opReload]
    cases s.db o.cls o.id <;> simp [setObj, logStmt]
  · intro hp
    have he : o.pending.isEmpty = false := by cases hh : o.pending <;> simp [hh] at hp ⊢
    have hsu : opSyncUpdate s h false =
        (setObj (sendUpdate s o o.pending false) h { o with dirty := false, pending := [] }, .ok) := by
      simp [opSyncUpdate, ho, he]
    simp only [opSync, ho, hl, he, Bool.not_false, Bool.and_true, if_true, hsu, opReload, setObj]
    cases hrow : s.db o.cls o.id with
    | none =>
      simp [sendUpdate, updRow_same, hrow, logStmt]
      intro c i hne; exact updRow_other _ _ _ _ _ _ (by simpa using hne)
    | some row =>
      simp [sendUpdate, updRow_same, hrow, logStmt]
      intro c i hne; exact updRow_other _ _ _ _ _ _ (by simpa using hne)

/-- **"Latest pending value of each assigned column".**  After a run of assignments `as` (oldest first) to
    a lazy object the pending list holds, for every column, the database-side value (`enc` = `from_python`) of
    the LAST assignment to it (or what
    was pending before, if the run did not assign it) — and that list is what `C16_sync_writes_pending`
    sends (and what reads show: `C05_read_eq_db`). -/
theorem C16_pending_latest (cfg : Cfg) (s : State) (h : Hnd) (o : Inst) (as : List (Col × Val))
    (ho : s.objs h = some o) (hl : cfg.lazyUpdate o.cls = true) (hcols : ∀ kv ∈ as, kv.1 < cfg.ncols o.cls) :
    ∃ o', (run cfg s (as.map fun kv => Op.setattr h kv.1 (.ok kv.2) false)).objs h = some o' ∧
      o'.cls = o.cls ∧ o'.id = o.id ∧
      (∀ c, plookup c o'.pending = match latest as c with
        | some v => some (cfg.enc o.cls c v)
        | none => plookup c o.pending) := by
  suffices key : ∃ o', (run cfg s (as.map fun kv => Op.setattr h kv.1 (.ok kv.2) false)).objs h = some o' ∧
      o'.cls = o.cls ∧ o'.id = o.id ∧
      o'.pending = as.foldl (fun p kv => passign kv.1 (cfg.enc o.cls kv.1 kv.2) p) o.pending by
    obtain ⟨o', h1, h2, h3, h4⟩ := key
    exact ⟨o', h1, h2, h3, fun c => by rw [h4]; exact plookup_foldl_passign_enc (cfg.enc o.cls) as o.pending c⟩
  induction as generalizing s o with
  | nil => exact ⟨o, ho, rfl, rfl, rfl⟩
  | cons a r ih =>
    obtain ⟨c, v⟩ := a
    have hc : c < cfg.ncols o.cls := hcols (c, v) (by simp)
    have hstep : (step cfg s (Op.setattr h c (.ok v) false)).1 =
        setObj s h { o with dirty := true, pending := passign c (cfg.enc o.cls c v) o.pending,
                             cached := setCached o.cached c (cfg.dec o.cls c (cfg.enc o.cls c v)) } := by
      simp [step, opSetattr, ho, Nat.not_le.mpr hc, hl]
    simp only [List.map_cons, run, hstep, List.foldl_cons]
    let o1 : Inst := { o with dirty := true, pending := passign c (cfg.enc o.cls c v) o.pending,
                              cached := setCached o.cached c (cfg.dec o.cls c (cfg.enc o.cls c v)) }
    obtain ⟨o', h1, h2, h3, h4⟩ := ih (setObj s h o1) o1 (by simp [setObj]) hl
      (fun kv hkv => hcols kv (by simp [hkv]))
    exact ⟨o', h1, h2, h3, h4⟩

/-- **The dirty flag is true exactly while unwritten assignments exist** — in every state reachable by ANY
    history of operations (library calls with any failures, raw SQL, duplicate instances, writes through dead
    objects …), for every held instance; moreover the pending list has each column at most once (sorted), and
    an eager object never has anything pending nor the flag set. -/
theorem C16_dirty_iff_pending (cfg : Cfg) (s : State) (h : Hnd) (o : Inst) (hs : AnyReach cfg s)
    (ho : s.objs h = some o) :
    (o.dirty = true ↔ o.pending ≠ []) ∧ PSorted o.pending ∧
    (cfg.lazyUpdate o.cls = false → o.pending = [] ∧ o.dirty = false) := by
  have hf := anyReach_flag cfg s hs h o ho
  refine ⟨hf.dirtyIff, hf.sorted, fun hl => ⟨hf.eagerNoPending hl, ?_⟩⟩
  have := hf.dirtyIff
  rw [hf.eagerNoPending hl] at this
  cases hd : o.dirty
  · rfl
  · simp [hd] at this

/-- the same after every history (any operations, any length) -/
theorem C16_dirty_iff_pending_history (cfg : Cfg) (ops : List Op) (h : Hnd) (o : Inst)
    (ho : (run cfg init ops).objs h = some o) : (o.dirty = true ↔ o.pending ≠ []) :=
  (C16_dirty_iff_pending cfg _ h o (anyReach_run cfg init ops AnyReach.init) ho).1

/-- **Inserts are immediate**, lazy class or not: when the constructor succeeds the row is in the table with
    exactly the given values when it returns (one INSERT sent, then the SELECT of `_init`; no UPDATE), and the
    new object has nothing pending. -/
theorem C16_insert_immediate (cfg : Cfg) (s : State) (h : Hnd) (cls : Cls) (id : Id) (kvs : List (Col × Inp))
    (p : Pend) (hfree : s.objs h = none) (hcols : colsOk (cfg.ncols cls) kvs = true) (hval : validate (cfg.enc cls) kvs = some p)
    (hrow : s.db cls id = none) :
    (opCreate cfg s h cls id kvs).2 = .ok ∧
    (opCreate cfg s h cls id kvs).1.db cls id = some (applyUpd (fun _ => none) p) ∧
    (opCreate cfg s h cls id kvs).1.updates = s.updates ∧
    (opCreate cfg s h cls id kvs).1.log = s.log ++
      [.insert cls id ((List.range (cfg.ncols cls)).map fun c => (c, applyUpd (fun _ => none) p c)), .selectRow cls id] ∧
    ∃ o, (opCreate cfg s h cls id kvs).1.objs h = some o ∧ o.pending = [] ∧ o.dirty = false := by
  simp [opCreate, hfree, hcols, hval, hrow, register, logStmt, setRowDb_same, freshInst]

/-- **Deletes are immediate**, whatever is pending: `destroySelf()` sends one DELETE, the row is gone when
    it returns, no UPDATE is sent (pending lazy values are NOT written first). -/
theorem C16_delete_immediate (s : State) (h : Hnd) (o : Inst) (ho : s.objs h = some o) :
    (opDestroy s h).2 = .ok ∧ (opDestroy s h).1.db o.cls o.id = none ∧
    (opDestroy s h).1.updates = s.updates ∧ (opDestroy s h).1.log = s.log ++ [.delete o.cls o.id] ∧
    (∀ c i, ¬ (c = o.cls ∧ i = o.id) → (opDestroy s h).1.db c i = s.db c i) := by
  refine ⟨by simp [opDestroy, ho], by simp [opDestroy, ho, setObj, logStmt, setRowDb_same, evictOthers],
    by simp [opDestroy, ho, setObj, logStmt, evictOthers], by simp [opDestroy, ho, setObj, logStmt, evictOthers], ?_⟩
  intro c i hne
  simp [opDestroy, ho, setObj, logStmt, evictOthers, setRowDb_other _ _ _ _ _ _ hne]

/-- inserts and deletes remain immediate (both halves, as one statement) -/
theorem C16_insert_delete_immediate (cfg : Cfg) (s : State) (h : Hnd) :
    (∀ cls id kvs p, s.objs h = none → colsOk (cfg.ncols cls) kvs = true → validate (cfg.enc cls) kvs = some p → s.db cls id = none →
      (opCreate cfg s h cls id kvs).1.db cls id = some (applyUpd (fun _ => none) p) ∧
      (opCreate cfg s h cls id kvs).1.updates = s.updates) ∧
    (∀ o, s.objs h = some o → (opDestroy s h).1.db o.cls o.id = none ∧ (opDestroy s h).1.updates = s.updates) :=
  ⟨fun cls id kvs p h1 h2 h3 h4 =>
      let r := C16_insert_immediate cfg s h cls id kvs p h1 h2 h3 h4; ⟨r.2.1, r.2.2.1⟩,
   fun o ho => let r := C16_delete_immediate s h o ho; ⟨r.2.1, r.2.2.1⟩⟩

/-- **Pickling flushes.**  `__getstate__` of a lazy object is exactly `syncUpdate()` (so
    `C16_sync_writes_pending` describes the one UPDATE it sends), and after it succeeded nothing is pending. -/
theorem C16_pickle_flushes (cfg : Cfg) (s : State) (h : Hnd) (o : Inst) (fail : Bool) (ho : s.objs h = some o)
    (hl : cfg.lazyUpdate o.cls = true) :
    opPickle cfg s h fail = opSyncUpdate s h fail ∧
    ((opPickle cfg s h fail).2 = .ok → ∀ o', (opPickle cfg s h fail).1.objs h = some o' → o'.pending = []) := by
  have heq : opPickle cfg s h fail = opSyncUpdate s h fail := by
    simp only [opPickle, ho, hl, Bool.true_and]
    cases he : o.pending.isEmpty
    · simp
    · simp [opSyncUpdate, ho, he]
  refine ⟨heq, ?_⟩
  rw [heq]
  exact syncUpdate_ok_pending s h fail

/-- **Unpickling.**  The pickled state carries the attribute values only: the instance `__setstate__` builds
    has NOTHING pending and is not dirty, no statement is sent, no table changes — so (by
    `C16_sync_writes_pending`) its `syncUpdate()` sends no UPDATE and cannot write back values that were
    pending (and flushed) when the original was pickled. -/
theorem C16_unpickle_clean (cfg : Cfg) (s : State) (h : Hnd) (cls : Cls) (id : Id) (snap : Pend) (clash : Bool) :
    (opUnpickle cfg s h cls id snap clash).1.log = s.log ∧
    (opUnpickle cfg s h cls id snap clash).1.updates = s.updates ∧
    (opUnpickle cfg s h cls id snap clash).1.db = s.db ∧
    ((opUnpickle cfg s h cls id snap clash).2 = .ok →
      ∃ o, (opUnpickle cfg s h cls id snap clash).1.objs h = some o ∧ o.pending = [] ∧ o.dirty = false ∧
        opSyncUpdate (opUnpickle cfg s h cls id snap clash).1 h false = ((opUnpickle cfg s h cls id snap clash).1, .ok)) := by
  unfold opUnpickle
  split
  · exact ⟨rfl, rfl, rfl, fun hx => by simp at hx⟩
  · split
    · exact ⟨rfl, rfl, rfl, fun hx => by simp at hx⟩
    · refine ⟨rfl, rfl, rfl, fun _ => ⟨unpickledInst cfg cls id snap, by simp [register], rfl, rfl, ?_⟩⟩
      simp [opSyncUpdate, register, unpickledInst]

/-- and for an eager object pickling sends nothing -/
theorem C16_pickle_eager_noop (cfg : Cfg) (s : State) (h : Hnd) (o : Inst) (fail : Bool) (ho : s.objs h = some o)
    (hl : cfg.lazyUpdate o.cls = false) : opPickle cfg s h fail = (s, .ok) := by
  simp [opPickle, ho, hl]

/-- **Only the flush operations write a lazy object's pending values**: every operation other than
    syncUpdate / sync / pickling / a `destroySelf` with a dependents loop appends no UPDATE of a lazy class
    to the statement log (whatever the state; raw SQL does not go through the log). -/
theorem C16_only_flush_ops_write_lazy (cfg : Cfg) (s : State) (op : Op) (hop : IsFlushOp op = false) :
    NoLazyWrite cfg s (step cfg s op).1 := by
  cases op with
  | create h cls id kvs => exact nlw_create _ _ _ _ _ _
  | fetch h cls id v => exact nlw_fetch _ _ _ _ _ _
  | refresh h => exact nlw_refresh _ _ _
  | selectStmt cls => exact nlw_one _ _ _ _ rfl rfl
  | read h c => exact nlw_read _ _ _ _
  | setattr h c inp fail => exact nlw_setattr _ _ _ _ _ _
  | set h kvs fail => exact nlw_set _ _ _ _ _
  | syncUpdate h fail => simp [IsFlushOp] at hop
  | sync h fail => simp [IsFlushOp] at hop
  | expire h =>
    simp only [step, opExpire]; split
    · exact nlw_refl _ _
    · exact nlw_log_eq _ _ _ rfl
  | expireAll => exact nlw_log_eq _ _ _ rfl
  | expireAllCls cls => exact nlw_log_eq _ _ _ rfl
  | destroy h refs =>
    have : refs = [] := by cases refs <;> simp [IsFlushOp] at hop ⊢
    subst this
    simp only [step, opDestroyRefs, opRefSteps]
    split
    · exact nlw_refl _ _
    · exact nlw_destroy _ _ _
  | pickle h fail => simp [IsFlushOp] at hop
  | drop h => exact nlw_log_eq _ _ _ rfl
  | bulkDelete cls ids => exact nlw_one _ _ _ _ rfl rfl
  | unpickle h cls id snap clash =>
    simp only [step, opUnpickle]
    split
    · exact nlw_refl _ _
    · split
      · exact nlw_refl _ _
      · exact nlw_log_eq _ _ _ rfl
  | oobUpdate cls id c v => exact nlw_log_eq _ _ _ rfl
  | oobDelete cls id => exact nlw_log_eq _ _ _ rfl
  | oobInsert cls id vals =>
    simp only [step]; split
    · exact nlw_refl _ _
    · exact nlw_log_eq _ _ _ rfl


/-- … and the one further place: inside `destroySelf` of a row, a LAZY referrer with `cascade='null'` gets
    `set(fkID=None)` (or `set()`) and is flushed at once — the step IS that `set` followed by `syncUpdate()`,
    so by `C16_sync_writes_pending` it sends exactly one UPDATE with ALL pending values of that referrer
    (the NULL included) and leaves it clean; the reference is gone from the table before the DELETE. -/
theorem C16_null_cascade_flushes_referrer (cfg : Cfg) (s : State) (T : Cls) (r : Id) (hr : Hnd)
    (fresh : Option (Cls × Id)) (o' : Inst) (v : Val)
    (hget : (refGet cfg s hr fresh).2 = .ok) (ho : (refGet cfg s hr fresh).1.objs hr = some o')
    (hfk : cfg.fk o'.cls = some (T, .null)) (hlz : cfg.lazyUpdate o'.cls = true)
    (hread : (opRead cfg (refGet cfg s hr fresh).1 hr 0).2 = .val v)
    (hset : (opSet cfg (opRead cfg (refGet cfg s hr fresh).1 hr 0).1 hr (clearArg v r) false).2 = .ok) :
    opRefRow cfg s T r hr fresh =
      opSyncUpdate (opSet cfg (opRead cfg (refGet cfg s hr fresh).1 hr 0).1 hr (clearArg v r) false).1 hr false ∧
    ((opRefRow cfg s T r hr fresh).2 = .ok →
      ∀ o2, (opRefRow cfg s T r hr fresh).1.objs hr = some o2 → o2.pending = []) := by
  have heq : opRefRow cfg s T r hr fresh =
      opSyncUpdate (opSet cfg (opRead cfg (refGet cfg s hr fresh).1 hr 0).1 hr (clearArg v r) false).1 hr false := by
    unfold opRefRow
    simp [hget, ho, hfk, hlz, hread, hset]
  refine ⟨heq, ?_⟩
  rw [heq]
  exact syncUpdate_ok_pending _ hr false

/-! ## non-vacuity and regression witnesses -/

def exFk16 : Cls → Option (Cls × FkKind)
  | 1 => some (0, FkKind.null)
  | _ => none

/-- class 0 eager; class 1 lazy with `ForeignKey(class 0, cascade='null')` in column 0 -/
def exCfg16 : Cfg :=
  { lazyUpdate := fun c => c == 1, cacheValues := fun _ => true, ncols := fun _ => 3,
    enc := fun _ _ v => v, dec := fun _ _ v => v, fk := exFk16, doCache := true }

/-- destroying the referenced row flushes the lazy referrer: ONE UPDATE holding its pending y AND the NULL,
    before the DELETE; afterwards the referrer is clean and its row holds NULL -/
example :
    let s := run exCfg16 init
      [.create 0 0 1 [(0, .ok (some 7))], .create 1 1 1 [(0, .ok (some 1)), (1, .ok (some 2)), (2, .ok (some 3))],
       .setattr 1 1 (.ok (some 9)) false, .destroy 0 [.sel 1, .row 1 none]]
    s.log.drop 4 = [.selectRefs 1 0 1, .update 1 1 [(0, none), (1, some 9)], .delete 0 1] ∧
    (s.objs 1).map (fun o => (o.dirty, o.pending)) = some (false, []) ∧ (s.db 1 1).map (· 0) = some none := by
  decide

/-- three assignments (x twice), then sync(): exactly one UPDATE with x = the later value, y; z untouched -/
example : (run exCfg16 init
    [.create 0 1 1 [(0, .ok (some 1)), (1, .ok (some 2)), (2, .ok (some 3))],
     .setattr 0 0 (.ok (some 5)) false, .set 0 [(1, .ok none)] false, .setattr 0 0 (.ok (some 6)) false,
     .sync 0 false]).log.filter (fun st => match st with | .update .. => true | _ => false)
    = [.update 1 1 [(0, some 6), (1, none)]] := by decide

/-- former defect: `set()` without columns on a lazy object must not set the dirty flag -/
example : ((run exCfg16 init [.create 0 1 1 [(0, .ok (some 1))], .set 0 [] false]).objs 0).map (·.dirty) = some false := by
  decide

/-- former defect: `expire()` clears the dirty flag together with the pending values -/
example : ((run exCfg16 init [.create 0 1 1 [(0, .ok (some 1))], .setattr 0 0 (.ok (some 4)) false, .expire 0]).objs 0).map
    (fun o => (o.dirty, o.pending)) = some (false, []) := by decide

/-- a column with a real codec (stored = shown + 1000, like JSON text vs the Python value): after
    expire → assign → read of ANOTHER column (reload of the row) the object still shows the ASSIGNED value
    (`to_python` of the pending database-side value), and the pending / written value is the stored form -/
def exCfgCodec : Cfg :=
  { exCfg16 with enc := fun _ k v => if k = 2 then v.map (· + 1000) else v,
                 dec := fun _ k v => if k = 2 then v.map (· - 1000) else v }

example :
    let s := run exCfgCodec init
      [.create 0 1 1 [(0, .ok (some 1)), (1, .ok (some 2)), (2, .ok (some 3))], .expire 0,
       .setattr 0 2 (.ok (some 5)) false, .read 0 1]
    (opRead exCfgCodec s 0 2).2 = .val (some 5) ∧ (s.objs 0).map (·.pending) = some [(2, some 1005)] ∧
    (s.db 1 1).map (· 2) = some (some 1003) := by decide

/-- the hypothesis of `C16_no_update_before_sync_history` is satisfiable -/
example : Hist (AssignOnLazy exCfg16) exCfg16
    (run exCfg16 init [.create 0 1 1 [(0, .ok (some 1))]])
    [.setattr 0 0 (.ok (some 4)) false, .set 0 [(1, .ok (some 2)), (2, .bad)] false] := by
  have lz : ∀ (s : State) (h : Hnd), ((s.objs h).map (fun o => exCfg16.lazyUpdate o.cls)).getD true = true →
      ∀ o, s.objs h = some o → exCfg16.lazyUpdate o.cls = true := by
    intro s h hb o ho; simpa [ho] using hb
  exact ⟨lz _ _ (by decide), lz _ _ (by decide), trivial⟩

/-! ## The hand model of the lazy-update methods IS the translated source

`vlib/extractors/pymain.py` translates `SQLObject.syncUpdate`, `sync`, `_SO_setValue`, `set` (and the readers:
C05) from /repo's `main.py` into PyMain programs on every run; `Model/OrmValX.lean` runs them from
`absW cfg i s o cv fail`, the image of instance `o` of model state `s` (`cv`: ANY Python dict standing for
`o.pending`, `fail`: the database refuses the UPDATE); see the section of the same name in `Props/C05.lean`
for the interface.  A semantic edit of these methods changes the translated programs and breaks these proofs. -/

open SqlObjVerif.PyMain in
/-- `syncUpdate()` = `opSyncUpdate`: nothing when nothing is pending; else ONE UPDATE holding the pending values
    sorted by creation order, the pending dict and the dirty flag cleared only after it succeeded, the lock
    released on every path -/
theorem C16_translated_syncUpdate_eq_model (cfg : Cfg) (i : Iface) (s : State) (h : Hnd) (o : Inst) (cv : Pend)
    (fail : Bool) (ho : s.objs h = some o) (hrep : Rep cv o.pending) (hcols : ∀ e ∈ o.pending, e.1 < cfg.ncols o.cls) :
    absUnit o.cls o.id h (syncUpdateX o.cls o.id (cfg.ncols o.cls) h (absW cfg i s o cv fail)) =
      some (opSyncUpdate s h fail) :=
  syncUpdateX_eq cfg i s h o cv fail ho hrep hcols

open SqlObjVerif.PyMain in
/-- `sync()` = `opSync` -/
theorem C16_translated_sync_eq_model (cfg : Cfg) (i : Iface) (s : State) (h : Hnd) (o : Inst) (cv : Pend) (fail : Bool)
    (ho : s.objs h = some o) (hrep : Rep cv o.pending) (hcols : ∀ e ∈ o.pending, e.1 < cfg.ncols o.cls)
    (hattrs : ∀ c, cfg.ncols o.cls ≤ c → o.cached c = none) (hn : cfg.ncols o.cls ≠ 0) (hi : i.Ok cfg o.cls) :
    absUnit o.cls o.id h (syncX o.cls o.id (cfg.ncols o.cls) h (absW cfg i s o cv fail)) = some (opSync cfg s h fail) :=
  syncX_eq cfg i s h o cv fail ho hrep hcols hattrs hn hi

open SqlObjVerif.PyMain in
/-- attribute assignment `obj.<c> = value` (`_SO_setValue` as the generated setter calls it) = `opSetattr`:
    `Invalid` changes nothing; lazy: no statement, the database-side value stored in the pending dict, the shown
    value cached, dirty set; eager: ONE UPDATE, the value cached only when it succeeded and the class caches -/
theorem C16_translated_setValue_eq_model (cfg : Cfg) (i : Iface) (s : State) (h : Hnd) (o : Inst) (cv : Pend)
    (fail : Bool) (c : Col) (inp : Inp) (ho : s.objs h = some o) (hrep : Rep cv o.pending)
    (hc : c < cfg.ncols o.cls) (hi : i.Ok cfg o.cls) (hbad : inp = .bad → i.hasFrom c = true) :
    absUnit o.cls o.id h (setValueX o.cls o.id (cfg.ncols o.cls) h (absW cfg i s o cv fail) c inp) =
      some (opSetattr cfg s h c inp fail) :=
  setValueX_eq cfg i s h o cv fail c inp ho hrep hc hi hbad

open SqlObjVerif.PyMain in
/-- `set(**kw)` for ANY number of keywords (distinct column names; any mix of valid and rejected values; lazy and
    eager branch; refused UPDATE) = `opSet`: the keyword filters, the validation loop (first rejected value raises
    `Invalid` before anything is changed), lazy: the shown values cached, `_SO_createValues.update(kw)` (merge, not
    replace), dirty iff a keyword was given; eager: ONE UPDATE with the values sorted by creation order, the shown
    values cached only after it succeeded and only when the class caches; the lock released on every path -/
theorem C16_translated_set_eq_model (cfg : Cfg) (i : Iface) (s : State) (h : Hnd) (o : Inst) (cv : Pend)
    (fail : Bool) (kvs : List (Col × Inp)) (ho : s.objs h = some o) (hrep : Rep cv o.pending)
    (hcols : colsOk (cfg.ncols o.cls) kvs = true) (hkw : (kvs.map (·.1)).Nodup) (hi : i.Ok cfg o.cls)
    (hbad : ∀ e ∈ kvs, e.2 = .bad → i.hasFrom e.1 = true) :
    absUnit o.cls o.id h (setX o.cls o.id (cfg.ncols o.cls) h (absW cfg i s o cv fail) kvs) =
      some (opSet cfg s h kvs fail) :=
  setX_eq cfg i s h o cv fail kvs ho hrep hcols hkw hi hbad

open SqlObjVerif.PyMain in
/-- `set(**kw)` with a keyword that is NOT a column (nor a class attribute): `TypeError` (`badCol`), nothing changed,
    the lock released — lazy branch: refused before anything is changed; eager branch: after the validation loop.
    The hand model reports `badCol` before it validates, the code validates the column keywords first: hence the
    hypothesis that those are valid (with a rejected column value the code raises `Invalid` instead). -/
theorem C16_translated_set_badcol_eq_model (cfg : Cfg) (i : Iface) (s : State) (h : Hnd) (o : Inst) (cv : Pend)
    (fail : Bool) (kvs : List (Col × Inp)) (ho : s.objs h = some o) (hrep : Rep cv o.pending)
    (hcols : colsOk (cfg.ncols o.cls) kvs = false) (hkw : (kvs.map (·.1)).Nodup) (hi : i.Ok cfg o.cls)
    (hok : ∀ e ∈ kvs, e.1 < cfg.ncols o.cls → e.2 ≠ .bad)
    (hattr : ∀ e ∈ kvs, cfg.ncols o.cls ≤ e.1 → i.classAttr e.1 = false) :
    absUnit o.cls o.id h (setX o.cls o.id (cfg.ncols o.cls) h (absW cfg i s o cv fail) kvs) =
      some (opSet cfg s h kvs fail) :=
  setX_badcol cfg i s h o cv fail kvs ho hrep hcols hkw hi hok hattr

open SqlObjVerif.PyMain in
/-- instance: one keyword -/
theorem C16_translated_set1_eq_model (cfg : Cfg) (i : Iface) (s : State) (h : Hnd) (o : Inst) (cv : Pend)
    (fail : Bool) (c : Col) (inp : Inp) (ho : s.objs h = some o) (hrep : Rep cv o.pending)
    (hc : c < cfg.ncols o.cls) (hi : i.Ok cfg o.cls) (hbad : inp = .bad → i.hasFrom c = true) :
    absUnit o.cls o.id h (setX o.cls o.id (cfg.ncols o.cls) h (absW cfg i s o cv fail) [(c, inp)]) =
      some (opSet cfg s h [(c, inp)] fail) :=
  setX_eq cfg i s h o cv fail [(c, inp)] ho hrep (by simp [colsOk, hc]) (by simp) hi
    (by intro e he; simp at he; subst he; exact hbad)

open SqlObjVerif.PyMain in
/-- instance: `set()` without keywords changes nothing and sends nothing -/
theorem C16_translated_set0_eq_model (cfg : Cfg) (i : Iface) (s : State) (h : Hnd) (o : Inst) (cv : Pend)
    (fail : Bool) (ho : s.objs h = some o) (hrep : Rep cv o.pending) (hi : i.Ok cfg o.cls) :
    absUnit o.cls o.id h (setX o.cls o.id (cfg.ncols o.cls) h (absW cfg i s o cv fail) []) = some (opSet cfg s h [] fail) :=
  setX_eq cfg i s h o cv fail [] ho hrep (by simp [colsOk]) (by simp) hi (by simp)

/-! For every REACHABLE state (any operations, raw SQL included) the structural side conditions are discharged
by `anyReach_cols` (`Lemmas/OrmValCols.lean`); `_SO_setValue` and `set` need none. -/

open SqlObjVerif.PyMain in
theorem C16_translated_syncUpdate_reachable (cfg : Cfg) (i : Iface) (s : State) (hs : AnyReach cfg s) (h : Hnd)
    (o : Inst) (cv : Pend) (fail : Bool) (ho : s.objs h = some o) (hrep : Rep cv o.pending) :
    absUnit o.cls o.id h (syncUpdateX o.cls o.id (cfg.ncols o.cls) h (absW cfg i s o cv fail)) =
      some (opSyncUpdate s h fail) :=
  syncUpdateX_eq cfg i s h o cv fail ho hrep (anyReach_cols cfg s hs h o ho).pend

open SqlObjVerif.PyMain in
theorem C16_translated_sync_reachable (cfg : Cfg) (i : Iface) (s : State) (hs : AnyReach cfg s) (h : Hnd) (o : Inst)
    (cv : Pend) (fail : Bool) (ho : s.objs h = some o) (hrep : Rep cv o.pending)
    (hn : cfg.ncols o.cls ≠ 0) (hi : i.Ok cfg o.cls) :
    absUnit o.cls o.id h (syncX o.cls o.id (cfg.ncols o.cls) h (absW cfg i s o cv fail)) = some (opSync cfg s h fail) :=
  syncX_eq cfg i s h o cv fail ho hrep (anyReach_cols cfg s hs h o ho).pend (anyReach_cols cfg s hs h o ho).attrs hn hi

/-- non-vacuity: the hypotheses hold for a lazy instance with pending values kept in insertion order -/
example : Rep [(2, some 5), (0, none)] [(0, none), (2, some 5)] := ⟨by decide, by decide⟩

end SqlObjVerif.OrmVal
