import SqlObjVerif.Lemmas.Fail
/-!
# C06 — a write that raises changes nothing

`step sch s op inj` runs one write operation of the model `Fail` (attribute assignment, `set()`,
`syncUpdate()`, create, inheritable create, `destroySelf()`) on state `s`, with an optional database
error injected at its k-th statement; invalid values, constraint violations and restricting
references are part of `op` / `s`.  `s.core` = tables, link tables, every reachable instance
(cached values, pending values, dirty, obsolete) and the cache's registered ids.

The full-strength statement is FALSE of the current code (witnesses below, each replayed on the
implementation by harness/c06.py); `Atomic` names the excluded failures.
-/
namespace SqlObjVerif.Fail

/-- no completed micro-step of the failed call changed anything -/
def Quiet (sch : Schema) (s : St) (op : Op) (inj : Option Inj) : Prop :=
  (step sch s op inj).1.changes = s.changes

/-- the failures for which the current code is failure-atomic: any failure before the first
    effective micro-step (`Quiet`), and per operation kind:
    attribute assignment, `syncUpdate()`: every failure;
    `set()`: every failure, unless a keyword is a ForeignKey given by object (written by its own
    UPDATE before the others — witness below) or, on a lazy object, a property setter of the
    application raises (application code; an unknown keyword is refused before anything changes);
    create: every failure but a database error at the SELECT that reads the new row back.
    For inheritable create and `destroySelf` only `Quiet` (witnesses below; see also
    `C06_cleanup_undoes_parent_insert`). -/
def Atomic (sch : Schema) (s : St) (op : Op) (inj : Option Inj) : Prop :=
  Quiet sch s op inj ∨
  match op with
  | .setattr _ _ _ _ => True
  | .set c _ _ ex => noFk ex = true ∧ ((clsOf sch c).lazy = true → hasUnknown ex = true ∨ extrasErr ex = none)
  | .sync _ _ => True
  | .create _ _ _ _ => hit inj 2 = none
  | .createChild _ _ _ => False
  | .createChain _ => False
  | .destroy _ _ => False

instance (sch : Schema) (s : St) (op : Op) (inj : Option Inj) : Decidable (Atomic sch s op inj) := by
  unfold Atomic Quiet; cases op <;> infer_instance

/-- every non-obsolete instance without pending values shows exactly its stored row -/
def Coherent (k : Core) : Prop :=
  ∀ i ∈ k.insts, i.obsolete = false → i.pending = [] → rowVals k i.cls i.id = some i.vals

/-- **Frame, for every operation kind, every schema, state, invalid value, rejection and injected
    error index:** a failed call during which no completed micro-step changed anything is a no-op;
    the ghost counter is exact (it moves only when tables, links, instances or registrations do). -/
theorem C06_frame (sch : Schema) (s s' : St) (op : Op) (inj : Option Inj) (r : Option Err)
    (h : step sch s op inj = (s', r)) (hq : s'.changes = s.changes) : s'.core = s.core := by
  unfold step at h
  exact (run_frame sch inj _ _ s' r h).2 hq

/-- **C06 (partial: `Atomic`).**  An operation that raises — whatever made it raise, at whatever
    position — leaves the tables, the link tables, every instance's cached / pending values and
    flags, and the registered ids exactly as they were. -/
theorem C06_failed_op_is_noop_partial (sch : Schema) (s s' : St) (op : Op) (inj : Option Inj) (e : Err)
    (hA : Atomic sch s op inj) (h : step sch s op inj = (s', some e)) : s'.core = s.core := by
  cases hA with
  | inl hq => exact C06_frame sch s s' op inj _ h (by simpa [Quiet, h] using hq)
  | inr hA =>
    cases op with
    | setattr c id col v =>
      exact setProg_noop sch inj c id [(col, v)] [] { s with n := 0, log := [] } s' e rfl (fun _ => .inr rfl) h
    | set c id kw ex => exact setProg_noop sch inj c id kw ex { s with n := 0, log := [] } s' e hA.1 hA.2 h
    | sync c id => exact syncProg_noop sch inj c id { s with n := 0, log := [] } s' e h
    | create c missing kw ex =>
      exact createProg_noop sch inj c none missing kw ex { s with n := 0, log := [] } s' e hA h
    | createChild c pkw ckw => exact hA.elim
    | createChain levels => exact hA.elim
    | destroy c id => exact hA.elim

/-- the property's wording: db unchanged, every held instance unchanged and still equal to its row,
    no registration added or lost -/
theorem C06_failed_op_keeps_rows_instances_registrations (sch : Schema) (s s' : St) (op : Op)
    (inj : Option Inj) (e : Err) (hA : Atomic sch s op inj) (h : step sch s op inj = (s', some e)) :
    s'.core.tabs = s.core.tabs ∧ s'.core.links = s.core.links ∧ s'.core.insts = s.core.insts ∧
    s'.core.reg = s.core.reg ∧ (Coherent s.core → Coherent s'.core) := by
  have := C06_failed_op_is_noop_partial sch s s' op inj e hA h
  rw [this]; exact ⟨rfl, rfl, rfl, rfl, id⟩

/-- an operation either completes or is a no-op -/
theorem C06_success_or_unchanged (sch : Schema) (s : St) (op : Op) (inj : Option Inj)
    (hA : Atomic sch s op inj) :
    (step sch s op inj).2 = none ∨ (step sch s op inj).1.core = s.core := by
  cases hr : (step sch s op inj).2 with
  | none => exact .inl rfl
  | some e =>
    right
    exact C06_failed_op_is_noop_partial sch s _ op inj e hA (by rw [← hr])


/-! ## no orphan parent row: the clean-up sequence is the exact inverse of the parent's creation -/

/-- the clean-up of a failed child create, on the state level: after the parent's INSERT,
    registration and read-back, the sequence obsolete / DELETE / cache.expire / (instance unreachable)
    restores tables, instances and registrations exactly, provided the new id is fresh -/
theorem C06_cleanup_undoes_parent_insert (k : Core) (p pid : Nat) (vals : List Val)
    (hp : p < k.tabs.length)
    (hrow : ∀ r ∈ k.tabs.getD p [], (r.id != pid) = true)
    (hinst : ∀ i ∈ k.insts, i.is p pid = false)
    (hreg : ∀ r ∈ k.reg, (r != (p, pid)) = true) :
    let k1 : Core := { k with tabs := k.tabs.set p (k.tabs.getD p [] ++ [⟨pid, vals⟩]) }
    let k2 := applyMem (.reload p pid) (applyMem (.addInst p pid vals) k1)
    let k3 := applyMem (.obsolete p pid) k2
    let k4 : Core := { k3 with tabs := k3.tabs.set p ((k3.tabs.getD p []).filter fun r => r.id != pid) }
    applyMem (.drop p pid) (applyMem (.unreg p pid) k4) = k := by
  intro k1 k2 k3 k4
  have hfilt : ((k.tabs.getD p [] ++ [⟨pid, vals⟩] : List Row).filter fun r => r.id != pid) = k.tabs.getD p [] := by
    rw [List.filter_append, List.filter_eq_self.mpr hrow]; simp
  have hmap : ∀ f : Inst → Inst, (k.insts.map fun i => if i.is p pid then f i else i) = k.insts := by
    intro f
    conv => rhs; rw [← List.map_id k.insts]
    apply List.map_congr_left
    intro i hi; simp [hinst i hi]
  have hdrop : (k.insts.filter fun i => !(i.is p pid)) = k.insts :=
    List.filter_eq_self.mpr (by intro i hi; simp [hinst i hi])
  have hregf : (k.reg.filter fun r => r != (p, pid)) = k.reg := List.filter_eq_self.mpr hreg
  have his : (Inst.mk p pid vals [] false false).is p pid = true := by simp [Inst.is]
  have hget : (k.tabs.set p (k.tabs.getD p [] ++ [⟨pid, vals⟩])).getD p [] = k.tabs.getD p [] ++ [⟨pid, vals⟩] := by
    simp [List.getD, hp]
  have hfind : ((k.tabs.getD p [] ++ [⟨pid, vals⟩] : List Row).find? fun r => r.id == pid) = some ⟨pid, vals⟩ := by
    rw [List.find?_append]
    have : (k.tabs.getD p []).find? (fun r => r.id == pid) = none := by
      rw [List.find?_eq_none]; intro r hr; have := hrow r hr; simpa using this
    rw [this]; simp
  simp only [k4, k3, k2, k1, applyMem, mapInst, rowVals, hget, hfind, Option.map_some, List.map_append,
    List.map_map, List.filter_append, List.set_set, hfilt]
  have hcomp : ∀ g : Inst → Inst, (∀ i, i.is p pid = false → g i = i) → k.insts.map g = k.insts := by
    intro g hg
    conv => rhs; rw [← List.map_id k.insts]
    apply List.map_congr_left
    intro i hi; simp [hg i (hinst i hi)]
  rw [hcomp _ (by intro i hi; simp [Function.comp, hi]), hdrop, hregf, list_set_getD_self _ _ _ hp]
  simp [Inst.is]

/-! ## the full-strength statement is false of the current code: witnesses -/

/-- C06 at full strength -/
def C06_Full : Prop :=
  ∀ (sch : Schema) (s s' : St) (op : Op) (inj : Option Inj) (e : Err),
    step sch s op inj = (s', some e) → s'.core = s.core

def inst (c id : Nat) (vals : List Val) : Inst := ⟨c, id, vals, [], false, false⟩
def mkSt (tabs : List (List Row)) (insts : List Inst) : St :=
  { core := { tabs := tabs, links := [], insts := insts, reg := insts.map fun i => (i.cls, i.id) },
    seqs := tabs.map fun t => t.length, lastId := 0, n := 0, changes := 0, log := [] }

/-- W1: classes `A`, `C` (reference to A with `cascade='null'`), `D` (reference to A with
    `cascade=False`) in this registry order; one row each, both dependents reference A#1 -/
def W1.sch : Schema :=
  [{ cols := [{}] }, { cols := [{ fk := some (0, .null) }] }, { cols := [{ fk := some (0, .restrict) }] }]
def W1.s : St := mkSt [[⟨1, [some 7]⟩], [⟨1, [some 1]⟩], [⟨1, [some 1]⟩]]
  [inst 0 1 [some 7], inst 1 1 [some 1], inst 2 1 [some 1]]

/-- the refused `destroySelf` has already nulled C#1's reference -/
theorem C06_destroy_refused_witness :
    (step W1.sch W1.s (.destroy 0 1) none).2 = some .integrity ∧
    (step W1.sch W1.s (.destroy 0 1) none).1.core.tabs = [[⟨1, [some 7]⟩], [⟨1, [none]⟩], [⟨1, [some 1]⟩]] := by
  decide

theorem C06_failed_op_is_noop_full_FALSE : ¬ C06_Full := by
  intro h
  have := h W1.sch W1.s _ (.destroy 0 1) none .integrity (by
    show step W1.sch W1.s (.destroy 0 1) none = ((step W1.sch W1.s (.destroy 0 1) none).1, some .integrity)
    rw [← C06_destroy_refused_witness.1])
  revert this
  decide

/-- a database error in the middle of the cascade (statement 3 = the restriction test of D, after C was nulled) -/
theorem C06_destroy_db_error_mid_cascade_full_FALSE :
    (step W1.sch W1.s (.destroy 0 1) (some ⟨3, .operational⟩)).2 = some .operational ∧
    (step W1.sch W1.s (.destroy 0 1) (some ⟨3, .operational⟩)).1.core ≠ W1.s.core := by
  decide

/-- (repaired by a587e1a) the victim's own DELETE fails: nothing was deleted and the instance is
    not marked obsolete any more — the failure is `Quiet`, hence covered by the partial theorem -/
theorem C06_destroy_delete_fails_is_noop :
    Atomic [{ cols := [{}] }] (mkSt [[⟨1, [some 7]⟩]] [inst 0 1 [some 7]]) (.destroy 0 1) (some ⟨1, .operational⟩) ∧
    (step [{ cols := [{}] }] (mkSt [[⟨1, [some 7]⟩]] [inst 0 1 [some 7]]) (.destroy 0 1) (some ⟨1, .operational⟩)).2
      = some .operational := by
  decide

/-- create: the row is inserted and the instance registered, then the SELECT reading it back fails -/
theorem C06_create_db_error_after_insert_full_FALSE :
    (step [{ cols := [{}] }] (mkSt [[]] []) (.create 0 false [(0, .ok (some 5))] []) (some ⟨2, .operational⟩)).2
      = some .operational ∧
    (step [{ cols := [{}] }] (mkSt [[]] []) (.create 0 false [(0, .ok (some 5))] []) (some ⟨2, .operational⟩)).1.core.tabs
      = [[⟨1, [some 5]⟩]] := by
  decide

/-- (repaired by bf075e4) lazy `set(col=9, nosuch=…)`: the unknown keyword is refused before the
    column value is cached or made pending — covered by the partial theorem -/
theorem C06_lazy_set_unknown_keyword_is_noop :
    Atomic [{ cols := [{}], lazy := true }] (mkSt [[⟨1, [some 7]⟩]] [inst 0 1 [some 7]])
        (.set 0 1 [(0, .ok (some 9))] [.unknown]) none ∧
    (step [{ cols := [{}], lazy := true }] (mkSt [[⟨1, [some 7]⟩]] [inst 0 1 [some 7]])
        (.set 0 1 [(0, .ok (some 9))] [.unknown]) none).2 = some .typeError := by
  decide

/-- outside the property (application code raises): a property setter of the application that
    raises inside a lazy `set()` runs after the columns were cached; this is why `Atomic` asks for
    `extrasErr ex = none` there -/
theorem C06_lazy_set_raising_user_setter_not_atomic :
    (step [{ cols := [{}], lazy := true }] (mkSt [[⟨1, [some 7]⟩]] [inst 0 1 [some 7]])
        (.set 0 1 [(0, .ok (some 9))] [.badProp]) none).2 = some .attrError ∧
    (step [{ cols := [{}], lazy := true }] (mkSt [[⟨1, [some 7]⟩]] [inst 0 1 [some 7]])
        (.set 0 1 [(0, .ok (some 9))] [.badProp]) none).1.core.insts = [⟨0, 1, [some 9], [(0, some 9)], false, false⟩] := by
  decide

/-- eager `set(fk=<object>, w=<duplicate>)`: the ForeignKey given by object is written by its own
    UPDATE before the UPDATE of the plain columns is rejected: partial multi-column update -/
theorem C06_set_fk_by_object_full_FALSE :
    (step [{ cols := [{}, { unique := true }] }]
        (mkSt [[⟨1, [some 1, some 1]⟩, ⟨2, [some 1, some 2]⟩]] [inst 0 1 [some 1, some 1]])
        (.set 0 1 [(1, .ok (some 2))] [.fk 0 (some 2)]) none).2 = some .duplicate ∧
    (step [{ cols := [{}, { unique := true }] }]
        (mkSt [[⟨1, [some 1, some 1]⟩, ⟨2, [some 1, some 2]⟩]] [inst 0 1 [some 1, some 1]])
        (.set 0 1 [(1, .ok (some 2))] [.fk 0 (some 2)]) none).1.core.tabs
      = [[⟨1, [some 2, some 1]⟩, ⟨2, [some 1, some 2]⟩]] := by
  decide

/-- inheritable pair `Par` (a, childName) / `Chi` (b, childName) -/
def W5.sch : Schema := [{ cols := [{ unique := true }, {}] }, { cols := [{ unique := true }, {}], parent := some 0 }]
def W5.op : Op := .createChild 1 [(0, .ok (some 1)), (1, .ok (some 1))] [(0, .ok (some 1)), (1, .ok none)]

/-- statement 2 (the parent's read-back) fails: orphan parent row;
    statement 4 (the child's read-back) fails: the clean-up deletes the parent row, the child row stays -/
theorem C06_inheritable_create_full_FALSE :
    (step W5.sch (mkSt [[], []] []) W5.op (some ⟨2, .operational⟩)).1.core.tabs = [[⟨1, [some 1, some 1]⟩], []] ∧
    (step W5.sch (mkSt [[], []] []) W5.op (some ⟨4, .operational⟩)).1.core.tabs = [[], [⟨1, [some 1, none]⟩]] ∧
    (step W5.sch (mkSt [[], []] []) W5.op (some ⟨2, .operational⟩)).2 = some .operational ∧
    (step W5.sch (mkSt [[], []] []) W5.op (some ⟨4, .operational⟩)).2 = some .operational := by
  decide

/-- (repaired by 0470de1) a BaseException at statement 3 (the child's INSERT) is cleaned up like
    any other exception: the whole state is restored -/
theorem C06_inheritable_create_interrupt_cleaned :
    (step W5.sch (mkSt [[], []] []) W5.op (some ⟨3, .interrupt⟩)).2 = some .interrupt ∧
    (step W5.sch (mkSt [[], []] []) W5.op (some ⟨3, .interrupt⟩)).1.core = (mkSt [[], []] []).core := by
  decide

/-- three levels (`Par` / `Chi` / `Gra`): a duplicate key at the leaf's INSERT removes the rows of
    both ancestors again -/
theorem C06_three_level_create_leaf_failure_cleaned :
    (step (W5.sch ++ [{ cols := [{ unique := true }], parent := some 1 }])
        (mkSt [[⟨1, [some 1, some 1]⟩], [⟨1, [some 1, some 2]⟩], [⟨1, [some 5]⟩]]
          [inst 0 1 [some 1, some 1], inst 1 1 [some 1, some 2], inst 2 1 [some 5]])
        (.createChain [(2, [(0, .ok (some 5))]), (1, [(0, .ok (some 2)), (1, .ok (some 2))]),
                       (0, [(0, .ok (some 2)), (1, .ok (some 1))])]) none).2 = some .duplicate ∧
    (step (W5.sch ++ [{ cols := [{ unique := true }], parent := some 1 }])
        (mkSt [[⟨1, [some 1, some 1]⟩], [⟨1, [some 1, some 2]⟩], [⟨1, [some 5]⟩]]
          [inst 0 1 [some 1, some 1], inst 1 1 [some 1, some 2], inst 2 1 [some 5]])
        (.createChain [(2, [(0, .ok (some 5))]), (1, [(0, .ok (some 2)), (1, .ok (some 2))]),
                       (0, [(0, .ok (some 2)), (1, .ok (some 1))])]) none).1.core
      = (mkSt [[⟨1, [some 1, some 1]⟩], [⟨1, [some 1, some 2]⟩], [⟨1, [some 5]⟩]]
          [inst 0 1 [some 1, some 1], inst 1 1 [some 1, some 2], inst 2 1 [some 5]]).core := by
  decide

/-- `Chi#1` is referenced by `DC#1` with `cascade=False`: the inheritable `destroySelf` has deleted
    the parent row before the child's own `destroySelf` is refused -/
theorem C06_inheritable_destroy_refused_full_FALSE :
    (step (W5.sch ++ [{ cols := [{ fk := some (1, .restrict) }] }])
        (mkSt [[⟨1, [some 1, some 1]⟩], [⟨1, [some 1, none]⟩], [⟨1, [some 1]⟩]]
          [inst 0 1 [some 1, some 1], inst 1 1 [some 1, none], inst 2 1 [some 1]]) (.destroy 1 1) none).2
      = some .integrity ∧
    (step (W5.sch ++ [{ cols := [{ fk := some (1, .restrict) }] }])
        (mkSt [[⟨1, [some 1, some 1]⟩], [⟨1, [some 1, none]⟩], [⟨1, [some 1]⟩]]
          [inst 0 1 [some 1, some 1], inst 1 1 [some 1, none], inst 2 1 [some 1]]) (.destroy 1 1) none).1.core.tabs
      = [[], [⟨1, [some 1, none]⟩], [⟨1, [some 1]⟩]] := by
  decide

/-! ## non-vacuity: failing operations that satisfy `Atomic` -/

/-- second value of a two-column `set()` invalid; duplicate key on UPDATE; NOT NULL on create;
    restriction found before anything else was done; a child-level duplicate cleaned up -/
example : Atomic [{ cols := [{}, {}] }] (mkSt [[⟨1, [some 7, some 8]⟩]] [inst 0 1 [some 7, some 8]])
      (.set 0 1 [(0, .ok (some 1)), (1, .bad)] []) none ∧
    (step [{ cols := [{}, {}] }] (mkSt [[⟨1, [some 7, some 8]⟩]] [inst 0 1 [some 7, some 8]])
      (.set 0 1 [(0, .ok (some 1)), (1, .bad)] []) none).2 = some .invalid := by decide

example : (step [{ cols := [{ unique := true }, {}] }] (mkSt [[⟨1, [some 7, none]⟩, ⟨2, [some 8, none]⟩]] [inst 0 1 [some 7, none]])
      (.set 0 1 [(1, .ok (some 1)), (0, .ok (some 8))] []) none).2 = some .duplicate := by decide

example : (step [{ cols := [{ notNull := true }] }] (mkSt [[]] []) (.create 0 false [(0, .ok none)] []) none).2
    = some .dbIntegrity := by decide

example : Atomic [{ cols := [{}] }, { cols := [{ fk := some (0, .restrict) }] }, { cols := [{ fk := some (0, .null) }] }]
      W1.s (.destroy 0 1) none ∧
    (step [{ cols := [{}] }, { cols := [{ fk := some (0, .restrict) }] }, { cols := [{ fk := some (0, .null) }] }]
      W1.s (.destroy 0 1) none).2 = some .integrity := by decide

example : (step W5.sch (mkSt [[⟨1, [some 1, some 1]⟩], [⟨1, [some 1, none]⟩]] [inst 0 1 [some 1, some 1], inst 1 1 [some 1, none]])
      (.createChild 1 [(0, .ok (some 2)), (1, .ok (some 1))] [(0, .ok (some 1)), (1, .ok none)]) none).2 = some .duplicate ∧
    (step W5.sch (mkSt [[⟨1, [some 1, some 1]⟩], [⟨1, [some 1, none]⟩]] [inst 0 1 [some 1, some 1], inst 1 1 [some 1, none]])
      (.createChild 1 [(0, .ok (some 2)), (1, .ok (some 1))] [(0, .ok (some 1)), (1, .ok none)]) none).1.core
      = (mkSt [[⟨1, [some 1, some 1]⟩], [⟨1, [some 1, none]⟩]] [inst 0 1 [some 1, some 1], inst 1 1 [some 1, none]]).core := by
  decide
end SqlObjVerif.Fail
