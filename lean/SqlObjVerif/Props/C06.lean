import SqlObjVerif.Lemmas.FailChainD
import SqlObjVerif.Lemmas.FailOpX
import SqlObjVerif.Lemmas.FailInhX
import SqlObjVerif.Lemmas.FailXSetExWit
import SqlObjVerif.Lemmas.FailDestroyXWit
import SqlObjVerif.Lemmas.FailCreateXFkFrame
/-!
# C06 — a write that raises changes nothing

`step sch s op inj` runs one write operation of the model `Fail` (attribute assignment, `set()`,
`syncUpdate()`, create, inheritable create, `destroySelf()`) on state `s`, with an optional database
error injected at its k-th statement; invalid values, constraint violations and restricting
references are part of `op` / `s`.  `s.core` = tables, link tables, every reachable instance
(cached values, pending values, dirty, obsolete) and the cache's registered ids.

The full-strength statement is FALSE of the current code (witnesses below, each replayed on the
implementation by harness/c06.py); `Atomic` names the excluded failures.
-/
namespace SqlObjVerif.Fail

/-- no completed micro-step of the failed call changed anything -/
def Quiet (sch : Schema) (s : St) (op : Op) (inj : Option Inj) : Prop :=
  (step sch s op inj).1.changes = s.changes

/-- the failures for which the current code is failure-atomic: any failure before the first
    effective micro-step (`Quiet`), and per operation kind:
    attribute assignment, `syncUpdate()`: every failure;
    `set()`: every failure, unless a keyword is a ForeignKey given by object (written by its own
    UPDATE before the others — witness below) or, on a lazy object, a property setter of the
    application raises (application code; an unknown keyword is refused before anything changes);
    create: every failure but a database error at the SELECT that reads the new row back.
    For inheritable create and `destroySelf` only `Quiet` (witnesses below; see also
    `C06_cleanup_undoes_parent_insert`). -/
def Atomic (sch : Schema) (s : St) (op : Op) (inj : Option Inj) : Prop :=
  Quiet sch s op inj ∨
  match op with
  | .setattr _ _ _ _ => True
  | .set c _ _ ex => noFk ex = true ∧ ((clsOf sch c).lazy = true → hasUnknown ex = true ∨ extrasErr ex = none)
  | .sync _ _ => True
  | .create _ _ _ _ => hit inj 2 = none
  | .createChild _ _ _ => False
  | .createChain _ => False
  | .destroy _ _ => False

instance (sch : Schema) (s : St) (op : Op) (inj : Option Inj) : Decidable (Atomic sch s op inj) := by
  unfold Atomic Quiet; cases op <;> infer_instance

/-- every non-obsolete instance without pending values shows exactly its stored row -/
def Coherent (k : Core) : Prop :=
  ∀ i ∈ k.insts, i.obsolete = false → i.pending = [] → rowVals k i.cls i.id = some i.vals

/-- **Frame, for every operation kind, every schema, state, invalid value, rejection and injected
    error index:** a failed call during which no completed micro-step changed anything is a no-op;
    the ghost counter is exact (it moves only when tables, links, instances or registrations do). -/
theorem C06_frame (sch : Schema) (s s' : St) (op : Op) (inj : Option Inj) (r : Option Err)
    (h : step sch s op inj = (s', r)) (hq : s'.changes = s.changes) : s'.core = s.core := by
  unfold step at h
  exact (run_frame sch inj _ _ s' r h).2 hq

/-- **C06 (partial: `Atomic`).**  An operation that raises — whatever made it raise, at whatever
    position — leaves the tables, the link tables, every instance's cached / pending values and
    flags, and the registered ids exactly as they were. -/
theorem C06_failed_op_is_noop_partial (sch : Schema) (s s' : St) (op : Op) (inj : Option Inj) (e : Err)
    (hA : Atomic sch s op inj) (h : step sch s op inj = (s', some e)) : s'.core = s.core := by
  cases hA with
  | inl hq => exact C06_frame sch s s' op inj _ h (by simpa [Quiet, h] using hq)
  | inr hA =>
    cases op with
    | setattr c id col v =>
      exact setProg_noop sch inj c id [(col, v)] [] { s with n := 0, log := [] } s' e rfl (fun _ => .inr rfl) h
    | set c id kw ex => exact setProg_noop sch inj c id kw ex { s with n := 0, log := [] } s' e hA.1 hA.2 h
    | sync c id => exact syncProg_noop sch inj c id { s with n := 0, log := [] } s' e h
    | create c missing kw ex =>
      exact createProg_noop sch inj c none missing kw ex { s with n := 0, log := [] } s' e hA h
    | createChild c pkw ckw => exact hA.elim
    | createChain levels => exact hA.elim
    | destroy c id => exact hA.elim

/-- the property's wording: db unchanged, every held instance unchanged and still equal to its row,
    no registration added or lost -/
theorem C06_failed_op_keeps_rows_instances_registrations (sch : Schema) (s s' : St) (op : Op)
    (inj : Option Inj) (e : Err) (hA : Atomic sch s op inj) (h : step sch s op inj = (s', some e)) :
    s'.core.tabs = s.core.tabs ∧ s'.core.links = s.core.links ∧ s'.core.insts = s.core.insts ∧
    s'.core.reg = s.core.reg ∧ (Coherent s.core → Coherent s'.core) := by
  have := C06_failed_op_is_noop_partial sch s s' op inj e hA h
  rw [this]; exact ⟨rfl, rfl, rfl, rfl, id⟩

/-- an operation either completes or is a no-op -/
theorem C06_success_or_unchanged (sch : Schema) (s : St) (op : Op) (inj : Option Inj)
    (hA : Atomic sch s op inj) :
    (step sch s op inj).2 = none ∨ (step sch s op inj).1.core = s.core := by
  cases hr : (step sch s op inj).2 with
  | none => exact .inl rfl
  | some e =>
    right
    exact C06_failed_op_is_noop_partial sch s _ op inj e hA (by rw [← hr])


/-! ## no orphan parent row: the clean-up sequence is the exact inverse of the parent's creation -/

/-- the clean-up of a failed child create, on the state level: after the parent's INSERT,
    registration and read-back, the sequence obsolete / DELETE / cache.expire / (instance unreachable)
    restores tables, instances and registrations exactly, provided the new id is fresh -/
theorem C06_cleanup_undoes_parent_insert (k : Core) (p pid : Nat) (vals : List Val)
    (hp : p < k.tabs.length)
    (hrow : ∀ r ∈ k.tabs.getD p [], (r.id != pid) = true)
    (hinst : ∀ i ∈ k.insts, i.is p pid = false)
    (hreg : ∀ r ∈ k.reg, (r != (p, pid)) = true) :
    let k1 : Core := { k with tabs := k.tabs.set p (k.tabs.getD p [] ++ [⟨pid, vals⟩]) }
    let k2 := applyMem (.reload p pid) (applyMem (.addInst p pid vals) k1)
    let k3 := applyMem (.obsolete p pid) k2
    let k4 : Core := { k3 with tabs := k3.tabs.set p ((k3.tabs.getD p []).filter fun r => r.id != pid) }
    applyMem (.drop p pid) (applyMem (.unreg p pid) k4) = k := by
  intro k1 k2 k3 k4
  have hfilt : ((k.tabs.getD p [] ++ [⟨pid, vals⟩] : List Row).filter fun r => r.id != pid) = k.tabs.getD p [] := by
    rw [List.filter_append, List.filter_eq_self.mpr hrow]; simp
  have hmap : ∀ f : Inst → Inst, (k.insts.map fun i => if i.is p pid then f i else i) = k.insts := by
    intro f
    conv => rhs; rw [← List.map_id k.insts]
    apply List.map_congr_left
    intro i hi; simp [hinst i hi]
  have hdrop : (k.insts.filter fun i => !(i.is p pid)) = k.insts :=
    List.filter_eq_self.mpr (by intro i hi; simp [hinst i hi])
  have hregf : (k.reg.filter fun r => r != (p, pid)) = k.reg := List.filter_eq_self.mpr hreg
  have his : (Inst.mk p pid vals [] false false).is p pid = true := by simp [Inst.is]
  have hget : (k.tabs.set p (k.tabs.getD p [] ++ [⟨pid, vals⟩])).getD p [] = k.tabs.getD p [] ++ [⟨pid, vals⟩] := by
    simp [List.getD, hp]
  have hfind : ((k.tabs.getD p [] ++ [⟨pid, vals⟩] : List Row).find? fun r => r.id == pid) = some ⟨pid, vals⟩ := by
    rw [List.find?_append]
    have : (k.tabs.getD p []).find? (fun r => r.id == pid) = none := by
      rw [List.find?_eq_none]; intro r hr; have := hrow r hr; simpa using this
    rw [this]; simp
  simp only [k4, k3, k2, k1, applyMem, mapInst, rowVals, hget, hfind, Option.map_some, List.map_append,
    List.map_map, List.filter_append, List.set_set, hfilt]
  have hcomp : ∀ g : Inst → Inst, (∀ i, i.is p pid = false → g i = i) → k.insts.map g = k.insts := by
    intro g hg
    conv => rhs; rw [← List.map_id k.insts]
    apply List.map_congr_left
    intro i hi; simp [hg i (hinst i hi)]
  rw [hcomp _ (by intro i hi; simp [Function.comp, hi]), hdrop, hregf, list_set_getD_self _ _ _ hp]
  simp [Inst.is]

/-! ## the full-strength statement is false of the current code: witnesses -/

/-- C06 at full strength -/
def C06_Full : Prop :=
  ∀ (sch : Schema) (s s' : St) (op : Op) (inj : Option Inj) (e : Err),
    step sch s op inj = (s', some e) → s'.core = s.core

def inst (c id : Nat) (vals : List Val) : Inst := ⟨c, id, vals, [], false, false⟩
def mkSt (tabs : List (List Row)) (insts : List Inst) : St :=
  { core := { tabs := tabs, links := [], insts := insts, reg := insts.map fun i => (i.cls, i.id) },
    seqs := tabs.map fun t => t.length, lastId := 0, n := 0, changes := 0, log := [] }

/-- W1: classes `A`, `C` (reference to A with `cascade='null'`), `D` (reference to A with
    `cascade=False`) in this registry order; one row each, both dependents reference A#1 -/
def W1.sch : Schema :=
  [{ cols := [{}] }, { cols := [{ fk := some (0, .null) }] }, { cols := [{ fk := some (0, .restrict) }] }]
def W1.s : St := mkSt [[⟨1, [some 7]⟩], [⟨1, [some 1]⟩], [⟨1, [some 1]⟩]]
  [inst 0 1 [some 7], inst 1 1 [some 1], inst 2 1 [some 1]]

/-- the refused `destroySelf` has already nulled C#1's reference -/
theorem C06_destroy_refused_witness :
    (step W1.sch W1.s (.destroy 0 1) none).2 = some .integrity ∧
    (step W1.sch W1.s (.destroy 0 1) none).1.core.tabs = [[⟨1, [some 7]⟩], [⟨1, [none]⟩], [⟨1, [some 1]⟩]] := by
  decide

theorem C06_failed_op_is_noop_full_FALSE : ¬ C06_Full := by
  intro h
  have := h W1.sch W1.s _ (.destroy 0 1) none .integrity (by
    show step W1.sch W1.s (.destroy 0 1) none = ((step W1.sch W1.s (.destroy 0 1) none).1, some .integrity)
    rw [← C06_destroy_refused_witness.1])
  revert this
  decide

/-- a database error in the middle of the cascade (statement 3 = the restriction test of D, after C was nulled) -/
theorem C06_destroy_db_error_mid_cascade_full_FALSE :
    (step W1.sch W1.s (.destroy 0 1) (some ⟨3, .operational⟩)).2 = some .operational ∧
    (step W1.sch W1.s (.destroy 0 1) (some ⟨3, .operational⟩)).1.core ≠ W1.s.core := by
  decide

/-- (repaired by a587e1a) the victim's own DELETE fails: nothing was deleted and the instance is
    not marked obsolete any more — the failure is `Quiet`, hence covered by the partial theorem -/
theorem C06_destroy_delete_fails_is_noop :
    Atomic [{ cols := [{}] }] (mkSt [[⟨1, [some 7]⟩]] [inst 0 1 [some 7]]) (.destroy 0 1) (some ⟨1, .operational⟩) ∧
    (step [{ cols := [{}] }] (mkSt [[⟨1, [some 7]⟩]] [inst 0 1 [some 7]]) (.destroy 0 1) (some ⟨1, .operational⟩)).2
      = some .operational := by
  decide

/-- create: the row is inserted and the instance registered, then the SELECT reading it back fails -/
theorem C06_create_db_error_after_insert_full_FALSE :
    (step [{ cols := [{}] }] (mkSt [[]] []) (.create 0 false [(0, .ok (some 5))] []) (some ⟨2, .operational⟩)).2
      = some .operational ∧
    (step [{ cols := [{}] }] (mkSt [[]] []) (.create 0 false [(0, .ok (some 5))] []) (some ⟨2, .operational⟩)).1.core.tabs
      = [[⟨1, [some 5]⟩]] := by
  decide

/-- (repaired by bf075e4) lazy `set(col=9, nosuch=…)`: the unknown keyword is refused before the
    column value is cached or made pending — covered by the partial theorem -/
theorem C06_lazy_set_unknown_keyword_is_noop :
    Atomic [{ cols := [{}], lazy := true }] (mkSt [[⟨1, [some 7]⟩]] [inst 0 1 [some 7]])
        (.set 0 1 [(0, .ok (some 9))] [.unknown]) none ∧
    (step [{ cols := [{}], lazy := true }] (mkSt [[⟨1, [some 7]⟩]] [inst 0 1 [some 7]])
        (.set 0 1 [(0, .ok (some 9))] [.unknown]) none).2 = some .typeError := by
  decide

/-- outside the property (application code raises): a property setter of the application that
    raises inside a lazy `set()` runs after the columns were cached; this is why `Atomic` asks for
    `extrasErr ex = none` there -/
theorem C06_lazy_set_raising_user_setter_not_atomic :
    (step [{ cols := [{}], lazy := true }] (mkSt [[⟨1, [some 7]⟩]] [inst 0 1 [some 7]])
        (.set 0 1 [(0, .ok (some 9))] [.badProp]) none).2 = some .attrError ∧
    (step [{ cols := [{}], lazy := true }] (mkSt [[⟨1, [some 7]⟩]] [inst 0 1 [some 7]])
        (.set 0 1 [(0, .ok (some 9))] [.badProp]) none).1.core.insts = [⟨0, 1, [some 9], [(0, some 9)], false, false⟩] := by
  decide

/-- eager `set(fk=<object>, w=<duplicate>)`: the ForeignKey given by object is written by its own
    UPDATE before the UPDATE of the plain columns is rejected: partial multi-column update -/
theorem C06_set_fk_by_object_full_FALSE :
    (step [{ cols := [{}, { unique := true }] }]
        (mkSt [[⟨1, [some 1, some 1]⟩, ⟨2, [some 1, some 2]⟩]] [inst 0 1 [some 1, some 1]])
        (.set 0 1 [(1, .ok (some 2))] [.fk 0 (some 2)]) none).2 = some .duplicate ∧
    (step [{ cols := [{}, { unique := true }] }]
        (mkSt [[⟨1, [some 1, some 1]⟩, ⟨2, [some 1, some 2]⟩]] [inst 0 1 [some 1, some 1]])
        (.set 0 1 [(1, .ok (some 2))] [.fk 0 (some 2)]) none).1.core.tabs
      = [[⟨1, [some 2, some 1]⟩, ⟨2, [some 1, some 2]⟩]] := by
  decide

/-- inheritable pair `Par` (a, childName) / `Chi` (b, childName) -/
def W5.sch : Schema := [{ cols := [{ unique := true }, {}] }, { cols := [{ unique := true }, {}], parent := some 0 }]
def W5.op : Op := .createChild 1 [(0, .ok (some 1)), (1, .ok (some 1))] [(0, .ok (some 1)), (1, .ok none)]

/-- statement 2 (the parent's read-back) fails: orphan parent row;
    statement 4 (the child's read-back) fails: the clean-up deletes the parent row, the child row stays -/
theorem C06_inheritable_create_full_FALSE :
    (step W5.sch (mkSt [[], []] []) W5.op (some ⟨2, .operational⟩)).1.core.tabs = [[⟨1, [some 1, some 1]⟩], []] ∧
    (step W5.sch (mkSt [[], []] []) W5.op (some ⟨4, .operational⟩)).1.core.tabs = [[], [⟨1, [some 1, none]⟩]] ∧
    (step W5.sch (mkSt [[], []] []) W5.op (some ⟨2, .operational⟩)).2 = some .operational ∧
    (step W5.sch (mkSt [[], []] []) W5.op (some ⟨4, .operational⟩)).2 = some .operational := by
  decide

/-- (repaired by 0470de1) a BaseException at statement 3 (the child's INSERT) is cleaned up like
    any other exception: the whole state is restored -/
theorem C06_inheritable_create_interrupt_cleaned :
    (step W5.sch (mkSt [[], []] []) W5.op (some ⟨3, .interrupt⟩)).2 = some .interrupt ∧
    (step W5.sch (mkSt [[], []] []) W5.op (some ⟨3, .interrupt⟩)).1.core = (mkSt [[], []] []).core := by
  decide

/-- three levels (`Par` / `Chi` / `Gra`): a duplicate key at the leaf's INSERT removes the rows of
    both ancestors again -/
theorem C06_three_level_create_leaf_failure_cleaned :
    (step (W5.sch ++ [{ cols := [{ unique := true }], parent := some 1 }])
        (mkSt [[⟨1, [some 1, some 1]⟩], [⟨1, [some 1, some 2]⟩], [⟨1, [some 5]⟩]]
          [inst 0 1 [some 1, some 1], inst 1 1 [some 1, some 2], inst 2 1 [some 5]])
        (.createChain [(2, [(0, .ok (some 5))]), (1, [(0, .ok (some 2)), (1, .ok (some 2))]),
                       (0, [(0, .ok (some 2)), (1, .ok (some 1))])]) none).2 = some .duplicate ∧
    (step (W5.sch ++ [{ cols := [{ unique := true }], parent := some 1 }])
        (mkSt [[⟨1, [some 1, some 1]⟩], [⟨1, [some 1, some 2]⟩], [⟨1, [some 5]⟩]]
          [inst 0 1 [some 1, some 1], inst 1 1 [some 1, some 2], inst 2 1 [some 5]])
        (.createChain [(2, [(0, .ok (some 5))]), (1, [(0, .ok (some 2)), (1, .ok (some 2))]),
                       (0, [(0, .ok (some 2)), (1, .ok (some 1))])]) none).1.core
      = (mkSt [[⟨1, [some 1, some 1]⟩], [⟨1, [some 1, some 2]⟩], [⟨1, [some 5]⟩]]
          [inst 0 1 [some 1, some 1], inst 1 1 [some 1, some 2], inst 2 1 [some 5]]).core := by
  decide

/-- `Chi#1` is referenced by `DC#1` with `cascade=False`: the inheritable `destroySelf` has deleted
    the parent row before the child's own `destroySelf` is refused -/
theorem C06_inheritable_destroy_refused_full_FALSE :
    (step (W5.sch ++ [{ cols := [{ fk := some (1, .restrict) }] }])
        (mkSt [[⟨1, [some 1, some 1]⟩], [⟨1, [some 1, none]⟩], [⟨1, [some 1]⟩]]
          [inst 0 1 [some 1, some 1], inst 1 1 [some 1, none], inst 2 1 [some 1]]) (.destroy 1 1) none).2
      = some .integrity ∧
    (step (W5.sch ++ [{ cols := [{ fk := some (1, .restrict) }] }])
        (mkSt [[⟨1, [some 1, some 1]⟩], [⟨1, [some 1, none]⟩], [⟨1, [some 1]⟩]]
          [inst 0 1 [some 1, some 1], inst 1 1 [some 1, none], inst 2 1 [some 1]]) (.destroy 1 1) none).1.core.tabs
      = [[], [⟨1, [some 1, none]⟩], [⟨1, [some 1]⟩]] := by
  decide

/-! ## non-vacuity: failing operations that satisfy `Atomic` -/

/-- second value of a two-column `set()` invalid; duplicate key on UPDATE; NOT NULL on create;
    restriction found before anything else was done; a child-level duplicate cleaned up -/
example : Atomic [{ cols := [{}, {}] }] (mkSt [[⟨1, [some 7, some 8]⟩]] [inst 0 1 [some 7, some 8]])
      (.set 0 1 [(0, .ok (some 1)), (1, .bad)] []) none ∧
    (step [{ cols := [{}, {}] }] (mkSt [[⟨1, [some 7, some 8]⟩]] [inst 0 1 [some 7, some 8]])
      (.set 0 1 [(0, .ok (some 1)), (1, .bad)] []) none).2 = some .invalid := by decide

example : (step [{ cols := [{ unique := true }, {}] }] (mkSt [[⟨1, [some 7, none]⟩, ⟨2, [some 8, none]⟩]] [inst 0 1 [some 7, none]])
      (.set 0 1 [(1, .ok (some 1)), (0, .ok (some 8))] []) none).2 = some .duplicate := by decide

example : (step [{ cols := [{ notNull := true }] }] (mkSt [[]] []) (.create 0 false [(0, .ok none)] []) none).2
    = some .dbIntegrity := by decide

example : Atomic [{ cols := [{}] }, { cols := [{ fk := some (0, .restrict) }] }, { cols := [{ fk := some (0, .null) }] }]
      W1.s (.destroy 0 1) none ∧
    (step [{ cols := [{}] }, { cols := [{ fk := some (0, .restrict) }] }, { cols := [{ fk := some (0, .null) }] }]
      W1.s (.destroy 0 1) none).2 = some .integrity := by decide

example : (step W5.sch (mkSt [[⟨1, [some 1, some 1]⟩], [⟨1, [some 1, none]⟩]] [inst 0 1 [some 1, some 1], inst 1 1 [some 1, none]])
      (.createChild 1 [(0, .ok (some 2)), (1, .ok (some 1))] [(0, .ok (some 1)), (1, .ok none)]) none).2 = some .duplicate ∧
    (step W5.sch (mkSt [[⟨1, [some 1, some 1]⟩], [⟨1, [some 1, none]⟩]] [inst 0 1 [some 1, some 1], inst 1 1 [some 1, none]])
      (.createChild 1 [(0, .ok (some 2)), (1, .ok (some 1))] [(0, .ok (some 1)), (1, .ok none)]) none).1.core
      = (mkSt [[⟨1, [some 1, some 1]⟩], [⟨1, [some 1, none]⟩]] [inst 0 1 [some 1, some 1], inst 1 1 [some 1, none]]).core := by
  decide

/-! ## syntactic conditions (read off the schema, the tables and `k`; no run of the model involved) -/

/-- `destroySelf` of `(c, id)`: a non-inheritable victim without link rows; the first `m` classes of
    the registry have nothing to do for it (no link rows, no referencing row); and then
    either class `m` refuses (a row references the victim through a `cascade=False` key and the class
    has no link rows to free first), or the injected error falls on one of the statements sent so
    far or on the next one (also counting the join DELETEs and the restriction test of class `m`
    when it has no link rows: `headCnt`), or `m` is the whole registry (nobody references the victim). -/
def DestroySyn (sch : Schema) (s : St) (c id : Nat) (inj : Option Inj) : Prop :=
  -- the injected error falls on the very first statement (any victim, inheritable or not), or
  (hit inj 1).isSome = true ∨
  (clsOf sch c).parent = none ∧
  ((clsOf sch c).joins.all fun j => linksQuiet s.core j.tab j.side id) = true ∧
  ∃ m ∈ List.range (sch.length + 1),
    (∀ kidx ∈ List.range m, EntryPasses sch s.core c id kidx = true) ∧
    ((m < sch.length ∧ EntryLinksQuiet sch s.core c id m = true ∧ EntryRefuses sch s.core c id m = true) ∨
     (match inj with
      | some i => 0 < i.k ∧ i.k ≤ (clsOf sch c).joins.length + loopCnt sch c (List.range m) +
          headCnt sch s.core c id (List.range' m (sch.length - m)) + 1
      | none => False) ∨
     m = sch.length)

instance (sch : Schema) (s : St) (c id : Nat) (inj : Option Inj) : Decidable (DestroySyn sch s c id inj) := by
  unfold DestroySyn
  cases inj <;> infer_instance

theorem range_split (n m : Nat) (h : m ≤ n) : List.range n = List.range m ++ List.range' m (n - m) := by
  rw [List.range_eq_range', List.range_eq_range']
  have := List.range'_append (s := 0) (m := m) (n := n - m) (step := 1)
  simp at this
  rw [this]; congr 1; omega

/-- **destroySelf, syntactic.**  Under `DestroySyn` a `destroySelf` that raises — refused, or hit by
    the injected error — has changed nothing. -/
theorem C06_destroy_noop_syntactic (sch : Schema) (s s' : St) (c id : Nat) (inj : Option Inj) (e : Err)
    (hS : DestroySyn sch s c id inj) (h : step sch s (.destroy c id) inj = (s', some e)) : s'.core = s.core := by
  rcases hS with hfirst | ⟨hpar, hown, m, hm, hpre, hstop⟩
  · obtain ⟨e0, he0⟩ := Option.isSome_iff_exists.mp hfirst
    obtain ⟨s1, e1, h1, hc1⟩ := HeadQuiet_destroy sch inj (fuelOf { s with n := 0, log := [] }) c id .done
      { s with n := 0, log := [] } e0 he0
    have : step sch s (.destroy c id) inj =
        run sch inj (destroyProg sch (fuelOf { s with n := 0, log := [] }) c id .done) { s with n := 0, log := [] } := rfl
    rw [this, h1] at h
    simp only [Prod.mk.injEq] at h
    rw [← h.1, hc1]
  have hm' : m ≤ sch.length := by simp at hm; omega
  rcases hstop with ⟨hlt, hl, hr⟩ | hinj | heq
  · refine destroy_noop_syn sch inj ((s.core.tabs.map List.length).sum + 2) c id { s with n := 0, log := [] } s' e
      (List.range m) (List.range' m (sch.length - m)) hpar (range_split _ _ hm') hown hpre (.inl ?_) h
    obtain ⟨k, hk⟩ : ∃ k, sch.length - m = k + 1 := ⟨sch.length - m - 1, by omega⟩
    exact ⟨m, List.range' (m + 1) k, by rw [hk, List.range'_succ], hl, hr⟩
  · cases inj with
    | none => exact hinj.elim
    | some i =>
      exact destroy_noop_syn_hit sch (some i) ((s.core.tabs.map List.length).sum + 2) c id { s with n := 0, log := [] } s' e
        (List.range m) (List.range' m (sch.length - m)) hpar (range_split _ _ hm') hown hpre
        ⟨i, rfl, hinj.1, by simpa [Nat.add_assoc] using hinj.2⟩ h
  · refine destroy_noop_syn sch inj ((s.core.tabs.map List.length).sum + 2) c id { s with n := 0, log := [] } s' e
      (List.range m) (List.range' m (sch.length - m)) hpar (range_split _ _ hm') hown hpre (.inr (.inr ?_)) h
    subst heq; simp

/-- inheritable create of a chain `L` (leaf first): every class is the inheritable child of the next;
    the classes of the chain hold no foreign key (with a cascade policy) to one another; the recursion
    budget covers the depth; and the id the root's INSERT is going to hand out is new: no instance /
    registration of a class of the chain carries it, no link row mentions it, no row of ANY class
    references it through a key with a cascade policy (`AllPass`: the classes of the chain may well
    have dependents and related joins) -/
def ChainSyn (sch : Schema) (s : St) (L : List (Nat × List (Nat × In))) : Prop :=
  L ≠ [] ∧ Chain sch (L.map (·.1)) ∧ (∀ x ∈ L.map (·.1), ∀ c ∈ L.map (·.1), entryFk sch x c = []) ∧
  L.length ≤ fuelOf s ∧
  ∀ t ∈ L.map (·.1), t < s.core.tabs.length ∧ FreshIR s.core t (s.seqs.getD (rootOf L) 0 + 1) ∧
    AllPass sch s.core t (s.seqs.getD (rootOf L) 0 + 1)

instance chainDec (sch : Schema) : (L : List Nat) → Decidable (Chain sch L)
  | [] => isTrue trivial
  | [r] => by unfold Chain; infer_instance
  | c :: p :: rest => by
    unfold Chain
    have := chainDec sch (p :: rest)
    infer_instance

instance (sch : Schema) (s : St) (L : List (Nat × List (Nat × In))) : Decidable (ChainSyn sch s L) := by
  unfold ChainSyn FreshIR AllPass; infer_instance

/-- **No orphan ancestor row, any depth.**  A failure of the uninjected create of an inheritable
    chain — an invalid value, a duplicate key, NOT NULL or CHECK at ANY level's INSERT — is a no-op:
    the rows, instances and registrations of the levels created so far are removed again by the
    clean-up. -/
theorem C06_inheritable_create_child_insert_failure_cleaned (sch : Schema) (s s' : St)
    (L : List (Nat × List (Nat × In))) (e : Err) (hS : ChainSyn sch s L)
    (h : step sch s (.createChain L) none = (s', some e)) : s'.core = s.core := by
  obtain ⟨hne, hch, hnd, hlen, hfr⟩ := hS
  rcases createInh_casesD sch none (fun _ => rfl) (fuelOf s) (L.map (·.1)) hnd L hne hch (fun _ h => h) hlen (fun _ => .done)
    { s with n := 0, log := [] } hfr with ⟨s1, e1, h1, hc1⟩ | ⟨s1, h1, _, _⟩
  · have : step sch s (.createChain L) none = run sch none (createInh sch (fuelOf s) L fun _ => .done) { s with n := 0, log := [] } := rfl
    rw [this, h1] at h
    simp only [Prod.mk.injEq] at h
    rw [← h.1, hc1]
  · have : step sch s (.createChain L) none = run sch none (createInh sch (fuelOf s) L fun _ => .done) { s with n := 0, log := [] } := rfl
    rw [this, h1] at h
    simp [run] at h

/-- the error injected at statement 1 (the root's INSERT): nothing has happened yet; any chain -/
theorem C06_inheritable_create_root_insert_failure_noop (sch : Schema) (s s' : St)
    (L : List (Nat × List (Nat × In))) (inj : Option Inj) (e e0 : Err) (hne : L ≠ [])
    (hhit : hit inj 1 = some e0)
    (h : step sch s (.createChain L) inj = (s', some e)) : s'.core = s.core := by
  obtain ⟨s1, e1, h1, hc1⟩ := createInh_root_hit sch inj (fuelOf s) L hne (fun _ => .done) { s with n := 0, log := [] } e0 hhit
  have : step sch s (.createChain L) inj = run sch inj (createInh sch (fuelOf s) L fun _ => .done) { s with n := 0, log := [] } := rfl
  rw [this, h1] at h
  simp only [Prod.mk.injEq] at h
  rw [← h.1, hc1]


instance lvOKDec (sch : Schema) (K : Core) (pid n0 J : Nat) : (L : List (Nat × List (Nat × In))) → Decidable (LvOK sch K pid n0 J L)
  | [] => isTrue trivial
  | (c, kw) :: anc => by
    unfold LvOK
    have := lvOKDec sch K pid n0 J anc
    infer_instance

theorem hit_some_ne (i : Inj) (n : Nat) (h : n ≠ i.k) : hit (some i) n = none := by
  simp [hit]; intro h'; exact absurd h'.symm h

/-- **No orphan ancestor row, any depth, any k.**  The chain as in `ChainSyn`, its classes distinct;
    the injected error (if any) falls on the INSERT of a level that is reached — every level before
    it has valid values and an accepted INSERT — (`LvOK`; in particular not on a read-back SELECT).
    Then a failing create — whatever failed first: a value, a constraint, the injected error of
    whatever exception class — is a no-op. -/
theorem C06_inheritable_create_insert_failure_cleaned_any_k (sch : Schema) (s s' : St)
    (L : List (Nat × List (Nat × In))) (i : Inj) (e : Err) (hS : ChainSyn sch s L)
    (hnd : (L.map (·.1)).Nodup) (hok : LvOK sch s.core (s.seqs.getD (rootOf L) 0 + 1) 0 i.k L)
    (h : step sch s (.createChain L) (some i) = (s', some e)) : s'.core = s.core := by
  obtain ⟨hne, hch, hdeps, hlen, hfr⟩ := hS
  have hstep : step sch s (.createChain L) (some i) =
      run sch (some i) (createInh sch (fuelOf s) L fun _ => .done) { s with n := 0, log := [] } := rfl
  rcases createInh_casesJD sch (some i) i.k (fun n hn => hit_some_ne i n hn) (fuelOf s) (L.map (·.1)) hdeps L hne hch hnd
    (fun _ h => h) hlen (fun _ => .done) { s with n := 0, log := [] } hfr hok with ⟨s1, e1, h1, hc1⟩ | ⟨s1, h1, _, _, _⟩
  · rw [hstep, h1] at h
    simp only [Prod.mk.injEq] at h
    rw [← h.1, hc1]
  · rw [hstep, h1] at h
    simp [run] at h


/-! ## the syntactic version of `Atomic`, and exactly what it leaves out -/

/-- the conditions on an inheritable create, for an optional injected error -/
def ChainOKk (sch : Schema) (s : St) (L : List (Nat × List (Nat × In))) (inj : Option Inj) : Prop :=
  ChainSyn sch s L ∧ (L.map (·.1)).Nodup ∧
  match inj with
  | none => True
  | some i => LvOK sch s.core (s.seqs.getD (rootOf L) 0 + 1) 0 i.k L

instance (sch : Schema) (s : St) (L : List (Nat × List (Nat × In))) (inj : Option Inj) :
    Decidable (ChainOKk sch s L inj) := by
  unfold ChainOKk; cases inj <;> infer_instance

/-- `Atomic` without running the model: every clause is read off the operation, the schema, the
    tables and the injected index `k`. -/
def AtomicSyn (sch : Schema) (s : St) (op : Op) (inj : Option Inj) : Prop :=
  match op with
  | .setattr _ _ _ _ => True
  | .set c _ kw ex => allOk kw = false ∨
      (noFk ex = true ∧ ((clsOf sch c).lazy = true → hasUnknown ex = true ∨ extrasErr ex = none))
  | .sync _ _ => True
  | .create _ _ _ _ => hit inj 2 = none
  | .createChild c pkw ckw =>
    match (clsOf sch c).parent with
    | some p => ChainOKk sch s [(c, ckw), (p, pkw)] inj ∨ (hit inj 1).isSome = true
    | none => hit inj 2 = none
  | .createChain L => L = [] ∨ ChainOKk sch s L inj ∨ (hit inj 1).isSome = true
  | .destroy c id => DestroySyn sch s c id inj

instance (sch : Schema) (s : St) (op : Op) (inj : Option Inj) : Decidable (AtomicSyn sch s op inj) := by
  unfold AtomicSyn
  cases op with
  | createChild c pkw ckw => simp only; cases (clsOf sch c).parent <;> infer_instance
  | _ => infer_instance

theorem chain_noop (sch : Schema) (s s' : St) (L : List (Nat × List (Nat × In))) (inj : Option Inj) (e : Err)
    (hA : L = [] ∨ ChainOKk sch s L inj ∨ (hit inj 1).isSome = true)
    (h : step sch s (.createChain L) inj = (s', some e)) : s'.core = s.core := by
  rcases hA with hnil | hok | hhit
  · subst hnil
    simp [step, progOf, createInh, run] at h
  · obtain ⟨hS, hnd, hlv⟩ := hok
    cases inj with
    | none => exact C06_inheritable_create_child_insert_failure_cleaned sch s s' L e hS h
    | some i => exact C06_inheritable_create_insert_failure_cleaned_any_k sch s s' L i e hS hnd hlv h
  · by_cases hne : L = []
    · subst hne; simp [step, progOf, createInh, run] at h
    · obtain ⟨e0, he0⟩ := Option.isSome_iff_exists.mp hhit
      exact C06_inheritable_create_root_insert_failure_noop sch s s' L inj e e0 hne he0 h

/-- **C06, syntactic.**  For every schema, state, operation and injected error satisfying
    `AtomicSyn`, an operation that raises is a no-op. -/
theorem C06_failed_op_is_noop_syntactic (sch : Schema) (s s' : St) (op : Op) (inj : Option Inj) (e : Err)
    (hA : AtomicSyn sch s op inj) (h : step sch s op inj = (s', some e)) : s'.core = s.core := by
  cases op with
  | setattr c id col v => exact C06_failed_op_is_noop_partial sch s s' _ inj e (.inr trivial) h
  | set c id kw ex =>
    rcases hA with hbad | hA
    · exact setProg_invalid_noop sch inj c id kw ex .done { s with n := 0, log := [] } s' _ hbad h
    · exact C06_failed_op_is_noop_partial sch s s' _ inj e (.inr hA) h
  | sync c id => exact C06_failed_op_is_noop_partial sch s s' _ inj e (.inr trivial) h
  | create c missing kw ex => exact C06_failed_op_is_noop_partial sch s s' _ inj e (.inr hA) h
  | createChain L => exact chain_noop sch s s' L inj e hA h
  | destroy c id => exact C06_destroy_noop_syntactic sch s s' c id inj e hA h
  | createChild c pkw ckw =>
    simp only [AtomicSyn] at hA
    cases hp : (clsOf sch c).parent with
    | none =>
      rw [hp] at hA
      have : step sch s (.createChild c pkw ckw) inj = step sch s (.create c false ckw []) inj := by
        simp [step, progOf, hp]
      rw [this] at h
      exact C06_failed_op_is_noop_partial sch s s' _ inj e (.inr hA) h
    | some p =>
      rw [hp] at hA
      have : step sch s (.createChild c pkw ckw) inj = step sch s (.createChain [(c, ckw), (p, pkw)]) inj := by
        simp [step, progOf, hp, createChildProg]
      rw [this] at h
      exact chain_noop sch s s' _ inj e (.inr hA) h


/-- what `ChainOKk` leaves out for a non-empty chain whose first statement is not the one hit:
    the chain is not covered by `ChainSyn` (a class is not the inheritable child of the next, a class
    of the chain references another one, something already carries or references the new id …), or a
    class occurs twice, or the injected error falls on a read-back SELECT, on a statement of the
    clean-up, or behind a level that fails by itself (¬ `LvOK`).
    Known findings in this region: `C06:inheritable-create-db-error-after-insert`,
    `C06:inheritable-create-cleanup-fails`. -/
def ChainGap (sch : Schema) (s : St) (L : List (Nat × List (Nat × In))) (inj : Option Inj) : Prop :=
  (hit inj 1).isSome = false ∧
  (¬ ChainSyn sch s L ∨ ¬ (L.map (·.1)).Nodup ∨
   ∃ i, inj = some i ∧ ¬ LvOK sch s.core (s.seqs.getD (rootOf L) 0 + 1) 0 i.k L)

/-- what `DestroySyn` leaves out: an inheritable victim (its parent row is deleted first:
    `C06:inheritable-destroySelf-fails-after-parent-row-deleted`), a victim with link rows of its own,
    or — for every prefix of the registry whose classes have nothing to do — the next class does not
    refuse quietly, the injected error does not fall on the statements sent so far, and the prefix
    is not the whole registry: something effective precedes the failure
    (`C06:destroySelf-refused-after-partial-cascade`, `C06:destroySelf-db-error-mid-cascade`). -/
def DestroyGap (sch : Schema) (s : St) (c id : Nat) (inj : Option Inj) : Prop :=
  (hit inj 1).isSome = false ∧
  ((clsOf sch c).parent ≠ none ∨
  ((clsOf sch c).joins.all fun j => linksQuiet s.core j.tab j.side id) = false ∨
  ∀ m ∈ List.range (sch.length + 1),
    (∀ kidx ∈ List.range m, EntryPasses sch s.core c id kidx = true) →
    ¬ (m < sch.length ∧ EntryLinksQuiet sch s.core c id m = true ∧ EntryRefuses sch s.core c id m = true) ∧
    ¬ (match inj with
       | some i => 0 < i.k ∧ i.k ≤ (clsOf sch c).joins.length + loopCnt sch c (List.range m) +
           headCnt sch s.core c id (List.range' m (sch.length - m)) + 1
       | none => False) ∧
    m ≠ sch.length)

/-- the complement of `AtomicSyn`, spelled out per operation kind -/
def NonAtomicShape (sch : Schema) (s : St) (op : Op) (inj : Option Inj) : Prop :=
  match op with
  | .setattr _ _ _ _ => False
  | .sync _ _ => False
  | .set c _ kw ex =>
    -- every value validates, and: a ForeignKey given by object
    -- (`C06:set-fk-by-object-written-before-failing-update`), or a property setter of the
    -- application raising inside a lazy `set()` (outside the property)
    allOk kw = true ∧
    (noFk ex = false ∨ ((clsOf sch c).lazy = true ∧ hasUnknown ex = false ∧ (extrasErr ex).isSome = true))
  | .create _ _ _ _ => (hit inj 2).isSome = true      -- `C06:create-db-error-after-insert`
  | .createChild c pkw ckw =>
    match (clsOf sch c).parent with
    | some p => ChainGap sch s [(c, ckw), (p, pkw)] inj
    | none => (hit inj 2).isSome = true
  | .createChain L => L ≠ [] ∧ ChainGap sch s L inj
  | .destroy c id => DestroyGap sch s c id inj

theorem not_chainOKk_iff (sch : Schema) (s : St) (L : List (Nat × List (Nat × In))) (inj : Option Inj) :
    ¬ (ChainOKk sch s L inj ∨ (hit inj 1).isSome = true) ↔ ChainGap sch s L inj := by
  unfold ChainGap ChainOKk
  constructor
  · intro h
    have h1 : ¬ (hit inj 1).isSome = true := fun x => h (.inr x)
    refine ⟨by simpa using h1, ?_⟩
    by_cases hS : ChainSyn sch s L
    · by_cases hN : (L.map (·.1)).Nodup
      · right; right
        cases inj with
        | none => exact absurd (.inl ⟨hS, hN, trivial⟩) h
        | some i => exact ⟨i, rfl, fun hl => h (.inl ⟨hS, hN, hl⟩)⟩
      · exact .inr (.inl hN)
    · exact .inl hS
  · intro ⟨h1, h2⟩ h
    rcases h with ⟨hS, hN, hl⟩ | hh
    · rcases h2 with h2 | h2 | ⟨i, hi, h2⟩
      · exact h2 hS
      · exact h2 hN
      · subst hi; exact h2 hl
    · rw [h1] at hh; cases hh

theorem not_destroySyn_iff (sch : Schema) (s : St) (c id : Nat) (inj : Option Inj) :
    ¬ DestroySyn sch s c id inj ↔ DestroyGap sch s c id inj := by
  unfold DestroySyn DestroyGap
  constructor
  · intro h
    have h1 : ¬ (hit inj 1).isSome = true := fun x => h (.inl x)
    refine ⟨by simpa using h1, ?_⟩
    by_cases hA : (clsOf sch c).parent = none
    · by_cases hB : ((clsOf sch c).joins.all fun j => linksQuiet s.core j.tab j.side id) = true
      · right; right
        intro m hm hP
        have hQ : ¬ _ := fun hQ => h (.inr ⟨hA, hB, m, hm, hP, hQ⟩)
        simp only [not_or] at hQ
        exact hQ
      · exact .inr (.inl (by simpa using hB))
    · exact .inl hA
  · intro ⟨h1, h⟩ hS
    rcases hS with hS | ⟨hA, hB, m, hm, hP, hQ⟩
    · rw [h1] at hS; cases hS
    rcases h with h | h | h
    · exact h hA
    · rw [hB] at h; cases h
    · have := h m hm hP
      rcases hQ with hQ | hQ | hQ
      · exact this.1 hQ
      · exact this.2.1 hQ
      · exact this.2.2 hQ

/-- **The gap, exactly.**  `AtomicSyn` fails precisely in the listed shapes. -/
theorem C06_nonatomic_cases_exactly (sch : Schema) (s : St) (op : Op) (inj : Option Inj) :
    ¬ AtomicSyn sch s op inj ↔ NonAtomicShape sch s op inj := by
  cases op with
  | setattr c id col v => simp [AtomicSyn, NonAtomicShape]
  | sync c id => simp [AtomicSyn, NonAtomicShape]
  | set c id kw ex =>
    simp only [AtomicSyn, NonAtomicShape]
    constructor
    · intro h
      have hok : allOk kw = true := by
        cases hk : allOk kw with
        | true => rfl
        | false => exact absurd (.inl hk) h
      refine ⟨hok, ?_⟩
      have h : ¬ (noFk ex = true ∧ ((clsOf sch c).lazy = true → hasUnknown ex = true ∨ extrasErr ex = none)) :=
        fun x => h (.inr x)
      by_cases h1 : noFk ex = true
      · right
        by_cases hl : (clsOf sch c).lazy = true
        · refine ⟨hl, ?_, ?_⟩
          · cases hu : hasUnknown ex with
            | false => rfl
            | true => exact absurd ⟨h1, fun _ => .inl hu⟩ h
          · cases he : extrasErr ex with
            | none => exact absurd ⟨h1, fun _ => .inr he⟩ h
            | some e => rfl
        · exact absurd ⟨h1, fun hl' => absurd hl' hl⟩ h
      · exact .inl (by simpa using h1)
    · intro ⟨hok, h⟩ hA
      rcases hA with hbad | ⟨h1, h2⟩
      · rw [hok] at hbad; cases hbad
      rcases h with h | ⟨hl, hu, he⟩
      · rw [h1] at h; cases h
      · rcases h2 hl with h2 | h2
        · rw [hu] at h2; cases h2
        · rw [h2] at he; cases he
  | create c missing kw ex =>
    simp only [AtomicSyn, NonAtomicShape]
    cases hit inj 2 <;> simp
  | createChain L =>
    simp only [AtomicSyn, NonAtomicShape]
    rw [← not_chainOKk_iff]
    constructor
    · intro h; exact ⟨fun hn => h (.inl hn), fun hx => h (.inr hx)⟩
    · intro ⟨h1, h2⟩ h
      rcases h with h | h
      · exact h1 h
      · exact h2 h
  | destroy c id => exact not_destroySyn_iff sch s c id inj
  | createChild c pkw ckw =>
    simp only [AtomicSyn, NonAtomicShape]
    cases (clsOf sch c).parent with
    | none => simp only; cases hit inj 2 <;> simp
    | some p => exact not_chainOKk_iff sch s _ inj

/-- every failing call that changed anything lies in one of the listed shapes -/
theorem C06_nonatomic_only_in_listed_shapes (sch : Schema) (s s' : St) (op : Op) (inj : Option Inj) (e : Err)
    (h : step sch s op inj = (s', some e)) (hne : s'.core ≠ s.core) : NonAtomicShape sch s op inj := by
  rw [← C06_nonatomic_cases_exactly]
  intro hA
  exact hne (C06_failed_op_is_noop_syntactic sch s s' op inj e hA h)

/-! ## non-vacuity of the syntactic conditions -/

/-- the restricting class is first in the registry: `DestroySyn` holds and the call is refused -/
example : AtomicSyn [{ cols := [{}] }, { cols := [{ fk := some (0, .restrict) }] }, { cols := [{ fk := some (0, .null) }] }]
      W1.s (.destroy 0 1) none ∧
    (step [{ cols := [{}] }, { cols := [{ fk := some (0, .restrict) }] }, { cols := [{ fk := some (0, .null) }] }]
      W1.s (.destroy 0 1) none).2 = some .integrity := by decide

/-- nobody references the victim: every injected index is covered -/
example : AtomicSyn [{ cols := [{}] }, { cols := [{ fk := some (0, .cascade) }] }]
      (mkSt [[⟨1, [some 7]⟩], []] [inst 0 1 [some 7]]) (.destroy 0 1) (some ⟨2, .operational⟩) ∧
    (step [{ cols := [{}] }, { cols := [{ fk := some (0, .cascade) }] }]
      (mkSt [[⟨1, [some 7]⟩], []] [inst 0 1 [some 7]]) (.destroy 0 1) (some ⟨2, .operational⟩)).2 = some .operational := by decide

/-- `W1` itself (C nulled before D refuses) is in the gap -/
example : NonAtomicShape W1.sch W1.s (.destroy 0 1) none :=
  (C06_nonatomic_cases_exactly _ _ _ _).mp (by decide)

/-- three levels, duplicate key at the leaf; and a KeyboardInterrupt at the middle level's INSERT -/
example : AtomicSyn (W5.sch ++ [{ cols := [{ unique := true }], parent := some 1 }])
      (mkSt [[⟨1, [some 1, some 1]⟩], [⟨1, [some 1, some 2]⟩], [⟨1, [some 5]⟩]]
        [inst 0 1 [some 1, some 1], inst 1 1 [some 1, some 2], inst 2 1 [some 5]])
      (.createChain [(2, [(0, .ok (some 5))]), (1, [(0, .ok (some 2)), (1, .ok (some 2))]),
                     (0, [(0, .ok (some 2)), (1, .ok (some 1))])]) none := by decide

example : AtomicSyn (W5.sch ++ [{ cols := [{ unique := true }], parent := some 1 }])
      (mkSt [[⟨1, [some 1, some 1]⟩], [⟨1, [some 1, some 2]⟩], [⟨1, [some 5]⟩]]
        [inst 0 1 [some 1, some 1], inst 1 1 [some 1, some 2], inst 2 1 [some 5]])
      (.createChain [(2, [(0, .ok (some 6))]), (1, [(0, .ok (some 2)), (1, .ok (some 2))]),
                     (0, [(0, .ok (some 2)), (1, .ok (some 1))])]) (some ⟨3, .interrupt⟩) := by decide

/-- … while the read-back SELECT of the middle level (statement 4) is in the gap -/
example : NonAtomicShape (W5.sch ++ [{ cols := [{ unique := true }], parent := some 1 }])
      (mkSt [[⟨1, [some 1, some 1]⟩], [⟨1, [some 1, some 2]⟩], [⟨1, [some 5]⟩]]
        [inst 0 1 [some 1, some 1], inst 1 1 [some 1, some 2], inst 2 1 [some 5]])
      (.createChain [(2, [(0, .ok (some 6))]), (1, [(0, .ok (some 2)), (1, .ok (some 2))]),
                     (0, [(0, .ok (some 2)), (1, .ok (some 1))])]) (some ⟨4, .operational⟩) :=
  (C06_nonatomic_cases_exactly _ _ _ _).mp (by decide)


theorem fkCols_pol (cols : List Col) (t : Nat) : ∀ a ∈ fkCols cols t, a.2 ≠ Pol.none := by
  intro a ha
  unfold fkCols at ha
  obtain ⟨jc, _, hjc⟩ := List.mem_filterMap.mp ha
  split at hjc
  · rename_i t' p _
    split at hjc
    · rename_i hcond
      cases hjc
      simp only [Bool.and_eq_true, bne_iff_ne, ne_eq] at hcond
      exact hcond.2
    · cases hjc
  · cases hjc

theorem refRows_nil_of_only_restrict (K : Core) (fk : List (Nat × Pol)) (kidx vid : Nat)
    (hp : ∀ a ∈ fk, a.2 ≠ Pol.none) (hn : nullCols fk = []) (hc : hasCascade fk = false)
    (hr : restrictingRowsK K fk kidx vid = false) : refRowsK K fk kidx vid = [] := by
  have hall : restrictCols fk = fk := by
    unfold restrictCols
    apply List.filter_eq_self.mpr
    intro a ha
    cases hpol : a.2 with
    | none => exact absurd hpol (hp a ha)
    | restrict => rfl
    | null =>
      have : a.1 ∈ nullCols fk := by
        unfold nullCols
        exact List.mem_map.mpr ⟨a, List.mem_filter.mpr ⟨ha, by simp [hpol]⟩, rfl⟩
      rw [hn] at this; cases this
    | cascade =>
      have : hasCascade fk = true := by
        unfold hasCascade
        exact List.any_eq_true.mpr ⟨a, ha, by simp [hpol]⟩
      rw [hc] at this; cases this
  unfold refRowsK
  unfold restrictingRowsK at hr
  rw [hall] at hr
  rw [List.filter_eq_nil_iff]
  intro row hrow hrefs
  have : ((K.tabs.getD kidx []).any fun r => rowRefs fk vid r.vals) = true :=
    List.any_eq_true.mpr ⟨row, hrow, hrefs⟩
  rw [this] at hr; cases hr

/-- every class before `r` has only `cascade=False` keys (or none) to the victim's class -/
def OnlyRestrictBefore (sch : Schema) (c r : Nat) : Prop :=
  ∀ kidx ∈ List.range r, nullCols (entryFk sch c kidx) = [] ∧ hasCascade (entryFk sch c kidx) = false

theorem range_split_at (n m : Nat) (h : m < n) :
    List.range n = List.range m ++ m :: List.range' (m + 1) (n - m - 1) := by
  rw [range_split n m (by omega)]
  obtain ⟨k, hk⟩ : ∃ k, n - m = k + 1 := ⟨n - m - 1, by omega⟩
  rw [hk, List.range'_succ]
  simp

/-- **A refused `destroySelf` is a no-op iff nothing effective precedes the refusing class** — here for
    the registries in which the classes before the first refusing one `r` hold only `cascade=False`
    keys to the victim's class, so that the only thing that can precede the refusal is the deletion
    of related-join link rows: the refused call changed nothing iff neither the victim nor any class
    up to `r` has a link row mentioning the victim. -/
theorem C06_destroy_refused_noop_iff (sch : Schema) (s s' : St) (c id r : Nat) (e : Err)
    (hpar : (clsOf sch c).parent = none) (hr : r < sch.length)
    (hfirst : ∀ kidx ∈ List.range r, EntryRefuses sch s.core c id kidx = false)
    (hrefuse : EntryRefuses sch s.core c id r = true)
    (honly : OnlyRestrictBefore sch c r)
    (h : step sch s (.destroy c id) none = (s', some e)) :
    s'.core = s.core ↔
      (((clsOf sch c).joins.all fun j => linksQuiet s.core j.tab j.side id) = true ∧
       ∀ kidx ∈ List.range (r + 1), EntryLinksQuiet sch s.core c id kidx = true) := by
  have hstep : step sch s (.destroy c id) none =
      run sch none (destroyProg sch ((s.core.tabs.map List.length).sum + 2 + 1) c id .done) { s with n := 0, log := [] } := rfl
  -- a class before `r` whose link rows are quiet has nothing to do
  have hpass : ∀ kidx ∈ List.range r, EntryLinksQuiet sch s.core c id kidx = true → EntryPasses sch s.core c id kidx = true := by
    intro kidx hk hl
    simp only [EntryPasses, Bool.and_eq_true, List.isEmpty_iff]
    exact ⟨hl, refRows_nil_of_only_restrict s.core _ kidx id (fkCols_pol _ _) (honly kidx hk).1 (honly kidx hk).2 (hfirst kidx hk)⟩
  constructor
  · intro heq
    have hown : ((clsOf sch c).joins.all fun j => linksQuiet s.core j.tab j.side id) = true := by
      cases hh : ((clsOf sch c).joins.all fun j => linksQuiet s.core j.tab j.side id) with
      | true => rfl
      | false =>
        rw [hstep] at h
        exact absurd heq (destroy_own_links_changed sch _ c id .done { s with n := 0, log := [] } s' _ hpar hh h)
    refine ⟨hown, ?_⟩
    -- by induction: every class up to `m` is quiet
    have key : ∀ m, m ≤ r + 1 → ∀ kidx ∈ List.range m, EntryLinksQuiet sch s.core c id kidx = true := by
      intro m
      induction m with
      | zero => intro _ kidx hk; simp at hk
      | succ m ih =>
        intro hm kidx hk
        have ihm := ih (by omega)
        by_cases hlt : kidx < m
        · exact ihm kidx (by simpa using hlt)
        · have hkm : kidx = m := by simp at hk; omega
          subst hkm
          cases hh : EntryLinksQuiet sch s.core c id kidx with
          | true => rfl
          | false =>
            rw [hstep] at h
            exact absurd heq (destroy_entry_links_changed sch _ c id { s with n := 0, log := [] } s' _
              (List.range kidx) kidx (List.range' (kidx + 1) (sch.length - kidx - 1)) hpar
              (range_split_at _ _ (by omega)) hown
              (fun j hj => hpass j (by simp at hj ⊢; omega) (ihm j hj)) hh h)
    exact key (r + 1) (Nat.le_refl _)
  · intro ⟨hown, hall⟩
    rw [hstep] at h
    exact destroy_noop_syn sch none _ c id { s with n := 0, log := [] } s' e
      (List.range r) (r :: List.range' (r + 1) (sch.length - r - 1)) hpar (range_split_at _ _ hr) hown
      (fun kidx hk => hpass kidx hk (hall kidx (by simp at hk ⊢; omega)))
      (.inl ⟨r, _, rfl, hall r (by simp), hrefuse⟩) h

/-- non-vacuity of the iff: victim `A#1` with a related join whose link table holds `(1, 5)`, class `D`
    referencing it with `cascade=False`: the hypotheses hold with `r = 1`, the call is refused, the
    right-hand side is false and indeed the link row is gone -/
example :
    let sch : Schema := [{ cols := [{}], joins := [⟨0, 2, false⟩] }, { cols := [{ fk := some (0, .restrict) }] }, { cols := [{}] }]
    let s : St := { (mkSt [[⟨1, [some 7]⟩], [⟨1, [some 1]⟩], []] [inst 0 1 [some 7], inst 1 1 [some 1]]) with
                    core := { (mkSt [[⟨1, [some 7]⟩], [⟨1, [some 1]⟩], []] [inst 0 1 [some 7], inst 1 1 [some 1]]).core with links := [[(1, 5)]] } }
    (clsOf sch 0).parent = none ∧ EntryRefuses sch s.core 0 1 1 = true ∧ EntryRefuses sch s.core 0 1 0 = false ∧
    OnlyRestrictBefore sch 0 1 ∧ (step sch s (.destroy 0 1) none).2 = some .integrity ∧
    ((clsOf sch 0).joins.all fun j => linksQuiet s.core j.tab j.side 1) = false ∧
    (step sch s (.destroy 0 1) none).1.core.links = [[]] := by
  refine ⟨rfl, by decide, by decide, ?_, by decide, by decide, by decide⟩
  intro kidx hk
  simp at hk; subst hk
  decide

/-- a value that `from_python` accepts and `to_python` rejects (validation step 2 of the column) is
    refused before any statement: attribute assignment, last position of a `set()`, create -/
example :
    AtomicSyn [{ cols := [{}, {}] }] (mkSt [[⟨1, [some 7, some 8]⟩]] [inst 0 1 [some 7, some 8]])
      (.setattr 0 1 1 (.bad2 (some 77))) none ∧
    (step [{ cols := [{}, {}] }] (mkSt [[⟨1, [some 7, some 8]⟩]] [inst 0 1 [some 7, some 8]])
      (.setattr 0 1 1 (.bad2 (some 77))) none).2 = some .invalid ∧
    (step [{ cols := [{}, {}] }] (mkSt [[⟨1, [some 7, some 8]⟩]] [inst 0 1 [some 7, some 8]])
      (.setattr 0 1 1 (.bad2 (some 77))) none).1.log = [] ∧
    (step [{ cols := [{}, {}] }] (mkSt [[⟨1, [some 7, some 8]⟩]] [inst 0 1 [some 7, some 8]])
      (.set 0 1 [(0, .ok (some 1)), (1, .bad2 (some 77))] []) none).2 = some .invalid ∧
    (step [{ cols := [{}, {}] }] (mkSt [[⟨1, [some 7, some 8]⟩]] [inst 0 1 [some 7, some 8]])
      (.create 0 false [(0, .ok (some 1)), (1, .bad2 (some 77))] []) none).1.log = [] := by decide

/-- `child.set(parentCol=7, ownCol=<duplicate>)` on an inheritable child: the inherited column is assigned
    on the parent instance (own UPDATE of the parent's row) before the child's own UPDATE is rejected:
    a partial multi-column update across the two levels -/
theorem C06_inheritable_set_parent_column_full_FALSE :
    (step W5.sch (mkSt [[⟨1, [some 1, some 1]⟩, ⟨2, [some 2, some 1]⟩], [⟨1, [some 1, none]⟩, ⟨2, [some 2, none]⟩]]
          [inst 0 1 [some 1, some 1], inst 1 1 [some 1, none]])
        (.set 1 1 [(0, .ok (some 2))] [.parentAttr 0 0 (.ok (some 7))]) none).2 = some .duplicate ∧
    (step W5.sch (mkSt [[⟨1, [some 1, some 1]⟩, ⟨2, [some 2, some 1]⟩], [⟨1, [some 1, none]⟩, ⟨2, [some 2, none]⟩]]
          [inst 0 1 [some 1, some 1], inst 1 1 [some 1, none]])
        (.set 1 1 [(0, .ok (some 2))] [.parentAttr 0 0 (.ok (some 7))]) none).1.core.tabs
      = [[⟨1, [some 7, some 1]⟩, ⟨2, [some 2, some 1]⟩], [⟨1, [some 1, none]⟩, ⟨2, [some 2, none]⟩]] := by
  decide

/-- … while an invalid OWN value of the child is found before the inherited column is touched -/
example :
    AtomicSyn W5.sch (mkSt [[⟨1, [some 1, some 1]⟩], [⟨1, [some 1, none]⟩]] [inst 0 1 [some 1, some 1], inst 1 1 [some 1, none]])
      (.set 1 1 [(0, .bad)] [.parentAttr 0 0 (.ok (some 7))]) none ∧
    (step W5.sch (mkSt [[⟨1, [some 1, some 1]⟩], [⟨1, [some 1, none]⟩]] [inst 0 1 [some 1, some 1], inst 1 1 [some 1, none]])
      (.set 1 1 [(0, .bad)] [.parentAttr 0 0 (.ok (some 7))]) none).1.log = [] := by decide


/-! ## the TRANSLATED source

The trees of `Model/Fail.lean` were compiled by hand.  From here on the subject is the Python source itself:
`vlib/extractors/pymain.py` (`_SO_setValue`, `set`) and `pyinherit.py` (`InheritableSQLObject._create`) translate the
functions from /repo's AST on every run; `Model/PyFail.lean` / `Model/FailInhX.lean` run the translated programs
under an injection schedule σ (the database error at the k-th statement; the outcome of every validator call) and
`Lemmas/FailX*.lean`, `Lemmas/FailInhX*.lean` prove by symbolic execution that the run ends exactly as the
hand-compiled tree does under σ: same error, same statement log, same tables / link tables / instances (cached
values, pending values, dirty, obsolete) / registered ids.  `PyFail.stepX` is the translated counterpart of `step`,
`PyFail.Tied` says what a Python call can express (column numbers in range, keyword names distinct, the level lists
of an inheritable create are what one constructor call produces); every operation kind of the model is covered. -/
section Translated
open SqlObjVerif.PyFail (stepX stepXS Tied QuietX viewObs runObs mkW vqOf kwPV setValueF setF syncUpdateF sendStmt Obs obs)

/-- `obj.col = v` on an EAGER class: the translated `_SO_setValue` under σ = the hand tree under σ -/
theorem C06_translated_setattr_eager_eq_model (sch : Schema) (inj : Option Inj) (props : Nat → Extra) (s : St)
    (c id col : Nat) (v : In) (_hl : (clsOf sch c).lazy = false) (hcol : col < (clsOf sch c).cols.length) :
    viewObs (setValueF (mkW sch inj props s c id (vqOf [(col, v)])) col v) =
      some (runObs (run sch inj (progOf sch s (.setattr c id col v)) s)) :=
  PyFail.setValueF_eq sch inj props s c id col v hcol

/-- `obj.col = v` on a LAZY class (pending value, dirty; nothing is sent) -/
theorem C06_translated_setattr_lazy_eq_model (sch : Schema) (inj : Option Inj) (props : Nat → Extra) (s : St)
    (c id col : Nat) (v : In) (_hl : (clsOf sch c).lazy = true) (hcol : col < (clsOf sch c).cols.length) :
    viewObs (setValueF (mkW sch inj props s c id (vqOf [(col, v)])) col v) =
      some (runObs (run sch inj (progOf sch s (.setattr c id col v)) s)) :=
  PyFail.setValueF_eq sch inj props s c id col v hcol

/-- `obj.set(**kw)` on an EAGER class, ANY number of keywords (plain columns, distinct names): every value is
    validated before anything is sent, one UPDATE in creation order, then the cached values -/
theorem C06_translated_set_eager_eq_model (sch : Schema) (inj : Option Inj) (props : Nat → Extra) (s : St)
    (c id : Nat) (kw : List (Nat × In)) (hl : (clsOf sch c).lazy = false)
    (hlt : ∀ e ∈ kw, e.1 < (clsOf sch c).cols.length) (hnd : (kw.map (·.1)).Nodup) :
    viewObs (setF (mkW sch inj props s c id (vqOf kw)) (kwPV kw)) =
      some (runObs (run sch inj (progOf sch s (.set c id kw [])) s)) :=
  PyFail.setF_eager_eq sch inj props s c id kw hl hlt hnd

/-- `obj.set(**kw)` on a LAZY class, any number of keywords -/
theorem C06_translated_set_lazy_eq_model (sch : Schema) (inj : Option Inj) (props : Nat → Extra) (s : St)
    (c id : Nat) (kw : List (Nat × In)) (hl : (clsOf sch c).lazy = true)
    (hlt : ∀ e ∈ kw, e.1 < (clsOf sch c).cols.length) (hnd : (kw.map (·.1)).Nodup) :
    viewObs (setF (mkW sch inj props s c id (vqOf kw)) (kwPV kw)) =
      some (runObs (run sch inj (progOf sch s (.set c id kw [])) s)) :=
  PyFail.setF_lazy_eq sch inj props s c id kw hl hlt hnd

/-- `obj.set(**pd)` with EXTRA keywords — names that are not plain columns (`props name` says what each is: unknown,
    a property of the application that works / raises, a ForeignKey given by object, an inherited column),
    interleaved arbitrarily with the column keywords in the Python dict `pd` — on an EAGER class: the translated `set`
    splits the dict as the hand model's `(kw, ex)` and ends as `setProg` does -/
theorem C06_translated_set_extras_eager_eq_model (sch : Schema) (inj : Option Inj) (props : Nat → Extra) (s : St)
    (c id : Nat) (pd : List (Nat × In)) (hl : (clsOf sch c).lazy = false) (hnd : (pd.map (·.1)).Nodup) :
    viewObs (setF (mkW sch inj props s c id (vqOf (pd.filter fun e => e.1 < (clsOf sch c).cols.length))) (kwPV pd)) =
      some (runObs (run sch inj
        (setProg sch c id (pd.filter fun e => e.1 < (clsOf sch c).cols.length)
          ((pd.filter fun e => ¬ e.1 < (clsOf sch c).cols.length).map fun e => props e.1) .done) s)) :=
  PyFail.setF_extras_eager_eq sch inj props s c id pd hl hnd

/-- … on a LAZY class (an unknown keyword is refused before anything changes) -/
theorem C06_translated_set_extras_lazy_eq_model (sch : Schema) (inj : Option Inj) (props : Nat → Extra) (s : St)
    (c id : Nat) (pd : List (Nat × In)) (hl : (clsOf sch c).lazy = true) (hnd : (pd.map (·.1)).Nodup) :
    viewObs (setF (mkW sch inj props s c id (vqOf (pd.filter fun e => e.1 < (clsOf sch c).cols.length))) (kwPV pd)) =
      some (runObs (run sch inj
        (setProg sch c id (pd.filter fun e => e.1 < (clsOf sch c).cols.length)
          ((pd.filter fun e => ¬ e.1 < (clsOf sch c).cols.length).map fun e => props e.1) .done) s)) :=
  PyFail.setF_extras_lazy_eq sch inj props s c id pd hl hnd

/-- **`set()` with TRANSLATED setters:** the setter of a ForeignKey given by object runs the translated `_SO_setValue`,
    the setter of an inherited column runs the translated `setfunc` of `InheritableSQLMeta.addColumn`, which assigns
    the attribute on `self._parent` (the parent's translated `_SO_setValue`, or the parent's own `setfunc` for a
    further ancestor); `b` = `_suppress_set_sig`; eager and lazy classes; the oracle queue holds the validator
    outcomes of the column keywords, then those of the setters (`vqEx`) -/
theorem C06_translated_set_translated_setters_eq_model (b : Bool) (sch : Schema) (inj : Option Inj) (props : Nat → Extra)
    (s : St) (c id : Nat) (pd : List (Nat × In)) (hnd : (pd.map (·.1)).Nodup)
    (hexok : ∀ e ∈ pd, ¬ e.1 < (clsOf sch c).cols.length → FailInhSet.exOk sch c (props e.1)) :
    viewObs (PyFail.setFWith (PyFail.propCallT FailInhSet.parentSetT) b
        (mkW sch inj props s c id
          (vqOf (pd.filter fun e => e.1 < (clsOf sch c).cols.length) ++
           PyFail.vqEx ((pd.filter fun e => ¬ e.1 < (clsOf sch c).cols.length).map fun e => props e.1)))
        (kwPV pd)) =
      some (runObs (run sch inj
        (setProg sch c id (pd.filter fun e => e.1 < (clsOf sch c).cols.length)
          ((pd.filter fun e => ¬ e.1 < (clsOf sch c).cols.length).map fun e => props e.1) .done) s)) :=
  FailInhSet.C06_translated_set_translated_setters_eq_model b sch inj props s c id pd hnd hexok

/-- **`InheritableSQLObject.set(**pd)`** (translated: `SQLObject.set(self, _suppress_set_sig=True, **kw)` when there is
    a parent) on an instance of ANY class of a hierarchy: the keywords naming the class's own columns go into its own
    UPDATE, each inherited column is assigned on the ancestor's instance by its own UPDATE of the ancestor's row
    BEFORE that — exactly `setProg sch c id kw ex` with `ex` the `.parentAttr` extras -/
theorem C06_translated_inheritable_set_eq_model (sch : Schema) (inj : Option Inj) (props : Nat → Extra)
    (s : St) (c id : Nat) (pd : List (Nat × In)) (hnd : (pd.map (·.1)).Nodup)
    (hexok : ∀ e ∈ pd, ¬ e.1 < (clsOf sch c).cols.length → FailInhSet.exOk sch c (props e.1)) :
    viewObs (FailInhSet.inhSetF
        (mkW sch inj props s c id
          (vqOf (pd.filter fun e => e.1 < (clsOf sch c).cols.length) ++
           PyFail.vqEx ((pd.filter fun e => ¬ e.1 < (clsOf sch c).cols.length).map fun e => props e.1)))
        (kwPV pd)) =
      some (runObs (run sch inj
        (setProg sch c id (pd.filter fun e => e.1 < (clsOf sch c).cols.length)
          ((pd.filter fun e => ¬ e.1 < (clsOf sch c).cols.length).map fun e => props e.1) .done) s)) :=
  FailInhSet.C06_translated_inheritable_set_eq_model sch inj props s c id pd hnd hexok

/-- **`obj.syncUpdate()`** of a lazy instance: the translated `syncUpdate` under σ = `syncProg` under σ — nothing
    pending: no statement; else ONE UPDATE of the pending values in creation order, and only after it returned are
    the pending values dropped and the dirty flag cleared (`_SO_createValues` is a dict of columns: distinct, in range) -/
theorem C06_translated_syncUpdate_eq_model (sch : Schema) (inj : Option Inj) (props : Nat → Extra) (s : St) (c id : Nat)
    (hp : ((pendingOf s c id).map (·.1)).Nodup ∧ ∀ e ∈ pendingOf s c id, e.1 < (clsOf sch c).cols.length) :
    viewObs (syncUpdateF (mkW sch inj props s c id [])) = some (runObs (run sch inj (syncProg c id .done) s)) :=
  PyFail.syncUpdateF_eq sch inj props s c id hp

/-- … a refused UPDATE (rejected by the database or hit by the injected error): the translated `syncUpdate` raises
    that error with the lock released, the tables / instances are untouched, and the pending values SURVIVE -/
theorem C06_translated_syncUpdate_refused_keeps_pending (sch : Schema) (inj : Option Inj) (props : Nat → Extra) (s : St)
    (c id : Nat)
    (hp : ((pendingOf s c id).map (·.1)).Nodup ∧ ∀ e ∈ pendingOf s c id, e.1 < (clsOf sch c).cols.length)
    (hne : pendingOf s c id ≠ []) (s1 : St) (e : Err)
    (hs : sendStmt sch inj (.update c id (sortAsg (pendingOf s c id))) s = (s1, some e)) :
    viewObs (syncUpdateF (mkW sch inj props s c id [])) = some (obs s1, some e) ∧
    (∃ w, syncUpdateF (mkW sch inj props s c id []) = .exc w e ∧ w.lock = false ∧ obs w.s = obs s1) ∧
    s1.core = s.core ∧ pendingOf s1 c id = pendingOf s c id :=
  PyFail.syncUpdateF_refused sch inj props s c id hp hne s1 e hs

/-- `Cls(id=…, **pk)`: the translated `__init__` → `_create` (default filling, the missing-keyword TypeError) →
    `set(**kw)` while `_creating` (the translated `set` itself) → `_SO_finishCreate` (sorted names / values, INSERT,
    `cache.created`, `_init` read-back) under σ = `createProg` under σ; `kwFullOf` = the keywords given followed by
    the defaulted columns in column order, `missingOf` = a column without default and defaultSQL is not given -/
theorem C06_translated_create_eq_model (dflt : Nat → Option In) (dsql : Nat → Bool) (sch : Schema) (inj : Option Inj)
    (props : Nat → Extra) (s : St) (c : Nat) (id? : Option Nat) (pk : List (Nat × In))
    (hnd : (pk.map (·.1)).Nodup) (hlt : ∀ e ∈ pk, e.1 < (clsOf sch c).cols.length) :
    viewObs (PyCreate.createF dflt dsql sch inj props s c (vqOf (PyCreate.kwFullOf dflt (clsOf sch c).cols.length pk)) id? pk) =
      some (runObs (run sch inj (createProg sch c id? (PyCreate.missingOf dflt dsql (clsOf sch c).cols.length pk)
        (PyCreate.kwFullOf dflt (clsOf sch c).cols.length pk) [] (fun _ => .done)) s)) :=
  PyCreate.C06_translated_create_eq_model dflt dsql sch inj props s c id? pk hnd hlt

/-- **`Cls(x=<object>, …)`: ForeignKeys given by OBJECT among the constructor's keywords** (`pd`: plain columns `pk`
    and by-object names `exs` with `props k = .fk col v`, `col` a ForeignKey column not given by name): `_create` does
    not fill the default of such a column (`column.foreignName in kw`), the translated `set` hands the keyword to the
    generated setter = the translated `_SO_setValue` in its creating branch, and `_SO_finishCreate` inserts the value:
    the hand model expresses this as `createProg` with the by-object columns appended to the keyword list
    (`createProg` itself ignores `.fk` extras; harness/c06.py generates no such create) -/
theorem C06_translated_create_fkobj_eq_model (ps : PyFail.FW → Nat → Nat → In → PyFail.Outcome) (dflt : Nat → Option In)
    (dsql : Nat → Bool) (sch : Schema) (inj : Option Inj) (props : Nat → Extra) (s : St) (c : Nat) (id? : Option Nat)
    (pd pk exs : List (Nat × In)) (hnd : (pd.map (·.1)).Nodup)
    (hpk : pd.filter (fun x => Nat.blt x.1 (clsOf sch c).cols.length) = pk)
    (hexs : pd.filter (fun x => !Nat.blt x.1 (clsOf sch c).cols.length) = exs)
    (hfk : ∀ e ∈ exs, ∃ col v, props e.1 = .fk col v ∧ col < (clsOf sch c).cols.length ∧
      (colOf (clsOf sch c).cols col).fk.isSome = true)
    (hfknd : ((exs.map (PyFail.fkOf props)).map (·.1)).Nodup)
    (hfkpk : ∀ e ∈ exs, PyCreate.hasKey pk (PyFail.fkOf props e).1 = false)
    (dflt' : Nat → Option In) (dsql' : Nat → Bool)
    (hdf : dflt' = PyCreate.maskD (PyCreate.byObject sch c props pd) dflt)
    (hdq : dsql' = PyCreate.maskQ (PyCreate.byObject sch c props pd) dsql) :
    viewObs (PyCreate.createFT ps dflt dsql sch inj props s c
        (vqOf (PyCreate.kwFullOf dflt' (clsOf sch c).cols.length pk) ++ PyFail.vqEx (exs.map fun e => props e.1)) id? pd) =
      some (runObs (run sch inj
        (createProg sch c id? (PyCreate.missingOf dflt' dsql' (clsOf sch c).cols.length pk)
          (PyCreate.kwFullOf dflt' (clsOf sch c).cols.length pk ++ exs.map (PyCreate.fkCol props)) [] (fun _ => .done)) s)) :=
  PyCreate.C06_translated_create_fkobj_eq_model ps dflt dsql sch inj props s c id? pd pk exs hnd hpk hexs hfk hfknd hfkpk
    dflt' dsql' hdf hdq

/-- **inheritable create, one level:** the translated `InheritableSQLObject._create` at class `c` of a chain, with
    the constructor of the parent level (`C`) behaving as the hand tree of the levels above, ends as `createInh`
    for the chain from `c` (keyword split along the chain, parent first, own `_create` under
    `try … except BaseException: self._parent.destroySelf(); raise`) -/
theorem C06_translated_inheritable_create_level_eq_model (X : InhX.Ctx) (C : InhX.Construct) (w : InhX.FW) (c : Nat)
    (rest : List Nat) (es : List (InhX.PVal × InhX.PVal)) (tag : Option Nat) (hch : Chain X.sch (c :: rest))
    (hdep : (c :: rest).length ≤ X.depth) (hnd : (es.map (·.1)).Nodup) (hreq : InhX.Required X (c :: rest) es)
    (kwv : InhX.PVal)
    (hkw : kwv = InhX.dictOf X (c :: rest) es tag ∨
      kwv = .cons (.pair (.str "kw") (InhX.dictOf X (c :: rest) es tag)) .nil)
    (hcons : ∀ p rest', rest = p :: rest' → ∃ w1 : InhX.FW,
      w1.st = (run X.sch X.inj (createInh X.sch X.fuel (InhX.levelsOf X (p :: rest') es (some c)) fun _ => .done) w.st).1 ∧
      C w p (InhX.dictOf X (p :: rest') es (some c)) =
        InhX.consRes p w1 (run X.sch X.inj (createInh X.sch X.fuel (InhX.levelsOf X (p :: rest') es (some c)) fun _ => .done) w.st).2) :
    InhX.outOf (InhX.createX X C w c .none kwv) =
      some (run X.sch X.inj (createInh X.sch X.fuel (InhX.levelsOf X (c :: rest) es tag) fun _ => .done) w.st) :=
  C06_translated_inhcreate_level_eq_model X C w c rest es tag hch hdep hnd hreq kwv hkw hcons

/-- **inheritable create, any depth:** the translated `_create` calling ITSELF through the constructor along the
    class chain = `createInh` for the whole chain (the complete post-state, ghost counter included) -/
theorem C06_translated_inheritable_create_eq_model (X : InhX.Ctx) (w : InhX.FW) (c : Nat) (rest : List Nat)
    (es : List (InhX.PVal × InhX.PVal)) (tag : Option Nat) (hch : Chain X.sch (c :: rest))
    (hdep : (c :: rest).length ≤ X.depth) (hnd : (es.map (·.1)).Nodup) (hreq : InhX.Required X (c :: rest) es)
    (n : Nat) (hn : (c :: rest).length ≤ n) (kwv : InhX.PVal)
    (hkw : kwv = InhX.dictOf X (c :: rest) es tag ∨
      kwv = .cons (.pair (.str "kw") (InhX.dictOf X (c :: rest) es tag)) .nil) :
    InhX.outOf (InhX.createN X n w c .none kwv) =
      some (run X.sch X.inj (createInh X.sch X.fuel (InhX.levelsOf X (c :: rest) es tag) fun _ => .done) w.st) :=
  C06_translated_inhcreate_eq_model X w c rest es tag hch hdep hnd hreq n hn kwv hkw

/-- **`destroySelf()`, any schema (inheritable classes included), any depth of cascade:** the translated
    `SQLObject.destroySelf` (11 loops: own related joins, the dependents loop with its restriction test
    `….count()`, the `cascade='null'` rows `row.set(**clear)` [+ `syncUpdate()`], the `cascade=True` rows
    `row.destroySelf()`; `_SO_delete`, `_obsolete`, `cache.expire`) and the translated
    `InheritableSQLObject.destroySelf` (parent instance first) with dynamic dispatch, every nested `destroySelf()`
    bound to the translated program itself — run under an exception-injecting semantics in which `count()` and
    entering `for row in results` SEND a statement — end in exactly the state (ghost counter included) and error
    `destroyProg` ends in under the same schedule, for every budget of nested calls -/
theorem C06_translated_destroy_eq_model (sch : Schema) (inj : Option Inj) (isInh : Nat → Bool)
    (hinh : ∀ c, (clsOf sch c).parent ≠ none → isInh c = true) (fuel c id : Nat) (s : St) :
    FailDX.destroyI sch inj isInh fuel c id s = some (run sch inj (destroyProg sch fuel c id .done) s) :=
  FailDX.C06_translated_inhdestroy_eq_model sch inj isInh hinh fuel c id s

/-- … for a schema without inheritable children: the translated `SQLObject.destroySelf` alone -/
theorem C06_translated_plain_destroy_eq_model (sch : Schema) (hnp : FailDX.NoParent sch) (inj : Option Inj)
    (fuel c id : Nat) (s : St) :
    FailDX.destroyF sch inj fuel c id s = FailDX.outCall (run sch inj (destroyProg sch fuel c id .done) s) :=
  FailDX.C06_translated_destroy_eq_model sch hnp inj fuel c id s

/-- **inheritable create in ONE world, nothing assumed about the callees:** the translated
    `InheritableSQLObject._create` calling itself along the class chain, whose `super()._create(id, **kw)` RUNS the
    translated `SQLObject._create` (→ translated `set` → translated `_SO_finishCreate`) and whose
    `self._parent.destroySelf()` RUNS the translated `destroySelf` (`FailDX.destroyI`), ends in the complete state
    (ghost counter included) `createInh` ends in; `T` = the per-class defaults tables (`Agrees`: they are what `X.complete`
    computes), `LevelsOk`: per level distinct column keywords in range and no required keyword missing -/
theorem C06_translated_inheritable_create_one_world_eq_model (X : InhX.Ctx) (T : InhX.Tr) (hag : InhX.Agrees X T)
    (hinh : ∀ c, (clsOf X.sch c).parent ≠ none → T.isInh c = true)
    (w : InhX.FW) (c : Nat) (rest : List Nat) (es : List (InhX.PVal × InhX.PVal)) (tag : Option Nat)
    (hch : Chain X.sch (c :: rest)) (hdep : (c :: rest).length ≤ X.depth)
    (hnd : (es.map (·.1)).Nodup) (hreq : InhX.Required X (c :: rest) es)
    (hok : InhX.LevelsOk X T (c :: rest) es tag) (n : Nat) (hn : (c :: rest).length ≤ n) (kwv : InhX.PVal)
    (hkw : kwv = InhX.dictOf X (c :: rest) es tag ∨
      kwv = .cons (.pair (.str "kw") (InhX.dictOf X (c :: rest) es tag)) .nil) :
    InhX.outOf (InhX.createNT X T n w c .none kwv) =
      some (run X.sch X.inj (createInh X.sch X.fuel (InhX.levelsOf X (c :: rest) es tag) fun _ => .done) w.st) :=
  C06_translated_inheritable_create_composed_eq_model X T hag hinh w c rest es tag hch hdep hnd hreq hok n hn kwv hkw

/-- `Tied` has a clause for EVERY operation of the model (none is excluded as such) -/
theorem C06_translated_tied_covers_every_op_kind :
    (∀ sch s c id col v, Tied sch s (.setattr c id col v) ↔ col < (clsOf sch c).cols.length) ∧
    (∀ sch s c id, Tied sch s (.destroy c id)) ∧
    (∀ sch s c pkw ckw, Tied sch s (.createChild c pkw ckw) ↔ InhX.TiedInh sch s (.createChild c pkw ckw)) ∧
    (∀ sch s l, Tied sch s (.createChain l) ↔ InhX.TiedInh sch s (.createChain l)) :=
  ⟨fun _ _ _ _ _ _ => Iff.rfl, fun _ _ _ _ => trivial, fun _ _ _ _ _ => Iff.rfl, fun _ _ _ => Iff.rfl⟩

/-- every tied operation — attribute assignment, `set` with any keywords, `syncUpdate`, create, inheritable create
    (`createChild` / `createChain`), `destroySelf` —: the translated program under σ ends as `step` does -/
theorem C06_translated_step_eq_model (sch : Schema) (props : Nat → Extra) (s : St) (op : Op) (inj : Option Inj)
    (hT : Tied sch s op) : stepX sch props s op inj = some (runObs (step sch s op inj)) :=
  PyFail.stepX_eq_model sch props s op inj hT

/-- a run of the translated program of a tied operation IS a run of the hand model -/
theorem translated_run_is_step (sch : Schema) (props : Nat → Extra) (s : St) (op : Op) (inj : Option Inj)
    (hT : Tied sch s op) (o : Obs) (r : Option Err) (h : stepX sch props s op inj = some (o, r)) :
    ∃ s', step sch s op inj = (s', r) ∧ obs s' = o := by
  rw [C06_translated_step_eq_model sch props s op inj hT] at h
  simp only [runObs, Option.some.injEq, Prod.mk.injEq] at h
  exact ⟨(step sch s op inj).1, by rw [← h.2], h.1⟩

/-- **C06 about the translated source, syntactic condition.**  For every schema, state, tied operation and
    schedule satisfying the decidable, purely syntactic `AtomicSyn`: if the TRANSLATED program raises, tables, link
    tables, every instance and the registered ids are what they were. -/
theorem C06_translated_failed_op_is_noop_syntactic (sch : Schema) (props : Nat → Extra) (s : St) (op : Op)
    (inj : Option Inj) (o : Obs) (e : Err) (hT : Tied sch s op) (hA : AtomicSyn sch s op inj)
    (h : stepX sch props s op inj = some (o, some e)) : o.core = s.core := by
  obtain ⟨s', hs, ho⟩ := translated_run_is_step sch props s op inj hT o _ h
  rw [← ho]
  exact C06_failed_op_is_noop_syntactic sch s s' op inj e hA hs

/-- **Frame, about the translated source:** for EVERY operation `stepX` runs and every schedule — a call of the
    TRANSLATED program during which no completed step of the interpreter (`memStep`: an in-memory effect,
    `sendStmt`: a statement) changed anything (`QuietX`: the interpreter's own ghost counter did not move) leaves
    tables, link tables, instances and registrations as they were.  (`PyFail.run_frameX` proves the exactness of
    the ghost counter for every program of the fragment by induction over the syntax.) -/
theorem C06_translated_frame (sch : Schema) (props : Nat → Extra) (s : St) (op : Op) (inj : Option Inj)
    (o : Obs) (r : Option Err) (h : stepX sch props s op inj = some (o, r)) (hq : QuietX sch props s op inj) :
    o.core = s.core :=
  PyFail.stepX_quiet_noop sch props s op inj o r h hq

/-- `Atomic`, expressed on the translated program: quiet (its own ghost counter did not move), or the
    per-operation clauses of `Atomic` -/
def AtomicX (sch : Schema) (props : Nat → Extra) (s : St) (op : Op) (inj : Option Inj) : Prop :=
  QuietX sch props s op inj ∨
  match op with
  | .setattr _ _ _ _ => True
  | .set c _ _ ex => noFk ex = true ∧ ((clsOf sch c).lazy = true → hasUnknown ex = true ∨ extrasErr ex = none)
  | .sync _ _ => True
  | .create _ _ _ _ => hit inj 2 = none
  | .createChild _ _ _ => False
  | .createChain _ => False
  | .destroy _ _ => False

instance (sch : Schema) (props : Nat → Extra) (s : St) (op : Op) (inj : Option Inj) :
    Decidable (AtomicX sch props s op inj) := by
  unfold AtomicX; cases op <;> infer_instance

/-- **C06 (partial: `AtomicX`) about the translated source.**  A tied operation whose TRANSLATED program raises —
    whatever made it raise, at whatever position of the schedule — leaves tables, link tables, every instance's
    cached / pending values and flags, and the registered ids exactly as they were. -/
theorem C06_translated_failed_op_is_noop_partial (sch : Schema) (props : Nat → Extra) (s : St) (op : Op)
    (inj : Option Inj) (o : Obs) (e : Err) (hT : Tied sch s op) (hA : AtomicX sch props s op inj)
    (h : stepX sch props s op inj = some (o, some e)) : o.core = s.core := by
  cases hA with
  | inl hq => exact C06_translated_frame sch props s op inj o _ h hq
  | inr hA =>
    obtain ⟨s', hs, ho⟩ := translated_run_is_step sch props s op inj hT o _ h
    rw [← ho]
    exact C06_failed_op_is_noop_partial sch s s' op inj e (.inr hA) hs

/-- the translated program of a tied operation either completes or is a no-op -/
theorem C06_translated_success_or_unchanged (sch : Schema) (props : Nat → Extra) (s : St) (op : Op)
    (inj : Option Inj) (hT : Tied sch s op) (hA : AtomicX sch props s op inj) :
    ∃ o r, stepX sch props s op inj = some (o, r) ∧ (r = none ∨ o.core = s.core) := by
  have h := C06_translated_step_eq_model sch props s op inj hT
  refine ⟨_, _, h, ?_⟩
  cases hr : (step sch s op inj).2 with
  | none => exact .inl (by simp [runObs, hr])
  | some e =>
    right
    exact C06_translated_failed_op_is_noop_partial sch props s op inj _ e hT hA (by rw [h]; simp [runObs, hr])

/-- non-vacuity: a tied two-keyword `set()` whose second value is invalid; the translated program raises `Invalid`
    (evaluated: the interpreter runs the translated `set`) -/
example : Tied [{ cols := [{}, {}] }] (mkSt [[⟨1, [some 7, some 8]⟩]] [inst 0 1 [some 7, some 8]]) (.set 0 1 [(0, .ok (some 1)), (1, .bad)] []) ∧
    (stepX [{ cols := [{}, {}] }] (fun _ => .unknown) (mkSt [[⟨1, [some 7, some 8]⟩]] [inst 0 1 [some 7, some 8]])
      (.set 0 1 [(0, .ok (some 1)), (1, .bad)] []) none).map (·.2) = some (some .invalid) := by
  constructor
  · decide
  · decide +kernel

/-- the witness `C06_set_fk_by_object_full_FALSE`, replayed through the TRANSLATED `set` (kernel evaluation of the
    interpreter on the translated program): the ForeignKey given by object is written by its own UPDATE before the
    UPDATE of the plain columns is rejected — so the full-strength statement is false of the translated source too -/
theorem C06_translated_set_fk_by_object_full_FALSE :
    ¬ (∀ (sch : Schema) (props : Nat → Extra) (s : St) (op : Op) (inj : Option Inj) (o : Obs) (e : Err),
        Tied sch s op → stepX sch props s op inj = some (o, some e) → o.core = s.core) := by
  intro h
  have := h [{ cols := [{}, { unique := true }] }] (fun _ => .unknown)
    (mkSt [[⟨1, [some 1, some 1]⟩, ⟨2, [some 1, some 2]⟩]] [inst 0 1 [some 1, some 1]])
    (.set 0 1 [(1, .ok (some 2))] [.fk 0 (some 2)]) none
    (obs (step [{ cols := [{}, { unique := true }] }]
      (mkSt [[⟨1, [some 1, some 1]⟩, ⟨2, [some 1, some 2]⟩]] [inst 0 1 [some 1, some 1]])
      (.set 0 1 [(1, .ok (some 2))] [.fk 0 (some 2)]) none).1) .duplicate (by decide) (by decide +kernel)
  revert this
  decide

/-- the witness `C06_create_db_error_after_insert_full_FALSE` through the TRANSLATED constructor: the error injected at
    statement 2 (the read-back SELECT of `_init`) leaves the inserted row and the registered instance -/
theorem C06_translated_create_db_error_after_insert_full_FALSE :
    Tied [{ cols := [{}] }] (mkSt [[]] []) (.create 0 false [(0, .ok (some 5))] []) ∧
    (stepX [{ cols := [{}] }] (fun _ => .unknown) (mkSt [[]] []) (.create 0 false [(0, .ok (some 5))] [])
      (some ⟨2, .operational⟩)).map (fun r => (r.1.core.tabs, r.1.core.reg, r.2)) =
      some ([[⟨1, [some 5]⟩]], [(0, 1)], some .operational) := by
  constructor
  · decide
  · decide +kernel

/-- the witnesses `C06_destroy_refused_witness` / `C06_destroy_db_error_mid_cascade_full_FALSE` /
    `C06_inheritable_destroy_refused_full_FALSE` through the TRANSLATED `destroySelf`: refused after C#1 was nulled;
    error injected at statement 3; the parent row of an inheritable child deleted before the child's refusal -/
theorem C06_translated_destroy_full_FALSE :
    (stepX W1.sch (fun _ => .unknown) W1.s (.destroy 0 1) none).map (fun r => (r.1.core.tabs, r.2)) =
      some ([[⟨1, [some 7]⟩], [⟨1, [none]⟩], [⟨1, [some 1]⟩]], some .integrity) ∧
    (stepX W1.sch (fun _ => .unknown) W1.s (.destroy 0 1) (some ⟨3, .operational⟩)).map (fun r => (r.1.core.tabs, r.2)) =
      some ([[⟨1, [some 7]⟩], [⟨1, [none]⟩], [⟨1, [some 1]⟩]], some .operational) ∧
    (stepX (W5.sch ++ [{ cols := [{ fk := some (1, .restrict) }] }]) (fun _ => .unknown)
        (mkSt [[⟨1, [some 1, some 1]⟩], [⟨1, [some 1, none]⟩], [⟨1, [some 1]⟩]]
          [inst 0 1 [some 1, some 1], inst 1 1 [some 1, none], inst 2 1 [some 1]]) (.destroy 1 1) none).map
        (fun r => (r.1.core.tabs, r.2)) =
      some ([[], [⟨1, [some 1, none]⟩], [⟨1, [some 1]⟩]], some .integrity) := by
  refine ⟨?_, ?_, ?_⟩ <;> decide +kernel

/-- the witness `C06_inheritable_create_full_FALSE` through `stepX` (translated `InheritableSQLObject._create` +
    translated `SQLObject._create` + translated `destroySelf`): statement 2 fails: orphan parent row; statement 4
    fails: the clean-up deletes the parent row, the child row stays; interrupt at 3: cleaned up -/
theorem C06_translated_inheritable_create_full_FALSE :
    Tied W5.sch (mkSt [[], []] []) W5.op ∧
    (stepX W5.sch (fun _ => .unknown) (mkSt [[], []] []) W5.op (some ⟨2, .operational⟩)).map (fun r => (r.1.core.tabs, r.2)) =
      some ([[⟨1, [some 1, some 1]⟩], []], some .operational) ∧
    (stepX W5.sch (fun _ => .unknown) (mkSt [[], []] []) W5.op (some ⟨4, .operational⟩)).map (fun r => (r.1.core.tabs, r.2)) =
      some ([[], [⟨1, [some 1, none]⟩]], some .operational) ∧
    (stepX W5.sch (fun _ => .unknown) (mkSt [[], []] []) W5.op (some ⟨3, .interrupt⟩)).map (fun r => (r.1.core, r.2)) =
      some ((mkSt [[], []] []).core, some .interrupt) := by
  refine ⟨?_, ?_, ?_, ?_⟩ <;> decide +kernel

/-- the open finding `C06:inheritable-set-parent-column-written-before-failing-update`
    (`C06_inheritable_set_parent_column_full_FALSE`) through the TRANSLATED `InheritableSQLObject.set` + `set` +
    `setfunc` + the parent's `_SO_setValue` (`stepX` of a `set` runs exactly these): `child.set(parentCol=7,
    ownCol=<duplicate>)` raises `Duplicate` with the parent's row already changed -/
theorem C06_translated_inheritable_set_parent_column_full_FALSE :
    Tied W5.sch (mkSt [[⟨1, [some 1, some 1]⟩, ⟨2, [some 2, some 1]⟩], [⟨1, [some 1, none]⟩, ⟨2, [some 2, none]⟩]]
          [inst 0 1 [some 1, some 1], inst 1 1 [some 1, none]])
        (.set 1 1 [(0, .ok (some 2))] [.parentAttr 0 0 (.ok (some 7))]) ∧
    (stepX W5.sch (fun _ => .unknown)
        (mkSt [[⟨1, [some 1, some 1]⟩, ⟨2, [some 2, some 1]⟩], [⟨1, [some 1, none]⟩, ⟨2, [some 2, none]⟩]]
          [inst 0 1 [some 1, some 1], inst 1 1 [some 1, none]])
        (.set 1 1 [(0, .ok (some 2))] [.parentAttr 0 0 (.ok (some 7))]) none).map (fun r => (r.1.core.tabs, r.2)) =
      some ([[⟨1, [some 7, some 1]⟩, ⟨2, [some 2, some 1]⟩], [⟨1, [some 1, none]⟩, ⟨2, [some 2, none]⟩]], some .duplicate) := by
  constructor
  · decide
  · decide +kernel

/-- … and it is quiet in the translated program's own ghost counter -/
example : AtomicX [{ cols := [{}, {}] }] (fun _ => .unknown) (mkSt [[⟨1, [some 7, some 8]⟩]] [inst 0 1 [some 7, some 8]])
      (.set 0 1 [(0, .ok (some 1)), (1, .bad)] []) none := by
  left; decide +kernel

end Translated

end SqlObjVerif.Fail
