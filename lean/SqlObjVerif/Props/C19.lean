import SqlObjVerif.Lemmas.Events
import SqlObjVerif.Lemmas.EventsX
import SqlObjVerif.Lemmas.EvMainXInit
import SqlObjVerif.Lemmas.EvChainXModel
import SqlObjVerif.Lemmas.EvSubXConns
import SqlObjVerif.Lemmas.EvSubXEffective
/-!
# C19 — row events fire exactly once, in order around the database write; listener edits of the
create / update kwargs are what gets stored; appended post-callbacks run after the operation;
fetches emit no create event; in an inheritance chain the create-finished events come after the
INSERTs of all levels.

Property theorems only.  Every statement is for **every** listener list `c.listeners` (any number
of listeners, each observing, setting / deleting / adding a kwargs key or appending a
post-callback), every state and — where a history is involved — every history.

Reading guide: `tags seg` is the log segment an operation contributes with the payloads erased;
`evTags c sig` = "one call of every listener connected for `sig`, in connection order";
`postTags c sig` = "one run of every callback appended by those listeners, in connection order".
`createShape`, `updateShape`, `destroyShape` (Model/Events.lean) spell out where the code puts them:

* create : before-events, INSERT, *callbacks appended on RowCreateSignal*, after-events, their callbacks
           (the create callbacks run after the INSERT but before RowCreatedSignal — `__init__` runs
           them before the postponed thunk);
* update : before-events, UPDATE, after-events, the callbacks appended on RowUpdatedSignal
           (RowUpdateSignal has no post_funcs);
* destroy: before-events, DELETE, *callbacks appended on RowDestroySignal*, after-events, their callbacks
           (the docstring of RowDestroyedSignal says the opposite order; the code is as stated here).
-/
namespace SqlObjVerif.Events

/-- One `send`, for every listener list: the kwargs come out as the listeners' edits folded in
    connection order, the post_funcs as what was appended in connection order, and every listener
    connected for the signal was called exactly once, in connection order, no one else. -/
theorem C19_send_once_in_order (sig : Sig) (id : Option Nat) (L : List Listener) (i : Nat) (kw : Kw) (pf : List Nat) :
    (deliver sig id i L kw pf).1 = rewrite sig L kw
    ∧ (deliver sig id i L kw pf).2.1 = pf ++ posts sig L
    ∧ tags (deliver sig id i L kw pf).2.2 = (recipients sig i L).map (Tag.ev sig)
    ∧ (∀ e ∈ (deliver sig id i L kw pf).2.2, ∃ lis p, e = Entry.ev sig lis id p) :=
  ⟨deliver_kw sig id L i kw pf, deliver_pf sig id L i kw pf, deliver_tags sig id L i kw pf,
   deliver_entries sig id L i kw pf⟩

/-- The single-attribute path (`_SO_setValue`, with its "a listener changed the dict → delegate to
    `set()` and return" branch) is the same function as `set` with a one-key dict: same state,
    same log (one UPDATE, one after-event), same outcome.  (False before commit 6e5c96c.) -/
theorem C19_assign_is_set (c : Cfg) (s : State) (h : Nat) (o : Obj) (k : Key) (v : Val) (hk : k < c.ncols) :
    opAssign c s h o k v = opSet c s h o [(k, v)] :=
  assign_eq_set c s h o k v hk

/-- what the listeners leave of the kwargs of an update operation -/
def updKw (c : Cfg) (kw : Kw) : Kw := rewrite .update c.listeners kw
/-- the rewritten kwargs are acceptable: no rejected column value, no unknown keyword -/
def kwOk (c : Cfg) (kw : Kw) : Prop := vecInvalid (colVec c.ncols kw) = false ∧ unknownKey c.ncols kw = false

/-- **events, exactly once, in order — create.**  A successful create contributes exactly
    `createShape` for the fresh id; a failing one (rejected value / unknown keyword after the
    listeners' edits) contributes the before-events only and changes nothing. -/
theorem C19_events_once_in_order_create (c : Cfg) (s : State) (kw : Kw) :
    ((opCreate c s kw).2.2 = .ok → tags (opCreate c s kw).2.1 = createShape c s.nextId)
    ∧ ((opCreate c s kw).2.2 ≠ .ok → tags (opCreate c s kw).2.1 = evTags c .create ∧ (opCreate c s kw).1 = s) := by
  cases hv : (newRow c (rewrite .create c.listeners kw)).contains .bad
  · cases hu : unknownKey c.ncols (rewrite .create c.listeners kw)
    · have := create_ok c s kw hv hu
      exact ⟨fun _ => this.2.1, fun h => absurd this.1 h⟩
    · have := create_fail c s kw (Or.inr hu)
      exact ⟨fun h => absurd h this.1, fun _ => this.2⟩
  · have := create_fail c s kw (Or.inl hv)
    exact ⟨fun h => absurd h this.1, fun _ => this.2⟩

/-- **events, exactly once, in order — eager update** (`set`, and by `C19_assign_is_set` attribute
    assignment): success ⇔ the rewritten kwargs are acceptable; then the segment is exactly
    before-events, one UPDATE (none when no column is left), after-events, callbacks; otherwise
    before-events only and nothing changes. -/
theorem C19_events_once_in_order_update (c : Cfg) (s : State) (h : Nat) (o : Obj) (kw : Kw) (hl : c.lazy = false) :
    ((opSet c s h o kw).2.2 = .ok ↔ kwOk c (updKw c kw))
    ∧ ((opSet c s h o kw).2.2 = .ok →
        tags (opSet c s h o kw).2.1 = updateShape c o.id (!vecEmpty (colVec c.ncols (updKw c kw))))
    ∧ ((opSet c s h o kw).2.2 ≠ .ok → tags (opSet c s h o kw).2.1 = evTags c .update ∧ (opSet c s h o kw).1 = s) := by
  unfold kwOk updKw
  cases hv : vecInvalid (colVec c.ncols (rewrite .update c.listeners kw))
  · cases hu : unknownKey c.ncols (rewrite .update c.listeners kw)
    · have := set_eager_ok c s h o kw hl hv hu
      exact ⟨⟨fun _ => ⟨rfl, rfl⟩, fun _ => this.1⟩, fun _ => this.2.1, fun h => absurd this.1 h⟩
    · have := set_eager_fail c s h o kw hl (Or.inr hu)
      exact ⟨⟨fun h => absurd h this.1, fun h => by simp at h⟩, fun h => absurd h this.1, fun _ => this.2⟩
  · have := set_eager_fail c s h o kw hl (Or.inl hv)
    exact ⟨⟨fun h => absurd h this.1, fun h => by simp at h⟩, fun h => absurd h this.1, fun _ => this.2⟩

/-- **lazy update, as the code does it.**  A lazy `set` / assignment delivers the before-events
    (once each) and nothing else — no write, no after-event, the table is untouched; when it
    succeeds the rewritten column values become pending, when it fails (rejected value or unknown
    keyword after the listeners' edits) nothing at all changes (fix bf075e4).  `syncUpdate` with something pending contributes exactly one
    UPDATE carrying all pending values followed by the after-events (once each) and their
    callbacks, and no before-event; with nothing pending it contributes nothing.
    (So one lazy write is preceded by one block of before-events per assignment since the last
    sync and followed by one block of after-events; the property text does not say which of the
    two countings it means for lazy objects.) -/
theorem C19_events_lazy (c : Cfg) (s : State) (h : Nat) (o : Obj) (kw : Kw) (hl : c.lazy = true) :
    tags (opSet c s h o kw).2.1 = evTags c .update
    ∧ (opSet c s h o kw).1.rows = s.rows
    ∧ ((opSet c s h o kw).2.2 = .ok ↔ kwOk c (updKw c kw))
    ∧ ((opSet c s h o kw).2.2 = .ok →
        (opSet c s h o kw).1 = s.setObj h { o with pending := mergeVec o.pending (colVec c.ncols (updKw c kw)) })
    ∧ ((opSet c s h o kw).2.2 ≠ .ok → (opSet c s h o kw).1 = s)
    ∧ (vecEmpty o.pending = true → opSyncUpdate c s h o = (s, [], .ok))
    ∧ (vecEmpty o.pending = false →
        (opSyncUpdate c s h o).2.2 = .ok
        ∧ tags (opSyncUpdate c s h o).2.1 = Tag.upd o.id :: afterUpdateShape c
        ∧ (opSyncUpdate c s h o).1.rows = updRows s.rows o.id o.pending
        ∧ (opSyncUpdate c s h o).1.objs = s.objs.set h { o with pending := List.replicate c.ncols none }) := by
  have := set_lazy c s h o kw hl
  exact ⟨this.1, this.2.1, this.2.2.2.2, this.2.2.1, this.2.2.2.1, syncUpdate_nothing c s h o, syncUpdate_pending c s h o⟩

/-- **events, exactly once, in order — destroy.** -/
theorem C19_events_once_in_order_destroy (c : Cfg) (s : State) (o : Obj) :
    (opDestroy c s o).2.2 = .ok ∧ tags (opDestroy c s o).2.1 = destroyShape c o.id
    ∧ (opDestroy c s o).1 = { s with rows := delRows s.rows o.id } :=
  destroy_spec c s o

/-- **fetch and select deliver no event at all** (in particular no create event) and change nothing. -/
theorem C19_fetch_select_no_events (c : Cfg) (s : State) (h : Nat) :
    (step c s (.fetch h)).2.1 = [] ∧ (step c s (.fetch h)).1 = s
    ∧ (step c s .select).2.1 = [] ∧ (step c s .select).1 = s := by
  refine ⟨?_, ?_, rfl, rfl⟩
  · simp only [step]; split
    · rfl
    · split <;> rfl
  · simp only [step]; split
    · rfl
    · split <;> rfl

/-- **history level.**  For every history from the empty table: the inserted ids are 1, 2, 3, …
    (each row is inserted exactly once) and every listener connected for RowCreatedSignal was
    called for exactly that sequence of rows — once per created row, never for a fetched one. -/
theorem C19_events_once_in_order (c : Cfg) (ops : List Op) (ℓ : Nat) (hℓ : ℓ ∈ recipients .created 0 c.listeners) :
    insIds (run c init ops).2 = List.range' 1 ((run c init ops).1.nextId - 1)
    ∧ createdEvs ℓ (run c init ops).2 = insIds (run c init ops).2 := by
  have := run_ins_created ℓ c hℓ ops init
  exact ⟨this.2.1, this.2.2⟩

/-- **listener edits are what gets stored — create**: the inserted row holds, per column, the
    value of the kwargs as rewritten by the listeners in connection order, else the default. -/
theorem C19_rewrite_is_stored_create (c : Cfg) (s : State) (kw : Kw) (h : (opCreate c s kw).2.2 = .ok) :
    (opCreate c s kw).1.rows = s.rows ++ [(s.nextId, newRow c (rewrite .create c.listeners kw))]
    ∧ ∀ k, k < c.ncols →
        (newRow c (rewrite .create c.listeners kw))[k]? = some ((Kw.get (rewrite .create c.listeners kw) k).getD (c.dflt k)) := by
  refine ⟨?_, fun k hk => newRow_get c _ k hk⟩
  cases hv : (newRow c (rewrite .create c.listeners kw)).contains .bad
  · cases hu : unknownKey c.ncols (rewrite .create c.listeners kw)
    · rw [(create_ok c s kw hv hu).2.2]
    · exact absurd h (create_fail c s kw (Or.inr hu)).1
  · exact absurd h (create_fail c s kw (Or.inl hv)).1

/-- **listener edits are what gets stored — eager update**: after a successful `set` (or attribute
    assignment, `C19_assign_is_set`) the row of the object is the old row overwritten with the
    column part of the kwargs *as rewritten by the listeners in connection order* — per column: the
    rewritten kwargs' value when they have the key, else what the row held; other rows are untouched. -/
theorem C19_rewrite_is_stored (c : Cfg) (s : State) (h : Nat) (o : Obj) (kw : Kw) (hl : c.lazy = false)
    (hok : (opSet c s h o kw).2.2 = .ok) (id' : Nat) :
    rowOf? (opSet c s h o kw).1.rows id' =
      (if id' = o.id ∧ vecEmpty (colVec c.ncols (updKw c kw)) = false
       then (rowOf? s.rows id').map (fun r => applyVec r (colVec c.ncols (updKw c kw)))
       else rowOf? s.rows id')
    ∧ ∀ (r : List Val) (k : Nat), k < c.ncols →
        (applyVec r (colVec c.ncols (updKw c kw)))[k]? = (r[k]?).map (fun old => (Kw.get (updKw c kw) k).getD old) := by
  refine ⟨?_, fun r k hk => applyVec_colVec r c.ncols _ k hk⟩
  have hk := (C19_events_once_in_order_update c s h o kw hl).1.1 hok
  have := (set_eager_ok c s h o kw hl hk.1 hk.2).2.2
  rw [this]
  unfold updKw
  cases he : vecEmpty (colVec c.ncols (rewrite .update c.listeners kw))
  · simp only [Bool.false_eq_true, if_false, and_true]
    exact rowOf_updRows s.rows o.id _ id'
  · simp

/-- **lazy: what is pending is what the listeners left, and that is what `syncUpdate` stores.** -/
theorem C19_rewrite_is_stored_lazy (c : Cfg) (s : State) (h : Nat) (o : Obj) (id' : Nat)
    (he : vecEmpty o.pending = false) :
    rowOf? (opSyncUpdate c s h o).1.rows id' =
      (if id' = o.id then (rowOf? s.rows id').map (fun r => applyVec r o.pending) else rowOf? s.rows id')
    ∧ ∀ (p vec : List (Option Val)) (k : Nat), (mergeVec p vec)[k]? =
        match p[k]?, vec[k]? with
        | some old, some nv => some (pick old nv)
        | _, _ => none := by
  refine ⟨?_, mergeVec_get⟩
  rw [(syncUpdate_pending c s h o he).2.2.1]
  exact rowOf_updRows s.rows o.id _ id'

/-- **appended callbacks run after the operation's write** — and exactly where the code puts them:
    the callbacks of a create / update / destroy segment are exactly `postTags` of its two signals
    (one run per appended callback, in connection order: `C19_send_once_in_order`), the ones
    appended on RowCreateSignal / RowDestroySignal run after the write and *before* the after-event,
    the ones appended on the after-events run after those; none runs before the write. -/
theorem C19_post_funcs_run_after (c : Cfg) (id : Nat) (pre suf : List Tag) (p : Nat) :
    (createShape c id = pre ++ Tag.post p :: suf → Tag.ins id ∈ pre)
    ∧ (updateShape c id true = pre ++ Tag.post p :: suf → Tag.upd id ∈ pre)
    ∧ (destroyShape c id = pre ++ Tag.post p :: suf → Tag.del id ∈ pre)
    ∧ createShape c id = evTags c .create ++ [Tag.ins id] ++ postTags c .create ++ evTags c .created ++ postTags c .created
    ∧ updateShape c id true = evTags c .update ++ [Tag.upd id] ++ evTags c .updated ++ postTags c .updated
    ∧ destroyShape c id = evTags c .destroy ++ [Tag.del id] ++ postTags c .destroy ++ evTags c .destroyed ++ postTags c .destroyed := by
  refine ⟨?_, ?_, ?_, by simp [createShape], by simp [updateShape, afterUpdateShape], by simp [destroyShape]⟩
  · exact post_after_write _ _ _ (evTags_no_post c .create) (by simp) pre suf p
  · intro h
    exact post_after_write _ _ _ (evTags_no_post c .update) (by simp) pre suf p (by simpa [updateShape] using h)
  · exact post_after_write _ _ _ (evTags_no_post c .destroy) (by simp) pre suf p

/-- **inheritance chain, any depth, any listener layout, every create order**: every
    RowCreatedSignal delivered for object `nextId + n` (at whatever level `lv`, to whatever
    listener) comes after the INSERTs of *all* levels `0 … levels[n]` of that object. -/
theorem C19_created_after_all_levels (cfg : Chain.CCfg) (levels : List Nat) (nextId n : Nat) (hn : n < levels.length)
    (pre suf : List Chain.CEntry) (lv lis : Nat)
    (h : Chain.runCreates cfg nextId levels = pre ++ Chain.CEntry.ev .created lv lis (some (nextId + n)) :: suf) :
    ∀ j, j ≤ levels[n] → Chain.CEntry.ins j (nextId + n) ∈ pre :=
  Chain.created_after_all_levels cfg levels nextId n hn pre suf lv lis h

/-! ## listeners that themselves create rows (the "audit row" pattern)

`stepX` / `runX` (Model/Events.lean) are `step` / `run` for a class whose listeners may create a row
of another class `B` — from inside any listener (action `spawn`) or from a callback they appended
(callbacks numbered ≥ 1000).  `projA` is the operated class's part of the log, `projB` the part of `B`. -/

/-- **the class's own events are untouched by such listeners**: state, outcome and the class's own
    log of every operation / history are exactly those of `step` / `run`, so every theorem above
    holds verbatim for the `projA` part. -/
theorem C19_spawning_listeners_leave_events_intact (c : Cfg) (LB : List Listener) (s : State) (nB : Nat) (op : Op) (ops : List Op) :
    (stepX c LB s nB op).1.1 = (step c s op).1
    ∧ projA (stepX c LB s nB op).1.2.1 = (step c s op).2.1
    ∧ (stepX c LB s nB op).1.2.2 = (step c s op).2.2
    ∧ (runX c LB s nB ops).1.1 = (run c s ops).1
    ∧ projA (runX c LB s nB ops).2 = (run c s ops).2 :=
  ⟨(stepX_projA c LB s nB op).1, (stepX_projA c LB s nB op).2.1, (stepX_projA c LB s nB op).2.2,
   (runX_projA c LB ops s nB).1, (runX_projA c LB ops s nB).2⟩

/-- **a row created from inside a listener or a post-callback gets its events exactly once too**:
    for every operation (and every history), whatever listener or callback of whatever signal
    created them — inside RowCreateSignal (nested constructor), inside the flush of the postponed
    list (RowCreatedSignal listeners and their callbacks: the thunk is appended to the list being
    flushed), or outside any constructor — the `B` rows inserted are `nB, nB+1, …`, each exactly
    once, and every listener `ℓ` connected for `B`'s RowCreatedSignal is called for exactly that
    sequence of rows: none lost, none twice. -/
theorem C19_nested_create_events_once (ℓ : Nat) (c : Cfg) (LB : List Listener) (hℓ : ℓ ∈ recipients .created 0 LB)
    (s : State) (nB : Nat) (op : Op) (ops : List Op) :
    (insIds (projB (stepX c LB s nB op).1.2.1) = List.range' nB ((stepX c LB s nB op).2 - nB)
      ∧ createdEvs ℓ (projB (stepX c LB s nB op).1.2.1) = insIds (projB (stepX c LB s nB op).1.2.1))
    ∧ (insIds (projB (runX c LB s nB ops).2) = List.range' nB ((runX c LB s nB ops).1.2 - nB)
      ∧ createdEvs ℓ (projB (runX c LB s nB ops).2) = insIds (projB (runX c LB s nB ops).2)) :=
  ⟨(stepX_B ℓ c LB hℓ s nB op).2, (runX_B ℓ c LB hℓ ops s nB).2⟩

/-! ## non-vacuity: the statements talk about non-empty logs -/

/-- a listener adding a key to a single-attribute update: one UPDATE with both columns, one after-event -/
example :
    let c : Cfg := ⟨3, false, [.int 100, .int 101, .int 102], [⟨.update, .setKey 1 (.int 7)⟩, ⟨.updated, .post 3⟩], false⟩
    let s1 := (step c init (.create [(0, .int 1)])).1
    tags (step c s1 (.assign 0 0 (.int 5))).2.1 = [.ev .update 0, .upd 1, .ev .updated 1, .post 3]
    ∧ (step c s1 (.assign 0 0 (.int 5))).1.rows = [(1, [.int 5, .int 7, .int 102])] := by decide

example :
    Chain.runCreates [[⟨.created, .observe, true⟩], [], [⟨.created, .post 1, false⟩]] 1 [2]
      = [.ins 0 1, .ins 1 1, .ins 2 1, .ev .created 0 0 (some 1), .ev .created 1 0 (some 1),
         .ev .created 2 0 (some 1), .ev .created 2 1 (some 1), .post 1 2 1] := by decide

/-- a RowCreatedSignal listener and a callback it appended both create a `B` row: both rows get
    their own RowCreatedSignal after the flush reached the appended thunks -/
example :
    let c : Cfg := ⟨1, false, [.int 0], [⟨.created, .spawn⟩, ⟨.created, .post 1000⟩], false⟩
    (stepX c [⟨.created, .observe⟩] init 1 (.create [])).1.2.1
      = [.a (.ins 1 [.int 0]), .a (.ev .created 0 (some 1) none), .b (.ins 1 [.int 0]),
         .a (.ev .created 1 (some 1) none), .a (.post 1000 1), .b (.ins 2 [.int 0]),
         .b (.ev .created 0 (some 1) none), .b (.ev .created 0 (some 2) none)] := by decide

/-! ## the delivery path is what the SOURCE says: `events.listen` and `sqlmeta.send` as TRANSLATED on this run

`listenX` / `sendX` run the PyVersion programs `vlib/extractors/pyevents.py` produced from /repo's AST on this very run
(`Extracted/PyEvents.lean`; the extractor also checks `events.send = dispatcher.send`), pydispatch being a PARAMETER
(`Model/EventsX.lean`: `dispatcher.connect` appends a connection; `dispatcher.send` calls every receiver connected for
(sender, signal) exactly once in connection order — with the listeners read as data, `deliver`). -/

/-- **`sqlmeta.send(signal, *args)` as translated is the model's `deliver`**: it is `dispatcher.send(signal,
    sqlmeta.soClass, *args)` — the sender is the class, the arguments are passed on unchanged, nothing else happens —
    so the kwargs / post_funcs the listeners leave and the calls made are those of `deliver signal id 0 listeners`
    (the `send` of every operation of `Model/Events.lean`), for every signal, listener list and argument list. -/
theorem C19_translated_send_eq_model (w : SW) (sig : Sig) (args : List PVal) :
    sendX w (sigVal sig) (PyVer.Val.ofList args) (.dictv .nil)
      = .ret { w with kw := (deliver sig (idOfArgs args) 0 w.L w.kw w.pf).1,
                      pf := (deliver sig (idOfArgs args) 0 w.L w.kw w.pf).2.1,
                      log := w.log ++ (deliver sig (idOfArgs args) 0 w.L w.kw w.pf).2.2 } .none
          [sigVal sig, PyVer.Val.ofList args, .dictv .nil] :=
  sendX_eq w sig args

/-- **`events.listen(receiver, cls, signal)` as translated** appends exactly one connection `(receiver, signal, cls,
    weak)` to the dispatcher's table — so receivers are connected in the order `listen` is called, which is the order
    `deliver` walks — and `(weak receiver, signal)` to the class's `subclassClones` list (from which
    `_makeSubclassConnectionsPost` clones the listeners to subclasses: `Chain.effective`). -/
theorem C19_translated_listen_eq_model (w : LW) (recv cls sig also weak : PVal) :
    listenX w recv cls sig also weak = .ret (listened w recv cls sig weak) .none [recv, cls, sig, also, weak]
    ∧ (listened w recv cls sig weak).conns = w.conns ++ [(recv, sig, cls, weak)] :=
  ⟨listenX_eq w recv cls sig also weak, rfl⟩

/-- non-vacuity: a concrete send through the translated `sqlmeta.send` reaches two of three listeners, in order -/
example :
    let w : SW := ⟨[⟨.update, .setKey 0 (.int 5)⟩, ⟨.created, .observe⟩, ⟨.update, .observe⟩], [(1, .int 2)], [], []⟩
    (match sendX w (sigVal .update) (PyVer.Val.ofList [.inst 0 0 7, .ref 6 0]) (.dictv .nil) with
     | .ret w' _ _ => some (w'.kw, w'.log) | _ => none)
      = some ([(1, .int 2), (0, .int 5)],
              [.ev .update 0 (some 7) (some [(1, .int 2)]), .ev .update 2 (some 7) (some [(1, .int 2), (0, .int 5)])]) := by
  decide

/-! ## the signal paths of `SQLObject` are what the SOURCE says: `set`, `syncUpdate`, `destroySelf` as TRANSLATED on this run

`setX` / `syncUpdateX` / `destroySelfX` (Model/EvMainX.lean) RUN the PyEv programs `vlib/extractors/pyevmain.py` produced from
/repo's `main.py` on this very run (`Extracted/PyEvMain.lean`) — WITH their `sqlmeta.send(...)` calls (through the translated
`sqlmeta.send`, i.e. `deliver`), the `for func in post_funcs: func(self)` loops, the lock, the validation / filter / sort
loops — on the image `absW` of a model state; `absUnit` reads the final world back.  The interface (connection, cache,
validators, the cascade inside `destroySelf`) is stated in the header of Model/EvMainX.lean.  `__init__` / `_create` /
`_SO_finishCreate` (+ its postponed `_send_RowCreatedSignal` thunk) / `_init` / `_SO_setValue` are translated on every run
too and proved equal to `opCreate` / `opAssign` below (`C19_translated_create_eq_model`, `C19_translated_setValue_eq_model`). -/

/-- **`obj.set(**kw)` as translated = the model's `opSet`**: same table, same pending values, same ordered log
    [RowUpdateSignal × listeners, UPDATE, RowUpdatedSignal × listeners, callbacks], same outcome — for every listener list,
    every state, every kwargs dict (distinct keys), eager and lazy classes, `cacheValues` on or off. -/
theorem C19_translated_set_eq_model (fuel : Nat) (c : Cfg) (s : State) (h : Nat) (o : Events.Obj) (cv kw : Kw)
    (ho : s.objs[h]? = some o) (hrep : Rep c.ncols cv o.pending) (hnd : (kw.map (·.1)).Nodup) :
    absUnit s h (setX fuel (absW c s (pyObj o cv)) [] (PyEv.kwPV kw)) = some (opSet c s h o kw) :=
  setX_eq fuel c s h o cv kw ho hrep hnd

/-- **`obj.syncUpdate()` as translated = the model's `opSyncUpdate`** (one UPDATE with all pending values, RowUpdatedSignal to
    every listener once, then the callbacks; nothing at all when nothing is pending). -/
theorem C19_translated_syncUpdate_eq_model (fuel : Nat) (c : Cfg) (s : State) (h : Nat) (o : Events.Obj) (cv : Kw)
    (ho : s.objs[h]? = some o) (hrep : Rep c.ncols cv o.pending) :
    absUnit s h (syncUpdateX fuel (absW c s (pyObj o cv))) = some (opSyncUpdate c s h o) :=
  syncUpdateX_eq fuel c s h o cv ho hrep

/-- **the signal frame of `destroySelf` as translated = the model's `opDestroy`** (RowDestroySignal × listeners, [cascade: a
    parameter, empty for a class without joins / dependents], DELETE, the callbacks appended on RowDestroySignal,
    RowDestroyedSignal × listeners, their callbacks). -/
theorem C19_translated_destroySelf_eq_model (fuel : Nat) (c : Cfg) (s : State) (h : Nat) (o : Events.Obj) (cv : Kw)
    (ho : s.objs[h]? = some o) (hrep : Rep c.ncols cv o.pending) :
    absUnit s h (destroySelfX fuel (absW c s (pyObj o cv))) = some (opDestroy c s o) :=
  destroySelfX_eq fuel c s h o cv ho hrep

/-- **events exactly once, in order — about the translated source.**  Running the translated `set` on an eager object:
    it succeeds iff the kwargs as rewritten by the listeners are acceptable; then its log is exactly before-events, one
    UPDATE (none when no column is left), after-events, callbacks; otherwise the before-events only and nothing changed.
    Running the translated `destroySelf`: exactly `destroyShape`.  Running the translated `syncUpdate` with something
    pending: one UPDATE, the after-events, their callbacks. -/
theorem C19_translated_events_once_in_order (fuel : Nat) (c : Cfg) (s : State) (h : Nat) (o : Events.Obj) (cv kw : Kw)
    (ho : s.objs[h]? = some o) (hrep : Rep c.ncols cv o.pending) (hnd : (kw.map (·.1)).Nodup) (hl : c.lazy = false) :
    (∃ s' log out, absUnit s h (setX fuel (absW c s (pyObj o cv)) [] (PyEv.kwPV kw)) = some (s', log, out)
      ∧ (out = .ok ↔ kwOk c (updKw c kw))
      ∧ (out = .ok → tags log = updateShape c o.id (!vecEmpty (colVec c.ncols (updKw c kw))))
      ∧ (out ≠ .ok → tags log = evTags c .update ∧ s' = s))
    ∧ (∃ s' log, absUnit s h (destroySelfX fuel (absW c s (pyObj o cv))) = some (s', log, .ok)
      ∧ tags log = destroyShape c o.id ∧ s' = { s with rows := delRows s.rows o.id })
    ∧ (vecEmpty o.pending = false →
        ∃ s' log, absUnit s h (syncUpdateX fuel (absW c s (pyObj o cv))) = some (s', log, .ok)
          ∧ tags log = Tag.upd o.id :: afterUpdateShape c ∧ s'.rows = updRows s.rows o.id o.pending) := by
  refine ⟨⟨_, _, _, setX_eq fuel c s h o cv kw ho hrep hnd, C19_events_once_in_order_update c s h o kw hl⟩, ?_, ?_⟩
  · have := destroy_spec c s o
    refine ⟨(opDestroy c s o).1, (opDestroy c s o).2.1, ?_, this.2.1, this.2.2⟩
    rw [destroySelfX_eq fuel c s h o cv ho hrep, ← this.1]
  · intro he
    have := syncUpdate_pending c s h o he
    refine ⟨(opSyncUpdate c s h o).1, (opSyncUpdate c s h o).2.1, ?_, this.2.1, this.2.2.1⟩
    rw [syncUpdateX_eq fuel c s h o cv ho hrep, ← this.1]

/-- **listener edits are what gets stored — about the translated source**: after the translated `set` succeeded on an eager
    object, the row of the object is the old row overwritten with the column part of the kwargs as rewritten by the
    listeners in connection order; other rows are untouched. -/
theorem C19_translated_rewrite_is_stored (fuel : Nat) (c : Cfg) (s : State) (h : Nat) (o : Events.Obj) (cv kw : Kw)
    (ho : s.objs[h]? = some o) (hrep : Rep c.ncols cv o.pending) (hnd : (kw.map (·.1)).Nodup) (hl : c.lazy = false) :
    ∃ s' log out, absUnit s h (setX fuel (absW c s (pyObj o cv)) [] (PyEv.kwPV kw)) = some (s', log, out)
      ∧ (out = .ok → ∀ id', rowOf? s'.rows id' =
          (if id' = o.id ∧ vecEmpty (colVec c.ncols (updKw c kw)) = false
           then (rowOf? s.rows id').map (fun r => applyVec r (colVec c.ncols (updKw c kw)))
           else rowOf? s.rows id')) :=
  ⟨_, _, _, setX_eq fuel c s h o cv kw ho hrep hnd, fun hok id' => (C19_rewrite_is_stored c s h o kw hl hok id').1⟩

/-- **appended callbacks run after the write — about the translated source**: in the log of a successful translated `set`
    that wrote, every callback run comes after the UPDATE (and the log is before-events, UPDATE, after-events, callbacks). -/
theorem C19_translated_post_funcs_run_after (fuel : Nat) (c : Cfg) (s : State) (h : Nat) (o : Events.Obj) (cv kw : Kw)
    (ho : s.objs[h]? = some o) (hrep : Rep c.ncols cv o.pending) (hnd : (kw.map (·.1)).Nodup) (hl : c.lazy = false) :
    ∃ s' log out, absUnit s h (setX fuel (absW c s (pyObj o cv)) [] (PyEv.kwPV kw)) = some (s', log, out)
      ∧ (out = .ok → vecEmpty (colVec c.ncols (updKw c kw)) = false →
          tags log = evTags c .update ++ [Tag.upd o.id] ++ evTags c .updated ++ postTags c .updated
          ∧ ∀ pre suf p, tags log = pre ++ Tag.post p :: suf → Tag.upd o.id ∈ pre) := by
  refine ⟨_, _, _, setX_eq fuel c s h o cv kw ho hrep hnd, fun hok he => ?_⟩
  have ht := (C19_events_once_in_order_update c s h o kw hl).2.1 hok
  rw [he] at ht
  have ht' : tags (opSet c s h o kw).2.1 = updateShape c o.id true := ht
  have hp := C19_post_funcs_run_after c o.id
  refine ⟨ht'.trans (hp [] [] 0).2.2.2.2.1, fun pre suf p hps => ?_⟩
  exact (hp pre suf p).2.1 (ht'.symm.trans hps)


/-- **`obj.<col k> = v` as translated (`_SO_setValue`) = the model's `opAssign`** — for every listener list, state, column and
    value, eager and lazy: the one-key dict goes to the RowUpdateSignal listeners; when they leave it a one-key dict for the
    same column the value is validated and written (or kept pending) and RowUpdatedSignal + callbacks follow; when a listener
    CHANGED the dict (added / removed / renamed a key) the translated code sets `row_update_sig_suppress`, runs the translated
    `set(**d)` (which then sends no second RowUpdateSignal), removes the flag in its `finally:` and returns — one before-block,
    one UPDATE, one after-block. -/
theorem C19_translated_setValue_eq_model (fuel : Nat) (c : Cfg) (s : State) (h : Nat) (o : Events.Obj) (cv : Kw) (k : Nat) (v : Val)
    (ho : s.objs[h]? = some o) (hrep : Rep c.ncols cv o.pending) (hk : k < c.ncols) :
    absUnit s h (setValueX fuel (absW c s (pyObj o cv)) k v) = some (opAssign c s h o k v) :=
  setValueX_eq fuel c s h o cv k v ho hrep hk

/-- **`Cls(**kw)` as translated = the model's `opCreate`** — `__init__` (thread-local `postponed_calls` created by this outermost
    constructor, RowCreateSignal with the caller's `kw` and `post_funcs`), `_create` (defaults), `set` in creating mode,
    `_SO_finishCreate` (INSERT, `_init`, the `_send_RowCreatedSignal` closure appended), the callbacks, and the `finally:` flush
    (the thunk: RowCreatedSignal + its callbacks) and `del` of the list — for every listener list, state and kwargs dict
    (distinct keys): success, a rejected value or an unknown keyword after the listeners' edits (before-events only, nothing
    stored, the list removed), lazy and eager classes.  Hypotheses: at least one column (`_init` reads the row back), the next
    AUTOINCREMENT id is not in the table, and the flush may visit ≥ 2 entries (`fuel = f + 2`). -/
theorem C19_translated_create_eq_model (f : Nat) (c : Cfg) (s : State) (kw : Kw) (hnd : (kw.map (·.1)).Nodup) (hn : 0 < c.ncols)
    (hfresh : rowOf? s.rows s.nextId = none) :
    absNew s (initX (f + 2) (createX (f + 2)) (absW c s newObj) (PyEv.kwPV kw)) = some (opCreate c s kw) :=
  initX_eq f c s kw hnd hn hfresh

/-- **events exactly once, in order, and the rewritten kwargs stored — create, about the translated source.** -/
theorem C19_translated_events_once_in_order_create (f : Nat) (c : Cfg) (s : State) (kw : Kw) (hnd : (kw.map (·.1)).Nodup)
    (hn : 0 < c.ncols) (hfresh : rowOf? s.rows s.nextId = none) :
    ∃ s' log out, absNew s (initX (f + 2) (createX (f + 2)) (absW c s newObj) (PyEv.kwPV kw)) = some (s', log, out)
      ∧ (out = .ok → tags log = createShape c s.nextId
          ∧ s'.rows = s.rows ++ [(s.nextId, newRow c (rewrite .create c.listeners kw))])
      ∧ (out ≠ .ok → tags log = evTags c .create ∧ s' = s) := by
  refine ⟨_, _, _, initX_eq f c s kw hnd hn hfresh, fun hok => ⟨(C19_events_once_in_order_create c s kw).1 hok, ?_⟩,
    (C19_events_once_in_order_create c s kw).2⟩
  exact (C19_rewrite_is_stored_create c s kw hok).1


/-! ## inheritance chains on the TRANSLATED source

`chainInitX L` (Model/EvChainX.lean) is `Cls_L()` for the class at depth `L` of an inheritance chain: the translated
`SQLObject.__init__` whose `_create` is the PyInherit translation of `InheritableSQLObject._create` (C15's extractor,
imported unchanged) run over the PyEv world — it constructs the parent instance by the translated `__init__` of the parent
class (nested: the thread-local `postponed_calls` exists) and then runs the translated `SQLObject._create` under the parent's
id.  Interface assumptions: header of Model/EvChainX.lean (`ChainOk`: constructors are called without column keywords and the
RowCreateSignal listeners leave the kwargs empty, every level has a column and validating defaults). -/

/-- **every RowCreatedSignal after ALL levels' INSERTs, exactly the model's log — for every chain depth `L` and every listener
    placement, about the translated source.**  The translated outermost constructor returns, the thread-local list is gone,
    and the log it contributed — each entry tagged with the level whose code produced it — is EXACTLY `Chain.createObj`: the
    nested RowCreateSignals top-down, the INSERTs root-first each followed by its level's create-callbacks, then (from the
    single flush in the outermost `finally:`) RowCreatedSignal + callbacks of level 0, 1, …, `L`, each listener of each level
    once, in connection order.  Hence every RowCreatedSignal of the object comes after the INSERTs of all levels. -/
theorem C19_translated_created_after_all_levels (fuel : Nat) (cls : Nat → Cfg) (ccfg : Chain.CCfg)
    (hL : ∀ j, (cls j).listeners = Chain.effective ccfg j) (L : Nat) (hok : ChainOk cls L) (hfuel : L + 1 < fuel)
    (w : PyEv.World) (hcl : w.c = cls L) (hlv : w.lvl = L) (ho : w.o = newObj) (hpp : w.postponed = none)
    (hfresh : rowOf? w.rows w.nextId = none) :
    ∃ w' lg, chainInitX fuel cls L w = .ret w' .none ∧ w'.postponed = none ∧ w'.log = w.log ++ lg
      ∧ lg.map convT = Chain.createObj ccfg w.nextId L
      ∧ ∀ pre suf lv lis, lg.map convT = pre ++ Chain.CEntry.ev .created lv lis (some w.nextId) :: suf →
          ∀ j, j ≤ L → Chain.CEntry.ins j w.nextId ∈ pre := by
  obtain ⟨w', h1, h2, h3⟩ := chainInitX_run fuel cls L hok hfuel w hcl hlv ho hpp hfresh
  have heq := chain_log_eq cls ccfg hL w.nextId L
  refine ⟨w', _, h1, h2, h3, heq, ?_⟩
  intro pre suf lv lis hsplit j hj
  rw [heq] at hsplit
  have hrun : Chain.runCreates ccfg w.nextId [L] = pre ++ Chain.CEntry.ev .created lv lis (some (w.nextId + 0)) :: suf := by
    simp [Chain.runCreates, hsplit]
  exact C19_created_after_all_levels ccfg [L] w.nextId 0 (by simp) pre suf lv lis hrun j (by simpa using hj)

/-- non-vacuity: a 3-level chain (an early root listener cloned down, a leaf listener appending a callback) run through the
    translated constructors gives the hand model's log -/
example :
    let ccfg : Chain.CCfg := [[⟨.created, .observe, true⟩, ⟨.create, .post 7, false⟩], [], [⟨.created, .post 1, false⟩]]
    let cls : Nat → Cfg := fun j => ⟨1, false, [.int 0], Chain.effective ccfg j, true⟩
    (match chainInitX 5 cls 2 { absW (cls 2) init newObj with lvl := 2 } with
     | .ret w' _ => some (w'.log.map convT)
     | _ => none) = some (Chain.createObj ccfg 1 2)
    ∧ Chain.createObj ccfg 1 2 = [.ev .create 0 1 none, .ins 0 1, .post 7 0 1, .ins 1 1, .ins 2 1, .ev .created 0 0 (some 1), .ev .created 1 0 (some 1),
         .ev .created 2 0 (some 1), .ev .created 2 1 (some 1), .post 1 2 1] := by
  decide +kernel


/-! ## the subclass-time copy of listeners on the TRANSLATED source

`subPostX` (Model/EvSubX.lean) runs the PyVersion translation (`vlib/extractors/pyevsub.py`, on this run) of
`events._makeSubclassConnectionsPost`, which the class machinery calls once for every class that is declared (checked as data
by the extractor: `_makeSubclassConnections` registers it as an early func and is connected to `ClassCreateSignal`).  The
interface (`__bases__`, `subclassClones.get`, weak references) is stated in the header of Model/EvSubX.lean. -/

/-- **a listener registered on a class before a subclass is declared reaches the subclass exactly once — as translated.**
    For every connection table, every base list and every liveness of the receivers: the translated
    `_makeSubclassConnectionsPost(new)` returns, and what it did is `subclassed`: base by base, entry by entry in
    registration order, every live `(receiver, signal)` of the base's clone list goes through the TRANSLATED
    `events.listen(receiver, new, signal)` (dead receivers are skipped) — which connects it for the new class and, by
    `C19_translated_listen_eq_model`, records it in the new class's own clone list, so that the same copy happens again for
    grandchildren (`Chain.effective`: the early listeners of all ancestors, root first, then the class's own).  For a single
    base the new class's connections grow by exactly one per live clone entry of the base, in order, nothing else changes in
    the table.  (Seeded change C19-e1 — `dispatcher.connect` instead of `listen` in the copy — changes the translated program
    and breaks this proof.) -/
theorem C19_translated_subclass_listeners_eq_model (bases : List PVal) (alive : PVal → Bool) (new : PVal)
    (htr : ∀ r, alive r = true → PyVer.pyBool r = true) (w : LW) (hwf : ClonesWF w) :
    subPostX bases alive w new = .ret (subclassed bases alive w new) .none [new]
    ∧ (∀ base, (subclassed [base] alive w new).conns
          = w.conns ++ (clonesOf w.clones base).filterMap (cloneConn alive new))
    ∧ ClonesWF (subclassed bases alive w new) := by
  refine ⟨subPostX_eq bases alive new htr w hwf, fun base => subclassed_conns_single alive w base new, ?_⟩
  unfold subclassed
  generalize bases = bs
  induction bs generalizing w with
  | nil => exact hwf
  | cons b bs ih => exact ih _ (foldl_copy_wf alive new _ w hwf)

/-- non-vacuity: two listeners registered on class 0 (one of them dead by now), class 1 declared with base 0 -/
example :
    let r1 : PVal := .ref 9 1
    let r2 : PVal := .ref 9 2
    let w0 : LW := listened (listened ⟨[], []⟩ r1 (.cls 0) (sigVal .created) (.bool true)) r2 (.cls 0) (sigVal .update) (.bool true)
    (match subPostX [.cls 0] (fun r => decide (r = r1)) w0 (.cls 1) with
     | .ret w' _ _ => some (w'.conns.drop 2, w'.clones.map (·.1))
     | _ => none) = some ([(r1, sigVal .created, .cls 1, .bool true)], [.cls 0, .cls 1]) := by
  decide +kernel


/-- **a declaration history gives every class exactly `Chain.effective` — on the translated source.**  `histW` is the
    dispatcher's table after the top-down history: class 0 is declared, its early listeners are registered (translated
    `listen`, `regAll`), class 1 is declared with base 0 (`subclassed` = the translated `_makeSubclassConnectionsPost`, by
    `C19_translated_subclass_listeners_eq_model`: its run on that very table is the first conjunct), its early listeners, …,
    class `L`; then every level's late listeners.  For every level `j ≤ L` the receivers connected for class `j`, in
    connection order, are the early listeners of levels `0 … j-1` (root first), each ONCE, followed by level `j`'s own —
    `Chain.effective ccfg j`.  Assumptions: classes are distinct objects, a listener is recovered from its `(receiver,
    signal)` pair (`dec ∘ enc = toL`), the receivers are alive and truthy, and each level registers its early listeners
    before its late ones (`EarlyFirst`). -/
theorem C19_translated_effective_listeners_eq_model (ccfg : Chain.CCfg) (enc : Chain.CListener → PVal × PVal)
    (dec : PVal × PVal → Listener) (alive : PVal → Bool) (clsV : Nat → PVal)
    (hinj : ∀ a b, clsV a = clsV b → a = b) (hdec : ∀ l, dec (enc l) = Chain.toL l) (hal : ∀ l, alive (enc l).1 = true)
    (htr : ∀ r, alive r = true → PyVer.pyBool r = true) (L : Nat) (hef : EarlyFirst ccfg L) :
    (∀ k, subPostX [clsV k] alive (declare alive (earlyOf ccfg enc) clsV k) (clsV (k + 1))
        = .ret (subclassed [clsV k] alive (declare alive (earlyOf ccfg enc) clsV k) (clsV (k + 1))) .none [clsV (k + 1)])
    ∧ ∀ j, j ≤ L → (connsOf (histW ccfg enc alive clsV L) (clsV j)).map dec = Chain.effective ccfg j :=
  ⟨fun k => subPostX_eq [clsV k] alive (clsV (k + 1)) htr _ (declare_wf alive _ clsV k),
   fun j hj => effective_of_history ccfg enc dec alive clsV hinj hdec hal L hef j hj⟩

/-- non-vacuity: a 3-level history — the root's early listener reaches the grandchild once, its late one does not -/
example :
    let ccfg : Chain.CCfg := [[⟨.created, .observe, true⟩, ⟨.update, .observe, false⟩], [⟨.created, .post 1, true⟩], [⟨.destroy, .observe, false⟩]]
    let enc : Chain.CListener → PVal × PVal :=
      fun l => (.obj "recv" (.nat (match l.act with | .post p => p + 1 | _ => 0)) .none, sigVal l.sig)
    let clsV : Nat → PVal := fun j => .cls j
    (connsOf (histW ccfg enc (fun _ => true) clsV 2) (clsV 2)).map (fun p => sigOf p.2)
      = (Chain.effective ccfg 2).map (fun l => some l.sig)
    ∧ (Chain.effective ccfg 2).map (·.sig) = [.created, .created, .destroy]
    ∧ (connsOf (histW ccfg enc (fun _ => true) clsV 2) (clsV 0)).map (fun p => sigOf p.2) = [some .created, some .update] := by
  decide +kernel

/-- the class constants of level `j` when its listeners are READ OFF the dispatcher's table after the declaration history -/
def clsOfHist (ccfg : Chain.CCfg) (enc : Chain.CListener → PVal × PVal) (dec : PVal × PVal → Listener) (alive : PVal → Bool)
    (clsV : Nat → PVal) (base : Nat → Cfg) (L : Nat) (j : Nat) : Cfg :=
  { base j with listeners := (connsOf (histW ccfg enc alive clsV L) (clsV j)).map dec }

/-- **`C19_translated_created_after_all_levels` with the listener placement DISCHARGED**: the classes' listeners are what
    the translated `listen` / `_makeSubclassConnectionsPost` left in the dispatcher's table after a top-down declaration
    history (not an assumption about `Chain.effective`); then the translated outermost constructor of the class at depth `L`
    logs exactly `Chain.createObj`, and every RowCreatedSignal comes after the INSERTs of all levels. -/
theorem C19_translated_created_after_all_levels_history (fuel : Nat) (ccfg : Chain.CCfg)
    (enc : Chain.CListener → PVal × PVal) (dec : PVal × PVal → Listener) (alive : PVal → Bool) (clsV : Nat → PVal)
    (base : Nat → Cfg) (hinj : ∀ a b, clsV a = clsV b → a = b) (hdec : ∀ l, dec (enc l) = Chain.toL l)
    (hal : ∀ l, alive (enc l).1 = true) (L : Nat) (hef : EarlyFirst ccfg L)
    (hok : ChainOk (clsOfHist ccfg enc dec alive clsV base L) L) (hfuel : L + 1 < fuel)
    (w : PyEv.World) (hcl : w.c = clsOfHist ccfg enc dec alive clsV base L L) (hlv : w.lvl = L) (ho : w.o = newObj)
    (hpp : w.postponed = none) (hfresh : rowOf? w.rows w.nextId = none) :
    ∃ w' lg, chainInitX fuel (clsOfHist ccfg enc dec alive clsV base L) L w = .ret w' .none ∧ w'.postponed = none
      ∧ w'.log = w.log ++ lg ∧ lg.map convT = Chain.createObj ccfg w.nextId L
      ∧ ∀ pre suf lv lis, lg.map convT = pre ++ Chain.CEntry.ev .created lv lis (some w.nextId) :: suf →
          ∀ j, j ≤ L → Chain.CEntry.ins j w.nextId ∈ pre := by
  obtain ⟨w', h1, h2, h3⟩ := chainInitX_run fuel _ L hok hfuel w hcl hlv ho hpp hfresh
  have heq := chain_log_eq_le (clsOfHist ccfg enc dec alive clsV base L) ccfg w.nextId L
    (fun j hj => effective_of_history ccfg enc dec alive clsV hinj hdec hal L hef j hj)
  refine ⟨w', _, h1, h2, h3, heq, ?_⟩
  intro pre suf lv lis hsplit j hj
  rw [heq] at hsplit
  have hrun : Chain.runCreates ccfg w.nextId [L] = pre ++ Chain.CEntry.ev .created lv lis (some (w.nextId + 0)) :: suf := by
    simp [Chain.runCreates, hsplit]
  exact C19_created_after_all_levels ccfg [L] w.nextId 0 (by simp) pre suf lv lis hrun j (by simpa using hj)

/-! ### concrete runs of the translated `__init__` → `_create` → `set` → `_SO_finishCreate` → `_init` → postponed thunk, and of
`_SO_setValue` (kernel evaluation of the translated programs: instances of `C19_translated_create_eq_model` /
`C19_translated_setValue_eq_model`, kept as fast witnesses that break under a semantic edit of the source) -/

/-- `Cls(c0=1)`: a RowCreateSignal listener rewrites the kwargs, another appends a callback; two RowCreatedSignal listeners:
    the translated constructor produces exactly the model's state, ordered log and outcome -/
example :
    let c : Cfg := ⟨3, false, [.int 100, .int 101, .int 102], [⟨.create, .setKey 1 (.int 7)⟩, ⟨.create, .post 3⟩, ⟨.created, .post 4⟩, ⟨.created, .observe⟩], true⟩
    absNew init (initX 3 (createX 3) (absW c init newObj) (PyEv.kwPV [(0, .int 1)])) = some (opCreate c init [(0, .int 1)])
    ∧ tags (opCreate c init [(0, .int 1)]).2.1 = [.ev .create 0, .ev .create 1, .ins 1, .post 3, .ev .created 2, .ev .created 3, .post 4] := by
  decide +kernel

/-- a failing create (rejected default) on a lazy class: before-events only, nothing stored, the thread-local list removed -/
example :
    let c : Cfg := ⟨2, true, [.int 100, .bad], [⟨.create, .observe⟩], true⟩
    absNew init (initX 3 (createX 3) (absW c init newObj) (PyEv.kwPV [(0, .int 1)])) = some (opCreate c init [(0, .int 1)]) := by
  decide +kernel

/-- `obj.c0 = 9` where a listener adds a key: `_SO_setValue` delegates to `set` with the signal suppressed and returns -/
example :
    let c : Cfg := ⟨2, false, [.int 100, .int 5], [⟨.update, .setKey 1 (.int 7)⟩, ⟨.updated, .post 3⟩], true⟩
    let s : State := ⟨[(1, [.int 1, .int 2])], 2, [⟨1, [none, none]⟩]⟩
    absUnit s 0 (setValueX 3 (absW c s (pyObj ⟨1, [none, none]⟩ [])) 0 (.int 9)) = some (opAssign c s 0 ⟨1, [none, none]⟩ 0 (.int 9))
    ∧ tags (opAssign c s 0 ⟨1, [none, none]⟩ 0 (.int 9)).2.1 = [.ev .update 0, .upd 1, .ev .updated 1, .post 3] := by
  decide +kernel


end SqlObjVerif.Events
