import SqlObjVerif.Lemmas.GraphTrav
import SqlObjVerif.Lemmas.GraphXMain
import SqlObjVerif.Lemmas.GraphXDeps
/-!
# C12 — destroySelf honours the declared cascade policy over the whole reference graph

Property theorems only.  `destroy S n db c i` is the model of `Class.get(i).destroySelf()` with recursion
budget `n` (`Res.fuel` = `RecursionError`), `Reach S db (c, i)` the cascade closure of the victim.
The statements quantify over every schema, population, link-table content, cache content, victim and budget.
-/
namespace SqlObjVerif.Graph
open Classical

/-- what "the new database is the old one minus the cascade closure of the victim" means -/
def ClosureDeleted (S : Schema) (db : DB) (c i : Nat) (db' : DB) : Prop :=
    (∀ x, Present db' x ↔ Present db x ∧ ¬ Reach S db (c, i) x) ∧
    (∀ r' ∈ db'.rows, ∃ r ∈ db.rows, r.key = r'.key ∧ r.vals.length = r'.vals.length ∧ ∀ f,
        r'.val f = if (S.fk r.cls f).policy = .setNull ∧
                      ∃ j, r.val f = some j ∧ Reach S db (c, i) ((S.fk r.cls f).target, j)
                   then none else r.val f) ∧
    (∀ l, l ∈ db'.links ↔ l ∈ db.links ∧ ¬ ∃ y, Reach S db (c, i) y ∧ Touches S l y) ∧
    (∀ x, x ∈ db'.cache ↔ x ∈ db.cache ∧ ¬ Reach S db (c, i) x) ∧
    (∀ x, Reach S db (c, i) x → reachable db' x.1 x.2 = false)

/-- **C12, success.**  For every schema, population (ids unique per class), victim and recursion
    budget: if `destroySelf` returns normally then, with `Cl = ` cascade closure of the victim in the
    old database,
    * the surviving rows are exactly the old rows outside `Cl`;
    * a surviving row has its old values, except that `cascade='null'` keys that pointed into `Cl` are
      NULL (`cascade=None`, `False` and `True` keys are never touched);
    * the surviving link rows are exactly the old ones that are not an entry (on either declared side) of a
      member of `Cl`;
    * the cache keeps exactly the entries outside `Cl`, and no member of `Cl` is reachable by id. -/
theorem C12_destroy_spec (S : Schema) (n : Nat) (db db' : DB) (c i : Nat) (hwf : db.WF)
    (hok : destroy S n db c i = .ok db') : ClosureDeleted S db c i db' := by
  have E : Ev S (Reach S db (c, i)) db db' := by
    have := (recOK_destroy S n).ev db c i; rw [hok] at this; exact this
  have C : ∀ x, Reach S db (c, i) x → Clean S db' x := fun x hx => closure_clean hwf hok hx
  unfold ClosureDeleted
  refine ⟨?_, ?_, ?_, ?_, ?_⟩
  · intro x
    constructor
    · exact fun hx => ⟨E.present hx, fun hr => (C x hr).norow hx⟩
    · rintro ⟨⟨r, hr, rfl⟩, hn⟩
      rcases E.gone r hr with h | h
      · exact h
      · exact absurd h hn
  · intro r' hr'
    obtain ⟨r, hr, h1, h2, h3, h4⟩ := E.rows r' hr'
    refine ⟨r, hr, by simp [Row.key, h1, h2], h3, fun f => ?_⟩
    split
    · next hc =>
      obtain ⟨hpol, j, hj, hreach⟩ := hc
      rcases h4 f with h | ⟨h, _⟩
      · exfalso
        exact (C _ hreach).noref r' hr' f (by rw [← h1, hpol]; simp) ⟨by rw [← h1], by rw [h, hj]⟩
      · exact h
    · next hc =>
      rcases h4 f with h | ⟨_, hpol, j, hj, hreach⟩
      · exact h
      · exact absurd ⟨hpol, j, hj, hreach⟩ hc
  · intro l
    constructor
    · exact fun hl => ⟨E.links l hl, fun ⟨y, hy, ht⟩ => (C y hy).nolink l hl ht⟩
    · rintro ⟨hl, hn⟩
      rcases E.unlinked l hl with h | h
      · exact h
      · exact absurd h hn
  · intro x
    constructor
    · exact fun hx => ⟨E.cache x hx, fun hr => (C x hr).nocache hx⟩
    · rintro ⟨hx, hn⟩
      rcases E.uncached x hx with h | h
      · exact h
      · exact absurd h hn
  · intro x hx
    have hc := C x hx
    simp only [reachable, Bool.or_eq_false_iff]
    refine ⟨?_, ?_⟩
    · have := hc.nocache
      simpa using this
    · cases hpr : present db' x.1 x.2 with
      | false => rfl
      | true => exact absurd (present_iff.mp hpr) hc.norow

/-- frame, for every outcome (normal return, refusal, recursion overflow): whatever state `destroySelf` leaves
    behind, rows are only removed or get `cascade='null'` keys NULLed, link rows and cache entries are only
    removed, and everything removed or NULLed belongs / points to the cascade closure of the victim. -/
theorem C12_destroy_frame (S : Schema) (n : Nat) (db : DB) (c i : Nat) :
    Ev S (Reach S db (c, i)) db (destroy S n db c i).db :=
  (recOK_destroy S n).ev db c i

/-- `cascade=None` references (and `cascade=False` / `True` ones) are left alone in every surviving row -/
theorem C12_keep_untouched (S : Schema) (n : Nat) (db : DB) (c i : Nat) :
    ∀ r' ∈ (destroy S n db c i).db.rows, ∃ r ∈ db.rows, r.key = r'.key ∧
      ∀ f, (S.fk r.cls f).policy ≠ .setNull → r'.val f = r.val f := by
  intro r' hr'
  obtain ⟨r, hr, h1, h2, _, h4⟩ := (C12_destroy_frame S n db c i).rows r' hr'
  refine ⟨r, hr, by simp [Row.key, h1, h2], fun f hpol => ?_⟩
  rcases h4 f with h | ⟨_, h, _⟩
  · exact h
  · exact absurd h hpol


/-- **C12, refusal (completeness).**  If some row *outside* the closure references a row of the closure through a
    `cascade=False` key, `destroySelf` does not return normally (with `C12_destroy_terminates_acyclic`: it is
    refused). -/
theorem C12_restrict_blocks (S : Schema) (n : Nat) (db db' : DB) (c i : Nat) (hwf : db.WF)
    (r : Row) (hr : r ∈ db.rows) (hout : ¬ Reach S db (c, i) r.key) (f : Nat)
    (hpol : (S.fk r.cls f).policy = .restrict) (x : Key) (hx : Reach S db (c, i) x) (href : RefVia S r f x) :
    destroy S n db c i ≠ .ok db' := by
  intro hok
  obtain ⟨h1, h2, _⟩ := C12_destroy_spec S n db db' c i hwf hok
  obtain ⟨r', hr', hk⟩ := (h1 r.key).mpr ⟨⟨r, hr, rfl⟩, hout⟩
  obtain ⟨r0, hr0, hk0, _, hv⟩ := h2 r' hr'
  have : r0 = r := hwf.uniq hr0 hr (hk0.trans hk)
  subst this
  have hcls : r0.cls = r'.cls := by simpa [Row.key] using congrArg Prod.fst hk0
  have hval : r'.val f = r0.val f := by
    rw [hv f, if_neg]
    rw [hpol]; simp
  exact (closure_clean hwf hok hx).noref r' hr' f (by rw [← hcls, hpol]; simp) ⟨hcls ▸ href.1, hval ▸ href.2⟩

/-- **C12, termination.**  On data without a cascade cycle (`ρ` strictly decreases along cascade references)
    a budget of `ρ victim + 1` activations suffices: the outcome is a normal return or a refusal, never
    `RecursionError`.  (With `ρ` = length of the longest cascade chain below a row, `ρ < number of rows`.) -/
theorem C12_destroy_terminates_acyclic (S : Schema) (ρ : Key → Nat) (n : Nat) (db : DB) (c i : Nat)
    (hr : Ranked S db ρ) (hn : ρ (c, i) < n) : (destroy S n db c i).isFuel = false :=
  destroy_nofuel S ρ n db c i hr hn

/-- **C12, refusal (soundness).**  `destroySelf` is refused *only if* some row references a row of the victim's
    cascade closure through a `cascade=False` key (old database; whatever the recursion depth at which the
    restriction is discovered, and whatever other keys the referencing class has). -/
theorem C12_refused_only_if_restricted (S : Schema) (n : Nat) (db db' : DB) (c i : Nat)
    (hr : destroy S n db c i = .refused db') :
    ∃ x, Reach S db (c, i) x ∧ ∃ r ∈ db.rows, ∃ f, (S.fk r.cls f).policy = .restrict ∧ RefVia S r f x :=
  refusedOK_destroy S n db c i db' hr

/-- acyclicity of the data is exactly the existence of a rank -/
theorem C12_acyclic_iff_ranked (S : Schema) (db : DB) : AcyclicData S db ↔ ∃ ρ, Ranked S db ρ :=
  ⟨fun h => ⟨_, (ranked_of_acyclic h).1⟩, fun ⟨_, h⟩ _ p => Nat.lt_irrefl _ (p.rank_lt h)⟩

/-- **C12, termination from plain acyclicity.**  If no row reaches itself through cascade=True references, one
    activation per row (plus one) is enough: `destroySelf` returns or is refused, never `RecursionError`
    (the graph lemma `ranked_of_acyclic` supplies the rank: longest chain of referrers, ≤ number of rows). -/
theorem C12_destroy_terminates_of_acyclic (S : Schema) (db : DB) (c i : Nat) (hac : AcyclicData S db) :
    (destroySelf S db c i).isFuel = false := by
  obtain ⟨hr, hb⟩ := ranked_of_acyclic hac
  exact C12_destroy_terminates_acyclic S _ _ db c i hr (Nat.lt_succ_of_le (hb (c, i)))

/-- … and any larger recursion limit gives the very same outcome: the budget is not part of the behaviour -/
theorem C12_fuel_irrelevant (S : Schema) (db : DB) (c i : Nat) (hac : AcyclicData S db) (m : Nat)
    (hm : db.rows.length + 1 ≤ m) : destroy S m db c i = destroySelf S db c i :=
  destroy_fuel_mono S _ m db c i (C12_destroy_terminates_of_acyclic S db c i hac) hm

/-- **C12 without fuel.**  On acyclic data with unique ids `destroySelf` has exactly two outcomes: it returns and
    the new database is the old one minus the cascade closure (`ClosureDeleted`), or it is refused and some row
    references a row of the closure through a `cascade=False` key. -/
theorem C12_destroySelf_acyclic (S : Schema) (db : DB) (c i : Nat) (hwf : db.WF) (hac : AcyclicData S db) :
    (∃ db', destroySelf S db c i = .ok db' ∧ ClosureDeleted S db c i db') ∨
    (∃ db', destroySelf S db c i = .refused db' ∧ Restricted S db (c, i)) := by
  have hnf := C12_destroy_terminates_of_acyclic S db c i hac
  cases hres : destroySelf S db c i with
  | ok db' => exact .inl ⟨db', rfl, C12_destroy_spec S _ db db' c i hwf hres⟩
  | refused db' => exact .inr ⟨db', rfl, C12_refused_only_if_restricted S _ db db' c i hres⟩
  | fuel db' => rw [hres] at hnf; cases hnf

/-- **C12, refusal, both directions.**  On acyclic data: refused ⇔ some row references a closure member through a
    `cascade=False` key — provided that, when there are such rows at all, at least one of them lies outside the
    closure.  (When every restricting row is itself inside the closure the outcome depends on the order in which
    the classes were declared: `C12_refusal_order_dependent`.) -/
theorem C12_refused_iff_partial (S : Schema) (db : DB) (c i : Nat) (hwf : db.WF) (hac : AcyclicData S db)
    (hout : Restricted S db (c, i) →
      ∃ x, Reach S db (c, i) x ∧ ∃ r ∈ db.rows, ∃ f, (S.fk r.cls f).policy = .restrict ∧ RefVia S r f x ∧
        ¬ Reach S db (c, i) r.key) :
    (∃ db', destroySelf S db c i = .refused db') ↔ Restricted S db (c, i) := by
  constructor
  · rintro ⟨db', hr⟩
    exact C12_refused_only_if_restricted S _ db db' c i hr
  · intro hres
    obtain ⟨x, hx, r, hr, f, hp, hf, hnr⟩ := hout hres
    rcases C12_destroySelf_acyclic S db c i hwf hac with ⟨db', hok, _⟩ | ⟨db', href, _⟩
    · exact absurd hok (C12_restrict_blocks S _ db db' c i hwf r hr hnr f hp x hx hf)
    · exact ⟨db', href⟩

/-- **C12, outcome, exact for the model.**  `trav` walks the *original, immutable* reference graph in
    `destroySelf`'s visiting order (dependent classes in registry order, rows in table order, depth first) and
    remembers only which keys are already deleted.  For every schema, population, victim and budget the two agree:
    `destroySelf` is refused iff the walk meets a not-yet-deleted row referencing the current victim through a
    `cascade=False` key; it overflows iff the walk does; and when both succeed the surviving rows are the original
    ones outside the walk's deleted list, in the original order, with unchanged cascade / restrict keys. -/
theorem C12_outcome_exact (S : Schema) (n : Nat) (db : DB) (c i : Nat) :
    ((∃ db', destroy S n db c i = .refused db') ↔ trav S db n [] c i = .refused) ∧
    ((∃ db', destroy S n db c i = .fuel db') ↔ trav S db n [] c i = .fuel) ∧
    (∀ db', destroy S n db c i = .ok db' → ∃ D, trav S db n [] c i = .ok D ∧ Sim S db D db') := by
  have h := trav_sim S db n [] db c i (Sim.init S db)
  cases h1 : destroy S n db c i <;> cases h2 : trav S db n [] c i <;> rw [h1, h2] at h <;> simp only [ResSim] at h <;>
    simp_all

/-- **C12, refusal, exact and without fuel**: no hypothesis at all -/
theorem C12_refusal_exact (S : Schema) (db : DB) (c i : Nat) :
    (∃ db', destroySelf S db c i = .refused db') ↔ traverse S db c i = .refused :=
  (C12_outcome_exact S _ db c i).1

/-! ### The full-strength statements are false of the code: witnesses (replayed on the implementation by the
harness, corpus/C12/corner.json) -/

/-- witness (a): one class with a cascade key to itself, one row pointing at itself -/
def cycS : Schema := [⟨[⟨0, .cascade⟩], []⟩]
def cycDB : DB := ⟨[⟨0, 1, [some 1]⟩], [], [(0, 1)]⟩

theorem C12_cycle_step (rec : DB → Nat → Nat → Res) (h : rec cycDB 0 1 = .fuel cycDB) :
    destroyStep cycS rec cycDB 0 1 = .fuel cycDB := by
  have hd : dependents cycS 0 = [0] := by decide
  have h1 : ({ cycDB with links := delOwnLinks cycS 0 1 cycDB.links } : DB) = cycDB := by decide
  have h2 : ({ cycDB with links := delDepLinks cycS 0 0 1 cycDB.links } : DB) = cycDB := by decide
  have hc : depCols cycS 0 0 = [0] := by decide
  have h3 : nullRefs cycS cycDB 0 [0] 1 = cycDB := by decide
  have h4 : (matching cycDB 0 [0] 1).map (·.id) = [1] := by decide
  have h5 : (!(matching cycDB 0 (restrictCols cycS 0 [0]) 1).isEmpty) = false := by decide
  have h6 : hasPolicy cycS 0 [0] .cascade = true := by decide
  have h7 : present cycDB 0 1 = true := by decide
  unfold destroyStep
  simp only [hd, h1, procDeps, procDep, h2, hc, h3, h4, h5, h6, h7, destroyRows, h, List.isEmpty_cons,
    Bool.false_eq_true, if_false, if_true]

/-- a self-referencing cascade row: every budget overflows (the real code: `RecursionError`), nothing is deleted -/
theorem C12_cascade_cycle_diverges : ∀ n, destroy cycS n cycDB 0 1 = .fuel cycDB
  | 0 => rfl
  | n + 1 => C12_cycle_step _ (C12_cascade_cycle_diverges n)

/-- full-strength termination ("destroying an object deletes its row …" for *all* populations) is FALSE -/
theorem C12_terminates_full_FALSE :
    ¬ (∀ (S : Schema) (db : DB) (c i : Nat), db.WF → ∃ n, (destroy S n db c i).isFuel = false) := by
  intro h
  obtain ⟨n, hn⟩ := h cycS cycDB 0 1 (by simp [DB.WF, cycDB])
  rw [C12_cascade_cycle_diverges n] at hn
  cases hn

/-- witness of the repaired defect (c) (fix 8396437): `K` has a `cascade=False` key and a `cascade=True` key to
    `A`; its row references `a` through the cascade key only.  It used to be refused; now it cascades. -/
def mixS : Schema := [⟨[], []⟩, ⟨[⟨0, .restrict⟩, ⟨0, .cascade⟩], []⟩]
def mixDB : DB := ⟨[⟨0, 1, []⟩, ⟨1, 1, [none, some 1]⟩], [], []⟩

/-- witness (d): `r` references `b` through a cascade key and `c` through a `cascade=False` key; `b` is
    processed first -/
def insS : Schema := [⟨[], []⟩, ⟨[⟨0, .cascade⟩], []⟩, ⟨[⟨0, .cascade⟩], []⟩, ⟨[⟨1, .cascade⟩, ⟨2, .restrict⟩], []⟩]
def insDB : DB := ⟨[⟨0, 1, []⟩, ⟨1, 1, [some 1]⟩, ⟨2, 1, [some 1]⟩, ⟨3, 1, [some 1, some 1]⟩], [], []⟩

/-- "refused if any row it would have to delete is referenced through a cascade=False key" (by whatever row) is
    FALSE: a restricting row that is itself deleted earlier in the traversal does not block
    (`C12_restrict_blocks` is the proved version: restricting row outside the closure) -/
theorem C12_restrict_blocks_full_FALSE :
    ¬ (∀ (S : Schema) (n : Nat) (db db' : DB) (c i : Nat) (r : Row) (f : Nat) (x : Key), db.WF → r ∈ db.rows →
        (S.fk r.cls f).policy = .restrict → Reach S db (c, i) x → RefVia S r f x → destroy S n db c i ≠ .ok db') := by
  intro h
  have hreach : Reach insS insDB (0, 1) (2, 1) :=
    Reach.step (r := ⟨2, 1, [some 1]⟩) (by simp [insDB]) ⟨0, by decide, by decide, by decide⟩ .refl
  exact h insS 5 insDB ⟨[], [], []⟩ 0 1 ⟨3, 1, [some 1, some 1]⟩ 1 (2, 1) (by simp [DB.WF, insDB, Row.key])
    (by simp [insDB]) (by decide) hreach ⟨by decide, by decide⟩ (by decide)

/-- the same data with the two identically declared classes `B` and `C` exchanged in the registry (equivalently:
    `R`'s cascade key pointing at the class that is declared later) -/
def insS' : Schema := [⟨[], []⟩, ⟨[⟨0, .cascade⟩], []⟩, ⟨[⟨0, .cascade⟩], []⟩, ⟨[⟨2, .cascade⟩, ⟨1, .restrict⟩], []⟩]

/-- when every restricting row lies inside the closure, whether `destroySelf` is refused depends on the order in
    which the dependent classes were declared — no condition phrased on the reference graph alone (as the
    property's wording is) can be exact for this case -/
theorem C12_refusal_order_dependent :
    destroySelf insS insDB 0 1 = .ok ⟨[], [], []⟩ ∧ destroySelf insS' insDB 0 1 = .refused insDB := by decide

/-! ### Non-vacuity -/
example : traverse insS insDB 0 1 = .ok [(0, 1), (2, 1), (1, 1), (3, 1)] := by decide
example : traverse insS' insDB 0 1 = .refused := by decide
example : traverse cycS cycDB 0 1 = .fuel := by decide
example : AcyclicData insS insDB := by
  rw [C12_acyclic_iff_ranked]
  refine ⟨fun x => 3 - x.1, ?_⟩
  intro r hr y ⟨f, hp, ht, hv⟩
  simp only [insDB, List.mem_cons, List.not_mem_nil, or_false] at hr
  rcases hr with rfl | rfl | rfl | rfl <;> rcases f with _ | _ | f <;>
    simp_all [Schema.fk, Schema.cls, insS, Row.val, Row.key] <;> omega


example : destroy mixS 3 mixDB 0 1 = .ok ⟨[], [], []⟩ := by decide
example : destroy mixS 3 ⟨[⟨0, 1, []⟩, ⟨1, 1, [some 1, none]⟩], [], []⟩ 0 1 = .refused ⟨[⟨0, 1, []⟩, ⟨1, 1, [some 1, none]⟩], [], []⟩ := by decide
example : destroy insS 5 insDB 0 1 = .ok ⟨[], [], []⟩ := by decide
/-- a chain of depth 2 with a null reference, a kept reference and link rows on both sides -/
example : destroy [⟨[], [⟨2, 0, true⟩]⟩, ⟨[⟨0, .cascade⟩], []⟩, ⟨[⟨1, .cascade⟩, ⟨0, .setNull⟩, ⟨0, .keep⟩], [⟨0, 0, false⟩]⟩] 4
    ⟨[⟨0, 1, []⟩, ⟨0, 2, []⟩, ⟨1, 1, [some 1]⟩, ⟨2, 1, [some 1, some 2, some 1]⟩, ⟨2, 2, [none, some 1, some 1]⟩],
     [⟨0, 1, 2⟩, ⟨0, 2, 1⟩, ⟨0, 2, 2⟩], [(0, 1), (2, 2)]⟩ 0 1
    = .ok ⟨[⟨0, 2, []⟩, ⟨2, 2, [none, none, some 1]⟩], [⟨0, 2, 2⟩], [(2, 2)]⟩ := by decide

/-! ### The model is what the source says: the TRANSLATED `destroySelf`

`destroySelfX` runs the program `vlib/extractors/pydestroy.py` translated from `main.py` on this run
(`Extracted/PyDestroy.lean`) in the reference semantics `Model/PyDestroy.lean`, against the interface stated in the header of
`Model/GraphX.lean` (what `select`, `count`, `getattr(row, name)`, `row.set`, `syncUpdate`, the link-table DELETE,
`_SO_delete`, `cache.expire` and the signals do). -/

/-- **C12, translator tie.**  For every schema, every database with ids unique per class, every victim, every
    `lazyUpdate` assignment and every recursion budget: running the translated `destroySelf` with the recursive call
    `row.destroySelf()` bound to the model's `destroy` at budget `n` gives exactly the model's `destroy` at budget `n + 1` —
    the same outcome (normal return / `SQLObjectIntegrityError` / `RecursionError`) and the same rows, link rows and cache,
    with no pending lazy assignment left. -/
theorem C12_translated_destroySelf_eq_model (S : Schema) (lz : Nat → Bool) (n : Nat) (db : DB) (c i : Nat) (hwf : db.WF) :
    destroySelfX S lz (destroy S n) ⟨db, []⟩ c i = resImg (destroy S (n + 1) db c i) :=
  destroySelfX_eq_model S lz c i n db hwf

/-- … and for ANY meaning of the recursive call that keeps ids unique per class, one run of the translated method is one
    activation `destroyStep` of the model (the fixed-point equation `destroy S (n+1) = destroyStep S (destroy S n)` holds
    by definition) -/
theorem C12_translated_destroySelf_eq_step (S : Schema) (lz : Nat → Bool) (rec : DB → Nat → Nat → Res) (hrec : RecWF rec)
    (db : DB) (c i : Nat) (hwf : db.WF) :
    destroySelfX S lz rec ⟨db, []⟩ c i = resImg (destroyStep S rec db c i) :=
  destroySelfX_eq_step S lz rec c i hrec db hwf

/-- one iteration of the translated loop over the dependent classes is the model's per-class step `procDep` -/
theorem C12_translated_dependent_step (S : Schema) (lz : Nat → Bool) (rec : DB → Nat → Nat → Res) (c i k : Nat)
    (db : DB) (env : PyDestroy.Env Hnd) (hwf : db.WF) (h1 : env 1 = some (.obj (.cls c))) :
    StepOK env (PyDestroy.Block.exec (dIface S lz rec c i) (PyDestroy.St.setVar ⟨⟨db, []⟩, env⟩ 5 (.obj (.cls k)))
      PyDestroy.Extracted.destroySelf_for1) (procDep S rec c i db k) :=
  for1_step S lz rec c i k ⟨db, []⟩ env rfl hwf h1

/-- the translated `findDependantColumns(<name of c>, k)` returns the model's `depCols S c k` and changes nothing -/
theorem C12_translated_findDependantColumns_eq_model (S : Schema) (c k : Nat) :
    fdcX S c k = .ret ⟨⟨[], [], []⟩, []⟩ (PyDestroy.Val.ofList ((depCols S c k).map fun f => .obj (.col k f))) :=
  fdcX_eq S c k

/-- the translated `findDependencies(<name of c>, registry)` — what `self._SO_depends()` is — returns the model's
    `dependents S c`, in registry order, and changes nothing -/
theorem C12_translated_findDependencies_eq_model (S : Schema) (c : Nat) :
    fdepsX S c = .ret ⟨⟨[], [], []⟩, []⟩ (PyDestroy.Val.ofList ((dependents S c).map fun k => .obj (.cls k))) :=
  fdepsX_eq S c

/-- the closure postcondition, stated of the translated code: if the translated `destroySelf` (recursion through the model)
    returns normally, the database it leaves is the old one minus the cascade closure of the victim -/
theorem C12_translated_destroySelf_spec (S : Schema) (lz : Nat → Bool) (n : Nat) (db : DB) (c i : Nat) (hwf : db.WF)
    (w' : XW) (v : PVal) (h : destroySelfX S lz (destroy S n) ⟨db, []⟩ c i = .ret w' v) :
    ClosureDeleted S db c i w'.db ∧ w'.pend = [] := by
  rw [C12_translated_destroySelf_eq_model S lz n db c i hwf] at h
  cases hd : destroy S (n + 1) db c i with
  | ok db' =>
    rw [hd] at h
    simp only [resImg, PyDestroy.CallRes.ret.injEq] at h
    obtain ⟨rfl, _⟩ := h
    exact ⟨C12_destroy_spec S (n + 1) db db' c i hwf hd, rfl⟩
  | refused db' => rw [hd] at h; cases h
  | fuel db' => rw [hd] at h; cases h

/-- non-vacuity: the hypotheses are satisfiable and all three outcomes occur (lazy and eager classes) -/
example : destroySelfX insS (fun k => k == 3) (destroy insS 4) ⟨insDB, []⟩ 0 1 = .ret ⟨⟨[], [], []⟩, []⟩ .none := by
  rw [C12_translated_destroySelf_eq_model _ _ _ _ _ _ (by simp [DB.WF, insDB, Row.key])]
  have h : destroy insS (4 + 1) insDB 0 1 = .ok ⟨[], [], []⟩ := by decide
  rw [h]; rfl
example : destroySelfX insS' (fun _ => false) (destroy insS' 4) ⟨insDB, []⟩ 0 1 = .exc ⟨insDB, []⟩ "SQLObjectIntegrityError" := by
  rw [C12_translated_destroySelf_eq_model _ _ _ _ _ _ (by simp [DB.WF, insDB, Row.key])]
  have h : destroy insS' (4 + 1) insDB 0 1 = .refused insDB := by decide
  rw [h]; rfl
example : destroySelfX cycS (fun _ => true) (destroy cycS 7) ⟨cycDB, []⟩ 0 1 = .exc ⟨cycDB, []⟩ "RecursionError" := by
  rw [C12_translated_destroySelf_eq_model _ _ _ _ _ _ (by simp [DB.WF, cycDB])]
  rw [C12_cascade_cycle_diverges]; rfl

end SqlObjVerif.Graph
