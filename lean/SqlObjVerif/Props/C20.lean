import SqlObjVerif.Lemmas.Version
import SqlObjVerif.Lemmas.VersionXRestore
import SqlObjVerif.Lemmas.VersionXGet
import SqlObjVerif.Lemmas.VersionXNext
import SqlObjVerif.Lemmas.VersionXCAdd
/-!
# C20 — versioning records the exact history of a row and can restore any point; versions of
different masters never mix

Property theorems only.  `versionsOf s m` is `[v.values for v in master_m.versions]` (id order),
`rowOf? s.masters m` the current row, `s.hist m` the ghost list of the successive states of row `m`
(appended by every *successful* create / update — Model/Version.lean).
-/
namespace SqlObjVerif.Version
open SqlObjVerif.Events

/-- **versions are the history** — for every configuration, every number of masters and every
    history of create / assign / set / restore in which no update fails: after the history, for
    every master `m` that exists, the versions of `m` (oldest first) followed by the current row
    of `m` are exactly the successive states row `m` went through. -/
theorem C20_versions_are_history_partial (c : VCfg) (ops : List VOp) (hnf : noFailedUpdate c vinit ops = true)
    (m : Nat) (row : List Val) (hm : rowOf? (vrun c vinit ops).masters m = some row) :
    versionsOf (vrun c vinit ops) m ++ [row] = (vrun c vinit ops).hist m :=
  (hinv_run c ops vinit hinv_init hnf).hist m row hm

/-- the statement without the "no update fails" hypothesis -/
def VersionsAreHistory : Prop :=
  ∀ (c : VCfg) (ops : List VOp) (m : Nat) (row : List Val),
    rowOf? (vrun c vinit ops).masters m = some row →
      versionsOf (vrun c vinit ops) m ++ [row] = (vrun c vinit ops).hist m

/-- **the full statement is false of the code**: the snapshot is taken on the before-event, so
    `m = Master(c0=1); m.c0 = <rejected value>` leaves one version although the row has had a
    single state.  (Replayed on the real code on every run: `C20:failed-update-appends-version`.) -/
theorem C20_versions_are_history_full_FALSE : ¬ VersionsAreHistory := by
  intro h
  have := h ⟨1, [.null], false⟩ [.create [(0, .int 1)], .assign 1 0 .bad] 1 [.int 1] (by decide)
  revert this
  decide

/-- **restore**: restoring version `v` of an existing master (when the update goes through) makes
    the master row equal to `v`'s values, records the overwritten state as the newest version of
    that master, and touches no other row. -/
theorem C20_restore_spec (c : VCfg) (s : VState) (vid : Nat) (v : VRow) (row : List Val)
    (hv : s.versions.find? (fun v => v.vid = vid) = some v)
    (hr : rowOf? s.masters v.master = some row) (hlen : row.length = v.vals.length)
    (hok : (vRestore c s vid).2 = .ok) :
    rowOf? (vRestore c s vid).1.masters v.master = some v.vals
    ∧ (vRestore c s vid).1.versions = s.versions ++ [⟨s.nextV, v.master, row⟩]
    ∧ ∀ m', m' ≠ v.master → rowOf? (vRestore c s vid).1.masters m' = rowOf? s.masters m' := by
  simp only [vRestore, hv, vUpdateVec, hr] at hok ⊢
  split
  · rename_i h; simp [h] at hok
  · split
    · rename_i h; simp at h
    · split
      · rename_i h1 h2 h3; simp [h1, h3] at hok
      · split
        · rename_i he
          have : v.vals = [] := by
            cases hvv : v.vals with
            | nil => rfl
            | cons y ys => simp [vecEmpty, hvv] at he
          have hrow : row = [] := by
            rw [this] at hlen; simpa using hlen
          simp [hr, hrow, this]
        · refine ⟨?_, rfl, ?_⟩
          · simp only [rowOf_updRows, if_true, hr, Option.map_some, applyVec_map_some row v.vals hlen]
          · intro m' hm'
            simp only [rowOf_updRows, hm', if_false]

/-- **masters never mix**, for every operation and every outcome (failing updates included): an
    update aimed at master `m` leaves the version list of every other master as it was, and the one
    version row it appends is a copy of the current row of `m` itself, filed under `m`; a create
    appends no version. -/
theorem C20_masters_disjoint (c : VCfg) (s : VState) (m : Nat) (vec : List (Option Val)) (unk : Bool) (kw : Kw) :
    (∀ m', m' ≠ m → versionsOf (vUpdateVec c s m vec unk).1 m' = versionsOf s m')
    ∧ (∀ v ∈ (vUpdateVec c s m vec unk).1.versions,
        v ∈ s.versions ∨ (v.master = m ∧ rowOf? s.masters m = some v.vals))
    ∧ (vCreate c s kw).1.versions = s.versions := by
  refine ⟨?_, ?_, ?_⟩
  · intro m' hm'
    unfold vUpdateVec
    cases hr : rowOf? s.masters m with
    | none => rfl
    | some row =>
      have hne : ¬ m = m' := fun h => hm' h.symm
      simp only []
      split
      · simp [versionsOf, List.filter_append, hne]
      · split
        · simp [versionsOf, List.filter_append, hne]
        · split
          · simp [versionsOf, List.filter_append, hne]
          · split <;> simp [versionsOf, List.filter_append, hne]
  · intro v hv
    unfold vUpdateVec at hv
    cases hr : rowOf? s.masters m with
    | none => simp only [hr] at hv; exact Or.inl hv
    | some row =>
      simp only [hr] at hv
      have key : v ∈ s.versions ++ [⟨s.nextV, m, row⟩] → v ∈ s.versions ∨ (v.master = m ∧ some row = some v.vals) := by
        intro h
        simp only [List.mem_append, List.mem_singleton] at h
        rcases h with h | rfl
        · exact Or.inl h
        · exact Or.inr ⟨rfl, rfl⟩
      split at hv
      · exact key hv
      · split at hv
        · exact key hv
        · split at hv
          · exact key hv
          · split at hv <;> exact key hv
  · unfold vCreate
    simp only []
    split
    · rfl
    · split
      · rfl
      · split <;> rfl

/-! ## masters bound to an explicit connection (second database, transaction) -/

/-- **every database keeps its own exact history** — masters made with `connection=` included: for
    every interleaving of operations (restores included) over any number of databases in which no
    update fails in database `d`, the versions of a master of `d` followed by its current row are
    exactly its history; operations on other databases change nothing in `d`. -/
theorem C20_versions_are_history_per_connection (c : VCfg) (ops : List (Nat × VOp))
    (d : Nat) (hnf : noFailedUpdate c vinit ((ops.filter (fun p => p.1 = d)).map (·.2)) = true)
    (m : Nat) (row : List Val) (hm : rowOf? ((drun c dinit ops) d).masters m = some row) :
    versionsOf ((drun c dinit ops) d) m ++ [row] = ((drun c dinit ops) d).hist m := by
  rw [drun_proj c ops dinit d] at hm ⊢
  exact C20_versions_are_history_partial c _ hnf m row hm

/-- **restore respects the connection** (fix 14bb19e): restoring a version found in database `d`
    makes the master *of database `d`* equal to it, records the overwritten state as the newest
    version in `d`, and leaves every other database exactly as it was. -/
theorem C20_restore_spec_per_connection (c : VCfg) (S : DState) (d vid : Nat) (v : VRow) (row : List Val)
    (hv : (S d).versions.find? (fun v => v.vid = vid) = some v)
    (hr : rowOf? (S d).masters v.master = some row) (hlen : row.length = v.vals.length)
    (hok : (dstep c S d (.restore vid)).2 = .ok) :
    rowOf? ((dstep c S d (.restore vid)).1 d).masters v.master = some v.vals
    ∧ ((dstep c S d (.restore vid)).1 d).versions = (S d).versions ++ [⟨(S d).nextV, v.master, row⟩]
    ∧ ∀ d', d' ≠ d → (dstep c S d (.restore vid)).1 d' = S d' := by
  have h := C20_restore_spec c (S d) vid v row hv hr hlen (by simpa [dstep, vstep] using hok)
  refine ⟨by simpa [dstep, dset, vstep] using h.1, by simpa [dstep, dset, vstep] using h.2.1, ?_⟩
  intro d' hd
  simp [dstep, dset, hd]

/-! ## non-vacuity -/

/-- two masters, interleaved updates and a restore: the hypothesis holds and the lists are non-trivial -/
example :
    let c : VCfg := ⟨2, [.int 100, .int 101], false⟩
    let ops : List VOp := [.create [(0, .int 1)], .create [(0, .int 2)], .assign 1 1 (.int 5), .set 2 [(0, .int 3)],
      .assign 1 0 (.int 9), .restore 1]
    noFailedUpdate c vinit ops = true
    ∧ versionsOf (vrun c vinit ops) 1 = [[.int 1, .int 101], [.int 1, .int 5], [.int 9, .int 5]]
    ∧ rowOf? (vrun c vinit ops).masters 1 = some [.int 1, .int 101]
    ∧ versionsOf (vrun c vinit ops) 2 = [[.int 2, .int 101]] := by decide

/-! ## the model is what the SOURCE says: `sqlobject/versioning/__init__.py` as TRANSLATED on this run

`rowUpdateX`, `restoreX`, `getX`, `selectX` run the PyVersion programs the translator (`vlib/extractors/pyversion.py`)
produced from /repo's AST on this very run (`Extracted/PyVersion.lean`), under the reference semantics of
`Model/PyVersion.lean`, against the interface stated in the header of `Model/VersionX.lean` (calls into SQLObject:
`asDict`, the constructor, `get`, `set` below its signal, `SQLObject.select`).  `X.OK`: the column keywords are distinct,
one per column, none of them `id` / `masterID` / `dateArchived`. -/

/-- **`Versioning.rowUpdate` (the RowUpdateSignal listener) is the snapshot step of the model's update**: run on the
    master instance `(d, m)` whose row is `row`, the translated listener appends exactly one version row — next version
    id, filed under `m`, holding `row` (the values BEFORE the update) — to the version table of the instance's own
    connection `d` and changes nothing else; and the model's `vUpdateVec` is that state followed by the rest of
    `SQLObject.set` (validation, unknown keywords, UPDATE), for every column vector. -/
theorem C20_translated_rowUpdate_eq_model (X : Ctx) (hX : X.OK) (w : XW) (d m : Nat) (row : List Val) (kwargs : PVal)
    (hr : rowOf? (w.S d).masters m = some row) (hlen : row.length = X.names.length) :
    rowUpdateX X w (.inst d 0 m) kwargs = .ret (w.setS d (snap (w.S d) m row)) .none [.inst d 0 m, kwargs]
    ∧ ∀ vec unk, vUpdateVec X.c (w.S d) m vec unk = setRest X.c (snap (w.S d) m row) m row vec unk := by
  refine ⟨rowUpdateX_eq X hX w d m row kwargs hr hlen, ?_⟩
  intro vec unk
  rw [vUpdateVec_eq_setRest, hr]

/-- **`Version.restore` is the model's restore step**: run on the version instance `(d, vid)` (row `v`), the translated
    method — `asDict`, the deletions of `id` / `masterID` / `dateArchived` / every `extraCols` key, `masterClass.get(masterID,
    connection=self._connection).set(**values)` where `set` sends RowUpdateSignal to the TRANSLATED `rowUpdate` and goes
    on as `SQLObject.set` — leaves every database and yields the outcome exactly as `dstep … (.restore vid)` does: only
    database `d` changes, by `vRestore`. -/
theorem C20_translated_restore_eq_model (X : Ctx) (hX : X.OK) (w : XW) (d vid : Nat) (v : VRow)
    (hv : (w.S d).versions.find? (fun r => r.vid = vid) = some v) (hvl : v.vals.length = X.names.length)
    (hrl : ∀ row, rowOf? (w.S d).masters v.master = some row → row.length = X.names.length) :
    outOf (restoreX X w d vid) = some (dstep X.c w.S d (.restore vid)) :=
  restoreX_eq X hX w d vid v hv hvl hrl

/-- **`Versioning.__get__` (`obj.versions`) is the model's `versionsOf`**: the translated descriptor returns the select
    over the version class with the clause `masterID == obj.id` through `obj`'s OWN connection, whose rows are the
    versions of `m` in database `d` in id order; no table changes (`Version.select`, translated too, may give the
    version class the master's connection).  `__get__(None, …)` returns the descriptor. -/
theorem C20_translated_get_eq_model (X : Ctx) (w : XW) (d m : Nat) (ty : PVal) :
    getX X w (.inst d 0 m) ty = .ret (withConn X w) (getSel d m (withConn X w).vconn) [.inst d 0 m, ty]
    ∧ (withConn X w).S = w.S
    ∧ (selRows (withConn X w) (getSel d m (withConn X w).vconn)).map (fun l => l.map (·.vals)) = some (versionsOf (w.S d) m)
    ∧ getX X w .none ty = .ret w vobj [.none, ty] := by
  refine ⟨getX_eq X w d m ty, withConn_S X w, ?_, getX_none X w ty⟩
  rw [getSel_rows, withConn_S]

/-- **`Version.select` (classmethod)**: gives the version class the master class's connection when it has none, then is
    `SQLObject.select(clause, *args, **kw)`. -/
theorem C20_translated_select_eq_model (X : Ctx) (w : XW) (clause rest kw : PVal) (l : List PVal)
    (hl : rest.toList = some l) :
    selectX X (.cls 1) w clause rest kw
      = .ret (withConn X w) (.obj "select" (.pair (.cls 1) (PyVer.Val.ofList (clause :: l))) (.pair kw (withConn X w).vconn))
          [clause, rest, kw] :=
  selectX_eq X w clause rest kw l hl

/-- non-vacuity: a concrete configuration satisfies `X.OK`, and the translated `restore` / `rowUpdate` / `__get__` run
    to the end on a concrete world -/
example :
    let X : Ctx := ⟨⟨2, [.int 100, .int 101], false⟩, ["c0", "c1"], ["note"], "M", .conn 0, fun _ _ => .nat 7, fun _ _ _ => .str "x"⟩
    let s : VState := vrun X.c vinit [.create [(0, .int 1)], .assign 1 1 (.int 5)]
    let w : XW := ⟨fun d => if d = 0 then s else vinit, .conn 0⟩
    X.OK
    ∧ (outOf (restoreX X w 0 1)).map (fun p => ((p.1 0).masters, (p.1 0).versions, p.2))
        = some ([(1, [.int 1, .int 101])], [⟨1, 1, [.int 1, .int 101]⟩, ⟨2, 1, [.int 1, .int 5]⟩], .ok)
    ∧ (outOf (rowUpdateX X w (.inst 0 0 1) .none)).map (fun p => ((p.1 0).versions, p.2))
        = some ([⟨1, 1, [.int 1, .int 101]⟩, ⟨2, 1, [.int 1, .int 5]⟩], .ok) :=
  ⟨⟨rfl, by decide, by decide⟩, by decide, by decide⟩

/-! ### the remaining methods of `Version`, translated -/

/-- **`Version.nextVersion` as translated**: the version of the same master with the next larger id, else the master.
    The lookup goes through the version CLASS's connection `k` (`self.select(…)` passes no `connection=`) — not through
    the version's own connection `d`; only the fall-back `self.master` is on `d`. -/
theorem C20_translated_nextVersion_eq_model (X : Ctx) (w : XW) (d vid k : Nat) (v : VRow)
    (hv : (w.S d).versions.find? (fun r => r.vid = vid) = some v) (hk : (withConn X w).vconn = .conn k) :
    nextVersionX X (.inst d 1 vid) w = .ret (withConn X w)
      (match ((w.S k).versions.filter fun r => decide (r.master = v.master) && decide (vid < r.vid)).head? with
       | some r => .inst k 1 r.vid
       | none => .inst d 0 v.master) [] :=
  nextVersionX_eq X w d vid k v hv hk

/-- **`Version.__getattr__` as translated**: a name normal lookup did not find is read from the master instance on the
    version's own connection. -/
theorem C20_translated_getattr_eq_model (X : Ctx) (w : XW) (d vid : Nat) (v : VRow) (n : String)
    (hv : (w.S d).versions.find? (fun r => r.vid = vid) = some v) :
    getattrX X w d vid (.str n) = retOf w [.str n] (xAttr X w (.inst d 0 v.master) n) :=
  getattrX_eq X w d vid v n hv

/-- `Version.getChangedFields` is translated and runs (the title-cased names of the columns in which the version
    differs from its successor); no general theorem is stated for it -/
example :
    let X : Ctx := ⟨⟨2, [.int 100, .int 101], false⟩, ["c0", "c1"], [], "M", .conn 0, fun _ _ => .nat 7, fun _ _ _ => .none⟩
    let s : VState := vrun X.c vinit [.create [(0, .int 1)], .assign 1 1 (.int 5), .assign 1 0 (.int 6)]
    let w : XW := ⟨fun d => if d = 0 then s else vinit, .conn 0⟩
    (match getChangedFieldsX X w 0 1 with | .ret _ v _ => some v | _ => none) = some (.cons (.str "C1") .nil)
    ∧ (match getChangedFieldsX X w 0 2 with | .ret _ v _ => some v | _ => none) = some (.cons (.str "C0") .nil) := by
  decide +kernel

/-! ### the class-construction half of the module, translated (`Model/VersionXC.lean`: world = attributes set on the
descriptor and the version class, the `_kw` dicts of the column definitions, the `events.listen` registrations, the
classes made by `type(…)`) -/

open SqlObjVerif.VersionC in
/-- **`getColumns` as translated, calling itself along `parentClass`** (any depth `< n`): the dict passed in comes back
    with, for every column definition of the class and of its ancestors, a NEW definition of the same `Col` class made
    from a COPY of its keywords without `alternateID` / `unique` (a `ForeignKey` `xID` filed under `x`) —
    `versionCols` — and the world is unchanged: the master's own definitions (`kw`) keep their constraints, which is
    why the model's `dupl` still applies to the master table while version rows are appended unconditionally. -/
theorem C20_translated_getColumns_eq_model (X : CX) (w : CW) (n c : Nat) (cols : PVal) (h : depthOK X n c) :
    getColumnsN X n w (.dictv cols) (.cls c) = .ret w .none [.dictv (versionCols X w n c cols), .cls c] :=
  getColumnsN_eq X w n c cols h

open SqlObjVerif.VersionC in
/-- the copied keywords carry neither `unique` nor `alternateID` (for a dict: keys are distinct) -/
theorem C20_translated_getColumns_strips (b : PVal) (h : (PyVer.vdKeys b).Nodup) :
    PyVer.vdHas (.str "unique") (stripKw b) = false ∧ PyVer.vdHas (.str "alternateID") (stripKw b) = false :=
  stripKw_clean b h

open SqlObjVerif.VersionC in
/-- **`Versioning.__addtoclass__` as translated**: stores `name` / `soClass`; makes ONE class `<Master>Versions` with base
    `Version` and the attributes `dateArchived = DateTimeCol(default=datetime.now)`, `master = ForeignKey(<Master>)`,
    `masterClass`, `extraCols`, the stripped copies of the master's (and its ancestors') column definitions, then the
    extra columns; gives it the master's `_connection` when the master's class body set one; and registers exactly two
    listeners on the master class, in this order: `createTable` for CreateTableSignal, `rowUpdate` for RowUpdateSignal.
    Nothing else changes (`addedWorld`; in particular `kw`, the master's column definitions). -/
theorem C20_translated_addtoclass_eq_model (X : CX) (w : CW) (n c : Nat) (name e : PVal) (hd : depthOK X n c)
    (he : w.attrs VersionC.vobj "extraCols" = some (.dictv e)) :
    addtoclassX X n w (.cls c) name = .ret (addedWorld X w n c name e) .none [.cls c, name]
    ∧ (addedWorld X w n c name e).kw = w.kw
    ∧ (addedWorld X w n c name e).listeners = w.listeners ++
        [(meth VersionC.vobj "createTable", .cls c, glob "events.CreateTableSignal"),
         (meth VersionC.vobj "rowUpdate", .cls c, glob "events.RowUpdateSignal")] := by
  refine ⟨addtoclassX_eq X w n c name e hd he, ?_, rfl⟩
  unfold addedWorld
  cases X.hasConn c <;> rfl

open SqlObjVerif.VersionC in
/-- **`Versioning.__init__`, `createTable` (CreateTableSignal listener), `createVersionTable` as translated** -/
theorem C20_translated_setup_eq_model (X : CX) (w : CW) (e conn extra post cls : PVal) (c vc : Nat) :
    initX X w e = .ret (w.setAttr VersionC.vobj "extraCols" (if PyVer.pyBool e then e else .dictv .nil)) .none [e]
    ∧ (w.attrs VersionC.vobj "soClass" = some (.cls c) → PyVer.isListVal post = true →
        createTableX X w (.cls c) conn extra post
          = .ret w .none [.cls c, conn, extra, PyVer.vAppend post (meth VersionC.vobj "createVersionTable")])
    ∧ (w.attrs VersionC.vobj "versionClass" = some (.cls vc) →
        createVersionTableX X w cls conn = .ret { w with created := w.created ++ [(.cls vc, conn)] } .none [cls, conn]) :=
  ⟨initX_eq X w e, createTableX_eq X w c conn extra post, createVersionTableX_eq X w vc cls conn⟩

/-- non-vacuity: a master with a `unique` column, a foreign key and a parent class -/
example :
    let X : VersionC.CX := ⟨fun c => if c = 0 then [⟨"c0", "IntCol", false⟩, ⟨"ownerID", "ForeignKey", true⟩] else
        if c = 5 then [⟨"p0", "StringCol", false⟩] else [], fun c => if c = 0 then some 5 else none,
      fun c => if c = 0 then "M" else "P", fun c => if c = 0 then some (.conn 3) else none⟩
    let w : VersionC.CW := ⟨fun _ _ => none, fun c j => if c = 0 ∧ j = 0 then
        VersionC.kwBody [("default", .int 100), ("unique", .bool true)] else .nil, [], [], []⟩
    VersionC.depthOK X 2 0
    ∧ PyVer.vdKeys (VersionC.versionCols X w 2 0 .nil) = [.str "c0", .str "owner", .str "p0"]
    ∧ PyVer.vdGet (.str "c0") (VersionC.versionCols X w 2 0 .nil)
        = some (VersionC.newcol "IntCol" [] (VersionC.kwBody [("default", .int 100)])) := by
  refine ⟨by simp [VersionC.depthOK], by decide, by decide⟩

end SqlObjVerif.Version
