import SqlObjVerif.Model.Version
namespace SqlObjVerif.Version
theorem C20_stub : (vstep ⟨1, [], false⟩ vinit (.restore 1)).2 = .nohandle := rfl
end SqlObjVerif.Version
