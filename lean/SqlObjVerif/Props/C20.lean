import SqlObjVerif.Lemmas.Version
/-!
# C20 — versioning records the exact history of a row and can restore any point; versions of
different masters never mix

Property theorems only.  `versionsOf s m` is `[v.values for v in master_m.versions]` (id order),
`rowOf? s.masters m` the current row, `s.hist m` the ghost list of the successive states of row `m`
(appended by every *successful* create / update — Model/Version.lean).
-/
namespace SqlObjVerif.Version
open SqlObjVerif.Events

/-- **versions are the history** — for every configuration, every number of masters and every
    history of create / assign / set / restore in which no update fails: after the history, for
    every master `m` that exists, the versions of `m` (oldest first) followed by the current row
    of `m` are exactly the successive states row `m` went through. -/
theorem C20_versions_are_history_partial (c : VCfg) (ops : List VOp) (hnf : noFailedUpdate c vinit ops = true)
    (m : Nat) (row : List Val) (hm : rowOf? (vrun c vinit ops).masters m = some row) :
    versionsOf (vrun c vinit ops) m ++ [row] = (vrun c vinit ops).hist m :=
  (hinv_run c ops vinit hinv_init hnf).hist m row hm

/-- the statement without the "no update fails" hypothesis -/
def VersionsAreHistory : Prop :=
  ∀ (c : VCfg) (ops : List VOp) (m : Nat) (row : List Val),
    rowOf? (vrun c vinit ops).masters m = some row →
      versionsOf (vrun c vinit ops) m ++ [row] = (vrun c vinit ops).hist m

/-- **the full statement is false of the code**: the snapshot is taken on the before-event, so
    `m = Master(c0=1); m.c0 = <rejected value>` leaves one version although the row has had a
    single state.  (Replayed on the real code on every run: `C20:failed-update-appends-version`.) -/
theorem C20_versions_are_history_full_FALSE : ¬ VersionsAreHistory := by
  intro h
  have := h ⟨1, [.null], false⟩ [.create [(0, .int 1)], .assign 1 0 .bad] 1 [.int 1] (by decide)
  revert this
  decide

/-- **restore**: restoring version `v` of an existing master (when the update goes through) makes
    the master row equal to `v`'s values, records the overwritten state as the newest version of
    that master, and touches no other row. -/
theorem C20_restore_spec (c : VCfg) (s : VState) (vid : Nat) (v : VRow) (row : List Val)
    (hv : s.versions.find? (fun v => v.vid = vid) = some v)
    (hr : rowOf? s.masters v.master = some row) (hlen : row.length = v.vals.length)
    (hok : (vRestore c s vid).2 = .ok) :
    rowOf? (vRestore c s vid).1.masters v.master = some v.vals
    ∧ (vRestore c s vid).1.versions = s.versions ++ [⟨s.nextV, v.master, row⟩]
    ∧ ∀ m', m' ≠ v.master → rowOf? (vRestore c s vid).1.masters m' = rowOf? s.masters m' := by
  simp only [vRestore, hv, vUpdateVec, hr] at hok ⊢
  split
  · rename_i h; simp [h] at hok
  · split
    · rename_i h; simp at h
    · split
      · rename_i h1 h2 h3; simp [h1, h3] at hok
      · split
        · rename_i he
          have : v.vals = [] := by
            cases hvv : v.vals with
            | nil => rfl
            | cons y ys => simp [vecEmpty, hvv] at he
          have hrow : row = [] := by
            rw [this] at hlen; simpa using hlen
          simp [hr, hrow, this]
        · refine ⟨?_, rfl, ?_⟩
          · simp only [rowOf_updRows, if_true, hr, Option.map_some, applyVec_map_some row v.vals hlen]
          · intro m' hm'
            simp only [rowOf_updRows, hm', if_false]

/-- **masters never mix**, for every operation and every outcome (failing updates included): an
    update aimed at master `m` leaves the version list of every other master as it was, and the one
    version row it appends is a copy of the current row of `m` itself, filed under `m`; a create
    appends no version. -/
theorem C20_masters_disjoint (c : VCfg) (s : VState) (m : Nat) (vec : List (Option Val)) (unk : Bool) (kw : Kw) :
    (∀ m', m' ≠ m → versionsOf (vUpdateVec c s m vec unk).1 m' = versionsOf s m')
    ∧ (∀ v ∈ (vUpdateVec c s m vec unk).1.versions,
        v ∈ s.versions ∨ (v.master = m ∧ rowOf? s.masters m = some v.vals))
    ∧ (vCreate c s kw).1.versions = s.versions := by
  refine ⟨?_, ?_, ?_⟩
  · intro m' hm'
    unfold vUpdateVec
    cases hr : rowOf? s.masters m with
    | none => rfl
    | some row =>
      have hne : ¬ m = m' := fun h => hm' h.symm
      simp only []
      split
      · simp [versionsOf, List.filter_append, hne]
      · split
        · simp [versionsOf, List.filter_append, hne]
        · split
          · simp [versionsOf, List.filter_append, hne]
          · split <;> simp [versionsOf, List.filter_append, hne]
  · intro v hv
    unfold vUpdateVec at hv
    cases hr : rowOf? s.masters m with
    | none => simp only [hr] at hv; exact Or.inl hv
    | some row =>
      simp only [hr] at hv
      have key : v ∈ s.versions ++ [⟨s.nextV, m, row⟩] → v ∈ s.versions ∨ (v.master = m ∧ some row = some v.vals) := by
        intro h
        simp only [List.mem_append, List.mem_singleton] at h
        rcases h with h | rfl
        · exact Or.inl h
        · exact Or.inr ⟨rfl, rfl⟩
      split at hv
      · exact key hv
      · split at hv
        · exact key hv
        · split at hv
          · exact key hv
          · split at hv <;> exact key hv
  · unfold vCreate
    simp only []
    split
    · rfl
    · split
      · rfl
      · split <;> rfl

/-! ## masters bound to an explicit connection (second database, transaction) -/

/-- **every database keeps its own exact history** — masters made with `connection=` included: for
    every interleaving of operations (restores included) over any number of databases in which no
    update fails in database `d`, the versions of a master of `d` followed by its current row are
    exactly its history; operations on other databases change nothing in `d`. -/
theorem C20_versions_are_history_per_connection (c : VCfg) (ops : List (Nat × VOp))
    (d : Nat) (hnf : noFailedUpdate c vinit ((ops.filter (fun p => p.1 = d)).map (·.2)) = true)
    (m : Nat) (row : List Val) (hm : rowOf? ((drun c dinit ops) d).masters m = some row) :
    versionsOf ((drun c dinit ops) d) m ++ [row] = ((drun c dinit ops) d).hist m := by
  rw [drun_proj c ops dinit d] at hm ⊢
  exact C20_versions_are_history_partial c _ hnf m row hm

/-- **restore respects the connection** (fix 14bb19e): restoring a version found in database `d`
    makes the master *of database `d`* equal to it, records the overwritten state as the newest
    version in `d`, and leaves every other database exactly as it was. -/
theorem C20_restore_spec_per_connection (c : VCfg) (S : DState) (d vid : Nat) (v : VRow) (row : List Val)
    (hv : (S d).versions.find? (fun v => v.vid = vid) = some v)
    (hr : rowOf? (S d).masters v.master = some row) (hlen : row.length = v.vals.length)
    (hok : (dstep c S d (.restore vid)).2 = .ok) :
    rowOf? ((dstep c S d (.restore vid)).1 d).masters v.master = some v.vals
    ∧ ((dstep c S d (.restore vid)).1 d).versions = (S d).versions ++ [⟨(S d).nextV, v.master, row⟩]
    ∧ ∀ d', d' ≠ d → (dstep c S d (.restore vid)).1 d' = S d' := by
  have h := C20_restore_spec c (S d) vid v row hv hr hlen (by simpa [dstep, vstep] using hok)
  refine ⟨by simpa [dstep, dset, vstep] using h.1, by simpa [dstep, dset, vstep] using h.2.1, ?_⟩
  intro d' hd
  simp [dstep, dset, hd]

/-! ## non-vacuity -/

/-- two masters, interleaved updates and a restore: the hypothesis holds and the lists are non-trivial -/
example :
    let c : VCfg := ⟨2, [.int 100, .int 101], false⟩
    let ops : List VOp := [.create [(0, .int 1)], .create [(0, .int 2)], .assign 1 1 (.int 5), .set 2 [(0, .int 3)],
      .assign 1 0 (.int 9), .restore 1]
    noFailedUpdate c vinit ops = true
    ∧ versionsOf (vrun c vinit ops) 1 = [[.int 1, .int 101], [.int 1, .int 5], [.int 9, .int 5]]
    ∧ rowOf? (vrun c vinit ops).masters 1 = some [.int 1, .int 101]
    ∧ versionsOf (vrun c vinit ops) 2 = [[.int 2, .int 101]] := by decide

end SqlObjVerif.Version
