import SqlObjVerif.Lemmas.Query
/-!
# C11 — selects, orderings, counts and aggregates equal the same query over a plain copy of the rows

Property theorems only.  Quantifiers: every table `db.rows` (any length, any values, NULLs and
duplicates), every second table `db.oth`, every filter expression, every order specification,
every chain of `orderBy / reversed / distinct / filter` calls.

What is proved: the PLAN the library builds (model of `sresults.py`, `Select.__sqlrepr__`,
`_SO_columnClause`, `accumulateSelect`, `getOne`, the lookups; its constants are regenerated from
/repo, see `Extracted/Query.lean`) evaluated by the REFERENCE SQL semantics (`source`, `dedup`,
`sortBy ∘ leKeys`, `aggOf`) equals the specification: the intended comparator (`OrderArg.intent`,
`intentKeys`), the keyword bindings (`Bound`), the folds (`foldSpec`).  That SQLite implements the
reference semantics is modelled, and validated by execution in `harness/c11.py`.
-/
namespace SqlObjVerif.Query

/-! ## ordering -/

/-- The library state after `cls.select(…)` followed by any chain of chainable calls is the munged
    image of the user-level description obtained by the same calls on the specification side
    (last `orderBy` wins, `reversed()` toggles, `filter` conjoins, `distinct` sticks; without an
    `orderBy` argument `sqlmeta.defaultOrder` is used). -/
theorem C11_chain_refines (sch : Schema) (clause : Option Expr) (orderBy : Option OrderBy) (rev dist : Bool)
    (ops : List SelOp) :
    ops.foldl (Sel.apply sch) (Sel.new sch clause orderBy rev dist)
      = Sel.ofU sch (ops.foldl USel.apply (USel.new sch clause orderBy rev dist)) := by
  rw [new_ofU, foldl_apply_ofU]

/-- The ORDER BY keys the library renders (`_mungeOrderBy`, the `reverser`, `DESC.__sqlrepr__`), read
    back by the SQL semantics, are the intended keys: `-name` and every `DESC(…)` flip the direction of
    that key, a reversed select flips EVERY key. -/
theorem C11_order_plan_is_intent (sch : Schema) (joined rev : Bool) (args : List OrderArg) :
    resolveKeys sch joined (args.map fun a => (applyReverser rev (mungeOrderBy sch a)).key)
      = intentKeys sch joined rev args :=
  resolveKeys_eq_intent sch joined rev args

/-- **order_spec_correct.**  For every select description with resolvable keys, the rows the plan
    denotes are a permutation of the filtered (distinct) rows and are sorted w.r.t. the intended
    lexicographic comparator (NULLs first ascending; ties in any order). -/
theorem C11_order_spec_correct (sch : Schema) (db : Db) (u : USel) (keys : List Key)
    (ho : ∀ k, u.order ≠ .many k [])
    (hk : intentKeys sch u.clause.usesOth u.rev u.order.args = some keys) :
    ∃ out, evalSelect sch db (Sel.ofU sch u) = some out
      ∧ out.Perm (distinctIf u.dist (source db u.clause)) ∧ Sorted (leKeys keys) out :=
  evalSelect_spec sch db u keys ho hk

/-- a list `[k1, k2]` and a tuple `(k1, k2)` of the same keys are the same order specification:
    both are translated key by key ('-' prefixes and attribute names inside a tuple included) -/
theorem C11_order_container_irrelevant (sch : Schema) (k k' : SeqKind) (l : List OrderArg) :
    mungeAll sch (.many k l) = mungeAll sch (.many k' l)
    ∧ mungeAll sch (.many k l) = .many (l.map (mungeOrderBy sch)) := by
  simp [mungeAll, mungeSeq_eq]

/-- the same for a select built by any chain of calls -/
theorem C11_order_spec_correct_chain (sch : Schema) (db : Db) (clause : Option Expr) (orderBy : Option OrderBy)
    (rev dist : Bool) (ops : List SelOp) (keys : List Key) :
    let u := ops.foldl USel.apply (USel.new sch clause orderBy rev dist)
    (∀ k, u.order ≠ .many k []) → intentKeys sch u.clause.usesOth u.rev u.order.args = some keys →
    ∃ out, evalSelect sch db (ops.foldl (Sel.apply sch) (Sel.new sch clause orderBy rev dist)) = some out
      ∧ out.Perm (distinctIf u.dist (source db u.clause)) ∧ Sorted (leKeys keys) out := by
  intro u ho hk
  rw [C11_chain_refines]
  exact evalSelect_spec sch db u keys ho hk

/-- whatever the order plan, an evaluated select returns exactly the filtered (distinct) rows -/
theorem C11_select_is_permutation (sch : Schema) (db : Db) (s : Sel) (out : List Row)
    (h : evalSelect sch db s = some out) : out.Perm (distinctIf s.distinct (source db s.clause)) :=
  evalRows_perm sch db (queryForSelect s) out h

/-- the comparator is a total preorder, so "sorted" means what it should -/
theorem C11_comparator_total_preorder (keys : List Key) :
    (∀ a b, leKeys keys a b = true ∨ leKeys keys b a = true) ∧
    (∀ a b c, leKeys keys a b = true → leKeys keys b c = true → leKeys keys a c = true) :=
  ⟨leKeys_total keys, leKeys_trans keys⟩

/-! ## reversed() -/

/-- **reversed_involutive.** -/
theorem C11_reversed_involutive (s : Sel) : s.rev.rev = s := by
  cases s; simp [Sel.rev]

/-- reversing negates every intended key, not only the first -/
theorem C11_reversed_negates_every_key (sch : Schema) (joined rev : Bool) (args : List OrderArg) :
    intentKeys sch joined (!rev) args = (intentKeys sch joined rev args).map flipKeys :=
  intentKeys_not_rev sch joined rev args

/-- **reversed_is_reverse_order.**  The reversed select returns the same rows, sorted by the converse
    comparator; the reverse of the original answer is such a list. -/
theorem C11_reversed_is_reverse_order (sch : Schema) (db : Db) (u : USel) (keys : List Key)
    (ho : ∀ k, u.order ≠ .many k [])
    (hk : intentKeys sch u.clause.usesOth u.rev u.order.args = some keys) :
    ∃ out outR, evalSelect sch db (Sel.ofU sch u) = some out
      ∧ evalSelect sch db (Sel.ofU sch u).rev = some outR
      ∧ outR.Perm out
      ∧ Sorted (fun a b => leKeys keys b a) outR
      ∧ Sorted (fun a b => leKeys keys b a) out.reverse := by
  obtain ⟨out, h1, h2, h3⟩ := evalSelect_spec sch db u keys ho hk
  have hk' : intentKeys sch u.clause.usesOth (!u.rev) u.order.args = some (flipKeys keys) := by
    rw [intentKeys_not_rev, hk]; rfl
  obtain ⟨outR, r1, r2, r3⟩ := evalSelect_spec sch db { u with rev := !u.rev } (flipKeys keys) ho hk'
  refine ⟨out, outR, h1, r1, r2.trans h2.symm, ?_, sorted_reverse _ _ h3⟩
  have : (fun a b => leKeys keys b a) = leKeys (flipKeys keys) := by
    funext a b; exact (leKeys_flip keys a b).symm
  rw [this]; exact r3

/-- when the keys leave no ties among the selected rows, `reversed()` is exactly list reversal -/
theorem C11_reversed_no_ties (sch : Schema) (db : Db) (u : USel) (keys : List Key) (out outR : List Row)
    (ho : ∀ k, u.order ≠ .many k [])
    (hk : intentKeys sch u.clause.usesOth u.rev u.order.args = some keys)
    (h1 : evalSelect sch db (Sel.ofU sch u) = some out)
    (h2 : evalSelect sch db (Sel.ofU sch u).rev = some outR)
    (noties : ∀ a ∈ out, ∀ b ∈ out, leKeys keys a b = true → leKeys keys b a = true → a = b) :
    outR = out.reverse := by
  obtain ⟨out', outR', e1, e2, hp, hs, hr⟩ := C11_reversed_is_reverse_order sch db u keys ho hk
  rw [h1] at e1; rw [h2] at e2
  simp only [Option.some.injEq] at e1 e2
  subst e1 e2
  apply sorted_perm_unique (fun a b => leKeys keys b a) outR out.reverse
    (hp.trans (List.reverse_perm out).symm) hs hr
  intro a ha b hb hab hba
  exact noties a (hp.mem_iff.mp ha) b (hp.mem_iff.mp hb) hba hab

/-! ## keyword equalities and filters -/

/-- **selectBy_sem.**  When `_SO_columnClause` accepts the keywords, the clause it builds is TRUE for
    exactly the rows whose bound columns equal the given values (`None` ↔ NULL, an object ↦ its id),
    under three-valued logic; every keyword was bound. -/
theorem C11_selectBy_sem (sch : Schema) (kw : Kw) (cl : Option Expr) (h : columnClause sch kw = some cl) :
    (∀ e : Env, holds (cl.getD .tt) e = true ↔ ∀ c v, Bound sch kw c v → e.row.get c = v.toVal)
    ∧ (∀ kv ∈ kw, consumed kw sch.cols kv.1 = true) :=
  ⟨clause_holds sch kw cl h, (columnClause_some sch kw cl h).1⟩

/-- the rows `selectBy(**kw)` ranges over: the table filtered, order and multiplicity kept -/
theorem C11_selectBy_rows (sch : Schema) (db : Db) (kw : Kw) (s : Sel) (h : selectBy sch kw = some s) (r : Row) :
    r ∈ source db s.clause ↔ r ∈ db.rows ∧ ∀ c v, Bound sch kw c v → r.get c = v.toVal := by
  have hu := selectBy_usesOth sch kw s h
  unfold selectBy at h
  cases hc : columnClause sch kw with
  | none => rw [hc] at h; cases h
  | some cl =>
    rw [hc] at h
    simp only [Option.map_some, Option.some.injEq] at h
    subst h
    rw [mem_source]
    simp only [hu, Bool.false_eq_true, if_false]
    have := clause_holds sch kw cl hc ⟨none, r⟩
    simp only [Sel.new] at this ⊢
    rw [this]

/-- an unexpected keyword is refused (TypeError) and nothing else is -/
theorem C11_selectBy_unexpected_keyword (sch : Schema) (kw : Kw) :
    selectBy sch kw = none ↔ ∃ kv ∈ kw, consumed kw sch.cols kv.1 = false := by
  rw [← columnClause_none]
  unfold selectBy
  cases columnClause sch kw <;> simp

/-- `=` in place of `IS` would lose the NULL rows: `col = NULL` is never TRUE -/
theorem C11_eq_null_never_true (c : ColRef) (r : Row) : (Cond.mk c .eq none).eval r ≠ some true := by
  simp only [Cond.eval]
  cases r.get c <;> simp [cmp3]

/-- `filter(c)` keeps exactly the rows for which both the old clause and `c` are TRUE -/
theorem C11_filter_sem (db : Db) (s : Sel) (c : Expr) (h1 : s.clause.usesOth = false) (h2 : c.usesOth = false) :
    source db (s.filter (some c)).clause = (source db s.clause).filter fun r => holds c ⟨none, r⟩ := by
  have h3 : (Expr.and s.clause c).usesOth = false := by simp [Expr.usesOth, h1, h2]
  simp only [Sel.filter]
  rw [source_eq_filter db _ h3, source_eq_filter db _ h1, List.filter_filter]
  congr 1
  funext r
  rw [holds_and, Bool.and_comm]

/-- the general (join) form: a row–partner pair passes the filtered select iff it passes both -/
theorem C11_filter_holds (s : Sel) (c : Expr) (e : Env) :
    holds (s.filter (some c)).clause e = (holds s.clause e && holds c e) := holds_and _ _ _

/-- **n-ary `OR(c1, …, cn)`** (any n ≥ 1, operands arbitrary, nesting allowed): its truth value is the
    three-valued disjunction of the operands' values, so it is TRUE for exactly the rows for which some
    operand is TRUE. -/
theorem C11_nary_or_sem (l : List Expr) (x : Expr) (h : nary .or l = some x) (e : Env) :
    x.eval e = or3L (l.map (Expr.eval e)) ∧ (holds x e = true ↔ ∃ c ∈ l, holds c e = true) := by
  have he := nary_or_eval e l x h
  refine ⟨he, ?_⟩
  simp only [holds, beq_iff_eq, he, or3L_true, List.mem_map]
  constructor
  · rintro ⟨_, ⟨c, hc, rfl⟩, hv⟩; exact ⟨c, hc, hv⟩
  · rintro ⟨c, hc, hv⟩; exact ⟨_, ⟨c, hc, rfl⟩, hv⟩

/-- **n-ary `AND(c1, …, cn)`**: TRUE for exactly the rows for which every operand is TRUE -/
theorem C11_nary_and_sem (l : List Expr) (x : Expr) (h : nary .and l = some x) (e : Env) :
    x.eval e = and3L (l.map (Expr.eval e)) ∧ (holds x e = true ↔ ∀ c ∈ l, holds c e = true) := by
  have he := nary_and_eval e l x h
  refine ⟨he, ?_⟩
  simp only [holds, beq_iff_eq, he, and3L_true, List.mem_map]
  constructor
  · intro hv c hc; exact hv _ ⟨c, hc, rfl⟩
  · rintro hv _ ⟨c, hc, rfl⟩; exact hv c hc

/-- the helpers give an expression for every non-empty operand list (and Python None for none) -/
theorem C11_nary_defined (f : BoolOp) (l : List Expr) : (nary f l).isSome = true ↔ l ≠ [] := by
  constructor
  · intro h e; subst e; simp [nary] at h
  · exact nary_isSome f l

/-! ## count and aggregates -/

/-- **aggregate_plan (count).**  `count()` of a select is the length of the list the select returns
    (with `distinct`: COUNT(DISTINCT id), which counts distinct rows because the id is a key). -/
theorem C11_aggregate_plan_count (sch : Schema) (db : Db) (s : Sel) (out : List Row) (hkey : KeyIds db)
    (h : evalSelect sch db s = some out) :
    evalAgg sch db (countPlan s) = some (.int (some out.length)) := by
  have hp : out.Perm (distinctIf s.distinct (source db s.clause)) :=
    evalRows_perm sch db (queryForSelect s) out h
  rw [evalAgg_countPlan]
  cases hd : s.distinct with
  | false =>
    have hp' : out.Perm (source db s.clause) := by simpa [distinctIf, hd] using hp
    simp [hp'.length_eq]
  | true =>
    have hp' : out.Perm (dedup (source db s.clause)) := by simpa [distinctIf, hd] using hp
    simp only [if_true]
    rw [hp'.length_eq, dedup_map_length]
    intro a ha b hb hab
    exact hkey a (source_subset db _ a ha) b (source_subset db _ b hb) hab

/-- **aggregate_plan (sum / min / max / avg).**  The value of the accumulate plan equals the fold over
    the column of the rows the select returns (distinct select: over the distinct column values — SQL
    `F(DISTINCT col)`); SUM/MIN/MAX/AVG of no value is NULL. -/
theorem C11_aggregate_plan (sch : Schema) (db : Db) (s : Sel) (out : List Row) (m : AggMethod) (t : Term) (c : ColRef)
    (ht : sch.resolveTerm s.clause.usesOth t = some c)
    (h : evalSelect sch db s = some out) :
    evalAgg sch db (aggPlan s m t) = some (foldSpec m s.distinct out c) := by
  have hp := evalRows_perm sch db (queryForSelect s) out h
  rw [evalAgg_aggPlan sch db s m t c ht, foldSpec_eq]
  congr 1
  exact (aggOf_perm _ _ _ (agg_vals_perm s.distinct c (source db s.clause) out hp)).symm

/-- the accumulate plan drops ORDER BY and keeps WHERE and DISTINCT: the value does not depend on
    the order specification nor on `reversed()` -/
theorem C11_aggregate_ignores_order (sch : Schema) (db : Db) (s : Sel) (o : DbOrder) (r : Bool) (m : AggMethod) (t : Term) :
    evalAgg sch db (aggPlan { s with order := o, reversed := r } m t) = evalAgg sch db (aggPlan s m t)
    ∧ evalAgg sch db (countPlan { s with order := o, reversed := r }) = evalAgg sch db (countPlan s) :=
  ⟨rfl, rfl⟩

/-- MIN is the least and MAX the greatest of the values; none when there is no value -/
theorem C11_min_max_spec (l : List Int) :
    (l = [] → minL l = none ∧ maxL l = none)
    ∧ (∀ m, minL l = some m → m ∈ l ∧ ∀ x ∈ l, m ≤ x)
    ∧ (∀ m, maxL l = some m → m ∈ l ∧ ∀ x ∈ l, x ≤ m) :=
  ⟨fun h => ⟨(minL_spec l).1 h, (maxL_spec l).1 h⟩, (minL_spec l).2, (maxL_spec l).2⟩

/-! ## iteration, getOne and the unique lookups -/

/-- iterating a select hands out an object for EVERY fetched row, whatever its id (0, negative, …):
    only a NULL id column — which a row of the table never has — yields None -/
theorem C11_iteration_delivers_every_row (rows : List Row) : iterSelect rows = rows.map some := by
  simp [iterSelect, deliver, Extracted.iterNullGuard]


/-- **getOne_012.** -/
theorem C11_getOne_012 {α} (d : Bool) (l : List α) :
    (l = [] → getOne d l = if d then .default else .notFound)
    ∧ (∀ x, l = [x] → getOne d l = .value x)
    ∧ (l.length ≥ 2 → getOne d l = .integrity) := by
  refine ⟨?_, ?_, ?_⟩
  · rintro rfl; cases d <;> rfl
  · rintro x rfl; rfl
  · intro h
    match l, h with
    | _ :: _ :: _, _ => simp [getOne, getOneWith, Extracted.getOneBranches, OneGuard.holds, OneAction.run]

/-- **absent_key_notfound** (alternate id): no row with that key → SQLObjectNotFound, never None -/
theorem C11_absent_key_notfound (db : Db) (c : ColRef) (v : Val) (h : ∀ r ∈ db.rows, r.get c ≠ v) :
    fetchAlternateID db c v = .notFound := by
  have : source db (eqOrNull c v) = [] := by
    rw [source_eq_filter db _ (eqOrNull_usesOth c v)]
    apply List.filter_eq_nil_iff.mpr
    intro r hr hh
    exact h r hr ((holds_eqOrNull c v none r).mp hh)
  simp [fetchAlternateID, this, Extracted.altMiss]

/-- a present unique key returns that row -/
theorem C11_alt_present (db : Db) (c : ColRef) (v : Val) (r : Row) (hr : r ∈ db.rows) (hv : r.get c = v)
    (uniq : ∀ r' ∈ db.rows, r'.get c = v → r' = r) :
    fetchAlternateID db c v = .value r.id := by
  have hmem : r ∈ source db (eqOrNull c v) := by
    rw [source_eq_filter db _ (eqOrNull_usesOth c v)]
    exact List.mem_filter.mpr ⟨hr, (holds_eqOrNull c v none r).mpr hv⟩
  unfold fetchAlternateID
  cases hs : source db (eqOrNull c v) with
  | nil => rw [hs] at hmem; cases hmem
  | cons r' t =>
    have h' : r' ∈ source db (eqOrNull c v) := by rw [hs]; exact List.mem_cons_self
    rw [source_eq_filter db _ (eqOrNull_usesOth c v)] at h'
    have := List.mem_filter.mp h'
    rw [uniq r' this.1 ((holds_eqOrNull c v none r').mp this.2)]

/-- unique-index lookup = `selectBy(**kw).getOne()`: 0 matching rows → not-found, 1 → it, more → integrity error -/
theorem C11_index_get (sch : Schema) (db : Db) (n : Nat) (kw : Kw) (s : Sel) (out : List Row)
    (hn : kw.length = n) (hs : selectBy sch kw = some s) (ho : evalSelect sch db s = some out) :
    indexGet sch db n kw = getOne false (out.map (·.id))
    ∧ (∀ r, r ∈ out ↔ r ∈ db.rows ∧ ∀ c v, Bound sch kw c v → r.get c = v.toVal) := by
  refine ⟨?_, ?_⟩
  · simp [indexGet, hn, hs, ho]
  · intro r
    have hp := evalRows_perm sch db (queryForSelect s) out ho
    have hd : s.distinct = false := by
      unfold selectBy at hs
      cases hc : columnClause sch kw with
      | none => rw [hc] at hs; cases hs
      | some cl => rw [hc] at hs; simp only [Option.map_some, Option.some.injEq] at hs; subst hs; rfl
    simp only [queryForSelect, distinctIf, hd, Bool.false_eq_true, if_false] at hp
    rw [hp.mem_iff, C11_selectBy_rows sch db kw s hs]

/-- **absent_key_notfound** (unique index): no matching row → SQLObjectNotFound -/
theorem C11_index_absent_notfound (sch : Schema) (db : Db) (n : Nat) (kw : Kw) (s : Sel) (out : List Row)
    (hn : kw.length = n) (hs : selectBy sch kw = some s) (ho : evalSelect sch db s = some out)
    (habs : ∀ r ∈ db.rows, ¬ ∀ c v, Bound sch kw c v → r.get c = v.toVal) :
    indexGet sch db n kw = .notFound := by
  obtain ⟨h1, h2⟩ := C11_index_get sch db n kw s out hn hs ho
  have : out = [] := by
    cases out with
    | nil => rfl
    | cons r t => exact absurd ((h2 r).mp List.mem_cons_self).2 (habs r ((h2 r).mp List.mem_cons_self).1)
  rw [h1, this]; rfl

/-! ## Non-vacuity: concrete tables and queries (evaluated by the kernel) -/

def exSch : Schema :=
  { table := ['t'], othTable := ['o'],
    cols := [⟨['a'], ['a'], none⟩, ⟨['b', 'V'], ['b', '_', 'v'], none⟩, ⟨['f', 'k', 'I', 'D'], ['f', 'k', '_', 'i', 'd'], some ['f', 'k']⟩] }

def exDb : Db :=
  { rows := [⟨1, [some 1, some 2, some 1]⟩, ⟨2, [none, some 2, none]⟩, ⟨3, [some 1, none, some 2]⟩, ⟨4, [some 1, none, some 2]⟩],
    oth := [some 1, some 1, some 2] }

def ids (o : Option (List Row)) : Option (List Int) := o.map (·.map (·.id))

def exOrder : OrderBy := .many .tuple [.str ['-', 'a'], .str ['b', 'V']]

example : ids (evalSelect exSch exDb (Sel.new exSch none (some exOrder) false false)) = some [3, 4, 1, 2] := by decide
example : ids (evalSelect exSch exDb (Sel.new exSch none (some exOrder) false false).rev) = some [2, 1, 3, 4] := by decide
example : ids (evalSelect exSch exDb (Sel.new exSch none (some (.many .list exOrder.args)) false false)) = some [3, 4, 1, 2] := by decide
example : intentKeys exSch false false exOrder.args = some [(.col 0, true), (.col 1, false)] := by decide
example : intentKeys exSch false true exOrder.args = some [(.col 0, false), (.col 1, true)] := by decide
example : ids (evalSelect exSch exDb (Sel.new exSch none (some (.one (.expr (.desc (.desc (.desc (.field .id))))))) false false))
    = some [4, 3, 2, 1] := by decide
example : (selectBy exSch [(['a'], .int 1), (['b', 'V'], .none)]).map (fun s => (source exDb s.clause).map (·.id)) = some [3, 4] := by decide
example : selectBy exSch [(['f', 'k'], .obj 2), (['z'], .int 1)] = none := by decide
example : (selectBy exSch [(['f', 'k'], .obj 2)]).map (fun s => (source exDb s.clause).map (·.id)) = some [3, 4] := by decide
def exJoin : Sel := Sel.new exSch (some (.cmp .eq .othG (.col (.col 0)))) none false true
example : ids (evalSelect exSch exDb exJoin) = some [1, 3, 4] := by decide
example : evalAgg exSch exDb (countPlan exJoin) = some (.int (some 3)) := by decide
example : evalAgg exSch exDb (countPlan { exJoin with distinct := false }) = some (.int (some 6)) := by decide
example : evalAgg exSch exDb (aggPlan exJoin .sum (.const ['b', '_', 'v'])) = some (.int (some 2)) := by decide
example : evalAgg exSch exDb (aggPlan (Sel.new exSch (some (.isNull (.col (.col 0)))) none false false) .max (.field (.col 0)))
    = some (.int none) := by decide
example : evalAgg exSch exDb (aggPlan (Sel.new exSch none none false false) .avg (.field (.col 2))) = some (.ratio (some (5, 3))) := by decide
example : (nary .or [.cmp .eq (.col (.col 0)) (.lit 1), .isNull (.col (.col 0)), .cmp .eq (.col (.col 1)) (.lit 7)]).map
    (fun c => (source exDb c).map (·.id)) = some [1, 2, 3, 4] := by decide
example : (nary .and [.cmp .eq (.col (.col 0)) (.lit 1), .isNull (.col (.col 1)), .cmp .eq (.col (.col 2)) (.lit 2)]).map
    (fun c => (source exDb c).map (·.id)) = some [3, 4] := by decide
example : iterSelect [⟨0, [none]⟩, ⟨-1, []⟩] = [some ⟨0, [none]⟩, some ⟨-1, []⟩] := by decide
example : getOne false ([] : List Int) = .notFound ∧ getOne true ([] : List Int) = .default
    ∧ getOne false [7] = .value 7 ∧ getOne false [7, 8, 9] = .integrity := by decide
example : fetchAlternateID exDb (.col 1) (some 5) = .notFound ∧ fetchAlternateID exDb (.col 2) (some 1) = .value 1 := by decide
example : indexGet exSch exDb 2 [(['a'], .int 1), (['f', 'k'], .obj 1)] = .value 1
    ∧ indexGet exSch exDb 2 [(['a'], .int 1), (['f', 'k'], .obj 2)] = .integrity
    ∧ indexGet exSch exDb 2 [(['a'], .int 2), (['f', 'k'], .obj 2)] = .notFound
    ∧ indexGet exSch exDb 2 [(['a'], .int 2)] = .typeError := by decide


/-- the aggregate of a DISTINCT select is over the distinct column VALUES (SQL `SUM(DISTINCT col)`), which
    is not the sum over the distinct ROWS when two distinct rows share a value -/
theorem C11_distinct_aggregate_is_over_values :
    ∃ (sch : Schema) (db : Db) (s : Sel) (out : List Row), KeyIds db ∧ s.distinct = true
      ∧ evalSelect sch db s = some out
      ∧ evalAgg sch db (aggPlan s .sum (.field (.col 0))) = some (.int (some 1))
      ∧ sumL (out.filterMap (·.get (.col 0))) = 3 :=
  ⟨exSch, exDb, Sel.new exSch none none false true, exDb.rows, by unfold KeyIds; decide, rfl, by decide, by decide, by decide⟩


end SqlObjVerif.Query
