import SqlObjVerif.Lemmas.Query
import SqlObjVerif.Lemmas.QueryXRep
import SqlObjVerif.Lemmas.QueryXAgg
import SqlObjVerif.Lemmas.QueryXBool
import SqlObjVerif.Lemmas.QueryXRepr
import SqlObjVerif.Lemmas.QueryXSelect
import SqlObjVerif.Lemmas.QueryXKw
import SqlObjVerif.Lemmas.QueryXOrder
import SqlObjVerif.Lemmas.QueryXChain
import SqlObjVerif.Lemmas.QueryXLookup
import SqlObjVerif.Lemmas.QueryXPlan
import SqlObjVerif.Lemmas.QueryXIdx
/-!
# C11 — selects, orderings, counts and aggregates equal the same query over a plain copy of the rows

Property theorems only.  Quantifiers: every table `db.rows` (any length, any values, NULLs and
duplicates), every second table `db.oth`, every filter expression, every order specification,
every chain of `orderBy / reversed / distinct / filter` calls.

What is proved: the PLAN the library builds (model of `sresults.py`, `Select.__sqlrepr__`,
`_SO_columnClause`, `accumulateSelect`, `getOne`, the lookups; its constants are regenerated from
/repo, see `Extracted/Query.lean`) evaluated by the REFERENCE SQL semantics (`source`, `dedup`,
`sortBy ∘ leKeys`, `aggOf`) equals the specification: the intended comparator (`OrderArg.intent`,
`intentKeys`), the keyword bindings (`Bound`), the folds (`foldSpec`).  That SQLite implements the
reference semantics is modelled, and validated by execution in `harness/c11.py`.
-/
namespace SqlObjVerif.Query

/-! ## ordering -/

/-- The library state after `cls.select(…)` followed by any chain of chainable calls is the munged
    image of the user-level description obtained by the same calls on the specification side
    (last `orderBy` wins, `reversed()` toggles, `filter` conjoins, `distinct` sticks; without an
    `orderBy` argument `sqlmeta.defaultOrder` is used). -/
theorem C11_chain_refines (sch : Schema) (clause : Option Expr) (orderBy : Option OrderBy) (rev dist : Bool)
    (ops : List SelOp) :
    ops.foldl (Sel.apply sch) (Sel.new sch clause orderBy rev dist)
      = Sel.ofU sch (ops.foldl USel.apply (USel.new sch clause orderBy rev dist)) := by
  rw [new_ofU, foldl_apply_ofU]

/-- The ORDER BY keys the library renders (`_mungeOrderBy`, the `reverser`, `DESC.__sqlrepr__`), read
    back by the SQL semantics, are the intended keys: `-name` and every `DESC(…)` flip the direction of
    that key, a reversed select flips EVERY key. -/
theorem C11_order_plan_is_intent (sch : Schema) (joined rev : Bool) (args : List OrderArg) :
    resolveKeys sch joined (args.map fun a => (applyReverser rev (mungeOrderBy sch a)).key)
      = intentKeys sch joined rev args :=
  resolveKeys_eq_intent sch joined rev args

/-- **order_spec_correct.**  For every select description with resolvable keys, the rows the plan
    denotes are a permutation of the filtered (distinct) rows and are sorted w.r.t. the intended
    lexicographic comparator (NULLs first ascending; ties in any order). -/
theorem C11_order_spec_correct (sch : Schema) (db : Db) (u : USel) (keys : List Key)
    (ho : ∀ k, u.order ≠ .many k [])
    (hk : intentKeys sch u.clause.usesOth u.rev u.order.args = some keys) :
    ∃ out, evalSelect sch db (Sel.ofU sch u) = some out
      ∧ out.Perm (distinctIf u.dist (source db u.clause)) ∧ Sorted (leKeys keys) out :=
  evalSelect_spec sch db u keys ho hk

/-- a list `[k1, k2]` and a tuple `(k1, k2)` of the same keys are the same order specification:
    both are translated key by key ('-' prefixes and attribute names inside a tuple included) -/
theorem C11_order_container_irrelevant (sch : Schema) (k k' : SeqKind) (l : List OrderArg) :
    mungeAll sch (.many k l) = mungeAll sch (.many k' l)
    ∧ mungeAll sch (.many k l) = .many (l.map (mungeOrderBy sch)) := by
  simp [mungeAll, mungeSeq_eq]

/-- the same for a select built by any chain of calls -/
theorem C11_order_spec_correct_chain (sch : Schema) (db : Db) (clause : Option Expr) (orderBy : Option OrderBy)
    (rev dist : Bool) (ops : List SelOp) (keys : List Key) :
    let u := ops.foldl USel.apply (USel.new sch clause orderBy rev dist)
    (∀ k, u.order ≠ .many k []) → intentKeys sch u.clause.usesOth u.rev u.order.args = some keys →
    ∃ out, evalSelect sch db (ops.foldl (Sel.apply sch) (Sel.new sch clause orderBy rev dist)) = some out
      ∧ out.Perm (distinctIf u.dist (source db u.clause)) ∧ Sorted (leKeys keys) out := by
  intro u ho hk
  rw [C11_chain_refines]
  exact evalSelect_spec sch db u keys ho hk

/-- whatever the order plan, an evaluated select returns exactly the filtered (distinct) rows -/
theorem C11_select_is_permutation (sch : Schema) (db : Db) (s : Sel) (out : List Row)
    (h : evalSelect sch db s = some out) : out.Perm (distinctIf s.distinct (source db s.clause)) :=
  evalRows_perm sch db (queryForSelect s) out h

/-- the comparator is a total preorder, so "sorted" means what it should -/
theorem C11_comparator_total_preorder (keys : List Key) :
    (∀ a b, leKeys keys a b = true ∨ leKeys keys b a = true) ∧
    (∀ a b c, leKeys keys a b = true → leKeys keys b c = true → leKeys keys a c = true) :=
  ⟨leKeys_total keys, leKeys_trans keys⟩

/-! ## reversed() -/

/-- **reversed_involutive.** -/
theorem C11_reversed_involutive (s : Sel) : s.rev.rev = s := by
  cases s; simp [Sel.rev]

/-- reversing negates every intended key, not only the first -/
theorem C11_reversed_negates_every_key (sch : Schema) (joined rev : Bool) (args : List OrderArg) :
    intentKeys sch joined (!rev) args = (intentKeys sch joined rev args).map flipKeys :=
  intentKeys_not_rev sch joined rev args

/-- **reversed_is_reverse_order.**  The reversed select returns the same rows, sorted by the converse
    comparator; the reverse of the original answer is such a list. -/
theorem C11_reversed_is_reverse_order (sch : Schema) (db : Db) (u : USel) (keys : List Key)
    (ho : ∀ k, u.order ≠ .many k [])
    (hk : intentKeys sch u.clause.usesOth u.rev u.order.args = some keys) :
    ∃ out outR, evalSelect sch db (Sel.ofU sch u) = some out
      ∧ evalSelect sch db (Sel.ofU sch u).rev = some outR
      ∧ outR.Perm out
      ∧ Sorted (fun a b => leKeys keys b a) outR
      ∧ Sorted (fun a b => leKeys keys b a) out.reverse := by
  obtain ⟨out, h1, h2, h3⟩ := evalSelect_spec sch db u keys ho hk
  have hk' : intentKeys sch u.clause.usesOth (!u.rev) u.order.args = some (flipKeys keys) := by
    rw [intentKeys_not_rev, hk]; rfl
  obtain ⟨outR, r1, r2, r3⟩ := evalSelect_spec sch db { u with rev := !u.rev } (flipKeys keys) ho hk'
  refine ⟨out, outR, h1, r1, r2.trans h2.symm, ?_, sorted_reverse _ _ h3⟩
  have : (fun a b => leKeys keys b a) = leKeys (flipKeys keys) := by
    funext a b; exact (leKeys_flip keys a b).symm
  rw [this]; exact r3

/-- when the keys leave no ties among the selected rows, `reversed()` is exactly list reversal -/
theorem C11_reversed_no_ties (sch : Schema) (db : Db) (u : USel) (keys : List Key) (out outR : List Row)
    (ho : ∀ k, u.order ≠ .many k [])
    (hk : intentKeys sch u.clause.usesOth u.rev u.order.args = some keys)
    (h1 : evalSelect sch db (Sel.ofU sch u) = some out)
    (h2 : evalSelect sch db (Sel.ofU sch u).rev = some outR)
    (noties : ∀ a ∈ out, ∀ b ∈ out, leKeys keys a b = true → leKeys keys b a = true → a = b) :
    outR = out.reverse := by
  obtain ⟨out', outR', e1, e2, hp, hs, hr⟩ := C11_reversed_is_reverse_order sch db u keys ho hk
  rw [h1] at e1; rw [h2] at e2
  simp only [Option.some.injEq] at e1 e2
  subst e1 e2
  apply sorted_perm_unique (fun a b => leKeys keys b a) outR out.reverse
    (hp.trans (List.reverse_perm out).symm) hs hr
  intro a ha b hb hab hba
  exact noties a (hp.mem_iff.mp ha) b (hp.mem_iff.mp hb) hba hab

/-! ## keyword equalities and filters -/

/-- **selectBy_sem.**  When `_SO_columnClause` accepts the keywords, the clause it builds is TRUE for
    exactly the rows whose bound columns equal the given values (`None` ↔ NULL, an object ↦ its id),
    under three-valued logic; every keyword was bound. -/
theorem C11_selectBy_sem (sch : Schema) (kw : Kw) (cl : Option Expr) (h : columnClause sch kw = some cl) :
    (∀ e : Env, holds (cl.getD .tt) e = true ↔ ∀ c v, Bound sch kw c v → e.row.get c = v.toVal)
    ∧ (∀ kv ∈ kw, consumed kw sch.cols kv.1 = true) :=
  ⟨clause_holds sch kw cl h, (columnClause_some sch kw cl h).1⟩

/-- the rows `selectBy(**kw)` ranges over: the table filtered, order and multiplicity kept -/
theorem C11_selectBy_rows (sch : Schema) (db : Db) (kw : Kw) (s : Sel) (h : selectBy sch kw = some s) (r : Row) :
    r ∈ source db s.clause ↔ r ∈ db.rows ∧ ∀ c v, Bound sch kw c v → r.get c = v.toVal := by
  have hu := selectBy_usesOth sch kw s h
  unfold selectBy at h
  cases hc : columnClause sch kw with
  | none => rw [hc] at h; cases h
  | some cl =>
    rw [hc] at h
    simp only [Option.map_some, Option.some.injEq] at h
    subst h
    rw [mem_source]
    simp only [hu, Bool.false_eq_true, if_false]
    have := clause_holds sch kw cl hc ⟨none, r⟩
    simp only [Sel.new] at this ⊢
    rw [this]

/-- an unexpected keyword is refused (TypeError) and nothing else is -/
theorem C11_selectBy_unexpected_keyword (sch : Schema) (kw : Kw) :
    selectBy sch kw = none ↔ ∃ kv ∈ kw, consumed kw sch.cols kv.1 = false := by
  rw [← columnClause_none]
  unfold selectBy
  cases columnClause sch kw <;> simp

/-- `=` in place of `IS` would lose the NULL rows: `col = NULL` is never TRUE -/
theorem C11_eq_null_never_true (c : ColRef) (r : Row) : (Cond.mk c .eq none).eval r ≠ some true := by
  simp only [Cond.eval]
  cases r.get c <;> simp [cmp3]

/-- `filter(c)` keeps exactly the rows for which both the old clause and `c` are TRUE -/
theorem C11_filter_sem (db : Db) (s : Sel) (c : Expr) (h1 : s.clause.usesOth = false) (h2 : c.usesOth = false) :
    source db (s.filter (some c)).clause = (source db s.clause).filter fun r => holds c ⟨none, r⟩ := by
  have h3 : (Expr.and s.clause c).usesOth = false := by simp [Expr.usesOth, h1, h2]
  simp only [Sel.filter]
  rw [source_eq_filter db _ h3, source_eq_filter db _ h1, List.filter_filter]
  congr 1
  funext r
  rw [holds_and, Bool.and_comm]

/-- the general (join) form: a row–partner pair passes the filtered select iff it passes both -/
theorem C11_filter_holds (s : Sel) (c : Expr) (e : Env) :
    holds (s.filter (some c)).clause e = (holds s.clause e && holds c e) := holds_and _ _ _

/-- **n-ary `OR(c1, …, cn)`** (any n ≥ 1, operands arbitrary, nesting allowed): its truth value is the
    three-valued disjunction of the operands' values, so it is TRUE for exactly the rows for which some
    operand is TRUE. -/
theorem C11_nary_or_sem (l : List Expr) (x : Expr) (h : nary .or l = some x) (e : Env) :
    x.eval e = or3L (l.map (Expr.eval e)) ∧ (holds x e = true ↔ ∃ c ∈ l, holds c e = true) := by
  have he := nary_or_eval e l x h
  refine ⟨he, ?_⟩
  simp only [holds, beq_iff_eq, he, or3L_true, List.mem_map]
  constructor
  · rintro ⟨_, ⟨c, hc, rfl⟩, hv⟩; exact ⟨c, hc, hv⟩
  · rintro ⟨c, hc, hv⟩; exact ⟨_, ⟨c, hc, rfl⟩, hv⟩

/-- **n-ary `AND(c1, …, cn)`**: TRUE for exactly the rows for which every operand is TRUE -/
theorem C11_nary_and_sem (l : List Expr) (x : Expr) (h : nary .and l = some x) (e : Env) :
    x.eval e = and3L (l.map (Expr.eval e)) ∧ (holds x e = true ↔ ∀ c ∈ l, holds c e = true) := by
  have he := nary_and_eval e l x h
  refine ⟨he, ?_⟩
  simp only [holds, beq_iff_eq, he, and3L_true, List.mem_map]
  constructor
  · intro hv c hc; exact hv _ ⟨c, hc, rfl⟩
  · rintro hv _ ⟨c, hc, rfl⟩; exact hv c hc

/-- the helpers give an expression for every non-empty operand list (and Python None for none) -/
theorem C11_nary_defined (f : BoolOp) (l : List Expr) : (nary f l).isSome = true ↔ l ≠ [] := by
  constructor
  · intro h e; subst e; simp [nary] at h
  · exact nary_isSome f l

/-! ## count and aggregates -/

/-- **aggregate_plan (count).**  `count()` of a select is the length of the list the select returns
    (with `distinct`: COUNT(DISTINCT id), which counts distinct rows because the id is a key). -/
theorem C11_aggregate_plan_count (sch : Schema) (db : Db) (s : Sel) (out : List Row) (hkey : KeyIds db)
    (h : evalSelect sch db s = some out) :
    evalAgg sch db (countPlan s) = some (.int (some out.length)) := by
  have hp : out.Perm (distinctIf s.distinct (source db s.clause)) :=
    evalRows_perm sch db (queryForSelect s) out h
  rw [evalAgg_countPlan]
  cases hd : s.distinct with
  | false =>
    have hp' : out.Perm (source db s.clause) := by simpa [distinctIf, hd] using hp
    simp [hp'.length_eq]
  | true =>
    have hp' : out.Perm (dedup (source db s.clause)) := by simpa [distinctIf, hd] using hp
    simp only [if_true]
    rw [hp'.length_eq, dedup_map_length]
    intro a ha b hb hab
    exact hkey a (source_subset db _ a ha) b (source_subset db _ b hb) hab

/-- **aggregate_plan (sum / min / max / avg).**  The value of the accumulate plan equals the fold over
    the column of the rows the select returns (distinct select: over the distinct column values — SQL
    `F(DISTINCT col)`); SUM/MIN/MAX/AVG of no value is NULL. -/
theorem C11_aggregate_plan (sch : Schema) (db : Db) (s : Sel) (out : List Row) (m : AggMethod) (t : Term) (c : ColRef)
    (ht : sch.resolveTerm s.clause.usesOth t = some c)
    (h : evalSelect sch db s = some out) :
    evalAgg sch db (aggPlan s m t) = some (foldSpec m s.distinct out c) := by
  have hp := evalRows_perm sch db (queryForSelect s) out h
  rw [evalAgg_aggPlan sch db s m t c ht, foldSpec_eq]
  congr 1
  exact (aggOf_perm _ _ _ (agg_vals_perm s.distinct c (source db s.clause) out hp)).symm

/-- the accumulate plan drops ORDER BY and keeps WHERE and DISTINCT: the value does not depend on
    the order specification nor on `reversed()` -/
theorem C11_aggregate_ignores_order (sch : Schema) (db : Db) (s : Sel) (o : DbOrder) (r : Bool) (m : AggMethod) (t : Term) :
    evalAgg sch db (aggPlan { s with order := o, reversed := r } m t) = evalAgg sch db (aggPlan s m t)
    ∧ evalAgg sch db (countPlan { s with order := o, reversed := r }) = evalAgg sch db (countPlan s) :=
  ⟨rfl, rfl⟩

/-- MIN is the least and MAX the greatest of the values; none when there is no value -/
theorem C11_min_max_spec (l : List Int) :
    (l = [] → minL l = none ∧ maxL l = none)
    ∧ (∀ m, minL l = some m → m ∈ l ∧ ∀ x ∈ l, m ≤ x)
    ∧ (∀ m, maxL l = some m → m ∈ l ∧ ∀ x ∈ l, x ≤ m) :=
  ⟨fun h => ⟨(minL_spec l).1 h, (maxL_spec l).1 h⟩, (minL_spec l).2, (maxL_spec l).2⟩

/-! ## iteration, getOne and the unique lookups -/

/-- iterating a select hands out an object for EVERY fetched row, whatever its id (0, negative, …):
    only a NULL id column — which a row of the table never has — yields None -/
theorem C11_iteration_delivers_every_row (rows : List Row) : iterSelect rows = rows.map some := by
  simp [iterSelect, deliver, Extracted.iterNullGuard]


/-- **getOne_012.** -/
theorem C11_getOne_012 {α} (d : Bool) (l : List α) :
    (l = [] → getOne d l = if d then .default else .notFound)
    ∧ (∀ x, l = [x] → getOne d l = .value x)
    ∧ (l.length ≥ 2 → getOne d l = .integrity) := by
  refine ⟨?_, ?_, ?_⟩
  · rintro rfl; cases d <;> rfl
  · rintro x rfl; rfl
  · intro h
    match l, h with
    | _ :: _ :: _, _ => simp [getOne, getOneWith, Extracted.getOneBranches, OneGuard.holds, OneAction.run]

/-- **absent_key_notfound** (alternate id): no row with that key → SQLObjectNotFound, never None -/
theorem C11_absent_key_notfound (db : Db) (c : ColRef) (v : Val) (h : ∀ r ∈ db.rows, r.get c ≠ v) :
    fetchAlternateID db c v = .notFound := by
  have : source db (eqOrNull c v) = [] := by
    rw [source_eq_filter db _ (eqOrNull_usesOth c v)]
    apply List.filter_eq_nil_iff.mpr
    intro r hr hh
    exact h r hr ((holds_eqOrNull c v none r).mp hh)
  simp [fetchAlternateID, this, Extracted.altMiss]

/-- a present unique key returns that row -/
theorem C11_alt_present (db : Db) (c : ColRef) (v : Val) (r : Row) (hr : r ∈ db.rows) (hv : r.get c = v)
    (uniq : ∀ r' ∈ db.rows, r'.get c = v → r' = r) :
    fetchAlternateID db c v = .value r.id := by
  have hmem : r ∈ source db (eqOrNull c v) := by
    rw [source_eq_filter db _ (eqOrNull_usesOth c v)]
    exact List.mem_filter.mpr ⟨hr, (holds_eqOrNull c v none r).mpr hv⟩
  unfold fetchAlternateID
  cases hs : source db (eqOrNull c v) with
  | nil => rw [hs] at hmem; cases hmem
  | cons r' t =>
    have h' : r' ∈ source db (eqOrNull c v) := by rw [hs]; exact List.mem_cons_self
    rw [source_eq_filter db _ (eqOrNull_usesOth c v)] at h'
    have := List.mem_filter.mp h'
    rw [uniq r' this.1 ((holds_eqOrNull c v none r').mp this.2)]

/-- unique-index lookup = `selectBy(**kw).getOne()`: 0 matching rows → not-found, 1 → it, more → integrity error -/
theorem C11_index_get (sch : Schema) (db : Db) (n : Nat) (kw : Kw) (s : Sel) (out : List Row)
    (hn : kw.length = n) (hs : selectBy sch kw = some s) (ho : evalSelect sch db s = some out) :
    indexGet sch db n kw = getOne false (out.map (·.id))
    ∧ (∀ r, r ∈ out ↔ r ∈ db.rows ∧ ∀ c v, Bound sch kw c v → r.get c = v.toVal) := by
  refine ⟨?_, ?_⟩
  · simp [indexGet, hn, hs, ho]
  · intro r
    have hp := evalRows_perm sch db (queryForSelect s) out ho
    have hd : s.distinct = false := by
      unfold selectBy at hs
      cases hc : columnClause sch kw with
      | none => rw [hc] at hs; cases hs
      | some cl => rw [hc] at hs; simp only [Option.map_some, Option.some.injEq] at hs; subst hs; rfl
    simp only [queryForSelect, distinctIf, hd, Bool.false_eq_true, if_false] at hp
    rw [hp.mem_iff, C11_selectBy_rows sch db kw s hs]

/-- **absent_key_notfound** (unique index): no matching row → SQLObjectNotFound -/
theorem C11_index_absent_notfound (sch : Schema) (db : Db) (n : Nat) (kw : Kw) (s : Sel) (out : List Row)
    (hn : kw.length = n) (hs : selectBy sch kw = some s) (ho : evalSelect sch db s = some out)
    (habs : ∀ r ∈ db.rows, ¬ ∀ c v, Bound sch kw c v → r.get c = v.toVal) :
    indexGet sch db n kw = .notFound := by
  obtain ⟨h1, h2⟩ := C11_index_get sch db n kw s out hn hs ho
  have : out = [] := by
    cases out with
    | nil => rfl
    | cons r t => exact absurd ((h2 r).mp List.mem_cons_self).2 (habs r ((h2 r).mp List.mem_cons_self).1)
  rw [h1, this]; rfl

/-! ## batched iteration (inheritable classes) -/

/-- `InheritableIteration.next`: the cursor is drained by `fetchmany()` in batches of `size` rows
    (`defaultArraySize`); each batch is handed out row by row before the next one is fetched -/
def fetchBatches {α} (size : Nat) (rows : List α) : List (List α) :=
  if _h : rows = [] ∨ size = 0 then [] else
    rows.take size :: fetchBatches size (rows.drop size)
termination_by rows.length
decreasing_by
  have h1 : rows ≠ [] := fun e => _h (Or.inl e)
  have h2 : size ≠ 0 := fun e => _h (Or.inr e)
  have : 0 < rows.length := List.length_pos_iff.mpr h1
  simp only [List.length_drop]; omega

/-- batched iteration over an inheritable class hands out every fetched row, in order, for EVERY batch size ≥ 1 -/
theorem C11_batched_iteration_complete {α} (size : Nat) (hs : 0 < size) (rows : List α) :
    (fetchBatches size rows).flatten = rows := by
  induction h : rows.length using Nat.strongRecOn generalizing rows with
  | _ n ih =>
    rw [fetchBatches]
    by_cases he : rows = []
    · simp [he]
    · have hc : ¬ (rows = [] ∨ size = 0) := by
        intro x; rcases x with x | x
        · exact he x
        · omega
      rw [dif_neg hc, List.flatten_cons]
      have hpos : 0 < rows.length := List.length_pos_iff.mpr he
      have hlt : (rows.drop size).length < n := by simp only [List.length_drop]; omega
      rw [ih _ hlt (rows.drop size) rfl, List.take_append_drop]


example : (fetchBatches 2 [1, 2, 3, 4, 5]).flatten = [1, 2, 3, 4, 5] := C11_batched_iteration_complete 2 (by decide) _

/-! ## several connections -/

/-- **connection isolation.**  A select / count / aggregate issued with `connection=c` (or through the
    class's own connection when none is given) is the plain query over the rows of THAT connection's
    database: what was written through any other connection object does not matter, and what was written
    through `c` does. -/
theorem C11_connection_isolation (sch : Schema) (s : Store) (c : Nat) (d : Db) (explicit : Option Nat) (classConn : Nat)
    (sel : Sel) (p : Plan) :
    (connOf explicit classConn ≠ c →
      selectOn sch (s.write c d) explicit classConn sel = selectOn sch s explicit classConn sel
      ∧ aggOn sch (s.write c d) explicit classConn p = aggOn sch s explicit classConn p)
    ∧ (connOf explicit classConn = c →
      selectOn sch (s.write c d) explicit classConn sel = evalSelect sch d sel
      ∧ aggOn sch (s.write c d) explicit classConn p = evalAgg sch d p) := by
  constructor
  · intro h; simp [selectOn, aggOn, Store.write, h]
  · intro h; simp [selectOn, aggOn, Store.write, h]

/-- an explicit `connection=` wins over the class's connection -/
theorem C11_explicit_connection_wins (c classConn : Nat) : connOf (some c) classConn = c ∧ connOf none classConn = classConn :=
  ⟨rfl, rfl⟩

/-! ## Non-vacuity: concrete tables and queries (evaluated by the kernel) -/

def exSch : Schema :=
  { table := ['t'], othTable := ['o'],
    cols := [⟨['a'], ['a'], none⟩, ⟨['b', 'V'], ['b', '_', 'v'], none⟩, ⟨['f', 'k', 'I', 'D'], ['f', 'k', '_', 'i', 'd'], some ['f', 'k']⟩] }

def exDb : Db :=
  { rows := [⟨1, [some 1, some 2, some 1]⟩, ⟨2, [none, some 2, none]⟩, ⟨3, [some 1, none, some 2]⟩, ⟨4, [some 1, none, some 2]⟩],
    oth := [some 1, some 1, some 2] }

def ids (o : Option (List Row)) : Option (List Int) := o.map (·.map (·.id))

def exOrder : OrderBy := .many .tuple [.str ['-', 'a'], .str ['b', 'V']]

example : ids (evalSelect exSch exDb (Sel.new exSch none (some exOrder) false false)) = some [3, 4, 1, 2] := by decide
example : ids (evalSelect exSch exDb (Sel.new exSch none (some exOrder) false false).rev) = some [2, 1, 3, 4] := by decide
example : ids (evalSelect exSch exDb (Sel.new exSch none (some (.many .list exOrder.args)) false false)) = some [3, 4, 1, 2] := by decide
example : intentKeys exSch false false exOrder.args = some [(.col 0, true), (.col 1, false)] := by decide
example : intentKeys exSch false true exOrder.args = some [(.col 0, false), (.col 1, true)] := by decide
example : ids (evalSelect exSch exDb (Sel.new exSch none (some (.one (.expr (.desc (.desc (.desc (.field .id))))))) false false))
    = some [4, 3, 2, 1] := by decide
example : (selectBy exSch [(['a'], .int 1), (['b', 'V'], .none)]).map (fun s => (source exDb s.clause).map (·.id)) = some [3, 4] := by decide
example : selectBy exSch [(['f', 'k'], .obj 2), (['z'], .int 1)] = none := by decide
example : (selectBy exSch [(['f', 'k'], .obj 2)]).map (fun s => (source exDb s.clause).map (·.id)) = some [3, 4] := by decide
def exJoin : Sel := Sel.new exSch (some (.cmp .eq .othG (.col (.col 0)))) none false true
example : ids (evalSelect exSch exDb exJoin) = some [1, 3, 4] := by decide
example : evalAgg exSch exDb (countPlan exJoin) = some (.int (some 3)) := by decide
example : evalAgg exSch exDb (countPlan { exJoin with distinct := false }) = some (.int (some 6)) := by decide
example : evalAgg exSch exDb (aggPlan exJoin .sum (.const ['b', '_', 'v'])) = some (.int (some 2)) := by decide
example : evalAgg exSch exDb (aggPlan (Sel.new exSch (some (.isNull (.col (.col 0)))) none false false) .max (.field (.col 0)))
    = some (.int none) := by decide
example : evalAgg exSch exDb (aggPlan (Sel.new exSch none none false false) .avg (.field (.col 2))) = some (.ratio (some (5, 3))) := by decide
example : (nary .or [.cmp .eq (.col (.col 0)) (.lit 1), .isNull (.col (.col 0)), .cmp .eq (.col (.col 1)) (.lit 7)]).map
    (fun c => (source exDb c).map (·.id)) = some [1, 2, 3, 4] := by decide
example : (nary .and [.cmp .eq (.col (.col 0)) (.lit 1), .isNull (.col (.col 1)), .cmp .eq (.col (.col 2)) (.lit 2)]).map
    (fun c => (source exDb c).map (·.id)) = some [3, 4] := by decide
example : iterSelect [⟨0, [none]⟩, ⟨-1, []⟩] = [some ⟨0, [none]⟩, some ⟨-1, []⟩] := by decide
example : getOne false ([] : List Int) = .notFound ∧ getOne true ([] : List Int) = .default
    ∧ getOne false [7] = .value 7 ∧ getOne false [7, 8, 9] = .integrity := by decide
example : fetchAlternateID exDb (.col 1) (some 5) = .notFound ∧ fetchAlternateID exDb (.col 2) (some 1) = .value 1 := by decide
example : indexGet exSch exDb 2 [(['a'], .int 1), (['f', 'k'], .obj 1)] = .value 1
    ∧ indexGet exSch exDb 2 [(['a'], .int 1), (['f', 'k'], .obj 2)] = .integrity
    ∧ indexGet exSch exDb 2 [(['a'], .int 2), (['f', 'k'], .obj 2)] = .notFound
    ∧ indexGet exSch exDb 2 [(['a'], .int 2)] = .typeError := by decide


/-- the aggregate of a DISTINCT select is over the distinct column VALUES (SQL `SUM(DISTINCT col)`), which
    is not the sum over the distinct ROWS when two distinct rows share a value -/
theorem C11_distinct_aggregate_is_over_values :
    ∃ (sch : Schema) (db : Db) (s : Sel) (out : List Row), KeyIds db ∧ s.distinct = true
      ∧ evalSelect sch db s = some out
      ∧ evalAgg sch db (aggPlan s .sum (.field (.col 0))) = some (.int (some 1))
      ∧ sumL (out.filterMap (·.get (.col 0))) = 3 :=
  ⟨exSch, exDb, Sel.new exSch none none false true, exDb.rows, by unfold KeyIds; decide, rfl, by decide, by decide, by decide⟩


/-! ## The translated source (`vlib/extractors/pyquery.py` → `Extracted/PyQuery.lean`, semantics `Model/PyQuery.lean`)

The theorems below are about the PyQuery programs TRANSLATED from /repo on this run, executed by the reference
interpreter on the images of the hand model's data (`Model/QueryX.lean`, whose header lists every interface
assumption).  `sch` is any schema, `P` the opaque library / database parameters, `fnRec` the module-level functions that
are not constructors, `cm` the method-call resolver, `cv` the call of a local class value. -/

namespace X
open SqlObjVerif.PyQ SqlObjVerif.QueryX

variable (sr : PyQ.Val → Str) (sch : Schema) (P : Params) (fnRec : String → List PyQ.Val → List (Str × PyQ.Val) → R PyQ.Val)
  (cm : PyQ.Val → String → List PyQ.Val → List (Str × PyQ.Val) → R PyQ.Val) (cv : PyQ.Val → List PyQ.Val → R PyQ.Val)

/-- `SelectResults._mungeOrderBy` as translated computes `mungeOrderBy` for every order key (strings with or without
    the `-` prefix, names of `sqlmeta.columns` or raw strings, expressions). -/
theorem C11_translated_mungeOrderBy_eq_model (c : String) (fs : List (String × PyQ.Val))
    (hsc : aget "sourceClass" fs = some clsV) (a : OrderArg) :
    mungeX (qIface sch P fnRec cm cv) (.obj c fs) (OrderArg.toVal sch a) = .ret (OExpr.toVal sch (mungeOrderBy sch a)) :=
  munge_translated sch P fnRec cm cv c fs hsc a

/-- `list(map(self._mungeOrderBy, orderBy))` of `__init__` computes `mungeSeq` for a list and for a tuple of keys. -/
theorem C11_translated_mungeSeq_eq_model (hm : MungeIs sch P fnRec cm cv) (c : String) (fs : List (String × PyQ.Val))
    (hsc : aget "sourceClass" fs = some clsV) (k : SeqKind) (l : List OrderArg) :
    mapR (fun x => cm (.obj c fs) "_mungeOrderBy" [x] []) (l.map (OrderArg.toVal sch))
      = .ok ((mungeSeq sch k l).map (OExpr.toVal sch)) := by
  rw [mapR_munge sch P fnRec cm cv hm c fs hsc l, mungeSeq_eq]
  simp

/-- `SelectResults.__init__` as translated (no window keywords: C10; no `clauseTables`): the object it builds, for every
    clause, every `ops` dict and every order specification found in it (or `sqlmeta.defaultOrder`). -/
theorem C11_translated_init_eq_model (hm : MungeIs sch P fnRec cm cv) (cl : Option Expr) (ct : PyQ.Val)
    (hct : truthy ct = false) (d : List (Str × PyQ.Val)) (o : OrderBy) (conn dbn : PyQ.Val)
    (ho : aget kOrderBy (opsDefault sch d) = some (OrderBy.toVal sch o))
    (hl : truthy ((aget kLimit (initOps sch d o)).getD .none) = false)
    (hgc : cm (.obj "SelectResults" [("sourceClass", clsV), ("clause", clauseV sr sch (cl.getD .tt)),
      ("ops", .dict (initOps sch d o))]) "_getConnection" [] [] = .ok conn)
    (hdb : attrOf (qIface sch P fnRec cm cv) conn "dbName" = .ok dbn) :
    initX (qIface sch P fnRec cm cv) clsV (optClauseV sr sch cl) ct d =
      (.ret .none, some (srObj clsV (clauseV sr sch (cl.getD .tt)) (.dict (initOps sch d o)) ct
        (.list (P.listOf (.obj "set" (P.tablesUsed (clauseV sr sch (cl.getD .tt)) dbn)) ++ [.str sch.table]))))
    ∧ Rep sr sch (clauseV sr sch (cl.getD .tt)) (initOps sch d o)
        { clause := cl.getD .tt, order := mungeAll sch o, reversed := truthyOpt d kReversed,
          distinct := truthyOpt d kDistinct } :=
  ⟨init_translated sr sch P fnRec cm cv hm cl ct hct d o conn dbn ho hl hgc hdb, initOps_rep sr sch cl d o⟩

/-- `__init__` as translated on the TEXT of a keyword clause (what `selectBy` passes): the text is GROUPED —
    `SQLConstant('(' + text + ')')`, the image of `.kw conds` — so that a later `filter()` cannot capture its last operand;
    the object represents the select over `.kw conds`. -/
theorem C11_translated_init_text_eq_model (hm : MungeIs sch P fnRec cm cv) (c0 : Cond) (cs : List Cond) (ct : PyQ.Val)
    (hct : truthy ct = false) (d : List (Str × PyQ.Val)) (o : OrderBy) (conn dbn : PyQ.Val)
    (ho : aget kOrderBy (opsDefault sch d) = some (OrderBy.toVal sch o))
    (hl : truthy ((aget kLimit (initOps sch d o)).getD .none) = false)
    (hgc : cm (.obj "SelectResults" [("sourceClass", clsV), ("clause", clauseV sr sch (.kw (c0 :: cs))),
      ("ops", .dict (initOps sch d o))]) "_getConnection" [] [] = .ok conn)
    (hdb : attrOf (qIface sch P fnRec cm cv) conn "dbName" = .ok dbn) :
    initX (qIface sch P fnRec cm cv) clsV (.str (condsText sr sch (c0 :: cs))) ct d =
      (.ret .none, some (srObj clsV (constV (.str (['('] ++ condsText sr sch (c0 :: cs) ++ [')']))) (.dict (initOps sch d o)) ct
        (.list (P.listOf (.obj "set" (P.tablesUsed (clauseV sr sch (.kw (c0 :: cs))) dbn)) ++ [.str sch.table]))))
    ∧ Rep sr sch (clauseV sr sch (.kw (c0 :: cs))) (initOps sch d o)
        { clause := .kw (c0 :: cs), order := mungeAll sch o, reversed := truthyOpt d kReversed,
          distinct := truthyOpt d kDistinct } :=
  ⟨init_translated_gen sr sch P fnRec cm cv hm _ _ (.text (c0 :: cs) (condsText_ne_all sr sch c0 cs)) ct hct d o conn dbn
      ho hl hgc hdb, initOps_rep sr sch (some (.kw (c0 :: cs))) d o⟩

/-- `_getConnection` as translated. -/
theorem C11_translated_getConnection (c : String) (fs : List (String × PyQ.Val)) (d : List (Str × PyQ.Val))
    (hops : aget "ops" fs = some (.dict d)) (hsc : aget "sourceClass" fs = some clsV) :
    getConnectionX (qIface sch P fnRec cm cv) (.obj c fs) =
      .ret (if truthy ((aget kConnection d).getD .none) = true then (aget kConnection d).getD .none else P.conn) :=
  getConnection_translated sch P fnRec cm cv c fs d hops hsc

/-- `clone / orderBy / reversed / distinct / newClause / filter` as translated: each is the constructor call
    `self.__class__(sourceClass, clause, clauseTables, **ops')` (through `clone`) with exactly the `ops'` / clause of
    `Sel.orderBy / Sel.rev / Sel.dist / Sel.filter`: `orderBy=o`, `reversed=not reversed`, `distinct=True`,
    `AND(clause, c)` (`None`: the select itself). -/
theorem C11_translated_clone_eq_model (I : Iface) (sc cl ct ts : PyQ.Val) (d newOps : List (Str × PyQ.Val)) :
    cloneX I (srObj sc cl (.dict d) ct ts) newOps =
      ofR (I.callMethod (srObj sc cl (.dict d) ct ts) "__class__" [sc, cl, ct] (aupdate d newOps)) :=
  clone_translated I sc cl ct ts d newOps

theorem C11_translated_orderBy_eq_model (I : Iface) (o : PyQ.Val) (c : String) (fs : List (String × PyQ.Val)) :
    orderByX I (.obj c fs) o = ofR (I.callMethod (.obj c fs) "clone" [] [(kOrderBy, o)]) :=
  orderBy_translated I _ o c fs rfl

theorem C11_translated_reversed_eq_model (I : Iface) (sc cl ct ts : PyQ.Val) (d : List (Str × PyQ.Val)) :
    reversedX I (srObj sc cl (.dict d) ct ts) =
      ofR (I.callMethod (srObj sc cl (.dict d) ct ts) "clone" []
        [(kReversed, .bool (!truthy ((aget kReversed d).getD (.bool false))))]) :=
  reversed_translated I sc cl ct ts d

theorem C11_translated_distinct_eq_model (I : Iface) (c : String) (fs : List (String × PyQ.Val)) :
    distinctX I (.obj c fs) = ofR (I.callMethod (.obj c fs) "clone" [] [(kDistinct, .bool true)]) :=
  distinct_translated I _ c fs rfl

theorem C11_translated_newClause_eq_model (I : Iface) (sc cl ct ts c' : PyQ.Val) (d : List (Str × PyQ.Val)) :
    newClauseX I (srObj sc cl (.dict d) ct ts) c' =
      ofR (I.callMethod (srObj sc cl (.dict d) ct ts) "__class__" [sc, c', ct] d) :=
  newClause_translated I sc cl ct ts c' d

theorem C11_translated_filter_eq_model (sc cl ct ts c' : PyQ.Val) (d : List (Str × PyQ.Val)) (hcl : isStrV cl = false) :
    filterX (qIface sch P fnRec cm cv) (srObj sc cl (.dict d) ct ts) c' =
      if isNoneV c' = true then .ret (srObj sc cl (.dict d) ct ts)
      else ofR ((fnRec "AND" [cl, c'] []).bind fun a => cm (srObj sc cl (.dict d) ct ts) "newClause" [a] []) :=
  filter_translated sch P fnRec cm cv sc cl ct ts c' d hcl

/-- `AND(*ops)` / `OR(*ops)` as translated compute `nary` for EVERY operand list (the recursive call resolved by the
    translated function itself, `n` levels deep with `n + 1 ≥` the number of operands). -/
theorem C11_translated_AND_eq_model (l : List Expr) (n : Nat) (h : l.length ≤ n + 1) :
    andX (qIface sch P (naryFn sch P cm cv n) cm cv) (l.map (clauseV sr sch)) = .ret (optV sch sr (nary .and l)) :=
  and_translated sch P cm cv sr l n h

theorem C11_translated_OR_eq_model (l : List Expr) (n : Nat) (h : l.length ≤ n + 1) :
    orX (qIface sch P (naryFn sch P cm cv n) cm cv) (l.map (clauseV sr sch)) = .ret (optV sch sr (nary .or l)) :=
  or_translated sch P cm cv sr l n h

/-- `getOne` as translated computes the hand model's `getOne` on the list `list(self)` gives, for every list. -/
theorem C11_translated_getOne_eq_model (I : Iface) (dflt : PyQ.Val) (c : String) (fs : List (String × PyQ.Val))
    (l : List PyQ.Val) (hl : I.fn "list" [.obj c fs] [] = .ok (.list l)) :
    getOneX I (.obj c fs) dflt = oneOut dflt (getOne (!isGlobV "NoDefault" dflt) l) :=
  getOne_translated I _ dflt c fs rfl l hl

/-- `__iter__` / `lazyIter` as translated: `iter(list(conn.iterSelect(self)))`. -/
theorem C11_translated_iter_eq_model (I : Iface) (c : String) (fs : List (String × PyQ.Val)) :
    iterX I (.obj c fs) = ofR ((I.callMethod (.obj c fs) "lazyIter" [] []).bind fun it =>
      (callFn I "list" [it] []).bind fun l => callFn I "iter" [l] []) :=
  iter_translated I _ c fs rfl

theorem C11_translated_lazyIter_eq_model (I : Iface) (c : String) (fs : List (String × PyQ.Val)) :
    lazyIterX I (.obj c fs) = ofR ((I.callMethod (.obj c fs) "_getConnection" [] []).bind fun conn =>
      methodOf I conn "iterSelect" [.obj c fs] []) :=
  lazyIter_translated I _ c fs rfl

/-- `Iteration.next` as translated is `deliver` with the NULL-id guard: a row whose id is NULL gives `None`, EVERY other
    row (id 0, negative, a string) is handed to `sourceClass.get`. -/
theorem C11_translated_next_eq_model (I : Iface) (dbconn : PyQ.Val) (ops : List (Str × PyQ.Val)) (idv : PyQ.Val)
    (rest : List PyQ.Val) (c n : String) (fs : List (String × PyQ.Val))
    (hfetch : I.callMethod (.obj c fs) "fetchone" [] [] = .ok (.tuple (idv :: rest)))
    (hlazy : truthy ((aget ['l', 'a', 'z', 'y', 'C', 'o', 'l', 'u', 'm', 'n', 's'] ops).getD (.int 0)) = false) :
    iterNextX I (.obj "Iteration" [("cursor", .obj c fs),
        ("select", .obj "SelectResults" [("sourceClass", .glob n), ("ops", .dict ops)]), ("dbconn", dbconn)]) =
      if isNoneV idv = true then .ret .none
      else ofR (I.callMethod (.glob n) "get" [idv]
        [(['s', 'e', 'l', 'e', 'c', 't', 'R', 'e', 's', 'u', 'l', 't', 's'], .tuple rest), (kConnection, dbconn)]) :=
  iterNext_translated I _ _ dbconn ops (idv :: rest) c n fs rfl rfl hfetch hlazy

/-- `accumulate(*expressions)` as translated: every expression that is not an SQL expression is wrapped into
    `SQLConstant`, then `conn.accumulateSelect(self, *wrapped)`. -/
theorem C11_translated_accumulate_eq_model (c : String) (fs : List (String × PyQ.Val)) (conn : PyQ.Val)
    (hgc : cm (.obj c fs) "_getConnection" [] [] = .ok conn) (exprs : List PyQ.Val) :
    accumulateX (qIface sch P fnRec cm cv) (.obj c fs) exprs =
      ofR (methodOf (qIface sch P fnRec cm cv) conn "accumulateSelect" (.obj c fs :: exprs.map wrapConst) []) :=
  accumulate_translated sch P fnRec cm cv _ c fs rfl conn hgc exprs

/-- `accumulateMany(*attributes)` as translated: for every list of `(function name, attribute)` pairs the expressions
    `F([DISTINCT ]attr)` — the word DISTINCT exactly when the select is distinct — handed to `accumulate`. -/
theorem C11_translated_accumulateMany_eq_model (sc cl ct ts : PyQ.Val) (d : List (Str × PyQ.Val)) (conn : PyQ.Val)
    (hgc : cm (srObj sc cl (.dict d) ct ts) "_getConnection" [] [] = .ok conn)
    (hsr : ∀ a, methodOf (qIface sch P fnRec cm cv) conn "sqlrepr" [a] [] = .ok (.str (P.sqlrepr a)))
    (attrs : List (Str × PyQ.Val)) :
    accumulateManyX (qIface sch P fnRec cm cv) (srObj sc cl (.dict d) ct ts) (attrs.map pairV) =
      ofR (cm (srObj sc cl (.dict d) ct ts) "accumulate" (attrs.map fun fa => aggText P (distinctWord d) fa.1 fa.2) []) :=
  accumulateMany_translated sch P fnRec cm cv sc cl ct ts d conn hgc hsr attrs

theorem C11_translated_accumulateOne_eq_model (I : Iface) (f a : PyQ.Val) (c : String) (fs : List (String × PyQ.Val)) :
    accumulateOneX I (.obj c fs) f a = ofR (I.callMethod (.obj c fs) "accumulateMany" [.tuple [f, a]] []) :=
  accumulateOne_translated I _ f a c fs rfl

/-- `sum / min / max / avg` as translated call `accumulateOne` with the SQL function names of the hand model. -/
theorem C11_translated_sum_min_max_avg_eq_model (I : Iface) (a : PyQ.Val) (c : String) (fs : List (String × PyQ.Val)) :
    sumX I (.obj c fs) a = ofR (I.callMethod (.obj c fs) "accumulateOne" [.str (AggFn.text (AggMethod.fn .sum)).toList, a] [])
    ∧ minX I (.obj c fs) a = ofR (I.callMethod (.obj c fs) "accumulateOne" [.str (AggFn.text (AggMethod.fn .min)).toList, a] [])
    ∧ maxX I (.obj c fs) a = ofR (I.callMethod (.obj c fs) "accumulateOne" [.str (AggFn.text (AggMethod.fn .max)).toList, a] [])
    ∧ avgX I (.obj c fs) a = ofR (I.callMethod (.obj c fs) "accumulateOne" [.str (AggFn.text (AggMethod.fn .avg)).toList, a] []) :=
  ⟨sum_translated I _ a c fs rfl, min_translated I _ a c fs rfl, max_translated I _ a c fs rfl, avg_translated I _ a c fs rfl⟩

/-- `count()` as translated: a sliced select is an AssertionError; otherwise `accumulate` of `COUNT(*)`, or of
    `COUNT(DISTINCT <id>)` exactly when the select is distinct (`countPlan`). -/
theorem C11_translated_count_eq_model (cl ct ts : PyQ.Val) (d : List (Str × PyQ.Val)) (conn : PyQ.Val) (idText : Str)
    (hgc : cm (srObj clsV cl (.dict d) ct ts) "_getConnection" [] [] = .ok conn)
    (hsr : methodOf (qIface sch P fnRec cm cv) conn "sqlrepr" [fieldV idName] [] = .ok (.str idText)) :
    countX (qIface sch P fnRec cm cv) (srObj clsV cl (.dict d) ct ts) =
      if truthyOpt d kStart = true ∨ truthyOpt d kEnd = true then .exc .assertionError
      else ofR (cm (srObj clsV cl (.dict d) ct ts) "accumulate" [countExpr d idText] []) :=
  count_translated sch P fnRec cm cv cl ct ts d conn idText hgc hsr

/-- `accumulateSelect` as translated: the clone chain `queryForSelect().newItems(exprs).unlimited().orderBy(None)` — the
    accumulate plan keeps WHERE and DISTINCT, replaces the items, drops the window and the ORDER BY (`accumulatePlan`) —
    is rendered and run; a single expression gives the single value. -/
theorem C11_translated_accumulateSelect_eq_model (I : Iface) (c n : String) (fs : List (String × PyQ.Val))
    (exprs : List PyQ.Val) (q0 q1 q2 q3 : List (Str × PyQ.Val)) (text : PyQ.Val) (row : List PyQ.Val)
    (h0 : I.callMethod (.obj c fs) "queryForSelect" [] [] = .ok (selObj q0))
    (h1 : I.callMethod (selObj q0) "newItems" [.tuple exprs] [] = .ok (selObj q1))
    (h2 : I.callMethod (selObj q1) "unlimited" [] [] = .ok (selObj q2))
    (h3 : I.callMethod (selObj q2) "orderBy" [.none] [] = .ok (selObj q3))
    (h4 : I.callMethod (.glob n) "sqlrepr" [selObj q3] [] = .ok text)
    (h5 : I.callMethod (.glob n) "queryOne" [text] [] = .ok (.tuple row)) :
    accumulateSelectX I (.glob n) (.obj c fs) exprs = accOut exprs row :=
  accumulateSelect_translated I _ _ c n fs rfl rfl exprs q0 q1 q2 q3 text row h0 h1 h2 h3 h4 h5

/-- the `Select` methods of the chain as translated: `newItems(x) = clone(items=x)`, `unlimited() =
    clone(limit=NoDefault, start=0, end=None)`, `orderBy(o) = clone(orderBy=o)`, `clone(**new) = Select(**{**ops, **new})`. -/
theorem C11_translated_select_chain_eq_model (I : Iface) (d newOps : List (Str × PyQ.Val)) (x : PyQ.Val) :
    selNewItemsX I (selObj d) x = ofR (I.callMethod (selObj d) "clone" [] [(['i', 't', 'e', 'm', 's'], x)])
    ∧ selUnlimitedX I (selObj d) = ofR (I.callMethod (selObj d) "clone" []
        [(kLimit, .glob "NoDefault"), (kStart, .int 0), (kEnd, .none)])
    ∧ selOrderByX I (selObj d) x = ofR (I.callMethod (selObj d) "clone" [] [(kOrderBy, x)])
    ∧ selCloneX I (selObj d) newOps = ofR (I.callMethod (selObj d) "__class__" [] (aupdate d newOps)) :=
  ⟨selNewItems_translated I d x, selUnlimited_translated I d, selOrderBy_translated I d x, selClone_translated I d newOps⟩

/-- `DESC.__sqlrepr__` as translated, one level (`OExpr.key`): DESC of DESC renders the inner expression, any other
    operand gets the DESC format appended; `_str_or_sqlrepr` passes strings through. -/
theorem C11_translated_DESC_sqlrepr_eq_model (v db : PyQ.Val)
    (hstr : ∀ w, fnRec "sqlrepr" [v, db] [] = .ok w → ∃ s, w = .str s) :
    descSqlreprX (qIface sch P fnRec cm cv) (descV v) db =
      if hasCls "DESC" v = true then
        ofR ((attrOf (qIface sch P fnRec cm cv) v "expr").bind fun w => fnRec "sqlrepr" [w, db] [])
      else ofR (addDesc (fnRec "sqlrepr" [v, db] [])) :=
  descSqlrepr_step sch P fnRec cm cv v db (fun _ => hstr)

theorem C11_translated_str_or_sqlrepr_eq_model (e db : PyQ.Val) :
    strOrSqlreprX (qIface sch P fnRec cm cv) e db =
      if isStrV e = true then .ret e else ofR (fnRec "sqlrepr" [e, db] []) :=
  strOrSqlrepr_translated sch P fnRec cm cv e db

/-- `selectBy(connection=…, **kw)` as translated: the keyword clause of the connection, then the constructor. -/
theorem C11_translated_selectBy_eq_model (connection : PyQ.Val) (kw : List (Str × PyQ.Val)) :
    selectByX (qIface sch P fnRec cm cv) clsV connection kw =
      ofR ((methodOf (qIface sch P fnRec cm cv) (if truthy connection = true then connection else P.conn) "_SO_columnClause"
        [clsV, .dict kw] []).bind fun c =>
          cm clsV "SelectResultsClass" [clsV, c] [(kConnection, if truthy connection = true then connection else P.conn)]) :=
  selectBy_translated sch P fnRec cm cv connection kw

/-- **order_spec_correct about the translated constructor.**  The object the translated `__init__` builds for
    `cls.select(clause, orderBy=o, reversed=r, distinct=dd)` stores a description (`Rep`) of a select whose reference
    evaluation returns a permutation of the filtered (distinct) rows sorted by the intended comparator. -/
theorem C11_translated_order_spec_correct (hm : MungeIs sch P fnRec cm cv) (cl : Option Expr) (ct : PyQ.Val)
    (hct : truthy ct = false) (d : List (Str × PyQ.Val)) (o : OrderBy) (conn dbn : PyQ.Val)
    (ho : aget kOrderBy (opsDefault sch d) = some (OrderBy.toVal sch o))
    (hl : truthy ((aget kLimit (initOps sch d o)).getD .none) = false)
    (hgc : cm (.obj "SelectResults" [("sourceClass", clsV), ("clause", clauseV sr sch (cl.getD .tt)),
      ("ops", .dict (initOps sch d o))]) "_getConnection" [] [] = .ok conn)
    (hdb : attrOf (qIface sch P fnRec cm cv) conn "dbName" = .ok dbn)
    (db : Db) (keys : List Key) (hne : ∀ k, o ≠ .many k [])
    (hk : intentKeys sch (cl.getD .tt).usesOth (truthyOpt d kReversed) o.args = some keys) :
    ∃ obj d' s out, initX (qIface sch P fnRec cm cv) clsV (optClauseV sr sch cl) ct d = (.ret .none, some obj)
      ∧ attrOf (qIface sch P fnRec cm cv) obj "ops" = .ok (.dict d')
      ∧ Rep sr sch (clauseV sr sch (cl.getD .tt)) d' s
      ∧ evalSelect sch db s = some out
      ∧ out.Perm (distinctIf (truthyOpt d kDistinct) (source db (cl.getD .tt))) ∧ Sorted (leKeys keys) out := by
  obtain ⟨h1, h2⟩ := C11_translated_init_eq_model sr sch P fnRec cm cv hm cl ct hct d o conn dbn ho hl hgc hdb
  obtain ⟨out, e1, e2, e3⟩ := evalSelect_spec sch db ⟨cl.getD .tt, o, truthyOpt d kReversed, truthyOpt d kDistinct⟩ keys hne hk
  exact ⟨_, _, _, out, h1, rfl, h2, e1, e2, e3⟩

/-- **aggregate_plan about the translated `count`.**  The expression the translated `count()` accumulates is the text
    of the item of the hand model's `countPlan` of the represented select (so `C11_aggregate_plan_count` speaks about
    it): `COUNT(*)`, and `COUNT(DISTINCT <id>)` exactly for a distinct select. -/
theorem C11_translated_aggregate_plan (cv' : PyQ.Val) (d : List (Str × PyQ.Val)) (s : Sel) (idText : Str)
    (hrep : Rep sr sch cv' d s) :
    countExpr d idText = match (countPlan s).items with
      | .count .star => .str ['C', 'O', 'U', 'N', 'T', '(', '*', ')']
      | .count .distinctId => .str (['C', 'O', 'U', 'N', 'T', '(', 'D', 'I', 'S', 'T', 'I', 'N', 'C', 'T', ' '] ++ idText ++ [')'])
      | _ => .none := by
  unfold countExpr countPlan accumulatePlan
  rw [hrep.distinct]
  cases s.distinct <;> rfl

/-! ### second batch: `_SO_columnClause`, the lookups, the ORDER BY text, the composed chains -/

/-- **`_SO_columnClause` as translated computes `columnClause`** for EVERY keyword dict (the loop with its `pop`s over
    `sqlmeta.columnList`, `id` first, foreign names, instances ↦ their id, the comprehension and `' AND '.join`):
    TypeError exactly when the hand model refuses a keyword, `None` when there is no condition, else the text of the
    hand model's conditions (`IS` for `None`, `=` otherwise).  `NoClash`: the Python names `id`, column names and
    foreign names of the class are distinct; an instance used as a value renders as its id. -/
theorem C11_translated_columnClause_eq_model (hnc : NoClash sch)
    (hobj : ∀ id, P.sqlrepr (kwValV (.obj id)) = P.sqlrepr (.int id)) (conn : PyQ.Val)
    (hsr : ∀ a, methodOf (qIface sch P fnRec cm cv) conn "sqlrepr" [a] [] = .ok (.str (P.sqlrepr a))) (kw : Kw) :
    columnClauseX (qIface sch P fnRec cm cv) conn clsV (kwV kw) = ccOut P.sqlrepr sch (columnClause sch kw) :=
  columnClause_translated sch P fnRec cm cv hnc hobj conn hsr kw

/-- **selectBy_sem about the translated source.**  Whenever the translated `_SO_columnClause` returns (no TypeError),
    what it returns is `None` or the text of a clause that is TRUE for exactly the rows whose bound columns equal the
    given values (`None` ↔ NULL, an instance ↦ its id) under three-valued logic, and every keyword was bound; it raises
    TypeError exactly for an unexpected keyword. -/
theorem C11_translated_selectBy_sem (hnc : NoClash sch)
    (hobj : ∀ id, P.sqlrepr (kwValV (.obj id)) = P.sqlrepr (.int id)) (conn : PyQ.Val)
    (hsr : ∀ a, methodOf (qIface sch P fnRec cm cv) conn "sqlrepr" [a] [] = .ok (.str (P.sqlrepr a))) (kw : Kw) :
    (∀ v, columnClauseX (qIface sch P fnRec cm cv) conn clsV (kwV kw) = .ret v →
      ∃ cl, columnClause sch kw = some cl ∧ Out.ret v = ccOut P.sqlrepr sch (some cl)
        ∧ (∀ e : Env, holds (cl.getD .tt) e = true ↔ ∀ c w, Bound sch kw c w → e.row.get c = w.toVal)
        ∧ (∀ kv ∈ kw, consumed kw sch.cols kv.1 = true))
    ∧ (columnClauseX (qIface sch P fnRec cm cv) conn clsV (kwV kw) = .exc .typeError ↔
        ∃ kv ∈ kw, consumed kw sch.cols kv.1 = false) := by
  rw [C11_translated_columnClause_eq_model sch P fnRec cm cv hnc hobj conn hsr kw]
  constructor
  · intro v hv
    cases hc : columnClause sch kw with
    | none => rw [hc] at hv; simp [ccOut] at hv
    | some cl =>
      obtain ⟨h1, h2⟩ := C11_selectBy_sem sch kw cl hc
      exact ⟨cl, rfl, by rw [← hv, hc], h1, h2⟩
  · rw [← columnClause_none]
    cases hc : columnClause sch kw with
    | none => simp [ccOut]
    | some cl =>
      have := (columnClause_some sch kw cl hc).2
      subst this
      by_cases hd : (kwData sch kw).isEmpty = true <;> simp [ccOut, hd]

/-- `_SO_selectOneAlt` as translated: the column names become constants, `Select(columns, staticTables=[table],
    clause=condition)` is rendered by `self.sqlrepr` and run by `self.queryOne`. -/
theorem C11_translated_selectOneAlt_eq_model (conn cond : PyQ.Val) (n0 : Str) (names : List Str) :
    selectOneAltX (qIface sch P fnRec cm cv) conn clsV (.list ((n0 :: names).map .str)) cond =
      ofR ((fnRec "Select" [.list ((n0 :: names).map fun n => constV (.str n))]
          [(kStaticTables, .list [.str sch.table]), (kClause, cond)]).bind fun q =>
        (methodOf (qIface sch P fnRec cm cv) conn "sqlrepr" [q] []).bind fun t =>
          methodOf (qIface sch P fnRec cm cv) conn "queryOne" [t] []) :=
  selectOneAlt_translated sch P fnRec cm cv conn cond n0 names

/-- `_SO_fetchAlternateID` as translated (alternate-id lookups, `idxName=None`) is `fetchAlternateID`: no row →
    `SQLObjectNotFound` (never `None`), a row → the instance `cls.get(row[0], selectResults=row[1:])`. -/
theorem C11_translated_fetchAlternateID_eq_model (name dbName value connection result obj : PyQ.Val)
    (hres : result = .none ∨ result = .tuple [] ∨ ∃ idv rest, result = .tuple (idv :: rest))
    (hfind : cm clsV "_findAlternateID" [name, dbName, value, connection] [] = .ok (.tuple [result, obj])) :
    fetchAlternateIDX (qIface sch P fnRec cm cv) clsV name dbName value connection .none =
      altOut (qIface sch P fnRec cm cv) clsV connection result obj :=
  fetchAlternateID_translated sch P fnRec cm cv name dbName value connection result obj hres hfind

/-- `SODatabaseIndex.get(**kw)` as translated is the head of `indexGet`: the arity check (TypeError), then
    `soClass.selectBy(connection=None, **kw).getOne()`. -/
theorem C11_translated_indexGet_eq_model (icols : List ColSpec) (kw : List (Str × PyQ.Val))
    (hk : aget kConnection kw = none) :
    indexGetX (qIface sch P fnRec cm cv) (indexV icols) [] kw =
      if kw ≠ [] ∧ kw.length ≠ icols.length then .exc .typeError
      else ofR ((cm clsV "selectBy" [] ((kConnection, .none) :: kw)).bind fun sel =>
        methodOf (qIface sch P fnRec cm cv) sel "getOne" [] []) :=
  indexGet_translated sch P fnRec cm cv icols kw hk

/-- **`sqlrepr` of an order expression, fully** (`DESC.__sqlrepr__` resolved by the translated function itself, `n`
    levels deep): the text of `OExpr.key` — nested `DESC`s cancel in pairs. -/
theorem C11_translated_DESC_full_eq_model (db : PyQ.Val) (e : OExpr) (n : Nat) (h : OExpr.depth e < n) :
    sqlreprFn sch P cm cv n "sqlrepr" [OExpr.toVal sch e, db] [] = .ok (.str (keyText P sch e.key)) :=
  sqlrepr_full sch P cm cv db e n h

/-- **the ORDER BY statement of `Select.__sqlrepr__` as translated renders `orderKeys`**: nothing without an order,
    else ` ORDER BY ` and the keys joined by `, `, the reverser (`DESC` when `reversed`) wrapped around EVERY key. -/
theorem C11_translated_orderBy_text_eq_model (hcv : ∀ v, cv (.glob "DESC") [v] = .ok (descV v)) (db : PyQ.Val) (select : Str)
    (d : List (Str × PyQ.Val)) (o : DbOrder) (r : Bool) (n : Nat) (hn : DbOrder.depthOk n o)
    (ho : aget kOrderBy d = some (DbOrder.toVal sch o)) (hr : aget kReversed d = some (.bool r)) :
    orderByReprX (qIface sch P (sqlreprFn sch P cm cv n) cm cv) (selObj d) db select =
      .ret (.str (select ++ orderText P sch (orderKeys { clause := .tt, order := o, reversed := r }))) :=
  orderByRepr_translated sch P cm cv hcv db select d o r n hn ho hr

/-- **`reversed()` → `clone` → `__init__` about the translated chain** (every method call resolved by the translated
    callee: `cm3`): the object built represents `Sel.rev`, and the invariant `Good` is kept, so the theorem iterates. -/
theorem C11_translated_reversed_rep (dbn : PyQ.Val)
    (hdb : ∀ cm, attrOf (qIface sch P fnRec cm cv) P.conn "dbName" = .ok dbn)
    (s : Sel) (o : OrderBy) (d : List (Str × PyQ.Val)) (ct ts : PyQ.Val) (hct : truthy ct = false)
    (g : Good sr sch d s o) :
    ∃ d' ts', reversedX (qIface sch P fnRec (cm3 sch P fnRec cm cv) cv) (srObj clsV (clauseV sr sch s.clause) (.dict d) ct ts)
        = .ret (srObj clsV (clauseV sr sch s.clause) (.dict d') ct ts') ∧ Good sr sch d' s.rev o :=
  reversed_rep sr sch P fnRec cm cv dbn hdb s o d ct ts hct g

theorem C11_translated_distinct_rep (dbn : PyQ.Val)
    (hdb : ∀ cm, attrOf (qIface sch P fnRec cm cv) P.conn "dbName" = .ok dbn)
    (s : Sel) (o : OrderBy) (d : List (Str × PyQ.Val)) (ct ts : PyQ.Val) (hct : truthy ct = false)
    (g : Good sr sch d s o) :
    ∃ d' ts', distinctX (qIface sch P fnRec (cm3 sch P fnRec cm cv) cv) (srObj clsV (clauseV sr sch s.clause) (.dict d) ct ts)
        = .ret (srObj clsV (clauseV sr sch s.clause) (.dict d') ct ts') ∧ Good sr sch d' s.dist o :=
  distinct_rep sr sch P fnRec cm cv dbn hdb s o d ct ts hct g

/-- **`sum / min / max / avg` → plan text about the translated chain** (`accumulateOne`, `accumulateMany`,
    `_getConnection` resolved by the translated callees: `cmOne`): `accumulate` is handed exactly the text of the item
    of `aggPlan` of the represented select — the SQL function of the method, DISTINCT exactly for a distinct select. -/
theorem C11_translated_sum_plan_text (cl ct ts : PyQ.Val) (d : List (Str × PyQ.Val)) (s : Sel) (hrep : Rep sr sch cl d s)
    (hc : truthyOpt d kConnection = false)
    (hsr : ∀ cm a, methodOf (qIface sch P fnRec cm cv) P.conn "sqlrepr" [a] [] = .ok (.str (P.sqlrepr a)))
    (t : Term) :
    sumX (qIface sch P fnRec (cmOne sch P fnRec cm cv) cv) (srObj clsV cl (.dict d) ct ts) (termArgV sch t)
        = aggAcc sch P cm .sum s t (srObj clsV cl (.dict d) ct ts)
    ∧ minX (qIface sch P fnRec (cmOne sch P fnRec cm cv) cv) (srObj clsV cl (.dict d) ct ts) (termArgV sch t)
        = aggAcc sch P cm .min s t (srObj clsV cl (.dict d) ct ts)
    ∧ maxX (qIface sch P fnRec (cmOne sch P fnRec cm cv) cv) (srObj clsV cl (.dict d) ct ts) (termArgV sch t)
        = aggAcc sch P cm .max s t (srObj clsV cl (.dict d) ct ts)
    ∧ avgX (qIface sch P fnRec (cmOne sch P fnRec cm cv) cv) (srObj clsV cl (.dict d) ct ts) (termArgV sch t)
        = aggAcc sch P cm .avg s t (srObj clsV cl (.dict d) ct ts) :=
  sum_plan_text sr sch P fnRec cm cv cl ct ts d s hrep hc hsr t

/-! ### third batch: `queryForSelect`, the `orderBy` chain -/

/-- **`queryForSelect` as translated**: the `Select` it builds gets the columns `T.q.id, T.q.<name>…`, `where=` the
    clause, `join / distinct / lazyColumns / start / end / forUpdate` from `ops` (with their defaults), `orderBy=` the
    munged `ops['dbOrderBy']`, `reversed=`, `staticTables=self.tables`.  (`Select.__init__` / `__sqlrepr__` themselves:
    proved about the translated source in the PySel embedding of C03, `Props/C03.lean`.) -/
theorem C11_translated_queryForSelect_eq_model (cl ct ts : PyQ.Val) (d : List (Str × PyQ.Val)) :
    queryForSelectX (qIface sch P fnRec cm cv) (srObj clsV cl (.dict d) ct ts) =
      ofR (fnRec "Select" [columnsV sch] (selectKw cl ts d)) :=
  queryForSelect_translated sch P fnRec cm cv cl ct ts d

/-- … and these arguments ARE the hand model's plan `queryForSelect s` of the represented select: its WHERE clause, its
    ORDER BY expressions and `reversed` flag (which the translated ORDER BY statement renders as `orderKeys s`,
    `C11_translated_orderBy_text_eq_model`), its DISTINCT flag, all columns as items — so the plan the model
    evaluates is what the translated code hands to `sqlrepr`. -/
theorem C11_translated_queryForSelect_plan (cl ts : PyQ.Val) (d : List (Str × PyQ.Val)) (s : Sel) (hrep : Rep sr sch cl d s) :
    aget kWhere (selectKw cl ts d) = some (clauseV sr sch (queryForSelect s).where_)
    ∧ aget kOrderBy (selectKw cl ts d) = some (DbOrder.toVal sch s.order)
    ∧ truthyOpt (selectKw cl ts d) kReversed = s.reversed
    ∧ truthyOpt (selectKw cl ts d) kDistinct = (queryForSelect s).distinct
    ∧ (queryForSelect s).order = orderKeys s ∧ (queryForSelect s).items = .columns :=
  queryForSelect_rep sr sch cl ts d s hrep

/-- **`orderBy(o')` → `clone` → `__init__` about the translated chain**: the object built represents `Sel.orderBy`
    (the last `orderBy` wins, flags and clause kept); `Good` is kept. -/
theorem C11_translated_orderBy_rep (dbn : PyQ.Val)
    (hdb : ∀ cm, attrOf (qIface sch P fnRec cm cv) P.conn "dbName" = .ok dbn)
    (s : Sel) (o o' : OrderBy) (d : List (Str × PyQ.Val)) (ct ts : PyQ.Val) (hct : truthy ct = false)
    (g : Good sr sch d s o) :
    ∃ d' ts', orderByX (qIface sch P fnRec (cm3 sch P fnRec cm cv) cv) (srObj clsV (clauseV sr sch s.clause) (.dict d) ct ts)
        (OrderBy.toVal sch o') = .ret (srObj clsV (clauseV sr sch s.clause) (.dict d') ct ts') ∧
      Good sr sch d' (s.orderBy sch o') o' :=
  orderBy_rep sr sch P fnRec cv cm dbn hdb s o o' d ct ts hct g

/-- `_SO_fetchAlternateID` as translated, unique-index branch (`idxName` given): when `_findAlternateID` finds no row
    the outcome is `SQLObjectNotFound` — never `None`, never an error of the message loop — for every number of index
    columns (names and values of the same length). -/
theorem C11_translated_fetchAlternateID_idx_notfound (ns : List Str) (vs : List PyQ.Val) (hlen : vs.length = ns.length)
    (idx : Str) (dbName connection result obj : PyQ.Val) (hres : truthy result = false)
    (hfind : cm clsV "_findAlternateID" [.tuple (ns.map .str), dbName, .tuple vs, connection] [] = .ok (.tuple [result, obj])) :
    fetchAlternateIDX (qIface sch P fnRec cm cv) clsV (.tuple (ns.map .str)) dbName (.tuple vs) connection (.str idx) =
      .exc .notFound :=
  fetchAlternateID_idx_miss sch P fnRec cm cv ns vs hlen idx dbName connection result obj hres hfind

end X

/-! ## Non-vacuity of the translated family: the interpreter RUN on concrete inputs (kernel evaluation) -/

namespace XEx
open SqlObjVerif.PyQ SqlObjVerif.QueryX

/-- concrete library / database parameters -/
def P0 : Params :=
  { conn := .obj "Connection" [("dbName", .str ['s', 'q', 'l', 'i', 't', 'e'])]
    tablesUsed := fun _ _ => [], setAdd := fun _ _ => [], listOf := fun _ => [], repr := fun _ => []
    sqlrepr := fun v => match v with
      | .obj _ ((_, .str n) :: _) => ['t', '.'] ++ n
      | .str s => s
      | .none => ['N', 'U', 'L', 'L']
      | .int _ => ['7']
      | _ => ['?']
    fmt := fun _ => none }

def fn0 : String → List PyQ.Val → List (Str × PyQ.Val) → R PyQ.Val := fun _ _ _ => .stuck
def cmConn : PyQ.Val → String → List PyQ.Val → List (Str × PyQ.Val) → R PyQ.Val := fun _ m args _ =>
  if m = "sqlrepr" then (match args with
    | [v] => .ok (.str (P0.sqlrepr v))
    | _ => .stuck) else .stuck
def cv0 : PyQ.Val → List PyQ.Val → R PyQ.Val := fun f args => match f, args with
  | .glob _, [v] => .ok (descV v)
  | _, _ => .stuck

def I0 : Iface := qIface exSch P0 fn0 cmConn cv0
def I3 : Iface := qIface exSch P0 fn0 (cm3 exSch P0 fn0 cmConn cv0) cv0

def opsOf : Option PyQ.Val → Option (List (Str × PyQ.Val))
  | some (.obj _ fs) => match aget "ops" fs with
    | some (.dict d) => some d
    | _ => none
  | _ => none

def retOf : Out → Option PyQ.Val
  | .ret v => some v
  | _ => none

/-- `_mungeOrderBy('-a')` = `DESC(T.q.a)`, `_mungeOrderBy('-zz')` = `DESC(SQLConstant('zz'))` -/
example : mungeX I0 (.obj "SelectResults" [("sourceClass", clsV)]) (.str ['-', 'a']) = .ret (descV (fieldV ['a'])) := rfl
example : mungeX I0 (.obj "SelectResults" [("sourceClass", clsV)]) (.str ['-', 'z', 'z']) = .ret (descV (constV (.str ['z', 'z']))) := rfl

def ops1 : List (Str × PyQ.Val) :=
  [(kOrderBy, .tuple [.str ['-', 'a'], .str ['b', 'V']]), (kLimit, .none), (kReversed, .bool false), (kDistinct, .bool false),
   (kConnection, .none)]

/-- the translated `__init__` (with the translated `_mungeOrderBy` / `_getConnection`) on `select(orderBy=('-a','bV'))` -/
def sel1 : Out × Option PyQ.Val := initX (qIface exSch P0 fn0 (cm1 exSch P0 fn0 cmConn cv0) cv0) clsV .none .none ops1

example : (opsOf sel1.2).bind (aget kDbOrderBy) = some (.list [descV (fieldV ['a']), fieldV ['b', 'V']]) := rfl
example : (opsOf sel1.2).bind (aget kConnection) = none := rfl

/-- a full chain: `select(…).reversed().distinct()` through `clone` and `__init__`, all translated -/
def sel2 : Option PyQ.Val := (sel1.2.bind fun o => retOf (reversedX I3 o)).bind fun o => retOf (distinctX I3 o)

example : ((opsOf sel2).bind (aget kReversed), (opsOf sel2).bind (aget kDistinct)).1 = some (.bool true) := rfl
example : (opsOf sel2).bind (aget kDistinct) = some (.bool true) := rfl
example : (opsOf sel2).bind (aget kDbOrderBy) = some (.list [descV (fieldV ['a']), fieldV ['b', 'V']]) := rfl

/-- the ORDER BY text of a reversed select over `[DESC(a), bV]`: the reverser wraps every key, DESC of DESC cancels -/
example : orderByReprX (qIface exSch P0 (sqlreprFn exSch P0 cmConn cv0 6) cmConn cv0)
    (selObj [(kOrderBy, .list [descV (fieldV ['a']), fieldV ['b', 'V']]), (kReversed, .bool true)]) (.str ['s', 'q']) ['S'] =
    .ret (.str (['S'] ++ " ORDER BY t.a, t.bV DESC".toList)) := rfl

/-- the keyword clause of `selectBy(a=7, fk=None)` and the TypeError of an unexpected keyword -/
example : columnClauseX I0 (.glob "conn") clsV (kwV [(['a'], .int 7), (['f', 'k'], .none)]) =
    .ret (.str "a = 7 AND fk_id IS NULL".toList) := rfl
example : columnClauseX I0 (.glob "conn") clsV (kwV [(['a'], .int 7), (['z'], .none)]) = .exc .typeError := rfl

/-- `AND(c1, c2, c3)` by the translated function calling itself -/
example : andX (qIface exSch P0 (naryFn exSch P0 cmConn cv0 3) cmConn cv0) [.int 1, .int 2, .int 3] =
    .ret (sqlOpV ['A', 'N', 'D'] (.int 1) (sqlOpV ['A', 'N', 'D'] (.int 2) (.int 3))) := rfl

/-- the hypotheses of the chain theorems are satisfiable: `NoClash` of the example schema -/
example : NoClash exSch := by unfold NoClash; decide
end XEx

end SqlObjVerif.Query
