import SqlObjVerif.Lemmas.Query
namespace SqlObjVerif.Query

theorem C11_reversed_involutive (s : Sel) : s.rev.rev = s := by
  cases s; simp [Sel.rev]

end SqlObjVerif.Query
