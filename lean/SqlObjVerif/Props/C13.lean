import SqlObjVerif.Lemmas.Joins
/-!
# C13 — join accessors always mirror the stored relation

Property theorems only.  The statements hold for *every* database state `db`, hence after every history of
fk-assign / add / remove / create / destroy; the per-operation theorems say how each operation moves the
stored relation (and therefore every accessor).
-/
namespace SqlObjVerif.Joins
open SqlObjVerif.Graph

/-- **doSort**: for every list, every `orderBy` list (any length, `-` prefixes, `None` values): the result is a
    permutation of the input, sorted by the first key with ties broken by the following keys in order, and
    elements tying on all keys keep their input order (`R` = any relation the input was ordered by). -/
theorem C13_doSort_sorted_perm (val : α → Nat → Option Int) (R : α → α → Prop) (ks : List SortKey) (l : List α)
    (hR : l.Pairwise R) :
    (doSort val ks l).Perm l ∧ (doSort val ks l).Pairwise (lexLE val R ks) := by
  refine ⟨doSort_perm val ks l, ?_⟩
  induction ks with
  | nil => exact hR
  | cons k ks ih =>
    exact insSort_pairwise (leKey_total val k) (leKey_trans val k) _ ih

/-- one-to-many accessors return exactly the rows whose foreign key points at the owner -/
theorem C13_referrers_eq_relation (db : DB) (k f owner j : Nat) :
    j ∈ referrers db k f owner ↔ ∃ r ∈ db.rows, r.cls = k ∧ r.id = j ∧ r.val f = some owner := by
  simp only [referrers, List.mem_map, List.mem_filter, Bool.and_eq_true, beq_iff_eq]
  constructor
  · rintro ⟨r, ⟨hr, hk, hv⟩, rfl⟩; exact ⟨r, hr, hk, rfl, hv⟩
  · rintro ⟨r, hr, hk, rfl, hv⟩; exact ⟨r, ⟨hr, hk, hv⟩, rfl⟩

/-- … in the join's ordering, each as often as it occurs (`MultipleJoin` with `orderBy`) -/
theorem C13_accessor_eq_relation (val : Nat → Nat → Option Int) (db : DB) (k f owner : Nat) (ks : List SortKey) :
    (multipleJoin val db k f ks owner).Perm (referrers db k f owner) ∧
    (multipleJoin val db k f ks owner).Pairwise (lexLE val (fun _ _ => True) ks) ∧
    (∀ j, j ∈ multipleJoin val db k f ks owner ↔ ∃ r ∈ db.rows, r.cls = k ∧ r.id = j ∧ r.val f = some owner) := by
  have hp := C13_doSort_sorted_perm val (fun _ _ => True) ks (referrers db k f owner)
    (List.pairwise_of_forall (fun _ _ => trivial))
  exact ⟨hp.1, hp.2, fun j => (hp.1.mem_iff).trans (C13_referrers_eq_relation db k f owner j)⟩

/-- the single-join accessor: `None` iff nothing references the owner, else the first referencing row -/
theorem C13_single_spec (db : DB) (k f owner : Nat) :
    (single db k f owner = none ↔ ∀ r ∈ db.rows, ¬ (r.cls = k ∧ r.val f = some owner)) ∧
    (∀ j, single db k f owner = some j → ∃ r ∈ db.rows, r.cls = k ∧ r.id = j ∧ r.val f = some owner) := by
  constructor
  · simp only [single, List.head?_eq_none_iff, referrers, List.map_eq_nil_iff, List.filter_eq_nil_iff,
      Bool.and_eq_true, beq_iff_eq]
  · intro j hj
    exact (C13_referrers_eq_relation db k f owner j).mp (List.mem_of_mem_head? hj)

/-- many-to-many: `b` is among `a`'s partners exactly as often as `a` is among `b`'s (both sides read the same
    table with the columns swapped) — for every state, so after every history, self-referential joins
    (`a` and `b` of one class, declared from both sides) included -/
theorem C13_related_symmetric (db : DB) (t a b : Nat) :
    (related db t true a).count b = (related db t false b).count a := by
  simp only [related_def, Link.col, Bool.not_true, Bool.not_false, Bool.false_eq_true, if_false, if_true]
  generalize db.links = ls
  induction ls with
  | nil => rfl
  | cons l ls ih =>
    simp only [List.filter_cons]
    by_cases h1 : l.table = t <;> by_cases h2 : l.a = a <;> by_cases h3 : l.b = b <;>
      simp [h1, h2, h3, ih]

theorem C13_related_symmetric_mem (db : DB) (t a b : Nat) :
    b ∈ related db t true a ↔ a ∈ related db t false b := by
  rw [← List.count_pos_iff, ← List.count_pos_iff, C13_related_symmetric]

/-- `add` from either side appends one partner on this side and one on the other side (twice = two entries) -/
theorem C13_add_spec (db : DB) (t : Nat) (s : Bool) (a b : Nat) (s' : Bool) (o : Nat) :
    related (addLink db t s a b) t s' o =
      related db t s' o ++ (if s' = s then (if o = a then [b] else []) else (if o = b then [a] else [])) := by
  cases s <;> cases s' <;> by_cases h1 : o = a <;> by_cases h2 : o = b <;>
    simp [related_def, addLink_def, List.filter_append, Link.col, h1, h2, List.filter_cons] <;> grind

/-- `remove` from either side deletes every entry of the pair, on both sides, and nothing else -/
theorem C13_remove_spec (db : DB) (t : Nat) (s : Bool) (a b : Nat) (s' : Bool) (o : Nat) :
    related (removeLink db t s a b) t s' o =
      (related db t s' o).filter fun x => !(if s' = s then (o == a && x == b) else (o == b && x == a)) := by
  simp only [related_def, removeLink_def, List.filter_filter, List.filter_map]
  congr 1
  apply List.filter_congr
  intro l _
  cases s <;> cases s' <;> simp [Link.col] <;> grind

/-- other link tables are not affected by add / remove -/
theorem C13_add_remove_frame (db : DB) (t t' : Nat) (s s' : Bool) (a b o : Nat) (h : t' ≠ t) :
    related (addLink db t s a b) t' s' o = related db t' s' o ∧
    related (removeLink db t s a b) t' s' o = related db t' s' o := by
  constructor
  · cases s <;> simp [related_def, addLink_def, List.filter_append, Ne.symm h]
  · simp only [related_def, removeLink_def, List.filter_filter]
    congr 1
    apply List.filter_congr
    intro l _
    by_cases hl : l.table = t' <;> simp [hl, h]

/-- the new-style `ManyToMany` accessor and its wrapper's `add` / `remove` (read from their own source:
    `SOManyToMany.__get__`, `_ManyToManySelectWrapper`) are the same link-table statements as `RelatedJoin`'s, so
    every theorem above about `related` / `addLink` / `removeLink` — symmetry with multiplicity, self-referential
    joins included — holds for them verbatim -/
theorem C13_manyToMany_eq_related : manyToMany = related ∧ m2mAdd = addLink ∧ m2mRemove = removeLink :=
  ⟨rfl, rfl, rfl⟩

theorem C13_manyToMany_symmetric (db : DB) (t a b : Nat) :
    (manyToMany db t true a).count b = (manyToMany db t false b).count a := by
  rw [C13_manyToMany_eq_related.1]; exact C13_related_symmetric db t a b

/-- list- and query-flavoured joins agree: whatever order the query flavour's `ORDER BY` produces (any sorted
    permutation of the same relation) equals the list flavour's result whenever the keys separate the objects;
    in general both are sorted permutations of the same relation (`C13_accessor_eq_relation`). -/
theorem C13_list_query_agree (val : Nat → Nat → Option Int) (db : DB) (k f owner : Nat) (ks : List SortKey)
    (q : List Nat) (hq : q.Perm (referrers db k f owner)) (hs : q.Pairwise (lexLE val (fun _ _ => True) ks))
    (hsep : ∀ a b, lexLE val (fun _ _ => True) ks a b → lexLE val (fun _ _ => True) ks b a → a = b) :
    q = multipleJoin val db k f ks owner := by
  obtain ⟨h1, h2, _⟩ := C13_accessor_eq_relation val db k f owner ks
  exact List.Perm.eq_of_pairwise (fun a b _ _ => hsep a b) hs h2 (hq.trans h1.symm)

/-- both sides of a many-to-many compute the same default link-table name … -/
theorem C13_intermediate_name_symmetric (a b : List Nat) : interName a b = interName b a := by
  unfold interName
  by_cases h1 : strLt b a = true <;> by_cases h2 : strLt a b = true
  · exfalso
    induction a generalizing b with
    | nil => cases b <;> simp [strLt] at h1
    | cons x xs ih =>
      cases b with
      | nil => simp [strLt] at h2
      | cons y ys =>
        simp only [strLt] at h1 h2
        by_cases hxy : x < y <;> by_cases hyx : y < x <;> simp [hxy, hyx] at h1 h2 <;> first | omega | exact ih ys h1 h2
  · simp [h1, h2]
  · simp [h1, h2]
  · -- neither is smaller: the names are equal
    have : a = b := by
      induction a generalizing b with
      | nil => cases b <;> simp_all [strLt]
      | cons x xs ih =>
        cases b with
        | nil => simp [strLt] at h1
        | cons y ys =>
          simp only [strLt] at h1 h2
          by_cases hxy : x < y <;> by_cases hyx : y < x <;> simp [hxy, hyx] at h1 h2
          have : x = y := by omega
          subst this
          rw [ih ys (by simpa using h1) (by simpa using h2)]
    subst this
    rfl

/-- … and the same two column names, swapped -/
theorem C13_default_columns_swapped (a b : List Nat) : defaultCols a b = (defaultCols b a).swap := rfl

/-! ### Non-vacuity -/
example : doSort (fun (x : Nat) a => [[some 2, some 1], [some 1, some 2], [none, some 0], [some 1, some 1], [some 2, some 0], [some 1, none]].getD x [] |>.getD a none)
    [⟨0, false⟩, ⟨1, false⟩] [0, 1, 2, 3, 4, 5] = [2, 5, 3, 1, 4, 0] := by decide
example : doSort (fun (x : Nat) a => [[some 2], [some 1], [none], [some 1], [some 2], [some 1]].getD x [] |>.getD a none)
    [⟨0, true⟩] [0, 1, 2, 3, 4, 5] = [0, 4, 1, 3, 5, 2] := by decide
example : related (addLink (addLink ⟨[], [], []⟩ 0 true 1 2) 0 false 2 1) 0 true 1 = [2, 2] := by decide
example : related (removeLink (addLink (addLink ⟨[], [], []⟩ 0 true 1 2) 0 false 2 1) 0 false 2 1) 0 true 1 = [] := by decide

end SqlObjVerif.Joins
