import SqlObjVerif.Lemmas.Joins
import SqlObjVerif.Lemmas.JoinsXAcc
import SqlObjVerif.Lemmas.JoinsXNew
/-!
# C13 — join accessors always mirror the stored relation

Property theorems only.  The statements hold for *every* database state `db`, hence after every history of
fk-assign / add / remove / create / destroy; the per-operation theorems say how each operation moves the
stored relation (and therefore every accessor).
-/
namespace SqlObjVerif.Joins
open SqlObjVerif.Graph

/-- **doSort**: for every list, every `orderBy` list (any length, `-` prefixes, `None` values): the result is a
    permutation of the input, sorted by the first key with ties broken by the following keys in order, and
    elements tying on all keys keep their input order (`R` = any relation the input was ordered by). -/
theorem C13_doSort_sorted_perm (val : α → Nat → Option Int) (R : α → α → Prop) (ks : List SortKey) (l : List α)
    (hR : l.Pairwise R) :
    (doSort val ks l).Perm l ∧ (doSort val ks l).Pairwise (lexLE val R ks) := by
  refine ⟨doSort_perm val ks l, ?_⟩
  induction ks with
  | nil => exact hR
  | cons k ks ih =>
    exact insSort_pairwise (leKey_total val k) (leKey_trans val k) _ ih

/-- one-to-many accessors return exactly the rows whose foreign key points at the owner -/
theorem C13_referrers_eq_relation (db : DB) (k f owner j : Nat) :
    j ∈ referrers db k f owner ↔ ∃ r ∈ db.rows, r.cls = k ∧ r.id = j ∧ r.val f = some owner := by
  simp only [referrers, List.mem_map, List.mem_filter, Bool.and_eq_true, beq_iff_eq]
  constructor
  · rintro ⟨r, ⟨hr, hk, hv⟩, rfl⟩; exact ⟨r, hr, hk, rfl, hv⟩
  · rintro ⟨r, hr, hk, rfl, hv⟩; exact ⟨r, ⟨hr, hk, hv⟩, rfl⟩

/-- … in the join's ordering, each as often as it occurs (`MultipleJoin` with `orderBy`) -/
theorem C13_accessor_eq_relation (val : Nat → Nat → Option Int) (db : DB) (k f owner : Nat) (ks : List SortKey) :
    (multipleJoin val db k f ks owner).Perm (referrers db k f owner) ∧
    (multipleJoin val db k f ks owner).Pairwise (lexLE val (fun _ _ => True) ks) ∧
    (∀ j, j ∈ multipleJoin val db k f ks owner ↔ ∃ r ∈ db.rows, r.cls = k ∧ r.id = j ∧ r.val f = some owner) := by
  have hp := C13_doSort_sorted_perm val (fun _ _ => True) ks (referrers db k f owner)
    (List.pairwise_of_forall (fun _ _ => trivial))
  exact ⟨hp.1, hp.2, fun j => (hp.1.mem_iff).trans (C13_referrers_eq_relation db k f owner j)⟩

/-- the single-join accessor: `None` iff nothing references the owner, else the first referencing row -/
theorem C13_single_spec (db : DB) (k f owner : Nat) :
    (single db k f owner = none ↔ ∀ r ∈ db.rows, ¬ (r.cls = k ∧ r.val f = some owner)) ∧
    (∀ j, single db k f owner = some j → ∃ r ∈ db.rows, r.cls = k ∧ r.id = j ∧ r.val f = some owner) := by
  constructor
  · simp only [single, List.head?_eq_none_iff, referrers, List.map_eq_nil_iff, List.filter_eq_nil_iff,
      Bool.and_eq_true, beq_iff_eq]
  · intro j hj
    exact (C13_referrers_eq_relation db k f owner j).mp (List.mem_of_mem_head? hj)

/-- many-to-many: `b` is among `a`'s partners exactly as often as `a` is among `b`'s (both sides read the same
    table with the columns swapped) — for every state, so after every history, self-referential joins
    (`a` and `b` of one class, declared from both sides) included -/
theorem C13_related_symmetric (db : DB) (t a b : Nat) :
    (related db t true a).count b = (related db t false b).count a := by
  simp only [related_def, Link.col, Bool.not_true, Bool.not_false, Bool.false_eq_true, if_false, if_true]
  generalize db.links = ls
  induction ls with
  | nil => rfl
  | cons l ls ih =>
    simp only [List.filter_cons]
    by_cases h1 : l.table = t <;> by_cases h2 : l.a = a <;> by_cases h3 : l.b = b <;>
      simp [h1, h2, h3, ih]

theorem C13_related_symmetric_mem (db : DB) (t a b : Nat) :
    b ∈ related db t true a ↔ a ∈ related db t false b := by
  rw [← List.count_pos_iff, ← List.count_pos_iff, C13_related_symmetric]

/-- `add` from either side appends one partner on this side and one on the other side (twice = two entries) -/
theorem C13_add_spec (db : DB) (t : Nat) (s : Bool) (a b : Nat) (s' : Bool) (o : Nat) :
    related (addLink db t s a b) t s' o =
      related db t s' o ++ (if s' = s then (if o = a then [b] else []) else (if o = b then [a] else [])) := by
  cases s <;> cases s' <;> by_cases h1 : o = a <;> by_cases h2 : o = b <;>
    simp [related_def, addLink_def, List.filter_append, Link.col, h1, h2, List.filter_cons] <;> grind

/-- `remove` from either side deletes every entry of the pair, on both sides, and nothing else -/
theorem C13_remove_spec (db : DB) (t : Nat) (s : Bool) (a b : Nat) (s' : Bool) (o : Nat) :
    related (removeLink db t s a b) t s' o =
      (related db t s' o).filter fun x => !(if s' = s then (o == a && x == b) else (o == b && x == a)) := by
  simp only [related_def, removeLink_def, List.filter_filter, List.filter_map]
  congr 1
  apply List.filter_congr
  intro l _
  cases s <;> cases s' <;> simp [Link.col] <;> grind

/-- other link tables are not affected by add / remove -/
theorem C13_add_remove_frame (db : DB) (t t' : Nat) (s s' : Bool) (a b o : Nat) (h : t' ≠ t) :
    related (addLink db t s a b) t' s' o = related db t' s' o ∧
    related (removeLink db t s a b) t' s' o = related db t' s' o := by
  constructor
  · cases s <;> simp [related_def, addLink_def, List.filter_append, Ne.symm h]
  · simp only [related_def, removeLink_def, List.filter_filter]
    congr 1
    apply List.filter_congr
    intro l _
    by_cases hl : l.table = t' <;> simp [hl, h]

/-- the new-style `ManyToMany` accessor and its wrapper's `add` / `remove` (read from their own source:
    `SOManyToMany.__get__`, `_ManyToManySelectWrapper`) are the same link-table statements as `RelatedJoin`'s, so
    every theorem above about `related` / `addLink` / `removeLink` — symmetry with multiplicity, self-referential
    joins included — holds for them verbatim -/
theorem C13_manyToMany_eq_related : manyToMany = related ∧ m2mAdd = addLink ∧ m2mRemove = removeLink :=
  ⟨rfl, rfl, rfl⟩

theorem C13_manyToMany_symmetric (db : DB) (t a b : Nat) :
    (manyToMany db t true a).count b = (manyToMany db t false b).count a := by
  rw [C13_manyToMany_eq_related.1]; exact C13_related_symmetric db t a b

/-- list- and query-flavoured joins agree: whatever order the query flavour's `ORDER BY` produces (any sorted
    permutation of the same relation) equals the list flavour's result whenever the keys separate the objects;
    in general both are sorted permutations of the same relation (`C13_accessor_eq_relation`). -/
theorem C13_list_query_agree (val : Nat → Nat → Option Int) (db : DB) (k f owner : Nat) (ks : List SortKey)
    (q : List Nat) (hq : q.Perm (referrers db k f owner)) (hs : q.Pairwise (lexLE val (fun _ _ => True) ks))
    (hsep : ∀ a b, lexLE val (fun _ _ => True) ks a b → lexLE val (fun _ _ => True) ks b a → a = b) :
    q = multipleJoin val db k f ks owner := by
  obtain ⟨h1, h2, _⟩ := C13_accessor_eq_relation val db k f owner ks
  exact List.Perm.eq_of_pairwise (fun a b _ _ => hsep a b) hs h2 (hq.trans h1.symm)

/-- both sides of a many-to-many compute the same default link-table name … -/
theorem C13_intermediate_name_symmetric (a b : List Nat) : interName a b = interName b a := by
  unfold interName
  by_cases h1 : strLt b a = true <;> by_cases h2 : strLt a b = true
  · exfalso
    induction a generalizing b with
    | nil => cases b <;> simp [strLt] at h1
    | cons x xs ih =>
      cases b with
      | nil => simp [strLt] at h2
      | cons y ys =>
        simp only [strLt] at h1 h2
        by_cases hxy : x < y <;> by_cases hyx : y < x <;> simp [hxy, hyx] at h1 h2 <;> first | omega | exact ih ys h1 h2
  · simp [h1, h2]
  · simp [h1, h2]
  · -- neither is smaller: the names are equal
    have : a = b := by
      induction a generalizing b with
      | nil => cases b <;> simp_all [strLt]
      | cons x xs ih =>
        cases b with
        | nil => simp [strLt] at h1
        | cons y ys =>
          simp only [strLt] at h1 h2
          by_cases hxy : x < y <;> by_cases hyx : y < x <;> simp [hxy, hyx] at h1 h2
          have : x = y := by omega
          subst this
          rw [ih ys (by simpa using h1) (by simpa using h2)]
    subst this
    rfl

/-- … and the same two column names, swapped -/
theorem C13_default_columns_swapped (a b : List Nat) : defaultCols a b = (defaultCols b a).swap := rfl

/-! ### Non-vacuity -/
example : doSort (fun (x : Nat) a => [[some 2, some 1], [some 1, some 2], [none, some 0], [some 1, some 1], [some 2, some 0], [some 1, none]].getD x [] |>.getD a none)
    [⟨0, false⟩, ⟨1, false⟩] [0, 1, 2, 3, 4, 5] = [2, 5, 3, 1, 4, 0] := by decide
example : doSort (fun (x : Nat) a => [[some 2], [some 1], [none], [some 1], [some 2], [some 1]].getD x [] |>.getD a none)
    [⟨0, true⟩] [0, 1, 2, 3, 4, 5] = [0, 4, 1, 3, 5, 2] := by decide
example : related (addLink (addLink ⟨[], [], []⟩ 0 true 1 2) 0 false 2 1) 0 true 1 = [2, 2] := by decide
example : related (removeLink (addLink (addLink ⟨[], [], []⟩ 0 true 1 2) 0 false 2 1) 0 false 2 1) 0 true 1 = [] := by decide

/-! ## The join accessors as TRANSLATED from `joins.py` compute the hand model's functions

`vlib/extractors/pyjoins.py` translates `doSort`, `getID`, `SOJoin._applyOrderBy`, `SOMultipleJoin.performJoin`,
`SORelatedJoin.performJoin/add/remove`, `SOSingleJoin.performJoin` from /repo's AST on every run
(`Extracted/PyJoins.lean`); `Model/JoinsX.lean` runs them with the reference semantics of `Model/PyJoins.lean` on the hand
model's state (its header lists the assumed interface).  `P.C = modelConn`: the connection answers the link-table /
foreign-key statements as the hand model does (the statement templates are extracted by `vlib/extractors/graph.py`).
`hnm`: no attribute name starts with `-`.  `n`: how many nested `doSort` calls are allowed (any large enough number). -/
open SqlObjVerif.PyJoins (Heap)


theorem C13_translated_doSort_eq_model (P : Params) (hnm : ∀ a, (P.nm a).head? ≠ some '-') (v : PVal) (ks : List SortKey)
    (h : Denotes P.nm v ks) : ∃ n0, ∀ n, n0 ≤ n → ∀ (db : DB) (heap : Heap Hnd) (r c : Nat) (l : List Nat),
      heap.cells r = some (instList c l) →
      doSortN P n db heap [.ref r, v] = .ret db (heap.set r (instList c (doSort (valOf P) ks l))) .none :=
  doSortN_denotes P hnm h

theorem C13_translated_doSort_names_eq_model (P : Params) (hnm : ∀ a, (P.nm a).head? ≠ some '-') (k : SortKey) (ks : List SortKey) :
    ∃ n0, ∀ n, n0 ≤ n → ∀ (db : DB) (heap : Heap Hnd) (r c : Nat) (l : List Nat), heap.cells r = some (instList c l) →
      doSortN P n db heap [.ref r, keysVal P.nm (k :: ks)] = .ret db (heap.set r (instList c (doSort (valOf P) (k :: ks) l))) .none :=
  doSortN_denotes P hnm (keysVal_denotes P.nm k ks)

theorem C13_translated_multipleJoin_eq_model (P : Params) (hnm : ∀ a, (P.nm a).head? ≠ some '-') (hC : P.C = modelConn)
    (ks : List SortKey) (hob : ObDenotes P.nm P.D.orderBy ks) : ∃ n0, ∀ n, n0 ≤ n → ∀ (db : DB) (k j : Nat),
      resultIds (multiplePerformJoinX P n db k j) =
        some (db, instList P.D.other (multipleJoin (valOf P) db P.D.other P.D.fkcol ks j)) := by
  obtain ⟨n0, h⟩ := multiplePerformJoinX_eq P hnm ks hob
  refine ⟨n0, fun n hn db k j => ?_⟩
  rw [h n hn db k j, hC]
  simp [modelConn, multipleJoin]

theorem C13_translated_relatedJoin_eq_model (P : Params) (hnm : ∀ a, (P.nm a).head? ≠ some '-') (hC : P.C = modelConn)
    (ks : List SortKey) (hob : ObDenotes P.nm P.D.orderBy ks) : ∃ n0, ∀ n, n0 ≤ n → ∀ (db : DB) (k j : Nat),
      resultIds (relatedPerformJoinX P n db k j) =
        some (db, instList P.D.other (relatedJoin (valOf P) db P.D.table P.D.ownFirst ks j)) := by
  obtain ⟨n0, h⟩ := relatedPerformJoinX_eq P hnm ks hob
  refine ⟨n0, fun n hn db k j => ?_⟩
  rw [h n hn db k j, hC]
  simp [modelConn, relatedJoin, related_def]

theorem C13_translated_add_eq_model (P : Params) (hC : P.C = modelConn) (db : DB) (k j : Nat) (other : PVal) (j' : Nat)
    (ho : IsId other j') :
    relatedAddX P db (.obj (.inst k j)) other = .ret (addLink db P.D.table P.D.ownFirst j j') Heap.empty .none := by
  rw [relatedAddX_eq P db k j other j' ho, hC, addLink_def]
  rfl

theorem C13_translated_remove_eq_model (P : Params) (hC : P.C = modelConn) (db : DB) (k j : Nat) (other : PVal) (j' : Nat)
    (ho : IsId other j') :
    relatedRemoveX P db (.obj (.inst k j)) other = .ret (removeLink db P.D.table P.D.ownFirst j j') Heap.empty .none := by
  rw [relatedRemoveX_eq P db k j other j' ho, hC, removeLink_def]
  rfl

theorem C13_translated_single_eq_model (P : Params) (hC : P.C = modelConn) (hmd : P.D.makeDefault = false) (db : DB) (k j : Nat) :
    singlePerformJoinX P db k j = .ret db Heap.empty
      (match single db P.D.other P.D.fkcol j with
       | some i => .obj (.inst P.D.other i)
       | none => .none) := by
  rw [singlePerformJoinX_eq, hC, hmd]
  simp only [modelConn, single, List.filterMap_map, Function.comp_def, id, List.filterMap_some]
  cases (referrers db P.D.other P.D.fkcol j).head? <;> simp

theorem C13_translated_single_makeDefault (P : Params) (hmd : P.D.makeDefault = true) (db : DB) (k j : Nat)
    (hn : (P.C.selectJoin db P.D.other P.D.fkcol j).filterMap id = []) :
    singlePerformJoinX P db k j =
      .ret (P.C.create db P.D.other P.D.fkcol j).1 Heap.empty (.obj (.inst P.D.other (P.C.create db P.D.other P.D.fkcol j).2)) := by
  rw [singlePerformJoinX_eq, hn, hmd]
  rfl

theorem C13_translated_getID_eq_model (P : Params) (db : DB) (v : PVal) (j : Nat) (h : IsId v j) :
    getIDX P db v = .ok (.int j) := getIDX_isId P db v j h


/-- the query-flavoured `SOSQLMultipleJoin.performJoin`: it returns `otherClass.select(q.<key> == inst.id).orderBy(join.orderBy)`,
    and that select expression stands for exactly the model's `referrers` (which the database then orders) -/
theorem C13_translated_sqlMultipleJoin_eq_model (P : Params) (db : DB) (k j : Nat) :
    sqlMultiplePerformJoinX P db k j = .ret db Heap.empty
      (.app "orderBy" (.cons (.app "select" (.cons (.obj (.cls P.D.other)) (.cons (.obj (.col P.D.fkcol)) (.cons (.int j) .nil))))
        (.cons P.D.orderBy .nil))) ∧
    queryRows modelConn db (.app "select" (.cons (.obj (.cls P.D.other)) (.cons (.obj (.col P.D.fkcol)) (.cons (.int j) .nil)))) =
      some ((referrers db P.D.other P.D.fkcol j).map some) :=
  ⟨sqlMultiplePerformJoinX_eq P db k j, queryRows_sqlMultiple db _ _ _⟩

/-- new-style `ManyToMany.__get__`: the wrapper around a select whose rows are the model's `manyToMany` -/
theorem C13_translated_manyToMany_get_eq_model (P : Params) (db : DB) (k j : Nat) (ty : PVal) :
    m2mGetX P db (.obj (.inst k j)) ty = .ret db Heap.empty (m2mWrapper P k j) ∧
    queryRows modelConn db (.app "select" (.cons (.obj (.cls P.D.other))
        (.cons (m2mQuery P.D.other P.D.table (!P.D.ownFirst) P.D.ownFirst j) .nil))) =
      some ((manyToMany db P.D.table P.D.ownFirst j).map some) :=
  ⟨m2mGetX_eq P db k j ty, queryRows_m2m db _ _ _ _⟩

/-- new-style `OneToMany.__get__`: the wrapper around a select whose rows are the model's `referrers` -/
theorem C13_translated_oneToMany_get_eq_model (P : Params) (db : DB) (k j : Nat) (ty : PVal) :
    o2mGetX P db (.obj (.inst k j)) ty = .ret db Heap.empty
      (.app "O2MWrapper" (.cons (.obj (.inst k j)) (.cons (.obj .o2m) (.cons
        (.app "select" (.cons (.obj (.cls P.D.other)) (.cons (o2mQuery P.D.other P.D.fkcol j) .nil))) .nil)))) ∧
    queryRows modelConn db (.app "select" (.cons (.obj (.cls P.D.other)) (.cons (o2mQuery P.D.other P.D.fkcol j) .nil))) =
      some ((referrers db P.D.other P.D.fkcol j).map some) :=
  ⟨o2mGetX_eq P db k j ty, queryRows_o2m db _ _ _⟩

/-- the wrapper's `add` / `remove` are the model's `m2mAdd` / `m2mRemove` -/
theorem C13_translated_manyToMany_add_eq_model (P : Params) (hC : P.C = modelConn) (db : DB) (heap : Heap Hnd) (k j k' j' : Nat) :
    m2mAddX P (m2mWrapper P k j) db heap [.obj (.inst k' j')] = .ret (m2mAdd db P.D.table P.D.ownFirst j j') heap .none := by
  rw [m2mAddX_eq, hC, C13_manyToMany_eq_related.2.1, addLink_def]
  rfl

theorem C13_translated_manyToMany_remove_eq_model (P : Params) (hC : P.C = modelConn) (db : DB) (heap : Heap Hnd) (k j k' j' : Nat) :
    m2mRemoveX P (m2mWrapper P k j) db heap [.obj (.inst k' j')] = .ret (m2mRemove db P.D.table P.D.ownFirst j j') heap .none := by
  rw [m2mRemoveX_eq, hC, C13_manyToMany_eq_related.2.2, removeLink_def]
  rfl

/-- the wrapper's `create(**kw)`: the class constructor (a parameter), then the model's `m2mAdd` of the new instance -/
theorem C13_translated_manyToMany_create_eq_model (P : Params) (hC : P.C = modelConn) (db : DB) (k j : Nat) (kw : List (PVal × PVal)) :
    m2mCreateX P (m2mWrapper P k j) db kw =
      .ret (m2mAdd (modelConn.createKw db P.D.other kw).1 P.D.table P.D.ownFirst j (modelConn.createKw db P.D.other kw).2)
        Heap.empty (.obj (.inst P.D.other (modelConn.createKw db P.D.other kw).2)) := by
  rw [m2mCreateX_eq, hC, C13_manyToMany_eq_related.2.1, addLink_def]
  rfl


/-! ### Non-vacuity of the translated runs: concrete worlds, evaluated by the kernel -/
def exPval : Nat → List Char → Option Int := fun j s =>
  if s = ['x'] then [some 2, some 1, none, some 1, some 2, some 1].getD j none
  else if s = ['y'] then [some 1, some 2, some 0, some 1, some 0, none].getD j none else none
def exNm : Nat → List Char := fun a => if a = 0 then ['x'] else ['y']
def exDb : DB := ⟨[⟨0, 1, [some 7]⟩, ⟨0, 2, [some 7]⟩, ⟨0, 3, [none]⟩, ⟨0, 4, [some 7]⟩, ⟨1, 7, []⟩], [⟨0, 7, 4⟩, ⟨0, 7, 1⟩, ⟨0, 8, 1⟩], []⟩
def exP (ob : PVal) (md : Bool) : Params := ⟨exPval, exNm, ⟨1, 0, 0, 0, true, ob, md, false⟩, modelConn⟩

example : (∀ a, (exNm a).head? ≠ some '-') := by intro a; unfold exNm; split <;> decide
example : (match doSortN (exP .none false) 2 exDb (Heap.empty.alloc (instList 0 [0, 1, 2, 3, 4, 5]))
    [.ref 0, keysVal exNm [⟨0, false⟩, ⟨1, false⟩]] with
    | .ret _ heap _ => heap.cells 0 | _ => none) = some (instList 0 [2, 5, 3, 1, 4, 0]) := by decide
example : resultIds (multiplePerformJoinX (exP (.str ['-', 'x']) false) 1 exDb 1 7) = some (exDb, instList 0 [4, 1, 2]) := by decide
example : resultIds (relatedPerformJoinX (exP (.obj (.desc 0)) false) 1 exDb 1 7) = some (exDb, instList 0 [4, 1]) := by decide
example : (match relatedAddX (exP .none false) exDb (.obj (.inst 1 7)) (.int 9) with
    | .ret db _ _ => related db 0 true 7 | _ => []) = [4, 1, 9] := by decide
example : (match singlePerformJoinX (exP .none false) exDb 1 7 with | .ret _ _ v => some v | _ => none) = some (.obj (.inst 0 1)) := by decide
example : (match singlePerformJoinX (exP .none true) exDb 1 8 with
    | .ret db _ v => some (v, referrers db 0 0 8) | _ => none) = some (.obj (.inst 0 8), [8]) := by decide
example : Denotes exNm (PyJoins.Val.ofList [.obj (.fld 1), PyJoins.Val.ofList [.str ['-', 'x'], .str ['y']], .str ['x']])
    ([⟨1, false⟩] ++ (([⟨0, true⟩] ++ [⟨1, false⟩]) ++ [⟨0, false⟩])) :=
  .listN _ _ _ _ _ (.leaf _ _ (.fld 1))
    (.listN _ _ _ _ _ (.listN _ _ _ _ _ (.leaf _ _ (.str ⟨0, true⟩)) (.list1 _ _ (.str ⟨1, false⟩))) (.list1 _ _ (.str ⟨0, false⟩)))

end SqlObjVerif.Joins
