import SqlObjVerif.Model.Tx
namespace SqlObjVerif.Tx

/-- placeholder while the harness is brought up: an obsolete transaction ignores commit -/
theorem C07_obsolete_commit_noop (s : St) (close : Bool) (h : s.obsolete = true) :
    (step s (.commit close)).1 = s := by
  simp [step, opCommit, h]

end SqlObjVerif.Tx
