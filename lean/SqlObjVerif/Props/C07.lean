import SqlObjVerif.Lemmas.Tx
import SqlObjVerif.Model.TxLazy
import SqlObjVerif.Lemmas.TxXCommit
import SqlObjVerif.Lemmas.TxWF
/-!
# C07 — transactions: invisible until commit, visible after, erased by rollback, refused when finished

Property theorems only.  `step`/`run` are the model of `Model/Tx.lean`; every statement is for an arbitrary
model state `s` (no bound on the number of rows, instances, columns or earlier steps) or for every history.

* full strength, proved: `C07_isolation*`, `C07_commit_visible`, `C07_rollback_erases`,
  `C07_obsolete_refuses*`, `C07_parent_reads_committed`, `C07_select_shows_view`;
* full strength, FALSE of the code (replayed on the implementation by the harness):
  `C07_commit_no_stale_full_FALSE`, `C07_rollback_instances_full_FALSE`;
* `_partial`: the same statements for the histories inside the decidable class `good` (Lemmas/Tx.lean).
-/
namespace SqlObjVerif.Tx

/-! ## Isolation -/

/-- Nothing a transaction does short of `commit` — create, update, delete, select, get, expire, cull, rollback,
    begin — changes the committed database or anything on the parent side (its instances, their cached values,
    its cache). -/
theorem C07_isolation_step (s : St) (op : Op) (hT : op.side = .T) (hc : op.isCommit = false) :
    (step s op).1.db = s.db ∧ (step s op).1.p = s.p ∧ (step s op).1.dc = s.dc := by
  cases op <;> simp only [Op.side] at hT <;> (try subst hT) <;> simp only [Op.isCommit] at hc
  case create k row => simp only [step, opCreate]; (repeat' split) <;> exact ⟨rfl, rfl, rfl⟩
  case get k b => simp only [step, opGet]; (repeat' split) <;> exact ⟨rfl, rfl, rfl⟩
  case read j c => simp only [step, opRead]; (repeat' split) <;> exact ⟨rfl, rfl, rfl⟩
  case set j c v => simp only [step, opSet]; (repeat' split) <;> exact ⟨rfl, rfl, rfl⟩
  case destroy j => simp only [step, opDestroy]; (repeat' split) <;> exact ⟨rfl, rfl, rfl⟩
  case expire j => simp only [step, opExpire]; (repeat' split) <;> exact ⟨rfl, rfl, rfl⟩
  case select cls =>
    simp only [step, opSelect]
    split
    · exact ⟨rfl, rfl, rfl⟩
    · exact ⟨(selFold_frame .T _ _).1, selFold_T_p _ _, (selFold_frame .T _ _).2.1⟩
  case drop j => simp only [step, opDrop]; (repeat' split) <;> exact ⟨rfl, rfl, rfl⟩
  case weaken k => exact ⟨rfl, rfl, rfl⟩
  case purge => exact ⟨rfl, rfl, rfl⟩
  case commit => simp at hc
  case rollback => simp only [step, opRollback]; (repeat' split) <;> exact ⟨rfl, rfl, rfl⟩
  case begin => simp only [step, opBegin]; (repeat' split) <;> exact ⟨rfl, rfl, rfl⟩

/-- … and so for any number of transaction-side steps. -/
theorem C07_isolation_history (s : St) (ops : List Op)
    (h : ∀ op ∈ ops, op.side = .T ∧ op.isCommit = false) :
    (run s ops).db = s.db ∧ (run s ops).p = s.p := by
  induction ops generalizing s with
  | nil => exact ⟨rfl, rfl⟩
  | cons op ops ih =>
    have h1 := C07_isolation_step s op (h op (by simp)).1 (h op (by simp)).2
    have h2 := ih (step s op).1 (fun o ho => h o (by simp [ho]))
    exact ⟨h2.1.trans h1.1, h2.2.trans h1.2.1⟩

/-- What the parent connection reads from the database is the committed state, whatever the transaction's
    write set holds: a read that is not answered from the instance's own cached value, and a `get` that is
    not answered from the parent cache, return the committed row (or not-found). -/
theorem C07_parent_reads_committed (s : St) :
    (∀ j c, j < s.p.n → (s.p.insts j).cached c = none →
        (step s (.read .P j c)).2 = freshAnswer (s.db (s.p.insts j).key) c)
    ∧ (∀ k b, (s.p.cacheGet s.dc k).1 = none →
        ((step s (.get .P k b)).2 = .notFound ↔ s.db k = none)
        ∧ (∀ row, s.db k = some row →
            (step s (.get .P k b)).2 = .inst s.p.n
            ∧ ∀ c, ((step s (.get .P k b)).1.p.insts s.p.n).cached c = some (row c))) := by
  refine ⟨fun j c hj hc => opRead_fresh s .P j c hj hc rfl, ?_⟩
  intro k b hm
  have hb : (b && s.refused .P) = false := by simp [St.refused]
  cases hc : s.p.cacheGet s.dc k with
  | mk hit c' =>
    have hhit : hit = none := by rw [hc] at hm; exact hm
    subst hhit
    have hn : c'.n = s.p.n := by have := Conn.cacheGet_n s.dc s.p k; rw [hc] at this; exact this
    cases hd : s.db k with
    | none => simp [step, opGet, St.conn, hc, St.refused, St.view, hd]
    | some row =>
      refine ⟨by simp [step, opGet, St.conn, hc, St.refused, St.view, hd], ?_⟩
      intro row' hr
      cases hr
      refine ⟨by simp [step, opGet, St.conn, hc, St.refused, St.view, hd, hn], ?_⟩
      intro c
      simp [step, opGet, St.conn, hc, St.refused, St.view, hd, hn]

/-- For every history: a `select` through the parent connection returns exactly the committed rows of the class
    (none of the transaction's uncommitted creates, all of the rows it has deleted but not committed), and a
    `select` through the transaction returns exactly the rows of the transaction's own view. -/
theorem C07_select_shows_view (dc : Bool) (ops : List Op) (sd : Side) (cls : Nat)
    (hr : (run (init dc) ops).refused sd = false) :
    ∃ l, (step (run (init dc) ops) (.select sd cls)).2 = .rows l
      ∧ l.map Prod.snd = (run (init dc) ops).dom.filter
          (fun k => clsOf k == cls && ((run (init dc) ops).view sd k).isSome)
      ∧ ∀ k, clsOf k = cls → (k ∈ l.map Prod.snd ↔ ((run (init dc) ops).view sd k).isSome = true) := by
  have hd := run_domInv (DomInv.init dc) ops
  generalize run (init dc) ops = s at hr hd
  refine ⟨_, by simp only [step, opSelect, hr]; rfl, ?_, ?_⟩
  · rw [selFold_keys]
    simp [List.filter_filter, Bool.and_comm]
  · intro k hk
    rw [selFold_keys]
    simp only [List.map_nil, List.nil_append, List.mem_filter, beq_iff_eq]
    constructor
    · intro h; exact h.2
    · intro h
      refine ⟨⟨?_, hk⟩, h⟩
      apply hd k
      cases sd with
      | P => left; simpa [St.view] using h
      | T => right; exact h

/-! ## Commit -/

/-- After `commit`, the committed database is exactly the pre-commit database overridden by the write set
    (updated rows, created rows, deleted rows), the transaction continues on it with an empty write set, and
    every parent instance the expiry loop reaches answers its next read with the committed value — not-found
    for a deleted row. -/
theorem C07_commit_visible (s : St) (close : Bool) (h : s.obsolete = false) :
    (∀ k, (step s (.commit close)).1.db k = s.view .T k)
    ∧ (∀ k, (step s (.commit close)).1.view .T k = (step s (.commit close)).1.db k)
    ∧ (step s (.commit close)).1.lock = false
    ∧ (step s (.commit close)).1.obsolete = close
    ∧ (step s (.commit close)).1.t = s.t
    ∧ (∀ j c, j < s.p.n → s.reached (s.p.insts j).key = true → s.p.tryGet s.dc (s.p.insts j).key = some j →
        (step (step s (.commit close)).1 (.read .P j c)).2
          = freshAnswer ((step s (.commit close)).1.db (s.p.insts j).key) c) := by
  simp only [step, opCommit, h]
  refine ⟨fun _ => rfl, fun _ => rfl, rfl, rfl, rfl, ?_⟩
  intro j c hj hr ht
  rw [opRead_fresh]
  · simp [St.conn, St.commitExpire, hr, ht, Inst.expire, St.view]
  · exact hj
  · simp [St.conn, St.commitExpire, hr, ht, Inst.expire]
  · rfl

/-- **every row written through the transaction is known to `commit`** (every history, no hypothesis on the caches of the
    transaction): in every state a history reaches, a committed row the transaction has written (updated or deleted) is
    reached by the expiry loop of `commit` — through the transaction cache, the deleted log or the updated log —, so the
    instance of it that the parent cache hands out reads the committed value right after the commit, also when the
    transaction's own instance was culled, collected or expired meanwhile. -/
theorem C07_commit_reaches_every_written_row (dc : Bool) (ops : List Op) (close : Bool) (j : Nat) (c : Col)
    (ho : (run (init dc) ops).obsolete = false) (hj : j < (run (init dc) ops).p.n)
    (hw : ((run (init dc) ops).ws ((run (init dc) ops).p.insts j).key).isSome = true)
    (hrow : (run (init dc) ops).db ((run (init dc) ops).p.insts j).key ≠ none)
    (ha : (run (init dc) ops).p.tryGet (run (init dc) ops).dc ((run (init dc) ops).p.insts j).key = some j) :
    (run (init dc) ops).reached ((run (init dc) ops).p.insts j).key = true
    ∧ (step (step (run (init dc) ops) (.commit close)).1 (.read .P j c)).2
        = freshAnswer ((step (run (init dc) ops) (.commit close)).1.db ((run (init dc) ops).p.insts j).key) c := by
  have hl := run_wsLogged (WsLogged.init dc) ops
  generalize run (init dc) ops = s at *
  have hr : s.reached (s.p.insts j).key = true := by
    rcases hl.logged _ hw with h0 | h0 | h0
    · exact absurd h0 hrow
    · simp [St.reached, h0]
    · simp [St.reached, h0]
  exact ⟨hr, (C07_commit_visible s close ho).2.2.2.2.2 j c hj hr ha⟩

/-- rows deleted in the transaction stay in its deleted log until the transaction is closed or rolled back — also
    across a COMMIT the engine refused (no step of the model: nothing may change) and across earlier commits —, so the
    commit that finally succeeds still expires the parent's instance of every such row: its next read is not-found. -/
theorem C07_commit_reaches_deleted_log (s : St) (close : Bool) (h : s.obsolete = false) (j : Nat) (c : Col)
    (hj : j < s.p.n) (hd : s.del.contains (s.p.insts j).key = true)
    (ha : s.p.tryGet s.dc (s.p.insts j).key = some j) :
    (step (step s (.commit close)).1 (.read .P j c)).2
      = freshAnswer ((step s (.commit close)).1.db (s.p.insts j).key) c :=
  (C07_commit_visible s close h).2.2.2.2.2 j c hj (by simp only [St.reached, hd, Bool.or_true, Bool.true_or]) ha

/-- **No stale value — partial.**  For every history whose steps stay inside `good` (any length, any number
    of commit / rollback+begin / commit(close) points), in the state reached: every read of every live
    parent-side instance, cached or not, answers the committed value of its row (not-found if the row is
    gone), and every read of every live transaction-side instance answers the transaction's own view. -/
theorem C07_commit_no_stale_partial (dc : Bool) (ops : List Op) (hg : GoodHist (init dc) ops) :
    (∀ j c, j < (run (init dc) ops).p.n → ((run (init dc) ops).p.insts j).destroyed = false →
        (step (run (init dc) ops) (.read .P j c)).2
          = freshAnswer ((run (init dc) ops).db ((run (init dc) ops).p.insts j).key) c)
    ∧ (∀ j c, (run (init dc) ops).obsolete = false →
        j < (run (init dc) ops).t.n → ((run (init dc) ops).t.insts j).destroyed = false →
        (step (run (init dc) ops) (.read .T j c)).2
          = freshAnswer ((run (init dc) ops).view .T ((run (init dc) ops).t.insts j).key) c) := by
  have hi := run_inv (Inv.init dc) (WsLogged.init dc) ops hg
  refine ⟨fun j c hj hd => read_of_inv hi .P j c hj hd rfl, ?_⟩
  intro j c ho hj hd
  exact read_of_inv hi .T j c hj hd (by simp [St.refused, ho])

/-- one `good` commit from any state satisfying the invariant: every live parent instance then reads the new
    committed state (= old database overridden by the write set). -/
theorem C07_commit_step_partial (s : St) (close : Bool) (hi : Inv s) (hl : WsLogged s) (hg : good s (.commit close) = true)
    (j : Nat) (c : Col) (hj : j < s.p.n) (hd : (s.p.insts j).destroyed = false) (ho : s.obsolete = false) :
    (step (step s (.commit close)).1 (.read .P j c)).2 = freshAnswer (s.view .T (s.p.insts j).key) c := by
  have hi' := step_inv hi hl (.commit close) hg
  have hk : ((step s (.commit close)).1.p.insts j).key = (s.p.insts j).key := by
    simp only [step, opCommit, ho, St.commitExpire, Bool.false_eq_true, if_false]; split <;> rfl
  have hd' : ((step s (.commit close)).1.p.insts j).destroyed = false := by
    simp only [step, opCommit, ho, St.commitExpire, Bool.false_eq_true, if_false]; split <;> simp [Inst.expire, hd]
  have hn : (step s (.commit close)).1.p.n = s.p.n := by simp [step, opCommit, ho, St.commitExpire]
  have := read_of_inv hi' .P j c (by simpa [St.conn, hn] using hj) hd' rfl
  rw [this]
  simp only [St.conn, hk]
  simp [St.view, step, opCommit, ho]

/-! ### the full-strength statement is false of the code: three witnesses -/

def row10 : Row := fun c => if c = 0 then 1 else 0

/-- (a) the transaction-side instance was culled and collected before the commit -/
def witnessCulled : List Op :=
  [.create .P 1 row10, .get .T 1 false, .set .T 0 0 2, .weaken .T 1, .drop .T 0, .commit false]

/-- (b1) the transaction-side instance was detached from the transaction cache by an earlier rollback -/
def witnessTxDetached : List Op :=
  [.create .P 1 row10, .get .T 1 false, .rollback, .begin, .set .T 0 0 3, .commit false]

/-- (b2) the parent instance was detached from the parent cache by the first commit's `expire()` -/
def witnessParentDetached : List Op :=
  [.create .P 1 row10, .get .T 1 false, .set .T 0 0 2, .commit false, .read .P 0 0, .set .T 0 0 3, .commit false]

/-- the stale answer and the committed value in the state after a history -/
def staleCheck (ops : List Op) : Out × Option Val :=
  ((step (run (init true) ops) (.read .P 0 0)).2, ((run (init true) ops).db 1).map fun r => r 0)

/-- since /repo 6947770 (`Transaction._SO_update` logs every row written through the transaction) the first two
    histories no longer leave a stale value: the parent's instance reads the committed value -/
theorem C07_witness_culled_fixed : staleCheck witnessCulled = (.val 2, some 2) := by decide
theorem C07_witness_tx_detached_fixed : staleCheck witnessTxDetached = (.val 3, some 3) := by decide
theorem C07_witness_parent_detached : staleCheck witnessParentDetached = (.val 2, some 3) := by decide

/-- **No stale value — full strength — is FALSE of the code.**  "After every history, every read of a live
    parent-side instance answers the committed value" fails (witness (b2): the parent's instance was evicted from the parent cache by an earlier `expire()`). -/
theorem C07_commit_no_stale_full_FALSE :
    ¬ (∀ (dc : Bool) (ops : List Op) (j : Nat) (c : Col), j < (run (init dc) ops).p.n →
        ((run (init dc) ops).p.insts j).destroyed = false →
        (step (run (init dc) ops) (.read .P j c)).2
          = freshAnswer ((run (init dc) ops).db ((run (init dc) ops).p.insts j).key) c) := by
  intro h
  have := h true witnessParentDetached 0 0 (by decide) (by decide)
  revert this
  decide

/-! ## Rollback -/

/-- `rollback` leaves the committed database and the whole parent side untouched, empties the write set (so no
    row created in the transaction exists in anybody's view), finishes the transaction, and every
    transaction-side instance its expiry loop reaches shows the committed (pre-transaction) state on its next
    read after `begin()`. -/
theorem C07_rollback_erases (s : St) (h : s.obsolete = false) :
    (step s .rollback).1.db = s.db ∧ (step s .rollback).1.p = s.p
    ∧ (∀ k, (step s .rollback).1.view .T k = s.db k)
    ∧ (∀ k, s.db k = none → (step s .rollback).1.view .T k = none ∧ (step s .rollback).1.db k = none)
    ∧ (step s .rollback).1.obsolete = true ∧ (step s .rollback).1.lock = false
    ∧ (∀ j c, j < s.t.n → s.t.tryGet s.dc (s.t.insts j).key = some j →
        (step (step (step s .rollback).1 .begin).1 (.read .T j c)).2 = freshAnswer (s.db (s.t.insts j).key) c) := by
  simp only [step, opRollback, h]
  refine ⟨rfl, rfl, fun _ => rfl, fun k hk => ⟨hk, hk⟩, rfl, rfl, ?_⟩
  intro j c hj ht
  simp only [opBegin]
  rw [opRead_fresh]
  · simp [St.conn, St.rollbackExpire, ht, Inst.expire, St.view]
  · exact hj
  · simp [St.conn, St.rollbackExpire, ht, Inst.expire]
  · rfl

/-- one `good` rollback + begin from any state satisfying the invariant: every live transaction-side instance
    then reads the committed (pre-transaction) state. -/
theorem C07_rollback_instances_partial (s : St) (hi : Inv s) (hl : WsLogged s) (hg : good s .rollback = true)
    (j : Nat) (c : Col) (hj : j < s.t.n) (hd : (s.t.insts j).destroyed = false) (ho : s.obsolete = false) :
    (step (step (step s .rollback).1 .begin).1 (.read .T j c)).2 = freshAnswer (s.db (s.t.insts j).key) c := by
  have hi' := step_inv (step_inv hi hl .rollback hg) (step_wsLogged hl .rollback) .begin rfl
  have hk : ((step (step s .rollback).1 .begin).1.t.insts j).key = (s.t.insts j).key := by
    simp only [step, opRollback, ho, opBegin, St.rollbackExpire, Bool.false_eq_true, if_false, if_true]; split <;> rfl
  have hd' : ((step (step s .rollback).1 .begin).1.t.insts j).destroyed = false := by
    simp only [step, opRollback, ho, opBegin, St.rollbackExpire, Bool.false_eq_true, if_false, if_true]
    split <;> simp [Inst.expire, hd]
  have hn : (step (step s .rollback).1 .begin).1.t.n = s.t.n := by
    simp [step, opRollback, ho, opBegin, St.rollbackExpire]
  have hob : (step (step s .rollback).1 .begin).1.obsolete = false := by simp [step, opRollback, ho, opBegin]
  have := read_of_inv hi' .T j c (by simpa [St.conn, hn] using hj) hd' (by simp [St.refused, hob])
  rw [this]
  simp only [St.conn, hk]
  simp [St.view, step, opRollback, ho, opBegin]

/-- (b3) a transaction-side instance detached by an earlier rollback keeps what was written through it -/
def witnessRollbackDetached : List Op :=
  [.create .P 1 row10, .get .T 1 false, .rollback, .begin, .read .T 0 0, .set .T 0 0 7, .rollback, .begin]

theorem C07_witness_rollback_detached :
    ((step (run (init true) witnessRollbackDetached) (.read .T 0 0)).2,
     ((run (init true) witnessRollbackDetached).db 1).map fun r => r 0) = (.val 7, some 1) := by decide

/-- **"After rollback + begin the transaction's instances show the pre-transaction state" — full strength — is
    FALSE of the code.** -/
theorem C07_rollback_instances_full_FALSE :
    ¬ (∀ (s : St) (ops : List Op) (j : Nat) (c : Col), s = run (init true) ops → s.obsolete = false → j < s.t.n →
        (s.t.insts j).destroyed = false →
        (step (step (step s .rollback).1 .begin).1 (.read .T j c)).2 = freshAnswer (s.db (s.t.insts j).key) c) := by
  intro h
  have := h _ [.create .P 1 row10, .get .T 1 false, .rollback, .begin, .read .T 0 0, .set .T 0 0 7] 0 0 rfl
    (by decide) (by decide) (by decide)
  revert this
  decide

/-! ## A finished transaction refuses use until `begin()` -/

/-- the transaction-side operations that need the low-level connection (everything except answers that come
    from an instance's own cached attribute or from the transaction cache) -/
def usesConn (s : St) : Op → Bool
  | .create .T _ _ => true
  | .get .T k b => b || (s.t.cacheGet s.dc k).1.isNone
  | .read .T j c => decide (j < s.t.n) && ((s.t.insts j).cached c).isNone
  | .set .T j _ _ => decide (j < s.t.n)
  | .destroy .T j => decide (j < s.t.n)
  | .select .T _ => true
  | _ => false

/-- On a finished transaction every operation that needs the connection is refused (AssertionError) and
    changes neither the committed database, nor the write set, nor the lock, nor the parent side; the
    transaction stays finished. -/
theorem C07_obsolete_refuses (s : St) (op : Op) (h : s.obsolete = true) (hu : usesConn s op = true) :
    (step s op).2 = .assert ∧ (step s op).1.db = s.db ∧ (step s op).1.ws = s.ws ∧ (step s op).1.lock = s.lock
    ∧ (step s op).1.p = s.p ∧ (step s op).1.obsolete = true := by
  cases op with
  | create sd k row => cases sd <;> simp_all [usesConn, step, opCreate]
  | get sd k b =>
    cases sd with
    | P => simp [usesConn] at hu
    | T =>
      simp only [usesConn, Bool.or_eq_true, Option.isNone_iff_eq_none] at hu
      simp only [step, opGet, St.refused, h, St.conn]
      cases b with
      | true => simp [h]
      | false =>
        have hu' : (s.t.cacheGet s.dc k).1 = none := by simpa using hu
        cases hc : s.t.cacheGet s.dc k with
        | mk hit c' => rw [hc] at hu'; subst hu'; simp [h]
  | read sd j c =>
    cases sd with
    | P => simp [usesConn] at hu
    | T =>
      simp only [usesConn, Bool.and_eq_true, decide_eq_true_eq, Option.isNone_iff_eq_none] at hu
      have : ¬ (j ≥ s.t.n) := by omega
      simp [step, opRead, St.conn, this, hu.2, St.refused, h]
  | set sd j c v =>
    cases sd with
    | P => simp [usesConn] at hu
    | T =>
      simp only [usesConn, decide_eq_true_eq] at hu
      have : ¬ (j ≥ s.t.n) := by omega
      simp [step, opSet, St.conn, this, h]
  | destroy sd j =>
    cases sd with
    | P => simp [usesConn] at hu
    | T =>
      simp only [usesConn, decide_eq_true_eq] at hu
      have : ¬ (j ≥ s.t.n) := by omega
      simp [step, opDestroy, St.conn, this, h]
  | select sd cls => cases sd <;> simp_all [usesConn, step, opSelect, St.refused]
  | expire sd j => simp [usesConn] at hu
  | drop sd j => simp [usesConn] at hu
  | weaken sd k => simp [usesConn] at hu
  | purge sd cls => simp [usesConn] at hu
  | commit c => simp [usesConn] at hu
  | rollback => simp [usesConn] at hu
  | begin => simp [usesConn] at hu

/-- `commit` and `rollback` of a finished transaction do nothing; `begin()` makes it usable again, and is
    itself refused while the transaction is active. -/
theorem C07_obsolete_commit_rollback_begin (s : St) :
    (s.obsolete = true → ∀ close, step s (.commit close) = (s, .ok))
    ∧ (s.obsolete = true → step s .rollback = (s, .ok))
    ∧ (s.obsolete = true → (step s .begin).2 = .ok ∧ (step s .begin).1.obsolete = false
          ∧ (step s .begin).1.db = s.db ∧ (∀ k, (step s .begin).1.view .T k = s.view .T k))
    ∧ (s.obsolete = false → step s .begin = (s, .assert))
    ∧ (s.obsolete = false → (step s .rollback).1.obsolete = true ∧ (step s (.commit true)).1.obsolete = true) := by
  refine ⟨?_, ?_, ?_, ?_, ?_⟩
  · intro h close; simp [step, opCommit, h]
  · intro h; simp [step, opRollback, h]
  · intro h; simp [step, opBegin, h, St.view]
  · intro h; simp [step, opBegin, h]
  · intro h; simp [step, opRollback, opCommit, h]

/-- whatever is tried on either side, a finished transaction stays finished — with an empty write set and no
    lock — until `begin()` is called -/
theorem C07_obsolete_until_begin (s : St) (ops : List Op) (h : s.obsolete = true)
    (hb : ∀ op ∈ ops, op ≠ .begin) :
    (run s ops).obsolete = true ∧ (run s ops).ws = s.ws ∧ (run s ops).lock = s.lock := by
  induction ops generalizing s with
  | nil => exact ⟨h, rfl, rfl⟩
  | cons op ops ih =>
    have hstep : (step s op).1.obsolete = true ∧ (step s op).1.ws = s.ws ∧ (step s op).1.lock = s.lock := by
      cases op with
      | create sd k row => cases sd <;> simp only [step, opCreate, h] <;> (repeat' split) <;> simp_all
      | get sd k b => simp only [step, opGet]; (repeat' split) <;> simp_all
      | read sd j c => simp only [step, opRead]; (repeat' split) <;> simp_all
      | set sd j c v => cases sd <;> simp only [step, opSet, h] <;> (repeat' split) <;> simp_all
      | destroy sd j => cases sd <;> simp only [step, opDestroy, h] <;> (repeat' split) <;> simp_all
      | expire sd j => simp only [step, opExpire]; (repeat' split) <;> simp_all
      | select sd cls =>
        simp only [step, opSelect]
        split
        · simp_all
        · have := selFold_frame sd (s.dom.filter fun k => clsOf k == cls) (s, [])
          exact ⟨this.2.2.2.2.1.trans h, this.2.2.1, this.2.2.2.1⟩
      | drop sd j => simp only [step, opDrop]; (repeat' split) <;> simp_all
      | weaken sd k => simp_all [step]
      | purge sd cls => simp_all [step]
      | commit c => simp [step, opCommit, h]
      | rollback => simp [step, opRollback, h]
      | begin => exact absurd rfl (hb .begin (by simp))
    have := ih (step s op).1 hstep.1 (fun o ho => hb o (by simp [ho]))
    exact ⟨this.1, this.2.1.trans hstep.2.1, this.2.2.trans hstep.2.2⟩

/-! ## Non-vacuity -/

-- a good history with two commits on the same row: the parent instance is re-fetched (`get`) after the first
-- commit, so the second commit reaches it; both reads are fresh
example : GoodHist (init true)
    [.create .P 1 row10, .get .T 1 false, .set .T 0 0 2, .commit false, .get .P 1 false, .read .P 1 0,
     .set .T 0 0 3, .commit false] := by decide
example : (outs (init true)
    [.create .P 1 row10, .get .T 1 false, .set .T 0 0 2, .read .P 0 0, .commit false, .read .P 0 0]).getLast?
      = some (.val 2) := by decide
-- isolation is not vacuous: the transaction's view differs from the committed database before commit
example : ((run (init true) [.create .P 1 row10, .get .T 1 false, .set .T 0 0 2]).view .T 1).map (· 0) = some 2
    ∧ ((run (init true) [.create .P 1 row10, .get .T 1 false, .set .T 0 0 2]).db 1).map (· 0) = some 1 := by decide
-- refusal: after commit(close) a transaction-side update answers Assert, after begin it works
example : outs (init true) [.create .P 1 row10, .get .T 1 false, .commit true, .set .T 0 0 5, .begin, .set .T 0 0 5]
    = [.inst 0, .inst 0, .ok, .assert, .ok, .ok] := by decide
-- the witnesses are outside `good` (that is the excluded class)
example : GoodHist (init true) witnessCulled := by decide   -- no longer excluded: commit reaches the row through the updated log
example : ¬ GoodHist (init true) witnessParentDetached := by decide

/-! ## The hand model of the `Transaction` methods IS the translated source

`vlib/extractors/pytx.py` translates `Transaction.assertActive / _SO_delete / commit / rollback / _makeObsolete /
begin / __del__` from /repo's dbconnection.py into PyTx programs on every run (`Extracted/PyTx.lean`);
`assertActiveX`, `soDeleteX`, `commitX`, … (`Model/TxX.lean`) RUN those programs from `img s lo`, the image of model
state `s` plus the low-level facts `lo` the model leaves out (`autoCommit`, `debug`, the autocommit mode of the
low-level connection, the pool count).  The calls into other objects are parameters of the interpreter, stated one
by one in the header of `Model/TxX.lean` (low-level COMMIT / ROLLBACK, `allIDs()` = ANY list with exactly the ids of
`Conn.inAllIDs` — `AllIDsSpec` —, `tryGet` / `tryGetByName` = `Conn.tryGet`, `inst.expire()` = `opExpire`, signals
and debug output without effect, `_setAutoCommit`, `releaseConnection(explicit=True)`, `getConnection`,
`DBAPI._SO_delete` rebound to the transaction).  Each theorem: the translated method ends in the image of the
state the hand model's function yields — for ALL states, under the stated hypotheses only:
* `AllIDsSpec A s.dc s.t` (interface assumption on what `allIDs()` returns in the state at hand);
* `ConnWF` of the connection whose instances the loop expires (representation invariant: what a cache map refers
  to has that key) — it holds in every state ANY history reaches (`C07_translated_rep_reachable`).
A semantic edit of these methods changes the translated programs and breaks these proofs. -/

open SqlObjVerif.PyTx in
/-- `Transaction.assertActive()` = `St.refused .T`: AssertionError exactly when obsolete, nothing changes -/
theorem C07_translated_assertActive_eq_model (A : AllIDs) (s : St) (lo : Low) :
    assertActiveX A (img s lo) =
      if s.refused .T then .exc (img s lo) ⟨.assertionError, 0⟩ else .ret (img s lo) .none :=
  assertActiveX_eq A s lo

open SqlObjVerif.PyTx in
/-- `Transaction.begin()` = `opBegin`; a low-level connection is checked out and put in manual-commit mode -/
theorem C07_translated_begin_eq_model (A : AllIDs) (s : St) (lo : Low) :
    beginX A (img s lo) =
      if s.obsolete then .ret (img (opBegin s).1 lo.acquire) .none else .exc (img s lo) ⟨.assertionError, 0⟩ :=
  beginX_eq A s lo

open SqlObjVerif.PyTx in
/-- `Transaction._makeObsolete()`: obsolete, deleted log and updated log emptied; autocommit switched back on iff the connection's
    `autoCommit` is truthy, the low-level connection released IN EITHER CASE (`Low.release`) -/
theorem C07_translated_makeObsolete_eq_model (A : AllIDs) (s : St) (lo : Low) (h : s.obsolete = false) :
    makeObsoleteX A (img s lo) = .ret (img { s with obsolete := true, del := [], upd := [] } lo.release) .none :=
  makeObsoleteX_eq A s lo h

open SqlObjVerif.PyTx in
/-- `Transaction._SO_delete(inst)` = `soDelete`: the id is logged FIRST (also when the transaction is obsolete), then
    `DBAPI._SO_delete` runs with the transaction as `self` -/
theorem C07_translated_SO_delete_eq_model (A : AllIDs) (s : St) (lo : Low) (j : Nat) :
    soDeleteX A (img s lo) j =
      if s.obsolete then .exc (img (soDelete s j).1 lo) ⟨.assertionError, 0⟩
      else .ret (img (soDelete s j).1 lo) .none :=
  soDeleteX_eq A s lo j

open SqlObjVerif.PyTx in
/-- `Transaction._SO_update(so, values)` = `soUpdate`: the row is logged in `_updatedCache` FIRST (also when the
    transaction is obsolete), then `DBAPI._SO_update` runs with the transaction as `self` -/
theorem C07_translated_SO_update_eq_model (A : AllIDs) (s : St) (lo : Low) (j : Nat) (c : Col) (v : Val) :
    soUpdateX A (img s lo) j c v =
      if s.obsolete then .exc (img (soUpdate s j c v).1 lo) ⟨.assertionError, 0⟩
      else .ret (img (soUpdate s j c v).1 lo) .none :=
  soUpdateX_eq A s lo j c v

/-- … and `soUpdate` is the `_SO_update` part of the hand model's attribute assignment on the transaction side -/
theorem C07_translated_SO_update_in_set (s : St) (j : Nat) (c : Col) (v : Val) (hj : j < s.t.n) :
    opSet s .T j c v = afterSoUpdate (soUpdate s j c v) j c v :=
  opSet_T_eq s j c v hj

/-- … and `soDelete` is the `_SO_delete` part of the hand model's `destroySelf` on the transaction side -/
theorem C07_translated_SO_delete_in_destroy (s : St) (j : Nat) (hj : j < s.t.n) :
    opDestroy s .T j = afterSoDelete (soDelete s j) j :=
  opDestroy_T_eq s j hj

open SqlObjVerif.PyTx in
/-- `Transaction.rollback()` = `opRollback`: ids collected, low-level ROLLBACK, every transaction-side instance `tryGet`
    finds expired (`rollbackExpire`), `_makeObsolete` — nothing at all when obsolete -/
theorem C07_translated_rollback_eq_model (A : AllIDs) (s : St) (hA : AllIDsSpec A s.dc s.t) (lo : Low)
    (wf : ConnWF s.t) :
    rollbackX A (img s lo) = .ret (img (opRollback s).1 (if s.obsolete then lo else lo.release)) .none :=
  rollbackX_eq A s hA lo wf

open SqlObjVerif.PyTx in
/-- `Transaction.commit(close)` = `opCommit`: low-level COMMIT, then for every (class, id) in the transaction cache's
    `allIDs()` AND in the deleted log the parent-side instance `tryGetByName` finds is expired (`commitExpire`),
    `_makeObsolete` iff `close` — nothing at all when obsolete -/
theorem C07_translated_commit_eq_model (A : AllIDs) (s : St) (hA : AllIDsSpec A s.dc s.t) (lo : Low) (close : Bool)
    (wf : ConnWF s.p) :
    commitX A (img s lo) close =
      .ret (img (opCommit s close).1 (if close && !s.obsolete then lo.release else lo)) .none :=
  commitX_eq A s hA lo close wf

open SqlObjVerif.PyTx in
/-- `Transaction.__del__()`: `rollback()` unless obsolete (C08's `collect`) -/
theorem C07_translated_del_eq_model (A : AllIDs) (s : St) (hA : AllIDsSpec A s.dc s.t) (lo : Low) (wf : ConnWF s.t) :
    delX A (img s lo) = .ret (img (opRollback s).1 (if s.obsolete then lo else lo.release)) .none :=
  delX_eq A s hA lo wf

/-- the loops, without the interpreter: expiring what `tryGet` finds, key by key over ANY list (order, repetitions),
    is the hand model's all-at-once expiry over the set of the list's members -/
theorem C07_translated_loop_is_set_expiry (c : Conn) (wf : ConnWF c) (dc : Bool) (ks : List Key) :
    expireKeys dc c ks = expireOn dc c (fun x => ks.contains x) :=
  expireKeys_eq wf dc ks

/-- the representation invariant is an invariant of the hand model: `ConnWF` of both connections is preserved by EVERY
    step (no `good` hypothesis) … -/
theorem C07_translated_rep_step (s : St) (op : Op) (h : ConnWF s.p ∧ ConnWF s.t) :
    ConnWF (step s op).1.p ∧ ConnWF (step s op).1.t :=
  step_wf h op

/-- … so it holds in every state ANY history reaches -/
theorem C07_translated_rep_reachable (dc : Bool) (ops : List Op) :
    ConnWF (run (init dc) ops).p ∧ ConnWF (run (init dc) ops).t :=
  run_wf (WF2.init dc) ops

/-- non-vacuity of the interface assumption: with empty caches every `allIDs()` is empty … -/
example (dc : Bool) : AllIDsSpec ⟨fun _ => [], fun _ _ _ => []⟩ dc (init dc).t :=
  ⟨fun _ _ h => by simp at h, fun k => by simp [init, Conn.empty, Conn.inAllIDs]⟩
/-- … and with one instance of key 2007 (class 2, id 7) in the strong map, `allIDs()` of class 2 is `[7]` -/
example : AllIDsSpec ⟨fun _ => [2], fun _ _ c => if c = 2 then [7] else []⟩ true
    { Conn.empty with strong := fun k => if k = 2007 then some 0 else none, n := 1 } := by
  have h7 : ∀ k : Nat, (k / 1000 = 2 ∧ k % 1000 = 7) ↔ k = 2007 := fun k => by omega
  refine ⟨fun c i h => ?_, fun k => ?_⟩
  · simp only at h
    split at h
    · simp at h; omega
    · simp at h
  · by_cases h : k = 2007
    · subst h; simp [Conn.inAllIDs, Conn.empty, clsOf, idOf]
    · have hn : ¬ (k / 1000 = 2 ∧ k % 1000 = 7) := fun hh => h ((h7 k).1 hh)
      simp only [Conn.inAllIDs, Conn.empty, clsOf, idOf, List.mem_singleton, h, if_false]
      by_cases h2 : k / 1000 = 2
      · have : ¬ k % 1000 = 7 := fun h3 => hn ⟨h2, h3⟩
        simp [h2, this]
      · simp [h2]
example : ConnWF (init true).p ∧ ConnWF (init true).t := ⟨ConnWF.empty, ConnWF.empty⟩

end SqlObjVerif.Tx

/-! ## lazyUpdate classes: pending (unsynced) assignments under a transaction (`Model/TxLazy.lean`) -/
namespace SqlObjVerif.TxLazy

def freshAnswer (row : Option Row) (c : Col) : Out :=
  match row with
  | some r => .val (r c)
  | none => .notFound

/-- nothing a transaction does short of `commit` — including lazy assignments and `syncUpdate` through its
    instances — changes the committed database or the parent side -/
theorem C07_lazy_isolation (s : St) (op : Op)
    (h : (∃ k, op = .get .T k) ∨ (∃ j c v, op = .assign .T j c v) ∨ (∃ j, op = .sync .T j) ∨ (∃ j c, op = .read .T j c)
      ∨ (∃ j, op = .expire .T j) ∨ op = .rollback ∨ op = .begin) :
    (step s op).1.db = s.db ∧ (step s op).1.p = s.p := by
  rcases h with ⟨k, rfl⟩ | ⟨j, c, v, rfl⟩ | ⟨j, rfl⟩ | ⟨j, c, rfl⟩ | ⟨j, rfl⟩ | rfl | rfl
  · simp only [step, opGet]; (repeat' split) <;> exact ⟨rfl, rfl⟩
  · simp only [step, opAssign]; (repeat' split) <;> exact ⟨rfl, rfl⟩
  · simp only [step, opSync]; (repeat' split) <;> exact ⟨rfl, rfl⟩
  · simp only [step, opRead]; (repeat' split) <;> exact ⟨rfl, rfl⟩
  · simp only [step, opExpire]; (repeat' split) <;> exact ⟨rfl, rfl⟩
  · simp only [step, opRollback]; (repeat' split) <;> exact ⟨rfl, rfl⟩
  · simp only [step, opBegin]; (repeat' split) <;> exact ⟨rfl, rfl⟩

/-- a lazy assignment sends nothing: neither the committed rows nor the transaction's view change -/
theorem C07_lazy_assign_sends_nothing (s : St) (sd : Side) (j : Nat) (c : Col) (v : Val) :
    (step s (.assign sd j c v)).1.db = s.db ∧ (step s (.assign sd j c v)).1.txv = s.txv
    ∧ (step s (.assign sd j c v)).1.lock = s.lock := by
  simp only [step, opAssign]
  split
  · exact ⟨rfl, rfl, rfl⟩
  · cases sd <;> exact ⟨rfl, rfl, rfl⟩

theorem hasPending_none (i : Inst) (n : Nat) (h : i.pending = fun _ => none) : hasPending i n = false := by
  simp [hasPending, h]

/-- **rollback erases unsynced assignments too.**  For every state with an active transaction and every
    transaction-side instance the rollback reaches (whatever it has pending): the committed rows are untouched and the
    transaction's view falls back to them; after `begin()` the instance has nothing pending, reads the committed
    (pre-transaction) value of every column, its `syncUpdate()` writes nothing, and a following commit leaves the
    database exactly as it was. -/
theorem C07_lazy_rollback_drops_pending (s : St) (h : s.obsolete = false) (j : Nat) (hj : j < s.t.n)
    (hr : s.t.find (s.t.insts j).key = some j) :
    (step s .rollback).1.db = s.db ∧ (step s .rollback).1.txv = s.db
    ∧ ((step (step s .rollback).1 .begin).1.t.insts j).pending = (fun _ => none)
    ∧ (∀ c, (step (step (step s .rollback).1 .begin).1 (.read .T j c)).2 = freshAnswer (s.db (s.t.insts j).key) c)
    ∧ step (step (step s .rollback).1 .begin).1 (.sync .T j) = ((step (step s .rollback).1 .begin).1, .ok)
    ∧ (step (step (step (step s .rollback).1 .begin).1 (.sync .T j)).1 (.commit false)).1.db = s.db := by
  have e1 : (step (step s .rollback).1 .begin).1.t.insts j = (s.t.insts j).expire := by
    simp [step, opRollback, opBegin, h, hr]
  have en : (step (step s .rollback).1 .begin).1.t.n = s.t.n := by simp [step, opRollback, opBegin, h]
  have eo : (step (step s .rollback).1 .begin).1.obsolete = false := by simp [step, opRollback, opBegin, h]
  have ev : (step (step s .rollback).1 .begin).1.txv = s.db := by simp [step, opRollback, opBegin, h]
  have ed : (step (step s .rollback).1 .begin).1.db = s.db := by simp [step, opRollback, opBegin, h]
  have e0 : (step s .rollback).1.db = s.db ∧ (step s .rollback).1.txv = s.db := by simp [step, opRollback, h]
  refine ⟨e0.1, e0.2, ?_⟩
  generalize (step (step s .rollback).1 .begin).1 = s2 at e1 en eo ev ed
  have hlt : ¬ (j ≥ s2.t.n) := by rw [en]; omega
  have hp : hasPending (s2.t.insts j) ncols = false := by rw [e1]; simp [hasPending, Inst.expire]
  have hsync : step s2 (.sync .T j) = (s2, .ok) := by
    simp [step, opSync, St.conn, hlt, hp]
  refine ⟨by rw [e1]; rfl, ?_, hsync, ?_⟩
  · intro c
    have hc : (s2.t.insts j).cached c = none := by rw [e1]; rfl
    have hk : (s2.t.insts j).key = (s.t.insts j).key := by rw [e1]; rfl
    have hpn : (s2.t.insts j).pending = fun _ => none := by rw [e1]; rfl
    simp only [step, opRead, St.conn, hlt, if_false, hc, eo, St.view, ev, hk]
    cases hd : s.db (s.t.insts j).key with
    | none => simp [freshAnswer]
    | some row => simp [freshAnswer, overlay, hpn]
  · rw [hsync]
    simp [step, opCommit, eo, ev]

/-- `syncUpdate()` through a transaction instance writes exactly the pending values into the transaction's view of the
    row, nothing into the committed rows; the following commit makes them the committed values -/
theorem C07_lazy_sync_then_commit (s : St) (h : s.obsolete = false) (j : Nat) (hj : j < s.t.n)
    (hp : hasPending (s.t.insts j) ncols = true) :
    (step s (.sync .T j)).2 = .ok ∧ (step s (.sync .T j)).1.db = s.db
    ∧ (step s (.sync .T j)).1.txv (s.t.insts j).key
        = (s.txv (s.t.insts j).key).map (fun r => overlay r (s.t.insts j).pending)
    ∧ (∀ k, k ≠ (s.t.insts j).key → (step s (.sync .T j)).1.txv k = s.txv k)
    ∧ ((step s (.sync .T j)).1.t.insts j).pending = (fun _ => none)
    ∧ (step (step s (.sync .T j)).1 (.commit false)).1.db = (step s (.sync .T j)).1.txv := by
  have hlt : ¬ (j ≥ s.t.n) := by omega
  simp [step, opSync, St.conn, hlt, hp, h, opCommit, Conn.modify]
  intro k hk; simp [hk]

/-! ### Non-vacuity (lazy) -/
def lrow : Row := fun c => if c = 0 then 1 else 0
-- an unsynced assignment through the transaction, rollback, begin: the instance shows the committed value again,
-- syncUpdate + commit change nothing
example : outs init [.insert 1 lrow, .get .T 1, .assign .T 0 0 5, .read .T 0 0, .rollback, .begin, .read .T 0 0,
      .sync .T 0, .commit false]
    = [.ok, .inst 0, .ok, .val 5, .ok, .ok, .val 1, .ok, .ok] := by decide
example : ((run init [.insert 1 lrow, .get .T 1, .assign .T 0 0 5, .rollback, .begin, .sync .T 0, .commit false]).db 1).map (· 0)
    = some 1 := by decide
-- synced and committed: the parent sees it only after the commit
example : (((run init [.insert 1 lrow, .get .T 1, .assign .T 0 0 5, .sync .T 0]).db 1).map (· 0),
           ((run init [.insert 1 lrow, .get .T 1, .assign .T 0 0 5, .sync .T 0, .commit false]).db 1).map (· 0))
    = (some 1, some 5) := by decide

end SqlObjVerif.TxLazy
