import SqlObjVerif.Lemmas.ConcC
import SqlObjVerif.Lemmas.ConcXMain
import SqlObjVerif.Lemmas.ConcXStatic
import SqlObjVerif.Lemmas.PyCacheSSSeq
import SqlObjVerif.Lemmas.PyCacheSSFrame
/-!
# C09 — the instance cache is thread-safe under every interleaving

Model: `SqlObjVerif.Conc` (small-step interleaving semantics of `cache.py` + the cache-facing part of
`main.py`; atomic actions = shared accesses).  A schedule is ANY `List Tid`; thread ids are all of `Nat`
(any number of threads); programs are arbitrary lists of get / create / expire / expireAll / cull.

* full (every program, every schedule): `C09_conc_inv`, `C09_lock_free_at_quiescence`, `C09_progress`.
* the map clauses are FALSE of the current code when a lock-free `created` races with `expireAll` or with
  a `get` of the id being created (`…_full_FALSE`, concrete schedules replayed on the real code by
  harness/c09.py).  They are proved (`…_partial`) under `SafeProgs`: no `create` anywhere, OR no
  `expireAll` anywhere and every created id is fresh (named by no other thread, created once, not yet a
  row).  `SafeL` is the same predicate on a finite program list, decidable (`C09_safe_of_list`).  The
  hypothesis is tight: dropping either conjunct of the second disjunct has a `…_FALSE` witness.
-/
namespace SqlObjVerif.Conc

/-- initial configuration: cache contents (objects `0 … fresh-1`, referenced by the environment),
    existing rows, cull parameters/counters and one program per thread -/
structure Cfg where
  dc : Bool
  caches : Bool
  strong : AMap
  weak : AMap
  db : List Id
  fresh : Nat
  freq : Nat
  frac : Nat
  cc : Nat
  off : Nat
  pins : List Obj
  progs : Tid → List Op

def Cfg.init (c : Cfg) : State :=
  mkInit c.dc c.caches c.strong c.weak c.db c.fresh c.freq c.frac c.cc c.off c.pins c.progs

/-- the initial maps are dicts (unique keys), hold one object per id, and every object in them was
    allocated before `fresh` -/
def Cfg.OK (c : Cfg) : Prop :=
  ((akeys c.strong).Nodup ∧ (akeys c.weak).Nodup ∧ (∀ o ∈ avals c.strong ++ avals c.weak, o < c.fresh) ∧
    (c.dc = false → c.strong = [])) ∧
  ∀ i o p, aget c.strong i = some o → aget c.weak i = some p → o = p

/-- no thread's program contains `create` (the only lock-free writer of the maps) -/
def NoCreateProgs (c : Cfg) : Prop := ∀ t, ∀ op ∈ c.progs t, isCreate op = false

/-- no thread's program contains `expireAll` (the only operation that iterates over / rebinds `cache`) -/
def NoExpireAllProgs (c : Cfg) : Prop := ∀ t, ∀ op ∈ c.progs t, isEA op = false

/-- created ids are fresh: named by no other thread's get / expire / create, created at most once per
    thread, and not yet a row; cached rows exist -/
def FreshCreates (c : Cfg) : Prop :=
  (∀ t u, t ≠ u → ∀ i ∈ progCrIds (c.progs t), i ∉ progIds (c.progs u)) ∧
  (∀ t, (progCrIds (c.progs t)).Nodup) ∧
  (∀ t, ∀ i ∈ progCrIds (c.progs t), i ∉ c.db) ∧
  (∀ i, (aget c.strong i ≠ none ∨ aget c.weak i ≠ none) → i ∈ c.db)

/-- the class of programs for which the map clauses are proved -/
def SafeProgs (c : Cfg) : Prop := NoCreateProgs c ∨ (c.dc = true ∧ NoExpireAllProgs c ∧ FreshCreates c)

/-! ### the same hypothesis as a decidable predicate on a finite list of programs (`progsOf l t = l.getD t []`) -/
def FreshL (l : List (List Op)) (strong weak : AMap) (db : List Id) : Prop :=
  (∀ a ∈ List.range l.length, ∀ b ∈ List.range l.length, a ≠ b →
      ∀ i ∈ progCrIds (l.getD a []), i ∉ progIds (l.getD b [])) ∧
  (∀ p ∈ l, (progCrIds p).Nodup) ∧
  (∀ p ∈ l, ∀ i ∈ progCrIds p, i ∉ db) ∧
  (∀ kv ∈ strong ++ weak, kv.1 ∈ db)

def SafeL (dc : Bool) (l : List (List Op)) (strong weak : AMap) (db : List Id) : Prop :=
  (∀ p ∈ l, ∀ op ∈ p, isCreate op = false) ∨
  (dc = true ∧ (∀ p ∈ l, ∀ op ∈ p, isEA op = false) ∧ FreshL l strong weak db)

instance (l : List (List Op)) (strong weak : AMap) (db : List Id) : Decidable (FreshL l strong weak db) := by
  unfold FreshL; infer_instance

instance (dc : Bool) (l : List (List Op)) (strong weak : AMap) (db : List Id) :
    Decidable (SafeL dc l strong weak db) := by
  unfold SafeL; infer_instance

theorem C09_fresh_of_list (l : List (List Op)) (c : Cfg) (hp : c.progs = progsOf l)
    (h : FreshL l c.strong c.weak c.db) : FreshCreates c := by
  have hpt : ∀ t, c.progs t = l.getD t [] := fun t => by rw [hp]; rfl
  obtain ⟨h2, h3, h4, h5⟩ := h
  refine ⟨?_, ?_, ?_, ?_⟩
  · intro t u htu i hi
    rw [hpt] at hi ⊢
    rcases getD_mem_or_nil l t with e | ⟨ht, _⟩
    · rw [e] at hi; simp [progCrIds] at hi
    · rcases getD_mem_or_nil l u with e | ⟨hu, _⟩
      · rw [e]; simp [progIds]
      · exact h2 t (List.mem_range.2 ht) u (List.mem_range.2 hu) htu i hi
  · intro t
    rw [hpt]
    rcases getD_mem_or_nil l t with e | ⟨_, e⟩
    · rw [e]; simp [progCrIds]
    · exact h3 _ e
  · intro t i hi
    rw [hpt] at hi
    rcases getD_mem_or_nil l t with e | ⟨_, e⟩
    · rw [e] at hi; simp [progCrIds] at hi
    · exact h4 _ e i hi
  · intro i hi
    rcases hi with hi | hi
    · obtain ⟨kv, hm, e⟩ := aget_mem _ _ hi
      exact e ▸ h5 kv (by simp [hm])
    · obtain ⟨kv, hm, e⟩ := aget_mem _ _ hi
      exact e ▸ h5 kv (by simp [hm])

/-- the decidable list predicate implies the hypothesis of the theorems -/
theorem C09_safe_of_list (l : List (List Op)) (c : Cfg) (hp : c.progs = progsOf l)
    (h : SafeL c.dc l c.strong c.weak c.db) : SafeProgs c := by
  rcases h with h | ⟨hd, h1, h2⟩
  · left; rw [NoCreateProgs, hp]; exact all_of_list isCreate l h
  · right; refine ⟨hd, ?_, C09_fresh_of_list l c hp h2⟩
    rw [NoExpireAllProgs, hp]; exact all_of_list isEA l h1

instance (s : State) (i : Id) (o : Obj) : Decidable (Reach s i o) := by unfold Reach; infer_instance

theorem C09_init_invs (c : Cfg) (hc : c.OK) : AInv c.init ∧ BInv c.init ∧ FInv c.init ∧ MdInv c.init ∧ EInv c.init :=
  ⟨ainv_init _ _ _ _ _ _ _ _ _ _ _ _ hc.1.1 hc.1.2.1, binv_init _ _ _ _ _ _ _ _ _ _ _ _ hc.2,
   finv_init _ _ _ _ _ _ _ _ _ _ _ _ (fun o ho => hc.1.2.2.1 o (by simp [ho])) (fun o ho => hc.1.2.2.1 o (by simp [ho])),
   mdinv_init _ _ _ _ _ _ _ _ _ _ _ _ hc.1.2.2.2, einv_init _ _ _ _ _ _ _ _ _ _ _ _⟩

/-- all invariant layers at the end of any schedule, for a safe configuration -/
theorem C09_safe_inv (c : Cfg) (hc : c.OK) (hs : SafeProgs c) (sched : List Tid) :
    BInv (run c.init sched) ∧ EInv (run c.init sched) := by
  obtain ⟨ha, hb, hfi, hm, he⟩ := C09_init_invs c hc
  rcases hs with hn | ⟨hd, hn, hf1, hf2, hf3, hf4⟩
  · have hnn : NoCreate c.init := nocreate_init _ _ _ _ _ _ _ _ _ _ _ _ hn
    exact ⟨(inv_run _ sched ha hb hfi hm hnn).2.1, inv_run_e _ sched ha hb hfi hm hnn he⟩
  · have hf : Fresh c.init := fresh_init _ _ _ _ _ _ _ _ _ _ _ _ hf1 hf2
    have hne : NoEA c.init := noea_init _ _ _ _ _ _ _ _ _ _ _ _ hn
    have hci : CInv c.init := cinv_init _ _ _ _ _ _ _ _ _ _ _ _ hf4 hf3
    have := inv_run_fresh _ sched ha hb hfi hm hd (geninv_init _ _ _ _ _ _ _ _ _ _ _ _) hf hne hci he
    exact ⟨this.2.1, this.2.2.2.2.2⟩

theorem C09_safe_reach (c : Cfg) (hc : c.OK) (hs : SafeProgs c) (sched : List Tid) (i : Id) (o : Obj)
    (hr : Reach c.init i o) (hal : o ∈ c.init.refs ∨ o ∈ c.init.pins) : Reach (run c.init sched) i o := by
  obtain ⟨ha, hb, hfi, hm, _⟩ := C09_init_invs c hc
  rcases hs with hn | ⟨hd, hn, hf1, hf2, hf3, hf4⟩
  · exact reach_run _ sched ha hb hfi hm (nocreate_init _ _ _ _ _ _ _ _ _ _ _ _ hn) i o hr hal
  · exact reach_run_fresh _ sched ha hb hfi hm hd (geninv_init _ _ _ _ _ _ _ _ _ _ _ _) (fresh_init _ _ _ _ _ _ _ _ _ _ _ _ hf1 hf2)
      (noea_init _ _ _ _ _ _ _ _ _ _ _ _ hn) (cinv_init _ _ _ _ _ _ _ _ _ _ _ _ hf4 hf3) i o hr hal

/-! ## full theorems: every program, every schedule, any number of threads -/

/-- Mutual exclusion and the lock holder's knowledge: the lock is held exactly by the thread that is
    between a miss and its `finishPut`, or inside `expire` / `expireAll` / `cull` (`holds`); `cache` has
    unique keys; every key the holder is about to `del` / read (`needS`, `needW`) is still there, so no
    KeyError and no release of a free lock can occur. -/
theorem C09_conc_inv (c : Cfg) (hc : c.OK) (sched : List Tid) : AInv (run c.init sched) :=
  ainv_run _ sched (ainv_init _ _ _ _ _ _ _ _ _ _ _ _ hc.1.1 hc.1.2.1)

/-- when every thread has finished, the cache lock is free -/
theorem C09_lock_free_at_quiescence (c : Cfg) (hc : c.OK) (sched : List Tid)
    (hq : ∀ t, finished (run c.init sched) t = true) : (run c.init sched).lock = none := by
  have h := C09_conc_inv c hc sched
  cases hl : (run c.init sched).lock with
  | none => rfl
  | some w =>
    have := (h.holder w).2 hl
    have hw := hq w
    simp only [finished, decide_eq_true_eq] at hw
    rw [hw] at this
    simp [holds] at this

/-- no deadlock: as long as some thread is unfinished, some thread is enabled -/
theorem C09_progress (c : Cfg) (hc : c.OK) (sched : List Tid) (t : Tid)
    (ht : finished (run c.init sched) t = false) : ∃ u, (step (run c.init sched) u).isSome = true := by
  have h := C09_conc_inv c hc sched
  cases hl : (run c.init sched).lock with
  | none =>
    refine ⟨t, enabled_of_free _ t hl ?_⟩
    simpa [finished] using ht
  | some w => exact ⟨w, enabled_of_holds _ w ((h.holder w).2 hl)⟩

/-- cullCount races are benign: none of the invariants mentions `cc` — they hold whatever values the
    unsynchronised read-modify-write leaves there (stated: any initial `cc`/`freq`, every schedule). -/
theorem C09_cullcount_benign (c : Cfg) (hc : c.OK) (cc freq : Nat) (sched : List Tid) :
    AInv (run { c with cc := cc, freq := freq }.init sched) :=
  C09_conc_inv { c with cc := cc, freq := freq } hc sched

/-! ## the map clauses: partial theorems (hypothesis `SafeProgs`) -/

theorem C09_inv_partial (c : Cfg) (hc : c.OK) (hn : SafeProgs c) (sched : List Tid) :
    BInv (run c.init sched) :=
  (C09_safe_inv c hc hn sched).1

/-- `cache` and `expiredCache` never hold two different objects for one id -/
theorem C09_one_object_per_id_partial (c : Cfg) (hc : c.OK) (hn : SafeProgs c) (sched : List Tid)
    (i : Id) (o p : Obj) (h1 : aget (run c.init sched).strong i = some o)
    (h2 : aget (run c.init sched).weak i = some p) : o = p :=
  (C09_inv_partial c hc hn sched).uniq i o p h1 h2

/-- every object a thread got, and every cached object the environment references (`pins`), stays
    reachable for its id through `cache` ∪ `expiredCache` (or is the entry the lock holder is moving right
    now), unless an `expire(id)` removed it (`stale`).  Unreferenced objects may die: their dead weak
    references are dropped by `get` / `cull`. -/
theorem C09_referenced_reachable_partial (c : Cfg) (hc : c.OK) (hn : SafeProgs c) (sched : List Tid) :
    (∀ t i o, Out.obj i o ∈ ((run c.init sched).th t).outs → Reach (run c.init sched) i o) ∧
    (∀ i o, (aget c.strong i = some o ∨ aget c.weak i = some o) → o ∈ c.pins → Reach (run c.init sched) i o) := by
  refine ⟨(C09_inv_partial c hc hn sched).outs, ?_⟩
  intro i o h0 hpin
  have hr : Reach c.init i o := by
    rcases h0 with h | h
    · exact Or.inl h
    · exact Or.inr (Or.inl h)
  exact C09_safe_reach c hc hn sched i o hr (Or.inr hpin)

/-- all completed operations on one id returned the same object, unless an `expire(id)` removed one of
    them from the cache in between -/
theorem C09_same_object_partial (c : Cfg) (hc : c.OK) (hn : SafeProgs c) (sched : List Tid)
    (t u : Tid) (i : Id) (o p : Obj)
    (ht : Out.obj i o ∈ ((run c.init sched).th t).outs) (hu : Out.obj i p ∈ ((run c.init sched).th u).outs)
    (ho : o ∉ (run c.init sched).stale) (hp : p ∉ (run c.init sched).stale) : o = p := by
  have hb := C09_inv_partial c hc hn sched
  have r1 := hb.outs t i o ht
  have r2 := hb.outs u i p hu
  have hu := hb.uniq
  have ht1 := hb.tr1
  unfold Reach at r1 r2
  grind

/-- … and it is the object the environment held for that id at the start, if there was one -/
theorem C09_same_object_as_initial_partial (c : Cfg) (hc : c.OK) (hn : SafeProgs c) (sched : List Tid)
    (t : Tid) (i : Id) (o p : Obj)
    (ht : Out.obj i o ∈ ((run c.init sched).th t).outs) (h0 : aget c.strong i = some p ∨ aget c.weak i = some p)
    (hpin : p ∈ c.pins) (ho : o ∉ (run c.init sched).stale) (hp : p ∉ (run c.init sched).stale) : o = p := by
  have hb := C09_inv_partial c hc hn sched
  have r1 := hb.outs t i o ht
  have r2 := (C09_referenced_reachable_partial c hc hn sched).2 i p h0 hpin
  have hu := hb.uniq
  have ht1 := hb.tr1
  unfold Reach at r1 r2
  grind

/-- no operation ends with an exception other than the documented not-found -/
theorem C09_no_exception_but_notfound_partial (c : Cfg) (hc : c.OK) (hn : SafeProgs c) (sched : List Tid)
    (t : Tid) (e : Exc) : Out.exc e ∉ ((run c.init sched).th t).outs :=
  ((C09_safe_inv c hc hn sched).2 t).2 e

/-- `expire` is the only source of `stale`: without it the partial theorems are unconditional -/
example : (run (Cfg.init ⟨true, true, [(1, 0)], [], [1], 1, 100, 2, 0, 0, [0], fun t => if t < 2 then [.get 1] else []⟩)
    [0, 1, 0, 1, 0, 1, 0, 1]).stale = [] := by decide

/-- `expire` is the only source of `stale`: in programs without it the `stale` provisos above are void -/
theorem C09_stale_nil_without_expire (c : Cfg) (sched : List Tid) (h : ∀ t, ∀ op ∈ c.progs t, isEX op = false) :
    (run c.init sched).stale = [] := by
  rw [show (run c.init sched).stale = c.init.stale from
    stale_run _ sched (noex_init _ _ _ _ _ _ _ _ _ _ _ _ h)]
  rfl

/-! ## the full statements are FALSE of the current code: concrete schedules (replayed on the real
    `cache.py` by harness/c09.py on every run) -/

/-- thread 0 creates row 7 while thread 1 runs `expireAll`; the cache holds row 1 (object 0) -/
def wCreateExpireAll : Cfg :=
  ⟨true, true, [(1, 0)], [], [1], 1, 100, 2, 0, 0, [0], progsOf [[.create 7], [.expireAll]]⟩

/-- thread 0 creates row 7 while thread 1 gets row 7 -/
def wCreateGet : Cfg :=
  ⟨true, true, [(1, 0)], [], [1], 1, 100, 2, 0, 0, [0], progsOf [[.create 7], [.get 7]]⟩

theorem C09_wCreateExpireAll_OK : wCreateExpireAll.OK :=
  ⟨by decide, by intro i o p _ h2; simp [wCreateExpireAll] at h2⟩

theorem C09_wCreateGet_OK : wCreateGet.OK :=
  ⟨by decide, by intro i o p _ h2; simp [wCreateGet] at h2⟩

/-- `expireAll` finished its copy loop, `created` inserts into the old dict, `self.cache = {}` drops it -/
def schedLost : List Tid := [1, 1, 1, 1, 0, 0, 0, 0, 0, 0, 0, 1, 1]
/-- `created` inserts while `expireAll` iterates: the next `next()` raises RuntimeError -/
def schedRuntimeError : List Tid := [1, 0, 0, 0, 0, 0, 0, 0, 1, 1]
/-- INSERT, then the other thread's whole get (miss, SELECT finds the row), then `created` overwrites -/
def schedTwo : List Tid := [0, 1, 1, 1, 1, 1, 1, 1, 1, 1, 1, 1, 0, 0, 0, 0, 0, 0]

/-- FULL statement of "referenced objects stay reachable" (no restriction on programs): FALSE.
    Lock-free `created` vs the `self.cache = {}` swap of `expireAll`: thread 0 holds object 1 for row 7,
    which is in neither map, was not expired and is not in transit. -/
theorem C09_referenced_reachable_full_FALSE :
    ¬ (∀ (c : Cfg), c.OK → ∀ (sched : List Tid) (t : Tid) (i : Id) (o : Obj),
        Out.obj i o ∈ ((run c.init sched).th t).outs → Reach (run c.init sched) i o) := by
  intro h
  have := h wCreateExpireAll C09_wCreateExpireAll_OK schedLost 0 7 1 (by decide)
  revert this
  decide

/-- FULL statement of "no exception other than not-found": FALSE.
    `created` inserting during `expireAll`'s `for key, value in self.cache.items()` → RuntimeError
    ("dictionary changed size during iteration") in the expiring thread. -/
theorem C09_no_exception_but_notfound_full_FALSE :
    ¬ (∀ (c : Cfg), c.OK → ∀ (sched : List Tid) (t : Tid) (e : Exc),
        Out.exc e ∉ ((run c.init sched).th t).outs) := by
  intro h
  exact h wCreateExpireAll C09_wCreateExpireAll_OK schedRuntimeError 1 .runtimeError (by decide)

/-- FULL statement of "same object": FALSE.  A `get` of a row between another thread's INSERT and its
    lock-free `cache.created` builds a second instance; `created` then overwrites the cache entry. -/
theorem C09_same_object_full_FALSE :
    ¬ (∀ (c : Cfg), c.OK → ∀ (sched : List Tid) (t u : Tid) (i : Id) (o p : Obj),
        Out.obj i o ∈ ((run c.init sched).th t).outs → Out.obj i p ∈ ((run c.init sched).th u).outs →
        o ∉ (run c.init sched).stale → p ∉ (run c.init sched).stale → o = p) := by
  intro h
  have := h wCreateGet C09_wCreateGet_OK schedTwo 0 1 7 1 2 (by decide) (by decide) (by decide) (by decide)
  revert this
  decide

/-- the finer form of the lost entry: `created` loads `self.cache` BEFORE `expireAll` rebinds it and stores
    through the stale alias AFTER: the entry lands in the abandoned dict -/
def schedLostAlias : List Tid := [0, 0, 0, 0, 0, 1, 1, 1, 1, 1, 1, 0, 0]

example : ((run wCreateExpireAll.init schedLostAlias).th 0).outs = [.obj 7 1] ∧
    ¬ Reach (run wCreateExpireAll.init schedLostAlias) 7 1 ∧
    (run wCreateExpireAll.init schedLostAlias).olds = [] := by decide

/-- the witnesses end in quiescence with the lock free (they are not deadlocks or half-run schedules) -/
example : (∀ t, t < 2 → finished (run wCreateExpireAll.init schedLost) t = true) ∧
    (run wCreateExpireAll.init schedLost).lock = none ∧
    (run wCreateExpireAll.init schedLost).strong = [] ∧
    (run wCreateExpireAll.init schedLost).weak = [(1, 0)] := by decide
example : ((run wCreateExpireAll.init schedRuntimeError).th 1).outs = [.exc .runtimeError] ∧
    ((run wCreateExpireAll.init schedRuntimeError).th 0).outs = [.obj 7 1] := by decide
example : ((run wCreateGet.init schedTwo).th 0).outs = [.obj 7 1] ∧
    ((run wCreateGet.init schedTwo).th 1).outs = [.obj 7 2] ∧
    (run wCreateGet.init schedTwo).strong = [(1, 0), (7, 1)] := by decide

/-! ## the hypothesis `SafeProgs` is tight: each conjunct of its second disjunct is needed -/

/-- fresh creates WITHOUT "no expireAll": referenced objects can be lost (same witness as above) -/
theorem C09_referenced_reachable_needs_noExpireAll_FALSE :
    ¬ (∀ (c : Cfg), c.OK → FreshCreates c → ∀ (sched : List Tid) (t : Tid) (i : Id) (o : Obj),
        Out.obj i o ∈ ((run c.init sched).th t).outs → Reach (run c.init sched) i o) := by
  intro h
  have := h wCreateExpireAll C09_wCreateExpireAll_OK
    (C09_fresh_of_list [[.create 7], [.expireAll]] wCreateExpireAll rfl (by decide)) schedLost 0 7 1 (by decide)
  revert this
  decide

/-- fresh creates WITHOUT "no expireAll": RuntimeError in the expiring thread -/
theorem C09_no_exception_needs_noExpireAll_FALSE :
    ¬ (∀ (c : Cfg), c.OK → FreshCreates c → ∀ (sched : List Tid) (t : Tid) (e : Exc),
        Out.exc e ∉ ((run c.init sched).th t).outs) := by
  intro h
  exact h wCreateExpireAll C09_wCreateExpireAll_OK
    (C09_fresh_of_list [[.create 7], [.expireAll]] wCreateExpireAll rfl (by decide)) schedRuntimeError 1 .runtimeError
    (by decide)

/-- no expireAll WITHOUT freshness (another thread gets the id being created): two instances -/
theorem C09_same_object_needs_fresh_FALSE :
    ¬ (∀ (c : Cfg), c.OK → NoExpireAllProgs c → ∀ (sched : List Tid) (t u : Tid) (i : Id) (o p : Obj),
        Out.obj i o ∈ ((run c.init sched).th t).outs → Out.obj i p ∈ ((run c.init sched).th u).outs →
        o ∉ (run c.init sched).stale → p ∉ (run c.init sched).stale → o = p) := by
  intro h
  have := h wCreateGet C09_wCreateGet_OK (all_of_list isEA [[.create 7], [.get 7]] (by decide)) schedTwo 0 1 7 1 2
    (by decide) (by decide) (by decide) (by decide)
  revert this
  decide

/-- one thread creating a row that already exists: IntegrityError (the "not yet a row" conjunct) -/
def wDup : Cfg := ⟨true, true, [(1, 0)], [], [1], 1, 100, 2, 0, 0, [0], progsOf [[.create 1]]⟩

theorem C09_no_exception_needs_new_row_FALSE :
    ¬ (∀ (c : Cfg), c.OK → NoExpireAllProgs c → ∀ (sched : List Tid) (t : Tid) (e : Exc),
        Out.exc e ∉ ((run c.init sched).th t).outs) := by
  intro h
  exact h wDup ⟨by decide, by intro i o p _ h2; simp [wDup] at h2⟩
    (all_of_list isEA [[.create 1]] (by decide)) [0] 0 .integrity (by decide)

/-- non-vacuity of the partial theorems on a program WITH creates: two threads create 7 and 8 while a third
    gets rows 1 and 2 and culls — `SafeL` holds by `decide` -/
example : SafeL true [[.create 7, .get 7], [.create 8, .cull], [.get 1, .get 2, .expire 1]] [(1, 0)] [(2, 1)] [1, 2] := by
  decide

/-- … and the theorems apply to it for every schedule -/
def wSafe : Cfg :=
  ⟨true, true, [(1, 0)], [(2, 1)], [1, 2], 2, 0, 2, 1, 0, [],
   progsOf [[.create 7, .get 7], [.create 8, .cull], [.get 1, .get 2, .expire 1]]⟩

example (sched : List Tid) (t : Tid) (e : Exc) : Out.exc e ∉ ((run wSafe.init sched).th t).outs :=
  C09_no_exception_but_notfound_partial wSafe
    ⟨by decide, by intro i o p h1 h2; simp [wSafe, aget] at h1 h2; grind⟩
    (C09_safe_of_list _ wSafe rfl (by decide)) sched t e

/-! ## the dead-weakref branches (objects nobody references die; CPython frees them at once) -/

/-- row 3 is only weakly cached and nobody holds its instance: `get(3)` finds the dead reference, drops the
    entry and builds a new instance (object 2) -/
example : ((run (Cfg.init ⟨true, true, [(1, 0)], [(3, 1)], [1, 3], 2, 100, 2, 0, 0, [0], progsOf [[.get 3]]⟩)
    (List.replicate 12 0)).th 0).outs = [.obj 3 2] := by decide

/-- the same entry when the environment still references the instance: `get(3)` revives object 1 -/
example : ((run (Cfg.init ⟨true, true, [(1, 0)], [(3, 1)], [1, 3], 2, 100, 2, 0, 0, [0, 1], progsOf [[.get 3]]⟩)
    (List.replicate 12 0)).th 0).outs = [.obj 3 1] := by decide

/-- `cull` pops the dead entry and does not keep a weak reference to an unreferenced instance it evicts -/
example : (run (Cfg.init ⟨true, true, [(1, 0)], [(3, 1)], [1, 3], 2, 100, 2, 0, 0, [], progsOf [[.cull]]⟩)
    (List.replicate 12 0)).weak = [] := by decide

/-! ## doCache = False: only `expiredCache` is used -/

/-- two threads get the uncached row 4 with doCache = False, any schedule: the partial theorems apply
    (no create), e.g. no exception, and both end up with the same instance -/
def wNoCache : Cfg :=
  ⟨false, true, [], [(1, 0)], [1, 4], 1, 100, 2, 0, 0, [0], progsOf [[.get 4], [.get 4, .expireAll], [.get 1]]⟩

example (sched : List Tid) (t : Tid) (e : Exc) : Out.exc e ∉ ((run wNoCache.init sched).th t).outs :=
  C09_no_exception_but_notfound_partial wNoCache
    ⟨by decide, by intro i o p h1 _; simp [wNoCache] at h1⟩
    (C09_safe_of_list _ wNoCache rfl (by decide)) sched t e

def schedNoCache : List Tid := [0, 1, 0, 1, 0, 1, 1, 1, 1, 0, 0, 0, 1, 1, 1, 0, 0, 1, 1, 1, 1, 0, 0, 0, 0]

example : ((run wNoCache.init schedNoCache).th 0).outs = [.obj 4 1] ∧
    ((run wNoCache.init schedNoCache).th 1).outs = [.obj 4 1, .unit] ∧
    (run wNoCache.init schedNoCache).strong = [] := by
  decide

/-! ## which dict an access uses: `self.cache` is re-read for every operation -/

/-- a get of the weakly cached, still referenced row 3 racing with `expireAll` (which rebinds `self.cache`):
    for EVERY schedule the getter ends with the instance the environment holds (object 1), and it stays reachable.
    (An implementation that keeps an alias of `self.cache` across the lock acquisition revives the instance into
    the abandoned dict; the harness replays that on the real code.) -/
def wAlias : Cfg :=
  ⟨true, true, [(1, 0)], [(3, 1)], [1, 3], 2, 100, 2, 0, 0, [0, 1], progsOf [[.get 3], [.expireAll]]⟩

theorem C09_wAlias_OK : wAlias.OK :=
  ⟨by decide, by intro i o p h1 h2; simp [wAlias, aget] at h1 h2; grind⟩

example (sched : List Tid) (o : Obj) (h : Out.obj 3 o ∈ ((run wAlias.init sched).th 0).outs) : o = 1 :=
  C09_same_object_as_initial_partial wAlias C09_wAlias_OK (C09_safe_of_list _ wAlias rfl (by decide)) sched 0 3 o 1 h
    (Or.inr (by decide)) (by decide)
    (by rw [C09_stale_nil_without_expire wAlias sched (all_of_list isEX _ (by decide))]; simp)
    (by rw [C09_stale_nil_without_expire wAlias sched (all_of_list isEX _ (by decide))]; simp)

/-- the unlocked probe may read the abandoned dict (load before the rebinding, lookup after it): it still finds
    the instance, which `expireAll` had copied to `expiredCache` -/
example : ((run (Cfg.init ⟨true, true, [(1, 0)], [], [1], 1, 100, 2, 0, 0, [0], progsOf [[.get 1], [.expireAll]]⟩)
    [0, 0, 0, 0, 1, 1, 1, 1, 1, 1, 0]).th 0).outs = [.obj 1 0] := by decide

/-! ## the TRANSLATED system: the per-thread programs are the `CacheFactory` methods `vlib/extractors/pycache.py`
    translates from /repo's `cache.py` on every run (`Extracted/PyCache.lean`), executed by the small-step semantics
    `Model/PyCacheSS.lean` and interleaved by `Model/ConcX.lean` (any number of threads, any schedule, the lock as
    data).  `Conc`'s 45 program-counter kinds and their atomic actions are DERIVED: every `Conc` action is matched by
    one shared access of the translated program followed by at most `ConcX.FUEL` silent micro-steps
    (`Lemmas/ConcXGet/Misc/Cull.lean`, one lemma per pc kind), so the two systems move in lock step on every schedule
    and the theorems above hold of the translated system.  Assumed interface (stated in `Model/ConcX.lean`): the
    callers of the factory (`SQLObject.get`, `_SO_finishCreate`, `CacheSet.*`), the database, reference counting. -/

/-- the initial state of the translated system for a configuration -/
def Cfg.initX (c : Cfg) : ConcX.XState :=
  ConcX.mkInitX c.dc c.caches c.strong c.weak c.db c.fresh c.freq c.frac c.cc c.off c.pins c.progs

/-- ONE ACTION: from related states, `Conc.step s t` and the translated `ConcX.step x t` are both `none` (thread
    finished, or blocked on the cache lock), or both move — the translated thread by the shared access it is parked at
    plus silent micro-steps of the translated program — and end related.  All 45 pc kinds
    (`ConcX.good_all`). -/
theorem C09_translated_step_simulates (s : State) (x : ConcX.XState) (t : Tid) (hs : ConcX.Sim s x) (ha : AInv s)
    (hf : 0 < s.frac) :
    match step s t with
    | some s' => ∃ x', ConcX.step x t = some x' ∧ ConcX.Sim s' x'
    | none => ConcX.step x t = none :=
  ConcX.sim_step s x t hs ha hf

/-- EVERY SCHEDULE: the translated system started from the configuration ends related to `Conc`'s run -/
theorem C09_translated_schedule_simulates (c : Cfg) (hc : c.OK) (hf : 0 < c.frac) (sched : List Tid) :
    ConcX.Sim (run c.init sched) (ConcX.run c.initX sched) :=
  ConcX.sim_run _ _ sched (ConcX.sim_init _ _ _ _ _ _ _ _ _ _ _ _)
    (ainv_init _ _ _ _ _ _ _ _ _ _ _ _ hc.1.1 hc.1.2.1) hf

/-- what the relation says about the observable parts: the lock, the two dicts, the cull counter, every thread's
    outcomes, and which threads have finished -/
theorem C09_translated_observables (c : Cfg) (hc : c.OK) (hf : 0 < c.frac) (sched : List Tid) :
    (ConcX.run c.initX sched).g.sh.owner = (run c.init sched).lock ∧
    (ConcX.run c.initX sched).g.sh.cache = (run c.init sched).strong ∧
    (ConcX.run c.initX sched).g.sh.expiredCache = (run c.init sched).weak ∧
    (ConcX.run c.initX sched).g.sh.cullCount = (run c.init sched).cc ∧
    (∀ t, ((ConcX.run c.initX sched).th t).outs = ((run c.init sched).th t).outs) ∧
    (∀ t, ConcX.finished (ConcX.run c.initX sched) t = finished (run c.init sched) t) := by
  have h := C09_translated_schedule_simulates c hc hf sched
  refine ⟨by rw [h.g]; rfl, by rw [h.g]; rfl, by rw [h.g]; rfl, by rw [h.g]; rfl, fun t => (h.th t).outs, fun t => ?_⟩
  have hp := ConcX.pcsim_finished _ _ _ _ (h.th t).pc
  unfold ConcX.finished finished
  rw [hp]

/-- `C09_conc_inv` of the translated system: the dicts keep unique keys, and the cache lock is only ever owned by a
    thread that has not finished -/
theorem C09_translated_conc_inv (c : Cfg) (hc : c.OK) (hf : 0 < c.frac) (sched : List Tid) :
    (akeys (ConcX.run c.initX sched).g.sh.cache).Nodup ∧ (akeys (ConcX.run c.initX sched).g.sh.expiredCache).Nodup ∧
    ∀ t, (ConcX.run c.initX sched).g.sh.owner = some t → ConcX.finished (ConcX.run c.initX sched) t = false := by
  obtain ⟨h1, h2, h3, _, _, h6⟩ := C09_translated_observables c hc hf sched
  have ha := C09_conc_inv c hc sched
  rw [h1, h2, h3]
  refine ⟨ha.skeys, ha.wkeys, fun t ht => ?_⟩
  rw [h6]
  have := (ha.holder t).2 ht
  unfold finished
  cases hpc : ((run c.init sched).th t).pc <;> rw [hpc] at this <;> simp_all [holds]

/-- when every thread of the translated system has finished, the cache lock is free -/
theorem C09_translated_lock_free_at_quiescence (c : Cfg) (hc : c.OK) (hf : 0 < c.frac) (sched : List Tid)
    (hq : ∀ t, ConcX.finished (ConcX.run c.initX sched) t = true) : (ConcX.run c.initX sched).g.sh.owner = none := by
  obtain ⟨h1, _, _, _, _, h6⟩ := C09_translated_observables c hc hf sched
  rw [h1]
  exact C09_lock_free_at_quiescence c hc sched (fun t => by rw [← h6]; exact hq t)

/-- no deadlock in the translated system: while some thread is unfinished, some thread can step -/
theorem C09_translated_progress (c : Cfg) (hc : c.OK) (hf : 0 < c.frac) (sched : List Tid) (t : Tid)
    (ht : ConcX.finished (ConcX.run c.initX sched) t = false) :
    ∃ u, (ConcX.step (ConcX.run c.initX sched) u).isSome = true := by
  obtain ⟨_, _, _, _, _, h6⟩ := C09_translated_observables c hc hf sched
  obtain ⟨u, hu⟩ := C09_progress c hc sched t (by rw [← h6]; exact ht)
  refine ⟨u, ?_⟩
  have hs := C09_translated_step_simulates _ _ u (C09_translated_schedule_simulates c hc hf sched)
    (C09_conc_inv c hc sched) (by rw [ConcX.frac_run]; exact hf)
  cases hst : step (run c.init sched) u with
  | none => rw [hst] at hu; cases hu
  | some s' =>
    rw [hst] at hs
    obtain ⟨x', hx', _⟩ := hs
    rw [hx']; rfl

/-- `cache` and `expiredCache` of the translated system never hold two different objects for one id (`SafeProgs`) -/
theorem C09_translated_one_object_per_id_partial (c : Cfg) (hc : c.OK) (hf : 0 < c.frac) (hn : SafeProgs c)
    (sched : List Tid) (i : Id) (o p : Obj) (h1 : aget (ConcX.run c.initX sched).g.sh.cache i = some o)
    (h2 : aget (ConcX.run c.initX sched).g.sh.expiredCache i = some p) : o = p := by
  obtain ⟨_, e2, e3, _, _, _⟩ := C09_translated_observables c hc hf sched
  rw [e2] at h1; rw [e3] at h2
  exact C09_one_object_per_id_partial c hc hn sched i o p h1 h2

/-- all completed operations of the translated system on one id returned the same object, unless an `expire(id)`
    removed one of them in between (`stale` is the ghost list of `Conc`'s run of the same schedule) -/
theorem C09_translated_same_object_partial (c : Cfg) (hc : c.OK) (hf : 0 < c.frac) (hn : SafeProgs c) (sched : List Tid)
    (t u : Tid) (i : Id) (o p : Obj)
    (ht : Out.obj i o ∈ ((ConcX.run c.initX sched).th t).outs) (hu : Out.obj i p ∈ ((ConcX.run c.initX sched).th u).outs)
    (ho : o ∉ (run c.init sched).stale) (hp : p ∉ (run c.init sched).stale) : o = p := by
  obtain ⟨_, _, _, _, e5, _⟩ := C09_translated_observables c hc hf sched
  rw [e5] at ht hu
  exact C09_same_object_partial c hc hn sched t u i o p ht hu ho hp

/-- no operation of the translated system ends with an exception other than the documented not-found (`SafeProgs`) -/
theorem C09_translated_no_exception_but_notfound_partial (c : Cfg) (hc : c.OK) (hf : 0 < c.frac) (hn : SafeProgs c)
    (sched : List Tid) (t : Tid) (e : Exc) : Out.exc e ∉ ((ConcX.run c.initX sched).th t).outs := by
  obtain ⟨_, _, _, _, e5, _⟩ := C09_translated_observables c hc hf sched
  rw [e5]
  exact C09_no_exception_but_notfound_partial c hc hn sched t e

/-- the FULL statement is false of the translated system too: the translated `created` inserting during the
    translated `expireAll`'s iteration makes its `next()` raise RuntimeError -/
theorem C09_translated_no_exception_but_notfound_full_FALSE :
    ¬ (∀ (c : Cfg), c.OK → 0 < c.frac → ∀ (sched : List Tid) (t : Tid) (e : Exc),
        Out.exc e ∉ ((ConcX.run c.initX sched).th t).outs) := by
  intro h
  have := h wCreateExpireAll C09_wCreateExpireAll_OK (by decide) schedRuntimeError 1 .runtimeError
  rw [(C09_translated_observables wCreateExpireAll C09_wCreateExpireAll_OK (by decide) schedRuntimeError).2.2.2.2.1 1] at this
  exact this (by decide)

/-- … and two instances for one row (`create` vs `get`) -/
theorem C09_translated_same_object_full_FALSE :
    ¬ (∀ (c : Cfg), c.OK → 0 < c.frac → ∀ (sched : List Tid) (t u : Tid) (i : Id) (o p : Obj),
        Out.obj i o ∈ ((ConcX.run c.initX sched).th t).outs → Out.obj i p ∈ ((ConcX.run c.initX sched).th u).outs →
        o ∉ (run c.init sched).stale → p ∉ (run c.init sched).stale → o = p) := by
  intro h
  have e5 := (C09_translated_observables wCreateGet C09_wCreateGet_OK (by decide) schedTwo).2.2.2.2.1
  have := h wCreateGet C09_wCreateGet_OK (by decide) schedTwo 0 1 7 1 2 (by rw [e5]; decide) (by rw [e5]; decide)
    (by decide) (by decide)
  revert this
  decide

/-- no statement of the translated methods in scope makes more than one dict operation / lock operation /
    `cullCount` write: a micro-step of the small-step semantics never fuses two shared accesses -/
theorem C09_translated_one_access_per_statement :
    ∀ b ∈ ConcX.scopeProgs, ConcX.blockMaxAcc b ≤ 1 := ConcX.scope_one_access

/-- a step of the translated system touches the shared dicts / the lock / `cullCount` / the binding of `self.cache` AT
    MOST ONCE, by its first micro-step: every later micro-step of the step is silent (`nextAccess = none`), and a silent
    micro-step leaves them alone — for every program, heap model and method table -/
theorem C09_translated_silent_frame {H : Type} (ops : PyCacheSS.HeapOps H) (meths : PyCacheSS.Meths) (t : Tid)
    (sh sh' : PyCacheSS.Shared H) (m m' : PyCacheSS.MTh) (hn : PyCacheSS.nextAccess ops t sh m = none)
    (hm : PyCacheSS.micro ops meths t sh m = some (m', sh')) :
    sh'.cache = sh.cache ∧ sh'.expiredCache = sh.expiredCache ∧ sh'.owner = sh.owner ∧ sh'.cullCount = sh.cullCount ∧
    sh'.gen = sh.gen :=
  PyCacheSS.silent_frame ops meths t sh m m' sh' hn hm

/-- THE SMALL-STEP SEMANTICS IS THE BIG-STEP ONE when a thread runs alone (`Lemmas/PyCacheSSSeq.lean`, all 25
    statement forms, for every block that passes the decidable check `seqOKB`: a loop over a dict does not write it,
    `self.cache` is iterated under the lock — true of every translated method by `decide`): if the reference semantics
    `PyCache.run` (the one C04's theorems are about, with its own heap `World`) returns `v` in world `w`, then the
    micro-steps of `PyCacheSS.micro` from `MTh.start` reach `return v` (or the end of the body when `v` is `None`) in a
    shared state whose image is `w`, with the alias bookkeeping back to rest.  Here for `get` with its embedded
    `self.cull()` exactly as `CacheX.getX` (C04) and `ConcX` (C09) run it. -/
theorem C09_translated_smallstep_run_eq_bigstep (t : Tid) (sh : PyCacheSS.Shared PyCacheSS.WH) (hg : PyCacheSS.Good sh)
    (k : Nat) (w : PyCache.World) (v : PyCache.Val)
    (h : Cache.getX (PyCacheSS.worldOf sh) k = .ret w v) :
    ∃ n m' sh', PyCacheSS.iter ConcX.meths t n (PyCacheSS.MTh.start PyCache.Extracted.getProg [.key k]
        PyCache.Extracted.get_nlocals PyCache.Extracted.get_nlists, sh) = some (m', sh') ∧
      (m'.result = some (.ret v) ∨ (m'.result = some .norm ∧ v = .none)) ∧ PyCacheSS.worldOf sh' = w ∧ PyCacheSS.Good sh' :=
  PyCacheSS.run_ret t PyCacheSS.callTable_meths PyCacheSS.meths_ok _ _ _ _ sh hg PyCacheSS.getProg_ok h

/-- non-vacuity: the translated system run on a concrete configuration and schedule (kernel evaluation of the
    small-step semantics on the extracted programs) -/
example : ((ConcX.run wCreateGet.initX schedTwo).th 1).outs = [.obj 7 2] ∧
    (ConcX.run wCreateGet.initX schedTwo).g.sh.cache = [(1, 0), (7, 1)] ∧
    (ConcX.run wCreateGet.initX schedTwo).g.sh.owner = none := by decide

/-! ## several classes on one connection

A connection holds one `CacheSet`; its `caches` dict maps each class NAME to that class' own `CacheFactory` (own
dicts, own lock, own counters), so the classes share nothing.  The model of a connection with two classes is
therefore the product of two copies of `Conc`, an event being a class and a thread of that class; what each class
sees is its own part of the schedule — this is the projection the harness applies to every run on several classes
(and an implementation in which two classes can end up sharing one factory fails it). -/

/-- an event of a connection with two classes: `(false, t)` = thread `t` of class 0 acts, `(true, t)` = of class 1 -/
def run2 : State × State → List (Bool × Tid) → State × State
  | p, [] => p
  | (a, b), (false, t) :: es => run2 (run a [t], b) es
  | (a, b), (true, t) :: es => run2 (a, run b [t]) es

theorem C09_run_append (s : State) (x y : List Tid) : run s (x ++ y) = run (run s x) y := by
  induction x generalizing s with
  | nil => rfl
  | cons t ts ih =>
    simp only [List.cons_append, run]
    split <;> exact ih _

/-- every class of the connection runs exactly its own part of the schedule: all theorems above hold per class -/
theorem C09_classes_independent (a b : State) (es : List (Bool × Tid)) :
    run2 (a, b) es = (run a ((es.filter fun e => !e.1).map Prod.snd), run b ((es.filter fun e => e.1).map Prod.snd)) := by
  induction es generalizing a b with
  | nil => rfl
  | cons e es ih =>
    obtain ⟨c, t⟩ := e
    cases c
    · simp only [run2, ih, List.filter_cons, Bool.not_false, if_true, List.map_cons, Bool.false_eq_true, if_false]
      rw [show t :: List.map Prod.snd (List.filter (fun e => !e.1) es) = [t] ++ List.map Prod.snd (List.filter (fun e => !e.1) es)
        from rfl, C09_run_append]
    · simp only [run2, ih, List.filter_cons, Bool.not_true, Bool.false_eq_true, if_false, if_true, List.map_cons]
      rw [show t :: List.map Prod.snd (List.filter (fun e => e.1) es) = [t] ++ List.map Prod.snd (List.filter (fun e => e.1) es)
        from rfl, C09_run_append]


end SqlObjVerif.Conc
