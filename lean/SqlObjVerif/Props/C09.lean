import SqlObjVerif.Lemmas.ConcB
/-!
# C09 — the instance cache is thread-safe under every interleaving

Model: `SqlObjVerif.Conc` (small-step interleaving semantics of `cache.py` + the cache-facing part of
`main.py`; atomic actions = shared accesses).  A schedule is ANY `List Tid`; thread ids are all of `Nat`
(any number of threads); programs are arbitrary lists of get / create / expire / expireAll / cull.

* full (every program, every schedule): `C09_conc_inv`, `C09_lock_free_at_quiescence`, `C09_progress`.
* the map clauses are FALSE of the current code when a lock-free `created` runs concurrently
  (`…_full_FALSE`, concrete schedules replayed on the real code by harness/c09.py) and are proved for
  every program without `create` (`…_partial`, hypothesis `NoCreateProgs`, decidable per program).
-/
namespace SqlObjVerif.Conc

/-- initial configuration: cache contents (objects `0 … fresh-1`, referenced by the environment),
    existing rows, cull parameters/counters and one program per thread -/
structure Cfg where
  caches : Bool
  strong : AMap
  weak : AMap
  db : List Id
  fresh : Nat
  freq : Nat
  frac : Nat
  cc : Nat
  off : Nat
  progs : Tid → List Op

def Cfg.init (c : Cfg) : State := mkInit c.caches c.strong c.weak c.db c.fresh c.freq c.frac c.cc c.off c.progs

/-- the initial maps are dicts (unique keys) and hold one object per id -/
def Cfg.OK (c : Cfg) : Prop :=
  (akeys c.strong).Nodup ∧ ∀ i o p, aget c.strong i = some o → aget c.weak i = some p → o = p

/-- no thread's program contains `create` (the only lock-free writer of the maps) -/
def NoCreateProgs (c : Cfg) : Prop := ∀ t, ∀ op ∈ c.progs t, isCreate op = false

instance (s : State) (i : Id) (o : Obj) : Decidable (Reach s i o) := by unfold Reach; infer_instance

/-! ## full theorems: every program, every schedule, any number of threads -/

/-- Mutual exclusion and the lock holder's knowledge: the lock is held exactly by the thread that is
    between a miss and its `finishPut`, or inside `expire` / `expireAll` / `cull` (`holds`); `cache` has
    unique keys; every key the holder is about to `del` / read (`needS`, `needW`) is still there, so no
    KeyError and no release of a free lock can occur. -/
theorem C09_conc_inv (c : Cfg) (hc : c.OK) (sched : List Tid) : AInv (run c.init sched) :=
  ainv_run _ sched (ainv_init _ _ _ _ _ _ _ _ _ _ hc.1)

/-- when every thread has finished, the cache lock is free -/
theorem C09_lock_free_at_quiescence (c : Cfg) (hc : c.OK) (sched : List Tid)
    (hq : ∀ t, finished (run c.init sched) t = true) : (run c.init sched).lock = none := by
  have h := C09_conc_inv c hc sched
  cases hl : (run c.init sched).lock with
  | none => rfl
  | some w =>
    have := (h.holder w).2 hl
    have hw := hq w
    simp only [finished, decide_eq_true_eq] at hw
    rw [hw] at this
    simp [holds] at this

/-- no deadlock: as long as some thread is unfinished, some thread is enabled -/
theorem C09_progress (c : Cfg) (hc : c.OK) (sched : List Tid) (t : Tid)
    (ht : finished (run c.init sched) t = false) : ∃ u, (step (run c.init sched) u).isSome = true := by
  have h := C09_conc_inv c hc sched
  cases hl : (run c.init sched).lock with
  | none =>
    refine ⟨t, enabled_of_free _ t hl ?_⟩
    simpa [finished] using ht
  | some w => exact ⟨w, enabled_of_holds _ w ((h.holder w).2 hl)⟩

/-- cullCount races are benign: none of the invariants mentions `cc` — they hold whatever values the
    unsynchronised read-modify-write leaves there (stated: any initial `cc`/`freq`, every schedule). -/
theorem C09_cullcount_benign (c : Cfg) (hc : c.OK) (cc freq : Nat) (sched : List Tid) :
    AInv (run { c with cc := cc, freq := freq }.init sched) :=
  C09_conc_inv { c with cc := cc, freq := freq } hc sched

/-! ## the map clauses: partial theorems (programs without `create`) -/

theorem C09_inv_partial (c : Cfg) (hc : c.OK) (hn : NoCreateProgs c) (sched : List Tid) :
    BInv (run c.init sched) :=
  (inv_run _ sched (ainv_init _ _ _ _ _ _ _ _ _ _ hc.1) (binv_init _ _ _ _ _ _ _ _ _ _ hc.2)
    (nocreate_init _ _ _ _ _ _ _ _ _ _ hn)).2.1

/-- `cache` and `expiredCache` never hold two different objects for one id -/
theorem C09_one_object_per_id_partial (c : Cfg) (hc : c.OK) (hn : NoCreateProgs c) (sched : List Tid)
    (i : Id) (o p : Obj) (h1 : aget (run c.init sched).strong i = some o)
    (h2 : aget (run c.init sched).weak i = some p) : o = p :=
  (C09_inv_partial c hc hn sched).uniq i o p h1 h2

/-- every object a thread got, and every object the environment held at the start, stays reachable for
    its id through `cache` ∪ `expiredCache` (or is the entry the lock holder is moving right now), unless
    an `expire(id)` removed it (`stale`) -/
theorem C09_referenced_reachable_partial (c : Cfg) (hc : c.OK) (hn : NoCreateProgs c) (sched : List Tid) :
    (∀ t i o, Out.obj i o ∈ ((run c.init sched).th t).outs → Reach (run c.init sched) i o) ∧
    (∀ i o, (aget c.strong i = some o ∨ aget c.weak i = some o) → Reach (run c.init sched) i o) := by
  refine ⟨(C09_inv_partial c hc hn sched).outs, ?_⟩
  intro i o h0
  have hr : Reach c.init i o := by
    rcases h0 with h | h
    · exact Or.inl h
    · exact Or.inr (Or.inl h)
  exact reach_run _ sched (ainv_init _ _ _ _ _ _ _ _ _ _ hc.1) (binv_init _ _ _ _ _ _ _ _ _ _ hc.2)
    (nocreate_init _ _ _ _ _ _ _ _ _ _ hn) i o hr

/-- all completed operations on one id returned the same object, unless an `expire(id)` removed one of
    them from the cache in between -/
theorem C09_same_object_partial (c : Cfg) (hc : c.OK) (hn : NoCreateProgs c) (sched : List Tid)
    (t u : Tid) (i : Id) (o p : Obj)
    (ht : Out.obj i o ∈ ((run c.init sched).th t).outs) (hu : Out.obj i p ∈ ((run c.init sched).th u).outs)
    (ho : o ∉ (run c.init sched).stale) (hp : p ∉ (run c.init sched).stale) : o = p := by
  have hb := C09_inv_partial c hc hn sched
  have r1 := hb.outs t i o ht
  have r2 := hb.outs u i p hu
  have hu := hb.uniq
  have ht1 := hb.tr1
  unfold Reach at r1 r2
  grind

/-- … and it is the object the environment held for that id at the start, if there was one -/
theorem C09_same_object_as_initial_partial (c : Cfg) (hc : c.OK) (hn : NoCreateProgs c) (sched : List Tid)
    (t : Tid) (i : Id) (o p : Obj)
    (ht : Out.obj i o ∈ ((run c.init sched).th t).outs) (h0 : aget c.strong i = some p ∨ aget c.weak i = some p)
    (ho : o ∉ (run c.init sched).stale) (hp : p ∉ (run c.init sched).stale) : o = p := by
  have hb := C09_inv_partial c hc hn sched
  have r1 := hb.outs t i o ht
  have r2 := (C09_referenced_reachable_partial c hc hn sched).2 i p h0
  have hu := hb.uniq
  have ht1 := hb.tr1
  unfold Reach at r1 r2
  grind

/-- no operation ends with an exception other than the documented not-found -/
theorem C09_no_exception_but_notfound_partial (c : Cfg) (hc : c.OK) (hn : NoCreateProgs c) (sched : List Tid)
    (t : Tid) (e : Exc) : Out.exc e ∉ ((run c.init sched).th t).outs :=
  (inv_run_e _ sched (ainv_init _ _ _ _ _ _ _ _ _ _ hc.1) (binv_init _ _ _ _ _ _ _ _ _ _ hc.2)
    (nocreate_init _ _ _ _ _ _ _ _ _ _ hn) (einv_init _ _ _ _ _ _ _ _ _ _) t).2 e

/-- `expire` is the only source of `stale`: without it the partial theorems are unconditional -/
example : (run (Cfg.init ⟨true, [(1, 0)], [], [1], 1, 100, 2, 0, 0, fun t => if t < 2 then [.get 1] else []⟩)
    [0, 1, 0, 1, 0, 1, 0, 1]).stale = [] := by decide

/-! ## the full statements are FALSE of the current code: concrete schedules (replayed on the real
    `cache.py` by harness/c09.py on every run) -/

/-- thread 0 creates row 7 while thread 1 runs `expireAll`; the cache holds row 1 (object 0) -/
def wCreateExpireAll : Cfg :=
  ⟨true, [(1, 0)], [], [1], 1, 100, 2, 0, 0, fun t => if t = 0 then [.create 7] else if t = 1 then [.expireAll] else []⟩

/-- thread 0 creates row 7 while thread 1 gets row 7 -/
def wCreateGet : Cfg :=
  ⟨true, [(1, 0)], [], [1], 1, 100, 2, 0, 0, fun t => if t = 0 then [.create 7] else if t = 1 then [.get 7] else []⟩

theorem C09_wCreateExpireAll_OK : wCreateExpireAll.OK :=
  ⟨by decide, by intro i o p _ h2; simp [wCreateExpireAll] at h2⟩

theorem C09_wCreateGet_OK : wCreateGet.OK :=
  ⟨by decide, by intro i o p _ h2; simp [wCreateGet] at h2⟩

/-- `expireAll` finished its copy loop, `created` inserts into the old dict, `self.cache = {}` drops it -/
def schedLost : List Tid := [1, 1, 1, 1, 0, 0, 0, 0, 0, 0, 1, 1]
/-- `created` inserts while `expireAll` iterates: the next `next()` raises RuntimeError -/
def schedRuntimeError : List Tid := [1, 0, 0, 0, 0, 0, 0, 1, 1]
/-- INSERT, then the other thread's whole get (miss, SELECT finds the row), then `created` overwrites -/
def schedTwo : List Tid := [0, 1, 1, 1, 1, 1, 1, 1, 1, 1, 1, 0, 0, 0, 0, 0]

/-- FULL statement of "referenced objects stay reachable" (no restriction on programs): FALSE.
    Lock-free `created` vs the `self.cache = {}` swap of `expireAll`: thread 0 holds object 1 for row 7,
    which is in neither map, was not expired and is not in transit. -/
theorem C09_referenced_reachable_full_FALSE :
    ¬ (∀ (c : Cfg), c.OK → ∀ (sched : List Tid) (t : Tid) (i : Id) (o : Obj),
        Out.obj i o ∈ ((run c.init sched).th t).outs → Reach (run c.init sched) i o) := by
  intro h
  have := h wCreateExpireAll C09_wCreateExpireAll_OK schedLost 0 7 1 (by decide)
  revert this
  decide

/-- FULL statement of "no exception other than not-found": FALSE.
    `created` inserting during `expireAll`'s `for key, value in self.cache.items()` → RuntimeError
    ("dictionary changed size during iteration") in the expiring thread. -/
theorem C09_no_exception_but_notfound_full_FALSE :
    ¬ (∀ (c : Cfg), c.OK → ∀ (sched : List Tid) (t : Tid) (e : Exc),
        Out.exc e ∉ ((run c.init sched).th t).outs) := by
  intro h
  exact h wCreateExpireAll C09_wCreateExpireAll_OK schedRuntimeError 1 .runtimeError (by decide)

/-- FULL statement of "same object": FALSE.  A `get` of a row between another thread's INSERT and its
    lock-free `cache.created` builds a second instance; `created` then overwrites the cache entry. -/
theorem C09_same_object_full_FALSE :
    ¬ (∀ (c : Cfg), c.OK → ∀ (sched : List Tid) (t u : Tid) (i : Id) (o p : Obj),
        Out.obj i o ∈ ((run c.init sched).th t).outs → Out.obj i p ∈ ((run c.init sched).th u).outs →
        o ∉ (run c.init sched).stale → p ∉ (run c.init sched).stale → o = p) := by
  intro h
  have := h wCreateGet C09_wCreateGet_OK schedTwo 0 1 7 1 2 (by decide) (by decide) (by decide) (by decide)
  revert this
  decide

/-- the witnesses end in quiescence with the lock free (they are not deadlocks or half-run schedules) -/
example : (∀ t, t < 2 → finished (run wCreateExpireAll.init schedLost) t = true) ∧
    (run wCreateExpireAll.init schedLost).lock = none ∧
    (run wCreateExpireAll.init schedLost).strong = [] ∧
    (run wCreateExpireAll.init schedLost).weak = [(1, 0)] := by decide
example : ((run wCreateExpireAll.init schedRuntimeError).th 1).outs = [.exc .runtimeError] ∧
    ((run wCreateExpireAll.init schedRuntimeError).th 0).outs = [.obj 7 1] := by decide
example : ((run wCreateGet.init schedTwo).th 0).outs = [.obj 7 1] ∧
    ((run wCreateGet.init schedTwo).th 1).outs = [.obj 7 2] ∧
    (run wCreateGet.init schedTwo).strong = [(1, 0), (7, 1)] := by decide

end SqlObjVerif.Conc
