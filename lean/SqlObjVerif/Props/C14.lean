import SqlObjVerif.Lemmas.DdlCat
import SqlObjVerif.Lemmas.DdlStyle
import SqlObjVerif.Model.Ddl
import SqlObjVerif.Extracted.Ddl
namespace SqlObjVerif.Ddl

theorem C14_join_table_once {a b : Name} (h : a ≠ b) :
    (createsLink a b = true ∧ createsLink b a = false) ∨ (createsLink a b = false ∧ createsLink b a = true) :=
  join_once_distinct h

end SqlObjVerif.Ddl
