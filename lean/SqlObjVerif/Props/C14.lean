import SqlObjVerif.Lemmas.DdlCols
import SqlObjVerif.Lemmas.DdlCat
import SqlObjVerif.Lemmas.DdlStyle
import SqlObjVerif.Lemmas.DdlFlags
import SqlObjVerif.Lemmas.DdlXSql
import SqlObjVerif.Lemmas.DdlXStyle
import SqlObjVerif.Lemmas.DdlXJoin
import SqlObjVerif.Lemmas.DdlXWMain
import SqlObjVerif.Lemmas.DdlXWCreate
import SqlObjVerif.Lemmas.DdlXWCol
import SqlObjVerif.Lemmas.DdlXWRecreate
/-!
# C14 — the generated schema matches the class declaration, in every dialect

Property theorems only.  `Extracted.tables` is regenerated from `/repo` on every run; `skeleton` is the
quote- and paren-aware reader of `Model/DdlRead.lean` (the specification side); `bs` is the reader's
backslash convention (the statements hold for both where the dialect's literals double backslashes).
-/
namespace SqlObjVerif.Ddl

/-- what the declaration says about one column -/
def skelOf (st : Style) (col : Col) : ColSkel :=
  ⟨col.db st, col.notNone || col.alternateID, col.unique.getD col.alternateID || col.alternateID, .none⟩

/-- the auto-assigned key column: `PRIMARY KEY` (`NOT NULL PRIMARY KEY` on Firebird), `IDENTITY UNIQUE` on MSSQL / Sybase -/
def idSkel (d : Dialect) (decl : Decl) : ColSkel :=
  ⟨decl.idCol, (idFlags d).notNull, (idFlags d).unique, (idFlags d).key⟩

/-- The tables extracted from the current source pass the decidable reader-compatibility check
    (every type name / keyword / template is a self-contained fragment without stray keywords). -/
theorem C14_extracted_tables_ok (bs : Bool) : TablesOK bs Extracted.tables := tablesOK_extracted bs

/-- **C14 (text level).**  For every dialect, server capability, reader convention compatible with the
    dialect's literals, and every well-formed declaration (any number of columns of any modelled kind, any
    enum values), the skeleton read from the generated CREATE TABLE text is the key column followed by the
    declared columns, in declaration order, under their db names, NOT NULL ⇔ notNone ∨ alternateID,
    UNIQUE ⇔ unique ∨ alternateID, no key marker on them.  (MaxDB foreign keys — a column item followed by
    a table-level `FOREIGN KEY` item — included; `h` only excludes what the renderer itself refuses:
    EnumCol on MaxDB, an EnumCol without values.) -/
theorem C14_skeleton_eq_declaration (d : Dialect) (c : Caps) (bs : Bool) (decl : Decl)
    (hbs : bsOK bs (litDb Extracted.tables d)) (hwf : declWF bs decl = true)
    (text : Str) (h : createTableSQL Extracted.tables d c decl = some text) :
    skeleton bs text = idSkel d decl :: decl.cols.map (skelOf decl.style) :=
  skeleton_eq_declaration (tablesOK_extracted bs) d c decl hbs hwf text h

/-- the same for ANY table set that passes the check: an edit of a type name in the source keeps the
    theorem as long as `TablesOK` still decides to true for the regenerated tables -/
theorem C14_skeleton_eq_declaration_any_tables (T : Tables) (bs : Bool) (hT : TablesOK bs T) (d : Dialect) (c : Caps)
    (decl : Decl) (hbs : bsOK bs (litDb T d)) (hwf : declWF bs decl = true)
    (text : Str) (h : createTableSQL T d c decl = some text) :
    skeleton bs text = idSkel d decl :: decl.cols.map (skelOf decl.style) :=
  skeleton_eq_declaration hT d c decl hbs hwf text h

/-- with the plain reader (`bs = false`) no condition on the dialect is needed -/
theorem C14_skeleton_eq_declaration_plain_reader (d : Dialect) (c : Caps) (decl : Decl)
    (hwf : declWF false decl = true) (text : Str)
    (h : createTableSQL Extracted.tables d c decl = some text) :
    skeleton false text = idSkel d decl :: decl.cols.map (skelOf decl.style) :=
  skeleton_eq_declaration (tablesOK_extracted false) d c decl (by intro h; cases h) hwf text h

/-- an enum value, whatever characters it contains, is one opaque literal for the reader -/
theorem C14_enum_value_is_opaque (bs : Bool) (l : LitDb) (h : bsOK bs l) (v : Str) : Inner bs (sqlLit l v) :=
  inner_lit bs l h v

/-! ### foreign keys -/

def actionOf : Cascade → Action
  | .none => .none | .cascade => .cascade | .restrict => .restrict | .setNull => .setNull

/-- the extracted ON DELETE texts (used by the sqlite column clause and the mysql / postgres ALTER TABLE
    statements) read back as the declared cascade setting -/
theorem C14_fk_action_matches_cascade (bs : Bool) (cas : Cascade) :
    (fragCheck bs (Extracted.tables.fkAction cas)).map readAction = some (actionOf cas) := by
  cases bs <;> cases cas <;> decide +kernel

/-! ### link tables -/

/-- exactly one class of a many-to-many pair (distinct class names) creates the link table -/
theorem C14_join_table_once {a b : Name} (h : a ≠ b) :
    (createsLink a b = true ∧ createsLink b a = false) ∨ (createsLink a b = false ∧ createsLink b a = true) :=
  join_once_distinct h

/-- full statement "a class that declares a RelatedJoin gets its link table created" is false: the creating
    side is chosen by class-name order even when only the later class declares the join -/
theorem C14_join_declared_is_created_full_FALSE : ¬ (∀ a b : Name, createsLink a b = true) := by
  intro h
  exact absurd (h [90, 101, 100] [65, 108, 112, 104, 97]) (by decide)

theorem C14_join_declared_is_created_partial {a b : Name} (h : pyLt b a = false) : createsLink a b = true := by
  simp [createsLink, h]

/-- the same in terms of what the current source compares (`Extracted.linkCreateKey`: class names or table
    names): of two classes whose compared names differ exactly one creates the link table -/
theorem C14_join_table_once_by_key (a b : ClsNames)
    (h : Extracted.linkCreateKey.of a ≠ Extracted.linkCreateKey.of b) :
    (sideActs Extracted.linkCreateKey a b = true ∧ sideActs Extracted.linkCreateKey b a = false) ∨
    (sideActs Extracted.linkCreateKey a b = false ∧ sideActs Extracted.linkCreateKey b a = true) :=
  join_once_distinct h

/-- the class that creates a link table is the class that drops it (`_getJoinsToCreate` and
    `dropJoinTables` apply the same test), whatever table names / styles the classes use -/
theorem C14_join_creator_is_dropper (self other : ClsNames) :
    sideActs Extracted.linkCreateKey self other = sideActs Extracted.linkDropKey self other := by
  have h : Extracted.linkCreateKey = Extracted.linkDropKey := by decide
  rw [h]

/-- dropping one class of a two-sided pair and creating it again leaves the link table in place -/
theorem C14_join_drop_then_recreate (x other : ClsNames) :
    linkAfterCreate Extracted.linkCreateKey x other (linkAfterDrop Extracted.linkDropKey x other true) = true := by
  have h : Extracted.linkCreateKey = Extracted.linkDropKey := by decide
  rw [h]
  cases hs : sideActs Extracted.linkDropKey x other <;> simp [linkAfterCreate, linkAfterDrop, hs]

/-! ### create-if-missing / drop-if-present over the catalogue model -/

theorem C14_create_if_missing_idempotent {r : Req} {c c1 : Cat} (h : createTable true r c = .ok c1) :
    createTable true r c1 = .ok c1 := create_if_missing_idempotent h

theorem C14_drop_if_present_idempotent {r : Req} {c c1 : Cat} (h : dropTable true r c = .ok c1) :
    dropTable true r c1 = .ok c1 := drop_if_present_idempotent h

theorem C14_drop_after_create_restores {r : Req} {c c1 c2 : Cat} (h1 : createTable false r c = .ok c1)
    (h2 : dropTable false r c1 = .ok c2) : ∀ t, t ∈ c2.tables ↔ t ∈ c.tables := drop_after_create h1 h2

/-- `dropTable(ifExists=True, dropJoinTables=…)` NEVER fails, whatever is in the catalogue: class table present
    or absent, each link table present or absent (e.g. made with `createJoinTables=False`), a link table listed
    twice (self-referential join); and afterwards the class table is gone.  Relies on the flag being handed on
    to `dropJoinTables`, which is read from the source (`Extracted.dropPassesIfExists`). -/
theorem C14_drop_if_present_never_fails (dj : Bool) (r : Req) (c : Cat) :
    ∃ c1, dropTableG Extracted.dropPassesIfExists Extracted.dropDedupes true dj r c = .ok c1 ∧ r.table ∉ c1.tables := by
  have h : Extracted.dropPassesIfExists = true := by decide
  rw [h]; exact dropTableG_if_present_ok _ dj r c

theorem C14_drop_if_present_idempotent_flags (dj : Bool) (r : Req) (c c1 : Cat)
    (h : dropTableG Extracted.dropPassesIfExists Extracted.dropDedupes true dj r c = .ok c1) :
    dropTableG Extracted.dropPassesIfExists Extracted.dropDedupes true dj r c1 = .ok c1 := by
  have hp : Extracted.dropPassesIfExists = true := by decide
  rw [hp] at h ⊢; exact dropTableG_idempotent _ dj r c c1 h

/-- without the flag handed on, drop-if-present fails as soon as an owned link table is absent -/
theorem C14_drop_if_present_needs_the_flag :
    ¬ (∀ (r : Req) (c : Cat), ∃ c1, dropTableG false false true true r c = .ok c1) := by
  intro h
  obtain ⟨c1, h1⟩ := h ⟨[116], [[108]], []⟩ ⟨[[116]], []⟩
  have e : dropTableG false false true true ⟨[116], [[108]], []⟩ ⟨[[116]], []⟩ = .error () := by rfl
  rw [e] at h1; cases h1

theorem C14_create_if_missing_idempotent_flags (cj : Bool) (r : Req) (c c1 : Cat)
    (h : createTableG Extracted.createPassesIfNotExists Extracted.createDedupes true cj r c = .ok c1) :
    createTableG Extracted.createPassesIfNotExists Extracted.createDedupes true cj r c1 = .ok c1 :=
  createTableG_idempotent _ _ cj r c c1 h

/-- What plain `createTable()` made, plain `dropTable()` removes again — it succeeds and the table list is as
    before — for every link list, including a link table listed twice (self-referential join declared in both
    directions): create and drop select and de-duplicate the joins the same way (read from the source:
    `Extracted.createDedupes = Extracted.dropDedupes`).  Was false before bf4c6fa (second DROP of the same link
    table); the witness `links = [l, l]` is the example below and the self-join scenario of the harness. -/
theorem C14_plain_drop_after_create (r : Req) (c c1 : Cat)
    (h : createTableG Extracted.createPassesIfNotExists Extracted.createDedupes false true r c = .ok c1) :
    ∃ c2, dropTableG Extracted.dropPassesIfExists Extracted.dropDedupes false true r c1 = .ok c2 ∧
      c2.tables = c.tables := by
  have hd : Extracted.dropDedupes = Extracted.createDedupes := by decide
  rw [hd]
  have e1 : ∀ p d, createTableG p d false true r c = createTable false ⟨r.table, linksOf d r.links, r.idx⟩ c := by
    intro p d
    simp only [createTableG, createTable, Bool.false_eq_true, false_and, if_false, Bool.and_false, if_true]
    split
    · rfl
    · cases createLinks false (linksOf d r.links) (addTbl r.table c) <;> rfl
  have e2 : ∀ p d, dropTableG p d false true r c1 = dropTable false ⟨r.table, linksOf d r.links, r.idx⟩ c1 := by
    intro p d; simp [dropTableG, dropTable]
  rw [e1] at h
  rw [e2]
  obtain ⟨c2, h2, h3, _⟩ := drop_after_create_ok h
  exact ⟨c2, h2, h3⟩

example : dropTableG Extracted.dropPassesIfExists Extracted.dropDedupes false true
    ⟨[116], [[108], [108]], []⟩ ⟨[[116], [108]], []⟩ = .ok ⟨[], []⟩ := by rfl

/-! ### addColumn / delColumn with changeSchema -/

theorem C14_add_column_preserves_others {t : Tbl} {c c' : Name} (h : c' ≠ c) (i : Nat) :
    ((addColumn t c).rows[i]?).map (get · c') = (t.rows[i]?).map (get · c') := add_preserves_others t h i

theorem C14_del_column_preserves_others {t : Tbl} {c c' : Name} (h : c' ≠ c) (hc : c' ∈ t.cols) (i : Nat) :
    ((delColumn t c).rows[i]?).map (get · c') = (t.rows[i]?).map (get · c') := del_preserves_others t h hc i

theorem C14_add_del_column_cols {t : Tbl} {c : Name} :
    (addColumn t c).cols = t.cols ++ [c] ∧ (delColumn t c).cols = t.cols.filter (· ≠ c) := ⟨add_cols t c, del_cols t c⟩

/-! ### Style name mapping -/

theorem C14_style_roundtrip {s : List Nat} (h : Camel s = true) : underToMixed (mixedToUnder s) = s := style_roundtrip h

theorem C14_style_mixedToUnder_injective {a b : List Nat} (ha : Camel a = true) (hb : Camel b = true)
    (h : mixedToUnder a = mixedToUnder b) : a = b := style_mixedToUnder_injective ha hb h

theorem C14_style_fk_column_name {s : List Nat} (hne : s ≠ []) (hID : endsWith s [73, 68] = false) :
    mixedToUnder (s ++ [73, 68]) = mixedToUnder s ++ [95, 105, 100] := style_fk_name hne hID

theorem C14_style_db_names_are_identifiers {s : List Nat} (hs : ∀ c ∈ s, isIdentC c = true) :
    ∀ c ∈ mixedToUnder s, isLowIdentC c = true := style_under_identchars hs

/-! ### Non-vacuity -/
example : fragCheck false [39, 97, 44, 32, 78, 79, 84, 32, 78, 85, 76, 76, 39] = some [.str] := by decide
example : (fragCheck true Extracted.tables.kwNotNull) = some [.w kwNOT, .w kwNULL] := by decide +kernel
example : createsLink [65] [66] = true ∧ createsLink [66] [65] = false := by decide

/-! ### The TRANSLATED source

`vlib/extractors/pyddl.py` translates the Python AST of the renderers into the PyDdl program
`SqlObjVerif.PyDdl.Extracted.prog` on every run; `callN prog ddlI n` runs it (call depth `n`) on the image of the
declaration (`Model/DdlX.lean`, interface assumptions in its header).  The theorems below say that the translated
functions compute the pieces of the hand model `Model/Ddl.lean` — for ALL declarations, dialects, capability
records, styles and every sufficiently large call depth — and restate the text-level property about the
translated `DBAPI.createColumns`. -/

section Translated
variable {x : SqlObjVerif.DdlX.ClsX}
open SqlObjVerif.DdlX
open SqlObjVerif.PyDdl (callN R Val Callee)
open SqlObjVerif.PyDdl.Extracted (prog M__extraSQL M_createColumn M_createIDColumn M_joinSQLType
  M__SO_createJoinTableSQL M_createColumns M_createReferenceConstraint M_createReferenceConstraints M_createTableSQL
  F_mixedToUnder F_underToMixed F_capword F_lowerword M_pythonAttrToDBColumn M_dbColumnToPythonAttr
  M_pythonClassToDBTable M_tableReference M_idForTable M_instanceAttrToIDAttr M_pythonClassToAttr
  C_SQLObject M__getJoinsToCreate M_createJoinTablesSQL M_createIndexSQL M_createJoinTables M_dropJoinTables
  M_dropTable M_createTable M__SO_createJoinTable M__SO_createIndex M_createIndexes M_addColumn M_delColumn
  C_SQLiteConnection)
open SqlObjVerif.PyDdl (callNW)

/-- `SOCol._extraSQL` = `extraPieces` (NOT NULL / UNIQUE / DEFAULT in source order) on every column class -/
theorem C14_translated_extraSQL_eq_model (n : Nat) (st : Style) (tb : Str) (c0 : Val) (col : Col) :
    callN prog ddlI (n + 1) (.meth (clsOf col.kind) M__extraSQL) [colV Extracted.tables st tb c0 col] =
      .ok (strList (extraPieces Extracted.tables col)) :=
  extraSQL_call n _ st tb c0 col (resolve_extraSQL col.kind)

/-- `col.<dialect>CreateSQL(…)` — dispatched through col.py's class hierarchy to `SOCol` / `SOForeignKey`, with the
    `_<dialect>Type` / `_sqlType` / `_checkType` / `addSQLAttrs` / `_extraSQL` methods it calls — = `colText`: the same
    text, or both refuse (EnumCol on MaxDB, EnumCol without values) -/
theorem C14_translated_colCreateSQL_eq_model (n : Nat) (st : Style) (tb : Str) (c0 : Val) (col : Col) (d : Dialect)
    (c : Caps) :
    agrees (callN prog ddlI (n + 5) (.meth (clsOf col.kind) (csM d)) (colV Extracted.tables st tb c0 col :: csArgs d c))
      (colText Extracted.tables d c st col) :=
  col_createSQL n st tb c0 col d c

/-- `<Connection>.createColumn(soClass, col)` of the seven connection classes = `colText` -/
theorem C14_translated_createColumn_eq_model (n : Nat) (st : Style) (tb : Str) (c0 sv : Val) (col : Col) (d : Dialect)
    (c : Caps) :
    agrees (callN prog ddlI (n + 6) (.meth (connCls d) M_createColumn) [connV d c, sv, colV Extracted.tables st tb c0 col])
      (colText Extracted.tables d c st col) := by
  rw [createColumn_fwd (n + 5)]; exact col_createSQL n st tb c0 col d c

/-- `createIDColumn` (`_createIDColumn` on SQLite) of the seven connection classes = `idText` -/
theorem C14_translated_createIDColumn_eq_model (n : Nat) (d : Dialect) (c : Caps) (decl : Decl) (c0 : Val) :
    callN prog ddlI (n + 2) (.meth (connCls d) M_createIDColumn) [connV d c, soClassV decl c0 x] =
      resS (idText Extracted.tables d decl) :=
  createIDColumn_eq n d c decl c0

theorem C14_translated_joinSQLType_eq_model (n : Nat) (d : Dialect) (c : Caps) (j : Val) :
    callN prog ddlI (n + 1) (.meth (connCls d) M_joinSQLType) [connV d c, j] = .ok (.str (Extracted.tables.joinType d)) :=
  joinSQLType_eq n d c j

/-- `_SO_createJoinTableSQL` = `joinTableSQL` -/
theorem C14_translated_createJoinTableSQL_eq_model (n : Nat) (d : Dialect) (c : Caps) (j : Join) :
    callN prog ddlI (n + 2) (.meth (connCls d) M__SO_createJoinTableSQL) [connV d c, joinV j] =
      .ok (.str (joinTableSQL Extracted.tables d j)) :=
  createJoinTableSQL_eq n d c j

/-- `DBAPI.createColumns` (the id column, the comprehension over `columnList`, the indentation and `",\n".join`)
    = the body of the hand model's CREATE TABLE text; a column that refuses makes the whole call raise -/
theorem C14_translated_createColumns_eq_model (n : Nat) (d : Dialect) (c : Caps) (decl : Decl) (c0 : Val) :
    agrees (callN prog ddlI (n + 8) (.meth (connCls d) M_createColumns) [connV d c, soClassV decl c0 x])
      (colsModel d c decl) :=
  createColumns_agrees n d c decl c0

/-- the hand model's CREATE TABLE text is the extracted frame around that body -/
theorem C14_createTableSQL_is_frame_around_columns (d : Dialect) (c : Caps) (decl : Decl) :
    createTableSQL Extracted.tables d c decl = (colsModel d c decl).map fun b =>
      Extracted.tables.createTable.1 ++ decl.tableName ++ Extracted.tables.createTable.2.1 ++ b ++
        Extracted.tables.createTable.2.2 :=
  createTableSQL_eq_colsModel d c decl

/-- **C14 about the translated source.**  Whatever body the TRANSLATED `DBAPI.createColumns` returns for a
    well-formed declaration, the skeleton read from the CREATE TABLE statement around it is the key column followed
    by the declared columns, in order, with the declared db names and NOT NULL / UNIQUE flags. -/
theorem C14_translated_skeleton_eq_declaration (n : Nat) (d : Dialect) (c : Caps) (bs : Bool) (decl : Decl) (c0 : Val)
    (hbs : bsOK bs (litDb Extracted.tables d)) (hwf : declWF bs decl = true) (body : Str)
    (h : callN prog ddlI (n + 8) (.meth (connCls d) M_createColumns) [connV d c, soClassV decl c0 x] = .ok (.str body)) :
    skeleton bs (Extracted.tables.createTable.1 ++ decl.tableName ++ Extracted.tables.createTable.2.1 ++ body ++
        Extracted.tables.createTable.2.2) =
      idSkel d decl :: decl.cols.map (skelOf decl.style) := by
  have ha := createColumns_agrees (x := x) n d c decl c0
  cases hm : colsModel d c decl with
  | none =>
    rw [hm] at ha
    obtain ⟨e, he⟩ := ha
    rw [he] at h; cases h
  | some b =>
    rw [hm] at ha
    simp only [agrees] at ha
    rw [ha] at h
    injection h with h; injection h with h; subst h
    apply C14_skeleton_eq_declaration d c bs decl hbs hwf
    rw [createTableSQL_eq_colsModel, hm]; rfl

/-- non-vacuity: the translated program really renders a two-column table on MySQL with microsecond support -/
example : callN prog ddlI 8 (.meth (connCls .mysql) M_createColumns)
    [connV .mysql ⟨true, false⟩, soClassV ⟨[80], .under, false, none, none, false, .none,
      [⟨[97], none, .simple .dateTime, true, none, false, none⟩,
       ⟨[98], none, .enum [some [120], none], false, none, false, none⟩], [], []⟩ .none ⟨[], .none⟩] =
    .ok (.str (lit "    id INT PRIMARY KEY AUTO_INCREMENT,\n    a DATETIME(6) NOT NULL,\n    b ENUM('x')")) := by
  rfl

/-! #### reference constraints and `createTableSQL` -/

/-- `<Connection>.createReferenceConstraint(soClass, col)` → `col.<dialect>CreateReferenceConstraint()` for a foreign
    key = `alterFk`: on MySQL / PostgreSQL the `ALTER TABLE … ADD CONSTRAINT … FOREIGN KEY … REFERENCES …` statement
    with the ON DELETE action chosen from `cascade` (None ↦ none, 'null' ↦ SET NULL, true ↦ CASCADE, false ↦ RESTRICT;
    MySQL prefixes the constraint name with `table.split('.')[-1]`); `None` on the five other dialects (for MaxDB /
    MSSQL / Sybase this is the known finding "no ON DELETE action", kept as it is) -/
theorem C14_translated_referenceConstraint_eq_model (n : Nat) (d : Dialect) (c : Caps) (sv : Val) (decl : Decl)
    (c0 : Val) (tT tI : Str) (tS : Bool) (cas : Cascade) (name : Str) (dbn : Option Str) (nn : Bool) (uq : Option Bool)
    (alt : Bool) (ds : Option Str) :
    callN prog ddlI (n + 2) (.meth (connCls d) M_createReferenceConstraint)
        [connV d c, sv, colV Extracted.tables decl.style decl.tableName c0 (fkCol name dbn tT tI tS cas nn uq alt ds)] =
      .ok (optStr (alterFk Extracted.tables d decl (fkCol name dbn tT tI tS cas nn uq alt ds))) :=
  fk_refConstraint n _ d c sv decl c0 tT tI tS cas name dbn nn uq alt ds

/-- `DBAPI.createReferenceConstraints` (the isinstance-filtered comprehension and the truthiness filter) = `constraints` -/
theorem C14_translated_createReferenceConstraints_eq_model (n : Nat) (d : Dialect) (c : Caps) (decl : Decl) (c0 : Val) :
    callN prog ddlI (n + 3) (.meth (connCls d) M_createReferenceConstraints) [connV d c, soClassV decl c0 x] =
      .ok (strList (constraints Extracted.tables d decl)) :=
  createReferenceConstraints_eq n d c decl c0

/-- **`DBAPI.createTableSQL` translated = (`createTableSQL`, `constraints`) of the hand model**, or both refuse -/
theorem C14_translated_createTableSQL_eq_model (n : Nat) (d : Dialect) (c : Caps) (decl : Decl) (c0 : Val) :
    agreesT (callN prog ddlI (n + 9) (.meth (connCls d) M_createTableSQL) [connV d c, soClassV decl c0 x])
      (createTableSQL Extracted.tables d c decl) (constraints Extracted.tables d decl) :=
  createTableSQL_agrees n d c decl c0

/-- **C14 about the translated `createTableSQL`.**  Whatever text the TRANSLATED `DBAPI.createTableSQL` returns for a
    well-formed declaration, its skeleton is the key column followed by the declared columns. -/
theorem C14_translated_createTableSQL_skeleton (n : Nat) (d : Dialect) (c : Caps) (bs : Bool) (decl : Decl) (c0 : Val)
    (hbs : bsOK bs (litDb Extracted.tables d)) (hwf : declWF bs decl = true) (text : Str) (cons : Val)
    (h : callN prog ddlI (n + 9) (.meth (connCls d) M_createTableSQL) [connV d c, soClassV decl c0 x] =
      .ok (.tuple [.str text, cons])) :
    skeleton bs text = idSkel d decl :: decl.cols.map (skelOf decl.style) := by
  have ha := createTableSQL_agrees (x := x) n d c decl c0
  cases hm : createTableSQL Extracted.tables d c decl with
  | none =>
    rw [hm] at ha
    obtain ⟨e, he⟩ := ha
    rw [he] at h; cases h
  | some t =>
    rw [hm] at ha
    simp only [agreesT] at ha
    rw [ha] at h
    injection h with h; injection h with h; injection h with h1 h2; injection h1 with h1; subst h1
    exact C14_skeleton_eq_declaration d c bs decl hbs hwf t hm

/-! #### styles.py -/

theorem C14_translated_style_mixedToUnder_eq_model (n : Nat) (s : Str) :
    callN prog ddlI (n + 4) (.func F_mixedToUnder) [.str s] = .ok (.str (mixedToUnder s)) := mixedToUnder_call n s

theorem C14_translated_style_underToMixed_eq_model (n : Nat) (s : Str) :
    callN prog ddlI (n + 2) (.func F_underToMixed) [.str s] = .ok (.str (underToMixed s)) := underToMixed_call n s

/-- `capword` / `lowerword` on a non-empty word (`''` raises IndexError, also in the translation) -/
theorem C14_translated_style_capword_eq_model (n : Nat) (c : Nat) (s : Str) :
    callN prog ddlI (n + 1) (.func F_capword) [.str (c :: s)] = .ok (.str (capword (c :: s))) ∧
    callN prog ddlI (n + 1) (.func F_lowerword) [.str (c :: s)] = .ok (.str (lowerword (c :: s))) ∧
    callN prog ddlI (n + 1) (.func F_capword) [.str []] = .exc .indexError :=
  ⟨capword_call n c s, lowerword_call n c s, capword_call_empty n⟩

/-- the methods of `Style`, `MixedCaseUnderscoreStyle`, `MixedCaseStyle` (dispatched through the class table) -/
theorem C14_translated_style_attrToCol_eq_model (n : Nat) (st : Style) (lid : Bool) (c : Nat) (s : Str) :
    callN prog ddlI (n + 5) (.meth (styleCls st) M_pythonAttrToDBColumn) [styleV st lid, .str (c :: s)] =
      .ok (.str (st.attrToCol (c :: s))) := style_attrToCol_call n st lid c s

theorem C14_translated_style_colToAttr_eq_model (n : Nat) (st : Style) (lid : Bool) (c : Nat) (s : Str) :
    callN prog ddlI (n + 3) (.meth (styleCls st) M_dbColumnToPythonAttr) [styleV st lid, .str (c :: s)] =
      .ok (.str (st.colToAttr (c :: s))) := style_colToAttr_call n st lid c s

theorem C14_translated_style_classToTable_eq_model (n : Nat) (st : Style) (lid : Bool) (c : Nat) (s : Str) :
    callN prog ddlI (n + 5) (.meth (styleCls st) M_pythonClassToDBTable) [styleV st lid, .str (c :: s)] =
      .ok (.str (st.classToTable (c :: s))) := style_classToTable_call n st lid c s

theorem C14_translated_style_idForTable_eq_model (n : Nat) (st : Style) (lid : Bool) (t : Str) :
    callN prog ddlI (n + 1) (.meth (styleCls st) M_tableReference) [styleV st lid, .str t] =
      .ok (.str (st.tableReference t)) ∧
    callN prog ddlI (n + 2) (.meth (styleCls st) M_idForTable) [styleV st lid, .str t] =
      .ok (.str (st.idForTable lid t)) :=
  ⟨style_tableReference_call n st lid t, style_idForTable_call n st lid t⟩

theorem C14_translated_style_idAttr_eq_model (n : Nat) (st : Style) (lid : Bool) (c : Nat) (s : Str) :
    callN prog ddlI (n + 1) (.meth (styleCls st) M_instanceAttrToIDAttr) [styleV st lid, .str (c :: s)] =
      .ok (.str (Style.attrToIDAttr (c :: s))) ∧
    callN prog ddlI (n + 2) (.meth (styleCls st) M_pythonClassToAttr) [styleV st lid, .str (c :: s)] =
      .ok (.str (Style.classToAttr (c :: s))) :=
  ⟨style_attrToIDAttr_call n st lid (c :: s), style_classToAttr_call n st lid c s⟩

/-- **Round trip, about the translated source**: the translated `underToMixed` maps what the translated
    `mixedToUnder` returns for a camel-case name back to that name -/
theorem C14_translated_style_roundtrip (n m : Nat) (s t : Str) (h : Camel s = true)
    (ht : callN prog ddlI (n + 4) (.func F_mixedToUnder) [.str s] = .ok (.str t)) :
    callN prog ddlI (m + 2) (.func F_underToMixed) [.str t] = .ok (.str s) := by
  rw [mixedToUnder_call] at ht
  injection ht with ht; injection ht with ht; subst ht
  rw [underToMixed_call, style_roundtrip h]

/-- **Injectivity, about the translated source**: two camel-case names the translated `mixedToUnder` maps to the
    same column name are equal -/
theorem C14_translated_style_mixedToUnder_injective (n m : Nat) (a b : Str) (ha : Camel a = true) (hb : Camel b = true)
    (h : callN prog ddlI (n + 4) (.func F_mixedToUnder) [.str a] = callN prog ddlI (m + 4) (.func F_mixedToUnder) [.str b]) :
    a = b := by
  rw [mixedToUnder_call, mixedToUnder_call] at h
  injection h with h; injection h with h
  exact style_mixedToUnder_injective ha hb h

/-- the foreign-key column name, through the translated default style -/
theorem C14_translated_style_fk_column_name (n : Nat) (s : Str) (hne : s ≠ []) (hID : endsWith s [73, 68] = false) :
    callN prog ddlI (n + 4) (.func F_mixedToUnder) [.str (s ++ [73, 68])] =
      .ok (.str (mixedToUnder s ++ [95, 105, 100])) := by
  rw [mixedToUnder_call, style_fk_name hne hID]

/-! #### link tables -/

/-- `SQLObject._getJoinsToCreate` (the loop with its four `continue`s) = the fold `joinsToCreateX` -/
theorem C14_translated_joinsToCreate_eq_model (n : Nat) (js : List (Option JoinD)) :
    callN prog ddlI (n + 1) (.meth C_SQLObject M__getJoinsToCreate) [joinClsV js] =
      .ok (.list ((joinsToCreateX js).map jV)) := getJoinsToCreate_eq n js

/-- … and the link tables it selects are the hand model's: joins with an intermediate table, `createRelatedTable`
    not false, on the side `createsLink` picks (class-name order), each table once (`linksOf true`) -/
theorem C14_translated_joinsToCreate_links (js : List (Option JoinD)) :
    (joinsToCreateX js).map (·.join.table) =
      linksOf true (((js.filterMap id).filter eligible).map (·.join.table)) := joinsToCreate_tables js

/-- `SQLObject.createJoinTablesSQL` = the `joinTableSQL` texts of those joins, joined by `";\n"` -/
theorem C14_translated_createJoinTablesSQL_eq_model (n : Nat) (d : Dialect) (c : Caps) (js : List (Option JoinD)) :
    callN prog ddlI (n + 3) (.meth C_SQLObject M_createJoinTablesSQL) [joinClsV js, connV d c] =
      .ok (.str (joinWith (lit ";\n") ((joinsToCreateX js).map fun j => joinTableSQL Extracted.tables d j.join))) :=
  createJoinTablesSQL_eq n d c js

/-- non-vacuity: a self-referential join declared in both directions is selected once; the later class selects nothing -/
example : (joinsToCreateX [some ⟨true, none, [65], [65], ⟨[108], [120], [121]⟩⟩,
    some ⟨true, none, [65], [65], ⟨[108], [121], [120]⟩⟩, none,
    some ⟨true, none, [66], [65], ⟨[109], [120], [121]⟩⟩]).map (·.join.table) = [[108]] := by decide

example : callN prog ddlI 4 (.func F_mixedToUnder) [.str [102, 111, 111, 66, 97, 114, 73, 68]] =
    .ok (.str [102, 111, 111, 95, 98, 97, 114, 95, 105, 100]) := by rfl

/-! #### the stateful part: the translated code run against the catalogue (`Model/PyDdlW.lean`, `Model/DdlXW.lean`)

`callNW prog ddlI EX n w …` threads the model's catalogue `w : Cat` through the translated functions; `conn.query(sql)`
hands the statement text to the reader `execSQL`, `tableExists` reads the catalogue (interface: header of
`Model/DdlXW.lean`).  `agreesW r m`: the run ends in the catalogue the model computes, or both fail. -/

/-- `<Connection>.createIndexSQL` → `SODatabaseIndex.<dialect>CreateIndexSQL` (aliases resolved by the class table)
    = `indexSQL`, for every dialect, declaration and index over plain columns -/
theorem C14_translated_indexSQL_eq_model (n : Nat) (d : Dialect) (c : Caps) (decl : Decl) (c0 : Val) (ix : Index) :
    callN prog ddlI (n + 2) (.meth (connCls d) M_createIndexSQL) [connV d c, soClassV decl c0 x, ixV decl ix] =
      .ok (.str (indexSQL d decl ix)) := createIndexSQL_eq n d c decl c0 x ix

/-- the statements of the connection classes against the catalogue: `_SO_createJoinTable` (CREATE TABLE of the link
    table), `_SO_createIndex` (MySQL's `ALTER TABLE … ADD INDEX` included), `createTable` of all seven classes (Firebird / MaxDB: plus the generator / sequence
    statement) -/
theorem C14_translated_conn_statements_eq_model (n : Nat) (d : Dialect) (c : Caps) (decl : Decl) (c0 : Val) (w : Cat)
    (j : JoinD) (ix : Index) (hj : 32 ∉ j.join.table) (ht : 32 ∉ decl.tableName) (hi : 32 ∉ ix.name) :
    callNW prog ddlI EX (n + 3) w (.meth (connCls d) M__SO_createJoinTable) [connV d c, jV j] =
      createRes j.join.table .none w ∧
    callNW prog ddlI EX (n + 3) w (.meth (connCls d) M__SO_createIndex)
        [connV d c, soClassV decl c0 x, ixV decl ix] = indexRes decl.tableName ix.name w ∧
    (∀ text, createTableSQL Extracted.tables d c decl = some text →
      callNW prog ddlI EX (n + 10) w (.meth (connCls d) M_createTable) [connV d c, soClassV decl c0 x] =
        createRes decl.tableName (strList (constraints Extracted.tables d decl)) w) :=
  ⟨connCreateJoinTable n d c j w hj, connCreateIndex n d c decl c0 x ix w ht hi,
   fun text h => connCreateTable n d c decl c0 w text h ht⟩

/-- `SQLObject.createJoinTables(ifNotExists, connection)` = `createLinks` over `linksOf true` of the owned link tables -/
theorem C14_translated_createJoinTables_eq_model (n : Nat) (d : Dialect) (c : Caps) (decl : Decl) (c0 : Val) (ine : Bool)
    (w : Cat) (hb : ∀ j ∈ joinsToCreateX x.joins, 32 ∉ j.join.table) :
    agreesW (callNW prog ddlI EX (n + 4) w (.meth C_SQLObject M_createJoinTables)
        [soClassV decl c0 x, .bool ine, connV d c])
      (createLinks ine (linksOf true (linkNames x.joins)) w) := createJoinTables_eq n d c decl c0 ine w hb

/-- `SQLObject.dropJoinTables(ifExists, connection)` = `dropLinks` (a self-referential link table once) -/
theorem C14_translated_dropJoinTables_eq_model (n : Nat) (d : Dialect) (c : Caps) (decl : Decl) (c0 : Val) (ie : Bool)
    (w : Cat) (hb : ∀ j ∈ joinsToCreateX x.joins, 32 ∉ j.join.table) :
    agreesW (callNW prog ddlI EX (n + 2) w (.meth C_SQLObject M_dropJoinTables)
        [soClassV decl c0 x, .bool ie, connV d c])
      (dropLinks ie (linksOf true (linkNames x.joins)) w) := dropJoinTables_eq n d c decl c0 ie w hb

/-- **`SQLObject.dropTable(ifExists, dropJoinTables, cascade, connection)` translated = `dropTableG`** with the flags
    extracted from the source, for all seven connection classes (PostgreSQL's `… CASCADE`, Firebird's / MaxDB's second
    statement; table and link table names without blanks) -/
theorem C14_translated_dropTable_eq_model (n : Nat) (d : Dialect) (c : Caps) (decl : Decl) (c0 : Val)
    (ie dj cas : Bool) (w : Cat) (idx : List Name)
    (hb : 32 ∉ decl.tableName) (hbl : ∀ j ∈ joinsToCreateX x.joins, 32 ∉ j.join.table) :
    agreesW (callNW prog ddlI EX (n + 3) w (.meth C_SQLObject M_dropTable)
        [soClassV decl c0 x, .bool ie, .bool dj, .bool cas, connV d c])
      (dropTableG Extracted.dropPassesIfExists Extracted.dropDedupes ie dj ⟨decl.tableName, linkNames x.joins, idx⟩ w) :=
  dropTable_eq n d c decl c0 ie dj cas w idx hb hbl

/-- **Drop-if-present never fails and is idempotent, about the translated source**: the translated
    `dropTable(ifExists=True, …)` ends normally whatever the catalogue holds, the table is gone, and running it again
    from the resulting catalogue changes nothing -/
theorem C14_translated_drop_idempotent (n : Nat) (d : Dialect) (c : Caps) (decl : Decl) (c0 : Val)
    (dj cas : Bool) (w : Cat) (hb : 32 ∉ decl.tableName) (hbl : ∀ j ∈ joinsToCreateX x.joins, 32 ∉ j.join.table) :
    ∃ v w1, callNW prog ddlI EX (n + 3) w (.meth C_SQLObject M_dropTable)
        [soClassV decl c0 x, .bool true, .bool dj, .bool cas, connV d c] = (.ok v, w1) ∧ decl.tableName ∉ w1.tables ∧
      ∃ v', callNW prog ddlI EX (n + 3) w1 (.meth C_SQLObject M_dropTable)
        [soClassV decl c0 x, .bool true, .bool dj, .bool cas, connV d c] = (.ok v', w1) := by
  obtain ⟨w1, h1, hnot⟩ := C14_drop_if_present_never_fails dj ⟨decl.tableName, linkNames x.joins, []⟩ w
  have ha := dropTable_eq (x := x) n d c decl c0 true dj cas w [] hb hbl
  rw [h1] at ha
  obtain ⟨v, hv⟩ := agreesW_ok ha
  have h2 := C14_drop_if_present_idempotent_flags dj ⟨decl.tableName, linkNames x.joins, []⟩ w w1 h1
  have hb2 := dropTable_eq (x := x) n d c decl c0 true dj cas w1 [] hb hbl
  rw [h2] at hb2
  obtain ⟨v', hv'⟩ := agreesW_ok hb2
  exact ⟨v, w1, hv, hnot, v', hv'⟩

/-- `SQLObject.createIndexes(ifNotExists, connection)` = `createIdx` (the flag is ignored), all seven dialects -/
theorem C14_translated_createIndexes_eq_model (n : Nat) (d : Dialect) (c : Caps) (decl : Decl)
    (c0 : Val) (ine : Bool) (w : Cat) (ht : 32 ∉ decl.tableName) (hb : ∀ ix ∈ decl.indexes, 32 ∉ ix.name) :
    agreesW (callNW prog ddlI EX (n + 4) w (.meth C_SQLObject M_createIndexes)
        [soClassV decl c0 x, .bool ine, connV d c])
      (createIdx decl.tableName (decl.indexes.map (·.name)) w) := createIndexes_eq n d c decl c0 ine w ht hb

/-- **`SQLObject.createTable(ifNotExists, createJoinTables, createIndexes=True, applyConstraints, connection)`
    translated = `createTableG`** with the flags extracted from the source: the `tableExists` early return, the CREATE
    TABLE statement of `conn.createTable`, the constraint statements (executed or handed back: no catalogue effect),
    `createJoinTables` with the flag handed on, `createIndexes`.  All seven connection classes;
    the declaration is one the renderer accepts; table / link table / index names without blanks. -/
theorem C14_translated_createTable_eq_model (n : Nat) (d : Dialect) (c : Caps)
    (decl : Decl) (c0 : Val) (ine cj ac : Bool) (w : Cat) (text : Str)
    (ht : createTableSQL Extracted.tables d c decl = some text)
    (hb : 32 ∉ decl.tableName) (hbl : ∀ j ∈ joinsToCreateX x.joins, 32 ∉ j.join.table)
    (hbi : ∀ ix ∈ decl.indexes, 32 ∉ ix.name) :
    agreesW (callNW prog ddlI EX (n + 11) w (.meth C_SQLObject M_createTable)
        [soClassV decl c0 x, .bool ine, .bool cj, .bool true, .bool ac, connV d c])
      (createTableG Extracted.createPassesIfNotExists Extracted.createDedupes ine cj
        ⟨decl.tableName, linkNames x.joins, decl.indexes.map (·.name)⟩ w) :=
  createTable_eq n d c decl c0 ine cj ac w text ht hb hbl hbi

/-- **Create-if-missing is idempotent, about the translated source**: when the translated
    `createTable(ifNotExists=True, …)` ends normally in catalogue `w1`, running it again from `w1` ends normally in `w1` -/
theorem C14_translated_create_idempotent (n : Nat) (d : Dialect) (c : Caps)
    (decl : Decl) (c0 : Val) (cj ac : Bool) (w w1 : Cat) (v : Val) (text : Str)
    (ht : createTableSQL Extracted.tables d c decl = some text)
    (hb : 32 ∉ decl.tableName) (hbl : ∀ j ∈ joinsToCreateX x.joins, 32 ∉ j.join.table)
    (hbi : ∀ ix ∈ decl.indexes, 32 ∉ ix.name)
    (h : callNW prog ddlI EX (n + 11) w (.meth C_SQLObject M_createTable)
        [soClassV decl c0 x, .bool true, .bool cj, .bool true, .bool ac, connV d c] = (.ok v, w1)) :
    ∃ v', callNW prog ddlI EX (n + 11) w1 (.meth C_SQLObject M_createTable)
        [soClassV decl c0 x, .bool true, .bool cj, .bool true, .bool ac, connV d c] = (.ok v', w1) := by
  have h1 := agreesW_ok_inv (createTable_eq (x := x) n d c decl c0 true cj ac w text ht hb hbl hbi) h
  have h2 := C14_create_if_missing_idempotent_flags cj _ w w1 h1
  have h3 := createTable_eq (x := x) n d c decl c0 true cj ac w1 text ht hb hbl hbi
  rw [h2] at h3
  exact agreesW_ok h3

/-- **Plain create then plain drop, about the translated source**: what the translated `createTable()` made, the
    translated `dropTable()` removes again — it ends normally and the table list is as before — for every set of
    joins, including a link table owned twice (self-referential join declared in both directions) -/
theorem C14_translated_create_drop_idempotent (n m : Nat) (d : Dialect) (c : Caps)
    (decl : Decl) (c0 : Val) (ac cas : Bool) (w w1 : Cat) (v : Val) (text : Str)
    (ht : createTableSQL Extracted.tables d c decl = some text)
    (hb : 32 ∉ decl.tableName) (hbl : ∀ j ∈ joinsToCreateX x.joins, 32 ∉ j.join.table)
    (hbi : ∀ ix ∈ decl.indexes, 32 ∉ ix.name)
    (h : callNW prog ddlI EX (n + 11) w (.meth C_SQLObject M_createTable)
        [soClassV decl c0 x, .bool false, .bool true, .bool true, .bool ac, connV d c] = (.ok v, w1)) :
    ∃ v' w2, callNW prog ddlI EX (m + 3) w1 (.meth C_SQLObject M_dropTable)
        [soClassV decl c0 x, .bool false, .bool true, .bool cas, connV d c] = (.ok v', w2) ∧ w2.tables = w.tables := by
  have h1 := agreesW_ok_inv (createTable_eq (x := x) n d c decl c0 false true ac w text ht hb hbl hbi) h
  obtain ⟨w2, h2, h3⟩ := C14_plain_drop_after_create _ w w1 h1
  have h4 := dropTable_eq (x := x) m d c decl c0 false true cas w1 (decl.indexes.map (·.name)) hb hbl
  rw [h2] at h4
  obtain ⟨v', hv'⟩ := agreesW_ok h4
  exact ⟨v', w2, hv', h3⟩

/-! #### schema evolution: the statements of `addColumn` / `delColumn` (world = the statement log `ELog`) -/

/-- **`<Connection>.addColumn(tableName, column)` translated issues exactly `addColumnStmts`**: `ALTER TABLE t ADD
    [COLUMN] <colText>` (`COLUMN` omitted on Firebird / MSSQL / MaxDB), followed by `VACUUM` on SQLite — all seven
    connection classes, every column declaration the renderer accepts -/
theorem C14_translated_addColumn_eq_model (n : Nat) (d : Dialect) (c : Caps) (st : Style) (tb : Str) (c0 : Val) (col : Col)
    (t text : Str) (log : List Str) (ht : colText Extracted.tables d c st col = some text) :
    callNW prog ddlI ELog (n + 6) log (.meth (connCls d) M_addColumn)
        [connV d c, .str t, colV Extracted.tables st tb c0 col] =
      (.ok .none, log ++ addColumnStmts d t text) := addColumn_log n d c st tb c0 col t text log ht

/-- **`<Connection>.delColumn(sqlmeta, column)` translated issues exactly `delColumnStmts`**: one `ALTER TABLE t DROP
    [COLUMN] <db name>` — every connection class but SQLite's, which re-creates the table (next theorem) -/
theorem C14_translated_delColumn_eq_model (n : Nat) (d : Dialect) (hd : d ≠ .sqlite) (c : Caps) (decl : Decl) (c0 : Val)
    (col : Col) (log : List Str) :
    callNW prog ddlI ELog (n + 1) log (.meth (connCls d) M_delColumn)
        [connV d c, metaV decl c0 x, colV Extracted.tables decl.style decl.tableName c0 col] =
      (.ok .none, log ++ delColumnStmts d decl.tableName (col.db decl.style)) := delColumn_log n d hd c decl c0 x col log

/-- the full statement "delColumn keeps the declared indexes of the table" is FALSE of the translated
    `SQLiteConnection.delColumn` → `recreateTableWithoutColumn` (RENAME, CREATE TABLE, INSERT … SELECT, DROP TABLE of
    the renamed original; no index statement): run against the catalogue whose reader follows the RENAME, the index of
    the witness class is gone.  This is the open finding `C14:evolution:delcolumn-drops-indexes`, now also a theorem
    about the translated source. -/
theorem C14_translated_delColumn_drops_indexes_full_FALSE :
    ¬ (∀ (decl : Decl) (victim : Col) (w w' : Cat) (v : Val),
        callNW prog ddlI EX2 12 w (.meth C_SQLiteConnection M_delColumn)
          [connV .sqlite ⟨false, false⟩, metaV decl .none ⟨[], .none⟩,
            colV Extracted.tables decl.style decl.tableName .none victim] = (.ok v, w') →
        ∀ p ∈ w.indexes, p.1 = decl.tableName → p ∈ w'.indexes) := by
  intro h
  have h1 := h witDecl witVictim witCat ⟨[[116]], []⟩ .none delColumn_witness ([116], [105]) (by decide) rfl
  simp at h1

/-- **`SQLiteConnection.delColumn(sqlmeta, column)` → `recreateTableWithoutColumn` translated issues exactly
    `recreateStmts`**, for every declaration, deleted column and call depth ≥ 9: `ALTER TABLE t RENAME TO t_ORIGINAL`;
    `CREATE TABLE t (…)` with the key column and the `colText` definitions of exactly the columns of
    `sqlmeta.columnList` whose name differs from the deleted column's (`keepCol`), in order; `INSERT INTO t (cols)
    SELECT cols FROM t_ORIGINAL` over the key and the columns of `columnList` (the rows' remaining values);
    `DROP TABLE t_ORIGINAL` — four statements, none of them re-creates an index (cf. the `_full_FALSE` theorem above) -/
theorem C14_translated_sqlite_delColumn_eq_model (n : Nat) (c : Caps) (decl : Decl) (c0 : Val) (victim : Col) (i : Str)
    (ts : List Str) (log : List Str) (hi : idText Extracted.tables .sqlite decl = some i)
    (hts : allSome ((decl.cols.filter (keepCol victim)).map (colText Extracted.tables .sqlite c decl.style)) = some ts) :
    callNW prog ddlI ELog (n + 9) log (.meth C_SQLiteConnection M_delColumn)
        [connV .sqlite c, metaV decl c0 x, colV Extracted.tables decl.style decl.tableName c0 victim] =
      (.ok .none, log ++ recreateStmts decl i ts) := sqlite_delColumn_log n c decl c0 x victim i ts log hi hts

end Translated

end SqlObjVerif.Ddl
