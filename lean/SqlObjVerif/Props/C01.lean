import SqlObjVerif.Lemmas.Codec
namespace SqlObjVerif.Codec
theorem C01_none_lit : lit .none = .ok Extracted.nullLit := rfl
end SqlObjVerif.Codec
