import SqlObjVerif.Lemmas.Codec
import SqlObjVerif.Lemmas.CodecXChain
import SqlObjVerif.Lemmas.CodecXSel
import SqlObjVerif.Lemmas.CodecWRound
/-!
# C01 — stored values read back unchanged; a query for the value finds the row; any other accepted
value is normalised or rejected, never stored unreadable

Property theorems only.  `readBack T x` = `toPy T (fetch (store (aff T) (lit (toDb T x))))`, where `lit`,
the strptime formats, the bool / NULL literals, the sqlite quote pair and the declared SQLite column
types are the constants **extracted** from /repo (`Extracted/Codec.lean`).
Float, Decimal/Currency, DecimalString, Pickle, JSON, Uuid: the stdlib codecs are uninterpreted tokens;
for them only the glue is proved (`C01_glue_*`).
-/
namespace SqlObjVerif.Codec

/-! ## round trips over the whole domain -/

/-- StringCol: every NUL-free code-point list (quotes, backslashes, astral, digits-only, …) -/
theorem C01_roundtrip_String (s : Str) (h0 : 0 ∉ s) : readBack .string (.str s) = .ok (.str s) :=
  readBack_string s h0

theorem C01_roundtrip_Unicode (s : Str) (h0 : 0 ∉ s) : readBack .unicode (.str s) = .ok (.str s) :=
  readBack_unicode s h0

/-- IntCol, TinyIntCol, SmallIntCol, MediumIntCol, BigIntCol: all of int64 -/
theorem C01_roundtrip_IntFamily (T : ColT) (hT : intFamily T) (i : Int) (h : int64 i = true) :
    readBack T (.int i) = .ok (.int i) :=
  readBack_int T hT i h

/-- outside int64 the value is accepted and the cell holds a REAL: the double nearest to the integer -/
theorem C01_IntFamily_outside_int64_stored_as_double (T : ColT) (hT : intFamily T) (i : Int)
    (h : int64 i = false) :
    toDb T (.int i) = .ok (.int i) ∧ store (aff T) (reprInt i) = some (.real (.ofInt i)) :=
  ⟨by rcases hT with rfl | rfl | rfl | rfl | rfl <;> rfl, store_int_outside T hT i h⟩

/-- (7e1c6b2) a float given to an Int-family column: refused when it has a fractional part or is nan / inf
    (`floatClass` reads that off the `repr` text), never truncated -/
theorem C01_IntFamily_fractional_float_rejected (T : ColT) (hT : intFamily T) (t : Str)
    (h : floatClass t = .fractional ∨ floatClass t = .nonfinite) : toDb T (.float (.lit t)) = .invalid := by
  rcases h with h | h <;> rcases hT with rfl | rfl | rfl | rfl | rfl <;> simp [toDb, intV, intOfFloat, h]

/-- … and an integral float (2.0, -0.0, 1e3) is normalised to that int on every read path -/
theorem C01_IntFamily_integral_float_normalised (T : ColT) (hT : intFamily T) (t : Str) (n : Int)
    (hc : floatClass t = .integral n) (h64 : int64 n = true) : readBack T (.float (.lit t)) = .ok (.int n) :=
  readBack_int_of_float T hT t n hc h64

example : floatClass [50, 46, 53] = .fractional := by decide                 -- "2.5"
example : floatClass [50, 46, 48] = .integral 2 := by decide                 -- "2.0"
example : floatClass [49, 46, 53, 101, 45, 48, 55] = .fractional := by decide -- "1.5e-07"
example : floatClass [110, 97, 110] = .nonfinite := by decide                 -- "nan"
example : toDb .int (.float (.lit [50, 46, 53])) = .invalid :=
  C01_IntFamily_fractional_float_rejected _ (Or.inl rfl) _ (Or.inl (by decide))

theorem C01_roundtrip_Bool (b : Bool) : readBack .bool (.bool b) = .ok (.bool b) := readBack_bool b

/-- DateTimeCol and TimestampCol: every calendar-valid datetime, year 1..9999, µs 0..999999 -/
theorem C01_roundtrip_DateTime (T : ColT) (hT : T = .dateTime ∨ T = .timestamp) (y mo d h mi s us : Nat)
    (hv : (⟨y, mo, d, h, mi, s, us⟩ : DT).valid = true) :
    readBack T (.datetime y mo d h mi s us) = .ok (.datetime y mo d h mi s us) :=
  readBack_dateTime T hT ⟨y, mo, d, h, mi, s, us⟩ hv

theorem C01_roundtrip_Date (y mo d : Nat) (hv : (⟨y, mo, d, 0, 0, 0, 0⟩ : DT).valid = true) :
    readBack .date (.date y mo d) = .ok (.date y mo d) :=
  readBack_date y mo d hv

theorem C01_roundtrip_Time (h mi s us : Nat) (hv : (⟨1900, 1, 1, h, mi, s, us⟩ : DT).valid = true) :
    readBack .time (.time h mi s us) = .ok (.time h mi s us) :=
  readBack_time h mi s us hv

/-- `format` then `strptime` is the identity on the extracted format strings (the digit arithmetic) -/
theorem C01_strptime_render_DateTime (v : DT) (hv : v.valid = true) :
    Extracted.convDateTime.render v = 39 :: (bodyDT v ++ [39]) ∧
    parseWith Extracted.fmtDateTime (bodyDT v) = some v := by
  refine ⟨render_dt v, ?_⟩
  unfold parseWith
  rw [hasDotF_dt]
  simp [fixMicro_bodyDT v hv, strptime_bodyDT v hv]

/-- EnumCol: every declared value, whatever characters it has -/
theorem C01_roundtrip_Enum (vals : List Str) (s : Str) (hs : s ∈ vals) (h0 : 0 ∉ s) :
    readBack (.enum vals) (.str s) = .ok (.str s) :=
  readBack_enum vals s hs h0

/-- BLOBCol on SQLite (base64 text): every byte list, the empty one included -/
theorem C01_roundtrip_BLOB (bs : Str) (hb : ∀ x ∈ bs, x < 256) : readBack .blob (.bytes bs) = .ok (.bytes bs) :=
  readBack_blob bs hb

theorem C01_base64_decode_encode (bs : Str) (hb : ∀ x ∈ bs, x < 256) : b64dec (b64enc bs) = some bs :=
  b64dec_enc bs hb

/-- ForeignKey to a class with int ids — whether the declaring class has int ids (`fkInt`) or str ids
    (`fkIntS`): the column's SQLite type is `key_type` of the REFERENCED class's idType (extracted:
    `SOForeignKey._idType`), so the id is stored and read as an integer -/
theorem C01_roundtrip_ForeignKey (T : ColT) (hT : fkToInt T) (i : Int) (h : int64 i = true) :
    readBack T (.int i) = .ok (.int i) :=
  readBack_fk T hT i h

/-- ForeignKey to a class with str ids, declared in a class with int ids: the column is TEXT, so every
    NUL-free id ('007', '1e3', ' 5', digits only, …) is stored and read as exactly that text -/
theorem C01_roundtrip_ForeignKey_strId (s : Str) (h0 : 0 ∉ s) : readBack .fkStr (.str s) = .ok (.str s) :=
  readBack_fkStr s h0

example : readBack .fkStr (.str [48, 48, 55]) = .ok (.str [48, 48, 55]) := C01_roundtrip_ForeignKey_strId _ (by decide)
example : readBack .fkIntS (.int 5) = .ok (.int 5) := C01_roundtrip_ForeignKey _ (Or.inr rfl) _ (by decide)

/-- None is NULL is None, for every column type -/
theorem C01_roundtrip_None (T : ColT) : readBack T .none = .ok .none := readBack_none T

example : readBack .string (.str [39, 39, 92, 37, 128512]) = .ok (.str [39, 39, 92, 37, 128512]) :=
  C01_roundtrip_String _ (by decide)
example : readBack .timestamp (.datetime 1 1 1 0 0 0 1) = .ok (.datetime 1 1 1 0 0 0 1) :=
  C01_roundtrip_DateTime _ (Or.inr rfl) _ _ _ _ _ _ _ (by decide)
example : readBack .date (.date 2024 2 29) = .ok (.date 2024 2 29) := C01_roundtrip_Date _ _ _ (by decide)
example : readBack .blob (.bytes []) = .ok (.bytes []) := C01_roundtrip_BLOB [] (by simp)
example : readBack .bigInt (.int (-9223372036854775808)) = .ok (.int (-9223372036854775808)) :=
  C01_roundtrip_IntFamily _ (Or.inr (Or.inr (Or.inr (Or.inr rfl)))) _ (by decide)

/-! ## the query finds the row -/

/-- `WHERE col = <lit y>`: the literal, converted as SQLite converts an operand compared with a column of
    this affinity, equals the cell the same literal stored.  (A REAL column holding the double of an integer
    that is not exactly representable is the excluded case: SQLite compares int and double exactly.) -/
theorem C01_eq_query_finds (T : ColT) (y : PyVal) (l : Str) (cell : DbVal) (hy : y ≠ .none)
    (hl : lit y = .ok l) (hs : store (aff T) l = some cell) (hn : cell ≠ .null)
    (hx : aff T = .real → ∀ i, cell = .real (.ofInt i) → exactInt i = true) :
    whereFinds T y cell = .ok true :=
  whereFinds_of_store T y l cell hy hl hs hn hx

/-- None is looked up with `IS NULL` and finds the NULL cell -/
theorem C01_eq_query_finds_null (T : ColT) : whereFinds T .none .null = .ok true := by
  simp [whereFinds]

example : whereFinds .string (.str [39]) (.text [39]) = .ok true :=
  C01_eq_query_finds .string (.str [39]) (quoteStr [39]) (.text [39]) (by simp) rfl
    (by simp [store, evalLit_quoteStr [39] (by decide), applyAff]; decide) (by simp) (fun h => absurd h (by decide))

/-! ## normalised or rejected, never stored unreadable -/

/-- FULL statement — FALSE of the current code: FloatCol accepts the int 2**53+1, SQLite stores the double
    9007199254740992.0, which is what every fresh read gives: neither equal to the written value nor a
    documented coercion of it (and `WHERE f = 9007199254740993` does not find the row). -/
theorem C01_accepted_readable_full_FALSE :
    ¬ (∀ (T : ColT) (x y : PyVal), wf x → toDb T x = .ok y → Readable T x y) := by
  intro h
  have hdb : toDb .float (.int 9007199254740993) = .ok (.int 9007199254740993) := by simp [toDb, floatV]
  rcases h .float (.int 9007199254740993) _ trivial hdb with hr | ⟨v, hr, hn⟩
  · rw [roundtrip_float_int] at hr; cases hr
  · simp [roundtrip_float_int, Res.bind, toPy, floatV] at hr
    subst hr
    revert hn; decide

/-- (repaired by fedf30d) a `datetime.date` given to a DateTimeCol / TimestampCol means midnight of that day,
    and reads back as that datetime — for every calendar-valid date -/
theorem C01_DateTime_given_date_is_midnight (T : ColT) (hT : T = .dateTime ∨ T = .timestamp) (y mo d : Nat)
    (hv : (⟨y, mo, d, 0, 0, 0, 0⟩ : DT).valid = true) :
    readBack T (.date y mo d) = .ok (.datetime y mo d 0 0 0 0) := by
  have h1 := toDb_dateTime_of_date T hT y mo d
  have h2 := readBack_dateTime T hT ⟨y, mo, d, 0, 0, 0, 0⟩ hv
  have h3 : toDb T (dtOf ⟨y, mo, d, 0, 0, 0, 0⟩) = .ok (dtOf ⟨y, mo, d, 0, 0, 0, 0⟩) := by
    rcases hT with rfl | rfl <;> simp [toDb, dtFromPython, dtOf, passes, Extracted.dtFromPythonPass]
  simp only [readBack, h3, Res.bind] at h2
  simp only [readBack, h1, Res.bind]
  exact h2

/-- (repaired by fedf30d) the other wrong-kind date/time values are rejected, not stored -/
theorem C01_wrong_kind_rejected (h mi s us y mo d : Nat) :
    toDb .dateTime (.time h mi s us) = .invalid ∧ toDb .timestamp (.time h mi s us) = .invalid ∧
    toDb .date (.time h mi s us) = .invalid ∧ toDb .time (.date y mo d) = .invalid := by
  simp [toDb, dtFromPython, dateToPython, timeToPython, dtToPython, passes, Extracted.dtFromPythonPass,
    Extracted.dtToPythonPass]

/-- PARTIAL: outside the listed (column, value) classes — `knownBad`: integers beyond int64 given to an
    integer-like column (Int family, ForeignKey, Decimal, Currency), integers that are not exact doubles given
    to Float; `outsideFragment`: uninterpreted codecs (float tokens, Decimal tokens in Decimal/Currency columns,
    text parsed by Date/Time columns) — every value a column accepts is rejected by the statement or read back
    as a value that equals it or is its documented coercion. -/
theorem C01_accepted_readable_partial (T : ColT) (x y : PyVal) (hw : wf x)
    (hf : outsideFragment T x = false) (hk : knownBad T x = false) (h : toDb T x = .ok y) :
    Readable T x y := by
  cases T with
  | string => exact accepted_string x y hw h
  | unicode => exact accepted_unicode x y hw h
  | int => exact accepted_int _ (Or.inl rfl) x y hf hk h
  | tinyInt => exact accepted_int _ (Or.inr (Or.inl rfl)) x y hf hk h
  | smallInt => exact accepted_int _ (Or.inr (Or.inr (Or.inl rfl))) x y hf hk h
  | mediumInt => exact accepted_int _ (Or.inr (Or.inr (Or.inr (Or.inl rfl)))) x y hf hk h
  | bigInt => exact accepted_int _ (Or.inr (Or.inr (Or.inr (Or.inr rfl)))) x y hf hk h
  | bool => exact accepted_bool x y h
  | float => exact accepted_float x y hf hk h
  | dateTime => exact accepted_dateTime _ (Or.inl rfl) x y hw hk h
  | timestamp => exact accepted_dateTime _ (Or.inr rfl) x y hw hk h
  | date => exact accepted_date x y hw hf hk h
  | time => exact accepted_time x y hw hf hk h
  | decimal => exact accepted_decimal _ (Or.inl rfl) x y hf hk h
  | currency => exact accepted_decimal _ (Or.inr rfl) x y hf hk h
  | decimalString => exact accepted_decimalString x y hw h
  | enum vals => exact accepted_enum vals x y hw h
  | blob => exact accepted_blob x y hw h
  | pickle => exact accepted_pickle x y hw h
  | uuid => exact accepted_uuid x y hw h
  | json => exact accepted_json x y hw h
  | fkInt => exact accepted_fk _ (Or.inl rfl) x y hk h
  | fkIntS => exact accepted_fk _ (Or.inr rfl) x y hk h
  | fkStr => exact accepted_fkStr x y hw h

/-- non-vacuity: a datetime given to a DateCol is accepted and normalised to its date -/
example : Readable .date (.datetime 2020 1 2 3 4 5 6) (.date 2020 1 2) :=
  C01_accepted_readable_partial .date _ _ (by show DT.valid _ = true; decide) rfl rfl (by simp [toDb, dateToPython])
example : knownBad .float (.int 9007199254740993) = true := by decide
example : knownBad .date (.datetime 2020 1 2 3 4 5 6) = false := rfl
example : Readable .dateTime (.date 2020 1 2) (.datetime 2020 1 2 0 0 0 0) :=
  C01_accepted_readable_partial .dateTime _ _ (by show DT.valid _ = true; decide) rfl rfl
    (toDb_dateTime_of_date _ (Or.inl rfl) _ _ _)

/-! ## glue for the uninterpreted codecs -/

/-- DecimalStringCol / UuidCol / JSONCol: the codec's text passes through the literal quoting, the TEXT
    column and the driver unaltered, whatever it contains (NUL-free) -/
theorem C01_glue_text_codec (T : ColT) (hT : T = .decimalString ∨ T = .uuid ∨ T = .json) (t : Str) (h0 : 0 ∉ t) :
    roundtrip T (.str t) = .ok (.str t) :=
  roundtrip_text T t (by rcases hT with rfl | rfl | rfl <;> decide) h0

theorem C01_glue_text_codec_branches (t : Str) :
    toDb .decimalString (.decimal t) = .ok (.str t) ∧ toPy .decimalString (.str t) = .ok (.decimal t) ∧
    toDb .uuid (.uuid t) = .ok (.str t) ∧ toPy .uuid (.str t) = .ok (.uuid t) ∧
    toDb .json (.json t) = .ok (.str t) ∧ toPy .json (.str t) = .ok (.json t) := by
  simp [toDb, toPy, stringV]

/-- PickleCol: the pickle bytes (whatever `pickle.dumps` produced) come back byte for byte -/
theorem C01_glue_Pickle (bs : Str) (hb : ∀ x ∈ bs, x < 256) : readBack .pickle (.pickled bs) = .ok (.pickled bs) :=
  readBack_pickle bs hb

/-- FloatCol / DecimalCol / CurrencyCol: the value is passed unchanged to `sqlrepr`, whose text is exactly the
    codec's text (`repr(float)`, `to_eng_string()`), unquoted; a float read from the cell is returned as is -/
theorem C01_glue_Float_Decimal (t : Str) :
    toDb .float (.float (.lit t)) = .ok (.float (.lit t)) ∧ lit (.float (.lit t)) = .ok t ∧
    toPy .float (.float (.lit t)) = .ok (.float (.lit t)) ∧
    toDb .decimal (.decimal t) = .ok (.decimal t) ∧ toDb .currency (.decimal t) = .ok (.decimal t) ∧
    lit (.decimal t) = .ok t := by
  simp [toDb, toPy, floatV, lit]

end SqlObjVerif.Codec

/-!
# C01 — TRANSLATED validators (`Extracted/PyCodec.lean`, regenerated from the AST of /repo's col.py on every run)

`PyCodec.runV cfg prog v` executes the translated Python source of a validator method on a value of the universe
(`Model/PyCodec.lean`: the embedding and its reference semantics; `Model/CodecX.lean`: the assumed interface).  Each
theorem says: for ALL values, the translated source never gets stuck and computes the hand model's function — so every
theorem above about `toDb` / `toPy` is a theorem about the source text of /repo.
-/
namespace SqlObjVerif.PyCodec
open SqlObjVerif.Codec (Str PyVal ColT DT)
open Extracted

theorem C01_translated_IntValidator_to_python_eq_model (v : PyVal) : runV cfgInt intToPython v = some (Codec.intV v) :=
  intToPython_eq v

/-- `from_python = to_python` in the class body (checked by the extractor) -/
theorem C01_translated_IntValidator_from_python_eq_model (v : PyVal) : runV cfgInt intFromPython v = some (Codec.intV v) :=
  intToPython_eq v

theorem C01_translated_BoolValidator_to_python_eq_model (v : PyVal) : runV Cfg.base boolToPython v = some (Codec.boolV v) :=
  boolToPython_eq v

theorem C01_translated_BoolValidator_from_python_eq_model (v : PyVal) :
    runV Cfg.base boolFromPython v = some (Codec.boolV v) :=
  boolToPython_eq v

/-- `dec`: the `dataType=Decimal` DecimalStringCol passes -/
theorem C01_translated_StringValidator_to_python_eq_model (dec : Bool) (v : PyVal) :
    runV (cfgString dec) stringToPython v = some (Codec.stringV dec v) ∧
    runV (cfgString dec) stringFromPython v = some (Codec.stringV dec v) :=
  ⟨stringToPython_eq dec v, stringToPython_eq dec v⟩

theorem C01_translated_UnicodeStringValidator_to_python_eq_model (v : PyVal) :
    runV Cfg.base unicodeToPython v = some (Codec.unicodeV v) :=
  unicodeToPython_eq v

theorem C01_translated_UnicodeStringValidator_from_python_eq_model (v : PyVal) :
    runV Cfg.base unicodeFromPython v = some (Codec.unicodeV v) :=
  unicodeFromPython_eq v

theorem C01_translated_EnumValidator_to_python_eq_model (vals : List Str) (v : PyVal) :
    runV (cfgEnum vals) enumToPython v = some (Codec.enumV vals v) ∧
    runV (cfgEnum vals) enumFromPython v = some (Codec.enumV vals v) :=
  ⟨enumToPython_eq vals v, enumToPython_eq vals v⟩

/-- referenced class with int ids; `first`: the call that looks the class up (`self.fkIDType is None`) or a later one -/
theorem C01_translated_ForeignKeyValidator_from_python_eq_model (first : Bool) (v : PyVal) :
    runV (cfgFkInt first) fkFromPython v = some (Codec.fkFromPython v) :=
  fkFromPython_int_eq first v

/-- referenced class with `idType = str` -/
theorem C01_translated_ForeignKeyValidator_from_python_strId_eq_model (first : Bool) (v : PyVal) :
    runV (cfgFkStr first) fkFromPython v = some (Codec.fkStrFromPython v) :=
  fkFromPython_str_eq first v

/-- the `.%f` fix-up of the source (`'.' in value`, `split`, pad / truncate to 6 digits, `join`) is the hand model's
    `fixMicro`, for every text and every format whose text contains `.%f` -/
theorem C01_translated_DateTimeValidator_fixup_eq_model (fs : Str) (F : List Codec.SPiece) (hp : parseFmt fs = some F)
    (hf : 0 ≤ strFind [46, 37, 102] fs) (hh : Codec.hasDotF F = true) (s : Str) :
    runV (cfgDt fs) dtToPython (.str s) = some (Codec.dtToPython F (.str s)) :=
  dt_str_dot fs F hp _ rfl hf hh s

/-- with the three formats of col.py (their text is extracted; its parse is the hand model's format) -/
theorem C01_translated_DateTimeValidator_to_python_eq_model (v : PyVal) :
    runV (cfgDt fmtDateTimeStr) dtToPython v = some (Codec.dtToPython Codec.Extracted.fmtDateTime v) ∧
    runV (cfgDt fmtDateStr) dtToPython v = some (Codec.dtToPython Codec.Extracted.fmtDate v) ∧
    runV (cfgDt fmtTimeStr) dtToPython v = some (Codec.dtToPython Codec.Extracted.fmtTime v) :=
  ⟨dtToPython_dt_eq v, dtToPython_d_eq v, dtToPython_t_eq v⟩

theorem C01_translated_DateTimeValidator_from_python_eq_model (fs : Str) (v : PyVal) :
    runV (cfgDt fs) dtFromPython v = some (Codec.dtFromPython v) :=
  dtFromPython_eq fs v

/-- `super().to_python` runs the translated DateTimeValidator.to_python -/
theorem C01_translated_DateValidator_to_python_eq_model (v : PyVal) :
    runV (cfgDtSub fmtDateStr) dateToPython v = some (Codec.dateToPython v) ∧
    runV (cfgDtSub fmtDateStr) dateFromPython v = some (Codec.dateToPython v) :=
  ⟨dateToPython_eq v, dateToPython_eq v⟩

theorem C01_translated_TimeValidator_to_python_eq_model (v : PyVal) :
    runV (cfgDtSub fmtTimeStr) timeToPython v = some (Codec.timeToPython v) ∧
    runV (cfgDtSub fmtTimeStr) timeFromPython v = some (Codec.timeToPython v) :=
  ⟨timeToPython_eq v, timeToPython_eq v⟩

theorem C01_translated_DecimalValidator_to_python_eq_model (v : PyVal) :
    runV Cfg.base decToPython v = some (Codec.toPy .decimal v) :=
  decToPython_eq v

theorem C01_translated_DecimalValidator_from_python_eq_model (v : PyVal) :
    runV Cfg.base decFromPython v = some (Codec.toDb .decimal v) :=
  decFromPython_eq v

theorem C01_translated_BinaryValidator_to_python_eq_model (v : PyVal) :
    runV Cfg.base binToPython v = some (Codec.binToPython v) :=
  binToPython_eq v

theorem C01_translated_BinaryValidator_from_python_eq_model (v : PyVal) :
    runV Cfg.base binFromPython v = some (Codec.binFromPython v) :=
  binFromPython_eq v

/-- the chain `createValidators()` builds (extracted lists), joined as `compound.All` does: `col.from_python` and
    `col.to_python` of EVERY column kind (all validators are translated) are the hand model's `toDb` / `toPy` -/
theorem C01_translated_createValidators_chain_eq_model (T : ColT) (hT : translatedKind T = true) (v : PyVal) :
    chainToDb T v = some (Codec.toDb T v) ∧ chainToPy T v = some (Codec.toPy T v) :=
  ⟨chainToDb_eq T hT v, chainToPy_eq T hT v⟩

example : chainOf .blob = ["BinaryValidator", "StringValidator"] := rfl
example : translatedKind (.enum []) = true ∧ translatedKind .float = true := ⟨rfl, rfl⟩
example : chainOf .pickle = ["PickleValidator", "BinaryValidator", "StringValidator"] ∧ chainOf .json = ["JSONValidator"] := ⟨rfl, rfl⟩

/-! ## the round-trip theorems, about the translated source -/

theorem C01_translated_readBack_eq_model (T : ColT) (hT : translatedKind T = true) (x : PyVal) :
    readBackT T x = some (Codec.readBack T x) :=
  readBackT_eq T hT x

theorem C01_translated_roundtrip_IntFamily (T : ColT) (hT : Codec.intFamily T) (i : Int) (h : Codec.int64 i = true) :
    readBackT T (.int i) = some (.ok (.int i)) := by
  rw [readBackT_eq T (by rcases hT with rfl | rfl | rfl | rfl | rfl <;> rfl), Codec.C01_roundtrip_IntFamily T hT i h]

theorem C01_translated_roundtrip_Bool (b : Bool) : readBackT .bool (.bool b) = some (.ok (.bool b)) := by
  rw [readBackT_eq _ rfl, Codec.C01_roundtrip_Bool]

theorem C01_translated_roundtrip_String (s : Str) (h0 : 0 ∉ s) : readBackT .string (.str s) = some (.ok (.str s)) := by
  rw [readBackT_eq _ rfl, Codec.C01_roundtrip_String s h0]

theorem C01_translated_roundtrip_DateTime (T : ColT) (hT : T = .dateTime ∨ T = .timestamp) (y mo d h mi s us : Nat)
    (hv : (⟨y, mo, d, h, mi, s, us⟩ : DT).valid = true) :
    readBackT T (.datetime y mo d h mi s us) = some (.ok (.datetime y mo d h mi s us)) := by
  rw [readBackT_eq T (by rcases hT with rfl | rfl <;> rfl), Codec.C01_roundtrip_DateTime T hT y mo d h mi s us hv]

theorem C01_translated_roundtrip_Date (y mo d : Nat) (hv : (⟨y, mo, d, 0, 0, 0, 0⟩ : DT).valid = true) :
    readBackT .date (.date y mo d) = some (.ok (.date y mo d)) := by
  rw [readBackT_eq _ rfl, Codec.C01_roundtrip_Date y mo d hv]

theorem C01_translated_roundtrip_Time (h mi s us : Nat) (hv : (⟨1900, 1, 1, h, mi, s, us⟩ : DT).valid = true) :
    readBackT .time (.time h mi s us) = some (.ok (.time h mi s us)) := by
  rw [readBackT_eq _ rfl, Codec.C01_roundtrip_Time h mi s us hv]

theorem C01_translated_roundtrip_Enum (vals : List Str) (s : Str) (hs : s ∈ vals) (h0 : 0 ∉ s) :
    readBackT (.enum vals) (.str s) = some (.ok (.str s)) := by
  rw [readBackT_eq _ rfl, Codec.C01_roundtrip_Enum vals s hs h0]

theorem C01_translated_roundtrip_BLOB (bs : Str) (hb : ∀ x ∈ bs, x < 256) :
    readBackT .blob (.bytes bs) = some (.ok (.bytes bs)) := by
  rw [readBackT_eq _ rfl, Codec.C01_roundtrip_BLOB bs hb]

theorem C01_translated_roundtrip_ForeignKey (T : ColT) (hT : Codec.fkToInt T) (i : Int) (h : Codec.int64 i = true) :
    readBackT T (.int i) = some (.ok (.int i)) := by
  rw [readBackT_eq T (by rcases hT with rfl | rfl <;> rfl), Codec.C01_roundtrip_ForeignKey T hT i h]

theorem C01_translated_roundtrip_ForeignKey_strId (s : Str) (h0 : 0 ∉ s) :
    readBackT .fkStr (.str s) = some (.ok (.str s)) := by
  rw [readBackT_eq _ rfl, Codec.C01_roundtrip_ForeignKey_strId s h0]

/-- the (7e1c6b2) rejection of a fractional float, on the translated `IntValidator.to_python` -/
theorem C01_translated_IntFamily_fractional_float_rejected (t : Str)
    (h : Codec.floatClass t = .fractional ∨ Codec.floatClass t = .nonfinite) :
    runV cfgInt intToPython (.float (.lit t)) = some .invalid := by
  rw [intToPython_eq, ← Codec.C01_IntFamily_fractional_float_rejected .int (Or.inl rfl) t h]; rfl

/-- the (c408a4f) rejection of a fractional float by a ForeignKey to an int-keyed class, on the translated
    `ForeignKeyValidator.from_python` (first and later calls); a key to a str-keyed class is unchanged -/
theorem C01_translated_ForeignKey_fractional_float_rejected (first : Bool) (t : Str)
    (h : Codec.floatClass t = .fractional ∨ Codec.floatClass t = .nonfinite) :
    runV (cfgFkInt first) fkFromPython (.float (.lit t)) = some .invalid := by
  rw [fkFromPython_int_eq]
  rcases h with h | h <;> simp [Codec.fkFromPython, h]

example : runV (cfgFkInt true) fkFromPython (.float (.lit [50, 46, 53])) = some .invalid := by decide       -- 2.5
example : runV (cfgFkInt true) fkFromPython (.float (.lit [50, 46, 48])) = some .unmodelled := by decide    -- 2.0
example : runV (cfgFkStr true) fkFromPython (.float (.lit [50, 46, 53])) = some .unmodelled := by decide

/-- PARTIAL (same excluded classes as `C01_accepted_readable_partial`), stated about the translated write chain: every
    value the SOURCE's `from_python` chain accepts is rejected by the statement or read back as a value that equals it
    or is its documented coercion -/
theorem C01_translated_accepted_readable_partial (T : ColT) (hT : translatedKind T = true) (x y : PyVal)
    (hw : Codec.wf x) (hf : Codec.outsideFragment T x = false) (hk : Codec.knownBad T x = false)
    (h : chainToDb T x = some (.ok y)) : Codec.Readable T x y := by
  rw [chainToDb_eq T hT] at h
  exact Codec.C01_accepted_readable_partial T x y hw hf hk (Option.some.inj h)

example : readBackT .timestamp (.datetime 1 1 1 0 0 0 1) = some (.ok (.datetime 1 1 1 0 0 0 1)) :=
  C01_translated_roundtrip_DateTime _ (Or.inr rfl) _ _ _ _ _ _ _ (by decide)
example : runV (cfgDt fmtDateTimeStr) dtToPython (.str [50, 48, 50, 48, 45, 48, 49, 45, 48, 50, 32, 48, 51, 58, 48, 52, 58, 48, 53, 46, 53])
    = some (.ok (.datetime 2020 1 2 3 4 5 500000)) := by decide   -- '2020-01-02 03:04:05.5'
example : runV cfgInt intToPython (.float (.lit [50, 46, 53])) = some .invalid := by decide

/-! ## the remaining validators: the stdlib codecs are abstract (a value is identified with its encoding) -/

theorem C01_translated_FloatValidator_to_python_eq_model (v : PyVal) :
    runV Cfg.base floatToPython v = some (Codec.floatV v) ∧ runV Cfg.base floatFromPython v = some (Codec.floatV v) :=
  ⟨floatToPython_eq v, floatToPython_eq v⟩

theorem C01_translated_UuidValidator_to_python_eq_model (v : PyVal) :
    runV Cfg.base uuidToPython v = some (Codec.toPy .uuid v) :=
  uuidToPython_eq v

theorem C01_translated_UuidValidator_from_python_eq_model (v : PyVal) :
    runV Cfg.base uuidFromPython v = some (Codec.toDb .uuid v) :=
  uuidFromPython_eq v

theorem C01_translated_JSONValidator_to_python_eq_model (v : PyVal) :
    runV Cfg.base jsonToPython v = some (Codec.toPy .json v) :=
  jsonToPython_eq v

theorem C01_translated_JSONValidator_from_python_eq_model (v : PyVal) :
    runV Cfg.base jsonFromPython v = some (Codec.toDb .json v) :=
  jsonFromPython_eq v

/-- PickleValidator is the first of the chain Pickle, Binary, String: alone it is `pickle.dumps` / `pickle.loads` on the
    token (`pickleFromM` / `pickleToM`); the whole chain is `toDb .pickle` / `toPy .pickle` (chain theorem above) -/
theorem C01_translated_PickleValidator_eq_model (v : PyVal) :
    runV Cfg.base pickleFromPython v = some (pickleFromM v) ∧ runV Cfg.base pickleToPython v = some (pickleToM v) :=
  ⟨pickleFromPython_eq v, pickleToPython_eq v⟩

/-- DecimalStringValidator (`quantize=False`); `super()` runs the translated DecimalValidator -/
theorem C01_translated_DecimalStringValidator_from_python_eq_model (v : PyVal) :
    runV cfgDecStr decStrFromPython v = some (Codec.toDb .decimalString v) :=
  decStrFromPython_eq v

theorem C01_translated_DecimalStringValidator_to_python_eq_model (v : PyVal) :
    runV cfgDecStr decStrToPython v = some (decStrToM v) :=
  decStrToPython_eq v

/-- `dec ∘ enc = id` (built into the tokens) ⇒ round trip: the text codecs through the translated chains, the quoting,
    the TEXT column and the driver -/
theorem C01_translated_roundtrip_text_codec (t : Str) (h0 : 0 ∉ t) :
    readBackT .uuid (.uuid t) = some (.ok (.uuid t)) ∧ readBackT .json (.json t) = some (.ok (.json t)) ∧
    readBackT .decimalString (.decimal t) = some (.ok (.decimal t)) := by
  have hu := Codec.C01_glue_text_codec .uuid (Or.inr (Or.inl rfl)) t h0
  have hj := Codec.C01_glue_text_codec .json (Or.inr (Or.inr rfl)) t h0
  have hd := Codec.C01_glue_text_codec .decimalString (Or.inl rfl) t h0
  refine ⟨?_, ?_, ?_⟩ <;> rw [readBackT_eq _ rfl] <;>
    simp [Codec.readBack, Codec.toDb, Codec.toPy, Codec.Res.bind, Codec.stringV, hu, hj, hd]

theorem C01_translated_roundtrip_Pickle (bs : Str) (hb : ∀ x ∈ bs, x < 256) :
    readBackT .pickle (.pickled bs) = some (.ok (.pickled bs)) := by
  rw [readBackT_eq _ rfl, Codec.C01_glue_Pickle bs hb]

/-! ## `_SO_selectInit`: the read path -/

/-- the translated `to_python` loop of `SQLObject._SO_selectInit` (each `col.to_python` = the translated chain of the
    column's kind) = the model's read path, for EVERY column list and EVERY fetched row: attributes `_SO_val_<name>` :=
    `toPy kind value` in column order, stopping at the first conversion that fails (what was assigned stays assigned) -/
theorem C01_translated_selectInit_eq_model (cols : List (Str × ColT)) (row : List PyVal) :
    runSel cols row = some (selectInitM cols row []) :=
  runSel_eq cols row

/-- when the conversion succeeds the instance gets the attribute with the `toPy` value -/
theorem C01_translated_selectInit_all_ok (c : Str × ColT) (v y : PyVal) (h : Codec.toPy c.2 v = .ok y) :
    runSel [c] [v] = some (.ok [(sValPrefix ++ c.1, y)]) := by
  rw [runSel_eq]; simp [selectInitM, h]

example : runSel [([97], .int), ([98], .bool)] [.int 5, .int 1] =
    some (.ok [(sValPrefix ++ [97], .int 5), (sValPrefix ++ [98], .bool true)]) := by
  rw [runSel_eq]; decide
example : runSel [([97], .int), ([98], .date)] [.int 5, .str [120]] = some (.invalid [(sValPrefix ++ [97], .int 5)]) := by
  rw [runSel_eq]; decide

/-! ## non-vacuity: the interpreter runs the translated source on concrete values (kernel evaluation) -/

example : runV cfgInt intToPython (.int 5) = some (.ok (.int 5)) := by decide
example : runV cfgInt intToPython (.str [53]) = some .invalid := by decide
example : runV cfgInt intToPython (.float (.lit [50, 46, 48])) = some (.ok (.int 2)) := by decide          -- 2.0
example : runV Cfg.base boolToPython (.int 3) = some (.ok (.bool true)) := by decide
example : runV Cfg.base boolToPython (.str [49]) = some .invalid := by decide
example : runV (cfgString false) stringToPython (.bytes [1, 2]) = some (.ok (.bytes [1, 2])) := by decide
example : runV (cfgString false) stringToPython (.int 1) = some .invalid := by decide
example : runV Cfg.base unicodeToPython (.str [233]) = some (.ok (.str [233])) := by decide
example : runV Cfg.base unicodeFromPython (.bytes [1]) = some .invalid := by decide
example : runV (cfgEnum [[97], [98]]) enumToPython (.str [98]) = some (.ok (.str [98])) := by decide
example : runV (cfgEnum [[97], [98]]) enumToPython (.str [99]) = some .invalid := by decide
example : runV (cfgFkInt true) fkFromPython (.str [52, 50]) = some (.ok (.int 42)) := by decide              -- '42'
example : runV (cfgFkInt false) fkFromPython (.sqlobj 7) = some (.ok (.int 7)) := by decide
example : runV (cfgFkInt true) fkFromPython (.date 2020 1 2) = some .invalid := by decide
example : runV (cfgFkStr true) fkFromPython (.int 7) = some (.ok (.str (Codec.reprInt 7))) := rfl
example : runV (cfgDt fmtDateTimeStr) dtFromPython (.date 2020 1 2) = some (.ok (.datetime 2020 1 2 0 0 0 0)) := by decide
example : runV (cfgDt fmtDateTimeStr) dtFromPython (.time 1 2 3 4) = some .invalid := by decide
example : runV (cfgDtSub fmtDateStr) dateToPython (.str [50, 48, 50, 48, 45, 48, 49, 45, 48, 50]) =
    some (.ok (.date 2020 1 2)) := by decide                                                                 -- '2020-01-02'
example : runV (cfgDtSub fmtDateStr) dateToPython (.datetime 2020 1 2 3 4 5 6) = some (.ok (.date 2020 1 2)) := by decide
example : runV (cfgDtSub fmtTimeStr) timeToPython (.str [48, 51, 58, 48, 52, 58, 48, 53]) =
    some (.ok (.time 3 4 5 0)) := by decide                                                                  -- '03:04:05'
example : runV (cfgDtSub fmtTimeStr) timeToPython (.date 2020 1 2) = some .invalid := by decide
example : runV Cfg.base decToPython (.int 5) = some (.ok (.decimal (Codec.reprInt 5))) := rfl
example : runV Cfg.base decFromPython (.bytes []) = some .invalid := by decide
example : runV Cfg.base binFromPython (.bytes [104, 105]) = some (.ok (.str [97, 71, 107, 61])) := by decide   -- b'hi' -> 'aGk='
example : runV Cfg.base binToPython (.str [97, 71, 107, 61]) = some (.ok (.bytes [104, 105])) := by decide
example : runV Cfg.base binToPython (.str [33]) = some .reject := by decide
example : runV Cfg.base floatToPython (.int 2) = some (.ok (.int 2)) := by decide
example : runV Cfg.base floatToPython (.str [49]) = some .invalid := by decide
example : runV Cfg.base uuidFromPython (.uuid [97]) = some (.ok (.str [97])) := by decide
example : runV Cfg.base uuidToPython (.bytes [97]) = some .invalid := by decide
example : runV Cfg.base jsonFromPython (.json [123, 125]) = some (.ok (.str [123, 125])) := by decide        -- {}
example : runV Cfg.base jsonToPython (.str [123, 125]) = some (.ok (.json [123, 125])) := by decide
example : runV Cfg.base pickleFromPython (.pickled [128, 5]) = some (.ok (.bytes [128, 5])) := by decide
example : runV Cfg.base pickleToPython (.bytes [128, 5]) = some (.ok (.pickled [128, 5])) := by decide
example : runV cfgDecStr decStrFromPython (.decimal [49, 46, 53]) = some (.ok (.str [49, 46, 53])) := by decide
example : runV cfgDecStr decStrToPython (.str [49, 46, 53]) = some (.ok (.decimal [49, 46, 53])) := by decide

end SqlObjVerif.PyCodec

/-!
# C01 — the WRITE PATHS end to end on translated source (`Model/CodecW.lean`)

The conversion plumbing of main.py — `_SO_setValue`, `set`, `syncUpdate`, `_SO_getValue` as translated by
`vlib/extractors/pymain.py` (re-targeted at the embedding `Model/PyMainV.lean`: C01's value universe, raising
validators) — run with the translated validator chains of the column kinds and a row modelled by the hand model's
`lit` / `evalLit` / `applyAff` / `fetch`.  `writeReadM T v` = `toDb`, the writer's `toPy` (an exception there ends the
write), `roundtrip` (`lit`, store, `fetch`), `toPy`.
-/
namespace SqlObjVerif.CodecW
open SqlObjVerif.Codec (Str PyVal ColT DT)

/-- path "setattr" (`obj.col = v`, plus `syncUpdate()` on a lazy class), then the uncached read `_SO_getValue`: for
    EVERY class shape whose validators are the translated chains (`Translated C`; `clsOf` builds them), column, kind,
    cached attributes, row and value -/
theorem C01_translated_setValue_roundtrip (C : Cls) (hC : Translated C) (vals : Nat → Option PyVal) (g : Row) (c : Nat) (hc : c < C.n)
    (v : PyVal) : setattrPath C vals g c v = some (writeReadM (C.kind c) v) :=
  setattrPath_eq C hC vals g c hc v

/-- path "set" (`obj.set(col=v)`, one keyword; plus `syncUpdate()` on a lazy class) -/
theorem C01_translated_set_roundtrip (C : Cls) (hC : Translated C) (vals : Nat → Option PyVal) (g : Row) (c : Nat) (hc : c < C.n)
    (v : PyVal) : setPath C vals g c v = some (writeReadM (C.kind c) v) :=
  setPath_eq C hC vals g c hc v

/-- path "create" (`Cls(col=v)`): the translated `set(**kw)` while `_creating`, then the INSERT of
    `_SO_createValues` (`finishCreateM`: HAND-MODELLED glue for `_create` / `_SO_finishCreate`) -/
theorem C01_translated_create_roundtrip (C : Cls) (hC : Translated C) (c : Nat) (hc : c < C.n) (v : PyVal) :
    createPath C c v = some (writeReadM (C.kind c) v) :=
  createPath_eq C hC c hc v

/-- where the writer's own conversion succeeds, the paths compute exactly the model's `readBack` -/
theorem C01_writeRead_eq_readBack (T : ColT) (v y wc : PyVal) (hdb : Codec.toDb T v = .ok y) (hpy : Codec.toPy T y = .ok wc) :
    writeReadM T v = Codec.readBack T v := by
  simp [writeReadM, Codec.readBack, hdb, hpy, Codec.Res.bind]

/-- … so the round-trip theorems hold end to end, translated source on BOTH sides: Int family -/
theorem C01_translated_write_read_IntFamily (C : Cls) (hC : Translated C) (vals : Nat → Option PyVal) (g : Row) (c : Nat) (hc : c < C.n)
    (hT : Codec.intFamily (C.kind c)) (i : Int) (h : Codec.int64 i = true) :
    setattrPath C vals g c (.int i) = some (.ok (.int i)) ∧ setPath C vals g c (.int i) = some (.ok (.int i)) ∧
    createPath C c (.int i) = some (.ok (.int i)) := by
  have hw : writeReadM (C.kind c) (.int i) = .ok (.int i) := by
    rw [C01_writeRead_eq_readBack _ _ (.int i) (.int i) (by rcases hT with h | h | h | h | h <;> rw [h] <;> rfl)
      (by rcases hT with h | h | h | h | h <;> rw [h] <;> rfl), Codec.C01_roundtrip_IntFamily _ hT i h]
  rw [setattrPath_eq C hC vals g c hc, setPath_eq C hC vals g c hc, createPath_eq C hC c hc, hw]
  exact ⟨rfl, rfl, rfl⟩

theorem C01_translated_write_read_String (C : Cls) (hC : Translated C) (vals : Nat → Option PyVal) (g : Row) (c : Nat) (hc : c < C.n)
    (hT : C.kind c = .string) (s : Str) (h0 : 0 ∉ s) :
    setattrPath C vals g c (.str s) = some (.ok (.str s)) ∧ setPath C vals g c (.str s) = some (.ok (.str s)) ∧
    createPath C c (.str s) = some (.ok (.str s)) := by
  have hw : writeReadM (C.kind c) (.str s) = .ok (.str s) := by
    rw [hT, C01_writeRead_eq_readBack _ _ (.str s) (.str s) rfl rfl, Codec.C01_roundtrip_String s h0]
  rw [setattrPath_eq C hC vals g c hc, setPath_eq C hC vals g c hc, createPath_eq C hC c hc, hw]
  exact ⟨rfl, rfl, rfl⟩

theorem C01_translated_write_read_Bool (C : Cls) (hC : Translated C) (vals : Nat → Option PyVal) (g : Row) (c : Nat) (hc : c < C.n)
    (hT : C.kind c = .bool) (b : Bool) :
    setattrPath C vals g c (.bool b) = some (.ok (.bool b)) ∧ setPath C vals g c (.bool b) = some (.ok (.bool b)) ∧
    createPath C c (.bool b) = some (.ok (.bool b)) := by
  have hw : writeReadM (C.kind c) (.bool b) = .ok (.bool b) := by
    rw [hT, C01_writeRead_eq_readBack _ _ (.bool b) (.bool b) rfl rfl, Codec.C01_roundtrip_Bool b]
  rw [setattrPath_eq C hC vals g c hc, setPath_eq C hC vals g c hc, createPath_eq C hC c hc, hw]
  exact ⟨rfl, rfl, rfl⟩

theorem C01_translated_write_read_DateTime (C : Cls) (hC : Translated C) (vals : Nat → Option PyVal) (g : Row) (c : Nat) (hc : c < C.n)
    (hT : C.kind c = .dateTime ∨ C.kind c = .timestamp) (y mo d h mi s us : Nat)
    (hv : (⟨y, mo, d, h, mi, s, us⟩ : DT).valid = true) :
    setattrPath C vals g c (.datetime y mo d h mi s us) = some (.ok (.datetime y mo d h mi s us)) ∧
    setPath C vals g c (.datetime y mo d h mi s us) = some (.ok (.datetime y mo d h mi s us)) ∧
    createPath C c (.datetime y mo d h mi s us) = some (.ok (.datetime y mo d h mi s us)) := by
  have hw : writeReadM (C.kind c) (.datetime y mo d h mi s us) = .ok (.datetime y mo d h mi s us) := by
    rw [C01_writeRead_eq_readBack _ _ (.datetime y mo d h mi s us) (.datetime y mo d h mi s us)
      (by rcases hT with h | h <;> rw [h] <;> rfl) (by rcases hT with h | h <;> rw [h] <;> rfl),
      Codec.C01_roundtrip_DateTime _ hT y mo d h mi s us hv]
  rw [setattrPath_eq C hC vals g c hc, setPath_eq C hC vals g c hc, createPath_eq C hC c hc, hw]
  exact ⟨rfl, rfl, rfl⟩

/-- non-vacuity: a two-column lazy class, the second column an IntCol -/
example : setattrPath (clsOf 2 (fun k => if k = 1 then .int else .string) true true) (fun _ => none) (fun _ => .null) 1 (.int 5)
    = some (.ok (.int 5)) :=
  (C01_translated_write_read_IntFamily _ (clsOf_translated ..) _ _ 1 (by decide) (Or.inl rfl) 5 (by decide)).1
/-- a fractional float never reaches the database on any path -/
example : createPath (clsOf 1 (fun _ => .int) false true) 0 (.float (.lit [50, 46, 53])) = some .invalid := by
  rw [createPath_eq _ (clsOf_translated ..) 0 (by decide)]; rfl

end SqlObjVerif.CodecW
