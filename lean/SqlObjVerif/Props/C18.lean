import SqlObjVerif.Lemmas.Uri
import SqlObjVerif.Lemmas.UriXBuild
import SqlObjVerif.Lemmas.UriXChain
import SqlObjVerif.Lemmas.UriXCache
/-!
# C18 — connection URIs round-trip: parse(build(x)) = x, the same database is opened

Property theorems only.  The builders (`genericUri`, `sqliteUri`) are written over the constants of
`Extracted/Uri.lean` (the `safe=` arguments, separators, prefixes and `:memory:` spellings read from
`DBConnection.uri`, `SQLiteConnection.uri` and `SQLiteConnection._connectionFromParams` on every run);
`parseURI` is the model of `DBConnection._parseURI` on top of the model of `urllib.parse`.

`None`, `''` (and port `0`) are the same "absent" value on both sides (`truthyS`, `truthyI`): `uri()`
tests `if self.host:` … and `_parseURI` tests `if parsed.username:` ….
-/
namespace SqlObjVerif.Uri
open Extracted

/-- `':memory:'` -/
def memoryName : Str := [58, 109, 101, 109, 111, 114, 121, 58]
/-- `'/:memory:'` -/
def slashMemory : Str := 47 :: memoryName

/-! ## percent coding is symmetric -/

/-- For every string of Unicode scalar values and every `safe` set that does not contain `%`:
    `quote` succeeds and `unquote(quote(s, safe)) == s`. -/
theorem C18_unquote_quote (safe : List Nat) (s : Str) (hv : validStr s = true) (hs : 37 ∉ safe) :
    ∃ q, quote safe s = some q ∧ unquote q = s :=
  ⟨_, quote_ok safe s hv, unquote_quote safe s _ hs (quote_ok safe s hv)⟩

/-- the same on byte strings: percent-decoding inverts `quote_from_bytes` for every byte string -/
theorem C18_unquote_quote_bytes (safe : List Nat) (bs : List Nat) (hb : ∀ b ∈ bs, b < 256) (hs : 37 ∉ safe) :
    pctDecode (quoteBytes safe bs) = bs :=
  pctDecode_quoteBytes safe bs hb hs

/-- UTF-8: decoding (with CPython's replacement rules) inverts encoding -/
theorem C18_utf8_roundtrip (s : Str) (hv : validStr s = true) : utf8Decode (utf8 s) = s :=
  utf8Decode_utf8 s hv

/-- none of the `safe=` arguments used by the two builders contains `%`, and every `dbName` is a
    syntactically valid URI scheme -/
theorem C18_code_constants_ok :
    37 ∉ userSafe ∧ 37 ∉ passwordSafe ∧ 37 ∉ dbSafe ∧ 37 ∉ sqliteSafe ∧
    (∀ s ∈ schemes, validScheme s = true) ∧ validScheme sqliteScheme = true := by decide

-- non-vacuity / necessity: with `%` in `safe` the round trip is lost (`quote('%41', safe='%')`)
example : quote [] [47, 37, 233, 0x1F600] = some [37,50,70, 37,50,53, 37,67,51,37,65,57, 37,70,48,37,57,70,37,57,56,37,56,48] := by decide
example : quote [37] [37, 52, 49] = some [37, 52, 49] ∧ unquote [37, 52, 49] = [65] := by decide

/-! ## the sqlite builder -/

/-- For every absolute file name (any characters: blanks, `%`, `?`, `#`, non-ASCII …) and for
    `:memory:`, the URI the sqlite connection reports parses back to exactly that path, with no
    user, password, host, port or parameters. -/
theorem C18_sqlite_parse_build (fn : Str) (hv : validStr fn = true)
    (hd : fn = memoryName ∨ startsWith [47] fn = true) :
    ∃ u, sqliteUri fn = .ok u ∧
      parseURI u = .ok ⟨none, none, none, none, if fn = memoryName then slashMemory else fn, []⟩ := by
  by_cases hm : fn = memoryName
  · subst hm
    exact ⟨_, rfl, by decide⟩
  · rcases hd with hd | hd
    · exact absurd hd hm
    · obtain ⟨t, rfl⟩ := startsWith_slash fn hd
      simp only [hm, if_false]
      exact sqlite_abs_parse t hv

/-- … and `_connectionFromParams` opens exactly that file — unless the file is `/:memory:`. -/
theorem C18_sqlite_open_partial (fn : Str) (hv : validStr fn = true)
    (hd : fn = memoryName ∨ startsWith [47] fn = true) (hx : fn ≠ slashMemory) :
    ∃ u p, sqliteUri fn = .ok u ∧ parseURI u = .ok p ∧ sqliteOpen p = some fn := by
  obtain ⟨u, hu, hp⟩ := C18_sqlite_parse_build fn hv hd
  refine ⟨u, _, hu, hp, ?_⟩
  by_cases hm : fn = memoryName
  · subst hm; decide
  · have : fn ≠ sqliteOpenMemoryPath := hx
    simp [sqliteOpen, hm, this]

/-- from constructor to constructor: `SQLiteConnection(fn)` keeps the name (the extracted `__init__` stores the
    argument as given), reports a URI, and the connection `_connectionFromParams` constructs from that URI has the
    file name `fn` again — for every absolute name, in normal form or not (`/./`, `//`, `..`), and `:memory:`. -/
theorem C18_sqlite_constructed_roundtrip (fn : Str) (hv : validStr fn = true)
    (hd : fn = memoryName ∨ startsWith [47] fn = true) (hx : fn ≠ slashMemory) :
    ∃ u p f, sqliteNew fn = some fn ∧ sqliteUri fn = .ok u ∧ parseURI u = .ok p ∧ sqliteOpen p = some f ∧
      sqliteNew f = some fn := by
  obtain ⟨u, p, hu, hp, ho⟩ := C18_sqlite_open_partial fn hv hd hx
  exact ⟨u, p, fn, rfl, hu, hp, ho, rfl⟩

/-- the full statement ("every absolute path") is false of the code: the file `/:memory:` reports a
    URI that opens the in-memory database. -/
theorem C18_sqlite_open_full_FALSE :
    ¬ ∀ fn : Str, validStr fn = true → (fn = memoryName ∨ startsWith [47] fn = true) →
      ∃ u p, sqliteUri fn = .ok u ∧ parseURI u = .ok p ∧ sqliteOpen p = some fn := by
  intro h
  obtain ⟨u, p, hu, hp, ho⟩ := h slashMemory (by decide) (Or.inr (by decide))
  obtain ⟨u', hu', hp'⟩ := C18_sqlite_parse_build slashMemory (by decide) (Or.inr (by decide))
  rw [hu] at hu'
  cases hu'
  rw [hp] at hp'
  cases hp'
  revert ho
  decide

example : sqliteUri [47, 97, 32, 37, 63, 35, 233] =
    .ok [115,113,108,105,116,101,58, 47,47,47, 97, 37,50,48, 37,50,53, 37,51,70, 37,50,51, 37,67,51,37,65,57] := by decide

/-! ## the generic builder -/

/-- For every scheme that is a valid URI scheme, every user name, password and database name (any
    scalar values), every host without URI delimiters (lower-case; IPv6 literals included) and every
    port that is absent or in 1..65535 — a password only together with a user — the reported URI
    parses back to exactly these components (absent = `None`/`''`/0; the path is `/` + db without
    one leading `/`) and no parameters. -/
theorem C18_parse_build (c : Conn) (wf : WfConn c) :
    ∃ u, genericUri c = .ok u ∧
      parseURI u = .ok ⟨truthyS c.user, truthyS c.password, truthyS c.host,
        (truthyI c.port).map Int.toNat, 47 :: dbOf c, []⟩ :=
  parse_build c wf

/-- what the URI syntax cannot express is refused by the builder: a password without a user -/
theorem C18_password_without_user_refused (c : Conn) (hu : truthyS c.user = none)
    (hp : (truthyS c.password).isSome = true) : genericUri c = .assertionError := by
  unfold genericUri authOf
  cases h : truthyS c.password with
  | none => simp [h] at hp
  | some p => simp [hu]

-- non-vacuity: a concrete well-formed description (user `us:er`, password `p@ss/word`, IPv6 host)
example : WfConn ⟨[109,121,115,113,108], some [117,115,58,101,114], some [112,64,115,115,47,119],
    some [58,58,49], some 3306, [47,100,98,63]⟩ :=
  { scheme := by decide, db := by decide
    user := by intro u h; cases h; decide
    password := by intro p h; cases h; decide
    host := by intro h hh; cases hh; decide
    port := by intro p hp; simp [truthyI] at hp; omega }

-- what the well-formedness of the host excludes (hosts that are not host names: outside the property)
example : parseURI [109,58,47,47, 72, 47,100] = .ok ⟨none, none, some [104], none, [47,100], []⟩ := by decide  -- `H` comes back `h`
example : wfHost [97, 64, 98] = false ∧ wfHost [97, 47, 98] = false ∧ wfHost [97, 58, 98] = false ∧
    wfHost [58, 58, 49] = true ∧ wfHost [102,101,56,48,58,58,49,37,101,116,104,48] = true := by decide

/-! ## extra parameters -/

/-- `connectionForURI(uri, **args)`: for every list of parameters with distinct names and non-empty
    values (any scalar values in names and values: `+ & = %41`, blanks, non-ASCII …), `urlencode`
    produces a legal query and `parse_qsl` of it gives exactly the parameters back. -/
theorem C18_params_roundtrip (ps : List (Str × Str)) (ok : ParamsOk ps) (hne : ps ≠ []) :
    ∃ q, urlencode ps = some q ∧ q.all okQuery = true ∧ dictOf (parseQsl q) = ps :=
  params_back ps ok hne

/-- the URI a generic connection reports, extended with extra parameters the way
    `connectionForURI(uri, **args)` extends it, parses back to the same components and exactly
    those parameters -/
theorem C18_parse_build_params (c : Conn) (wf : WfConn c) (ps : List (Str × Str)) (ok : ParamsOk ps) :
    ∃ u u', genericUri c = .ok u ∧ withParams u ps = some u' ∧
      parseURI u' = .ok ⟨truthyS c.user, truthyS c.password, truthyS c.host,
        (truthyI c.port).map Int.toNat, 47 :: dbOf c, ps⟩ :=
  parse_build_params c wf ps ok

/-- the same for the sqlite builder and every absolute file name -/
theorem C18_sqlite_parse_build_params (fn : Str) (hv : validStr fn = true) (hd : startsWith [47] fn = true)
    (ps : List (Str × Str)) (ok : ParamsOk ps) :
    ∃ u u', sqliteUri fn = .ok u ∧ withParams u ps = some u' ∧
      parseURI u' = .ok ⟨none, none, none, none, fn, ps⟩ := by
  obtain ⟨t, rfl⟩ := startsWith_slash fn hd
  exact sqlite_parse_build_params t hv ps ok

-- non-vacuity: `{'a b+': 'x&cache=0', 'r': '100%41'}`
example : ParamsOk [([97, 32, 98, 43], [120, 38, 99, 61, 48]), ([114], [49, 48, 48, 37, 52, 49])] :=
  { valid := by decide, nonempty := by decide, distinct := by decide }
example : urlencode [([97, 32, 98, 43], [120, 38, 99, 61, 48]), ([114], [49, 48, 48, 37, 52, 49])] =
    some [97,43,98,37,50,66, 61, 120,37,50,54,99,37,51,68,48, 38, 114, 61, 49,48,48,37,50,53,52,49] := by decide

/-! ## bad ports are rejected -/

/-- Whatever the (well-formed) other components, a port text that is not a string of ASCII digits
    denoting a number ≤ 65535 makes the parser raise ValueError.  (`t` is any non-empty text without
    the characters that would end the netloc or the userinfo.) -/
theorem C18_bad_port_rejected (c : Conn) (wf : WfBase c) (t : Str) (hne : t ≠ [])
    (hchars : t.all (fun x => okNet x && x != 64) = true)
    (hbad : ¬ (t.all isDigit = true ∧ parseDec t ≤ 65535)) :
    parseURI (assemble (withPortText c t)) = .valueError :=
  bad_port c wf t hne hchars hbad

/-- a connection whose port is negative or above 65535 reports a URI that the parser rejects -/
theorem C18_bad_port_built_rejected (c : Conn) (wf : WfBase c) (p : Int) (hc : c.port = some p)
    (hp : p < 0 ∨ 65535 < p) : ∃ u, genericUri c = .ok u ∧ parseURI u = .valueError :=
  bad_port_built c wf p hc hp

example : parseURI [109,58,47,47,104,58,54,53,53,51,54,47] = .valueError := by decide   -- m://h:65536/
example : parseURI [109,58,47,47,104,58,56,111,47] = .valueError := by decide            -- m://h:8o/
example : parseURI [109,58,47,47,104,58,54,53,53,51,53,47] =
    .ok ⟨none, none, some [104], some 65535, [47], []⟩ := by decide

/-! ## the TRANSLATED source

`UriX.parseURIX`, `genericUriX`, `sqliteUriX`, `sqliteOpenX`, `connectionFromURIX`, `connectionForURIX` run the PyUri
programs that `vlib/extractors/pyuri.py` translated from /repo's `DBConnection._parseURI / uri / connectionFromURI`,
`SQLiteConnection.uri / _connectionFromParams` and `ConnectionURIOpener.connectionForURI` on this very run, under the
reference semantics of `Model/PyUri.lean`.  The interface `UriX.uriIface osName cm cv` instantiates the imported
standard-library functions (`urlparse` and the properties of its result, `quote`, `unquote`, `parse_qsl`,
`urlencode`, `'%d' % i`) by the hand model's functions of the same name — they are SPECIFICATION, cross-checked
against CPython by the harness streams —; `os.name` is `osName`; method calls on objects (`cm`) and the constructor
call `cls(filename=…, **args)` (`cv`) are arbitrary.  The theorems hold for ALL inputs, so every theorem above is a
statement about the translated source. -/

section translated
open SqlObjVerif.UriX
variable (osName : List Nat) (cm : PyUri.Val → String → List PyUri.Val → PyUri.R PyUri.Val)
  (cv : PyUri.Val → List PyUri.Val → List (List Nat × PyUri.Val) → PyUri.R PyUri.Val)

/-- `DBConnection._parseURI` as translated computes the hand model's `parseURI` (same 6-tuple, same ValueError) for
    every string, on every platform whose `os.name` is not `'nt'`: the Windows branch is dead. -/
theorem C18_translated_parseURI_eq_model (uri : Str) (hos : osName ≠ [110, 116]) :
    parseURIX (uriIface osName cm cv) uri = ofParseOut (parseURI uri) :=
  parseURI_translated osName cm cv uri hos

/-- `DBConnection.uri` as translated computes the hand model's `genericUri` (same text, same AssertionError /
    UnicodeEncodeError) for every connection description. -/
theorem C18_translated_uri_eq_model (c : Conn) :
    genericUriX (uriIface osName cm cv) c = ofBuildOut (genericUri c) :=
  uri_translated osName cm cv c

/-- `SQLiteConnection.uri` as translated computes the hand model's `sqliteUri` for every file name. -/
theorem C18_translated_sqlite_uri_eq_model (fn : Str) :
    sqliteUriX (uriIface osName cm cv) fn = ofBuildOut (sqliteUri fn) :=
  sqliteUri_translated osName cm cv fn

/-- `SQLiteConnection._connectionFromParams` as translated: AssertionError exactly when the hand model's `sqliteOpen`
    refuses, otherwise the constructor call `cls(filename=<sqliteOpen p>, **args)`. -/
theorem C18_translated_connectionFromParams_eq_model (cls : PyUri.Val) (p : Parsed) :
    sqliteOpenX (uriIface osName cm cv) cls p = sqliteOpenSpec (uriIface osName cm cv) cls p :=
  sqliteOpen_translated osName cm cv cls p

/-- `ConnectionURIOpener.connectionForURI(uri, **ps)` as translated (called with a false `oldUri`, so that
    `connectionFromOldURI` / `_parseOldURI` are not reached) is the hand model `UriX.connectionForURI`: the URI is
    extended by `withParams`, looked up in `cachedURIs`, dispatched on the text before the first `:`, and the new
    connection is cached under the extended URI — same outcome and same opener afterwards, for every opener state. -/
theorem C18_translated_connectionForURI_eq_model (o : Opener) (uri : Str) (oldUri : PyUri.Val)
    (ps : List (Str × Str)) (hold : PyUri.truthy oldUri = false) :
    connectionForURIX (uriIface osName cm cv) o uri oldUri ps =
      UriX.connectionForURI (uriIface osName cm cv) o uri ps :=
  connectionForURI_translated osName cm cv o uri oldUri ps hold

/-- `DBConnection.connectionFromURI` as translated is `cls._connectionFromParams(*cls._parseURI(uri))`. -/
theorem C18_translated_connectionFromURI (cls : PyUri.Val) (uri : Str) :
    connectionFromURIX (uriIface osName cm cv) cls uri =
      ofR ((PyUri.methodOf (uriIface osName cm cv) cls "_parseURI" [.str uri]).bind fun t =>
        match t with
        | .tuple as => PyUri.methodOf (uriIface osName cm cv) cls "_connectionFromParams" as
        | .list as => PyUri.methodOf (uriIface osName cm cv) cls "_connectionFromParams" as
        | _ => .stuck) :=
  connectionFromURI_translated osName cm cv cls uri

/-- `C18_parse_build` about the translated source: running the translated `uri()` on a well-formed connection
    returns a string, and running the translated `_parseURI` on that string returns exactly the components. -/
theorem C18_translated_parse_build (c : Conn) (wf : WfConn c) (hos : osName ≠ [110, 116]) :
    ∃ u, genericUriX (uriIface osName cm cv) c = .ret (.str u) ∧
      parseURIX (uriIface osName cm cv) u = .ret (parsedTuple ⟨truthyS c.user, truthyS c.password, truthyS c.host,
        (truthyI c.port).map Int.toNat, 47 :: dbOf c, []⟩) := by
  obtain ⟨u, hu, hp⟩ := C18_parse_build c wf
  exact ⟨u, by rw [C18_translated_uri_eq_model, hu]; rfl,
    by rw [C18_translated_parseURI_eq_model osName cm cv u hos, hp]; rfl⟩

/-- `C18_sqlite_parse_build` about the translated source. -/
theorem C18_translated_sqlite_parse_build (fn : Str) (hv : validStr fn = true)
    (hd : fn = memoryName ∨ startsWith [47] fn = true) (hos : osName ≠ [110, 116]) :
    ∃ u, sqliteUriX (uriIface osName cm cv) fn = .ret (.str u) ∧
      parseURIX (uriIface osName cm cv) u =
        .ret (parsedTuple ⟨none, none, none, none, if fn = memoryName then slashMemory else fn, []⟩) := by
  obtain ⟨u, hu, hp⟩ := C18_sqlite_parse_build fn hv hd
  exact ⟨u, by rw [C18_translated_sqlite_uri_eq_model, hu]; rfl,
    by rw [C18_translated_parseURI_eq_model osName cm cv u hos, hp]; rfl⟩

/-- `C18_parse_build_params` about the translated source: the reported URI, extended the way the translated
    `connectionForURI` extends it, parses back (translated `_parseURI`) to the components and exactly the parameters. -/
theorem C18_translated_parse_build_params (c : Conn) (wf : WfConn c) (ps : List (Str × Str)) (ok : ParamsOk ps)
    (hos : osName ≠ [110, 116]) :
    ∃ u u', genericUriX (uriIface osName cm cv) c = .ret (.str u) ∧ withParams u ps = some u' ∧
      parseURIX (uriIface osName cm cv) u' = .ret (parsedTuple ⟨truthyS c.user, truthyS c.password, truthyS c.host,
        (truthyI c.port).map Int.toNat, 47 :: dbOf c, ps⟩) := by
  obtain ⟨u, u', hu, hw, hp⟩ := C18_parse_build_params c wf ps ok
  exact ⟨u, u', by rw [C18_translated_uri_eq_model, hu]; rfl, hw,
    by rw [C18_translated_parseURI_eq_model osName cm cv u' hos, hp]; rfl⟩

/-- THE SAME DATABASE IS OPENED, end to end on the translated code (`uri` → `connectionForURI` → `connectionFromURI`
    → `_parseURI` → `_connectionFromParams`, the three class-method calls resolved by running the translations): for
    every absolute sqlite file name other than `/:memory:` and every list of extra parameters, the URI the
    connection reports, given to an opener that has not cached it, calls the constructor of the class registered
    for its scheme with `filename=` exactly that file name and exactly those parameters, and caches the result. -/
theorem C18_translated_sqlite_same_database (hos : osName ≠ [110, 116]) (reg : List Nat → Option PyUri.Val)
    (cls : PyUri.Val) (hcls : IsObj cls) (hreg : reg sqliteScheme = some cls)
    (fn : Str) (hv : validStr fn = true) (hd : startsWith [47] fn = true) (hx : fn ≠ slashMemory)
    (ps : List (Str × Str)) (ok : ParamsOk ps) (o : Opener) :
    ∃ u u', sqliteUriX (uriIface osName (sqliteCm2 osName cv reg) cv) fn = .ret (.str u) ∧
      withParams u ps = some u' ∧
      (PyUri.aget u' o.cached = none →
        connectionForURIX (uriIface osName (sqliteCm2 osName cv reg) cv) o u (.bool false) ps =
          remember o u' (cv cls [] ((filenameKw, .str fn) :: strDict ps))) :=
  sqlite_roundtrip_opens osName hos cv reg cls hcls hreg fn hv hd hx ps ok o

/-- the translated `connectionForURI`, with the opener it leaves behind read back as an `Opener`:
    `(outcome, opener afterwards)` — by `C18_translated_connectionForURI_eq_model` and `connectionForURI_eq_O`. -/
theorem C18_translated_connectionForURI_state (o : Opener) (uri : Str) (oldUri : PyUri.Val)
    (ps : List (Str × Str)) (hold : PyUri.truthy oldUri = false) :
    connectionForURIX (uriIface osName cm cv) o uri oldUri ps =
      ((connectionForURIO (uriIface osName cm cv) o uri ps).1,
       (connectionForURIO (uriIface osName cm cv) o uri ps).2.map openerObj) := by
  rw [connectionForURI_translated osName cm cv o uri oldUri ps hold, connectionForURI_eq_O]

/-- THE PER-URI CACHE NEVER FORGETS (the same database is opened, over histories): if
    `connectionForURI(uri, **ps)` returned the connection `c`, then after ANY history of further calls — any number
    of other URIs, any parameters, successful or raising — the same call returns the very same `c` and leaves the
    opener unchanged.  (For `sqlite:/:memory:` this identity IS "the same database".) -/
theorem C18_cache_same_connection_after_any_history (o o1 o2 : Opener) (uri : Str) (ps : List (Str × Str))
    (c : PyUri.Val) (calls : List (Str × List (Str × Str)))
    (h1 : connectionForURIO (uriIface osName cm cv) o uri ps = (.ret c, some o1))
    (hr : runCalls (uriIface osName cm cv) o1 calls = some o2) :
    connectionForURIO (uriIface osName cm cv) o2 uri ps = (.ret c, some o2) :=
  same_connection_after_history _ o o1 o2 uri ps c calls h1 hr

end translated

-- non-vacuity: the translated programs RUN (kernel evaluation of the interpreter on the extracted terms):
-- `_parseURI('m://u:p@h:8/d%20b?x=1')`, `SQLiteConnection('/a ').uri()`, and the constructor call of
-- `_connectionFromParams` (a constructor that returns its keyword arguments)
example : UriX.parseURIX (UriX.uriIface [112] UriX.noMethods fun _ _ kw => .ok (.dict kw))
    [109,58,47,47,117,58,112,64,104,58,56,47,100,37,50,48,98,63,120,61,49] =
    .ret (.tuple [.str [117], .str [112], .str [104], .int 8, .str [47,100,32,98], .dict [([120], .str [49])]]) := rfl
example : UriX.sqliteUriX (UriX.uriIface [112] UriX.noMethods fun _ _ kw => .ok (.dict kw)) [47, 97, 32] =
    .ret (.str [115,113,108,105,116,101,58, 47,47,47, 97, 37,50,48]) := rfl
example : UriX.sqliteOpenX (UriX.uriIface [112] UriX.noMethods fun _ _ kw => .ok (.dict kw)) (.obj "SQLiteConnection" [])
    ⟨none, none, none, none, [47, 97], [([120], [49])]⟩ =
    .ret (.dict [(UriX.filenameKw, .str [47, 97]), ([120], .str [49])]) := rfl
-- the Windows branch is NOT dead on `nt`: `/C|/x` becomes `C:/x`
example : UriX.parseURIX (UriX.uriIface [110, 116] UriX.noMethods fun _ _ kw => .ok (.dict kw))
    [109,58,47,47,47,67,124,47,120] =
    .ret (.tuple [.none, .none, .none, .none, .str [67,58,47,120], .dict []]) := rfl

end SqlObjVerif.Uri
