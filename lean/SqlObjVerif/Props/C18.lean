import SqlObjVerif.Lemmas.Uri
/-!
# C18 — connection URIs round-trip: parse(build(x)) = x, the same database is opened

Property theorems only.  The builders (`genericUri`, `sqliteUri`) are written over the constants of
`Extracted/Uri.lean` (the `safe=` arguments, separators, prefixes and `:memory:` spellings read from
`DBConnection.uri`, `SQLiteConnection.uri` and `SQLiteConnection._connectionFromParams` on every run);
`parseURI` is the model of `DBConnection._parseURI` on top of the model of `urllib.parse`.

`None`, `''` (and port `0`) are the same "absent" value on both sides (`truthyS`, `truthyI`): `uri()`
tests `if self.host:` … and `_parseURI` tests `if parsed.username:` ….
-/
namespace SqlObjVerif.Uri
open Extracted

/-- `':memory:'` -/
def memoryName : Str := [58, 109, 101, 109, 111, 114, 121, 58]
/-- `'/:memory:'` -/
def slashMemory : Str := 47 :: memoryName

/-! ## percent coding is symmetric -/

/-- For every string of Unicode scalar values and every `safe` set that does not contain `%`:
    `quote` succeeds and `unquote(quote(s, safe)) == s`. -/
theorem C18_unquote_quote (safe : List Nat) (s : Str) (hv : validStr s = true) (hs : 37 ∉ safe) :
    ∃ q, quote safe s = some q ∧ unquote q = s :=
  ⟨_, quote_ok safe s hv, unquote_quote safe s _ hs (quote_ok safe s hv)⟩

/-- the same on byte strings: percent-decoding inverts `quote_from_bytes` for every byte string -/
theorem C18_unquote_quote_bytes (safe : List Nat) (bs : List Nat) (hb : ∀ b ∈ bs, b < 256) (hs : 37 ∉ safe) :
    pctDecode (quoteBytes safe bs) = bs :=
  pctDecode_quoteBytes safe bs hb hs

/-- UTF-8: decoding (with CPython's replacement rules) inverts encoding -/
theorem C18_utf8_roundtrip (s : Str) (hv : validStr s = true) : utf8Decode (utf8 s) = s :=
  utf8Decode_utf8 s hv

/-- none of the `safe=` arguments used by the two builders contains `%`, and every `dbName` is a
    syntactically valid URI scheme -/
theorem C18_code_constants_ok :
    37 ∉ userSafe ∧ 37 ∉ passwordSafe ∧ 37 ∉ dbSafe ∧ 37 ∉ sqliteSafe ∧
    (∀ s ∈ schemes, validScheme s = true) ∧ validScheme sqliteScheme = true := by decide

-- non-vacuity / necessity: with `%` in `safe` the round trip is lost (`quote('%41', safe='%')`)
example : quote [] [47, 37, 233, 0x1F600] = some [37,50,70, 37,50,53, 37,67,51,37,65,57, 37,70,48,37,57,70,37,57,56,37,56,48] := by decide
example : quote [37] [37, 52, 49] = some [37, 52, 49] ∧ unquote [37, 52, 49] = [65] := by decide

/-! ## the sqlite builder -/

/-- For every absolute file name (any characters: blanks, `%`, `?`, `#`, non-ASCII …) and for
    `:memory:`, the URI the sqlite connection reports parses back to exactly that path, with no
    user, password, host, port or parameters. -/
theorem C18_sqlite_parse_build (fn : Str) (hv : validStr fn = true)
    (hd : fn = memoryName ∨ startsWith [47] fn = true) :
    ∃ u, sqliteUri fn = .ok u ∧
      parseURI u = .ok ⟨none, none, none, none, if fn = memoryName then slashMemory else fn, []⟩ := by
  by_cases hm : fn = memoryName
  · subst hm
    exact ⟨_, rfl, by decide⟩
  · rcases hd with hd | hd
    · exact absurd hd hm
    · obtain ⟨t, rfl⟩ := startsWith_slash fn hd
      simp only [hm, if_false]
      exact sqlite_abs_parse t hv

/-- … and `_connectionFromParams` opens exactly that file — unless the file is `/:memory:`. -/
theorem C18_sqlite_open_partial (fn : Str) (hv : validStr fn = true)
    (hd : fn = memoryName ∨ startsWith [47] fn = true) (hx : fn ≠ slashMemory) :
    ∃ u p, sqliteUri fn = .ok u ∧ parseURI u = .ok p ∧ sqliteOpen p = some fn := by
  obtain ⟨u, hu, hp⟩ := C18_sqlite_parse_build fn hv hd
  refine ⟨u, _, hu, hp, ?_⟩
  by_cases hm : fn = memoryName
  · subst hm; decide
  · have : fn ≠ sqliteOpenMemoryPath := hx
    simp [sqliteOpen, hm, this]

/-- the full statement ("every absolute path") is false of the code: the file `/:memory:` reports a
    URI that opens the in-memory database. -/
theorem C18_sqlite_open_full_FALSE :
    ¬ ∀ fn : Str, validStr fn = true → (fn = memoryName ∨ startsWith [47] fn = true) →
      ∃ u p, sqliteUri fn = .ok u ∧ parseURI u = .ok p ∧ sqliteOpen p = some fn := by
  intro h
  obtain ⟨u, p, hu, hp, ho⟩ := h slashMemory (by decide) (Or.inr (by decide))
  obtain ⟨u', hu', hp'⟩ := C18_sqlite_parse_build slashMemory (by decide) (Or.inr (by decide))
  rw [hu] at hu'
  cases hu'
  rw [hp] at hp'
  cases hp'
  revert ho
  decide

example : sqliteUri [47, 97, 32, 37, 63, 35, 233] =
    .ok [115,113,108,105,116,101,58, 47,47,47, 97, 37,50,48, 37,50,53, 37,51,70, 37,50,51, 37,67,51,37,65,57] := by decide

/-! ## the generic builder -/

/-- For every scheme that is a valid URI scheme, every user name, password and database name (any
    scalar values), every host without URI delimiters (lower-case; IPv6 literals included) and every
    port that is absent or in 1..65535 — a password only together with a user — the reported URI
    parses back to exactly these components (absent = `None`/`''`/0; the path is `/` + db without
    one leading `/`) and no parameters. -/
theorem C18_parse_build (c : Conn) (wf : WfConn c) :
    ∃ u, genericUri c = .ok u ∧
      parseURI u = .ok ⟨truthyS c.user, truthyS c.password, truthyS c.host,
        (truthyI c.port).map Int.toNat, 47 :: dbOf c, []⟩ :=
  parse_build c wf

/-- what the URI syntax cannot express is refused by the builder: a password without a user -/
theorem C18_password_without_user_refused (c : Conn) (hu : truthyS c.user = none)
    (hp : (truthyS c.password).isSome = true) : genericUri c = .assertionError := by
  unfold genericUri authOf
  cases h : truthyS c.password with
  | none => simp [h] at hp
  | some p => simp [hu]

-- non-vacuity: a concrete well-formed description (user `us:er`, password `p@ss/word`, IPv6 host)
example : WfConn ⟨[109,121,115,113,108], some [117,115,58,101,114], some [112,64,115,115,47,119],
    some [58,58,49], some 3306, [47,100,98,63]⟩ :=
  { scheme := by decide, db := by decide
    user := by intro u h; cases h; decide
    password := by intro p h; cases h; decide
    host := by intro h hh; cases hh; decide
    port := by intro p hp; simp [truthyI] at hp; omega }

-- what the well-formedness of the host excludes (hosts that are not host names: outside the property)
example : parseURI [109,58,47,47, 72, 47,100] = .ok ⟨none, none, some [104], none, [47,100], []⟩ := by decide  -- `H` comes back `h`
example : wfHost [97, 64, 98] = false ∧ wfHost [97, 47, 98] = false ∧ wfHost [97, 58, 98] = false ∧
    wfHost [58, 58, 49] = true ∧ wfHost [102,101,56,48,58,58,49,37,101,116,104,48] = true := by decide

/-! ## extra parameters -/

/-- `connectionForURI(uri, **args)`: for every list of parameters with distinct names and non-empty
    values (any scalar values in names and values: `+ & = %41`, blanks, non-ASCII …), `urlencode`
    produces a legal query and `parse_qsl` of it gives exactly the parameters back. -/
theorem C18_params_roundtrip (ps : List (Str × Str)) (ok : ParamsOk ps) (hne : ps ≠ []) :
    ∃ q, urlencode ps = some q ∧ q.all okQuery = true ∧ dictOf (parseQsl q) = ps :=
  params_back ps ok hne

/-- the URI a generic connection reports, extended with extra parameters the way
    `connectionForURI(uri, **args)` extends it, parses back to the same components and exactly
    those parameters -/
theorem C18_parse_build_params (c : Conn) (wf : WfConn c) (ps : List (Str × Str)) (ok : ParamsOk ps) :
    ∃ u u', genericUri c = .ok u ∧ withParams u ps = some u' ∧
      parseURI u' = .ok ⟨truthyS c.user, truthyS c.password, truthyS c.host,
        (truthyI c.port).map Int.toNat, 47 :: dbOf c, ps⟩ :=
  parse_build_params c wf ps ok

/-- the same for the sqlite builder and every absolute file name -/
theorem C18_sqlite_parse_build_params (fn : Str) (hv : validStr fn = true) (hd : startsWith [47] fn = true)
    (ps : List (Str × Str)) (ok : ParamsOk ps) :
    ∃ u u', sqliteUri fn = .ok u ∧ withParams u ps = some u' ∧
      parseURI u' = .ok ⟨none, none, none, none, fn, ps⟩ := by
  obtain ⟨t, rfl⟩ := startsWith_slash fn hd
  exact sqlite_parse_build_params t hv ps ok

-- non-vacuity: `{'a b+': 'x&cache=0', 'r': '100%41'}`
example : ParamsOk [([97, 32, 98, 43], [120, 38, 99, 61, 48]), ([114], [49, 48, 48, 37, 52, 49])] :=
  { valid := by decide, nonempty := by decide, distinct := by decide }
example : urlencode [([97, 32, 98, 43], [120, 38, 99, 61, 48]), ([114], [49, 48, 48, 37, 52, 49])] =
    some [97,43,98,37,50,66, 61, 120,37,50,54,99,37,51,68,48, 38, 114, 61, 49,48,48,37,50,53,52,49] := by decide

/-! ## bad ports are rejected -/

/-- Whatever the (well-formed) other components, a port text that is not a string of ASCII digits
    denoting a number ≤ 65535 makes the parser raise ValueError.  (`t` is any non-empty text without
    the characters that would end the netloc or the userinfo.) -/
theorem C18_bad_port_rejected (c : Conn) (wf : WfBase c) (t : Str) (hne : t ≠ [])
    (hchars : t.all (fun x => okNet x && x != 64) = true)
    (hbad : ¬ (t.all isDigit = true ∧ parseDec t ≤ 65535)) :
    parseURI (assemble (withPortText c t)) = .valueError :=
  bad_port c wf t hne hchars hbad

/-- a connection whose port is negative or above 65535 reports a URI that the parser rejects -/
theorem C18_bad_port_built_rejected (c : Conn) (wf : WfBase c) (p : Int) (hc : c.port = some p)
    (hp : p < 0 ∨ 65535 < p) : ∃ u, genericUri c = .ok u ∧ parseURI u = .valueError :=
  bad_port_built c wf p hc hp

example : parseURI [109,58,47,47,104,58,54,53,53,51,54,47] = .valueError := by decide   -- m://h:65536/
example : parseURI [109,58,47,47,104,58,56,111,47] = .valueError := by decide            -- m://h:8o/
example : parseURI [109,58,47,47,104,58,54,53,53,51,53,47] =
    .ok ⟨none, none, some [104], some 65535, [47], []⟩ := by decide

end SqlObjVerif.Uri
