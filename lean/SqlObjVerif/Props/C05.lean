import SqlObjVerif.Lemmas.OrmVal
import SqlObjVerif.Lemmas.OrmValXRead
import SqlObjVerif.Lemmas.OrmValCols
/-!
# C05 — cached attribute values always agree with the database row

Model: `Model/OrmVal.lean` (value-level mirror of `main.py`).  Definitions used here
(`OrmValInv`, `ValOK`, `FlagOK`, `LibStep`, `LibReach`, `Hist`) are in `Lemmas/OrmVal.lean`.

`OrmValInv cfg s`: for every held, non-obsolete instance the row exists and — for classes that cache
values — every cached column equals the row's value, or the pending value for columns with an unwritten
lazy assignment (`ValOK`); `dirty ↔ pending ≠ []`, pending sorted, eager ⇒ nothing pending (`FlagOK`);
at most one live instance per (class, id).
(An earlier draft clause "expired ⇒ no cached column" is NOT an invariant of the code: assigning to an
expired instance caches the assigned value and leaves `expired` set; it is not needed for any theorem.)

`LibStep cfg s op` = "all writes go through the library": no raw SQL, the library builds a second instance
only for a row no live instance stands for (identity map, C04), the application does not write through
destroyed instances.  Failures (validator `Invalid`, refused UPDATE) are inputs of the operations, so
every theorem below also covers histories with failed writes.
-/
namespace SqlObjVerif.OrmVal

/-- the invariant holds initially … -/
theorem C05_inv_init (cfg : Cfg) : OrmValInv cfg init := inv_init cfg

/-- … and is preserved by every library operation (create, get/fetch, select refresh, read, setattr,
    set, syncUpdate, sync, expire, expireAll, destroySelf, pickle, dropping a reference), whatever fails. -/
theorem C05_inv_step (cfg : Cfg) (s : State) (op : Op) (hinv : OrmValInv cfg s) (hlib : LibStep cfg s op) :
    OrmValInv cfg (step cfg s op).1 := inv_step cfg s op hinv hlib

/-- hence it holds in every state reachable by library operations … -/
theorem C05_inv_reachable (cfg : Cfg) (s : State) (hs : LibReach cfg s) : OrmValInv cfg s := by
  induction hs with
  | init => exact inv_init cfg
  | step s op _ hlib ih => exact inv_step cfg s op ih hlib

/-- … i.e. after every history, of any length, over any classes / rows / handles. -/
theorem C05_inv_history (cfg : Cfg) (ops : List Op) (hh : Hist (LibStep cfg) cfg init ops) :
    OrmValInv cfg (run cfg init ops) :=
  C05_inv_reachable cfg _ (libReach_run cfg init ops LibReach.init hh)

/-- **What an attribute read returns.**  In every state satisfying the invariant, reading any column of
    any held live instance returns the stored value `row c` — for a column with an unwritten lazy
    assignment the pending value — (`applyUpd row pending c` is exactly that), never raises, for eager,
    lazy and `cacheValues=False` classes and either cache setting.  (A class that is lazy AND uncached
    reads the database and is excluded by `hcfg`.) -/
theorem C05_read_eq_db (cfg : Cfg) (s : State) (h : Hnd) (o : Inst) (c : Col)
    (hinv : OrmValInv cfg s) (ho : s.objs h = some o) (hl : o.obsolete = false) (hc : c < cfg.ncols o.cls)
    (hcfg : cfg.lazyUpdate o.cls = true → cfg.cacheValues o.cls = true) :
    ∃ row, s.db o.cls o.id = some row ∧ (opRead cfg s h c).2 = .val (cfg.dec o.cls c (applyUpd row o.pending c)) := by
  have hv := hinv.val h o ho hl
  have hf := hinv.flag h o ho
  obtain ⟨row, hrow⟩ := hv.rowExists
  refine ⟨row, hrow, ?_⟩
  unfold opRead
  simp only [ho, Nat.not_le.mpr hc, if_false]
  cases hcv : cfg.cacheValues o.cls
  · have hlz : cfg.lazyUpdate o.cls = false := by
      cases hlz : cfg.lazyUpdate o.cls
      · rfl
      · rw [hcfg hlz] at hcv; cases hcv
    simp [hl, hrow, hf.eagerNoPending hlz, applyUpd_nil]
  · simp only [if_true]
    cases hcc : o.cached c with
    | some v => simp [hv.cachedOk hcv c v row hrow hcc]
    | none => simp [hrow]

/-- the same on every reachable state, spelled out for the two cases of the property text -/
theorem C05_read_reachable (cfg : Cfg) (s : State) (h : Hnd) (o : Inst) (c : Col)
    (hs : LibReach cfg s) (ho : s.objs h = some o) (hl : o.obsolete = false) (hc : c < cfg.ncols o.cls)
    (hcfg : cfg.lazyUpdate o.cls = true → cfg.cacheValues o.cls = true) :
    ∃ row, s.db o.cls o.id = some row ∧
      (∀ v, plookup c o.pending = some v → (opRead cfg s h c).2 = .val (cfg.dec o.cls c v)) ∧
      (plookup c o.pending = none → (opRead cfg s h c).2 = .val (cfg.dec o.cls c (row c))) ∧
      (o.dirty = false → (opRead cfg s h c).2 = .val (cfg.dec o.cls c (row c))) := by
  have hinv := C05_inv_reachable cfg s hs
  obtain ⟨row, hrow, hr⟩ := C05_read_eq_db cfg s h o c hinv ho hl hc hcfg
  refine ⟨row, hrow, ?_, ?_, ?_⟩
  · intro v hp; rw [hr]; simp [applyUpd, hp]
  · intro hp; rw [hr]; simp [applyUpd, hp]
  · intro hd
    have : o.pending = [] := pending_nil_of_clean cfg o (hinv.flag h o ho) (by simp [hd])
    rw [hr, this, applyUpd_nil]

/-- **After out-of-band changes, `sync()`.**  `s` is ANY state (whatever raw SQL did to the tables, whatever
    the instance cached): `sync()` raises NotFound exactly when the row is gone; otherwise afterwards every
    column read returns the value stored now (pending lazy values were written first), the instance again
    satisfies `ValOK`, and reads no longer touch the instance. -/
theorem C05_oob_then_sync (cfg : Cfg) (s : State) (h : Hnd) (o : Inst) (ho : s.objs h = some o)
    (hf : FlagOK cfg o) :
    ((opSync cfg s h false).2 = .notFound ↔ s.db o.cls o.id = none) ∧
    ((opSync cfg s h false).2 = .ok ↔ (s.db o.cls o.id).isSome) ∧
    ((opSync cfg s h false).2 = .ok →
      ∃ o' row', (opSync cfg s h false).1.objs h = some o' ∧
        (opSync cfg s h false).1.db o.cls o.id = some row' ∧ o'.cls = o.cls ∧ o'.id = o.id ∧
        o'.pending = [] ∧ o'.expired = false ∧ ValOK cfg (opSync cfg s h false).1.db o' ∧
        ∀ c, c < cfg.ncols o.cls →
          (cfg.cacheValues o.cls = true →
            opRead cfg (opSync cfg s h false).1 h c = ((opSync cfg s h false).1, .val (cfg.dec o.cls c (row' c)))) ∧
          (cfg.cacheValues o.cls = false → o.obsolete = false →
            (opRead cfg (opSync cfg s h false).1 h c).2 = .val (cfg.dec o.cls c (row' c)))) := by
  -- the state in which the reload half of sync() runs
  have key : ∃ s1 o1, opSync cfg s h false = opReload cfg s1 h ∧ s1.objs h = some o1 ∧ o1.pending = [] ∧
      o1.cls = o.cls ∧ o1.id = o.id ∧ o1.obsolete = o.obsolete ∧
      ((s1.db o.cls o.id).isSome = (s.db o.cls o.id).isSome) := by
    unfold opSync
    simp only [ho]
    by_cases hc : (cfg.lazyUpdate o.cls && !o.pending.isEmpty) = true
    · simp only [hc, if_true]
      have hne : o.pending.isEmpty = false := by
        cases hh : o.pending.isEmpty <;> simp [hh] at hc ⊢
      have hsu : opSyncUpdate s h false =
          (setObj (sendUpdate s o o.pending false) h { o with dirty := false, pending := [] }, .ok) := by
        simp [opSyncUpdate, ho, hne]
      refine ⟨setObj (sendUpdate s o o.pending false) h { o with dirty := false, pending := [] },
        { o with dirty := false, pending := [] }, by rw [hsu]; rfl, by simp [setObj], rfl, rfl, rfl, rfl, ?_⟩
      simp only [setObj, sendUpdate, Bool.false_eq_true, if_false, updRow_same]
      cases s.db o.cls o.id <;> rfl
    · simp only [hc]
      refine ⟨s, o, by simp, ho, ?_, rfl, rfl, rfl, rfl⟩
      cases hlz : cfg.lazyUpdate o.cls
      · exact hf.eagerNoPending hlz
      · simp only [hlz, Bool.true_and, Bool.not_eq_true'] at hc
        simpa using hc
  obtain ⟨s1, o1, heq, ho1, hp1, hc1, hi1, hob1, hex⟩ := key
  rw [heq]
  unfold opReload
  simp only [ho1, hc1, hi1]
  cases hrow : s1.db o.cls o.id with
  | none =>
    have : s.db o.cls o.id = none := by
      rw [hrow] at hex; cases hh : s.db o.cls o.id <;> simp [hh] at hex ⊢
    simp [this]
  | some row =>
    have hsome : (s.db o.cls o.id).isSome = true := by rw [← hex, hrow]; rfl
    have hne : s.db o.cls o.id ≠ none := by intro hn; rw [hn] at hsome; cases hsome
    refine ⟨by simp [hne], by simp [hsome], ?_⟩
    intro _
    refine ⟨{ o1 with cached := loadRow (cfg.dec o.cls) (cfg.ncols o.cls) row, expired := false }, row, by simp [setObj, hc1, hi1],
      by simp [setObj, logStmt, hrow], hc1, hi1, hp1, rfl, ?_, ?_⟩
    · constructor
      · exact ⟨row, by simp [setObj, logStmt, hc1, hi1, hrow]⟩
      · intro _ c v row' hr hcv
        simp only [setObj, logStmt, hc1, hi1, hrow, Option.some.injEq] at hr
        subst hr
        simp only [hp1, applyUpd_nil, hc1]
        exact loadRow_ok _ _ _ _ _ hcv
    · intro c hc
      constructor
      · intro hcv
        simp [opRead, setObj, Nat.not_le.mpr hc, hcv, loadRow, hc]
      · intro hcv hl
        simp [opRead, setObj, logStmt, Nat.not_le.mpr hc, hcv, hob1, hl, hrow]

/-- **After out-of-band changes, `expire()`.**  From ANY state: after `expire()` nothing is cached and
    nothing is pending, so the next read of every column fetches the row: it returns the value stored now,
    or raises (NotFound; AssertionError for `cacheValues=False` classes or destroyed instances) when the row
    is gone — never old data. -/
theorem C05_oob_then_expire (cfg : Cfg) (s : State) (h : Hnd) (o : Inst) (c : Col) (ho : s.objs h = some o)
    (hc : c < cfg.ncols o.cls) :
    (opExpire s h).1.db = s.db ∧ (opExpire s h).2 = .ok ∧
    (cfg.cacheValues o.cls = true →
      (opRead cfg (opExpire s h).1 h c).2 =
        match s.db o.cls o.id with
        | none => .notFound
        | some row => .val (cfg.dec o.cls c (row c))) ∧
    (cfg.cacheValues o.cls = false →
      (opRead cfg (opExpire s h).1 h c).2 =
        if o.obsolete then .assertion else
        match s.db o.cls o.id with
        | none => .assertion
        | some row => .val (cfg.dec o.cls c (row c))) := by
  refine ⟨by simp [opExpire, ho, setObj, evictOthers], by simp [opExpire, ho], ?_, ?_⟩
  · intro hcv
    simp only [opExpire, ho, opRead, setObj, evictOthers, expireInst, if_true, Nat.not_le.mpr hc, if_false, hcv, noCache]
    cases s.db o.cls o.id <;> simp [applyUpd, plookup]
  · intro hcv
    simp only [opExpire, ho, opRead, setObj, evictOthers, expireInst, if_true, Nat.not_le.mpr hc, if_false, hcv]
    cases o.obsolete
    · cases s.db o.cls o.id <;> simp
    · simp

/-- and the read after `expire()` re-establishes the instance-level agreement (`ValOK`) when the row exists -/
theorem C05_expire_read_reestablishes (cfg : Cfg) (s : State) (h : Hnd) (o : Inst) (c : Col) (row : Row)
    (ho : s.objs h = some o) (hc : c < cfg.ncols o.cls) (hcv : cfg.cacheValues o.cls = true)
    (hrow : s.db o.cls o.id = some row) :
    ∃ o', (opRead cfg (opExpire s h).1 h c).1.objs h = some o' ∧
      ValOK cfg (opRead cfg (opExpire s h).1 h c).1.db o' ∧ o'.pending = [] ∧ o'.dirty = false := by
  simp only [opExpire, ho, opRead, setObj, evictOthers, expireInst, if_true, Nat.not_le.mpr hc, if_false, hcv, noCache, hrow, logStmt]
  refine ⟨_, rfl, ⟨⟨row, hrow⟩, ?_⟩, rfl, rfl⟩
  intro _ k v row' hr hk
  rw [hrow] at hr; injection hr with hr; subst hr
  exact cacheAll_loadRow_ok _ _ _ _ _ _ hk

/-! ## non-vacuity and regression witnesses (concrete histories evaluated on the model) -/

/-- classes: 0 eager, 1 lazy, 2 `cacheValues=False`, 3 eager / 4 lazy with `ForeignKey(class 0, cascade='null')` in
    column 0, 5 eager with `ForeignKey(class 0, cascade=True)`; 2 columns each -/
def exFk : Cls → Option (Cls × FkKind)
  | 3 => some (0, FkKind.null)
  | 4 => some (0, FkKind.null)
  | 5 => some (0, FkKind.cascade)
  | _ => none

def exCfg : Cfg :=
  { lazyUpdate := fun c => c == 1 || c == 4, cacheValues := fun c => c != 2, ncols := fun _ => 2,
    enc := fun _ _ v => v, dec := fun _ _ v => v, fk := exFk,
    doCache := true }

/-- the library history of the former defect "reload of an expired lazy object hides its pending value":
    create, expire, assign x, read y, read x — is a `LibStep` history, and the read shows the pending 5 -/
example : (opRead exCfg (run exCfg init
    [.create 0 1 1 [(0, .ok (some 1)), (1, .ok (some 2))], .expire 0, .setattr 0 0 (.ok (some 5)) false, .read 0 1]) 0 0).2
    = .val (some 5) := by decide

/-- former defect "expire() after an assignment to an expired object keeps the stale value":
    create, expire, assign x=5, raw UPDATE x=9, expire, read x = 9 -/
example : (opRead exCfg (run exCfg init
    [.create 0 0 1 [(0, .ok (some 1)), (1, .ok (some 2))], .expire 0, .setattr 0 0 (.ok (some 5)) false,
     .oobUpdate 0 1 0 (some 9), .expire 0]) 0 0).2 = .val (some 9) := by decide

/-- an eager multi-column set with one rejected value changes neither row nor cache -/
example : (opRead exCfg (run exCfg init
    [.create 0 0 1 [(0, .ok (some 1)), (1, .ok (some 2))], .set 0 [(0, .ok (some 77)), (1, .bad)] false]) 0 0).2
    = .val (some 1) := by decide

/-- `destroySelf` of a referenced row, with its dependents loop: class 0 row 1 is referenced by the held eager
    instance 1 (cascade='null'), the held lazy instance 2 (cascade='null'), an unheld row of class 3 (the library
    builds instance 4 for it) and the held instance 3 of the cascade=True class -/
def exCascade : List Op :=
  [.create 0 0 1 [(0, .ok (some 7)), (1, .ok (some 8))],
   .create 1 3 1 [(0, .ok (some 1)), (1, .ok (some 5))],
   .create 2 4 1 [(0, .ok (some 1)), (1, .ok (some 6))],
   .create 3 5 1 [(0, .ok (some 1)), (1, .ok (some 7))],
   .oobInsert 3 2 [(0, some 1), (1, some 9)],
   .destroy 0 [.sel 3, .row 1 none, .row 4 (some (3, 2)), .sel 4, .row 2 none, .sel 5, .row 3 none]]

/-- afterwards: the eager referrers' rows hold NULL and the held instance shows NULL; the cascade row is gone;
    the referenced row is gone -/
example : ((run exCfg init exCascade).db 3 1).map (· 0) = some none ∧
    ((run exCfg init exCascade).db 3 2).map (· 0) = some none ∧
    (opRead exCfg (run exCfg init exCascade) 1 0).2 = .val none ∧
    ((run exCfg init exCascade).db 5 1).isNone = true ∧ ((run exCfg init exCascade).db 0 1).isNone = true := by decide

/-- the LAZY referrer is flushed inside `destroySelf` (`row.set(fkID=None); row.syncUpdate()`): it shows NULL,
    its row holds NULL, nothing stays pending -/
example : (opRead exCfg (run exCfg init exCascade) 2 0).2 = .val none ∧
    ((run exCfg init exCascade).db 4 1).map (· 0) = some none ∧
    ((run exCfg init exCascade).objs 2).map (·.pending) = some [] := by decide

/-- the hypotheses of `C05_inv_history` are satisfiable by a history with writes, reads, sync, expire, destroy -/
example : Hist (LibStep exCfg) exCfg init
    [.create 0 1 1 [(0, .ok (some 1))], .setattr 0 0 (.ok (some 5)) false, .read 0 1, .sync 0 false,
     .expire 0, .destroy 0 []] := by
  have live : ∀ (s : State) (h : Hnd), ((s.objs h).map (·.obsolete)).getD false = false → LiveTarget s h := by
    intro s h hb o ho; simpa [ho] using hb
  refine ⟨trivial, live _ _ (by decide), trivial, live _ _ (by decide), trivial,
    fun o _ => ⟨trivial, by simp only [opRefSteps]; exact live _ _ (by decide)⟩, trivial⟩

/-! ## The hand model of the value-level instance methods IS the translated source

`vlib/extractors/pymain.py` translates `SQLObject.expire / sync / _SO_selectInit / _SO_loadValue / _SO_getValue`
(and `syncUpdate`, `_SO_setValue`, `set`: C16) from /repo's `main.py` into PyMain programs on every run
(`Extracted/PyMain.lean`); `expireX`, `syncX`, … (`Model/OrmValX.lean`) RUN those programs from
`absW cfg i s o cv fail`, the image of instance `o` (held under handle `h`) of model state `s`, where `cv` is
ANY Python dict standing for the pending values (`Rep`: pairwise distinct keys, sorted by creation order it is
`o.pending`), `fail` says whether the database refuses the UPDATE, and `i : Iface` says which columns have a
`from_python` / `to_python` validator (`i.Ok`: the model's codec is the identity for a column without one).
`absUnit` / `absVal` read the final world back as a model state and an outcome (and are `none` when the method
leaves `_SO_writeLock` held).  Each theorem: the translated method yields EXACTLY what the hand model's
function yields — for all states and inputs, under the stated hypotheses only:
* `o.cached c = none` for `c ≥ ncols` (the object has `_SO_val_` attributes only for its columns);
* the pending keys are columns (`syncUpdate` looks them up in `sqlmeta.columns`);
* `ncols ≠ 0` where a row is fetched (an empty result tuple is falsy), `ncols ≠ 1` for `_SO_getValue`
  (the statement log of the model tells a one-column SELECT from a whole-row SELECT).
Signals are ignored (no listener connected).  A semantic edit of these methods changes the translated programs
and breaks these proofs. -/

open SqlObjVerif.PyMain in
/-- `expire()` = `opExpire` -/
theorem C05_translated_expire_eq_model (cfg : Cfg) (i : Iface) (s : State) (h : Hnd) (o : Inst) (cv : Pend) (fail : Bool)
    (ho : s.objs h = some o) (hattrs : ∀ c, cfg.ncols o.cls ≤ c → o.cached c = none) :
    absUnit o.cls o.id h (expireX o.cls o.id (cfg.ncols o.cls) h (absW cfg i s o cv fail)) = some (opExpire s h) :=
  expireX_eq cfg i s h o cv fail ho hattrs

open SqlObjVerif.PyMain in
/-- `sync()` = `opSync` (flush through the translated `syncUpdate`, SELECT, reload through the translated
    `_SO_selectInit`, NotFound, the refused UPDATE) -/
theorem C05_translated_sync_eq_model (cfg : Cfg) (i : Iface) (s : State) (h : Hnd) (o : Inst) (cv : Pend) (fail : Bool)
    (ho : s.objs h = some o) (hrep : Rep cv o.pending) (hcols : ∀ e ∈ o.pending, e.1 < cfg.ncols o.cls)
    (hattrs : ∀ c, cfg.ncols o.cls ≤ c → o.cached c = none) (hn : cfg.ncols o.cls ≠ 0) (hi : i.Ok cfg o.cls) :
    absUnit o.cls o.id h (syncX o.cls o.id (cfg.ncols o.cls) h (absW cfg i s o cv fail)) = some (opSync cfg s h fail) :=
  syncX_eq cfg i s h o cv fail ho hrep hcols hattrs hn hi

open SqlObjVerif.PyMain in
/-- `_SO_selectInit(row)`: the attributes become `loadRow` of the row, nothing else changes -/
theorem C05_translated_selectInit_eq_loadRow (cfg : Cfg) (i : Iface) (s : State) (h : Hnd) (o : Inst) (cv : Pend)
    (fail : Bool) (row : Row) (hattrs : ∀ c, cfg.ncols o.cls ≤ c → o.cached c = none) (hi : i.Ok cfg o.cls) :
    selectInitX o.cls o.id (cfg.ncols o.cls) h (absW cfg i s o cv fail) (.row ((List.range (cfg.ncols o.cls)).map row)) =
      .ret (absW cfg i s { o with cached := loadRow (cfg.dec o.cls) (cfg.ncols o.cls) row } cv fail) .none :=
  selectInitX_eq cfg i s h o cv fail row hattrs hi

open SqlObjVerif.PyMain in
/-- reading column `c` of a class that caches values: `_SO_loadValue('_SO_val_<c>')` = `opRead` (cached value; else
    SELECT, reload, the pending values put back through `to_python`, NotFound) -/
theorem C05_translated_loadValue_eq_model (cfg : Cfg) (i : Iface) (s : State) (h : Hnd) (o : Inst) (cv : Pend)
    (fail : Bool) (c : Col) (ho : s.objs h = some o) (hrep : Rep cv o.pending)
    (hattrs : ∀ c, cfg.ncols o.cls ≤ c → o.cached c = none) (hc : c < cfg.ncols o.cls) (hi : i.Ok cfg o.cls)
    (hcache : cfg.cacheValues o.cls = true) :
    absVal o.cls o.id h (loadValueX o.cls o.id (cfg.ncols o.cls) h (absW cfg i s o cv fail) c) = some (opRead cfg s h c) :=
  loadValueX_eq cfg i s h o cv fail c ho hrep hattrs hc hi hcache

open SqlObjVerif.PyMain in
/-- reading column `c` of a class that does not cache values: `_SO_getValue('<c>')` = `opRead` -/
theorem C05_translated_getValue_eq_model (cfg : Cfg) (i : Iface) (s : State) (h : Hnd) (o : Inst) (cv : Pend)
    (fail : Bool) (c : Col) (ho : s.objs h = some o) (hrep : Rep cv o.pending)
    (hc : c < cfg.ncols o.cls) (hn1 : cfg.ncols o.cls ≠ 1) (hi : i.Ok cfg o.cls)
    (hcache : cfg.cacheValues o.cls = false) :
    absVal o.cls o.id h (getValueX o.cls o.id (cfg.ncols o.cls) h (absW cfg i s o cv fail) c) = some (opRead cfg s h c) :=
  getValueX_eq cfg i s h o cv fail c ho hrep hc hn1 hi hcache

open SqlObjVerif.PyMain in
/-- the image of an instance reads back as the state it came from -/
theorem C05_translated_image (cfg : Cfg) (i : Iface) (s : State) (h : Hnd) (o : Inst) (cv : Pend) (fail : Bool)
    (ho : s.objs h = some o) (hrep : Rep cv o.pending) :
    conc o.cls o.id h (absW cfg i s o cv fail) = some s :=
  conc_absW cfg i s h o cv fail ho hrep

/-- the representation invariant holds in every state reachable by ANY operations (raw SQL included): the sorted
    pending list itself is a dict that stands for it (`FlagOK.sorted`), and the instance has cached attributes and
    pending values only for the columns of its class (`ColsOK`, preserved by every operation: `cols_step`) -/
theorem C05_translated_rep_reachable (cfg : Cfg) (s : State) (hs : AnyReach cfg s) (h : Hnd) (o : Inst)
    (ho : s.objs h = some o) : Rep o.pending o.pending ∧ ColsOK cfg o :=
  ⟨rep_of_sorted o.pending ((anyReach_flag cfg s hs) h o ho).sorted, anyReach_cols cfg s hs h o ho⟩

theorem C05_translated_cols_step (cfg : Cfg) (s : State) (op : Op) (hc : AllCols cfg s) : AllCols cfg (step cfg s op).1 :=
  cols_step cfg s op hc

/-! The same theorems for every REACHABLE state: no side condition beyond the configuration (`ncols`, `i.Ok`,
`cacheValues`), the inputs, and the choice of the dict `cv` (any `cv` with `Rep cv o.pending`; `o.pending` itself
is one by `C05_translated_rep_reachable`). -/

open SqlObjVerif.PyMain in
theorem C05_translated_expire_reachable (cfg : Cfg) (i : Iface) (s : State) (hs : AnyReach cfg s) (h : Hnd) (o : Inst)
    (cv : Pend) (fail : Bool) (ho : s.objs h = some o) :
    absUnit o.cls o.id h (expireX o.cls o.id (cfg.ncols o.cls) h (absW cfg i s o cv fail)) = some (opExpire s h) :=
  expireX_eq cfg i s h o cv fail ho (anyReach_cols cfg s hs h o ho).attrs

open SqlObjVerif.PyMain in
theorem C05_translated_sync_reachable (cfg : Cfg) (i : Iface) (s : State) (hs : AnyReach cfg s) (h : Hnd) (o : Inst)
    (cv : Pend) (fail : Bool) (ho : s.objs h = some o) (hrep : Rep cv o.pending)
    (hn : cfg.ncols o.cls ≠ 0) (hi : i.Ok cfg o.cls) :
    absUnit o.cls o.id h (syncX o.cls o.id (cfg.ncols o.cls) h (absW cfg i s o cv fail)) = some (opSync cfg s h fail) :=
  syncX_eq cfg i s h o cv fail ho hrep (anyReach_cols cfg s hs h o ho).pend (anyReach_cols cfg s hs h o ho).attrs hn hi

open SqlObjVerif.PyMain in
theorem C05_translated_selectInit_reachable (cfg : Cfg) (i : Iface) (s : State) (hs : AnyReach cfg s) (h : Hnd)
    (o : Inst) (cv : Pend) (fail : Bool) (row : Row) (ho : s.objs h = some o) (hi : i.Ok cfg o.cls) :
    selectInitX o.cls o.id (cfg.ncols o.cls) h (absW cfg i s o cv fail) (.row ((List.range (cfg.ncols o.cls)).map row)) =
      .ret (absW cfg i s { o with cached := loadRow (cfg.dec o.cls) (cfg.ncols o.cls) row } cv fail) .none :=
  selectInitX_eq cfg i s h o cv fail row (anyReach_cols cfg s hs h o ho).attrs hi

open SqlObjVerif.PyMain in
theorem C05_translated_loadValue_reachable (cfg : Cfg) (i : Iface) (s : State) (hs : AnyReach cfg s) (h : Hnd)
    (o : Inst) (cv : Pend) (fail : Bool) (c : Col) (ho : s.objs h = some o) (hrep : Rep cv o.pending)
    (hc : c < cfg.ncols o.cls) (hi : i.Ok cfg o.cls) (hcache : cfg.cacheValues o.cls = true) :
    absVal o.cls o.id h (loadValueX o.cls o.id (cfg.ncols o.cls) h (absW cfg i s o cv fail) c) = some (opRead cfg s h c) :=
  loadValueX_eq cfg i s h o cv fail c ho hrep (anyReach_cols cfg s hs h o ho).attrs hc hi hcache

/-- non-vacuity of the reachable-state theorems: a reachable state with a held instance -/
example : ∃ s h, AnyReach exCfg s ∧ (s.objs h).isSome = true :=
  ⟨_, 0, anyReach_run exCfg init [.create 0 1 1 [(0, .ok (some 1))]] AnyReach.init, by decide⟩

/-- a dict in another insertion order stands for the same pending values -/
example : Rep [(2, some 5), (0, none)] [(0, none), (2, some 5)] := ⟨by decide, by decide⟩

end SqlObjVerif.OrmVal
