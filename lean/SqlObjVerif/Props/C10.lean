import SqlObjVerif.Lemmas.Slice
import SqlObjVerif.Lemmas.SliceX
import SqlObjVerif.Lemmas.SelHeap
/-!
# C10 — slicing / indexing a select behaves like slicing / indexing the full result list

Property theorems only.  `xs` is the list of all matching rows in the requested order
(whatever `orderBy` / `reversed()` made it), so the statements hold with and without them.
-/
namespace SqlObjVerif.Slice

def denote (xs : List α) : Sel α → Option (List α)
  | .q w => some (window xs w)
  | .lst l => some l
  | .err => none

def Sel.WF : Sel α → Prop
  | .q w => w.WF
  | _ => True

/-- The SQL text produced for any well-formed window selects exactly `xs[start:stop]`,
    on every modelled dialect (LIMIT/OFFSET, `LIMIT o, n`, bare OFFSET). -/
theorem C10_rows_eq_window (d : Dialect) (xs : List α) (w : Win) (hw : w.WF) :
    rows d xs w = some ((takeOpt w.stop xs).drop w.start) :=
  rows_spec d xs w hw

/-- one `[a:b]` step: the outcome denotes the Python slice of what the select denoted,
    and the window stays well-formed (start ≤ stop). -/
theorem C10_slice_step (d : Dialect) (xs : List α) (s : Sel α) (l : List α) (op : SliceOp)
    (hs : denote xs s = some l) (hw : s.WF) :
    denote xs (stepSel d xs s op) = some (pySlice l op.1 op.2) ∧ (stepSel d xs s op).WF := by
  obtain ⟨a, b⟩ := op
  cases s with
  | err => simp [denote] at hs
  | lst l' =>
    simp only [denote, Option.some.injEq] at hs
    subst hs
    exact ⟨rfl, trivial⟩
  | q w =>
    simp only [denote, Option.some.injEq] at hs
    subst hs
    simp only [stepSel, sliceSel]
    by_cases hid : (!truthy a && b.isNone) = true
    · simp only [hid, if_true]
      have h1 : truthy a = false := by
        cases h : truthy a <;> simp [h] at hid ⊢
      have h2 : b = none := by
        cases b <;> simp at hid ⊢
      subst h2
      exact ⟨by simp [denote, pySlice_id _ _ h1], hw⟩
    · simp only [hid]
      by_cases hneg : ((truthy a && isNeg a) || (truthy b && isNeg b)) = true
      · simp only [hneg, if_true, rows_spec d xs w hw]
        exact ⟨rfl, trivial⟩
      · simp only [hneg]
        have ha : isNeg a = false := by
          cases a with
          | none => rfl
          | some av =>
            by_cases h : av < 0
            · have : truthy (some av) = true := by simp [truthy]; omega
              simp [this, isNeg, h] at hneg
            · simp [isNeg, h]
        have hb : isNeg b = false := by
          cases b with
          | none => rfl
          | some bv =>
            by_cases h : bv < 0
            · have : truthy (some bv) = true := by simp [truthy]; omega
              simp [this, isNeg, h] at hneg
            · simp [isNeg, h]
        have hid' : ¬ (truthy a = false ∧ b = none) := by
          intro ⟨h1, h2⟩
          subst h2
          simp [h1] at hid
        have := nonneg_spec xs w a b ha hb hid'
        exact ⟨by simp [denote, this.1], this.2⟩

/-- any chain of slices -/
theorem C10_chain_denotes (d : Dialect) (xs : List α) (ops : List SliceOp) (s : Sel α) (l : List α)
    (hs : denote xs s = some l) (hw : s.WF) :
    denote xs (ops.foldl (stepSel d xs) s)
        = some (ops.foldl (fun l (op : SliceOp) => pySlice l op.1 op.2) l)
      ∧ (ops.foldl (stepSel d xs) s).WF := by
  induction ops generalizing s l with
  | nil => exact ⟨hs, hw⟩
  | cons op ops ih =>
    have := C10_slice_step d xs s l op hs hw
    exact ih _ _ this.1 this.2

/-- `self[i]` on a well-formed window is `list[i]`, IndexError included -/
theorem C10_index_spec (d : Dialect) (xs : List α) (w : Win) (hw : w.WF) (i : Int) :
    indexSel d xs w i =
      match pyIndex (window xs w) i with
      | some x => .item x
      | none => .indexError := by
  unfold indexSel
  by_cases hi : i < 0
  · simp only [hi, if_true, rows_spec d xs w hw]
    rfl
  · simp only [hi, if_false]
    obtain ⟨n, rfl⟩ := Int.eq_ofNat_of_zero_le (by omega : 0 ≤ i)
    simp only [Int.toNat_natCast]
    have hwf : Win.WF ⟨w.start + n, some (w.start + n + 1)⟩ := by
      intro e h; simp only [Option.some.injEq] at h; subst h; simp
    rw [rows_spec d xs _ hwf]
    have hpy : pyIndex (window xs w) (n : Int) = (window xs w)[n]? := by
      have : ¬ ((n : Int) < 0) := by omega
      simp [pyIndex, this]
    rw [hpy, window_getElem?]
    have hone : window xs ⟨w.start + n, some (w.start + n + 1)⟩ = (xs[w.start + n]?).toList := by
      apply List.ext_getElem?
      intro j
      rw [window_getElem?]
      cases j with
      | zero => cases h : xs[w.start + n]? <;> simp
      | succ j =>
        have : ¬ (w.start + n + (j + 1) < w.start + n + 1) := by omega
        cases h : xs[w.start + n]? <;> simp [this]
    rw [hone]
    cases hst : w.stop with
    | none =>
      simp only
      cases h : xs[w.start + n]? <;> simp
    | some e =>
      simp only
      by_cases hp : w.start + n ≥ e
      · have : ¬ (w.start + n < e) := by omega
        simp [hp, this]
      · have : w.start + n < e := by omega
        simp only [hp, decide_false, this, if_true]
        cases h : xs[w.start + n]? <;> simp

/-- **C10.**  For every table content `xs` (any size), every chain of slices (any length;
    positive, zero, negative or omitted bounds) and every optional final index, the library's
    result on each modelled dialect equals the same operations on the Python list. -/
theorem C10_chain_eq_list_slicing (d : Dialect) (xs : List α) (ops : List SliceOp) (ix : Option Int) :
    evalModel d xs ops ix = pyEval xs ops ix := by
  unfold evalModel pyEval
  have h0 : denote xs (Sel.q ⟨0, none⟩ : Sel α) = some xs := by simp [denote, window, takeOpt]
  have hw0 : (Sel.q ⟨0, none⟩ : Sel α).WF := by intro e h; simp at h
  obtain ⟨hd, hw⟩ := C10_chain_denotes d xs ops _ xs h0 hw0
  generalize ops.foldl (stepSel d xs) (Sel.q ⟨0, none⟩) = s at hd hw
  generalize ops.foldl (fun l (op : SliceOp) => pySlice l op.1 op.2) xs = l at hd
  cases s with
  | err => simp [denote] at hd
  | lst l' =>
    simp only [denote, Option.some.injEq] at hd
    subst hd
    cases ix <;> rfl
  | q w =>
    simp only [denote, Option.some.injEq] at hd
    subst hd
    cases ix with
    | none => simp only [finish, rows_spec d xs w hw]
    | some i =>
      simp only [finish, C10_index_spec d xs w hw i]
      rfl

/-- `limit(n)` is `self[:n]` in the source; as a corollary it yields the first `n` rows. -/
theorem C10_limit_eq_prefix (d : Dialect) (xs : List α) (n : Nat) :
    evalModel d xs [(none, some (n : Int))] none = .rows (xs.take n) := by
  rw [C10_chain_eq_list_slicing]
  simp [pyEval, pySlice_none_n]


/-! ### The same statements about the source as TRANSLATED on this run

`Extracted.sliceProg` / `Extracted.indexProg` are the two branches of `SelectResults.__getitem__`
translated from /repo's AST into the PyMini deep embedding; `evalX` runs them. -/

/-- the translated slice branch behaves, on every input, like the hand-written model -/
theorem C10_translated_slice_eq_model (d : Dialect) (xs : List α) (w : Win) (a b : Option Int) :
    sliceSelX d xs w a b = sliceSel d xs w a b :=
  sliceSelX_eq d xs w a b

/-- the translated index branch behaves, on every input, like the hand-written model -/
theorem C10_translated_index_eq_model (d : Dialect) (xs : List α) (w : Win) (i : Int) :
    indexSelX d xs w i = indexSel d xs w i :=
  indexSelX_eq d xs w i

/-- **C10 for the translated source.**  Chains of slices and an optional index, executed by the
    PyMini translation of the current `__getitem__`, equal the same operations on the Python list. -/
theorem C10_translated_chain_eq_list_slicing (d : Dialect) (xs : List α) (ops : List SliceOp)
    (ix : Option Int) : evalX d xs ops ix = pyEval xs ops ix := by
  rw [← C10_chain_eq_list_slicing d xs ops ix]
  unfold evalX evalModel
  have hstep : stepSelX d xs = stepSel d xs := by
    funext s op
    obtain ⟨a, b⟩ := op
    cases s <;> simp [stepSelX, stepSel, sliceSelX_eq]
  rw [hstep]
  generalize ops.foldl (stepSel d xs) (Sel.q ⟨0, none⟩) = s
  cases s <;> cases ix <;> simp [finishX, finish, indexSelX_eq] <;> rfl

example : evalX .sqlite [10, 11, 12, 13, 14, 15] [(some 1, some 5), (some (-3), none)] (some 0) = .item 12 := by decide
example : evalX .mysql [10, 11, 12, 13, 14, 15] [(some 0, some 2), (some 3, none)] none = .rows [] := by decide

/-! ### Re-use: one select sliced several times (sessions on a heap of select objects)

`Extracted.cloneProg` / `Extracted.initProg` (namespace `PyOps`) are `SelectResults.clone` and the
`ops`-touching statements of `SelectResults.__init__`, translated from /repo's AST into the PyOps
embedding, in which dicts live on a heap and aliasing is visible. -/

open SqlObjVerif.PyOps in
/-- **`clone` is fresh** (translated source): for every heap, every select object, every oracle for
    the code the translation does not look into: `self.clone(start=s, end=e)` returns; its `ops` dict is
    at an address that did not exist before; NO dict that existed before the call is changed; the new dict
    holds the requested window. -/
theorem C10_translated_clone_fresh (o : Orc) (h : Heap) (p : Nat) (d : Dict) (s : Int) (e : Option Int)
    (hwf : h.WF) (hp : h.cells p = some d) (hnl : d.get? "limit" = none) :
    ∃ h' r d', runClone o PyOps.Extracted.initProg PyOps.Extracted.cloneProg h p (newOpsOf s e) = some (h', r)
      ∧ h.next ≤ r ∧ r < h'.next ∧ h'.WF
      ∧ (∀ q, q < h.next → h'.cells q = h.cells q)
      ∧ h'.cells r = some d' ∧ d'.get? "start" = some (.int s) ∧ d'.get? "end" = some (ofOpt e)
      ∧ d'.get? "limit" = none :=
  clone_spec o h p d s e hwf hp hnl

/-- value-level sessions equal the same session on Python lists -/
theorem C10_session_model_eq_lists (d : Dialect) (xs : List α) (ops : List SOp) :
    All2 (fun s l => denote xs s = some l ∧ s.WF) (runA d xs ops) (runP xs ops) := by
  unfold runA runP
  have h0 : All2 (fun s l => denote xs s = some l ∧ s.WF) [(Sel.q ⟨0, none⟩ : Sel α)] [xs] :=
    .cons ⟨by simp [denote, window, takeOpt], by intro e h; simp at h⟩ .nil
  generalize ([Sel.q ⟨0, none⟩] : List (Sel α)) = av at h0
  generalize [xs] = pv at h0
  have hstep : stepSelX d xs = stepSel d xs := by
    funext s op
    obtain ⟨a, b⟩ := op
    cases s <;> simp [stepSelX, stepSel, sliceSelX_eq]
  induction ops generalizing av pv with
  | nil => exact h0
  | cons op ops ih =>
    simp only [List.foldl]
    apply ih
    obtain ⟨i, a, b⟩ := op
    rcases forall2_get h0 i with ⟨h1, h2⟩ | ⟨s, l, h1, h2, hd, hw⟩
    · simpa [astep, pstep, h1, h2] using h0
    · simp only [astep, pstep, h1, h2, hstep]
      exact forall2_push h0 (C10_slice_step d xs s l (a, b) hd hw)

open SqlObjVerif.PyOps in
theorem rel_rows (d : Dialect) (xs : List α) (H : Heap) (c : CVal α) (s : Sel α) (l : List α)
    (hxy : Rel H c s) (hden : denote xs s = some l) (hw : s.WF) : rowsOfC d xs H c = some l := by
  cases c with
  | sel p =>
    cases s with
    | q w =>
      obtain ⟨dd, hc, hwd, _⟩ := hxy
      simp only [denote, Option.some.injEq] at hden
      simp only [rowsOfC, hc, Option.bind, hwd, rows_spec d xs w hw]
      rw [← hden]
    | _ => simp [Rel] at hxy
  | lst l' =>
    cases s with
    | lst l'' =>
      simp only [Rel] at hxy
      subst hxy
      simpa [rowsOfC, denote] using hden
    | _ => simp [Rel] at hxy
  | err =>
    cases s with
    | err => simp [denote] at hden
    | _ => simp [Rel] at hxy

theorem All2.comp {R : β → γ → Prop} {S : γ → δ → Prop} {T : β → δ → Prop}
    (hT : ∀ x y z, R x y → S y z → T x z) {l1 : List β} {l2 : List γ} {l3 : List δ}
    (h12 : All2 R l1 l2) (h23 : All2 S l2 l3) : All2 T l1 l3 := by
  induction h12 generalizing l3 with
  | nil => cases h23; exact .nil
  | cons hxy _ ih =>
    cases h23 with
    | cons hyz hrest => exact .cons (hT _ _ _ hxy hyz) (ih hrest)

open SqlObjVerif.PyOps in
/-- **C10 for sessions, translated source.**  For every table content, every session
    `v1 = v_i[a:b]; v2 = v_j[c:d]; …` (any earlier variable may be sliced again, any bounds), every
    oracle: executed by the translated `__getitem__` + `clone` + `__init__` on a heap of select objects,
    EVERY variable — the original select and all earlier windows included, read after all later slices were
    taken — yields exactly the rows the same session gives on Python lists. -/
theorem C10_translated_session_eq_list_slicing (o : Orc) (d : Dialect) (xs : List α) (ops : List SOp) :
    All2 (fun c l => rowsOfC d xs (runC o d xs ops).heap c = some l) (runC o d xs ops).vals (runP xs ops) :=
  All2.comp (fun c s l hxy hyz => rel_rows d xs _ c s l hxy hyz.1 hyz.2)
    (session_sim o d xs ops).2 (C10_session_model_eq_lists d xs ops)

/-- pagination, concretely: pages cut from the same select, then everything re-read -/
example : (runP [10, 11, 12, 13, 14, 15] [(0, some 0, some 2), (0, some 2, some 4), (1, some 1, none), (0, none, none)])
    = [[10, 11, 12, 13, 14, 15], [10, 11], [12, 13], [11], [10, 11, 12, 13, 14, 15]] := by decide

/-! ### Non-vacuity: concrete chains, including the ones that used to fail -/
example : evalModel .sqlite [10, 11, 12, 13, 14, 15] [(some 0, some 2), (some 3, none)] none = .rows [] := by decide
example : evalModel .sqlite [10, 11, 12, 13, 14, 15] [(some 2, none)] none = .rows [12, 13, 14, 15] := by decide
example : evalModel .mysql [10, 11, 12, 13, 14, 15] [(none, some 0)] none = .rows [] := by decide
example : evalModel .postgres [10, 11, 12, 13, 14, 15] [(some 0, some 2)] (some 5) = .indexError := by decide
example : evalModel .sqlite [10, 11, 12, 13, 14, 15] [(some (-2), some 0)] none = .rows [] := by decide
example : evalModel .sqlite [10, 11, 12, 13, 14, 15] [(some 1, some 5), (some (-3), none)] (some 0) = .item 12 := by decide

end SqlObjVerif.Slice
