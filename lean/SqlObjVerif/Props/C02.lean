import SqlObjVerif.Lemmas.Lex
/-!
# C02 — SQL literals are injection-proof: each value renders as exactly one literal

Property theorems only.  `renderString`, `render`, `insertSQL`, … are the model of the code over the
constants extracted from `/repo` (`Extracted/Lex.lean`); `lexString` / `tokens` are the reference
lexers (specification).  Characters are arbitrary `Nat` code points.
-/
namespace SqlObjVerif.Lex
open Extracted

/-- (i) the sequential `str.replace` passes of the extracted table (and the single pass of the
    quote-only dialects) amount to one independent map per character -/
theorem C02_escape_onepass (d : Dialect) (s : Str) : escape d s = s.flatMap (escChar d) :=
  escape_onepass d s

/-- (ii) the literal rendered for ANY admissible string is ONE token of the dialect, decodes to exactly
    the string and cannot end early — whatever text follows, provided it does not begin with a quote
    (the library never puts a quote directly behind a literal) -/
theorem C02_lex_render_string (d : Dialect) (s rest : Str) (ha : admissible d s)
    (hr : rest.head? ≠ some 39) :
    lexString d (renderString d s ++ rest) = some (s, rest) :=
  lex_render_string d s rest ha hr

example : lexString .mysql (renderString .mysql [39, 92, 0, 10] ++ [41]) = some ([39, 92, 0, 10], [41]) :=
  C02_lex_render_string _ _ _ (Or.inl rfl) (by decide)

/-- (iii) a string the backend cannot hold (NUL, everywhere but MySQL) is refused, never stored as
    something else — for PostgreSQL under the explicit hypothesis excluded by the finding below -/
theorem C02_nul_rejected_partial (d : Dialect) (s rest : Str) (hd : d ≠ .mysql) (h0 : 0 ∈ s)
    (hpg : d = .postgres → nulThenOct s = false) :
    lexString d (renderString d s ++ rest) = none :=
  nul_rejected d s rest hd h0 hpg

/-- full-strength statement: every string is either read back exactly or refused.  FALSE of the code:
    on postgres NUL is rendered `\0`, which PostgreSQL glues to a following octal digit
    (`E'\01'` is the one character U+0001). -/
theorem C02_string_exact_or_refused_full_FALSE :
    ¬ (∀ (d : Dialect) (s rest : Str), rest.head? ≠ some 39 →
        lexString d (renderString d s ++ rest) = some (s, rest) ∨
        lexString d (renderString d s ++ rest) = none) := by
  intro h
  have := h .postgres [0, 49] [] (by decide)
  revert this
  decide

/-- … and it holds outside that class -/
theorem C02_string_exact_or_refused_partial (d : Dialect) (s rest : Str) (hr : rest.head? ≠ some 39)
    (hx : ¬ (d = .postgres ∧ nulThenOct s = true)) :
    lexString d (renderString d s ++ rest) = some (s, rest) ∨
    lexString d (renderString d s ++ rest) = none := by
  by_cases ha : admissible d s
  · exact Or.inl (lex_render_string d s rest ha hr)
  · have hd : d ≠ .mysql := fun h => ha (Or.inl h)
    have h0 : 0 ∈ s := by
      apply Classical.byContradiction; intro h; exact ha (Or.inr h)
    refine Or.inr (nul_rejected d s rest hd h0 ?_)
    intro hp
    cases hn : nulThenOct s
    · rfl
    · exact absurd ⟨hp, hn⟩ hx

end SqlObjVerif.Lex
