import SqlObjVerif.Lemmas.Lex
import SqlObjVerif.Lemmas.Like
import SqlObjVerif.Lemmas.LexXStmt
import SqlObjVerif.Lemmas.LexXMore
/-!
# C02 — SQL literals are injection-proof: each value renders as exactly one literal

Property theorems only.  `renderString`, `render`, `insertSQL`, … are the model of the code over the
constants extracted from `/repo` (`Extracted/Lex.lean`); `lexString` / `tokens` are the reference
lexers (specification).  Characters are arbitrary `Nat` code points.
-/
namespace SqlObjVerif.Lex
open Extracted

/-- (i) the sequential `str.replace` passes of the extracted table (and the single pass of the
    quote-only dialects) amount to one independent map per character -/
theorem C02_escape_onepass (d : Dialect) (s : Str) : escape d s = s.flatMap (escChar d) :=
  escape_onepass d s

/-- (ii) the literal rendered for ANY admissible string is ONE token of the dialect, decodes to exactly
    the string and cannot end early — whatever text follows, provided it does not begin with a quote
    (the library never puts a quote directly behind a literal) -/
theorem C02_lex_render_string (d : Dialect) (s rest : Str) (ha : admissible d s)
    (hr : rest.head? ≠ some 39) :
    lexString d (renderString d s ++ rest) = some (s, rest) :=
  lex_render_string d s rest ha hr

example : lexString .mysql (renderString .mysql [39, 92, 0, 10] ++ [41]) = some ([39, 92, 0, 10], [41]) :=
  C02_lex_render_string _ _ _ (Or.inl rfl) (by decide)

/-- (iii) a string the backend cannot hold (NUL, everywhere but MySQL) is refused, never stored as
    something else — for PostgreSQL under the explicit hypothesis excluded by the finding below -/
theorem C02_nul_rejected_partial (d : Dialect) (s rest : Str) (hd : d ≠ .mysql) (h0 : 0 ∈ s)
    (hpg : d = .postgres → nulThenOct s = false) :
    lexString d (renderString d s ++ rest) = none :=
  nul_rejected d s rest hd h0 hpg

/-- full-strength statement: every string is either read back exactly or refused.  FALSE of the code:
    on postgres NUL is rendered `\0`, which PostgreSQL glues to a following octal digit
    (`E'\01'` is the one character U+0001). -/
theorem C02_string_exact_or_refused_full_FALSE :
    ¬ (∀ (d : Dialect) (s rest : Str), rest.head? ≠ some 39 →
        lexString d (renderString d s ++ rest) = some (s, rest) ∨
        lexString d (renderString d s ++ rest) = none) := by
  intro h
  have := h .postgres [0, 49] [] (by decide)
  revert this
  decide

/-- … and it holds outside that class -/
theorem C02_string_exact_or_refused_partial (d : Dialect) (s rest : Str) (hr : rest.head? ≠ some 39)
    (hx : ¬ (d = .postgres ∧ nulThenOct s = true)) :
    lexString d (renderString d s ++ rest) = some (s, rest) ∨
    lexString d (renderString d s ++ rest) = none := by
  by_cases ha : admissible d s
  · exact Or.inl (lex_render_string d s rest ha hr)
  · have hd : d ≠ .mysql := fun h => ha (Or.inl h)
    have h0 : 0 ∈ s := by
      apply Classical.byContradiction; intro h; exact ha (Or.inr h)
    refine Or.inr (nul_rejected d s rest hd h0 ?_)
    intro hp
    cases hn : nulThenOct s
    · rfl
    · exact absurd ⟨hp, hn⟩ hx

/-- (iv-a) `repr(int)` is read back as the same integer (decimal digits round trip, sign included) -/
theorem C02_int_roundtrip (i : Int) : parseInt (renderInt i) = i := parseInt_renderInt i

/-- (iv-b) every admissible value — string, int, bool, None, date, time, datetime, float/Decimal text,
    arbitrarily nested sequence — contributes exactly its own token group `valToks d v` (one string token
    for strings / dates / times, sign + digits for ints, `(` items `,` … `)` for sequences) to ANY
    statement text around it, provided the text behind it starts with a delimiter; what follows is lexed
    as if the value were not there.  By mutual induction over the (nested) value. -/
theorem C02_lex_render_value (d : Dialect) (v : Val) (rest : Str) (ha : Adm d v = true)
    (hr : okAfter rest = true) :
    tokens d (render d v ++ rest) = (tokens d rest).map (valToks d v ++ ·) :=
  tokens_render d v rest ha hr

example : tokens .postgres (render .postgres (.seq [.str [39, 59, 45, 45], .null, .bool true]) ++ [41])
    = some ([.punct 40, .str [39, 59, 45, 45], .punct 44, .word [78, 85, 76, 76],
             .punct 44, .str [116], .punct 41] ++ [.punct 41]) := by
  rw [C02_lex_render_value _ _ _ (by decide) (by decide), tokens_close]; rfl

/-- (v-a) `_insertSQL`: the token stream is the skeleton `INSERT INTO t ( names ) VALUES ( … )` with the
    i-th hole filled by the token group of the i-th value — for any number of values (induction over the
    value list); the skeleton does not depend on the data. -/
theorem C02_stmt_skeleton_independent_of_data_insert (d : Dialect) (table : Str) (names : List Str)
    (vs : List Val) (ht : identLike table = true) (hn : ∀ n ∈ names, identLike n = true)
    (hv : ∀ v ∈ vs, Adm d v = true) :
    tokens d (insertSQL d table names vs) = some (insertToks table names (vs.map (valToks d))) :=
  tokens_insertSQL d table names vs ht hn hv

/-- (v-b) the UPDATE `_SO_update` sends: `UPDATE t SET n = ( lit ) , … WHERE id = ( lit )` -/
theorem C02_stmt_skeleton_independent_of_data_update (d : Dialect) (table : Str) (sets : List (Str × Val))
    (idName : Str) (idv : Val) (ht : identLike table = true) (hi : identLike idName = true)
    (hs : ∀ p ∈ sets, identLike p.1 = true ∧ Adm d p.2 = true) (hidv : Adm d idv = true) :
    tokens d (updateSQL d table sets idName idv) =
      some (updateToks table (sets.map fun p => (p.1, valToks d p.2)) idName (valToks d idv)) :=
  tokens_updateSQL d table sets idName idv ht hi hs hidv

/-- (v-c) the WHERE text of `_SO_columnClause`: `n = lit AND n IS NULL AND …`; the only thing the
    skeleton takes from the data is whether a value is `None` -/
theorem C02_stmt_skeleton_independent_of_data_where (d : Dialect) (data : List (Str × Val))
    (hs : ∀ p ∈ data, identLike p.1 = true ∧ Adm d p.2 = true) :
    tokens d (columnClause d data) =
      some (clauseToks (data.map fun p => (p.1, p.2.isNull, valToks d p.2))) :=
  tokens_columnClause d data hs

example : tokens .mysql (insertSQL .mysql [116] [[97], [98]] [.str [39, 41, 59], .null])
    = some (insertToks [116] [[97], [98]] [[.str [39, 41, 59]], [.word [78, 85, 76, 76]]]) := by
  rw [C02_stmt_skeleton_independent_of_data_insert _ _ _ _ (by decide) (by decide) (by decide)]; rfl

/-- (v-d) LIKE patterns: the clause `startswith` / `endswith` / `contains` render is
    `( expr LIKE ( <ONE literal> ) ESCAPE <ONE literal> )`, the pattern literal decodes to
    prefix ++ (argument with `\ % _` escaped) ++ postfix — quotes at the edges of the argument, doubled
    quotes, only quotes included — and the escape literal to `\`.  (`likeAdm`: see C17.) -/
theorem C02_like_pattern_one_literal (d : Dialect) (op : LikeOp) (expr a : Str)
    (hop : op = startswithOp ∨ op = endswithOp ∨ op = containsOp)
    (ha : Like.likeAdm d a = true) (hexpr : identLike expr = true) :
    tokens d (Like.likeClause d op expr a) =
      some (Like.likeToks expr (op.pre ++ Like.likeQ a ++ op.post) [92]) := by
  rcases hop with rfl | rfl | rfl <;>
    exact Like.tokens_likeClause d _ expr a ha hexpr (by decide) (by decide) rfl

example : tokens .sqlite (Like.likeClause .sqlite containsOp [99] [39]) =
    some (Like.likeToks [99] [37, 39, 37] [92]) :=
  C02_like_pattern_one_literal _ _ _ _ (Or.inr (Or.inr rfl)) (by decide) (by decide)

/-- an SQLObject instance used as a value (`T.q.id == obj`, `IN(col, [obj])`) renders as the literal of
    its id (`SQLObject.__sqlrepr__` = `sqlrepr(self.id, db)`), for integer AND string ids
    (`sqlmeta.idType = str`): one string token that decodes to exactly the id, resp. sign + digits. -/
theorem C02_instance_value (d : Dialect) (v : Val) (rest : Str) (hr : okAfter rest = true)
    (hv : match v with | .instStr s => admissible d s | .instInt _ => True | _ => False) :
    tokens d (render d v ++ rest) =
      (tokens d rest).map ((match v with | .instStr s => [Tok.str s] | .instInt i => intToks i | _ => []) ++ ·) := by
  cases v with
  | instStr s =>
    have := C02_lex_render_value d (.instStr s) rest (by simpa [Adm] using hv) hr
    simpa [valToks] using this
  | instInt i =>
    have := C02_lex_render_value d (.instInt i) rest rfl hr
    simpa [valToks] using this
  | _ => exact absurd hv (by simp)

example : tokens .sqlite (render .sqlite (.instStr [48, 41, 32, 79, 82, 32, 40, 49, 61, 49]) ++ [41]) =
    some [.str [48, 41, 32, 79, 82, 32, 40, 49, 61, 49], .punct 41] := by
  rw [C02_instance_value _ _ _ (by decide) (by simp [admissible]), tokens_close]; rfl

theorem admList_strs (d : Dialect) (vs : List Str) (h : ∀ v ∈ vs, admissible d v) :
    AdmList d (vs.map Val.str) = true := by
  induction vs with
  | nil => rfl
  | cons v vs ih =>
    simp only [List.map_cons, AdmList, Adm, Bool.and_eq_true, decide_eq_true_eq]
    exact ⟨h v (by simp), ih (fun x hx => h x (by simp [hx]))⟩

/-- (v-e) ENUM / CHECK DDL: the literal list `(v₁, v₂, …)` that `SOEnumCol` places in the column type
    (`', '.join(sqlrepr(v, db) …)` inside parentheses = the sequence rendering) is, for the dialect it is
    rendered for, `(` one string token per declared value `,` … `)`, each decoding to exactly that value —
    for any number of values, whatever follows the closing parenthesis. -/
theorem C02_enum_literal_list (d : Dialect) (vs : List Str) (rest : Str)
    (h : ∀ v ∈ vs, admissible d v) (hr : okAfter rest = true) :
    tokens d (render d (.seq (vs.map .str)) ++ rest) =
      (tokens d rest).map ((Tok.punct 40 :: (seqToks d (vs.map .str) ++ [Tok.punct 41])) ++ ·) := by
  have := C02_lex_render_value d (.seq (vs.map .str)) rest (by simpa [Adm] using admList_strs d vs h) hr
  simpa [valToks] using this

example : seqToks .sqlite ([[92, 110], [39]].map Val.str) = [.str [92, 110], .punct 44, .str [39]] := rfl

end SqlObjVerif.Lex

/-! ## The TRANSLATED source (`vlib/extractors/pylex.py` → `Extracted/PyLex.lean`, semantics `Model/PyLex.lean`)

`world P n` is the interface under which the translated functions call each other (`Model/LexX.lean`: its header lists
every assumed interface — `str.upper` per character, the exact-class converter registry, which classes have
`__sqlrepr__`, the external method calls `P.cm`); `n` bounds the call depth.  The theorems below say that RUNNING the
translated Python functions gives exactly the hand model the theorems above are about — for every input, all 7
dialects — and restate the headline theorems about the translated source. -/
namespace SqlObjVerif.LexX
open SqlObjVerif.PyLex

/-- `converters.StringLikeConverter(s, db)` as translated = `renderString` (the `sqlStringReplace` loop, the
    `db in (…)` branches, the E-prefix), any call depth -/
theorem C02_translated_StringLikeConverter_eq_model (P : Ext) (n : Nat) (d : Lex.Dialect) (s : Lex.Str) :
    stringLikeConverterX (world P n) s (.str (dbName d)) = .ret (.str (Lex.renderString d s)) := slc P n d s

/-- an unknown database name (here: `None`, the default of `sqlrepr(obj, db=None)`) hits the `assert 0` -/
theorem C02_translated_StringLikeConverter_unknown_db (P : Ext) (n : Nat) (s : Lex.Str) :
    stringLikeConverterX (world P n) s .none = .exc .assertionError := by
  unfold stringLikeConverterX run Extracted.StringLikeConverter Extracted.StringLikeConverter_s0
    Extracted.StringLikeConverter_s1 Extracted.StringLikeConverter_s2 Extracted.StringLikeConverter_s3
  pyl

/-- `converters.quote_str(s, db)` as translated = `quoteStr` -/
theorem C02_translated_quote_str_eq_model (P : Ext) (n : Nat) (d : Lex.Dialect) (s : Lex.Str) :
    quoteStrX (world P n) s (.str (dbName d)) = .ret (.str (Lex.quoteStr d s)) := qs P n d s

/-- `converters.unquote_str(s)` as translated = `unquoteStr`, given what `str.upper` does to `E e '` (see `UpperOK`) -/
theorem C02_translated_unquote_str_eq_model (P : Ext) (n : Nat) (hup : UpperOK P.upper) (s : Lex.Str) :
    unquoteStrX (world P n) s = .ret (.str (Like.unquoteStr s)) := uq P n hup s

/-- the value converters as translated -/
theorem C02_translated_IntConverter_eq_model (P : Ext) (n : Nat) (i : Int) (db : Val) :
    run (world P n) Extracted.IntConverter [.int i, db] = .ret (.str (Lex.renderInt i)) := int_conv P n i db

theorem C02_translated_BoolConverter_eq_model (P : Ext) (n : Nat) (d : Lex.Dialect) (b : Bool) :
    run (world P n) Extracted.BoolConverter [.bool b, .str (dbName d)] = .ret (.str (Lex.renderBool d b)) :=
  bool_conv P n d b

theorem C02_translated_NoneConverter_eq_model (P : Ext) (n : Nat) (v db : Val) :
    run (world P n) Extracted.NoneConverter [v, db] = .ret (.str Lex.Extracted.noneLit) := none_conv P n v db

theorem C02_translated_DateConverter_eq_model (P : Ext) (n : Nat) (y m dd : Nat) (db : Val) :
    run (world P n) Extracted.DateConverter [dateObj y m dd, db] =
      .ret (.str (Lex.fmt Lex.Extracted.dateFmt [y, m, dd] [])) := date_conv P n y m dd db

theorem C02_translated_TimeConverterMS_eq_model (P : Ext) (n : Nat) (h mi s us : Nat) (db : Val) :
    run (world P n) Extracted.TimeConverterMS [timeObj h mi s us, db] =
      .ret (.str (Lex.fmt Lex.Extracted.timeFmt [h, mi, s, us] [])) := time_conv P n h mi s us db

theorem C02_translated_DateTimeConverterMS_eq_model (P : Ext) (n : Nat) (y m dd h mi s us : Nat) (db : Val) :
    run (world P n) Extracted.DateTimeConverterMS [dateTimeObj y m dd h mi s us, db] =
      .ret (.str (Lex.fmt Lex.Extracted.dateTimeFmt [y, m, dd, h, mi, s, us] [])) :=
  datetime_conv P n y m dd h mi s us db

/-- `SequenceConverter` as translated (the comprehension over `sqlrepr`, the join, the parentheses), given that the
    translated `sqlrepr` renders the elements as the model does -/
theorem C02_translated_SequenceConverter_eq_model (P : Ext) (m : Nat) (d : Lex.Dialect) (l : List Lex.Val)
    (hall : ∀ v ∈ l, run (world P m) Extracted.sqlrepr [ofVal v, .str (dbName d)] = .ret (.str (Lex.render d v))) :
    run (world P (m + 1)) Extracted.SequenceConverter [.list (ofVals l), .str (dbName d)] =
      .ret (.str (Lex.Extracted.seqOpen ++ Lex.renderSeq d l ++ Lex.Extracted.seqClose)) := seq_conv P m d l hall

/-- `sqlrepr(v, db)` as translated — `__sqlrepr__` attribute first, else the exact-class registry, the converter
    call, `SQLObject.__sqlrepr__` for instances — = `render`, for EVERY value incl. arbitrarily nested sequences
    (mutual induction over the value; `depth v` = the call depth it needs) -/
theorem C02_translated_sqlrepr_eq_model (P : Ext) (hrepr : ∀ t, P.reprOf (floatObj t) = .ok t) (d : Lex.Dialect)
    (v : Lex.Val) (n : Nat) (hn : depth v ≤ n) :
    sqlreprX (world P n) (ofVal v) (.str (dbName d)) = .ret (.str (Lex.render d v)) := sqlrepr_val P hrepr d v n hn

/-- a value of a class without `__sqlrepr__` and without a registered converter: ValueError -/
theorem C02_translated_sqlrepr_unknown_type (P : Ext) (n : Nat) (c : String) (fs : List (String × Val)) (db : Val)
    (h1 : hasRepr P c = false) (h2 : aget c Extracted.registry.reverse = none) (h3 : aget "__sqlrepr__" fs = none) :
    sqlreprX (world P (n + 1)) (.obj c fs) db = .exc .valueError := by
  apply sqlrepr_unknown
  · simp [attrOf, h3, xGetAttr, h1]
  · simp [callFn_ext, lookupConverter, h2]

/-- `DBAPI._insertSQL` as translated = `insertSQL` -/
theorem C02_translated_insertSQL_eq_model (P : Ext) (hrepr : ∀ t, P.reprOf (floatObj t) = .ok t) (d : Lex.Dialect)
    (table : Lex.Str) (names : List Lex.Str) (vs : List Lex.Val) (m : Nat) (hm : depthL vs ≤ m) :
    run (world P (m + 2)) Extracted.insertSQL [connObj d, .str table, .list (names.map .str), .list (ofVals vs)] =
      .ret (.str (Lex.insertSQL d table names vs)) := insertSQL_run P hrepr d table names vs m hm

/-- `DBAPI._SO_update` as translated: the text handed to `self.query` is `updateSQL` -/
theorem C02_translated_SO_update_eq_model (P : Ext) (hrepr : ∀ t, P.reprOf (floatObj t) = .ok t) (d : Lex.Dialect)
    (table idName : Lex.Str) (sets : List (Lex.Str × Lex.Val)) (idv : Lex.Val) (m : Nat)
    (hm : ∀ p ∈ sets, depth p.2 ≤ m) (hid : depth idv ≤ m) :
    run (world P (m + 2)) Extracted.SO_update [connObj d, soObj table idName (ofVal idv), .list (setsVal sets)] =
      match P.cm (connObj d) "query" [.str (Lex.updateSQL d table sets idName idv)] with
      | .ok _ => .ret .none
      | .exc e => .exc e
      | .stuck => .stuck := SO_update_run P hrepr d table idName sets idv m hm hid

/-! ### the headline theorems, about the translated source -/

/-- (ii) what the TRANSLATED `StringLikeConverter` returns for an admissible string is ONE token of the dialect that
    decodes to exactly the string, whatever follows -/
theorem C02_translated_lex_render_string (P : Ext) (n : Nat) (d : Lex.Dialect) (s rest : Lex.Str)
    (ha : Lex.admissible d s) (hr : rest.head? ≠ some 39) :
    ∃ t, stringLikeConverterX (world P n) s (.str (dbName d)) = .ret (.str t) ∧
      Lex.lexString d (t ++ rest) = some (s, rest) :=
  ⟨_, slc P n d s, Lex.C02_lex_render_string d s rest ha hr⟩

/-- (iii) NUL (outside MySQL) is refused — same explicit exclusion as `C02_nul_rejected_partial` -/
theorem C02_translated_nul_rejected_partial (P : Ext) (n : Nat) (d : Lex.Dialect) (s rest : Lex.Str)
    (hd : d ≠ .mysql) (h0 : 0 ∈ s) (hpg : d = .postgres → Lex.nulThenOct s = false) :
    ∃ t, stringLikeConverterX (world P n) s (.str (dbName d)) = .ret (.str t) ∧
      Lex.lexString d (t ++ rest) = none :=
  ⟨_, slc P n d s, Lex.C02_nul_rejected_partial d s rest hd h0 hpg⟩

/-- the full-strength statement is FALSE of the translated source too (postgres, NUL + octal digit) -/
theorem C02_translated_string_exact_or_refused_full_FALSE :
    ¬ (∀ (P : Ext) (n : Nat) (d : Lex.Dialect) (s rest t : Lex.Str), rest.head? ≠ some 39 →
        stringLikeConverterX (world P n) s (.str (dbName d)) = .ret (.str t) →
        Lex.lexString d (t ++ rest) = some (s, rest) ∨ Lex.lexString d (t ++ rest) = none) := by
  intro h
  have := h ⟨asciiUpper, fun _ => false, fun _ _ _ => .stuck, fun _ => .stuck, fun _ => .stuck⟩ 0 .postgres [0, 49] []
    (Lex.renderString .postgres [0, 49]) (by decide) (slc _ _ _ _)
  revert this
  decide

/-- (iv-b) what the TRANSLATED `sqlrepr` returns for any admissible value contributes exactly its own token group -/
theorem C02_translated_lex_render_value (P : Ext) (hrepr : ∀ t, P.reprOf (floatObj t) = .ok t) (d : Lex.Dialect)
    (v : Lex.Val) (rest : Lex.Str) (n : Nat) (hn : depth v ≤ n) (ha : Lex.Adm d v = true)
    (hr : Lex.okAfter rest = true) :
    ∃ t, sqlreprX (world P n) (ofVal v) (.str (dbName d)) = .ret (.str t) ∧
      Lex.tokens d (t ++ rest) = (Lex.tokens d rest).map (Lex.valToks d v ++ ·) :=
  ⟨_, sqlrepr_val P hrepr d v n hn, Lex.C02_lex_render_value d v rest ha hr⟩

/-- (v-a) the statement the TRANSLATED `_insertSQL` returns tokenises to the data-independent skeleton -/
theorem C02_translated_stmt_skeleton_insert (P : Ext) (hrepr : ∀ t, P.reprOf (floatObj t) = .ok t) (d : Lex.Dialect)
    (table : Lex.Str) (names : List Lex.Str) (vs : List Lex.Val) (m : Nat) (hm : depthL vs ≤ m)
    (ht : Lex.identLike table = true) (hn : ∀ n ∈ names, Lex.identLike n = true) (hv : ∀ v ∈ vs, Lex.Adm d v = true) :
    ∃ t, run (world P (m + 2)) Extracted.insertSQL [connObj d, .str table, .list (names.map .str), .list (ofVals vs)] =
        .ret (.str t) ∧
      Lex.tokens d t = some (Lex.insertToks table names (vs.map (Lex.valToks d))) :=
  ⟨_, insertSQL_run P hrepr d table names vs m hm,
    Lex.C02_stmt_skeleton_independent_of_data_insert d table names vs ht hn hv⟩

/-- (v-b) the statement the TRANSLATED `_SO_update` hands to `self.query` tokenises to the UPDATE skeleton -/
theorem C02_translated_stmt_skeleton_update (P : Ext) (hrepr : ∀ t, P.reprOf (floatObj t) = .ok t) (d : Lex.Dialect)
    (table idName : Lex.Str) (sets : List (Lex.Str × Lex.Val)) (idv : Lex.Val) (m : Nat)
    (hm : ∀ p ∈ sets, depth p.2 ≤ m) (hid : depth idv ≤ m)
    (ht : Lex.identLike table = true) (hi : Lex.identLike idName = true)
    (hs : ∀ p ∈ sets, Lex.identLike p.1 = true ∧ Lex.Adm d p.2 = true) (hidv : Lex.Adm d idv = true) :
    ∃ t, run (world P (m + 2)) Extracted.SO_update [connObj d, soObj table idName (ofVal idv), .list (setsVal sets)] =
        (match P.cm (connObj d) "query" [.str t] with
          | .ok _ => .ret .none
          | .exc e => .exc e
          | .stuck => .stuck) ∧
      Lex.tokens d t =
        some (Lex.updateToks table (sets.map fun p => (p.1, Lex.valToks d p.2)) idName (Lex.valToks d idv)) :=
  ⟨_, SO_update_run P hrepr d table idName sets idv m hm hid,
    Lex.C02_stmt_skeleton_independent_of_data_update d table sets idName idv ht hi hs hidv⟩

/-- `DecimalConverter` as translated: the text of `value.to_eng_string()` (an opaque token run, like `repr(float)`),
    unchanged; `hd` = the interface assumption that the method returns the text `t` -/
theorem C02_translated_DecimalConverter_eq_model (P : Ext) (n : Nat) (t : Lex.Str) (db : Val)
    (hd : P.cm (decimalObj t) "to_eng_string" [] = .ok (.str t)) :
    run (world P n) Extracted.DecimalConverter [decimalObj t, db] = .ret (.str t) := decimal_conv P n t db hd

/-- … through the translated `sqlrepr` dispatch (registry entry `Decimal`), = the model's `render` of a number -/
theorem C02_translated_sqlrepr_decimal_eq_model (P : Ext) (n : Nat) (d : Lex.Dialect) (neg : Bool) (mant : Lex.Str)
    (exp : Option (Nat × Lex.Str))
    (hd : P.cm (decimalObj (Lex.renderNum neg mant exp)) "to_eng_string" [] = .ok (.str (Lex.renderNum neg mant exp))) :
    sqlreprX (world P (n + 2)) (decimalObj (Lex.renderNum neg mant exp)) (.str (dbName d)) =
      .ret (.str (Lex.render d (.num neg mant exp))) := by
  simpa [Lex.render, sqlreprX, ret] using sqlrepr_decimal P n _ (.str (dbName d)) hd

/-- `TimedeltaConverter` as translated: `INTERVAL '<days> days <seconds> seconds'` with `%d` of the two ints (the hand
    model `Lex.Val` has no timedelta kind: the statement is the format itself) -/
theorem C02_translated_TimedeltaConverter_text (P : Ext) (n : Nat) (days secs : Int) (db : Val) :
    run (world P n) Extracted.TimedeltaConverter [timedeltaObj days secs, db] =
      .ret (.str ([73, 78, 84, 69, 82, 86, 65, 76, 32, 39] ++ Lex.renderInt days ++ [32, 100, 97, 121, 115, 32] ++
        Lex.renderInt secs ++ [32, 115, 101, 99, 111, 110, 100, 115, 39])) := timedelta_conv P n days secs db

/-- a test interface: ASCII upper-casing, no expression classes, `query` returns its argument -/
def testExt : Ext :=
  ⟨asciiUpper, fun _ => false, fun _ m args => if m = "query" then .ok (.list args) else .stuck,
    fun v => match v with
      | .obj _ [(_, .str t)] => .ok t
      | _ => .stuck,
    fun _ => .stuck⟩

-- non-vacuity: the translated programs RUN (kernel evaluation of the interpreter on the extracted terms)
example : stringLikeConverterX (world testExt 0) [39, 92, 10] (.str (dbName .postgres)) =
    .ret (.str [69, 39, 39, 39, 92, 92, 92, 110, 39]) := by rfl
example : sqlreprX (world testExt 6) (.list [.str [39], .none, .bool true, .list [.str []]]) (.str (dbName .sqlite)) =
    .ret (.str [40, 39, 39, 39, 39, 44, 32, 78, 85, 76, 76, 44, 32, 49, 44, 32, 40, 39, 39, 41, 41]) := by rfl

end SqlObjVerif.LexX
