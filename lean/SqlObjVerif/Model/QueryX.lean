import SqlObjVerif.Model.Query
import SqlObjVerif.Model.PyQuery
import SqlObjVerif.Extracted.PyQuery
/-!
# C11 — the query-planning code as TRANSLATED from the source

The functions below RUN the PyQuery programs that `vlib/extractors/pyquery.py` translated from /repo's `sresults.py`,
`sqlbuilder.py`, `dbconnection.py`, `main.py`, `index.py` on this very run.  `Lemmas/QueryX*.lean` prove them equal to
the plan functions of the hand model `Model/Query.lean` (`mungeOrderBy`, `mungeSeq`, `mungeAll`, `Sel.new`, `Sel.rev`,
`Sel.dist`, `Sel.orderBy`, `Sel.filter`, `nary`, `OExpr.key`, `applyReverser`, `orderKeys`, `accumulatePlan`,
`countPlan`, `aggPlan`, `getOne`, `deliver`, `columnClause`, `selectBy`, `fetchAlternateID`, `indexGet`) for ALL inputs,
so that the theorems of `Props/C11.lean` are theorems about the translated source.

## How the hand model's data appear as Python values (`*V` functions below)

* a class `T` with schema `sch`: `clsV` (a module-level object); `T.sqlmeta` = `sqlmetaV sch` (stored attributes
  `columns` — a dict name ↦ column, `columnList`, `defaultOrder`, `table`, `idName`); `T.q` = `qV`; a column is an
  object with `name`, `dbName`, `foreignName`, `from_python` (= `None`: no converter — value conversion is C01);
* `T.q.<name>` (also through `getattr`) = `fieldV name`: an `SQLObjectField` object;
* order expressions: `OExpr.toVal` (`DESC(e)` = an object of class `DESC` with the attribute `expr`, `SQLConstant(s)`
  with `const`); a user-level order key is a `str` or such an expression (`OrderArg.toVal`); `OrderBy.toVal` is `None`,
  a key, a `list` or a `tuple` of keys;
* filter clauses: `clauseV` (`SQLOp` objects with `op`, `expr1`, `expr2`; `SQLTrueClause` is the module-level object;
  the keyword clause of `selectBy`, a text, is stored by `__init__` as `SQLConstant('(<text>)')`);
* a `SelectResults` is an object with the attributes `sourceClass`, `clause`, `ops` (a dict), `clauseTables`, `tables`;
  it REPRESENTS the hand model's `Sel` when `Rep` holds (clause, `ops['dbOrderBy']`, truth of `ops['reversed']` /
  `ops['distinct']`).

## Interface assumptions (the PARAMETERS of the interpreter, `qIface`)

* the constructors `DESC(x)`, `SQLConstant(x)`, `SQLOp(op, a, b)` store their arguments and do nothing else;
  `string_type` is `str`; `isinstance(v, SQLExpression)` holds for the objects of the classes `DESC`, `SQLConstant`,
  `SQLOp`, `SQLPrefix`, `SQLObjectField` and for `SQLTrueClause`; `isinstance(v, DESC)` for the class `DESC`;
  `isinstance(v, SQLObject)` for objects of class `SQLObject`; nothing is a generator;
* `sqlbuilder.tablesUsedSet`, `set.add`, `list(<set>)`, `repr`, `sqlrepr` of anything other than a `DESC` (the
  `P.*` fields) are arbitrary total functions; `'%s' % v` of a non-`str` is `P.fmt`;
* method calls on objects are resolved by the parameter `cm` — each theorem says what it assumes about the calls the
  translated function makes (usually: "the call returns what the translated callee returns", the chain theorems
  instantiate `cm` with the translated callees themselves: `cmSR`);
* `_SO_columnClause` (`Lemmas/QueryXKw.lean`): keyword values are `None`, ints or `SQLObject` instances with an `id`
  (`kwValV`); `NoClash`: `id`, the column names and the foreign names of the class are distinct Python names; an
  instance used as a query value renders as its id (`P.sqlrepr (instance id) = P.sqlrepr id`, /repo's fix 56fe495);
  `None in <dict>` is `False`; a dict PARAMETER popped by the callee is not seen changed by the caller;
* the chain theorems (`Lemmas/QueryXChain.lean`) need no assumption on `_mungeOrderBy`, `_getConnection`, `__class__`,
  `clone`, `accumulateOne`, `accumulateMany` any more (they are the translated functions: `cm1`, `cm2`, `cm3`, `cmMany`,
  `cmOne`); what remains a parameter there: `accumulate` of the final step, `sqlrepr`, `P.conn.dbName`;
* the database is the pair of parameters `queryOne : text ↦ row`, `rowsOf : SelectResults ↦ fetched rows`; the model's
  reference evaluator instantiates them in `Props/C11.lean`.
-/
namespace SqlObjVerif.QueryX
open SqlObjVerif.PyQ

abbrev Schema := Query.Schema
abbrev OExpr := Query.OExpr
abbrev ColRef := Query.ColRef

def optStr : Option Str → Val
  | none => .none
  | some s => .str s

@[simp] theorem optStr_none : optStr none = .none := rfl
@[simp] theorem optStr_some (s : Str) : optStr (some s) = .str s := rfl

def idName : Str := ['i', 'd']

/-- the Python name of a column reference: `id`, or the key of `sqlmeta.columns` -/
def colName (sch : Schema) : ColRef → Str
  | .id => idName
  | .col i => match sch.cols[i]? with
    | some c => c.name
    | none => []

/-- `T.q.<name>` -/
def fieldV (n : Str) : Val := .obj "SQLObjectField" [("fieldName", .str n)]

def descV (v : Val) : Val := .obj "DESC" [("expr", v)]
def constV (v : Val) : Val := .obj "SQLConstant" [("const", v)]
def sqlOpV (op : Str) (a b : Val) : Val := .obj "SQLOp" [("op", .str op), ("expr1", a), ("expr2", b)]

def OExpr.toVal (sch : Schema) : OExpr → Val
  | .field c => fieldV (colName sch c)
  | .const s => constV (.str s)
  | .desc e => descV (OExpr.toVal sch e)

def OrderArg.toVal (sch : Schema) : Query.OrderArg → Val
  | .str s => .str s
  | .expr e => OExpr.toVal sch e

def OrderBy.toVal (sch : Schema) : Query.OrderBy → Val
  | .none => .none
  | .one a => OrderArg.toVal sch a
  | .many .list l => .list (l.map (OrderArg.toVal sch))
  | .many .tuple l => .tuple (l.map (OrderArg.toVal sch))

def DbOrder.toVal (sch : Schema) : Query.DbOrder → Val
  | .none => .none
  | .one e => OExpr.toVal sch e
  | .many l => .list (l.map (OExpr.toVal sch))

/-! ### filter clauses -/

def operandV (sch : Schema) : Query.Operand → Val
  | .col c => fieldV (colName sch c)
  | .lit v => .int v
  | .othG => .obj "SQLObjectField" [("fieldName", .str ['g']), ("table", .str sch.othTable)]

def cmpName : Query.CmpOp → Str
  | .eq => ['='] | .ne => ['<', '>'] | .lt => ['<'] | .le => ['<', '='] | .gt => ['>'] | .ge => ['>', '=']

def condOpText : Query.CondOp → Str
  | .is => ['I', 'S'] | .eq => ['='] | .ne => ['<', '>']

/-- the database name of a column reference -/
def dbNameOf (sch : Schema) : ColRef → Str
  | .id => idName
  | .col i => match sch.cols[i]? with
    | some c => c.dbName
    | none => []

def litV : Query.Val → Val
  | none => .none
  | some v => .int v

/-- `'%s %s %s' % (dbName, 'IS' / '=', sqlrepr(value))` for one condition -/
def condText (sr : Val → Str) (sch : Schema) (c : Query.Cond) : Str :=
  dbNameOf sch c.col ++ [' '] ++ condOpText c.op ++ [' '] ++ sr (litV c.lit)

def joinS (sep : Str) : List Str → Str
  | [] => []
  | [a] => a
  | a :: b :: l => a ++ sep ++ joinS sep (b :: l)

/-- the text of the keyword clause -/
def condsText (sr : Val → Str) (sch : Schema) (cs : List Query.Cond) : Str :=
  joinS [' ', 'A', 'N', 'D', ' '] (cs.map (condText sr sch))

def clauseV (sr : Val → Str) (sch : Schema) : Query.Expr → Val
  | .tt => .glob "SQLTrueClause"
  | .cmp op a b => sqlOpV (cmpName op) (operandV sch a) (operandV sch b)
  | .isNull a => sqlOpV ['I', 'S'] (operandV sch a) .none
  | .notNull a => sqlOpV ['I', 'S', ' ', 'N', 'O', 'T'] (operandV sch a) .none
  | .and a b => sqlOpV ['A', 'N', 'D'] (clauseV sr sch a) (clauseV sr sch b)
  | .or a b => sqlOpV ['O', 'R'] (clauseV sr sch a) (clauseV sr sch b)
  | .not a => .obj "SQLPrefix" [("prefix", .str ['N', 'O', 'T']), ("expr", clauseV sr sch a)]
  | .kw conds => constV (.str (['('] ++ condsText sr sch conds ++ [')']))   -- `__init__` groups a text clause

/-! ### the class and its `sqlmeta` -/

def colV (c : Query.ColSpec) : Val :=
  .obj "SOCol" [("name", .str c.name), ("dbName", .str c.dbName), ("foreignName", optStr c.foreignName),
    ("from_python", .none)]

def sqlmetaV (sch : Schema) : Val :=
  .obj "sqlmeta" [("columns", .dict (sch.cols.map fun c => (c.name, colV c))), ("columnList", .list (sch.cols.map colV)),
    ("defaultOrder", OrderBy.toVal sch sch.defaultOrder), ("table", .str sch.table), ("idName", .str idName)]

def clsV : Val := .glob "T"
def qV : Val := .obj "SQLObjectTable" []

/-- the opaque parts of the library and of the database -/
structure Params where
  /-- the class's connection -/
  conn : Val
  /-- `tablesUsedSet(clause, dbName)`: the stored state of the set object it returns -/
  tablesUsed : Val → Val → List (String × Val)
  setAdd : Val → Val → List (String × Val)
  listOf : Val → List Val
  repr : Val → Str
  /-- `sqlrepr(v, db)` / `conn.sqlrepr(v)` of a value that is not a `DESC` -/
  sqlrepr : Val → Str
  fmt : Val → Option Str

def isSqlExprCls (c : String) : Bool :=
  c = "DESC" || c = "SQLConstant" || c = "SQLOp" || c = "SQLPrefix" || c = "SQLObjectField"

/-- `isinstance(v, SQLExpression)` -/
def isSqlV : Val → Bool
  | .obj k _ => isSqlExprCls k
  | .glob n => n == "SQLTrueClause"
  | _ => false

/-- the class tag of an object -/
def hasCls (k : String) : Val → Bool
  | .obj c _ => c == k
  | _ => false

@[simp] theorem isSqlV_obj (k : String) (fs : List (String × Val)) : isSqlV (.obj k fs) = isSqlExprCls k := rfl
@[simp] theorem isSqlV_glob (n : String) : isSqlV (.glob n) = (n == "SQLTrueClause") := rfl
@[simp] theorem isSqlV_str (s : Str) : isSqlV (.str s) = false := rfl
@[simp] theorem isSqlV_none : isSqlV .none = false := rfl
@[simp] theorem isSqlV_int (s : Int) : isSqlV (.int s) = false := rfl
@[simp] theorem hasCls_obj (k c : String) (fs : List (String × Val)) : hasCls k (.obj c fs) = (c == k) := rfl
@[simp] theorem hasCls_str (k : String) (s : Str) : hasCls k (.str s) = false := rfl
@[simp] theorem hasCls_none (k : String) : hasCls k .none = false := rfl
@[simp] theorem hasCls_int (k : String) (s : Int) : hasCls k (.int s) = false := rfl
@[simp] theorem hasCls_glob (k : String) (s : String) : hasCls k (.glob s) = false := rfl

def qIsA (v : Val) (c : String) : Bool :=
  if c = "string_type" then isStrV v
  else if c = "SQLExpression" then isSqlV v
  else if c = "DESC" then hasCls "DESC" v
  else if c = "SQLObject" then hasCls "SQLObject" v
  else false

def qGetAttr (sch : Schema) (P : Params) (v : Val) (a : String) : R Val :=
  match v with
  | .glob n =>
    if n = "T" then
      if a = "sqlmeta" then .ok (sqlmetaV sch)
      else if a = "q" then .ok qV
      else if a = "_connection" then .ok P.conn
      else .exc .attributeError
    else .exc .attributeError
  | .obj c _ =>
    if c = "SQLObjectTable" then (if a = "id" then .ok (fieldV idName) else .exc .attributeError)
    else .exc .attributeError
  | _ => .exc .attributeError

def qGetAttrDyn (v : Val) (n : Str) : R Val :=
  match v with
  | .obj c _ => if c = "SQLObjectTable" then .ok (fieldV n) else .exc .attributeError
  | _ => .exc .attributeError

/-- module-level callables: the three constructors, `tablesUsedSet`, `list` of a set, `repr`; `AND` / `OR` / `sqlrepr`
    / `_str_or_sqlrepr` / `Select` are the parameter `fnRec` (the translated functions, at the level of the chain) -/
def qFn (P : Params) (fnRec : String → List Val → List (Str × Val) → R Val) (f : String) (args : List Val)
    (kw : List (Str × Val)) : R Val :=
  if f = "DESC" then
    match args, kw with
    | [v], [] => .ok (descV v)
    | _, _ => .stuck
  else if f = "SQLConstant" then
    match args, kw with
    | [v], [] => .ok (constV v)
    | _, _ => .stuck
  else if f = "SQLOp" then
    match args, kw with
    | [.str op, a, b], [] => .ok (sqlOpV op a b)
    | _, _ => .stuck
  else if f = "tablesUsedSet" then
    match args, kw with
    | [c, d], [] => .ok (.obj "set" (P.tablesUsed c d))
    | _, _ => .stuck
  else if f = "list" then
    match args, kw with
    | [s], [] => .ok (.list (P.listOf s))
    | _, _ => .stuck
  else if f = "repr" then
    match args, kw with
    | [v], [] => .ok (.str (P.repr v))
    | _, _ => .stuck
  else fnRec f args kw

def qMutate (P : Params) (v : Val) (m : String) (args : List Val) : R Val :=
  if m = "add" then
    match args with
    | [x] => .ok (.obj "set" (P.setAdd v x))
    | _ => .stuck
  else .stuck

/-- the interface -/
@[reducible] def qIface (sch : Schema) (P : Params) (fnRec : String → List Val → List (Str × Val) → R Val)
    (cm : Val → String → List Val → List (Str × Val) → R Val) (cv : Val → List Val → R Val) : Iface :=
  { fn := qFn P fnRec, getAttr := qGetAttr sch P, getAttrDyn := qGetAttrDyn, callMethod := cm, callVal := cv,
    isA := qIsA, mutate := qMutate P, fmt := P.fmt }

/-! ### `SelectResults` objects -/

/-- a `SelectResults` object -/
def srObj (sc clause ops ct tables : Val) : Val :=
  .obj "SelectResults" [("sourceClass", sc), ("clause", clause), ("ops", ops), ("clauseTables", ct), ("tables", tables)]

def truthyOpt (d : List (Str × Val)) (k : Str) : Bool := truthy ((aget k d).getD .none)

def kOrderBy : Str := ['o', 'r', 'd', 'e', 'r', 'B', 'y']
def kDbOrderBy : Str := ['d', 'b', 'O', 'r', 'd', 'e', 'r', 'B', 'y']
def kReversed : Str := ['r', 'e', 'v', 'e', 'r', 's', 'e', 'd']
def kDistinct : Str := ['d', 'i', 's', 't', 'i', 'n', 'c', 't']
def kConnection : Str := ['c', 'o', 'n', 'n', 'e', 'c', 't', 'i', 'o', 'n']
def kLimit : Str := ['l', 'i', 'm', 'i', 't']
def kStart : Str := ['s', 't', 'a', 'r', 't']
def kEnd : Str := ['e', 'n', 'd']

/-- the `ops` dict `d` of a `SelectResults` with clause value `cv` represents the hand model's `Sel` -/
structure Rep (sr : Val → Str) (sch : Schema) (cv : Val) (d : List (Str × Val)) (s : Query.Sel) : Prop where
  clause : cv = clauseV sr sch s.clause
  order : aget kDbOrderBy d = some (DbOrder.toVal sch s.order)
  reversed : truthyOpt d kReversed = s.reversed
  distinct : truthyOpt d kDistinct = s.distinct

/-! ### running the translated functions -/

/-- `SelectResults._mungeOrderBy(self, orderBy)` -/
def mungeX (I : Iface) (self a : Val) : Out := run I PyQ.Extracted.mungeOrderBy [self, a]

/-- `SelectResults._getConnection(self)` -/
def getConnectionX (I : Iface) (self : Val) : Out := run I PyQ.Extracted.srGetConnection [self]

/-- `SelectResults.__init__(self, sourceClass, clause, clauseTables, **ops)` on a fresh object: outcome and the object -/
def initX (I : Iface) (sc clause ct : Val) (ops : List (Str × Val)) : Out × Option Val :=
  runSelf I PyQ.Extracted.srInit [.obj "SelectResults" [], sc, clause, ct, .dict ops]

def cloneX (I : Iface) (self : Val) (newOps : List (Str × Val)) : Out := run I PyQ.Extracted.srClone [self, .dict newOps]
def orderByX (I : Iface) (self o : Val) : Out := run I PyQ.Extracted.srOrderBy [self, o]
def reversedX (I : Iface) (self : Val) : Out := run I PyQ.Extracted.srReversed [self]
def distinctX (I : Iface) (self : Val) : Out := run I PyQ.Extracted.srDistinct [self]
def newClauseX (I : Iface) (self c : Val) : Out := run I PyQ.Extracted.srNewClause [self, c]
def filterX (I : Iface) (self c : Val) : Out := run I PyQ.Extracted.srFilter [self, c]
def accumulateX (I : Iface) (self : Val) (exprs : List Val) : Out := run I PyQ.Extracted.srAccumulate [self, .tuple exprs]
def countX (I : Iface) (self : Val) : Out := run I PyQ.Extracted.srCount [self]
def accumulateManyX (I : Iface) (self : Val) (attrs : List Val) : Out :=
  run I PyQ.Extracted.srAccumulateMany [self, .tuple attrs]
def accumulateOneX (I : Iface) (self f a : Val) : Out := run I PyQ.Extracted.srAccumulateOne [self, f, a]
def sumX (I : Iface) (self a : Val) : Out := run I PyQ.Extracted.srSum [self, a]
def minX (I : Iface) (self a : Val) : Out := run I PyQ.Extracted.srMin [self, a]
def maxX (I : Iface) (self a : Val) : Out := run I PyQ.Extracted.srMax [self, a]
def avgX (I : Iface) (self a : Val) : Out := run I PyQ.Extracted.srAvg [self, a]
def getOneX (I : Iface) (self dflt : Val) : Out := run I PyQ.Extracted.srGetOne [self, dflt]
def iterX (I : Iface) (self : Val) : Out := run I PyQ.Extracted.srIter [self]
def lazyIterX (I : Iface) (self : Val) : Out := run I PyQ.Extracted.srLazyIter [self]
def queryForSelectX (I : Iface) (self : Val) : Out := run I PyQ.Extracted.srQueryForSelect [self]

/-- `AND(*ops)` / `OR(*ops)` -/
def andX (I : Iface) (ops : List Val) : Out := run I PyQ.Extracted.andFn [.tuple ops]
def orX (I : Iface) (ops : List Val) : Out := run I PyQ.Extracted.orFn [.tuple ops]

/-- `DESC.__sqlrepr__(self, db)`, `_str_or_sqlrepr(expr, db)`, the ORDER BY statement of `Select.__sqlrepr__` -/
def descSqlreprX (I : Iface) (self db : Val) : Out := run I PyQ.Extracted.descSqlrepr [self, db]
def strOrSqlreprX (I : Iface) (e db : Val) : Out := run I PyQ.Extracted.strOrSqlrepr [e, db]
def orderByReprX (I : Iface) (self db : Val) (select : Str) : Out :=
  run I PyQ.Extracted.selOrderByRepr [self, db, .str select]

/-- `Select.__init__` with all sixteen parameters given -/
def selInitX (I : Iface) (ps : List Val) : Out × Option Val := runSelf I PyQ.Extracted.selInit (.obj "Select" [] :: ps)
def selCloneX (I : Iface) (self : Val) (newOps : List (Str × Val)) : Out := run I PyQ.Extracted.selClone [self, .dict newOps]
def selNewItemsX (I : Iface) (self items : Val) : Out := run I PyQ.Extracted.selNewItems [self, items]
def selUnlimitedX (I : Iface) (self : Val) : Out := run I PyQ.Extracted.selUnlimited [self]
def selOrderByX (I : Iface) (self o : Val) : Out := run I PyQ.Extracted.selOrderBy [self, o]

def accumulateSelectX (I : Iface) (conn select : Val) (exprs : List Val) : Out :=
  run I PyQ.Extracted.accumulateSelect [conn, select, .tuple exprs]
def columnClauseX (I : Iface) (conn cls : Val) (kw : List (Str × Val)) : Out :=
  run I PyQ.Extracted.columnClause [conn, cls, .dict kw]
def selectOneAltX (I : Iface) (conn so cols cond : Val) : Out := run I PyQ.Extracted.selectOneAlt [conn, so, cols, cond]
def iterNextX (I : Iface) (self : Val) : Out := run I PyQ.Extracted.iterNext [self]
def selectByX (I : Iface) (cls connection : Val) (kw : List (Str × Val)) : Out :=
  run I PyQ.Extracted.selectBy [cls, connection, .dict kw]
def fetchAlternateIDX (I : Iface) (cls name dbName value connection idxName : Val) : Out :=
  run I PyQ.Extracted.fetchAlternateID [cls, name, dbName, value, connection, idxName]
def indexGetX (I : Iface) (self : Val) (args : List Val) (kw : List (Str × Val)) : Out :=
  run I PyQ.Extracted.indexGet [self, .tuple args, .dict kw]

end SqlObjVerif.QueryX
