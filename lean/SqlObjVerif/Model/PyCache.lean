/-!
# PyCache — a deep embedding of the Python fragment `sqlobject/cache.py:CacheFactory` is written in

`vlib/extractors/pycache.py` TRANSLATES the body of every `CacheFactory` method from /repo's AST into
a `Block` of this language on every run (`Extracted/PyCache.lean`); this file is the fixed
vocabulary and its reference semantics (total functions, no fuel: every loop of the fragment
iterates over a list that is computed when the loop is entered — `for x in <list local>`,
`for i in range(a, b, c)`, `for k, v in self.<dict>.items()`, `for v in self.<dict>.values()` —
and the translator refuses a loop whose body writes the dict it iterates; a method may call another
method of `self`, whose meaning is a parameter of the interpreter, so there is no recursion).

What a state is
* `Self`: the attributes `CacheFactory.__init__` creates.  A Python dict is an association list in
  insertion order with pairwise distinct keys (`dget/dset/ddel/dhasKey` are `d[k]`, `d[k] = v`,
  `del d[k]`, `k in d` on that representation).  Keys are ids (`Val.key`, opaque hashables), the
  values of `cache` are object handles, the values of `expiredCache` are weak references to object
  handles; storing anything else in them is outside the fragment (`stuck`).
* the heap, as far as the code can observe it: `dead h` (the object was collected: calling a weak
  reference to it gives `None`), `rel h` (a PARAMETER: the object dies the moment the strong cache
  drops its reference — CPython reference counting of an object nothing else refers to) and
  `falsy h` (a PARAMETER: `bool(obj)` is `False`, e.g. a row class defining `__len__`).
* locals: numbered in order of first binding, parameters first (so renaming a local does not change
  the translation); list-valued locals (`keys`, `all`) live in their own numbered space.
Integers of the fragment are naturals (cache.py never subtracts and has no negative literal).
-/
namespace SqlObjVerif.PyCache

abbrev Dict := List (Nat × Nat)

def dget (k : Nat) : Dict → Option Nat
  | [] => none
  | e :: l => if e.1 = k then some e.2 else dget k l

def dhasKey (k : Nat) (l : Dict) : Bool := l.any (fun e => decide (e.1 = k))

def ddel (k : Nat) (l : Dict) : Dict := l.filter (fun e => decide (e.1 ≠ k))

def dset (k v : Nat) (l : Dict) : Dict :=
  if dhasKey k l then l.map (fun e => if e.1 = k then (k, v) else e) else l ++ [(k, v)]

inductive Val where
  | none
  | int (n : Nat)
  | bool (b : Bool)
  /-- an id: an opaque hashable -/
  | key (k : Nat)
  /-- (a strong reference to) the object with handle `h` -/
  | obj (h : Nat)
  /-- a `weakref.ref` to the object with handle `h` -/
  | wref (h : Nat)
deriving Repr, DecidableEq

def Val.isNone : Val → Bool
  | .none => true
  | _ => false

inductive Exc where
  | keyError | valueError | zeroDivisionError | indexError | runtimeError
deriving Repr, DecidableEq

inductive IntAttr where
  | cullCount | cullOffset | cullFrequency | cullFraction
deriving Repr, DecidableEq

inductive DictAttr where
  | cache | expiredCache
deriving Repr, DecidableEq

structure Self where
  cache : Dict
  expiredCache : Dict
  cullCount : Nat
  cullOffset : Nat
  cullFrequency : Nat
  cullFraction : Nat
  doCache : Bool
  /-- `self.lock` is held -/
  lock : Bool
deriving Repr

/-- everything a method can observe or change, apart from its locals -/
structure World where
  self : Self
  dead : Nat → Bool
  rel : Nat → Bool
  falsy : Nat → Bool

structure St where
  w : World
  vars : List (Option Val)
  lists : List (List Val)

/-- expressions (pure: none of them changes the state) -/
inductive Expr where
  | var (x : Nat)
  | none
  | int (n : Nat)
  | attr (a : IntAttr)                   -- `self.cullCount` …
  | add (a b : Expr)
  | mod (a b : Expr)
  | dictIdx (d : DictAttr) (k : Expr)    -- `self.d[k]`
  | dictGet (d : DictAttr) (k : Expr)    -- `self.d.get(k)`
  | callRef (e : Expr)                   -- `e()` of a weak reference
  | mkRef (e : Expr)                     -- `ref(e)`
  | listLen (l : Nat)                    -- `len(l)`
  | listIdx (l : Nat) (i : Expr)         -- `l[i]`
deriving Repr, DecidableEq

inductive Cmp where
  | lt | le | gt | ge
deriving Repr, DecidableEq

inductive Cond where
  | truthy (e : Expr)
  | doCache                              -- `self.doCache`
  | cmp (op : Cmp) (a b : Expr)
  | isNone (e : Expr)
  | isNotNone (e : Expr)
  | inDict (k : Expr) (d : DictAttr)     -- `k in self.d`
  | not (c : Cond)
  | and (c d : Cond)
  | or (c d : Cond)
deriving Repr, DecidableEq

mutual
inductive Stmt where
  | assign (x : Nat) (e : Expr)
  | setAttr (a : IntAttr) (e : Expr)               -- `self.a = e`
  | dictSet (d : DictAttr) (k v : Expr)            -- `self.d[k] = v`
  | dictDel (d : DictAttr) (k : Expr)              -- `del self.d[k]`
  | dictPop (d : DictAttr) (k : Expr)              -- `self.d.pop(k, None)` (result unused)
  | dictClear (d : DictAttr)                       -- `self.d.clear()`
  | dictNew (d : DictAttr)                         -- `self.d = {}`
  | listKeys (l : Nat) (d : DictAttr)              -- `l = list(self.d.keys())`
  | listValues (l : Nat) (d : DictAttr)            -- `l = list(self.d.values())`
  | listEmpty (l : Nat)                            -- `l = []`
  | listAppend (l : Nat) (e : Expr)                -- `l.append(e)`
  | acquire                                        -- `self.lock.acquire()`
  | release                                        -- `self.lock.release()`
  | callSelf (m : String)                          -- `self.m()` (result unused)
  | ite (c : Cond) (t e : Block)
  | forList (x : Nat) (l : Nat) (body : Block)     -- `for x in l:`
  | forRange (x : Nat) (a b c : Expr) (body : Block)
  | forItems (k v : Nat) (d : DictAttr) (body : Block)   -- `for k, v in self.d.items():`
  | forValues (v : Nat) (d : DictAttr) (body : Block)    -- `for v in self.d.values():`
  | tryKey (body handler orelse : Block)           -- `try: … except KeyError: … else: …`
  | tryFinally (body fin : Block)
  | ret (e : Expr)
  | retNone                                        -- `return`
  | retList (l : Nat)                              -- `return l`
  | pass
inductive Block where
  | nil
  | cons (s : Stmt) (rest : Block)
end

/-- result of evaluating an expression / a condition -/
inductive R (α : Type) where
  | ok (a : α)
  | exc (e : Exc)
  /-- outside the fragment: TypeError, UnboundLocalError, AttributeError, … -/
  | stuck

def Self.getInt (s : Self) : IntAttr → Nat
  | .cullCount => s.cullCount
  | .cullOffset => s.cullOffset
  | .cullFrequency => s.cullFrequency
  | .cullFraction => s.cullFraction

def Self.setInt (s : Self) : IntAttr → Nat → Self
  | .cullCount, n => { s with cullCount := n }
  | .cullOffset, n => { s with cullOffset := n }
  | .cullFrequency, n => { s with cullFrequency := n }
  | .cullFraction, n => { s with cullFraction := n }

/-- `self.cache` exists only when `doCache` (`__init__`); reading it otherwise is an AttributeError -/
def Self.getDict (s : Self) : DictAttr → Option Dict
  | .cache => if s.doCache then some s.cache else Option.none
  | .expiredCache => some s.expiredCache

def Self.setDict (s : Self) : DictAttr → Dict → Self
  | .cache, d => { s with cache := d }
  | .expiredCache, d => { s with expiredCache := d }

/-- the value stored under a handle of dict `d` -/
def wrap : DictAttr → Nat → Val
  | .cache, h => .obj h
  | .expiredCache, h => .wref h

/-- the handle a value may be stored as in dict `d` -/
def unwrap : DictAttr → Val → Option Nat
  | .cache, .obj h => some h
  | .expiredCache, .wref h => some h
  | _, _ => Option.none

def St.getVar (st : St) (x : Nat) : Option Val :=
  match st.vars[x]? with
  | some (some v) => some v
  | _ => Option.none

def St.setVar (st : St) (x : Nat) (v : Val) : St := { st with vars := st.vars.set x (some v) }

def St.getList (st : St) (l : Nat) : Option (List Val) := st.lists[l]?

def St.setList (st : St) (l : Nat) (vs : List Val) : St := { st with lists := st.lists.set l vs }

def Expr.eval (st : St) : Expr → R Val
  | .var x => match st.getVar x with
    | some v => .ok v
    | Option.none => .stuck
  | .none => .ok .none
  | .int n => .ok (.int n)
  | .attr a => .ok (.int (st.w.self.getInt a))
  | .add a b => match a.eval st, b.eval st with
    | .ok (.int x), .ok (.int y) => .ok (.int (x + y))
    | .exc e, _ => .exc e
    | .ok _, .exc e => .exc e
    | _, _ => .stuck
  | .mod a b => match a.eval st, b.eval st with
    | .ok (.int x), .ok (.int y) => if y = 0 then .exc .zeroDivisionError else .ok (.int (x % y))
    | .exc e, _ => .exc e
    | .ok _, .exc e => .exc e
    | _, _ => .stuck
  | .dictIdx d k => match k.eval st with
    | .ok (.key k) => match st.w.self.getDict d with
      | some l => match dget k l with
        | some h => .ok (wrap d h)
        | Option.none => .exc .keyError
      | Option.none => .stuck
    | .exc e => .exc e
    | _ => .stuck
  | .dictGet d k => match k.eval st with
    | .ok (.key k) => match st.w.self.getDict d with
      | some l => match dget k l with
        | some h => .ok (wrap d h)
        | Option.none => .ok .none
      | Option.none => .stuck
    | .exc e => .exc e
    | _ => .stuck
  | .callRef e => match e.eval st with
    | .ok (.wref h) => if st.w.dead h then .ok .none else .ok (.obj h)
    | .exc e => .exc e
    | _ => .stuck
  | .mkRef e => match e.eval st with
    | .ok (.obj h) => .ok (.wref h)
    | .exc e => .exc e
    | _ => .stuck
  | .listLen l => match st.getList l with
    | some vs => .ok (.int vs.length)
    | Option.none => .stuck
  | .listIdx l i => match st.getList l, i.eval st with
    | some vs, .ok (.int i) => match vs[i]? with
      | some v => .ok v
      | Option.none => .exc .indexError
    | some _, .exc e => .exc e
    | _, _ => .stuck

def Cmp.holds : Cmp → Nat → Nat → Bool
  | .lt, x, y => x < y
  | .le, x, y => x ≤ y
  | .gt, x, y => x > y
  | .ge, x, y => x ≥ y

/-- `bool(v)`; an id's truth value is never asked for by the fragment -/
def pyBool (w : World) : Val → Option Bool
  | .none => some false
  | .int n => some (n != 0)
  | .bool b => some b
  | .key _ => Option.none
  | .obj h => some (!w.falsy h)
  | .wref _ => some true

def Cond.eval (st : St) : Cond → R Bool
  | .truthy e => match e.eval st with
    | .ok v => match pyBool st.w v with
      | some b => .ok b
      | Option.none => .stuck
    | .exc e => .exc e
    | .stuck => .stuck
  | .doCache => .ok st.w.self.doCache
  | .cmp op a b => match a.eval st, b.eval st with
    | .ok (.int x), .ok (.int y) => .ok (op.holds x y)
    | .exc e, _ => .exc e
    | .ok _, .exc e => .exc e
    | _, _ => .stuck
  | .isNone e => match e.eval st with
    | .ok v => .ok v.isNone
    | .exc e => .exc e
    | .stuck => .stuck
  | .isNotNone e => match e.eval st with
    | .ok v => .ok (!v.isNone)
    | .exc e => .exc e
    | .stuck => .stuck
  | .inDict k d => match k.eval st with
    | .ok (.key k) => match st.w.self.getDict d with
      | some l => .ok (dhasKey k l)
      | Option.none => .stuck
    | .exc e => .exc e
    | _ => .stuck
  | .not c => match c.eval st with
    | .ok b => .ok (!b)
    | r => r
  | .and c d => match c.eval st with
    | .ok true => d.eval st
    | r => r
  | .or c d => match c.eval st with
    | .ok false => d.eval st
    | r => r

/-- how a method call ends -/
inductive Outcome where
  | ret (w : World) (v : Val)
  | retList (w : World) (l : List Val)
  | exc (w : World) (e : Exc)
  /-- `self.lock.acquire()` on a lock that is held: the (single) thread blocks for ever -/
  | deadlock (w : World)
  | stuck

/-- how a statement ends -/
inductive Res where
  | norm (st : St)
  | ret (st : St) (v : Val)
  | retList (st : St) (l : List Val)
  | exc (st : St) (e : Exc)
  | deadlock (st : St)
  | stuck

/-- the strong cache drops its references to the objects `hs`: those that nothing else refers to die -/
def World.release (w : World) (hs : List Nat) : World :=
  { w with dead := fun h => w.dead h || (w.rel h && hs.contains h) }

/-- the handles a dict of kind `d` keeps alive -/
def strongRefs : DictAttr → Dict → List Nat
  | .cache, l => l.map (·.2)
  | .expiredCache, _ => []

/-- `self.d = l'` where `l` was there before: the entries in `gone` lost their (strong) reference -/
def St.putDict (st : St) (d : DictAttr) (l' : Dict) (gone : Dict) : St :=
  { st with w := { st.w with self := st.w.self.setDict d l' }.release (strongRefs d gone) }

def forLoop {α : Type} (f : St → α → Res) : List α → St → Res
  | [], st => .norm st
  | v :: vs, st => match f st v with
    | .norm st' => forLoop f vs st'
    | r => r

/-- the values of `range(a, b, c)` for naturals and `c > 0`: `a, a + c, a + 2c, … < b` -/
def pyRange (a b c : Nat) : List Nat :=
  (List.range b).filter (fun i => decide (a ≤ i) && decide ((i - a) % c = 0))

/-- the caller's view of a finished `self.m()` -/
def afterCall (call : Outcome) (st : St) : Res :=
  match call with
    | .ret w _ => .norm { st with w := w }
    | .retList w _ => .norm { st with w := w }
    | .exc w e => .exc { st with w := w } e
    | .deadlock w => .deadlock { st with w := w }
    | .stuck => .stuck

mutual
/-- `call m w` = what `self.m()` does from world `w` -/
def Stmt.exec (call : String → World → Outcome) (st : St) : Stmt → Res
  | .assign x e => match e.eval st with
    | .ok v => .norm (st.setVar x v)
    | .exc e => .exc st e
    | .stuck => .stuck
  | .setAttr a e => match e.eval st with
    | .ok (.int n) => .norm { st with w := { st.w with self := st.w.self.setInt a n } }
    | .exc e => .exc st e
    | _ => .stuck
  | .dictSet d k v => match k.eval st with
    | .ok (.key k) => match v.eval st with
      | .ok v => match unwrap d v, st.w.self.getDict d with
        | some h, some l => .norm (st.putDict d (dset k h l) (l.filter (fun e => decide (e.1 = k) && decide (e.2 ≠ h))))
        | _, _ => .stuck
      | .exc e => .exc st e
      | .stuck => .stuck
    | .exc e => .exc st e
    | _ => .stuck
  | .dictDel d k => match k.eval st with
    | .ok (.key k) => match st.w.self.getDict d with
      | some l => if dhasKey k l then .norm (st.putDict d (ddel k l) (l.filter (fun e => decide (e.1 = k))))
                  else .exc st .keyError
      | Option.none => .stuck
    | .exc e => .exc st e
    | _ => .stuck
  | .dictPop d k => match k.eval st with
    | .ok (.key k) => match st.w.self.getDict d with
      | some l => .norm (st.putDict d (ddel k l) (l.filter (fun e => decide (e.1 = k))))
      | Option.none => .stuck
    | .exc e => .exc st e
    | _ => .stuck
  | .dictClear d => match st.w.self.getDict d with
    | some l => .norm (st.putDict d [] l)
    | Option.none => .stuck
  | .dictNew d => .norm (st.putDict d [] ((st.w.self.getDict d).getD []))
  | .listKeys l d => match st.w.self.getDict d with
    | some es => .norm (st.setList l (es.map (fun e => Val.key e.1)))
    | Option.none => .stuck
  | .listValues l d => match st.w.self.getDict d with
    | some es => .norm (st.setList l (es.map (fun e => wrap d e.2)))
    | Option.none => .stuck
  | .listEmpty l => .norm (st.setList l [])
  | .listAppend l e => match st.getList l, e.eval st with
    | some vs, .ok v => .norm (st.setList l (vs ++ [v]))
    | some _, .exc e => .exc st e
    | _, _ => .stuck
  | .acquire => if st.w.self.lock then .deadlock st
                else .norm { st with w := { st.w with self := { st.w.self with lock := true } } }
  | .release => if st.w.self.lock then .norm { st with w := { st.w with self := { st.w.self with lock := false } } }
                else .exc st .runtimeError
  | .callSelf m => afterCall (call m st.w) st
  | .ite c t e => match c.eval st with
    | .ok true => t.exec call st
    | .ok false => e.exec call st
    | .exc e => .exc st e
    | .stuck => .stuck
  | .forList x l body => match st.getList l with
    | some vs => forLoop (fun st v => body.exec call (st.setVar x v)) vs st
    | Option.none => .stuck
  | .forRange x a b c body => match a.eval st, b.eval st, c.eval st with
    | .ok (.int a), .ok (.int b), .ok (.int c) =>
      if c = 0 then .exc st .valueError
      else forLoop (fun st i => body.exec call (st.setVar x (.int i))) (pyRange a b c) st
    | _, _, _ => .stuck
  | .forItems k v d body => match st.w.self.getDict d with
    | some es => forLoop (fun st e => body.exec call ((st.setVar k (.key e.1)).setVar v (wrap d e.2))) es st
    | Option.none => .stuck
  | .forValues v d body => match st.w.self.getDict d with
    | some es => forLoop (fun st e => body.exec call (st.setVar v (wrap d e.2))) es st
    | Option.none => .stuck
  | .tryKey body handler orelse => match body.exec call st with
    | .norm st' => orelse.exec call st'
    | .exc st' .keyError => handler.exec call st'
    | r => r
  | .tryFinally body fin => match body.exec call st with
    | .norm st' => fin.exec call st'
    | .ret st' v => (match fin.exec call st' with
      | .norm st'' => .ret st'' v
      | r => r)
    | .retList st' l => (match fin.exec call st' with
      | .norm st'' => .retList st'' l
      | r => r)
    | .exc st' e => (match fin.exec call st' with
      | .norm st'' => .exc st'' e
      | r => r)
    | .deadlock st' => .deadlock st'
    | .stuck => .stuck
  | .ret e => match e.eval st with
    | .ok v => .ret st v
    | .exc e => .exc st e
    | .stuck => .stuck
  | .retNone => .ret st .none
  | .retList l => match st.getList l with
    | some vs => .retList st vs
    | Option.none => .stuck
  | .pass => .norm st
def Block.exec (call : String → World → Outcome) (st : St) : Block → Res
  | .nil => .norm st
  | .cons s rest => match s.exec call st with
    | .norm st' => rest.exec call st'
    | r => r
end

def Res.toOutcome : Res → Outcome
  | .norm st => .ret st.w .none          -- falling off the end returns None
  | .ret st v => .ret st.w v
  | .retList st l => .retList st.w l
  | .exc st e => .exc st.w e
  | .deadlock st => .deadlock st.w
  | .stuck => .stuck

/-- call a method: `args` are the parameters after `self`, `locals` the unbound locals -/
def run (call : String → World → Outcome) (prog : Block) (args : List Val) (nlocals nlists : Nat)
    (w : World) : Outcome :=
  (prog.exec call { w := w, vars := args.map some ++ List.replicate nlocals Option.none,
                    lists := List.replicate nlists [] }).toOutcome

/-- a method that calls nothing -/
def noCall : String → World → Outcome := fun _ _ => .stuck

end SqlObjVerif.PyCache
