/-
Model of the table-catalogue logic of schema creation in sqlobject.

Anchors (never edited):
  /repo/sqlobject/main.py  tableExists, dropTable, createTable, createJoinTables,
                           createIndexes, _getJoinsToCreate, dropJoinTables,
                           sqlmeta.addColumn / sqlmeta.delColumn (changeSchema=True)
  /repo/sqlobject/sqlite/sqliteconnection.py  addColumn, delColumn,
                           recreateTableWithoutColumn

Names / strings are lists of code points.  No imports.
-/

namespace SqlObjVerif.Ddl

abbrev Name := List Nat

/-! ### (1) Link-table ownership -/

/-- Python's `<` on `str`: lexicographic on code points, a proper prefix is smaller. -/
def pyLt : List Nat → List Nat → Bool
  | [], [] => false
  | [], _ :: _ => true
  | _ :: _, [] => false
  | a :: as, b :: bs =>
    if a < b then true else if b < a then false else pyLt as bs

/-- `_getJoinsToCreate`: `if join.soClass.__name__ > join.otherClass.__name__: continue`.
`self > other` is `other < self`. -/
def createsLink (self other : Name) : Bool := !(pyLt other self)

/-! ### (2) Catalogue -/

/-- The database catalogue: existing tables and `(table, index name)` pairs. -/
structure Cat where
  tables : List Name
  indexes : List (Name × Name)
deriving DecidableEq, Repr

/-- What one class asks for: its table, the intermediate tables it owns
(the result of `_getJoinsToCreate`, in order) and its index names. -/
structure Req where
  table : Name
  links : List Name
  idx : List Name
deriving DecidableEq, Repr

/-- `conn.tableExists`. -/
def tableExists (t : Name) (c : Cat) : Bool := decide (t ∈ c.tables)

/-- `CREATE TABLE t` on the catalogue (caller has checked that it is missing). -/
def addTbl (t : Name) (c : Cat) : Cat :=
  { c with tables := c.tables ++ [t] }

/-- `DROP TABLE t`: the table disappears and, as in SQLite, so do its indexes. -/
def dropTbl (t : Name) (c : Cat) : Cat :=
  { tables := c.tables.filter (· ≠ t)
    indexes := c.indexes.filter (fun p => p.1 ≠ t) }

/-- `createJoinTables(ifNotExists)`. -/
def createLinks (ifNotExists : Bool) : List Name → Cat → Except Unit Cat
  | [], c => .ok c
  | l :: ls, c =>
    if ifNotExists = true ∧ l ∈ c.tables then createLinks ifNotExists ls c   -- continue
    else if l ∈ c.tables then .error ()                                      -- CREATE TABLE fails
    else createLinks ifNotExists ls (addTbl l c)

/-- `createIndexes`: `ifNotExists` is accepted but ignored by the Python code. -/
def createIdx (t : Name) : List Name → Cat → Except Unit Cat
  | [], c => .ok c
  | i :: is, c =>
    if (t, i) ∈ c.indexes then .error ()
    else createIdx t is { c with indexes := c.indexes ++ [(t, i)] }

/-- `SQLObject.createTable(ifNotExists)` with the default
`createJoinTables=True, createIndexes=True`. -/
def createTable (ifNotExists : Bool) (r : Req) (c : Cat) : Except Unit Cat :=
  if ifNotExists = true ∧ r.table ∈ c.tables then .ok c        -- `return`: nothing else happens
  else if r.table ∈ c.tables then .error ()                    -- CREATE TABLE fails
  else
    match createLinks ifNotExists r.links (addTbl r.table c) with
    | .error e => .error e
    | .ok c2 => createIdx r.table r.idx c2

/-- `dropJoinTables(ifExists)`. -/
def dropLinks (ifExists : Bool) : List Name → Cat → Except Unit Cat
  | [], c => .ok c
  | l :: ls, c =>
    if ifExists = true ∧ l ∉ c.tables then dropLinks ifExists ls c           -- continue
    else if l ∉ c.tables then .error ()                                      -- DROP TABLE fails
    else dropLinks ifExists ls (dropTbl l c)

/-- `SQLObject.dropTable(ifExists)` with the default `dropJoinTables=True`. -/
def dropTable (ifExists : Bool) (r : Req) (c : Cat) : Except Unit Cat :=
  if ifExists = true ∧ r.table ∉ c.tables then .ok c           -- `return`
  else if r.table ∉ c.tables then .error ()                    -- DROP TABLE fails
  else dropLinks ifExists r.links (dropTbl r.table c)

/-! ### (3) addColumn / delColumn with `changeSchema=True` on SQLite -/

/-- A row: association list column ↦ value, `none` = NULL. -/
abbrev Row := List (Name × Option Int)

/-- A stored table: db column names in order (id column first) and its rows. -/
structure Tbl where
  cols : List Name
  rows : List Row
deriving DecidableEq, Repr

/-- Value stored in a row under a column (`none`: the row has no such column). -/
def get (row : Row) (c : Name) : Option (Option Int) := List.lookup c row

/-- `ALTER TABLE t ADD COLUMN c`: the new column is last, every row gets NULL. -/
def addColumn (t : Tbl) (c : Name) : Tbl :=
  { cols := t.cols ++ [c]
    rows := t.rows.map (fun row => row ++ [(c, none)]) }

/-- `INSERT INTO new (keep) SELECT keep FROM old` for one row. -/
def rebuildRow (keep : List Name) (row : Row) : Row :=
  keep.filterMap (fun k => (get row k).map (fun v => (k, v)))

/-- `recreateTableWithoutColumn`: new columns are the old ones without `c`,
every row is copied column by column. -/
def delColumn (t : Tbl) (c : Name) : Tbl :=
  { cols := t.cols.filter (· ≠ c)
    rows := t.rows.map (rebuildRow (t.cols.filter (· ≠ c))) }

/-- A row is well formed for a column list: its keys are exactly the columns, in order. -/
def RowOK (cols : List Name) (row : Row) : Prop := row.map Prod.fst = cols

/-- A table is well formed: distinct column names, every row well formed. -/
def TblOK (t : Tbl) : Prop := t.cols.Nodup ∧ ∀ row ∈ t.rows, RowOK t.cols row

/-- A catalogue is well formed: every index belongs to an existing table. -/
def CatOK (c : Cat) : Prop := ∀ p ∈ c.indexes, p.1 ∈ c.tables

end SqlObjVerif.Ddl
