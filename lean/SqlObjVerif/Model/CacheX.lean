import SqlObjVerif.Model.Cache
import SqlObjVerif.Model.PyCache
import SqlObjVerif.Extracted.PyCache
/-!
# C04 — the `CacheFactory` methods as TRANSLATED from the source

`absW` maps class `c`'s factory in a state of the hand-written model (`Model/Cache.lean`) to the
world a `CacheFactory` method runs in (`Model/PyCache.lean`); the `…X` functions RUN the PyCache
programs that `vlib/extractors/pycache.py` translated from /repo's `cache.py` on this very run.
`Lemmas/CacheX.lean` (loop-free methods, `expireAll`), `Lemmas/CacheXCull.lean` (`cull`, `get`,
`created`) and `Lemmas/CacheXList.lean` (`clear`, `allIDs`, `getAll`) prove that each of them ends in
the image of what the hand model's function for that method yields, for all states (under the
representation invariant `Rep` where the method iterates over a dict); `Lemmas/CacheXRep.lean` proves
that `Rep` holds in every state the model reaches.

The association lists of the model ARE the dicts of the embedding (`strong` = `self.cache`:
id ↦ object handle, `weak` = `self.expiredCache`: id ↦ handle the weak reference points to).
`rel` (which objects die the moment the strong cache drops them) and `falsy` (which objects are
falsy) are parameters; `relOf s` is the hand model's choice of `rel`: reference counting is on
and the application does not hold the object.
-/
namespace SqlObjVerif.Cache
open SqlObjVerif.PyCache (World Self Outcome Val noCall)
open SqlObjVerif.PyCache.Extracted

def absSelf (s : State) (c : Cls) (lock : Bool) : Self :=
  { cache := (s.fac c).strong, expiredCache := (s.fac c).weak,
    cullCount := (s.fac c).cullCount, cullOffset := (s.fac c).cullOffset,
    cullFrequency := s.cfg.cullFrequency, cullFraction := s.cfg.cullFraction,
    doCache := s.cfg.doCache, lock := lock }

def absW (s : State) (c : Cls) (rel falsy : Handle → Bool) (lock : Bool) : World :=
  { self := absSelf s c lock, dead := fun h => (s.obj h).dead, rel := rel, falsy := falsy }

/-- the hand model's reading of "dies when the strong cache lets go of it" -/
def relOf (s : State) : Handle → Bool := fun h => s.cfg.refcount && !(s.obj h).held

/-- a Python dict: pairwise distinct keys -/
def DictRep (l : AList) : Prop := (l.map (·.1)).Nodup

/-- the representation invariant of class `c`'s factory: both maps are dicts, and what the strong
    map refers to is alive -/
structure Rep (s : State) (c : Cls) : Prop where
  strong : DictRep (s.fac c).strong
  weak : DictRep (s.fac c).weak
  alive : ∀ e ∈ (s.fac c).strong, (s.obj e.2).dead = false

def optObj : Option Handle → Val
  | none => .none
  | some h => .obj h

/-- `self.cull()` as seen by `get` and `created` -/
def callTable : String → World → Outcome := fun m w =>
  if m = "cull" then PyCache.run noCall cullProg [] cull_nlocals cull_nlists w else .stuck

def tryGetX (w : World) (k : Id) : Outcome := PyCache.run noCall tryGetProg [.key k] tryGet_nlocals tryGet_nlists w
def getX (w : World) (k : Id) : Outcome := PyCache.run callTable getProg [.key k] get_nlocals get_nlists w
def putX (w : World) (k : Id) (h : Handle) : Outcome := PyCache.run noCall putProg [.key k, .obj h] put_nlocals put_nlists w
def finishPutX (w : World) : Outcome := PyCache.run noCall finishPutProg [] finishPut_nlocals finishPut_nlists w
def createdX (w : World) (k : Id) (h : Handle) : Outcome :=
  PyCache.run callTable createdProg [.key k, .obj h] created_nlocals created_nlists w
def cullX (w : World) : Outcome := PyCache.run noCall cullProg [] cull_nlocals cull_nlists w
def clearX (w : World) : Outcome := PyCache.run noCall clearProg [] clear_nlocals clear_nlists w
def expireX (w : World) (k : Id) : Outcome := PyCache.run noCall expireProg [.key k] expire_nlocals expire_nlists w
def expireAllX (w : World) : Outcome := PyCache.run noCall expireAllProg [] expireAll_nlocals expireAll_nlists w
def allIDsX (w : World) : Outcome := PyCache.run noCall allIDsProg [] allIDs_nlocals allIDs_nlists w
def getAllX (w : World) : Outcome := PyCache.run noCall getAllProg [] getAll_nlocals getAll_nlists w

end SqlObjVerif.Cache
