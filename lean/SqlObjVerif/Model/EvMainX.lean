import SqlObjVerif.Model.EventsX
import SqlObjVerif.Model.PyEv
import SqlObjVerif.Extracted.PyEvMain
/-!
# C19 — the row-signal paths of `SQLObject` as TRANSLATED from the source

The `…X` functions RUN the PyEv programs `vlib/extractors/pyevmain.py` translated from /repo's `main.py` on this very
run (`Extracted/PyEvMain.lean`: `__init__`, `_create`, `_SO_finishCreate` + its nested `_send_RowCreatedSignal`,
`_init`, `_SO_setValue`, `set`, `syncUpdate`, the signal frame of `destroySelf`) on the image `absW` of a state of
the hand model (`Model/Events.lean`); `absUnit` / `absNew` read the end of a run back as the model's
`(State, log, Out)`.  `Lemmas/EvMainX*.lean` prove `absUnit … (<method>X …) = some (op<Method> …)` for ALL states,
listener lists and inputs: `setX_eq` (`opSet`), `setValueX_eq` (`opAssign`), `syncUpdateX_eq`, `destroySelfX_eq`, and
`initX_eq` (`absNew … (initX (f+2) (createX (f+2)) …) = some (opCreate …)`: the whole constructor path; it needs a class
with at least one column — `_init` reads the row back and treats an empty result as missing — and a next id that is not
in the table).

## The assumed interface (everything the translated code calls in OTHER objects is a parameter: `evOps`, `…Calls`)
* `self.sqlmeta.send(sig, self, kwargs, post_funcs)` IS the translated `sqlmeta.send` of `Model/EventsX.lean`
  (`xsend` runs `sendX`; proved `= deliver`), i.e. pydispatch calls every listener connected for the signal once, in
  connection order; listeners are data (`Events.Listener`: observe / `kwargs[k] = v` / `kwargs.pop(k)` /
  `post_funcs.append(cb)`; a listener that creates a row of another class leaves the class's own log as `observe` does —
  `C19_spawning_listeners_leave_events_intact`); only `RowCreateSignal` / `RowUpdateSignal` listeners edit the kwargs;
  a collected callback `cb p` called with `self` is the log entry `post p id`;
* keyword names are numbered: name `k < ncols` is column `k` (creation order `k`, a plain setter, an `IntCol` whose
  `from_python` raises `Invalid` on the value `bad` and keeps everything else, `to_python` keeps everything; every
  column has a `default`, none a `defaultSQL` / `foreignName`); any other number is a keyword the class has no
  attribute for; the special names `'connection'`, `'id'`, `'_SO_fetch_no_create'` are not among the kwargs;
* `_SO_update(self, values)` writes `values` (read per column) into the row of `self.id` and logs `upd`;
  `queryInsertID(self, None, names, values)` appends the row (per column: the value given, else NULL) under the next
  AUTOINCREMENT id, logs `ins` and returns the id (with an explicit id — inheritance children — under that id);
  `_SO_delete(self)` removes the row and logs `del`; `_SO_selectOne(self, <all dbNames>)` returns the stored row;
  `_SO_selectInit(row)` caches the row's values on the instance and does nothing else;
* the joins / dependents cascade of `destroySelf` (between its two signal blocks) does nothing: the class has no joins
  and no dependents (C12 models the cascade);
* `_SO_createValues` is a Python dict in insertion order: ANY `cv` with pairwise distinct column keys whose per-column
  reading is the model's `pending` (`Rep`); `**kw` dicts have pairwise distinct keys;
* a postponed thunk reads of the instance it closed over only its class and id (fixed once `_init` ran);
* `Ops.fuel` bounds the entries one flush of the postponed list may visit: the theorems hold for every `fuel` above the
  number of thunks present (1 for a plain class, the depth for an inheritance chain).
-/
namespace SqlObjVerif.Events
open SqlObjVerif.PyEv (World Obj Thunk Frame Ops Calls Outcome PV PDict kwPV ofVal toVal?)
open SqlObjVerif.PyEv.Extracted
open SqlObjVerif.PyMain (Exc)

/-- `self` as the first argument of a send: an instance with its id, or one that has none yet -/
def selfArg : Option Nat → PVal
  | some i => .inst 0 0 i
  | none => .cls 0

/-- `sqlmeta.send(sig, self, kwargs, post_funcs)` through the TRANSLATED `sqlmeta.send` -/
def xsend (sig : Sig) (id : Option Nat) (L : List Listener) (kw : Kw) (pf : List Nat) : Option (Kw × List Nat × List Entry) :=
  match sendX ⟨L, kw, pf, []⟩ (sigVal sig) (PyVer.Val.ofList [selfArg id, .ref 6 0, .ref 6 1]) (.dictv .nil) with
  | .ret w _ _ => some (w.kw, w.pf, w.log)
  | _ => none

/-- the values handed to `_SO_update` / `queryInsertID`, read per column -/
def vecOfPairs (n : Nat) (p : List (Nat × Val)) : List (Option Val) := (List.range n).map fun k => List.lookup k p

def evOps (fuel : Nat) : Ops where
  send := xsend
  selectOne := fun w cols => match w.o.id with
    | some i => if cols = List.range w.c.ncols then some (rowOf? w.rows i) else none
    | none => none
  update := fun w p => w.o.id.map fun i =>
    { w with rows := updRows w.rows i (vecOfPairs w.c.ncols p),
             log := w.log ++ [(w.lvl, Entry.upd i (vecOfPairs w.c.ncols p))] }
  insert := fun w idv cols xs =>
    let row := (vecOfPairs w.c.ncols (cols.zip xs)).map fun v => v.getD .null
    match idv with
    | .none => some ({ w with rows := w.rows ++ [(w.nextId, row)], nextId := w.nextId + 1,
                              log := w.log ++ [(w.lvl, Entry.ins w.nextId row)] }, w.nextId)
    | .nat i => some ({ w with rows := w.rows ++ [(i, row)], log := w.log ++ [(w.lvl, Entry.ins i row)] }, i)
    | _ => none
  delete := fun w => w.o.id.map fun i =>
    { w with rows := delRows w.rows i, log := w.log ++ [(w.lvl, Entry.del i)] }
  cascade := fun w => some w
  fuel := fuel

def noCalls : Calls := ⟨fun _ _ _ _ => .stuck, fun _ _ => .stuck⟩

/-- `args` completed with the defaults of the trailing parameters -/
def fillArgs (nargs : Nat) (defaults args : List PV) : List PV :=
  args ++ defaults.drop (args.length + defaults.length - nargs)

section
variable (fuel : Nat)

/-- `self.set(**kw)` / `self.set(_suppress_set_sig, **kw)` -/
def setX (w : World) (args : List PV) (kw : PDict) : Outcome :=
  PyEv.run (evOps fuel) noCalls setProg (fillArgs set_nargs set_defaults args) kw w

def syncUpdateX (w : World) : Outcome :=
  PyEv.run (evOps fuel) noCalls syncUpdateProg [] [] w

def setValueCalls : Calls :=
  ⟨fun m args kw w => if m = "set" then setX fuel w args kw else .stuck, fun _ _ => .stuck⟩

/-- `self._SO_setValue('<k>', value, from_python, to_python)` as the generated setter of column `k` calls it -/
def setValueX (w : World) (k : Nat) (v : Val) : Outcome :=
  PyEv.run (evOps fuel) (setValueCalls fuel) setValueProg [.name k, ofVal v, .fn .fromPy k, .fn .toPy k] [] w

def destroySelfX (w : World) : Outcome :=
  PyEv.run (evOps fuel) noCalls destroySelfProg [] [] w

/-- `_SO_selectInit(row)`: the row's values are cached on the instance -/
def selectInitCall (w : World) : List PV → Outcome
  | [.row r] => .ret { w with o := { w.o with vals := fun c => r[c]? } } .none
  | _ => .stuck

def initRowCalls : Calls :=
  ⟨fun m args _ w => if m = "_SO_selectInit" then selectInitCall w args else .stuck, fun _ _ => .stuck⟩

/-- `self._init(id)` -/
def initRowX (w : World) (args : List PV) : Outcome :=
  PyEv.run (evOps fuel) initRowCalls initRowProg (fillArgs initRow_nargs initRow_defaults args) [] w

def finishCalls : Calls :=
  ⟨fun m args _ w => if m = "_init" then initRowX fuel w args else .stuck, fun _ _ => .stuck⟩

/-- `self._SO_finishCreate(id)` -/
def finishCreateX (w : World) (args : List PV) : Outcome :=
  PyEv.run (evOps fuel) (finishCalls fuel) finishCreateProg (fillArgs finishCreate_nargs finishCreate_defaults args) [] w

def createCalls : Calls :=
  ⟨fun m args kw w =>
      if m = "set" then setX fuel w args kw
      else if m = "_SO_finishCreate" then finishCreateX fuel w args
      else .stuck,
   fun _ _ => .stuck⟩

/-- `SQLObject._create(self, id, **kw)` -/
def createX (w : World) (args : List PV) (kw : PDict) : Outcome :=
  PyEv.run (evOps fuel) (createCalls fuel) createProg args kw w

/-- the body of a postponed thunk (nested def `fid` of `_SO_finishCreate`) -/
def thunkProg : Nat → PyEv.Block
  | 0 => finishCreate_thunk0
  | _ => .cons (.opaque "no such nested def") .nil

/-- calling a postponed thunk: its body runs over the frame it closed over, `self` being the instance it closed over -/
def thunkCall (t : Thunk) (w : World) : Outcome :=
  match PyEv.runFrame (evOps fuel) noCalls (thunkProg t.fid) t.frame
      { w with c := t.cfg, lvl := t.lvl, o := { w.o with id := t.selfId } } with
  | .ret w' v => .ret { w' with c := w.c, lvl := w.lvl, o := w.o } v
  | .exc w' e => .exc { w' with c := w.c, lvl := w.lvl, o := w.o } e
  | .deadlock w' => .deadlock { w' with c := w.c, lvl := w.lvl, o := w.o }
  | .stuck => .stuck

/-- `__init__` sees `_create` (a PARAMETER: `SQLObject._create` for a plain class) and the thunks -/
def initCalls (create : World → List PV → PDict → Outcome) : Calls :=
  ⟨fun m args kw w => if m = "_create" then create w args kw else .stuck, thunkCall fuel⟩

/-- `Cls(**kw)`: `SQLObject.__init__` -/
def initX (create : World → List PV → PDict → Outcome) (w : World) (kw : PDict) : Outcome :=
  PyEv.run (evOps fuel) (initCalls fuel create) initProg [] kw w

end

/-! ### the image of a model state, and reading a run back -/

/-- the Python dict `cv` stands for the model's per-column `pending` -/
structure Rep (n : Nat) (cv : Kw) (p : List (Option Val)) : Prop where
  nodup : (cv.map (·.1)).Nodup
  cols : ∀ e ∈ cv, e.1 < n
  vec : colVec n cv = p

def pyObj (o : Events.Obj) (cv : Kw) : PyEv.Obj :=
  { id := some o.id, vals := fun _ => none, cv := some cv, creating := false, dirty := false, obsolete := false,
    sigSuppress := false, lock := false }

/-- a freshly allocated instance, before `__init__` ran -/
def newObj : PyEv.Obj :=
  { id := none, vals := fun _ => none, cv := none, creating := false, dirty := false, obsolete := false,
    sigSuppress := false, lock := false }

def absW (c : Cfg) (s : State) (po : PyEv.Obj) : World :=
  { c := c, lvl := 0, rows := s.rows, nextId := s.nextId, o := po, postponed := none, log := [] }

def objOf (n : Nat) (o : PyEv.Obj) : Option Events.Obj :=
  match o.id, o.cv with
  | some i, some cv => some ⟨i, colVec n cv⟩
  | _, _ => none

/-- the world is between two operations: no lock held, no flag left set, no thread-local list -/
def quiet (w : World) : Bool := !(w.o.lock || w.o.sigSuppress || w.o.creating || w.postponed.isSome)

def untag (l : List (Nat × Entry)) : List Entry := l.map (·.2)

def excOut : Exc → Option Out
  | .invalid => some .invalid
  | .typeError => some .typeError
  | .notFound => some .notFound
  | _ => none

def outOf : Outcome → Option (World × Out)
  | .ret w .none => some (w, .ok)
  | .exc w e => (excOut e).map fun out => (w, out)
  | _ => none

/-- the end of an operation on the instance held under handle `h` -/
def absUnit (s : State) (h : Nat) (r : Outcome) : Option (State × List Entry × Out) :=
  (outOf r).bind fun (w, out) =>
    if quiet w then
      (objOf w.c.ncols w.o).map fun o' => ({ rows := w.rows, nextId := w.nextId, objs := s.objs.set h o' }, untag w.log, out)
    else none

/-- the end of a constructor call: a successful one adds a handle; a failing one leaves none (the half-built instance
    is garbage: only the thread-local list must be gone) -/
def absNew (s : State) (r : Outcome) : Option (State × List Entry × Out) :=
  (outOf r).bind fun (w, out) =>
    match out with
    | .ok => if quiet w then (objOf w.c.ncols w.o).map fun o' =>
          ({ rows := w.rows, nextId := w.nextId, objs := s.objs ++ [o'] }, untag w.log, out) else none
    | _ => if w.postponed.isSome then none
           else some ({ rows := w.rows, nextId := w.nextId, objs := s.objs }, untag w.log, out)

end SqlObjVerif.Events
