import SqlObjVerif.Model.Hub
import SqlObjVerif.Model.PyTx
import SqlObjVerif.Extracted.PyTx
/-!
# C08 — `ConnectionHub.doInTransaction` as TRANSLATED from the source

`doInTransactionX tid b x` RUNS the PyTx program `vlib/extractors/pytx.py` translated from /repo's
`dbconnection.py` on this very run, called from thread `tid` with body `b`, in the world `x`.
`Lemmas/HubX.lean` proves that from the image `rep w` of ANY state `w` of the hand-written model
(`Model/Hub.lean`) it ends in a world whose abstraction is the world `doInTx w tid b` yields, with the same
outcome (value returned / the same exception raised), on every path: no binding at all, thread-level or
process-level binding, body returns / raises an `Exception` subclass / raises a BaseException-only exception.

A world of the translated program (`XW`) is a world of the hand model plus the view `txv` of the transaction
this call opens; `open` (the transactions that are open: their low-level connection is checked out) is the hand
model's `zombies` — at the end of `doInTransaction` an open transaction is referenced by the traceback only.

## The assumed interface (the parameters of the interpreter), from the calling thread `tid`
* `self.threadingLocal.connection`  : thread `tid`'s binding, AttributeError when there is none;
  `self.processConnection`          : the process binding, AttributeError when there is none; assigning to either
                                      (`self.threadConnection = v` is the property whose setter the translator
                                      checks and inlines) rebinds it — `Hub.thread` / `Hub.proc`;
* `isinstance(v, string_type)`      : False for connections and transactions (URI strings are outside the model);
* `c.transaction()` of a database connection `c` (`Transaction.__init__`, whose text the translator checks): a new
  transaction on `c`: a low-level connection is checked out of `c`'s pool (`inUse c + 1`) and switched to manual
  commit (`poolAuto c = false`), its view starts as the committed rows; of anything else: outside the interface;
* `func(*args, **kw)`               : `Hub.runBody` with the hub AS IT IS AT THAT MOMENT: each step goes to the
                                      transaction's view or to the committed rows depending on what the hub resolves
                                      to for `tid`; returns `b.ret` or raises the body's exception;
* `t.commit(close=True)` of the transaction: the view becomes the committed rows; because `close` is true the
  low-level connection goes back to the pool in the mode `autoCommit` asks for (`Transaction.commit` and
  `_makeObsolete` are translated and tied to `Model/Tx.lean` separately, `Lemmas/TxX*.lean`); without
  `close=True`: the same without the release;
* `t.rollback()`                    : the view is dropped (it is the committed rows again), the low-level connection
                                      goes back to the pool in the mode `autoCommit` asks for.
-/
namespace SqlObjVerif.Hub
open SqlObjVerif.PyTx (Val Iface CallRes R)
open SqlObjVerif.PyTx.Extracted

structure XW where
  db : View
  /-- the view of the transaction opened by this call -/
  txv : View
  hub : Hub
  inUse : Nat → Nat
  /-- open transactions (base connection ids), newest first -/
  «open» : List Nat
  ac : Nat → Bool
  poolAuto : Nat → Bool

def rep (w : World) : XW :=
  { db := w.db, txv := w.db, hub := w.hub, inUse := w.inUse, «open» := w.zombies, ac := w.ac, poolAuto := w.poolAuto }

def abs (x : XW) : World :=
  { db := x.db, hub := x.hub, inUse := x.inUse, zombies := x.open, ac := x.ac, poolAuto := x.poolAuto }

/-- object handles: kind 0 = database connection `c`, kind 1 = transaction on connection `c`,
    kind 2 = the body function -/
def crefVal : CRef → Val
  | .base c => .ref 0 c
  | .tx c => .ref 1 c

def valCRef : Val → Option CRef
  | .ref 0 c => some (.base c)
  | .ref 1 c => some (.tx c)
  | _ => none

def excOf (e : Exc) : PyTx.Exc :=
  match e.kind with
  | .exc => ⟨.exception, e.id⟩
  | .baseOnly => ⟨.baseOnly, e.id⟩

/-- the hand model's name for an exception of the translated program: an AttributeError is "no connection" -/
def excTo (e : PyTx.Exc) : Exc :=
  match e.cls with
  | .baseOnly => ⟨.baseOnly, e.id⟩
  | .attributeError => noConnExc
  | _ => ⟨.exc, e.id⟩

/-- the transaction's low-level connection goes back to the pool -/
def XW.release (x : XW) (c : Nat) : XW :=
  { x with inUse := upd x.inUse c (x.inUse c - 1), «open» := x.open.erase c, poolAuto := upd x.poolAuto c (x.ac c) }

def hubGetAttr (tid : Nat) (x : XW) (path : List String) : R Val :=
  if path = ["threadingLocal", "connection"] then
    match x.hub.thread tid with
    | some r => .ok (crefVal r)
    | none => .exc ⟨.attributeError, 0⟩
  else if path = ["processConnection"] then
    match x.hub.proc with
    | some r => .ok (crefVal r)
    | none => .exc ⟨.attributeError, 0⟩
  else .stuck

def hubSetAttr (tid : Nat) (x : XW) (path : List String) (v : Val) : Option XW :=
  match valCRef v with
  | some r =>
    if path = ["threadingLocal", "connection"] then some { x with hub := x.hub.bind .thread tid r }
    else if path = ["processConnection"] then some { x with hub := x.hub.bind .process tid r }
    else none
  | none => none

def hubCall (x : XW) (recv : Val) (m : String) (args : List Val) (kw : List (String × Val)) : CallRes XW :=
  match recv, args with
  | .ref 0 c, [] =>
    if m = "transaction" ∧ kw = [] then
      .ret { x with txv := x.db, inUse := upd x.inUse c (x.inUse c + 1), «open» := c :: x.open,
                    poolAuto := upd x.poolAuto c false } (.ref 1 c)
    else .stuck
  | .ref 1 c, [] =>
    if m = "commit" then
      if kw = [("close", .bool true)] then .ret ({ x with db := x.txv }.release c) .none
      else if kw = [] ∨ kw = [("close", .bool false)] then .ret { x with db := x.txv } .none
      else .stuck
    else if m = "rollback" ∧ kw = [] then .ret ({ x with txv := x.db }.release c) .none
    else .stuck
  | _, _ => .stuck

/-- `func(*args, **kw)`: the body, routed through the hub as it is now -/
def hubCallFn (tid : Nat) (b : Body) (x : XW) (f : Val) (_args : List Val) : CallRes XW :=
  match f with
  | .ref 2 0 =>
    match (runBody x.hub tid ⟨x.db, x.txv⟩ b).2 with
    | none => .ret { x with db := (runBody x.hub tid ⟨x.db, x.txv⟩ b).1.db,
                            txv := (runBody x.hub tid ⟨x.db, x.txv⟩ b).1.txv } (.int b.ret)
    | some e => .exc { x with db := (runBody x.hub tid ⟨x.db, x.txv⟩ b).1.db,
                              txv := (runBody x.hub tid ⟨x.db, x.txv⟩ b).1.txv } (excOf e)
  | _ => .stuck

def hubIface (tid : Nat) (b : Body) : Iface XW :=
  { self := .ref 3 0
    getAttr := hubGetAttr tid
    setAttr := hubSetAttr tid
    attrOf := fun _ _ _ => .stuck
    global := fun _ => none
    isinstance := fun v cls => if cls = "string_type" then
        (match v with
         | .ref _ _ => some false
         | .str _ => some true
         | _ => none) else none
    query := fun _ _ _ _ => .stuck
    call := hubCall
    callFn := hubCallFn tid b }

/-- `hub.doInTransaction(body)` from thread `tid`: the translated program -/
def doInTransactionX (tid : Nat) (b : Body) (x : XW) : CallRes XW :=
  PyTx.run (hubIface tid b) doInTransactionProg [.ref 2 0, .nil, .nil] doInTransaction_nlocals x

/-- the hand model's reading of how the call ended -/
def absRes : CallRes XW → Option (World × Outcome)
  | .ret x (.int v) => some (abs x, .returned v)
  | .exc x e => some (abs x, .raised (excTo e))
  | _ => none

end SqlObjVerif.Hub
