import SqlObjVerif.Model.PyCache
import SqlObjVerif.Model.Conc
/-!
# PyCacheSS — SMALL-STEP semantics of the PyCache embedding (one thread among others)

`Model/PyCache.lean` gives the programs that `vlib/extractors/pycache.py` translates from
`sqlobject/cache.py` a big-step meaning (`Block.exec`).  This file gives the SAME programs a small-step
meaning with the continuation as explicit data (`MTh`: control, frame stack, locals, read buffers), so
that several threads can be interleaved (`Model/ConcX.lean`).

One micro-step (`micro`) is
* one SHARED ACCESS (`nextAccess = some a`): a dict operation on `self.cache` / `self.expiredCache`
  (`get`, `set`, `del`, `in`, `keys`, `clear`, the rebinding `self.cache = {}`, one `next()` of a live dict
  iterator), the attribute load of `self.cache` by a thread that does not hold the cache lock (`load`: the
  thread remembers WHICH dict object it got — `genSeen` — and the following operation acts on that object,
  the current dict or an abandoned one kept in `olds`, exactly as in `Model/Conc.lean`), one read or write of
  `cullCount`, `lock.acquire()` (blocks: no step while another thread owns the lock) / `lock.release()`; or
* one SILENT step (`nextAccess = none`): thread-local control (enter a block / an `if` branch without shared
  read / a `try`, start or advance a loop over a local list, pop a frame, return from `self.m()`, …).

A statement that needs several shared accesses performs all but the last as PREFETCHES into the thread's
read buffer (`ccSeen`: the value of `cullCount` it read, `genSeen`: the dict object it loaded) and is
executed by its last access against the thread's VIEW (`viewSelf`: the shared state with the buffered
values substituted).  `Lemmas/ConcXStatic.lean` proves by `decide` on the translated programs that no
statement of the methods in scope has more than one dict operation / lock operation / `cullCount` write, so
nothing is fused there.  Reads of `cullOffset`, `cullFrequency`, `cullFraction`, `doCache` and the write of
`cullOffset` are NOT scheduling points (`cullOffset` is only touched under the cache lock, the others are
constants), and neither is dereferencing a weak reference.

The heap (which objects are alive) is a parameter `HeapOps`: the big-step semantics' `World`
(`dead`/`rel`) is one instance (`worldOps`, `Lemmas/PyCacheSSSeq.lean`: a thread running alone computes
what `PyCache.run` computes), CPython reference counting over the references the threads / the environment
/ the dicts hold is the other (`ConcX.concOps`).  `keep`: a thread that stores or returns a strong
reference it did not already have in a local keeps it (threads keep what they got, as in `Conc`).

`none` from `micro` = the thread cannot move: finished (empty stack, `done`), blocked on the lock, or
outside the fragment (`stuck` of the big-step semantics; iterating `self.cache` without holding the lock).
-/
namespace SqlObjVerif.PyCacheSS
open SqlObjVerif.PyCache
open SqlObjVerif.Conc (oget oset orelease)

abbrev Tid := Nat

/-- the state the threads share: the attributes of the `CacheFactory`, who owns its lock, and the identity of
    the dict object `self.cache` is bound to (`gen`; `hold` = aliases of it held between a load and the
    operation; `olds` = abandoned dict objects still aliased) -/
structure Shared (H : Type) where
  cache : Dict
  expiredCache : Dict
  cullCount : Nat
  cullOffset : Nat
  cullFrequency : Nat
  cullFraction : Nat
  doCache : Bool
  owner : Option Tid
  gen : Nat
  hold : Nat
  olds : List (Nat × Dict × Nat)
  heap : H

structure HeapOps (H : Type) where
  /-- calling a weak reference to `h` gives `None` -/
  dead : Shared H → Nat → Bool
  falsy : H → Nat → Bool
  /-- a dict dropped its references to these objects -/
  drop : H → List Nat → H
  /-- a thread keeps a strong reference to the object -/
  keep : H → Nat → H

/-- how a block / a method completes -/
inductive Pending where
  | norm
  | ret (v : Val)
  | retList (l : List Val)
  | exc (e : Exc)
deriving Repr, DecidableEq

inductive Frame where
  | seq (b : Block)                                   -- then run `b`
  | tryKey (handler orelse : Block)                   -- the body of `try … except KeyError` is running
  | tryFin (fin : Block)                              -- the body of `try … finally` is running
  | finEnd (p : Pending)                              -- the `finally` block is running; then complete with `p`
  | loopList (x : Nat) (body : Block) (rest : List Val)        -- `for x in <list>` / `range`: values to come
  | loopItems (k v : Nat) (d : DictAttr) (body : Block) (pos used : Nat)   -- live dict iterator
  | loopValues (v : Nat) (d : DictAttr) (body : Block) (pos used : Nat)
  | call (vars : List (Option Val)) (lists : List (List Val))  -- `self.m()` is running; the caller's locals

inductive Ctl where
  | run (b : Block)
  | done (p : Pending)

/-- a thread inside a translated method -/
structure MTh where
  ctl : Ctl
  stack : List Frame
  vars : List (Option Val)
  lists : List (List Val)
  /-- prefetched `self.cullCount` -/
  ccSeen : Option Nat
  /-- generation of the dict object a prefetched `self.cache` evaluated to -/
  genSeen : Option Nat

inductive AccKind where
  | get | set | del | in_ | keys | swap | clear | next
deriving Repr, DecidableEq

inductive Access where
  | ccRead | ccWrite | acquire | release
  | load                                   -- attribute load of `self.cache` without the lock
  | dict (d : DictAttr) (k : AccKind)
deriving Repr, DecidableEq

/-! ## which shared accesses a statement makes -/
def exprReadsCC : Expr → Bool
  | .attr a => a == .cullCount
  | .add a b => exprReadsCC a || exprReadsCC b
  | .mod a b => exprReadsCC a || exprReadsCC b
  | .dictIdx _ k => exprReadsCC k
  | .dictGet _ k => exprReadsCC k
  | .callRef e => exprReadsCC e
  | .mkRef e => exprReadsCC e
  | .listIdx _ i => exprReadsCC i
  | _ => false

/-- the dict an expression reads (the first one) -/
def exprDict : Expr → Option DictAttr
  | .dictIdx d _ => some d
  | .dictGet d _ => some d
  | .add a b => match exprDict a with
    | some d => some d
    | none => exprDict b
  | .mod a b => match exprDict a with
    | some d => some d
    | none => exprDict b
  | .callRef e => exprDict e
  | .mkRef e => exprDict e
  | .listIdx _ i => exprDict i
  | _ => none

/-- number of dict reads in an expression -/
def exprNDict : Expr → Nat
  | .dictIdx _ k => 1 + exprNDict k
  | .dictGet _ k => 1 + exprNDict k
  | .add a b => exprNDict a + exprNDict b
  | .mod a b => exprNDict a + exprNDict b
  | .callRef e => exprNDict e
  | .mkRef e => exprNDict e
  | .listIdx _ i => exprNDict i
  | _ => 0

def getOnly (o : Option DictAttr) : Option (DictAttr × AccKind) :=
  match o with
  | some d => some (d, .get)
  | none => none

def condReadsCC : Cond → Bool
  | .truthy e => exprReadsCC e
  | .cmp _ a b => exprReadsCC a || exprReadsCC b
  | .isNone e => exprReadsCC e
  | .isNotNone e => exprReadsCC e
  | .inDict k _ => exprReadsCC k
  | .not c => condReadsCC c
  | .and c d => condReadsCC c || condReadsCC d
  | .or c d => condReadsCC c || condReadsCC d
  | .doCache => false

/-- the dict access of a condition; a conjunct / disjunct that is not evaluated (short circuit on a part
    without shared access, e.g. `self.doCache and id in self.cache`) makes none -/
def condDict (st : St) : Cond → Option (DictAttr × AccKind)
  | .truthy e => getOnly (exprDict e)
  | .cmp _ a b => match exprDict a with
    | some d => some (d, .get)
    | none => getOnly (exprDict b)
  | .isNone e => getOnly (exprDict e)
  | .isNotNone e => getOnly (exprDict e)
  | .inDict _ d => some (d, .in_)
  | .not c => condDict st c
  | .and c d => match condDict st c with
    | some a => some a
    | none => match c.eval st with
      | .ok true => condDict st d
      | _ => none
  | .or c d => match condDict st c with
    | some a => some a
    | none => match c.eval st with
      | .ok false => condDict st d
      | _ => none
  | .doCache => none

def condNDict : Cond → Nat
  | .truthy e => exprNDict e
  | .cmp _ a b => exprNDict a + exprNDict b
  | .isNone e => exprNDict e
  | .isNotNone e => exprNDict e
  | .inDict k _ => 1 + exprNDict k
  | .not c => condNDict c
  | .and c d => condNDict c + condNDict d
  | .or c d => condNDict c + condNDict d
  | .doCache => 0

def stmtReadsCC : Stmt → Bool
  | .assign _ e => exprReadsCC e
  | .setAttr _ e => exprReadsCC e
  | .dictSet _ k v => exprReadsCC k || exprReadsCC v
  | .dictDel _ k => exprReadsCC k
  | .dictPop _ k => exprReadsCC k
  | .listAppend _ e => exprReadsCC e
  | .ite c _ _ => condReadsCC c
  | .ret e => exprReadsCC e
  | _ => false

def stmtWritesCC : Stmt → Bool
  | .setAttr a _ => a == .cullCount
  | _ => false

/-- the dict access of a statement: its own operation, else the read in its expression / condition -/
def stmtDict (st : St) : Stmt → Option (DictAttr × AccKind)
  | .assign _ e => getOnly (exprDict e)
  | .setAttr _ e => getOnly (exprDict e)
  | .listAppend _ e => getOnly (exprDict e)
  | .ret e => getOnly (exprDict e)
  | .dictSet d _ _ => some (d, .set)
  | .dictDel d _ => some (d, .del)
  | .dictPop d _ => some (d, .del)
  | .dictClear d => some (d, .clear)
  | .dictNew d => some (d, .swap)
  | .listKeys _ d => some (d, .keys)
  | .listValues _ d => some (d, .keys)
  | .ite c _ _ => condDict st c
  | _ => none

/-- how many dict operations + lock operations + `cullCount` writes the statement itself makes (`≤ 1` for every
    statement of the methods in scope: `Lemmas/ConcXStatic.lean`) -/
def stmtNAcc : Stmt → Nat
  | .assign _ e => exprNDict e
  | .setAttr a e => exprNDict e + (if a == .cullCount then 1 else 0)
  | .listAppend _ e => exprNDict e
  | .ret e => exprNDict e
  | .dictSet _ k v => 1 + exprNDict k + exprNDict v
  | .dictDel _ k => 1 + exprNDict k
  | .dictPop _ k => 1 + exprNDict k
  | .dictClear _ => 1
  | .dictNew _ => 1
  | .listKeys _ _ => 1
  | .listValues _ _ => 1
  | .ite c _ _ => condNDict c
  | .acquire => 1
  | .release => 1
  | .forRange _ a b c _ => exprNDict a + exprNDict b + exprNDict c
  | _ => 0

/-! ## the thread's view of the shared state -/
variable {H : Type}

def viewSelf (sh : Shared H) (m : MTh) : Self :=
  { cache := match m.genSeen with
      | none => sh.cache
      | some g => if g = sh.gen then sh.cache else (oget sh.olds g).getD []
    expiredCache := sh.expiredCache
    cullCount := m.ccSeen.getD sh.cullCount
    cullOffset := sh.cullOffset
    cullFrequency := sh.cullFrequency
    cullFraction := sh.cullFraction
    doCache := sh.doCache
    lock := sh.owner.isSome }

def viewSt (ops : HeapOps H) (sh : Shared H) (m : MTh) : St :=
  { w := { self := viewSelf sh m, dead := ops.dead sh, rel := fun _ => false, falsy := ops.falsy sh.heap }
    vars := m.vars, lists := m.lists }

/-- the accesses the head statement still has to make, in order -/
def pendingOf (ops : HeapOps H) (t : Tid) (sh : Shared H) (m : MTh) (s : Stmt) : List Access :=
  (if stmtReadsCC s && m.ccSeen.isNone then [Access.ccRead] else []) ++
  (match stmtDict (viewSt ops sh m) s with
   | some (.cache, k) =>
     (if (sh.owner != some t) && m.genSeen.isNone && (k != .swap) then [Access.load] else []) ++ [Access.dict .cache k]
   | some (.expiredCache, k) => [Access.dict .expiredCache k]
   | none => []) ++
  (if stmtWritesCC s then [Access.ccWrite] else []) ++
  (match s with
   | .acquire => [Access.acquire]
   | .release => [Access.release]
   | _ => [])

/-- the shared access the thread is parked at (`none`: its next micro-step is silent, or it cannot move) -/
def nextAccess (ops : HeapOps H) (t : Tid) (sh : Shared H) (m : MTh) : Option Access :=
  match m.ctl with
  | .run .nil => none
  | .run (.cons s _) => (pendingOf ops t sh m s).head?
  | .done .norm => match m.stack with
    | .loopItems _ _ d _ _ _ :: _ => some (.dict d .next)
    | .loopValues _ d _ _ _ :: _ => some (.dict d .next)
    | _ => none
  | .done _ => none

/-! ## executing a statement -/

/-- the alias of `self.cache` taken by a prefetch goes away with the statement -/
def unload (sh : Shared H) (m : MTh) : Shared H :=
  match m.genSeen with
  | none => sh
  | some g => if g = sh.gen then { sh with hold := sh.hold - 1 } else { sh with olds := orelease sh.olds g }

def MTh.clr (m : MTh) : MTh := { m with ccSeen := none, genSeen := none }

/-- a strong reference the thread did not already hold in a local -/
def retained : Expr → Val → Option Nat
  | .var _, _ => none
  | _, .obj h => some h
  | _, _ => none

def keepV (ops : HeapOps H) (sh : Shared H) (e : Expr) (v : Val) : Shared H :=
  match retained e v with
  | some h => { sh with heap := ops.keep sh.heap h }
  | none => sh

/-- `self.d = l'` (the dict object is updated in place) where the entries `gone` lost their reference -/
def putDict (ops : HeapOps H) (sh : Shared H) (m : MTh) (d : DictAttr) (l' : Dict) (gone : Dict) : Option (Shared H) :=
  match d with
  | .expiredCache => some { sh with expiredCache := l', heap := ops.drop sh.heap (strongRefs d gone) }
  | .cache => match m.genSeen with
    | none => some { sh with cache := l', heap := ops.drop sh.heap (strongRefs d gone) }
    | some g => if g = sh.gen then some { sh with cache := l', heap := ops.drop sh.heap (strongRefs d gone) } else none

def setIntS (sh : Shared H) : IntAttr → Nat → Shared H
  | .cullCount, n => { sh with cullCount := n }
  | .cullOffset, n => { sh with cullOffset := n }
  | .cullFrequency, n => { sh with cullFrequency := n }
  | .cullFraction, n => { sh with cullFraction := n }

/-- the statement is over: buffers cleared, alias released -/
def fin (m0 : MTh) (m' : MTh) (sh' : Shared H) : Option (MTh × Shared H) :=
  some (m'.clr, unload sh' m0)

def goRun (m : MTh) (b : Block) : MTh := { m with ctl := .run b }
def goDone (m : MTh) (p : Pending) : MTh := { m with ctl := .done p }
def pushRun (m : MTh) (fs : List Frame) (b : Block) : MTh := { m with ctl := .run b, stack := fs ++ m.stack }

/-- the method table: program, number of locals (no parameters: `self.m()`), number of list locals -/
abbrev Meths := String → Option (Block × Nat × Nat)

def execStmt (ops : HeapOps H) (meths : Meths) (t : Tid) (sh : Shared H) (m : MTh) (s : Stmt) (rest : Block) :
    Option (MTh × Shared H) :=
  let st := viewSt ops sh m
  match s with
  | .pass => fin m (goRun m rest) sh
  | .assign x e => match e.eval st with
    | .ok v => fin m { m with ctl := .run rest, vars := m.vars.set x (some v) } (keepV ops sh e v)
    | .exc e => fin m (goDone m (.exc e)) sh
    | .stuck => none
  | .setAttr a e => match e.eval st with
    | .ok (.int n) => fin m (goRun m rest) (setIntS sh a n)
    | .exc e => fin m (goDone m (.exc e)) sh
    | _ => none
  | .dictSet d k v => match k.eval st with
    | .ok (.key k) => match v.eval st with
      | .ok v => match unwrap d v, st.w.self.getDict d with
        | some h, some l =>
          (match d, m.genSeen with
           | .cache, some g =>
             if g = sh.gen then
               (match putDict ops sh m d (dset k h l) (l.filter (fun e => decide (e.1 = k) && decide (e.2 ≠ h))) with
                | some sh' => fin m (goRun m rest) sh'
                | none => none)
             else fin m (goRun m rest) { sh with olds := oset sh.olds g k h }     -- stale alias: the abandoned dict
           | _, _ =>
             (match putDict ops sh m d (dset k h l) (l.filter (fun e => decide (e.1 = k) && decide (e.2 ≠ h))) with
              | some sh' => fin m (goRun m rest) sh'
              | none => none))
        | _, _ => none
      | .exc e => fin m (goDone m (.exc e)) sh
      | .stuck => none
    | .exc e => fin m (goDone m (.exc e)) sh
    | _ => none
  | .dictDel d k => match k.eval st with
    | .ok (.key k) => match st.w.self.getDict d with
      | some l =>
        if dhasKey k l then
          (match putDict ops sh m d (ddel k l) (l.filter (fun e => decide (e.1 = k))) with
           | some sh' => fin m (goRun m rest) sh'
           | none => none)
        else fin m (goDone m (.exc .keyError)) sh
      | none => none
    | .exc e => fin m (goDone m (.exc e)) sh
    | _ => none
  | .dictPop d k => match k.eval st with
    | .ok (.key k) => match st.w.self.getDict d with
      | some l =>
        (match putDict ops sh m d (ddel k l) (l.filter (fun e => decide (e.1 = k))) with
         | some sh' => fin m (goRun m rest) sh'
         | none => none)
      | none => none
    | .exc e => fin m (goDone m (.exc e)) sh
    | _ => none
  | .dictClear d => match st.w.self.getDict d with
    | some l => (match putDict ops sh m d [] l with
      | some sh' => fin m (goRun m rest) sh'
      | none => none)
    | none => none
  | .dictNew .cache =>
    -- `self.cache = {}`: a new dict object; the old one lives on while aliases of it exist
    fin m (goRun m rest)
      { sh with cache := [], gen := sh.gen + 1, hold := 0,
                olds := if sh.hold = 0 then sh.olds else sh.olds ++ [(sh.gen, sh.cache, sh.hold)],
                heap := if sh.hold = 0 then ops.drop sh.heap (strongRefs .cache (if sh.doCache then sh.cache else []))
                        else sh.heap }
  | .dictNew .expiredCache =>
    fin m (goRun m rest) { sh with expiredCache := [] }
  | .listKeys l d => match st.w.self.getDict d with
    | some es => fin m { m with ctl := .run rest, lists := m.lists.set l (es.map (fun e => Val.key e.1)) } sh
    | none => none
  | .listValues l d => match st.w.self.getDict d with
    | some es => fin m { m with ctl := .run rest, lists := m.lists.set l (es.map (fun e => wrap d e.2)) } sh
    | none => none
  | .listEmpty l => fin m { m with ctl := .run rest, lists := m.lists.set l [] } sh
  | .listAppend l e => match st.getList l, e.eval st with
    | some vs, .ok v => fin m { m with ctl := .run rest, lists := m.lists.set l (vs ++ [v]) } sh
    | some _, .exc e => fin m (goDone m (.exc e)) sh
    | _, _ => none
  | .acquire => match sh.owner with
    | none => fin m (goRun m rest) { sh with owner := some t }
    | some _ => none                                  -- blocks
  | .release => match sh.owner with
    | none => fin m (goDone m (.exc .runtimeError)) sh
    | some _ => fin m (goRun m rest) { sh with owner := none }      -- a `threading.Lock` may be released by any thread
  | .callSelf name => match meths name with
    | some (prog, nlocals, nlists) =>
      fin m { m with ctl := .run prog, stack := .call m.vars m.lists :: .seq rest :: m.stack,
                        vars := List.replicate nlocals none, lists := List.replicate nlists [] } sh
    | none => none
  | .ite c tb eb => match c.eval st with
    | .ok true => fin m (pushRun m [.seq rest] tb) sh
    | .ok false => fin m (pushRun m [.seq rest] eb) sh
    | .exc e => fin m (goDone m (.exc e)) sh
    | .stuck => none
  | .forList x l body => match st.getList l with
    | some vs => fin m { m with ctl := .done .norm, stack := .loopList x body vs :: .seq rest :: m.stack } sh
    | none => none
  | .forRange x a b c body => match a.eval st, b.eval st, c.eval st with
    | .ok (.int a), .ok (.int b), .ok (.int c) =>
      if c = 0 then fin m (goDone m (.exc .valueError)) sh
      else fin m { m with ctl := .done .norm,
                             stack := .loopList x body ((pyRange a b c).map Val.int) :: .seq rest :: m.stack } sh
    | _, _, _ => none
  | .forItems k v d body =>
    if (d == .cache) && (sh.owner != some t) then none       -- outside the fragment: iterating `self.cache` without the lock
    else match st.w.self.getDict d with
      | some es => fin m { m with ctl := .done .norm, stack := .loopItems k v d body 0 es.length :: .seq rest :: m.stack } sh
      | none => none
  | .forValues v d body =>
    if (d == .cache) && (sh.owner != some t) then none
    else match st.w.self.getDict d with
      | some es => fin m { m with ctl := .done .norm, stack := .loopValues v d body 0 es.length :: .seq rest :: m.stack } sh
      | none => none
  | .tryKey body handler orelse => fin m (pushRun m [.tryKey handler orelse, .seq rest] body) sh
  | .tryFinally body f => fin m (pushRun m [.tryFin f, .seq rest] body) sh
  | .ret e => match e.eval st with
    | .ok v => fin m (goDone m (.ret v)) (keepV ops sh e v)
    | .exc e => fin m (goDone m (.exc e)) sh
    | .stuck => none
  | .retNone => fin m (goDone m (.ret .none)) sh
  | .retList l => match st.getList l with
    | some vs => fin m (goDone m (.retList vs)) sh
    | none => none

/-- a block / statement completed with `p`: what the top frame does with it -/
def doneStep (sh : Shared H) (m : MTh) (p : Pending) : Option (MTh × Shared H) :=
  match m.stack with
  | [] => none                                         -- the method is over: the caller's business
  | f :: stk =>
    match f with
    | .seq b => (match p with
      | .norm => some ({ m with ctl := .run b, stack := stk }, sh)
      | _ => some ({ m with stack := stk }, sh))
    | .tryKey handler orelse => (match p with
      | .norm => some ({ m with ctl := .run orelse, stack := stk }, sh)
      | .exc e => if e = .keyError then some ({ m with ctl := .run handler, stack := stk }, sh)
                  else some ({ m with stack := stk }, sh)
      | _ => some ({ m with stack := stk }, sh))
    | .tryFin f => some ({ m with ctl := .run f, stack := .finEnd p :: stk }, sh)
    | .finEnd q => (match p with
      | .norm => some ({ m with ctl := .done q, stack := stk }, sh)
      | _ => some ({ m with stack := stk }, sh))
    | .loopList x body vs => (match p with
      | .norm => (match vs with
        | v :: vs' => some ({ m with ctl := .run body, stack := .loopList x body vs' :: stk, vars := m.vars.set x (some v) }, sh)
        | [] => some ({ m with stack := stk }, sh))
      | _ => some ({ m with stack := stk }, sh))
    | .loopItems k v d body pos used => (match p with
      | .norm =>
        -- `next()` of the dict iterator: CPython raises RuntimeError when the dict changed size
        (match (viewSelf sh m).getDict d with
         | some es =>
           if es.length != used then some ({ m with ctl := .done (.exc .runtimeError), stack := stk }, sh)
           else (match es[pos]? with
             | some e => some ({ m with ctl := .run body, stack := .loopItems k v d body (pos + 1) used :: stk,
                                        vars := (m.vars.set k (some (.key e.1))).set v (some (wrap d e.2)) }, sh)
             | none => some ({ m with stack := stk }, sh))
         | none => none)
      | _ => some ({ m with stack := stk }, sh))
    | .loopValues v d body pos used => (match p with
      | .norm =>
        (match (viewSelf sh m).getDict d with
         | some es =>
           if es.length != used then some ({ m with ctl := .done (.exc .runtimeError), stack := stk }, sh)
           else (match es[pos]? with
             | some e => some ({ m with ctl := .run body, stack := .loopValues v d body (pos + 1) used :: stk,
                                        vars := m.vars.set v (some (wrap d e.2)) }, sh)
             | none => some ({ m with stack := stk }, sh))
         | none => none)
      | _ => some ({ m with stack := stk }, sh))
    | .call vs ls => (match p with
      | .exc e => some ({ m with ctl := .done (.exc e), stack := stk, vars := vs, lists := ls }, sh)
      | _ => some ({ m with ctl := .done .norm, stack := stk, vars := vs, lists := ls }, sh))

/-- one micro-step of thread `t` inside a translated method -/
def micro (ops : HeapOps H) (meths : Meths) (t : Tid) (sh : Shared H) (m : MTh) : Option (MTh × Shared H) :=
  match m.ctl with
  | .run .nil => some ({ m with ctl := .done .norm }, sh)
  | .run (.cons s rest) =>
    (match pendingOf ops t sh m s with
     | .ccRead :: _ :: _ => some ({ m with ccSeen := some sh.cullCount }, sh)
     | .load :: _ :: _ => some ({ m with genSeen := some sh.gen }, { sh with hold := sh.hold + 1 })
     | _ => execStmt ops meths t sh m s rest)
  | .done p => doneStep sh m p

/-- the method returned to its caller -/
def MTh.result (m : MTh) : Option Pending :=
  match m.ctl, m.stack with
  | .done p, [] => some p
  | _, _ => none

/-- a fresh activation: `args` are the parameters after `self` -/
def MTh.start (prog : Block) (args : List Val) (nlocals nlists : Nat) : MTh :=
  { ctl := .run prog, stack := [], vars := args.map some ++ List.replicate nlocals none,
    lists := List.replicate nlists [], ccSeen := none, genSeen := none }

def MTh.idle : MTh := { ctl := .done .norm, stack := [], vars := [], lists := [], ccSeen := none, genSeen := none }

end SqlObjVerif.PyCacheSS
