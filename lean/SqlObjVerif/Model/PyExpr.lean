/-!
# PyExpr — a deep embedding of the Python fragment the expression builders of `sqlbuilder.py` are written in

`vlib/extractors/pyexpr.py` TRANSLATES, on every run, the bodies of `SQLOp.__init__ / __sqlrepr__`,
`SQLModulo.__init__ / __sqlrepr__`, `SQLCall`, `SQLPrefix`, `SQLConstant`, `SQLTrueClauseClass.__sqlrepr__`,
`Field.__sqlrepr__`, the operator overloads of `SQLExpression` and `SQLObjectField`, `AND`, `OR`, `NOT`, `_IN`, `IN`,
`NOTIN`, `ISNULL`, `ISNOTNULL`, `INSubquery.__init__ / __sqlrepr__` (sqlobject/sqlbuilder.py) and the `None` / `int` /
`float` / sequence converters (sqlobject/converters.py) from /repo's AST into `Block`s of this language
(`Extracted/PyExpr.lean`).  This file is the fixed vocabulary and its reference semantics (total functions, no fuel:
the fragment has no loop; a list comprehension maps over a list value).

Values: `None`, `bool`, `int`, `float` (opaque: sign and literal number of the magnitude, as in `Expr.Node.flt`),
`str` (list of code points), tuples, lists, dicts with `str` keys, objects (class name and stored attributes, in
order of first assignment).  Values are immutable; `self.a = e` / `x.a[k] = v` rebind the local that holds the object
(the translator checks that the local is `self` in an `__init__`, resp. a local bound to a fresh call result).

Everything that is not Python itself is a PARAMETER of the interpreter (`Iface`):
* `call`      : a call of a module-level name — a class (`SQLOp(op, a, b)`: construction), a module function
                (`ISNULL(self)`, `AND(*ops)`, `sqlrepr(x, db)`); returns a value or raises;
* `method`    : a method call on a value that is not a `str` (`self._from_python(other)`, `list.queryForSelect()`);
* `clsCall`   : `C.m(self, …)` through the class (`SQLOp.__sqlrepr__(self, db)`);
* `clsInit`   : `C.__init__(self, …)` through the class: the state of `self` afterwards;
* `classAttr` : an attribute found on the class, not on the instance (`INSubquery.op`);
* `isSub`     : the subclass relation used by `isinstance` (reflexive; from the class statements of the module);
* `reprInt` / `reprFlt` : `repr` of an `int` / of a `float`.
Built into the semantics (Python itself): truthiness, `and` / `or` / `not`, `is None`, `==` / `!=` on scalars,
`+` on `str`, `%`-formatting with `%s` of `str` arguments, indexing of `str` / tuple / list (IndexError when out of
range), `x[lo:]` of tuple / list / `str`, `isinstance`, `int(i)`, `repr`, `str.upper` (ASCII letters; other code
points are left alone), `str.join`, tuple unpacking, attribute assignment, list comprehension over a list / tuple.
`stuck` = outside the fragment (a `TypeError` / `NameError` of the real interpreter, or a construct the semantics
does not cover): a theorem `translated = model` shows in particular that this never happens.
Locals are numbered in order of first binding, parameters first: renaming a local does not change the translation.
-/
namespace SqlObjVerif.PyExpr

abbrev Str := List Nat

inductive Val where
  | none
  | bool (b : Bool)
  | int (i : Int)
  | flt (neg : Bool) (i : Nat)
  | str (s : Str)
  | tuple (vs : List Val)
  | list (vs : List Val)
  | dict (kvs : List (Str × Val))
  | obj (cls : String) (fields : List (String × Val))

inductive Exc where
  | indexError | valueError | attributeError | keyError
  /-- the column's validator refused the constant (`formencode.Invalid`) -/
  | invalid
deriving Repr, DecidableEq

inductive R (α : Type) where
  | ok (a : α)
  | exc (e : Exc)
  | stuck

def R.bind {α β : Type} : R α → (α → R β) → R β
  | .ok a, f => f a
  | .exc e, _ => .exc e
  | .stuck, _ => .stuck

@[simp] theorem R.bind_ok {α β : Type} (a : α) (f : α → R β) : (R.ok a).bind f = f a := by rw [R.bind]
@[simp] theorem R.bind_exc {α β : Type} (e : Exc) (f : α → R β) : (R.exc e : R α).bind f = .exc e := by rw [R.bind]
@[simp] theorem R.bind_stuck {α β : Type} (f : α → R β) : (R.stuck : R α).bind f = .stuck := by rw [R.bind]

def ofOpt {α : Type} : Option α → R α
  | some a => .ok a
  | Option.none => .stuck

@[simp] theorem ofOpt_some {α : Type} (a : α) : ofOpt (some a) = .ok a := rfl
@[simp] theorem ofOpt_none {α : Type} : ofOpt (Option.none : Option α) = .stuck := rfl

structure Iface where
  call : String → List Val → R Val
  method : Val → String → List Val → R Val
  clsCall : String → String → List Val → R Val
  clsInit : String → Val → List Val → R Val
  classAttr : String → String → Option Val
  isSub : String → String → Bool
  reprInt : Int → Str
  reprFlt : Bool → Nat → Str

/-! ### association lists -/

def aget {κ α : Type} [BEq κ] (k : κ) : List (κ × α) → Option α
  | [] => Option.none
  | e :: l => if e.1 == k then some e.2 else aget k l

/-- `d[k] = v` / `o.a = v`: a present key keeps its position, a new one goes to the end -/
def aset {κ α : Type} [BEq κ] (d : List (κ × α)) (k : κ) (v : α) : List (κ × α) :=
  if d.any (fun e => e.1 == k) then d.map (fun e => if e.1 == k then (e.1, v) else e) else d ++ [(k, v)]

/-! ### Python's own operations -/

def truthy : Val → Bool
  | .none => false
  | .bool b => b
  | .int i => i != 0
  | .flt _ _ => true            -- the float constants of the fragment are non-zero magnitudes or never tested
  | .str [] => false
  | .str (_ :: _) => true
  | .tuple [] => false
  | .tuple (_ :: _) => true
  | .list [] => false
  | .list (_ :: _) => true
  | .dict [] => false
  | .dict (_ :: _) => true
  | .obj _ _ => true

@[simp] theorem truthy_none : truthy .none = false := rfl
@[simp] theorem truthy_bool (b : Bool) : truthy (.bool b) = b := rfl
@[simp] theorem truthy_tuple_nil : truthy (.tuple []) = false := rfl
@[simp] theorem truthy_tuple_cons (v : Val) (vs : List Val) : truthy (.tuple (v :: vs)) = true := rfl
@[simp] theorem truthy_obj (c : String) (f : List (String × Val)) : truthy (.obj c f) = true := rfl

/-- the name of `type(v)` -/
def typeName : Val → String
  | .none => "NoneType"
  | .bool _ => "bool"
  | .int _ => "int"
  | .flt _ _ => "float"
  | .str _ => "str"
  | .tuple _ => "tuple"
  | .list _ => "list"
  | .dict _ => "dict"
  | .obj c _ => c

@[simp] theorem typeName_none : typeName .none = "NoneType" := rfl
@[simp] theorem typeName_bool (b : Bool) : typeName (.bool b) = "bool" := rfl
@[simp] theorem typeName_int (i : Int) : typeName (.int i) = "int" := rfl
@[simp] theorem typeName_flt (n : Bool) (i : Nat) : typeName (.flt n i) = "float" := rfl
@[simp] theorem typeName_str (s : Str) : typeName (.str s) = "str" := rfl
@[simp] theorem typeName_tuple (vs : List Val) : typeName (.tuple vs) = "tuple" := rfl
@[simp] theorem typeName_list (vs : List Val) : typeName (.list vs) = "list" := rfl
@[simp] theorem typeName_dict (d : List (Str × Val)) : typeName (.dict d) = "dict" := rfl
@[simp] theorem typeName_obj (c : String) (f : List (String × Val)) : typeName (.obj c f) = c := rfl

def isNoneV : Val → Bool
  | .none => true
  | _ => false

@[simp] theorem isNoneV_none : isNoneV .none = true := rfl
@[simp] theorem isNoneV_bool (b : Bool) : isNoneV (.bool b) = false := rfl
@[simp] theorem isNoneV_int (i : Int) : isNoneV (.int i) = false := rfl
@[simp] theorem isNoneV_flt (n : Bool) (i : Nat) : isNoneV (.flt n i) = false := rfl
@[simp] theorem isNoneV_str (s : Str) : isNoneV (.str s) = false := rfl
@[simp] theorem isNoneV_tuple (vs : List Val) : isNoneV (.tuple vs) = false := rfl
@[simp] theorem isNoneV_list (vs : List Val) : isNoneV (.list vs) = false := rfl
@[simp] theorem isNoneV_dict (d : List (Str × Val)) : isNoneV (.dict d) = false := rfl
@[simp] theorem isNoneV_obj (c : String) (f : List (String × Val)) : isNoneV (.obj c f) = false := rfl

/-- `a == b` on scalars of the same kind; anything else is outside the fragment (objects of the fragment overload
    `==`, and the translated code never compares them) -/
def pyEq : Val → Val → Option Bool
  | .none, .none => some true
  | .str a, .str b => some (a == b)
  | .int a, .int b => some (a == b)
  | .bool a, .bool b => some (a == b)
  | .none, .str _ => some false
  | .str _, .none => some false
  | _, _ => Option.none

@[simp] theorem pyEq_str (a b : Str) : pyEq (.str a) (.str b) = some (a == b) := rfl

inductive CmpOp where
  | eq | ne
deriving Repr, DecidableEq

def pyCmp : CmpOp → Val → Val → R Val
  | .eq, a, b => (ofOpt (pyEq a b)).bind fun r => .ok (.bool r)
  | .ne, a, b => (ofOpt (pyEq a b)).bind fun r => .ok (.bool (!r))

@[simp] theorem pyCmp_eq_str (a b : Str) : pyCmp .eq (.str a) (.str b) = .ok (.bool (a == b)) := rfl
@[simp] theorem pyCmp_ne_str (a b : Str) : pyCmp .ne (.str a) (.str b) = .ok (.bool (!(a == b))) := rfl

/-- `a + b` -/
def pyAdd : Val → Val → R Val
  | .str a, .str b => .ok (.str (a ++ b))
  | .int a, .int b => .ok (.int (a + b))
  | _, _ => .stuck

@[simp] theorem pyAdd_str (a b : Str) : pyAdd (.str a) (.str b) = .ok (.str (a ++ b)) := rfl

/-- `fmt % args` with the conversion `%s` applied to `str` arguments, and `%%` -/
def pyFormat : Str → List Val → R Str
  | [], [] => .ok []
  | [], _ :: _ => .stuck
  | c :: rest, vs =>
    if c = 37 then
      match rest, vs with
      | 37 :: rest', vs => (pyFormat rest' vs).bind fun r => .ok (37 :: r)
      | 115 :: rest', .str s :: vs' => (pyFormat rest' vs').bind fun r => .ok (s ++ r)
      | _, _ => .stuck
    else (pyFormat rest vs).bind fun r => .ok (c :: r)

def fmtArgs : Val → List Val
  | .tuple vs => vs
  | v => [v]

@[simp] theorem fmtArgs_tuple (vs : List Val) : fmtArgs (.tuple vs) = vs := rfl
@[simp] theorem fmtArgs_str (s : Str) : fmtArgs (.str s) = [.str s] := rfl

def pyMod : Val → Val → R Val
  | .str f, a => (pyFormat f (fmtArgs a)).bind fun s => .ok (.str s)
  | _, _ => .stuck

@[simp] theorem pyMod_str (f : Str) (a : Val) : pyMod (.str f) a = (pyFormat f (fmtArgs a)).bind fun s => .ok (.str s) := rfl

def normIdx (n : Nat) (i : Int) : Option Nat :=
  if 0 ≤ i then (if i.toNat < n then some i.toNat else Option.none)
  else if (-i).toNat ≤ n then some (n - (-i).toNat) else Option.none

def clampIdx (n : Nat) (i : Int) : Nat :=
  if 0 ≤ i then min i.toNat n else n - min (-i).toNat n

def idxRes {α : Type} (o : Option α) (f : α → Val) : R Val :=
  match o with
  | some c => .ok (f c)
  | Option.none => .exc .indexError

@[simp] theorem idxRes_some {α : Type} (c : α) (f : α → Val) : idxRes (some c) f = .ok (f c) := rfl
@[simp] theorem idxRes_none {α : Type} (f : α → Val) : idxRes (Option.none : Option α) f = .exc .indexError := rfl

def keyRes (o : Option Val) : R Val :=
  match o with
  | some v => .ok v
  | Option.none => .exc .keyError

/-- `v[i]` -/
def pyIndex : Val → Val → R Val
  | .str s, .int i => idxRes ((normIdx s.length i).bind (s[·]?)) fun c => .str [c]
  | .tuple vs, .int i => idxRes ((normIdx vs.length i).bind (vs[·]?)) id
  | .list vs, .int i => idxRes ((normIdx vs.length i).bind (vs[·]?)) id
  | .dict d, .str k => keyRes (aget k d)
  | _, _ => .stuck

@[simp] theorem pyIndex_str_nil : pyIndex (.str []) (.int 0) = .exc .indexError := rfl
@[simp] theorem pyIndex_str_cons (c : Nat) (s : Str) : pyIndex (.str (c :: s)) (.int 0) = .ok (.str [c]) := by
  simp [pyIndex, normIdx]
@[simp] theorem pyIndex_tuple_cons (v : Val) (vs : List Val) : pyIndex (.tuple (v :: vs)) (.int 0) = .ok v := by
  simp [pyIndex, normIdx]

/-- `v[lo:]` -/
def pySliceFrom : Val → Val → R Val
  | .str s, .int i => .ok (.str (s.drop (clampIdx s.length i)))
  | .tuple vs, .int i => .ok (.tuple (vs.drop (clampIdx vs.length i)))
  | .list vs, .int i => .ok (.list (vs.drop (clampIdx vs.length i)))
  | _, _ => .stuck

@[simp] theorem pySliceFrom_tuple_cons (v : Val) (vs : List Val) :
    pySliceFrom (.tuple (v :: vs)) (.int 1) = .ok (.tuple vs) := by
  simp [pySliceFrom, clampIdx]

/-- `str.upper()` on ASCII letters -/
def upperC (c : Nat) : Nat := if 97 ≤ c ∧ c ≤ 122 then c - 32 else c

def strsOf : List Val → Option (List Str)
  | [] => some []
  | .str s :: vs => (strsOf vs).map (s :: ·)
  | _ :: _ => Option.none

/-- `sep.join(items)` -/
def joinStr (sep : Str) : List Str → Str
  | [] => []
  | [s] => s
  | s :: t :: rest => s ++ sep ++ joinStr sep (t :: rest)

def strMethod (s : Str) (m : String) (args : List Val) : R Val :=
  if m = "upper" then
    match args with
    | [] => .ok (.str (s.map upperC))
    | _ => .stuck
  else if m = "join" then
    match args with
    | [.list vs] => (ofOpt (strsOf vs)).bind fun l => .ok (.str (joinStr s l))
    | [.tuple vs] => (ofOpt (strsOf vs)).bind fun l => .ok (.str (joinStr s l))
    | _ => .stuck
  else .stuck

def methodOf (I : Iface) (r : Val) (m : String) (args : List Val) : R Val :=
  match r with
  | .str s => strMethod s m args
  | _ => I.method r m args

@[simp] theorem methodOf_str (I : Iface) (s : Str) (m : String) (args : List Val) :
    methodOf I (.str s) m args = strMethod s m args := rfl
@[simp] theorem methodOf_obj (I : Iface) (c : String) (fs : List (String × Val)) (m : String) (args : List Val) :
    methodOf I (.obj c fs) m args = I.method (.obj c fs) m args := rfl

/-- the builtins `int`, `repr`; every other called name is a module-level name -/
def callFn (I : Iface) (f : String) (args : List Val) : R Val :=
  if f = "int" then
    match args with
    | [.int i] => .ok (.int i)
    | [.bool b] => .ok (.int (if b then 1 else 0))
    | _ => .stuck
  else if f = "repr" then
    match args with
    | [.int i] => .ok (.str (I.reprInt i))
    | [.flt n i] => .ok (.str (I.reprFlt n i))
    | _ => .stuck
  else I.call f args

/-- `v.a`: a stored attribute, else an attribute of the class -/
def attrOf (I : Iface) (v : Val) (a : String) : R Val :=
  match v with
  | .obj c fs =>
    match aget a fs with
    | some x => .ok x
    | Option.none => ofOpt (I.classAttr c a)
  | _ => .stuck

def iterOf : Val → Option (List Val)
  | .list vs => some vs
  | .tuple vs => some vs
  | _ => Option.none

@[simp] theorem iterOf_list (vs : List Val) : iterOf (.list vs) = some vs := rfl
@[simp] theorem iterOf_tuple (vs : List Val) : iterOf (.tuple vs) = some vs := rfl

def mapR {α β : Type} (f : α → R β) : List α → R (List β)
  | [] => .ok []
  | a :: l => (f a).bind fun b => (mapR f l).bind fun bs => .ok (b :: bs)

/-! ### syntax -/

mutual
inductive Expr where
  | var (x : Nat)
  | none
  | true
  | false
  | int (i : Int)
  | str (s : Str)
  | attr (e : Expr) (a : String)                         -- `e.a`
  | tuple (es : Exprs)
  | list (es : Exprs)
  | not (e : Expr)
  | and (a b : Expr)
  | or (a b : Expr)
  | isNone (e : Expr)                                    -- `e is None`
  | isNotNone (e : Expr)
  | cmp (op : CmpOp) (a b : Expr)
  | add (a b : Expr)
  | mod (f a : Expr)                                     -- `f % a`
  | index (e i : Expr)                                   -- `e[i]`
  | sliceFrom (e lo : Expr)                              -- `e[lo:]`
  | isinstance (e : Expr) (classes : List String)        -- `isinstance(e, C)` / `isinstance(e, (C, D))`
  | call (f : String) (args : Exprs)                     -- `f(args)`
  | callStar (f : String) (star : Expr)                  -- `f(*star)`
  | method (recv : Expr) (m : String) (args : Exprs)     -- `recv.m(args)`
  | clsCall (cls m : String) (args : Exprs)              -- `C.m(self, …)`
  | comp (elem : Expr) (x : Nat) (it : Expr)             -- `[elem for x in it]`
inductive Exprs where
  | nil
  | cons (e : Expr) (rest : Exprs)
end

inductive Target where
  | one (x : Nat)
  | tup (xs : List Nat)
deriving Repr, DecidableEq

mutual
inductive Stmt where
  | assign (t : Target) (e : Expr)
  | setAttr (x : Nat) (a : String) (e : Expr)            -- `x.a = e`
  | setAttrItem (x : Nat) (a : String) (k v : Expr)      -- `x.a[k] = v`
  | clsInit (cls : String) (x : Nat) (args : Exprs)      -- `C.__init__(x, args)`
  | ite (c : Expr) (t e : Block)
  | ret (e : Expr)
  | expr (e : Expr)
  | pass
inductive Block where
  | nil
  | cons (s : Stmt) (rest : Block)
end

/-! ### semantics -/

abbrev Env := Nat → Option Val

def Env.empty : Env := fun _ => Option.none

def Env.put (env : Env) (x : Nat) (v : Val) : Env := fun y => if y = x then some v else env y

@[simp] theorem Env.put_apply (env : Env) (x : Nat) (v : Val) (y : Nat) :
    (env.put x v) y = if y = x then some v else env y := rfl

def Env.ofArgs : List Val → Env
  | [] => Env.empty
  | v :: l => fun y => match y with
    | 0 => some v
    | y + 1 => Env.ofArgs l y

mutual
def Expr.eval (I : Iface) (env : Env) : Expr → R Val
  | .var x => ofOpt (env x)
  | .none => .ok .none
  | .true => .ok (.bool Bool.true)
  | .false => .ok (.bool Bool.false)
  | .int i => .ok (.int i)
  | .str s => .ok (.str s)
  | .attr e a => (e.eval I env).bind fun v => attrOf I v a
  | .tuple es => (es.eval I env).bind fun vs => .ok (.tuple vs)
  | .list es => (es.eval I env).bind fun vs => .ok (.list vs)
  | .not e => (e.eval I env).bind fun v => .ok (.bool (!truthy v))
  | .and a b => (a.eval I env).bind fun v => if truthy v then b.eval I env else .ok v
  | .or a b => (a.eval I env).bind fun v => if truthy v then .ok v else b.eval I env
  | .isNone e => (e.eval I env).bind fun v => .ok (.bool (isNoneV v))
  | .isNotNone e => (e.eval I env).bind fun v => .ok (.bool (!isNoneV v))
  | .cmp op a b => (a.eval I env).bind fun x => (b.eval I env).bind fun y => pyCmp op x y
  | .add a b => (a.eval I env).bind fun x => (b.eval I env).bind fun y => pyAdd x y
  | .mod f a => (f.eval I env).bind fun x => (a.eval I env).bind fun y => pyMod x y
  | .index e i => (e.eval I env).bind fun x => (i.eval I env).bind fun y => pyIndex x y
  | .sliceFrom e lo => (e.eval I env).bind fun x => (lo.eval I env).bind fun a => pySliceFrom x a
  | .isinstance e cs => (e.eval I env).bind fun v => .ok (.bool (cs.any fun c => I.isSub (typeName v) c))
  | .call f args => (args.eval I env).bind fun as => callFn I f as
  | .callStar f star => (star.eval I env).bind fun sv => (ofOpt (iterOf sv)).bind fun as => callFn I f as
  | .method recv m args => (recv.eval I env).bind fun r => (args.eval I env).bind fun as => methodOf I r m as
  | .clsCall c m args => (args.eval I env).bind fun as => I.clsCall c m as
  | .comp elem x it => (it.eval I env).bind fun iv => (ofOpt (iterOf iv)).bind fun l =>
      (mapR (fun v => elem.eval I (env.put x v)) l).bind fun vs => .ok (.list vs)
def Exprs.eval (I : Iface) (env : Env) : Exprs → R (List Val)
  | .nil => .ok []
  | .cons e rest => (e.eval I env).bind fun v => (rest.eval I env).bind fun vs => .ok (v :: vs)
end

def bindAll (env : Env) : List Nat → List Val → Option Env
  | [], [] => some env
  | x :: xs, v :: vs => bindAll (env.put x v) xs vs
  | _, _ => Option.none

def Target.bind (env : Env) : Target → Val → Option Env
  | .one x, v => some (env.put x v)
  | .tup xs, .tuple vs => bindAll env xs vs
  | .tup xs, .list vs => bindAll env xs vs
  | .tup _, _ => Option.none

inductive Res where
  | norm (env : Env)
  | ret (env : Env) (v : Val)
  | exc (env : Env) (e : Exc)
  | stuck

def Res.seq (r : Res) (k : Env → Res) : Res :=
  match r with
  | .norm env => k env
  | r => r

@[simp] theorem Res.seq_norm (env : Env) (k : Env → Res) : (Res.norm env).seq k = k env := by rw [Res.seq]
@[simp] theorem Res.seq_ret (env : Env) (v : Val) (k : Env → Res) : (Res.ret env v).seq k = .ret env v := by simp [Res.seq]
@[simp] theorem Res.seq_exc (env : Env) (e : Exc) (k : Env → Res) : (Res.exc env e).seq k = .exc env e := by simp [Res.seq]
@[simp] theorem Res.seq_stuck (k : Env → Res) : Res.stuck.seq k = .stuck := by simp [Res.seq]

def withR (env : Env) (r : R Val) (k : Val → Res) : Res :=
  match r with
  | .ok v => k v
  | .exc e => .exc env e
  | .stuck => .stuck

@[simp] theorem withR_ok (env : Env) (v : Val) (k : Val → Res) : withR env (.ok v) k = k v := by rw [withR]
@[simp] theorem withR_exc (env : Env) (e : Exc) (k : Val → Res) : withR env (.exc e) k = .exc env e := by rw [withR]
@[simp] theorem withR_stuck (env : Env) (k : Val → Res) : withR env .stuck k = .stuck := by rw [withR]

def withRs (env : Env) (r : R (List Val)) (k : List Val → Res) : Res :=
  match r with
  | .ok v => k v
  | .exc e => .exc env e
  | .stuck => .stuck

@[simp] theorem withRs_ok (env : Env) (v : List Val) (k : List Val → Res) : withRs env (.ok v) k = k v := by rw [withRs]
@[simp] theorem withRs_exc (env : Env) (e : Exc) (k : List Val → Res) : withRs env (.exc e) k = .exc env e := by rw [withRs]
@[simp] theorem withRs_stuck (env : Env) (k : List Val → Res) : withRs env .stuck k = .stuck := by rw [withRs]

def normOpt : Option Env → Res
  | some env => .norm env
  | Option.none => .stuck

@[simp] theorem normOpt_some (env : Env) : normOpt (some env) = .norm env := rfl
@[simp] theorem normOpt_none : normOpt Option.none = .stuck := rfl

/-- `x.a = v` -/
def setAttrOf (env : Env) (x : Nat) (a : String) (v : Val) : Option Env :=
  match env x with
  | some (.obj c fs) => some (env.put x (.obj c (aset fs a v)))
  | _ => Option.none

/-- `x.a[k] = v` -/
def setAttrItemOf (env : Env) (x : Nat) (a : String) (k v : Val) : Option Env :=
  match env x, k with
  | some (.obj c fs), .str ks =>
    match aget a fs with
    | some (.dict d) => some (env.put x (.obj c (aset fs a (.dict (aset d ks v)))))
    | _ => Option.none
  | _, _ => Option.none

mutual
def Stmt.exec (I : Iface) (env : Env) : Stmt → Res
  | .assign t e => withR env (e.eval I env) fun v => normOpt (t.bind env v)
  | .setAttr x a e => withR env (e.eval I env) fun v => normOpt (setAttrOf env x a v)
  | .setAttrItem x a k v => withR env (k.eval I env) fun kv => withR env (v.eval I env) fun vv =>
      normOpt (setAttrItemOf env x a kv vv)
  | .clsInit c x args => withRs env (args.eval I env) fun as =>
      withR env ((ofOpt (env x)).bind fun self => I.clsInit c self as) fun self' => .norm (env.put x self')
  | .ite c t e => withR env (c.eval I env) fun v => if truthy v then t.exec I env else e.exec I env
  | .ret e => withR env (e.eval I env) fun v => .ret env v
  | .expr e => withR env (e.eval I env) fun _ => .norm env
  | .pass => .norm env
def Block.exec (I : Iface) (env : Env) : Block → Res
  | .nil => .norm env
  | .cons s rest => (s.exec I env).seq fun env' => rest.exec I env'
end

/-- what the caller of a function sees -/
inductive Out where
  | ret (v : Val)
  | exc (e : Exc)
  | stuck

def Res.out : Res → Out
  | .norm _ => .ret .none
  | .ret _ v => .ret v
  | .exc _ e => .exc e
  | .stuck => .stuck

@[simp] theorem Res.out_norm (env : Env) : (Res.norm env).out = .ret .none := rfl
@[simp] theorem Res.out_ret (env : Env) (v : Val) : (Res.ret env v).out = .ret v := rfl
@[simp] theorem Res.out_exc (env : Env) (e : Exc) : (Res.exc env e).out = .exc e := rfl
@[simp] theorem Res.out_stuck : Res.stuck.out = .stuck := rfl

/-- an `__init__`: the state of `self` afterwards -/
def Res.selfOut : Res → R Val
  | .norm env => ofOpt (env 0)
  | .ret env _ => ofOpt (env 0)
  | .exc _ e => .exc e
  | .stuck => .stuck

@[simp] theorem Res.selfOut_norm (env : Env) : (Res.norm env).selfOut = ofOpt (env 0) := rfl
@[simp] theorem Res.selfOut_ret (env : Env) (v : Val) : (Res.ret env v).selfOut = ofOpt (env 0) := rfl
@[simp] theorem Res.selfOut_exc (env : Env) (e : Exc) : (Res.exc env e).selfOut = .exc e := rfl
@[simp] theorem Res.selfOut_stuck : Res.stuck.selfOut = .stuck := rfl

def Out.toR : Out → R Val
  | .ret v => .ok v
  | .exc e => .exc e
  | .stuck => .stuck

@[simp] theorem Out.toR_ret (v : Val) : (Out.ret v).toR = .ok v := rfl
@[simp] theorem Out.toR_exc (e : Exc) : (Out.exc e).toR = .exc e := rfl
@[simp] theorem Out.toR_stuck : Out.stuck.toR = .stuck := rfl

/-- call a translated function on its arguments -/
def run (I : Iface) (prog : Block) (args : List Val) : Out := (prog.exec I (Env.ofArgs args)).out

/-- run a translated `__init__` on `self :: args`: the initialised object -/
def runInit (I : Iface) (prog : Block) (args : List Val) : R Val := (prog.exec I (Env.ofArgs args)).selfOut

end SqlObjVerif.PyExpr
