import SqlObjVerif.Model.Graph
/-!
# C12 — the order-dependent refusal condition, stated on the *original* reference graph

`trav` walks the immutable original database in the order `destroySelf` visits it (dependent classes in
registry order, rows in table order, depth first) and only keeps the list `D` of keys deleted so far:
no NULLing, no link tables, no cache.  `C12_refusal_exact` proves that `destroySelf` is refused exactly when
this walk meets a row, not yet deleted, that references the current victim through a `cascade=False` key.
-/
namespace SqlObjVerif.Graph

abbrev Key := Nat × Nat

def Row.key (r : Row) : Key := (r.cls, r.id)

/-- `r` references `(c, i)` through a key of the given policy -/
def refB (S : Schema) (p : Policy) (r : Row) (c i : Nat) : Bool :=
  (depCols S c r.cls).any fun f => (S.fk r.cls f).policy == p && r.val f == some i

inductive TRes where
  | ok (D : List Key)
  | refused
  | fuel
deriving DecidableEq, Repr

def travRows (rec : List Key → Nat → Nat → TRes) (k : Nat) : List Nat → List Key → TRes
  | [], D => .ok D
  | i :: is, D =>
    if D.contains (k, i) then travRows rec k is D
    else match rec D k i with
      | .ok D' => travRows rec k is D'
      | r => r

/-- rows of class `k` that are still there -/
def alive (db : DB) (D : List Key) (k : Nat) : List Row :=
  db.rows.filter fun r => r.cls == k && !D.contains r.key

def travDep (S : Schema) (db : DB) (rec : List Key → Nat → Nat → TRes) (c i : Nat) (D : List Key) (k : Nat) : TRes :=
  if (alive db D k).any (fun r => refB S .restrict r c i) then .refused
  else travRows rec k (((alive db D k).filter fun r => refB S .cascade r c i).map (·.id)) D

def travDeps (S : Schema) (db : DB) (rec : List Key → Nat → Nat → TRes) (c i : Nat) : List Nat → List Key → TRes
  | [], D => .ok D
  | k :: ks, D =>
    match travDep S db rec c i D k with
    | .ok D' => travDeps S db rec c i ks D'
    | r => r

def travStep (S : Schema) (db : DB) (rec : List Key → Nat → Nat → TRes) (D : List Key) (c i : Nat) : TRes :=
  match travDeps S db rec c i (dependents S c) D with
  | .ok D' => .ok ((c, i) :: D')
  | r => r

def trav (S : Schema) (db : DB) : Nat → List Key → Nat → Nat → TRes
  | 0 => fun _ _ _ => .fuel
  | n + 1 => travStep S db (trav S db n)

/-- the walk from scratch, with one activation per row available -/
def traverse (S : Schema) (db : DB) (c i : Nat) : TRes := trav S db (db.rows.length + 1) [] c i

end SqlObjVerif.Graph
